import HawkModel.Rbt
import HawkModel.Drv.Util
/-! driver for the rbt area (C16, red-black tree half): one op per line in, canonical line out;
    same protocol and output format as harness/rbt_h.c -/
namespace Hawk.Drv.Rbt
open Hawk.Rbt

abbrev Tr := T Nat

def showCol : Color → String
  | .R => "R" | .B => "B"

/-- preorder dump `(<colour><key>=<val>^<parent key or -> <left> <right>)`, nil = `.` -/
def dumpT (par : String) : Tr → String
  | .nil => "."
  | .node c l k v r =>
    "(" ++ showCol c ++ toString k ++ "=" ++ toString v ++ "^" ++ par ++ " " ++
      dumpT (toString k) l ++ " " ++ dumpT (toString k) r ++ ")"

def invOk (t : Tr) : Bool :=
  decide (Inv t) && decide (2 ^ ((height t + 1) / 2) ≤ size t + 1)

def dump (t : Tr) : String :=
  s!"n={size t} h={height t} inv={if invOk t then "ok" else "BAD"} t={dumpT "-" t}"

def showRes : Res Nat → String
  | .pair k v => s!"{k}:{v}"
  | .eexist => "EEXIST"
  | .enoent => "ENOENT"
  | .failed => "CBFAIL"

def showKvs (l : List (Nat × Nat)) : String :=
  joinWith "," (l.map fun (k, v) => s!"{k}:{v}")

/-- `iter d n`: getfirstpair, then at most `n` further getnextpair calls -/
def iterN (it : Itr Nat) : Nat → List (Nat × Nat) × Bool
  | 0 => match it.cur with
    | none => ([], true)
    | some kv => ([kv], false)
  | n + 1 => match it.cur with
    | none => ([], true)
    | some kv => let (l, e) := iterN (getNext it) n; (kv :: l, e)

def step (s : Option Tr) (line : String) : Option Tr × String :=
  match words line, s with
  | ["new", k], _ => match k.toNat? with
    | some k => if k < 5 then (some .nil, "ok") else (s, "bad-op")
    | none => (s, "bad-op")
  | _, none => (s, "bad-op")
  | [op, k, v], some t =>
    match k.toNat?, v.toNat? with
    | some k, some v =>
      if op == "iter" then
        if k < 2 then
          let (l, e) := iterN (getFirst t (k == 1)) v
          (s, s!"w={showKvs l} end={if e then 1 else 0}")
        else (s, "bad-op")
      else if k < 1024 && v < 256 then
        let o : Option Opt := match op with
          | "insert" => some .insert | "upsert" => some .upsert
          | "update" => some .update | "ensert" => some .ensert | _ => none
        match o with
        | some o => let (t', r) := insertOp o t k v; (some t', s!"r={showRes r} {dump t'}")
        | none => (s, "bad-op")
      else (s, "bad-op")
    | _, _ => (s, "bad-op")
  | ["cbsert", k, v, m], some t =>
    match k.toNat?, v.toNat?, m.toNat? with
    | some k, some v, some m =>
      if k < 1024 && v < 256 && m < 5 then
        -- the harness' callbacks: 0/4 = hand back a pair with value v, 1 = keep the existing pair,
        -- 2 = fail, 3 = existing value + v; a new pair with value v for an absent key (except 2)
        let f : Option Nat → Option Nat := fun o =>
          if m == 2 then none else
          match o with
          | none => some v
          | some v0 => if m == 1 then some v0 else if m == 3 then some ((v0 + v) % 256) else some v
        let (t', r) := cbsert t k f; (some t', s!"r={showRes r} {dump t'}")
      else (s, "bad-op")
    | _, _, _ => (s, "bad-op")
  | ["delete", k], some t => match k.toNat? with
    | some k => if k < 1024 then
        let (t', ok) := delete t k; (some t', s!"r={if ok then "0" else "ENOENT"} {dump t'}")
      else (s, "bad-op")
    | none => (s, "bad-op")
  | ["search", k], some t => match k.toNat? with
    | some k => if k < 1024 then
        (s, match search t k with | some v => s!"r={k}:{v}" | none => "r=ENOENT")
      else (s, "bad-op")
    | none => (s, "bad-op")
  | ["zip", n], some t => match n.toNat? with
    | some n =>
      -- two independent iterators in lockstep, then a fresh backward one (first two pairs), twice:
      -- `hawk_rbt_getfirstpair` restarts an iterator whatever state it was left in
      let (a, _) := iterN (getFirst t false) n
      let (b, _) := iterN (getFirst t true) n
      let (c, _) := iterN (getFirst t true) 1
      (s, s!"w={showKvs a}|{showKvs b}|{showKvs c}|{showKvs c}")
    | none => (s, "bad-op")
  | ["clear"], some t => let t' := clear t; (some t', s!"r=ok {dump t'}")
  | ["walk"], some t => (s, s!"w={showKvs (walk t)}")
  | ["rwalk"], some t => (s, s!"w={showKvs (rwalk t)}")
  | ["walk", n], some t => match n.toNat? with
    | some n => (s, s!"w={showKvs (if n = 0 then walk t else (walk t).take n)}")
    | none => (s, "bad-op")
  | ["rwalk", n], some t => match n.toNat? with
    | some n => (s, s!"w={showKvs (if n = 0 then rwalk t else (rwalk t).take n)}")
    | none => (s, "bad-op")
  | _, _ => (s, "bad-op")

def main : IO Unit := do
  forLines (← IO.getStdin) (Option Tr) none step

end Hawk.Drv.Rbt
