import HawkModel.SedParse
import HawkModel.Drv.Sed
/-!
  drivers for the script compiler of the sed area.

  `hawkdrv sedc` : line := <traits a|x|y letters or "-"> <script string>
                   out  := "ok" (<cmd>)*  |  "err" <HAWK_SED_Exxx name>
                   cmd  := type,negated,a1,a2[,arg]*   (the dump of the hawk_sed_cmd_t chain made by harness/sedc_h.c)
  `hawkdrv sedt` : line := <quiet 0|1> <fuel> <input string> <traits> <fragment string>(/<fragment string>)* (<rfile string>=<content string>|-)*
                   out  := as `hawkdrv sed` (the model executes what ITS compiler made of the text)
-/
namespace Hawk.Drv.SedC
open Hawk.Sed Hawk.Drv.Sed

def decTraits (t : String) : Traits :=
  { strict := t.contains 'a', sameline := t.contains 'x', ensurenl := t.contains 'y' }

def showAddr : PAddr → String
  | .none => "-"
  | .last => "$"
  | .line n => s!"L{n}"
  | .re p ic => s!"R{if ic then 1 else 0}:{encStr p}"

def b01 (b : Bool) : String := if b then "1" else "0"

def showTarget (prog : Prog) (i : Nat) : String :=
  match prog[i]? with
  | some { op := .branch j, .. } => s!"T{j}"
  | some { op := .tbranch j, .. } => s!"T{j}"
  | _ => "T?"

def showCmd (prog : Prog) (i : Nat) (c : PCmd) : String :=
  let pre (ty : Nat) (neg : Bool) := s!"{ty},{b01 neg},{showAddr c.a1},{showAddr c.a2}"
  match c.op with
  | .label _ => pre 0 c.neg
  | .rbrace => pre 0 c.neg
  | .lbrace => s!"{pre 98 (!c.neg)},{showTarget prog i}"
  | .simple ch => pre ch.toNat c.neg
  | .text ch t => s!"{pre ch.toNat c.neg},{encStr t}"
  | .file ch f => s!"{pre ch.toNat c.neg},{encStr f}"
  | .branch ch _ => s!"{pre ch.toNat c.neg},{showTarget prog i}"
  | .subst re rpl g p i k occ w =>
    s!"{pre 115 c.neg},{encStr re},{encStr rpl},{b01 g},{b01 p},{b01 i},{b01 k},{occ},{match w with | some f => encStr f | none => "-"}"
  | .trans pairs => s!"{pre 121 c.neg},{encStr (pairs.flatMap fun (a, b) => [a, b])}"

def showPErr (e : PErr) : String := ((toString (repr e)).splitOn ".").getLast!

def showCompErr : CompErr → String
  | .noLabel => "ELABNF"
  | e => s!"COMP:{(toString (repr e)).splitOn "." |>.getLast!}"

def dumpCase (line : String) : String :=
  match words line with
  | [tr, script] =>
    match parseScript (decTraits tr) (decStr script) with
    | .error e => s!"err {showPErr e}"
    | .ok cs =>
      match compile (cs.map PCmd.toS) with
      | .error e => s!"err {showCompErr e}"
      | .ok prog =>
        let rec go (i : Nat) : List PCmd → List String
          | [] => []
          | c :: rest => showCmd prog i c :: go (i + 1) rest
        " ".intercalate ("ok" :: go 0 cs)
  | _ => "bad-case"

def mainC : IO Unit := do
  let stdin ← IO.getStdin
  forLines stdin Unit () fun _ line => ((), dumpCase line)

/-- fill in the content of `r` files (the file system is not part of the model state) -/
def withFiles (tbl : List (Str × Option Str)) (c : SCmd) : SCmd :=
  match c.op with
  | .op (.readFile f _) => { c with op := .op (.readFile f ((tbl.lookup f).getD none)) }
  | _ => c

def decFile (t : String) : Option (Str × Option Str) :=
  match t.splitOn "=" with
  | [n, c] => some (decStr n, decOpt c)
  | _ => none

def runText (line : String) : String :=
  match words line with
  | q :: fuel :: inp :: tr :: script :: files =>
    -- the script comes as its fragments (-e / -f pieces) joined by "/"
    match parseScript (decTraits tr) (deliver ((script.splitOn "/").map decStr)) with
    | .error e => s!"comperr {showPErr e}"
    | .ok cs =>
      if !cs.all PCmd.modelled then "unmodelled"
      else
        let tbl := files.filterMap decFile
        match run bre (cs.map fun c => withFiles tbl c.toS) (q == "1") 20000 (fuel.toNat?.getD 1000) (splitLines (decStr inp)) with
        | .error e => s!"comperr {repr e}"
        | .ok r =>
          let fs := r.files.map fun (n, c) => s!"{encStr n}={encStr c}"
          " ".intercalate ([showStatus r.status, encStr r.out, encStr (r.unspec.map fun n => Char.ofNat (n + 48)), encStr r.hold] ++ fs)
  | _ => "bad-case"

def mainT : IO Unit := do
  let stdin ← IO.getStdin
  forLines stdin Unit () fun _ line => ((), runText line)

end Hawk.Drv.SedC
