import HawkModel.CtxApi
import HawkModel.Drv.Util
/-! driver for the API-ownership model of C09 (round 5): one op per line, prints what harness/ctxapi_h.c prints
    before its " #" allocator part -/
namespace Hawk.Drv.CtxApi
open Hawk.CtxApi

def nat (s : String) : Nat := s.toNat?.getD 99
def int (s : String) : Int := s.toInt?.getD 0

def parseOp : List String → Option Op
  | ["hopen", h] => some (.hopen (nat h))
  | ["hclose", h] => some (.hcall (nat h) .close)
  | ["hclear", h] => some (.hcall (nat h) .clear)
  | ["hparse", h, p] => some (.hcall (nat h) (.parse (nat p)))
  | ["hpushecb", h, e] => some (.hcall (nat h) (.pushecb (nat e)))
  | ["hpopecb", h] => some (.hcall (nat h) .popecb)
  | ["haddgbl", h, n] => some (.hcall (nat h) (.addgbl n))
  | ["hdelgbl", h, n] => some (.hcall (nat h) (.delgbl n))
  | ["haddfnc", h, n] => some (.hcall (nat h) (.addfnc n))
  | ["hdelfnc", h, n] => some (.hcall (nat h) (.delfnc n))
  | ["hseterr", h, n] => some (.hcall (nat h) (.seterr (nat n)))
  | ["hhaltall", h] => some (.hcall (nat h) .haltall)
  | ["hsetopt", h, n] => some (.hcall (nat h) (.setopt (nat n)))
  | ["hxtn", h, n] => some (.hcall (nat h) (.xtn (int n)))
  | ["ropen", h, r] => some (.rcall (nat h) (nat r) .open)
  | ["rclose", h, r] => some (.rcall (nat h) (nat r) .close)
  | ["rpushecb", h, r, e] => some (.rcall (nat h) (nat r) (.pushecb (nat e)))
  | ["rpopecb", h, r] => some (.rcall (nat h) (nat r) .popecb)
  | ["rcall", h, r, f, a] => some (.rcall (nat h) (nat r) (.call f a))
  | ["rloop", h, r] => some (.rcall (nat h) (nat r) .loop)
  | ["rhalt", h, r] => some (.rcall (nat h) (nat r) .halt)
  | ["rmk", h, r, k, kind, t] =>
    some (.rcall (nat h) (nat r) (.mk (nat k) (if kind == "s" then 0 else if kind == "i" then 1 else 2) t))
  | ["rup", h, r, k] => some (.rcall (nat h) (nat r) (.up (nat k)))
  | ["rdown", h, r, k] => some (.rcall (nat h) (nat r) (.down (nat k)))
  | ["rdownnf", h, r, k] => some (.rcall (nat h) (nat r) (.downnf (nat k)))
  | ["rsetgbl", h, r, k] => some (.rcall (nat h) (nat r) (.setgbl (nat k)))
  | ["rgetgbl", h, r, k] => some (.rcall (nat h) (nat r) (.getgbl (nat k)))
  | ["rgetstr", h, r, k] => some (.rcall (nat h) (nat r) (.getstr (nat k)))
  | ["rfreestr", h, r] => some (.rcall (nat h) (nat r) .freestr)
  | ["rtostr", h, r, k, m] => some (.rcall (nat h) (nat r) (.tostr (nat k) m))
  | ["rseterr", h, r, n] => some (.rcall (nat h) (nat r) (.seterr (nat n)))
  | ["rxtn", h, r, n] => some (.rcall (nat h) (nat r) (.xtn (int n)))
  | _ => none

def step (w : World) (line : String) : World × String :=
  match Hawk.Drv.words line with
  | ["reset"] => (World.empty, "reset")
  | ws =>
    match parseOp ws with
    | none => (w, "bad-op")
    | some op =>
      if op.hawk ≥ nHawk then (w, "bad-op") else
      let (w1, res) := w.step op
      (w1, lineOf w1 res)

def main : IO Unit := do
  Hawk.Drv.forLines (← IO.getStdin) World World.empty step

end Hawk.Drv.CtxApi
