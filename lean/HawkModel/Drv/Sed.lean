import HawkModel.Sed
import HawkModel.Drv.Util
/-!
  driver for the sed area: one case per line in, one canonical result line out.

  line   := <quiet 0|1> <fuel> <input> <cmd>*
  string := "_" (empty) | code points in decimal joined by "."
  cmd    := a1,a2,neg,op[,arg]*        (fields joined by ",")
  addr   := "-" | "L"<n> | "$" | "R"<string>          ("R_" = the empty regex)
  op     := lab,<string> | { | } | b,<string>|- | t,<string>|- | q d D = p P l h H g G x n N
          | a,<string> | i,<string> | c,<string> | w,<string> | r,<file string>,<content string>|-
          | s,<re>,<rpl>,<g 0|1>,<occ>,<p 0|1>,<file string>|-
          | y,<from string>,<to string>
  result := ok|err|fuel|comperr <out string> <unspec string> <hold string> [<file string>=<content string>]*

  The regex matcher instantiating the model's `Matcher` parameter lives here only: POSIX BRE subset
  (literals, `.`, bracket lists without ranges/classes, `*`, `^`, `$`, `\(..\)`, `\c`), leftmost-longest.
-/
namespace Hawk.Drv.Sed
open Hawk.Sed

/-! ### tiny BRE matcher -/

inductive Re where
  | chr (c : Char)
  | any
  | set (neg : Bool) (cs : List Char)
  | star (r : Re)
  | grp (i : Nat) (rs : List Re)
  | bol
  | eol
deriving Repr, Inhabited

structure PState where
  rest : List Char
  ngrp : Nat := 0

/-- parse a sequence up to `\)` (if `inGrp`) or the end; returns (items, rest, group counter) -/
partial def parseSeq (inGrp : Bool) (s : List Char) (ngrp : Nat) (acc : List Re) (atStart : Bool) : List Re × List Char × Nat :=
  let star? (r : Re) (rest : List Char) : Re × List Char :=
    match rest with
    | '*' :: rest' => (Re.star r, rest')
    | _ => (r, rest)
  match s with
  | [] => (acc.reverse, [], ngrp)
  | '\\' :: ')' :: rest => if inGrp then (acc.reverse, rest, ngrp) else parseSeq inGrp rest ngrp (Re.chr ')' :: acc) false
  | '\\' :: '(' :: rest =>
    let gi := ngrp
    let (items, rest', n') := parseSeq true rest (ngrp + 1) [] true
    let (r, rest'') := star? (Re.grp gi items) rest'
    parseSeq inGrp rest'' n' (r :: acc) false
  | '\\' :: c :: rest =>
    let (r, rest') := star? (Re.chr c) rest
    parseSeq inGrp rest' ngrp (r :: acc) false
  | '^' :: rest =>
    if atStart then parseSeq inGrp rest ngrp (Re.bol :: acc) true
    else let (r, rest') := star? (Re.chr '^') rest; parseSeq inGrp rest' ngrp (r :: acc) false
  | '$' :: rest =>
    let atEnd := rest.isEmpty || (inGrp && rest.take 2 == ['\\', ')'])
    if atEnd then parseSeq inGrp rest ngrp (Re.eol :: acc) false
    else let (r, rest') := star? (Re.chr '$') rest; parseSeq inGrp rest' ngrp (r :: acc) false
  | '*' :: rest =>
    if atStart then parseSeq inGrp rest ngrp (Re.chr '*' :: acc) false
    else parseSeq inGrp rest ngrp (Re.chr '*' :: acc) false
  | '.' :: rest =>
    let (r, rest') := star? Re.any rest
    parseSeq inGrp rest' ngrp (r :: acc) false
  | '[' :: rest =>
    let (neg, rest) := match rest with | '^' :: r => (true, r) | r => (false, r)
    -- a ']' right after '[' or '[^' is a member
    let (first, rest) := match rest with | ']' :: r => ([']'], r) | r => ([], r)
    let members := rest.takeWhile (· != ']')
    let rest' := (rest.dropWhile (· != ']')).drop 1
    let (r, rest'') := star? (Re.set neg (first ++ members)) rest'
    parseSeq inGrp rest'' ngrp (r :: acc) false
  | c :: rest =>
    let (r, rest') := star? (Re.chr c) rest
    parseSeq inGrp rest' ngrp (r :: acc) false

def parseRe (p : List Char) : List Re := (parseSeq false p 0 [] true).1

abbrev Groups := List (Nat × (Nat × Nat))   -- group index ↦ (start, len), latest first

mutual
/-- all ways to match `rs` at `pos`, greedy order: (end, groups) -/
partial def mSeq (subj : Array Char) (rs : List Re) (pos : Nat) (g : Groups) : List (Nat × Groups) :=
  match rs with
  | [] => [(pos, g)]
  | r :: rest => (mOne subj r pos g).flatMap fun (p, g') => mSeq subj rest p g'

partial def mOne (subj : Array Char) (r : Re) (pos : Nat) (g : Groups) : List (Nat × Groups) :=
  match r with
  | .chr c => if subj[pos]? == some c then [(pos + 1, g)] else []
  | .any => if pos < subj.size then [(pos + 1, g)] else []
  | .set neg cs =>
    match subj[pos]? with
    | some c => if cs.contains c != neg then [(pos + 1, g)] else []
    | none => []
  | .bol => if pos == 0 then [(pos, g)] else []
  | .eol => if pos == subj.size then [(pos, g)] else []
  | .grp i rs => (mSeq subj rs pos g).map fun (p, g') => (p, (i, (pos, p - pos)) :: g')
  | .star r' =>
    let more := (mOne subj r' pos g).flatMap fun (p, g') =>
      if p > pos then mOne subj (.star r') p g' else []
    more ++ [(pos, g)]
end

def pickLongest (cands : List (Nat × Groups)) : Option (Nat × Groups) :=
  cands.foldl (fun best c => match best with
    | none => some c
    | some b => if c.1 > b.1 then some c else some b) none

partial def searchFrom (subj : Array Char) (rs : List Re) (st : Nat) : Option MatchRes :=
  if st > subj.size then none
  else
    match pickLongest (mSeq subj rs st []) with
    | some (e, g) =>
      let grp (i : Nat) : Nat × Nat := match g.lookup i with | some x => x | none => (0, 0)
      some { start := st, len := e - st, groups := (List.range 9).map grp }
    | none => searchFrom subj rs (st + 1)

def bre : Matcher := fun p s start => searchFrom s.toArray (parseRe p) start

/-! ### protocol -/

def decStr (t : String) : Str :=
  if t == "_" || t == "" then [] else (t.splitOn ".").filterMap fun w => w.toNat?.map Char.ofNat

def encStr (s : Str) : String :=
  if s.isEmpty then "_" else ".".intercalate (s.map fun c => toString c.toNat)

def decAddr (t : String) : Option Addr :=
  if t == "-" then some Addr.none
  else if t == "$" then some Addr.last
  else if t.startsWith "L" then (t.drop 1).toNat?.map Addr.line
  else if t.startsWith "R" then some (Addr.re (decStr (t.drop 1).toString))
  else none

def decOpt (t : String) : Option Str := if t == "-" then none else some (decStr t)

def simpleOp : String → Option Op
  | "q" => some .quit | "d" => some .delete | "D" => some .deleteFirst | "=" => some .lineno
  | "p" => some .print | "P" => some .printFirst | "l" => some .list | "h" => some .hold
  | "H" => some .holdAppend | "g" => some .get | "G" => some .getAppend | "x" => some .xchg
  | "n" => some .next | "N" => some .nextAppend
  | _ => none

def decSOp : List String → Option SOp
  | ["lab", l] => some (.label (decStr l))
  | ["{"] => some .lbrace
  | ["}"] => some .rbrace
  | ["b", l] => some (.b (decOpt l))
  | ["t", l] => some (.t (decOpt l))
  | ["a", t] => some (.op (.append (decStr t)))
  | ["i", t] => some (.op (.insert (decStr t)))
  | ["c", t] => some (.op (.change (decStr t)))
  | ["w", f] => some (.op (.wfile (decStr f)))
  | ["r", f, c] => some (.op (.readFile (decStr f) (decOpt c)))
  | ["s", re, rpl, g, occ, p, w] =>
    some (.op (.subst (decStr re) (decStr rpl) (g == "1") (occ.toNat?.getD 0) (p == "1") (decOpt w)))
  | ["y", a, b] => some (.op (.trans ((decStr a).zip (decStr b))))
  | [o] => (simpleOp o).map SOp.op
  | _ => none

def decCmd (t : String) : Option SCmd :=
  match t.splitOn "," with
  | a1 :: a2 :: neg :: op =>
    match decAddr a1, decAddr a2, decSOp op with
    | some x, some y, some o => some { a1 := x, a2 := y, neg := neg == "1", op := o }
    | _, _, _ => none
  | _ => none

def showStatus : Status → String
  | .ok => "ok" | .error => "err" | .outOfFuel => "fuel"

def runCase (line : String) : String :=
  match words line with
  | q :: fuel :: inp :: cmds =>
    match cmds.mapM decCmd with
    | none => "bad-case"
    | some src =>
      match run bre src (q == "1") 20000 (fuel.toNat?.getD 1000) (splitLines (decStr inp)) with
      | .error e => s!"comperr {repr e}"
      | .ok r =>
        let files := r.files.map fun (n, c) => s!"{encStr n}={encStr c}"
        " ".intercalate ([showStatus r.status, encStr r.out, encStr (r.unspec.map fun n => Char.ofNat (n + 48)), encStr r.hold] ++ files)
  | _ => "bad-case"

def main : IO Unit := do
  let stdin ← IO.getStdin
  forLines stdin Unit () fun _ line => ((), runCase line)

end Hawk.Drv.Sed
