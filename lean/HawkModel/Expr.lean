/-!
# Model of hawk's expression evaluator and constant folder (property C08)

Transcribed from
* `lib/parse.c`  : `fold_constants_for_binop`, the literal folding in `parse_unary`, `parse_binary`
* `lib/run.c`    : `eval_binary` + `eval_binop_*`, `eval_unary`, `eval_incpre`, `eval_incpst`, `eval_cnd`,
                   `eval_assignment`, `do_assignment_nonindexed/_indexed`, `eval_named/gbl/lcl/arg`,
                   `eval_indexed`, `hawk_rtx_evalcall` (by-reference copy-back), `get_reference*`
* `lib/val.c`    : `hawk_rtx_valtonum`, `hawk_rtx_valtoint`, `hawk_rtx_valtobool`, `hawk_rtx_setrefval`

Conventions
* `hawk_int_t` is `Int` with an explicit `wrap64` after every operation that can leave the 64-bit range.
* `hawk_flt_t` is an abstract type `F` with the operations the C code applies to it (`FloatOps`).
* everything hawk delegates to other subsystems (string<->number conversion, CONVFMT rendering,
  comparison (property C11), regular-expression matching) is a field of `Ext` - the theorems hold for
  every `Ext`.
* the machine division is a PARTIAL operation (`cdiv`, `cmod`): it has no value for a zero divisor and for
  `INT_MIN / -1` (SIGFPE).  A use of it without a guard shows up as `Err.crash`.
* not modelled: non-scalar operand values (maps/arrays as values of an expression), the `in` operator,
  positional variables `$n`, the special built-in globals (NF, FS, ...), index expressions with side effects.
-/
namespace Hawk.Expr

/-! ## 64-bit integers -/

def INT_MIN : Int := -9223372036854775808
def INT_MAX : Int := 9223372036854775807

/-- two's complement wrap-around of a mathematical integer into `hawk_int_t` -/
def wrap64 (i : Int) : Int := (i + 9223372036854775808) % 18446744073709551616 - 9223372036854775808

def InRange (i : Int) : Prop := -9223372036854775808 ≤ i ∧ i < 9223372036854775808

/-- the bit pattern of a `hawk_int_t` as an unsigned number -/
def toU64 (i : Int) : Nat := (i % 18446744073709551616).toNat

/-- the machine `/` on `hawk_int_t`: no value (SIGFPE) for a zero divisor and for `INT_MIN / -1` -/
def cdiv (a b : Int) : Option Int :=
  if b = 0 ∨ (a = INT_MIN ∧ b = -1) then none else some (Int.tdiv a b)

/-- the machine `%` on `hawk_int_t`: same trapping cases as `cdiv` (one `idiv` instruction) -/
def cmod (a b : Int) : Option Int :=
  if b = 0 ∨ (a = INT_MIN ∧ b = -1) then none else some (Int.tmod a b)

/-- `l1 << l2` as the x86-64 `shl` computes it: count taken modulo 64, result truncated to 64 bits -/
def shl64 (a b : Int) : Int := wrap64 (a * 2 ^ (b % 64).toNat)

/-- `l1 >> l2` as the x86-64 `sar` computes it: arithmetic shift, count taken modulo 64 -/
def sar64 (a b : Int) : Int := Int.shiftRight a (b % 64).toNat

def band64 (a b : Int) : Int := wrap64 (Int.ofNat (Nat.land (toU64 a) (toU64 b)))
def bor64 (a b : Int) : Int := wrap64 (Int.ofNat (Nat.lor (toU64 a) (toU64 b)))
def bxor64 (a b : Int) : Int := wrap64 (Int.ofNat (Nat.xor (toU64 a) (toU64 b)))
/-- `~l` -/
def bnot64 (a : Int) : Int := wrap64 (-a - 1)

/-! ## floating point numbers: abstract -/

/-- the operations the evaluator and the folder apply to `hawk_flt_t` -/
class FloatOps (F : Type) where
  /-- `(hawk_flt_t)l` -/
  ofInt : Int → F
  neg : F → F
  add : F → F → F
  sub : F → F → F
  mul : F → F → F
  div : F → F → F
  /-- `hawk->prm.math.mod` (fmodl) -/
  fmod : F → F → F
  /-- `hawk->prm.math.pow` (powl) -/
  pow : F → F → F
  /-- `(hawk_int_t)r` -/
  toIntTrunc : F → Int
  /-- `r == 0.0` -/
  isZero : F → Bool

open FloatOps

/-- `(hawk_int_t)r` kept inside the 64-bit range whatever the instance returns -/
def f2i {F : Type} [FloatOps F] (r : F) : Int := wrap64 (toIntTrunc r)

/-! ## values, errors, operators -/

inductive Val (F : Type) where
  | nil
  | int (i : Int)
  | flt (f : F)
  | str (s : String)
  | mbs (b : List UInt8)
  | char (c : Char)
  | bchr (b : UInt8)

/-- result of `hawk_rtx_valtonum`: 0 = integer in `*l`, 1 = float in `*r` -/
inductive Num (F : Type) where
  | int (l : Int)
  | flt (r : F)

inductive Err where
  | divby0          -- HAWK_EDIVBY0
  | operand         -- HAWK_EOPERAND
  | notidxacc       -- HAWK_ENOTIDXACC
  | scalartononsca  -- HAWK_ESCALARTONONSCA
  | nonscatoscalar  -- HAWK_ENONSCATOSCALAR
  | intern          -- HAWK_EINTERN / a failed HAWK_ASSERT
  | ext (code : Nat) -- an error reported by an `Ext` component (comparison, matching)
  | notmodelled     -- the model does not cover this situation (non-scalar operand, `in`)
  | crash           -- undefined behaviour reached: the machine division trapped (SIGFPE)
  deriving DecidableEq, Repr

/-- `hawk_binop_type_t`, in declaration order -/
inductive BinOp where
  | lor | land | inop
  | bor | bxor | band
  | teq | tne | eq | ne | gt | ge | lt | le
  | ls | rs
  | plus | minus | mul | div | idiv | mod | exp
  | concat | ma | nm
  deriving DecidableEq, Repr

/-- `hawk_assop_type_t`, in declaration order -/
inductive AssOp where
  | none | plus | minus | mul | div | idiv | mod | exp | concat | rs | ls | band | bxor | bor
  deriving DecidableEq, Repr

/-- `hawk_unrop_type_t` -/
inductive UnrOp where
  | plus | minus | lnot | bnot
  deriving DecidableEq, Repr

/-- `hawk_incop_type_t` -/
inductive IncOp where
  | plus | minus
  deriving DecidableEq, Repr

def BinOp.all : List BinOp :=
  [.lor, .land, .inop, .bor, .bxor, .band, .teq, .tne, .eq, .ne, .gt, .ge, .lt, .le, .ls, .rs,
   .plus, .minus, .mul, .div, .idiv, .mod, .exp, .concat, .ma, .nm]

def AssOp.all : List AssOp :=
  [.none, .plus, .minus, .mul, .div, .idiv, .mod, .exp, .concat, .rs, .ls, .band, .bxor, .bor]

/-- the enumerator name (without `HAWK_BINOP_`) -/
def BinOp.cname : BinOp → String
  | .lor => "LOR" | .land => "LAND" | .inop => "IN" | .bor => "BOR" | .bxor => "BXOR" | .band => "BAND"
  | .teq => "TEQ" | .tne => "TNE" | .eq => "EQ" | .ne => "NE" | .gt => "GT" | .ge => "GE" | .lt => "LT" | .le => "LE"
  | .ls => "LS" | .rs => "RS" | .plus => "PLUS" | .minus => "MINUS" | .mul => "MUL" | .div => "DIV"
  | .idiv => "IDIV" | .mod => "MOD" | .exp => "EXP" | .concat => "CONCAT" | .ma => "MA" | .nm => "NM"

def AssOp.cname : AssOp → String
  | .none => "NONE" | .plus => "PLUS" | .minus => "MINUS" | .mul => "MUL" | .div => "DIV" | .idiv => "IDIV"
  | .mod => "MOD" | .exp => "EXP" | .concat => "CONCAT" | .rs => "RS" | .ls => "LS" | .band => "BAND"
  | .bxor => "BXOR" | .bor => "BOR"

/-- which `eval_binop_<name>` the corresponding case of `evalBinop` below transcribes
(`none`: handled on the operand nodes by `eval`, the table entry is `HAWK_NULL`) -/
def BinOp.cfun : BinOp → Option String
  | .lor | .land | .inop | .ma | .nm => none
  | .bor => some "bor" | .bxor => some "bxor" | .band => some "band"
  | .teq => some "teq" | .tne => some "tne" | .eq => some "eq" | .ne => some "ne"
  | .gt => some "gt" | .ge => some "ge" | .lt => some "lt" | .le => some "le"
  | .ls => some "lshift" | .rs => some "rshift"
  | .plus => some "plus" | .minus => some "minus" | .mul => some "mul" | .div => some "div"
  | .idiv => some "idiv" | .mod => some "mod" | .exp => some "exp" | .concat => some "concat"

/-- the binary operator a compound assignment applies (`binop_func[]` of `eval_assignment`) -/
def assopToBinop : AssOp → BinOp
  | .none => .plus   -- unused: HAWK_ASSOP_NONE never reaches the table
  | .plus => .plus | .minus => .minus | .mul => .mul | .div => .div | .idiv => .idiv | .mod => .mod
  | .exp => .exp | .concat => .concat | .rs => .rs | .ls => .ls | .band => .band | .bxor => .bxor | .bor => .bor

/-- `inc_val_int` of `eval_incpre`/`eval_incpst`; `inc_val_flt` is the same number as a float -/
def incDelta : IncOp → Int
  | .plus => 1
  | .minus => -1

def IncOp.cname : IncOp → String
  | .plus => "PLUS" | .minus => "MINUS"

/-! ## external components -/

/-- the comparison operators served by `__cmp_val` -/
inductive CmpOp where
  | eq | ne | gt | ge | lt | le
  deriving DecidableEq, Repr

/-- everything the evaluator delegates to other subsystems -/
structure Ext (F : Type) where
  /-- `hawk_oochars_to_num` with the options used by `hawk_rtx_valtonum` -/
  strToNum : String → Num F
  /-- `hawk_bchars_to_num` -/
  mbsToNum : List UInt8 → Num F
  /-- CONVFMT rendering of a float (`hawk_rtx_valtostr`) -/
  fltToStr : F → String
  /-- byte string -> character string (cmgr) -/
  mbsToStr : List UInt8 → String
  /-- character string -> byte string (cmgr) -/
  strToMbs : String → List UInt8
  /-- `__cmp_val` followed by the operator's test on the sign (property C11) -/
  cmp : CmpOp → Val F → Val F → Except Err Bool
  /-- `teq_val` -/
  teq : Val F → Val F → Bool
  /-- `hawk_rtx_matchvalwithoocs(right, str(left))` -/
  matchv : Val F → Val F → Except Err Bool
  /-- `HAWK_FLEXMAP` trait -/
  flexmap : Bool

section
variable {F : Type} [FloatOps F]

/-- `hawk_rtx_valtonum` on scalar values (never fails on them) -/
def toNum (X : Ext F) : Val F → Num F
  | .nil => .int 0
  | .bchr b => X.mbsToNum [b]
  | .char c => X.strToNum (String.singleton c)
  | .int i => .int i
  | .flt f => .flt f
  | .str s => X.strToNum s
  | .mbs b => X.mbsToNum b

/-- `hawk_rtx_valtoint` -/
def toInt (X : Ext F) (v : Val F) : Int :=
  match toNum X v with
  | .int l => l
  | .flt r => f2i r

/-- `hawk_rtx_valtobool` -/
def toBool : Val F → Bool
  | .nil => false
  | .bchr _ => true
  | .char _ => true
  | .int i => i != 0
  | .flt f => !(isZero f)
  | .str s => s.length > 0
  | .mbs b => b.length > 0

/-- `hawk_rtx_getvaloocstr` -/
def toStr (X : Ext F) : Val F → String
  | .nil => ""
  | .int i => toString i
  | .flt f => X.fltToStr f
  | .str s => s
  | .mbs b => X.mbsToStr b
  | .char c => String.singleton c
  | .bchr b => X.mbsToStr [b]

/-- `hawk_rtx_getvalbcstr` -/
def toMbs (X : Ext F) : Val F → List UInt8
  | .nil => []
  | .int i => X.strToMbs (toString i)
  | .flt f => X.strToMbs (X.fltToStr f)
  | .str s => X.strToMbs s
  | .mbs b => b
  | .char c => X.strToMbs (String.singleton c)
  | .bchr b => [b]

def ofOpt {α : Type} : Option α → Except Err α
  | some a => .ok a
  | none => .error .crash

def boolVal (b : Bool) : Val F := .int (if b then 1 else 0)

/-! ## `eval_binop_*` -/

/-- `eval_binop_plus` -/
def evalPlus (X : Ext F) (l r : Val F) : Except Err (Val F) :=
  match toNum X l, toNum X r with
  | .int l1, .int l2 => .ok (.int (wrap64 (l1 + l2)))
  | .flt r1, .int l2 => .ok (.flt (add r1 (ofInt l2)))
  | .int l1, .flt r2 => .ok (.flt (add (ofInt l1) r2))
  | .flt r1, .flt r2 => .ok (.flt (add r1 r2))

/-- `eval_binop_minus` -/
def evalMinus (X : Ext F) (l r : Val F) : Except Err (Val F) :=
  match toNum X l, toNum X r with
  | .int l1, .int l2 => .ok (.int (wrap64 (l1 - l2)))
  | .flt r1, .int l2 => .ok (.flt (sub r1 (ofInt l2)))
  | .int l1, .flt r2 => .ok (.flt (sub (ofInt l1) r2))
  | .flt r1, .flt r2 => .ok (.flt (sub r1 r2))

/-- `eval_binop_mul` -/
def evalMul (X : Ext F) (l r : Val F) : Except Err (Val F) :=
  match toNum X l, toNum X r with
  | .int l1, .int l2 => .ok (.int (wrap64 (l1 * l2)))
  | .flt r1, .int l2 => .ok (.flt (mul r1 (ofInt l2)))
  | .int l1, .flt r2 => .ok (.flt (mul (ofInt l1) r2))
  | .flt r1, .flt r2 => .ok (.flt (mul r1 r2))

/-- case 0 of `eval_binop_div`: integer result only when the division is exact; the pair INT_MIN / -1
(quotient not representable, machine division traps) yields the floating-point quotient -/
def divIntInt (l1 l2 : Int) : Except Err (Val F) :=
  if l2 = 0 then .error .divby0
  else if l1 = INT_MIN ∧ l2 = -1 then pure (.flt (div (ofInt l1) (ofInt l2)))
  else do
    let m ← ofOpt (cmod l1 l2)
    if m = 0 then do
      let q ← ofOpt (cdiv l1 l2)
      pure (.int q)
    else pure (.flt (div (ofInt l1) (ofInt l2)))

/-- `eval_binop_div` -/
def evalDiv (X : Ext F) (l r : Val F) : Except Err (Val F) :=
  match toNum X l, toNum X r with
  | .int l1, .int l2 => divIntInt l1 l2
  | .flt r1, .int l2 => .ok (.flt (div r1 (ofInt l2)))
  | .int l1, .flt r2 => .ok (.flt (div (ofInt l1) r2))
  | .flt r1, .flt r2 => .ok (.flt (div r1 r2))

/-- case 0 of `eval_binop_idiv`: a divisor of -1 negates in unsigned arithmetic (wraps), no machine division -/
def idivIntInt (l1 l2 : Int) : Except Err (Val F) :=
  if l2 = 0 then .error .divby0
  else if l2 = -1 then pure (.int (wrap64 (0 - l1)))
  else do
    let q ← ofOpt (cdiv l1 l2)
    pure (.int q)

/-- `eval_binop_idiv` -/
def evalIdiv (X : Ext F) (l r : Val F) : Except Err (Val F) :=
  match toNum X l, toNum X r with
  | .int l1, .int l2 => idivIntInt l1 l2
  | .flt r1, .int l2 => .ok (.int (f2i (div r1 (ofInt l2))))
  | .int l1, .flt r2 => .ok (.int (f2i (div (ofInt l1) r2)))
  | .flt r1, .flt r2 => .ok (.int (f2i (div r1 r2)))

/-- case 0 of `eval_binop_mod`: the remainder of the division by -1 is 0, no machine division -/
def modIntInt (l1 l2 : Int) : Except Err (Val F) :=
  if l2 = 0 then .error .divby0
  else if l2 = -1 then pure (.int 0)
  else do
    let m ← ofOpt (cmod l1 l2)
    pure (.int m)

/-- `eval_binop_mod` -/
def evalMod (X : Ext F) (l r : Val F) : Except Err (Val F) :=
  match toNum X l, toNum X r with
  | .int l1, .int l2 => modIntInt l1 l2
  | .flt r1, .int l2 => .ok (.flt (fmod r1 (ofInt l2)))
  | .int l1, .flt r2 => .ok (.flt (fmod (ofInt l1) r2))
  | .flt r1, .flt r2 => .ok (.flt (fmod r1 r2))

/-- the loop of `pow_int_by_uint` (exponentiation by squaring in `hawk_uint_t` arithmetic); the exponent has
64 bits, so the loop body runs at most 64 times -/
def powIntLoop : Nat → Nat → Nat → Nat → Nat
  | 0, v, _, _ => v
  | fuel + 1, v, b, ex =>
    if ex = 0 then v
    else powIntLoop fuel (if ex % 2 = 1 then (v * b) % 18446744073709551616 else v)
           ((b * b) % 18446744073709551616) (ex / 2)

/-- `pow_int_by_uint(base, exp)` -/
def powIntByUint (base : Int) (ex : Nat) : Int := wrap64 (Int.ofNat (powIntLoop 64 1 (toU64 base) ex))

/-- the loop of `pow_flt_by_uint` -/
def powFltLoop : Nat → F → F → Nat → F
  | 0, v, _, _ => v
  | fuel + 1, v, b, ex =>
    if ex = 0 then v
    else powFltLoop fuel (if ex % 2 = 1 then mul v b else v) (mul b b) (ex / 2)

/-- `pow_flt_by_uint(base, exp)` -/
def powFltByUint (base : F) (ex : Nat) : F := powFltLoop 64 (ofInt 1) base ex

/-- `eval_binop_exp`; `-(hawk_uint_t)l2` is the magnitude of a negative `l2` -/
def evalExp (X : Ext F) (l r : Val F) : Except Err (Val F) :=
  match toNum X l, toNum X r with
  | .int l1, .int l2 =>
    if l2 ≥ 0 then .ok (.int (powIntByUint l1 (toU64 l2)))
    else if l1 = 0 then .error .divby0
    else .ok (.flt (div (ofInt 1) (powFltByUint (ofInt l1) (toU64 (-l2)))))
  | .flt r1, .int l2 =>
    if l2 ≥ 0 then .ok (.flt (powFltByUint r1 (toU64 l2)))
    else if isZero r1 then .error .divby0
    else .ok (.flt (div (ofInt 1) (powFltByUint r1 (toU64 (-l2)))))
  | .int l1, .flt r2 => .ok (.flt (pow (ofInt l1) r2))
  | .flt r1, .flt r2 => .ok (.flt (pow r1 r2))

/-- `eval_binop_concat` -/
def evalConcat (X : Ext F) (l r : Val F) : Except Err (Val F) :=
  match l with
  | .bchr _ | .mbs _ => .ok (.mbs (toMbs X l ++ toMbs X r))
  | _ => .ok (.str (toStr X l ++ toStr X r))

/-- the functions in `binop_func[]` of `eval_binary`, by opcode -/
def evalBinop (X : Ext F) (op : BinOp) (l r : Val F) : Except Err (Val F) :=
  match op with
  | .lor | .land | .inop | .ma | .nm => .error .intern   -- HAWK_NULL in the table
  | .bor => .ok (.int (bor64 (toInt X l) (toInt X r)))
  | .bxor => .ok (.int (bxor64 (toInt X l) (toInt X r)))
  | .band => .ok (.int (band64 (toInt X l) (toInt X r)))
  | .teq => .ok (boolVal (X.teq l r))
  | .tne => .ok (boolVal (!(X.teq l r)))
  | .eq => (X.cmp .eq l r).map boolVal
  | .ne => (X.cmp .ne l r).map boolVal
  | .gt => (X.cmp .gt l r).map boolVal
  | .ge => (X.cmp .ge l r).map boolVal
  | .lt => (X.cmp .lt l r).map boolVal
  | .le => (X.cmp .le l r).map boolVal
  | .ls => .ok (.int (shl64 (toInt X l) (toInt X r)))
  | .rs => .ok (.int (sar64 (toInt X l) (toInt X r)))
  | .plus => evalPlus X l r
  | .minus => evalMinus X l r
  | .mul => evalMul X l r
  | .div => evalDiv X l r
  | .idiv => evalIdiv X l r
  | .mod => evalMod X l r
  | .exp => evalExp X l r
  | .concat => evalConcat X l r

/-- `eval_unary` after the operand has been evaluated -/
def evalUnary (X : Ext F) (op : UnrOp) (v : Val F) : Except Err (Val F) :=
  match op with
  | .minus =>
    match toNum X v with
    | .int l => .ok (.int (wrap64 (-l)))
    | .flt r => .ok (.flt (neg r))
  | .lnot =>
    match v with
    | .str s => .ok (.int (if s.length > 0 then 0 else 1))
    | _ =>
      match toNum X v with
      | .int l => .ok (.int (if l = 0 then 1 else 0))
      | .flt r => .ok (.flt (ofInt (if isZero r then 1 else 0)))
  | .bnot => .ok (.int (bnot64 (toInt X v)))
  | .plus =>
    match toNum X v with
    | .int l => .ok (.int l)
    | .flt r => .ok (.flt r)

/-- the new value computed by `eval_incpre`/`eval_incpst` (`res` resp. `res2`) -/
def incNew (X : Ext F) (op : IncOp) (left : Val F) : Val F :=
  match left with
  | .int r => .int (wrap64 (r + incDelta op))
  | .flt r => .flt (add r (ofInt (incDelta op)))
  | _ =>
    match toNum X left with
    | .int v1 => .int (wrap64 (v1 + incDelta op))
    | .flt v2 => .flt (add v2 (ofInt (incDelta op)))

/-- the value returned by `eval_incpst` (`res`): the old value as a number -/
def incOld (X : Ext F) (left : Val F) : Val F :=
  match left with
  | .int r => .int r
  | .flt r => .flt r
  | _ =>
    match toNum X left with
    | .int v1 => .int v1
    | .flt v2 => .flt v2

/-! ## the constant folder -/

inductive NodeTy where
  | int | flt
  deriving DecidableEq, Repr

/-- a `HAWK_NDE_INT` / `HAWK_NDE_FLT` literal node.  The C code selects the view by a pointer cast:
`ival` is what `((hawk_nde_int_t*)n)->val` reads, `fval` what `((hawk_nde_flt_t*)n)->val` reads.  For a
node of the other type the field holds whatever bytes are there (padding, the `str`/`len` members): any
value.  A fold case reading the wrong view therefore produces a value unrelated to the literal. -/
structure LitNode (F : Type) where
  ty : NodeTy
  ival : Int
  fval : F

/-- `eval_int` / `eval_flt` -/
def LitNode.val (n : LitNode F) : Val F :=
  match n.ty with
  | .int => .int n.ival
  | .flt => .flt n.fval

/-- `new_int_node` / `update_int_node` (the inactive view is irrelevant; the theorems quantify over it) -/
def LitNode.mkInt (l : Int) : LitNode F := { ty := .int, ival := l, fval := ofInt 0 }
/-- `new_flt_node` / `update_flt_node` -/
def LitNode.mkFlt (r : F) : LitNode F := { ty := .flt, ival := 0, fval := r }

/-- return value of `fold_constants_for_binop` plus `*folded` -/
inductive FoldResult (F : Type) where
  | nofold                -- -1
  | int (l : Int)         -- HAWK_NDE_INT, folded->l
  | flt (r : F)           -- HAWK_NDE_FLT, folded->r
  | error (e : Err)       -- -2 with the error number set
  | crash                 -- the folder itself executed a trapping division

/-- `fold_constants_for_binop`: the four type-pair blocks, each opcode case reading the fields it reads in C -/
def foldBinop (op : BinOp) (left right : LitNode F) : FoldResult F :=
  match left.ty, right.ty with
  | .int, .int =>
    match op with
    | .plus => .int (wrap64 (left.ival + right.ival))
    | .minus => .int (wrap64 (left.ival - right.ival))
    | .mul => .int (wrap64 (left.ival * right.ival))
    | .div =>
      if right.ival = 0 then .error .divby0
      else if left.ival = INT_MIN ∧ right.ival = -1 then .flt (div (ofInt left.ival) (ofInt right.ival))
      else match cmod left.ival right.ival with
        | none => .crash
        | some m =>
          if m ≠ 0 then .flt (div (ofInt left.ival) (ofInt right.ival))
          else match cdiv left.ival right.ival with
            | none => .crash
            | some q => .int q
    | .idiv =>
      if right.ival = 0 then .error .divby0
      else if right.ival = -1 then .int (wrap64 (0 - left.ival))
      else match cdiv left.ival right.ival with
        | none => .crash
        | some q => .int q
    | .mod =>
      if right.ival = 0 then .error .divby0
      else if right.ival = -1 then .int 0
      else match cmod left.ival right.ival with
        | none => .crash
        | some m => .int m
    | _ => .nofold
  | .flt, .flt =>
    match op with
    | .plus => .flt (add left.fval right.fval)
    | .minus => .flt (sub left.fval right.fval)
    | .mul => .flt (mul left.fval right.fval)
    | .div => .flt (div left.fval right.fval)
    | .idiv => .int (f2i (div left.fval right.fval))
    | .mod => .flt (fmod left.fval right.fval)
    | _ => .nofold
  | .int, .flt =>
    match op with
    | .plus => .flt (add (ofInt left.ival) right.fval)
    | .minus => .flt (sub (ofInt left.ival) right.fval)
    | .mul => .flt (mul (ofInt left.ival) right.fval)
    | .div => .flt (div (ofInt left.ival) right.fval)
    | .idiv => .int (f2i (div (ofInt left.ival) right.fval))
    | .mod => .flt (fmod (ofInt left.ival) right.fval)
    | _ => .nofold
  | .flt, .int =>
    match op with
    | .plus => .flt (add left.fval (ofInt right.ival))
    | .minus => .flt (sub left.fval (ofInt right.ival))
    | .mul => .flt (mul left.fval (ofInt right.ival))
    | .div => .flt (div left.fval (ofInt right.ival))
    | .idiv => .int (f2i (div left.fval (ofInt right.ival)))
    | .mod => .flt (fmod left.fval (ofInt right.ival))
    | _ => .nofold

/-- the literal folding in `parse_unary` -/
def foldUnary (op : UnrOp) (left : LitNode F) : FoldResult F :=
  match left.ty with
  | .int =>
    match op with
    | .plus => .int left.ival
    | .minus => .int (wrap64 (-left.ival))
    | .lnot => .int (if left.ival = 0 then 1 else 0)
    | .bnot => .int (bnot64 left.ival)
  | .flt =>
    match op with
    | .plus => .flt left.fval
    | .minus => .flt (neg left.fval)
    | .lnot => .flt (ofInt (if isZero left.fval then 1 else 0))
    | .bnot => .int (bnot64 (f2i left.fval))

/-! ## expressions -/

/-- expression trees over variable references of type `R` -/
inductive Expr (R : Type) (F : Type) where
  | lit (n : LitNode F)
  | str (s : String)
  | mbs (b : List UInt8)
  | chr (c : Char)
  | bchr (b : UInt8)
  | xnil
  | var (r : R)
  | un (op : UnrOp) (e : Expr R F)
  | bin (op : BinOp) (l r : Expr R F)
  | cnd (c t f : Expr R F)
  | asg (op : AssOp) (x : R) (y : Expr R F)
  | incpre (op : IncOp) (x : R)
  | incpst (op : IncOp) (x : R)

/-- the operators whose grammar level goes through `parse_binary` (and hence `fold_constants_for_binop`);
concatenation, `in` and the match operators have their own parse functions -/
def BinOp.viaParseBinary : BinOp → Bool
  | .concat | .inop | .ma | .nm => false
  | _ => true

/-- what `parse_binary` builds from the two (already parsed and folded) operands -/
def foldBinNode {R : Type} (op : BinOp) (l r : Expr R F) : Except Err (Expr R F) :=
  match l, r with
  | .lit a, .lit b =>
    if op.viaParseBinary then
      match foldBinop op a b with
      | .nofold => .ok (.bin op l r)
      | .int v => .ok (.lit (LitNode.mkInt v))
      | .flt v => .ok (.lit (LitNode.mkFlt v))
      | .error e => .error e
      | .crash => .error .crash
    else .ok (.bin op l r)
  | _, _ => .ok (.bin op l r)

/-- what `parse_unary` builds from the (already parsed and folded) operand -/
def foldUnNode {R : Type} (op : UnrOp) (e : Expr R F) : Except Err (Expr R F) :=
  match e with
  | .lit a =>
    match foldUnary op a with
    | .nofold => .ok (.un op e)
    | .int v => .ok (.lit (LitNode.mkInt v))
    | .flt v => .ok (.lit (LitNode.mkFlt v))
    | .error er => .error er
    | .crash => .error .crash
  | _ => .ok (.un op e)

/-- the tree the parser produces for the fully parenthesised rendering of `e`
(`(x)` parses to the node of `x` itself, so folding proceeds bottom-up through parentheses);
`.error` = the parse fails with that error number -/
def foldExpr {R : Type} : Expr R F → Except Err (Expr R F)
  | .un op e => do
    let e' ← foldExpr e
    foldUnNode op e'
  | .bin op l r => do
    let l' ← foldExpr l
    let r' ← foldExpr r
    foldBinNode op l' r'
  | .cnd c t f => do
    let c' ← foldExpr c
    let t' ← foldExpr t
    let f' ← foldExpr f
    pure (.cnd c' t' f')
  | .asg op x y => do
    let y' ← foldExpr y
    pure (.asg op x y')
  | e => .ok e

/-! ## evaluation over an abstract storage -/

/-- how variable references are read and written -/
structure Storage (S R : Type) (F : Type) where
  read : R → S → Except Err (Val F × S)
  write : R → Val F → S → Except Err S

/-- `eval_expression` on the node kinds of `Expr` -/
def eval {S R : Type} (X : Ext F) (st : Storage S R F) : Expr R F → S → Except Err (Val F × S)
  | .lit n, s => .ok (n.val, s)
  | .str x, s => .ok (.str x, s)
  | .mbs b, s => .ok (.mbs b, s)
  | .chr c, s => .ok (.char c, s)
  | .bchr b, s => .ok (.bchr b, s)
  | .xnil, s => .ok (.nil, s)
  | .var r, s => st.read r s
  | .un op e, s => do
    -- eval_unary
    let (v, s1) ← eval X st e s
    let res ← evalUnary X op v
    pure (res, s1)
  | .bin op l r, s =>
    match op with
    | .land => do
      -- eval_binop_land: short circuit
      let (lv, s1) ← eval X st l s
      if !(toBool lv) then pure (.int 0, s1)
      else do
        let (rv, s2) ← eval X st r s1
        pure (boolVal (toBool rv), s2)
    | .lor => do
      -- eval_binop_lor
      let (lv, s1) ← eval X st l s
      if toBool lv then pure (.int 1, s1)
      else do
        let (rv, s2) ← eval X st r s1
        pure (boolVal (toBool rv), s2)
    | .ma => do
      -- eval_binop_ma
      let (lv, s1) ← eval X st l s
      let (rv, s2) ← eval X st r s1
      let m ← X.matchv lv rv
      pure (boolVal m, s2)
    | .nm => do
      let (lv, s1) ← eval X st l s
      let (rv, s2) ← eval X st r s1
      let m ← X.matchv lv rv
      pure (boolVal (!m), s2)
    | .inop => .error .notmodelled
    | _ => do
      -- default branch of eval_binary: left, then right, then the table
      let (lv, s1) ← eval X st l s
      let (rv, s2) ← eval X st r s1
      let res ← evalBinop X op lv rv
      pure (res, s2)
  | .cnd c t f, s => do
    -- eval_cnd
    let (tv, s1) ← eval X st c s
    if toBool tv then eval X st t s1 else eval X st f s1
  | .asg op x y, s => do
    -- eval_assignment: the right-hand side first
    let (val, s1) ← eval X st y s
    match op with
    | .none => do
      let s2 ← st.write x val s1
      pure (val, s2)
    | _ => do
      let (val2, s2) ← st.read x s1
      let tmp ← evalBinop X (assopToBinop op) val2 val
      let s3 ← st.write x tmp s2
      pure (tmp, s3)
  | .incpre op x, s => do
    -- eval_incpre
    let (left, s1) ← st.read x s
    let res := incNew X op left
    let s2 ← st.write x res s1
    pure (res, s2)
  | .incpst op x, s => do
    -- eval_incpst
    let (left, s1) ← st.read x s
    let res := incOld X left
    let res2 := incNew X op left
    let s2 ← st.write x res2 s1
    pure (res, s2)

/-- rename the variable references -/
def Expr.map {R R' : Type} (π : R → R') : Expr R F → Expr R' F
  | .lit n => .lit n
  | .str s => .str s
  | .mbs b => .mbs b
  | .chr c => .chr c
  | .bchr b => .bchr b
  | .xnil => .xnil
  | .var r => .var (π r)
  | .un op e => .un op (e.map π)
  | .bin op l r => .bin op (l.map π) (r.map π)
  | .cnd c t f => .cnd (c.map π) (t.map π) (f.map π)
  | .asg op x y => .asg op (π x) (y.map π)
  | .incpre op x => .incpre op (π x)
  | .incpst op x => .incpst op (π x)

/-- the references an expression assigns to -/
def Expr.targets {R : Type} : Expr R F → List R
  | .un _ e => e.targets
  | .bin _ l r => l.targets ++ r.targets
  | .cnd c t f => c.targets ++ t.targets ++ f.targets
  | .asg _ x y => x :: y.targets
  | .incpre _ x => [x]
  | .incpst _ x => [x]
  | _ => []

/-! ## the reference storage: one value per abstract slot -/

abbrev Store (F : Type) := Nat → Val F

def Store.set (σ : Store F) (i : Nat) (v : Val F) : Store F := fun j => if j = i then v else σ j

/-- slots: reading returns the stored value, writing replaces it; neither can fail -/
def slotStorage : Storage (Store F) Nat F where
  read := fun i σ => .ok (σ i, σ)
  write := fun i v σ => .ok (σ.set i v)

/-! ## the run-time environment -/

/-- what a variable (or a stack slot) can hold -/
inductive Cell (F : Type) where
  | sc (v : Val F)
  | map (m : String → Option (Val F))
  | arr (a : Nat → Option (Val F))

/-- the four node kinds of a plain variable: HAWK_NDE_NAMED / GBL / LCL / ARG -/
inductive Base where
  | named (n : String)
  | gbl (i : Nat)
  | lcl (i : Nat)
  | arg (i : Nat)
  deriving DecidableEq, Repr

/-- a constant subscript -/
inductive Key where
  | s (k : String)
  | i (n : Nat)
  deriving DecidableEq, Repr

/-- a variable node: plain, or one of the *IDX kinds with a constant subscript -/
inductive Ref where
  | plain (b : Base)
  | idx (b : Base) (k : Key)
  deriving DecidableEq, Repr

def Ref.base : Ref → Base
  | .plain b => b
  | .idx b _ => b

/-- `idxnde_to_str` of a constant subscript -/
def Key.str : Key → String
  | .s k => k
  | .i n => toString n

/-- named-variable table, globals, and the locals/arguments of the current stack frame -/
structure Env (F : Type) where
  named : String → Option (Cell F)
  gbl : Nat → Cell F
  lcl : Nat → Cell F
  arg : Nat → Cell F

/-- `eval_named` (nil when the name is not in the table) / `eval_gbl` / `eval_lcl` / `eval_arg` -/
def Env.top (e : Env F) : Base → Cell F
  | .named n => (e.named n).getD (.sc .nil)
  | .gbl i => e.gbl i
  | .lcl i => e.lcl i
  | .arg i => e.arg i

def Env.setTop (e : Env F) (b : Base) (c : Cell F) : Env F :=
  match b with
  | .named n => { e with named := fun m => if m = n then some c else e.named m }
  | .gbl i => { e with gbl := fun j => if j = i then c else e.gbl j }
  | .lcl i => { e with lcl := fun j => if j = i then c else e.lcl j }
  | .arg i => { e with arg := fun j => if j = i then c else e.arg j }

def mapSet (m : String → Option (Val F)) (k : String) (v : Val F) : String → Option (Val F) :=
  fun j => if j = k then some v else m j

def arrSet (a : Nat → Option (Val F)) (k : Nat) (v : Val F) : Nat → Option (Val F) :=
  fun j => if j = k then some v else a j

def emptyMap : String → Option (Val F) := fun _ => none

/-- `eval_named/gbl/lcl/arg` and `eval_indexed` -/
def envRead (r : Ref) (e : Env F) : Except Err (Val F × Env F) :=
  match r with
  | .plain b =>
    match e.top b with
    | .sc v => .ok (v, e)
    | _ => .error .notmodelled        -- a map/array as an operand value
  | .idx b k =>
    match e.top b with
    | .sc .nil =>
      -- assign_newmapval_to_var, then the search in the new (empty) map
      .ok (.nil, e.setTop b (.map emptyMap))
    | .map m => .ok ((m k.str).getD .nil, e)
    | .arr a =>
      match k with
      | .i n => .ok ((a n).getD .nil, e)
      | .s _ => .error .notmodelled   -- idxnde_to_int of a string subscript
    | .sc _ => .error .notidxacc

/-- `do_assignment_nonindexed` / `do_assignment_indexed` for a scalar value -/
def envWrite (flexmap : Bool) (r : Ref) (v : Val F) (e : Env F) : Except Err (Env F) :=
  match r with
  | .plain b =>
    match e.top b with
    | .sc _ => .ok (e.setTop b (.sc v))
    | _ => if flexmap then .ok (e.setTop b (.sc v)) else .error .nonscatoscalar
  | .idx b k =>
    match e.top b with
    | .map m => .ok (e.setTop b (.map (mapSet m k.str v)))
    | .arr a =>
      match k with
      | .i n => .ok (e.setTop b (.arr (arrSet a n v)))
      | .s _ => .error .notmodelled
    | .sc .nil => .ok (e.setTop b (.map (mapSet emptyMap k.str v)))
    | .sc _ =>
      if flexmap then .ok (e.setTop b (.map (mapSet emptyMap k.str v)))
      else .error .scalartononsca

/-- the storage the evaluator really uses -/
def envStorage (X : Ext F) : Storage (Env F) Ref F where
  read := envRead
  write := envWrite X.flexmap

/-- copy-back of one by-reference parameter in `hawk_rtx_evalcall`:
`get_reference` on the argument node, then `hawk_rtx_setrefval` -/
def copyBack (flexmap : Bool) (r : Ref) (v : Val F) (e : Env F) : Except Err (Env F) :=
  match r with
  | .plain b =>
    match e.top b with
    | .sc _ => .ok (e.setTop b (.sc v))
    | _ => if flexmap then .ok (e.setTop b (.sc v)) else .error .nonscatoscalar
  | .idx b k =>
    -- get_reference_indexed
    match e.top b with
    | .sc .nil => .ok (e.setTop b (.map (mapSet emptyMap k.str v)))
    | .map m => .ok (e.setTop b (.map (mapSet m k.str v)))
    | .arr a =>
      match k with
      | .i n => .ok (e.setTop b (.arr (arrSet a n v)))
      | .s _ => .error .notmodelled
    | .sc _ => .error .notidxacc

/-- `push_arg_from_nde` with a NULL argument spec: every argument expression is evaluated -/
def pushArgs (args : List Ref) (e : Env F) : Except Err (List (Val F) × Env F) :=
  match args with
  | [] => .ok ([], e)
  | r :: rest => do
    let (v, e1) ← envRead r e
    let (vs, e2) ← pushArgs rest e1
    pure (v :: vs, e2)

/-- the copy-back loop of `hawk_rtx_evalcall` over the arguments `i, i+1, ...` -/
def copyBackAll (flexmap : Bool) (calleeArg : Nat → Cell F) : List Ref → Nat → Env F → Except Err (Env F)
  | [], _, e => .ok e
  | r :: rest, i, e =>
    match calleeArg i with
    | .sc v => do
      let e1 ← copyBack flexmap r v e
      copyBackAll flexmap calleeArg rest (i + 1) e1
    | _ => .error .notmodelled

/-- `r = f(a0, a1, ...)` for `function f(&p0, &p1, ...) { return body }`:
arguments are pushed by value, missing ones are nil, locals start as nil, named variables and globals are
shared with the caller; after the body every parameter is copied back through its argument node -/
def evalCallByRef (X : Ext F) (args : List Ref) (body : Expr Ref F) (e : Env F) : Except Err (Val F × Env F) := do
  let (vals, e1) ← pushArgs args e
  let callee : Env F :=
    { named := e1.named, gbl := e1.gbl, lcl := fun _ => .sc .nil,
      arg := fun i => .sc (vals.getD i .nil) }
  let (v, callee') ← eval X (envStorage X) body callee
  let back : Env F := { named := callee'.named, gbl := callee'.gbl, lcl := e1.lcl, arg := e1.arg }
  let e2 ← copyBackAll X.flexmap callee'.arg args 0 back
  pure (v, e2)

end

end Hawk.Expr
