/-!
# Model of lib/rbt.c (hawk red-black tree) — the rbt half of property C16

Functional transcription of `hawk_rbt_search`, `insert` (+ `adjust`, `change_pair_val`),
`hawk_rbt_delete` / `delete_pair` (+ `adjust_for_delete`), `hawk_rbt_clear`, the stateful
iterator `get_next_pair` and `hawk_rbt_walk` / `hawk_rbt_rwalk`.

The tree is `nil | node colour left key value right`.  The C code works bottom-up through
parent pointers; the model performs the same re-colourings and rotations on the way back from
the recursive descent, so the resulting *shape and colours* are those of the C code (CLRS
bottom-up fix-up, not Okasaki's `balance`); the correspondence check compares the full preorder
dump (colour, key, value, parent key) after every operation.

`del` follows the REPAIRED `delete_pair` (patches/rbt-delete-fixup.diff): `adjust_for_delete`
is also run when the spliced-in child `x` is the nil sentinel.  The unrepaired code skips the
fix-up in that case and loses the equal-black-height invariant (insert 0,1,2,3; delete 0).

Not modelled: pair identity (re-allocation of a pair by `change_pair_val` for INLINE value
copiers or by a `hawk_rbt_cbsert` callback keeps position, colour and links, which is what the
model's `setVal` does), allocation failure, the calls made to user copiers / freeers / keepers
(counted and checked by the harness for its user style), the optional iterator protection
(`HAWK_ENABLE_RBT_ITR_PROTECTION`, not enabled in this build).  Keys are natural numbers
ordered by `<` (the comparator is abstracted to an order embedding into `Nat`).
-/
namespace Hawk.Rbt

inductive Color where
  | R | B
  deriving DecidableEq, Repr, Inhabited

open Color

inductive T (V : Type) where
  | nil : T V
  | node (c : Color) (l : T V) (k : Nat) (v : V) (r : T V) : T V
  deriving Repr, Inhabited

open T

variable {V : Type}

/-- `pair->color`; the nil sentinel is black -/
def col : T V → Color
  | nil => B
  | node c _ _ _ _ => c

@[simp] theorem col_nil : col (nil : T V) = B := rfl
@[simp] theorem col_node (c : Color) (l : T V) (k : Nat) (v : V) (r : T V) : col (node c l k v r) = c := rfl

/-- `pair->color = HAWK_RBT_BLACK` (a no-op on the sentinel) -/
def setBlack : T V → T V
  | nil => nil
  | node _ l k v r => node B l k v r

@[simp] theorem setBlack_nil : setBlack (nil : T V) = nil := rfl
@[simp] theorem setBlack_node (c : Color) (l : T V) (k : Nat) (v : V) (r : T V) :
    setBlack (node c l k v r) = node B l k v r := rfl

/-- in-order list of pairs -/
@[simp] def toList : T V → List (Nat × V)
  | nil => []
  | node _ l k v r => toList l ++ (k, v) :: toList r

@[simp] def size : T V → Nat
  | nil => 0
  | node _ l _ _ r => size l + size r + 1

@[simp] def height : T V → Nat
  | nil => 0
  | node _ l _ _ r => max (height l) (height r) + 1

/-! ## search -/

/-- `hawk_rbt_search`: `n == 0` found, `n > 0` go right, else go left -/
def search : T V → Nat → Option V
  | nil, _ => none
  | node _ l k' v' r, k =>
    if k = k' then some v'
    else if k > k' then search r k
    else search l k

/-! ## insert / upsert / update / ensert -/

/-- `change_pair_val` on the pair found by the descent: only the value changes (a pair
    re-allocated for an INLINE value copier inherits colour, children and parent) -/
def setVal (k : Nat) (v : V) : T V → T V
  | nil => nil
  | node c l k' v' r =>
    if k = k' then node c l k' v r
    else if k > k' then node c l k' v' (setVal k v r)
    else node c (setVal k v l) k' v' r

/-- one iteration of the loop of `adjust`, seen from the grandparent `g = node gc p gk gv u`
    when the path went into its LEFT child `p` (`x_par == x_par->parent->child[LEFT]`).
    Nothing happens unless `x_par = p` is red and has a red child `pair`. -/
def fixInsL (gc : Color) (p : T V) (gk : Nat) (gv : V) (u : T V) : T V :=
  match p with
  | node R pl pk pv pr =>
    if col pl = R ∨ col pr = R then
      if col u = R then
        -- uncle red: recolour, continue with pair = grandparent
        node R (node B pl pk pv pr) gk gv (setBlack u)
      else
        match pr with
        | node R a xk xv b =>
          -- pair == tmp2 (inner child): rotate left at x_par, then recolour and rotate right at g
          node B (node R pl pk pv a) xk xv (node R b gk gv u)
        | _ =>
          -- outer child: recolour and rotate right at g
          node B pl pk pv (node R pr gk gv u)
    else node gc p gk gv u
  | _ => node gc p gk gv u

/-- mirror image: the path went into the RIGHT child `p` of `g = node gc u gk gv p` -/
def fixInsR (gc : Color) (u : T V) (gk : Nat) (gv : V) (p : T V) : T V :=
  match p with
  | node R pl pk pv pr =>
    if col pl = R ∨ col pr = R then
      if col u = R then
        node R (setBlack u) gk gv (node B pl pk pv pr)
      else
        match pl with
        | node R a xk xv b =>
          node B (node R u gk gv a) xk xv (node R b pk pv pr)
        | _ =>
          node B (node R u gk gv pl) pk pv pr
    else node gc u gk gv p
  | _ => node gc u gk gv p

/-- descent of `insert` for a key that is absent, linking a new red pair and running `adjust`
    on the way back (for a present key the value is replaced; `insertOp` never uses that) -/
def ins (k : Nat) (v : V) : T V → T V
  | nil => node R nil k v nil
  | node c l k' v' r =>
    if k = k' then node c l k' v r
    else if k > k' then fixInsR c l k' v' (ins k v r)
    else fixInsL c (ins k v l) k' v' r

inductive Opt where
  | upsert | update | ensert | insert
  deriving DecidableEq, Repr

/-- what the four entry points return: the pair (its key and value) or the error number -/
inductive Res (V : Type) where
  | pair (k : Nat) (v : V)
  | eexist
  | enoent
  /-- `hawk_rbt_cbsert` only: the callback returned NULL -/
  | failed
  deriving Repr

/-- the static function `insert (rbt, kptr, klen, vptr, vlen, opt)` -/
def insertOp (opt : Opt) (t : T V) (k : Nat) (v : V) : T V × Res V :=
  match search t k with
  | some v0 =>
    match opt with
    | .upsert | .update => (setVal k v t, .pair k v)
    | .ensert => (t, .pair k v0)
    | .insert => (t, .eexist)
  | none =>
    match opt with
    | .update => (t, .enoent)
    | _ => (setBlack (ins k v t), .pair k v)   -- rbt->root->color = HAWK_RBT_BLACK

def insert (t : T V) (k : Nat) (v : V) := insertOp .insert t k v
def upsert (t : T V) (k : Nat) (v : V) := insertOp .upsert t k v
def update (t : T V) (k : Nat) (v : V) := insertOp .update t k v
def ensert (t : T V) (k : Nat) (v : V) := insertOp .ensert t k v

/-- `hawk_rbt_cbsert (rbt, kptr, klen, cbserter, ctx)`.  The callback is abstracted to what it
    decides: `f` receives the value of the existing pair for the key (`none`: no such pair,
    the callback gets NULL) and answers the value of the pair it hands back, or `none` for
    failure (NULL).  For an existing key the pair handed back is the old pair itself (possibly
    changed in place) or a re-allocated one; `hawk_rbt_cbsert` then restores colour, children
    and parent from the copy it took before the call, so only the value changes — `setVal`.
    For an absent key the new pair is linked exactly as in `insert` (same descent, `adjust`,
    black root, `size++`).  A failing callback leaves the tree untouched.
    The callback contract (the pair handed back carries the key it was asked for) is assumed. -/
def cbsert (t : T V) (k : Nat) (f : Option V → Option V) : T V × Res V :=
  match search t k with
  | some v0 =>
    match f (some v0) with
    | none => (t, .failed)
    | some v' => (setVal k v' t, .pair k v')
  | none =>
    match f none with
    | none => (t, .failed)
    | some v' => (setBlack (ins k v' t), .pair k v')

/-! ## delete

`del` returns the new subtree and a flag `d` = "this subtree is one black pair short and its root
is black", i.e. the loop of `adjust_for_delete` is still running with `pair` = this root. -/

/-- `y` (colour `yc`) is unlinked and its only child `x` takes its place.
    Repaired code: `if (y->color == HAWK_RBT_BLACK) adjust_for_delete (rbt, x, parent)`;
    a red `x` ends the loop at once and is painted black. -/
def splice (yc : Color) (x : T V) : T V × Bool :=
  match yc with
  | R => (x, false)
  | B => if col x = R then (setBlack x, false) else (x, true)

/-- loop body of `adjust_for_delete` for `pair == par->left`, sibling `tmp = r` known not to be
    handled by the red-sibling case.  `par = node c l k v r`, `l` is one black short. -/
def fixDelL' (c : Color) (l : T V) (k : Nat) (v : V) (r : T V) : T V × Bool :=
  match r with
  | nil =>
    -- tmp is the sentinel: its children are the sentinel (black); tmp is not recoloured
    (node B l k v nil, c == B)
  | node rc rl rk rv rr =>
    if col rl = B ∧ col rr = B then
      -- tmp->color = RED; pair = par.  A red par ends the loop and becomes black.
      (node B l k v (node R rl rk rv rr), c == B)
    else if col rr = B then
      match rl with
      | node _ a xk xv b =>
        -- tmp->left black, tmp red, rotate right at tmp; then the far-child-red case
        (node c (node B l k v a) xk xv (node B b rk rv rr), false)
      | nil => (node c l k v (node rc rl rk rv rr), false)  -- excluded by the branch condition
    else
      -- tmp takes par's colour, par and tmp->right black, rotate left at par
      (node c (node B l k v rl) rk rv (setBlack rr), false)

/-- full loop body for `pair == par->left` -/
def fixDelL (c : Color) (l : T V) (k : Nat) (v : V) (r : T V) : T V × Bool :=
  match r with
  | node R rl rk rv rr =>
    -- red sibling: tmp black, par red, rotate left at par, tmp = par->right; the rest of the
    -- iteration runs on the red par, which always ends the loop
    (node B (fixDelL' R l k v rl).1 rk rv rr, false)
  | _ => fixDelL' c l k v r

/-- mirror image for `pair == par->right`; `r` is one black short -/
def fixDelR' (c : Color) (l : T V) (k : Nat) (v : V) (r : T V) : T V × Bool :=
  match l with
  | nil => (node B nil k v r, c == B)
  | node lc ll lk lv lr =>
    if col ll = B ∧ col lr = B then
      (node B (node R ll lk lv lr) k v r, c == B)
    else if col ll = B then
      match lr with
      | node _ a xk xv b =>
        (node c (node B ll lk lv a) xk xv (node B b k v r), false)
      | nil => (node c (node lc ll lk lv lr) k v r, false)
    else
      (node c (setBlack ll) lk lv (node B lr k v r), false)

def fixDelR (c : Color) (l : T V) (k : Nat) (v : V) (r : T V) : T V × Bool :=
  match l with
  | node R ll lk lv lr =>
    (node B ll lk lv (fixDelR' R lr k v r).1, false)
  | _ => fixDelR' c l k v r

/-- the left child has been rebuilt; `d` says whether the loop is still running there -/
def balL (d : Bool) (c : Color) (l : T V) (k : Nat) (v : V) (r : T V) : T V × Bool :=
  if d then fixDelL c l k v r else (node c l k v r, false)

def balR (d : Bool) (c : Color) (l : T V) (k : Nat) (v : V) (r : T V) : T V × Bool :=
  if d then fixDelR c l k v r else (node c l k v r, false)

/-- `y = pair->right; while (!IS_NIL(y->left)) y = y->left;` then unlink `y`.
    Argument is the (non-nil) tree `node c l k v r`; returns the tree without its leftmost
    pair, that pair's key and value, and the deficit flag. -/
def delMin (c : Color) (l : T V) (k : Nat) (v : V) (r : T V) : T V × (Nat × V) × Bool :=
  match l with
  | nil =>
    let s := splice c r
    (s.1, (k, v), s.2)
  | node lc ll lk lv lr =>
    let m := delMin lc ll lk lv lr
    let b := balL m.2.2 c m.1 k v r
    (b.1, m.2.1, b.2)

/-- `delete_pair` for the pair with key `k` (descent as in `hawk_rbt_search`) -/
def del (k : Nat) : T V → T V × Bool
  | nil => (nil, false)
  | node c l k' v' r =>
    if k = k' then
      match l, r with
      | nil, _ => splice c r                 -- y = pair, x = y->right
      | node lc ll lk lv lr, nil => splice c (node lc ll lk lv lr)   -- y = pair, x = y->left
      | node lc ll lk lv lr, node rc rl rk rv rr =>
        -- y = leftmost pair of the right subtree; after the fix-up y takes pair's place and colour
        let m := delMin rc rl rk rv rr
        balR m.2.2 c (node lc ll lk lv lr) m.2.1.1 m.2.1.2 m.1
    else if k > k' then
      let s := del k r
      balR s.2 c l k' v' s.1
    else
      let s := del k l
      balL s.2 c s.1 k' v' r

/-- `hawk_rbt_delete`: `false` = -1 / HAWK_ENOENT.
    When the loop of `adjust_for_delete` ends at the root (deficit reaches the root, or the
    far-nephew case sets `pair = rbt->root`) the C paints the root black; the root of a tree
    satisfying `Inv` is black already and no case of the loop paints it red (`del_inv`), so the
    model has no statement for it. -/
def delete (t : T V) (k : Nat) : T V × Bool :=
  match search t k with
  | none => (t, false)
  | some _ => ((del k t).1, true)

/-! ## invariants (decidable, also evaluated by the driver) -/

/-- number of black pairs on the leftmost path -/
@[simp] def bh : T V → Nat
  | nil => 0
  | node c l _ _ _ => bh l + (if c = B then 1 else 0)

/-- every path from a pair down to a sentinel contains the same number of black pairs -/
@[simp] def Bal : T V → Prop
  | nil => True
  | node _ l _ _ r => Bal l ∧ Bal r ∧ bh l = bh r

/-- no red pair has a red child -/
@[simp] def NoRR : T V → Prop
  | nil => True
  | node c l _ _ r => NoRR l ∧ NoRR r ∧ (c = R → col l = B ∧ col r = B)

/-- strictly ascending keys in the in-order walk (binary-search-tree order) -/
def Ordered (t : T V) : Prop := (toList t).Pairwise (fun a b => a.1 < b.1)

/-- the red-black invariants -/
def Inv (t : T V) : Prop := Ordered t ∧ col t = B ∧ NoRR t ∧ Bal t

instance decBal : (t : T V) → Decidable (Bal t)
  | nil => isTrue trivial
  | node _ l _ _ r =>
    have := decBal l; have := decBal r
    inferInstanceAs (Decidable (Bal l ∧ Bal r ∧ bh l = bh r))

instance decNoRR : (t : T V) → Decidable (NoRR t)
  | nil => isTrue trivial
  | node c l _ _ r =>
    have := decNoRR l; have := decNoRR r
    inferInstanceAs (Decidable (NoRR l ∧ NoRR r ∧ (c = R → col l = B ∧ col r = B)))

instance (t : T V) : Decidable (Ordered t) := inferInstanceAs (Decidable (List.Pairwise _ _))
instance (t : T V) : Decidable (Inv t) := inferInstanceAs (Decidable (_ ∧ _ ∧ _ ∧ _))

/-! ## the stateful iterator `get_next_pair` over a zipper

`itr->pair` is a position: the pair (as the subtree rooted there) together with the path of
ancestors back to the root, which stands for the `parent` pointers.  `dir = false` is the
forward walk (`l = LEFT, r = RIGHT`), `dir = true` the backward walk (`l = RIGHT, r = LEFT`).
The C loop decides by comparing `prev` with `x_cur->parent` / `x_cur->child[l]`; in the model
`prev == x_cur->parent` is the function `descend`, arriving from a child is `ascend` and the
frame's `side` says which child `prev` was.  `itr->_prev` is overwritten at both resume points
before it is read, so it is not part of the model state. -/

structure Frame (V : Type) where
  c : Color
  k : Nat
  v : V
  sib : T V
  /-- `false`: the focus is `child[LEFT]` of this pair, `true`: `child[RIGHT]` -/
  side : Bool

abbrev Path (V : Type) := List (Frame V)

/-- the pair a frame stands for, with the focus subtree put back -/
def Frame.plug (f : Frame V) (t : T V) : T V :=
  if f.side then node f.c f.sib f.k f.v t else node f.c t f.k f.v f.sib

abbrev Pos (V : Type) := T V × Path V

def isNil : T V → Bool
  | nil => true
  | _ => false

/-- loop branch `prev == x_cur->parent`: go down `child[l]` while it is not the sentinel,
    then return `x_cur` (`_state = 1`) -/
def descend (dir : Bool) : T V → Path V → Option (Pos V)
  | nil, _ => none          -- `x_cur` is the sentinel (empty tree): the loop is not entered
  | node c l k v r, p =>
    if dir then
      if isNil r then some (node c l k v r, p) else descend dir r (⟨c, k, v, l, true⟩ :: p)
    else
      if isNil l then some (node c l k v r, p) else descend dir l (⟨c, k, v, r, false⟩ :: p)

/-- `prev = x_cur; x_cur = x_cur->parent;` and the loop branches taken after that:
    `prev == x_cur->child[l]` returns the parent (`_state = 2`), otherwise move up again;
    `x_cur == NULL` (above the root) ends the loop -/
def ascend (dir : Bool) : T V → Path V → Option (Pos V)
  | _, [] => none
  | t, f :: p =>
    if f.side = dir then some (f.plug t, p)
    else ascend dir (f.plug t) p

/-- `x->child[l]` -/
def childL (dir : Bool) : T V → T V
  | nil => nil
  | node _ l _ _ r => if dir then r else l

/-- `x->child[r]` -/
def childR (dir : Bool) : T V → T V
  | nil => nil
  | node _ l _ _ r => if dir then l else r

/-- `resume_1` / `resume_2` (identical code): go down to `child[r]` if it exists, else move up.
    The second component is the `_state` stored by the `return` that is reached. -/
def resume (dir : Bool) : T V → Path V → Option (Pos V) × Nat
  | nil, _ => (none, 0)          -- `itr->pair` is never the sentinel
  | node c l k v r, p =>
    if isNil (childR dir (node c l k v r)) then (ascend dir (node c l k v r) p, 2)
    else (descend dir (childR dir (node c l k v r)) (⟨c, k, v, childL dir (node c l k v r), !dir⟩ :: p), 1)

structure Itr (V : Type) where
  dir : Bool
  pair : Option (Pos V) := none
  state : Nat := 0

/-- key and value of the pair at a position -/
def kvOf : T V → Option (Nat × V)
  | nil => none
  | node _ _ k v _ => some (k, v)

/-- the pair `get_next_pair` has just returned (`itr->pair`) -/
def Itr.cur (it : Itr V) : Option (Nat × V) := it.pair.bind fun p => kvOf p.1

/-- `hawk_init_rbt_itr` + `hawk_rbt_getfirstpair`: `pair = root, _prev = root->parent, _state = 0` -/
def getFirst (t : T V) (dir : Bool) : Itr V :=
  match descend dir t [] with
  | some p => { dir, pair := some p, state := 1 }
  | none => { dir, pair := none, state := 0 }

/-- `hawk_rbt_getnextpair` -/
def getNext (it : Itr V) : Itr V :=
  if it.state = 0 then { it with pair := none, state := 0 }   -- `itr->pair` is NULL: the loop is not entered
  else match it.pair with
    | none => { it with pair := none, state := 0 }
    | some (t, p) =>
      match resume it.dir t p with
      | (some q, st) => { it with pair := some q, state := st }
      | (none, _) => { it with pair := none, state := 0 }

/-- in-order list in the direction of the walk -/
def listDir (dir : Bool) (t : T V) : List (Nat × V) := if dir then (toList t).reverse else toList t

/-- pairs still to be returned once the subtree hanging below a path is finished -/
def pathRest (dir : Bool) : Path V → List (Nat × V)
  | [] => []
  | f :: p => if f.side = dir then (f.k, f.v) :: (listDir dir f.sib ++ pathRest dir p) else pathRest dir p

/-- pairs still to be returned after the pair at a position -/
def posRest (dir : Bool) : Pos V → List (Nat × V)
  | (nil, _) => []
  | (node _ l _ _ r, p) => listDir dir (if dir then l else r) ++ pathRest dir p

/-- everything from a position on, the pair at the position included -/
def posAll (dir : Bool) : Option (Pos V) → List (Nat × V)
  | none => []
  | some q => (kvOf q.1).toList ++ posRest dir q

theorem isNil_iff (t : T V) : isNil t = true ↔ t = nil := by cases t <;> simp [isNil]

theorem descend_all (dir : Bool) (t : T V) (p : Path V) (ht : t ≠ nil) :
    posAll dir (descend dir t p) = listDir dir t ++ pathRest dir p := by
  induction t generalizing p with
  | nil => exact absurd rfl ht
  | node c l k v r ihl ihr =>
    rw [descend]
    cases dir
    · by_cases h : isNil l = true
      · have := (isNil_iff l).1 h; subst this
        simp [isNil, posAll, kvOf, posRest, listDir]
      · have hl : l ≠ nil := fun e => h ((isNil_iff l).2 e)
        simp [h, ihl _ hl, pathRest, listDir]
    · by_cases h : isNil r = true
      · have := (isNil_iff r).1 h; subst this
        simp [isNil, posAll, kvOf, posRest, listDir]
      · have hr : r ≠ nil := fun e => h ((isNil_iff r).2 e)
        simp [h, ihr _ hr, pathRest, listDir]

theorem ascend_all (dir : Bool) (t : T V) (p : Path V) :
    posAll dir (ascend dir t p) = pathRest dir p := by
  induction p generalizing t with
  | nil => simp [ascend, posAll, pathRest]
  | cons f p ih =>
    simp only [ascend, pathRest]
    split
    · rename_i h
      cases dir <;> simp_all [posAll, Frame.plug, kvOf, posRest]
    · exact ih _

theorem resume_all (dir : Bool) (t : T V) (p : Path V) :
    posAll dir (resume dir t p).1 = posRest dir (t, p) := by
  cases t with
  | nil => simp [resume, posAll, posRest]
  | node c l k v r =>
    rw [resume]
    split
    · rename_i h
      cases dir <;> simp_all [childR, isNil_iff, ascend_all, posRest, listDir]
    · rename_i h
      have h' : childR dir (node c l k v r) ≠ nil := fun e => h ((isNil_iff _).2 e)
      simp only [descend_all _ _ _ h']
      cases dir <;> simp [childR, pathRest, posRest, listDir]

theorem getNext_dir (it : Itr V) : (getNext it).dir = it.dir := by
  unfold getNext; split
  · rfl
  · split
    · rfl
    · split <;> rfl

theorem getNext_lt (it : Itr V) (kv : Nat × V) (h : it.cur = some kv) :
    (posAll (getNext it).dir (getNext it).pair).length < (posAll it.dir it.pair).length := by
  rw [getNext_dir]
  obtain ⟨dir, pair, state⟩ := it
  cases pair with
  | none => simp [Itr.cur] at h
  | some q =>
    obtain ⟨t, p⟩ := q
    cases t with
    | nil => simp [Itr.cur, kvOf] at h
    | node c l k v r =>
      have hr := resume_all dir (node c l k v r) p
      unfold getNext
      by_cases hs : state = 0
      · simp [hs, posAll, kvOf]
      · simp only [hs, if_false]
        split
        · rename_i q st hq
          simp only [hq] at hr
          simp only [hr]
          simp [posAll, kvOf]
        · simp [posAll, kvOf]

/-- the loop of `hawk_rbt_walk` / `hawk_rbt_rwalk` after `hawk_rbt_getfirstpair`:
    `while (pair) { walker (pair); pair = hawk_rbt_getnextpair (rbt, &itr); }` -/
def walkItr (it : Itr V) : List (Nat × V) :=
  match h : it.cur with
  | none => []
  | some kv => kv :: walkItr (getNext it)
termination_by (posAll it.dir it.pair).length
decreasing_by exact getNext_lt it kv h

/-- `hawk_rbt_walk`: pairs in the order the walker sees them -/
def walk (t : T V) : List (Nat × V) := walkItr (getFirst t false)
/-- `hawk_rbt_rwalk` -/
def rwalk (t : T V) : List (Nat × V) := walkItr (getFirst t true)

/-! ## clear: `while (!IS_NIL(rbt,rbt->root)) delete_pair (rbt, rbt->root);` -/

@[simp] theorem toList_setBlack (t : T V) : toList (setBlack t) = toList t := by cases t <;> rfl

theorem toList_splice (c : Color) (x : T V) : toList (splice c x).1 = toList x := by
  unfold splice; cases c
  · simp
  · simp only; split <;> simp

theorem toList_fixDelL' (c : Color) (l : T V) (k : Nat) (v : V) (r : T V) :
    toList (fixDelL' c l k v r).1 = toList l ++ (k, v) :: toList r := by
  unfold fixDelL'; split
  · simp
  · split
    · simp
    · split
      · split <;> simp
      · simp

theorem toList_fixDelL (c : Color) (l : T V) (k : Nat) (v : V) (r : T V) :
    toList (fixDelL c l k v r).1 = toList l ++ (k, v) :: toList r := by
  unfold fixDelL; split <;> simp [toList_fixDelL']

theorem toList_fixDelR' (c : Color) (l : T V) (k : Nat) (v : V) (r : T V) :
    toList (fixDelR' c l k v r).1 = toList l ++ (k, v) :: toList r := by
  unfold fixDelR'; split
  · simp
  · split
    · simp
    · split
      · split <;> simp
      · simp

theorem toList_fixDelR (c : Color) (l : T V) (k : Nat) (v : V) (r : T V) :
    toList (fixDelR c l k v r).1 = toList l ++ (k, v) :: toList r := by
  unfold fixDelR; split <;> simp [toList_fixDelR']

theorem toList_balL (d : Bool) (c : Color) (l : T V) (k : Nat) (v : V) (r : T V) :
    toList (balL d c l k v r).1 = toList l ++ (k, v) :: toList r := by
  unfold balL; split <;> simp [toList_fixDelL]

theorem toList_balR (d : Bool) (c : Color) (l : T V) (k : Nat) (v : V) (r : T V) :
    toList (balR d c l k v r).1 = toList l ++ (k, v) :: toList r := by
  unfold balR; split <;> simp [toList_fixDelR]

/-- `delMin` removes exactly the first pair of the in-order walk and returns it -/
theorem toList_delMin (c : Color) (l : T V) (k : Nat) (v : V) (r : T V) :
    (delMin c l k v r).2.1 :: toList (delMin c l k v r).1 = toList (node c l k v r) := by
  induction l generalizing c k v r with
  | nil => simp [delMin, toList_splice]
  | node lc ll lk lv lr ihl _ =>
    rw [delMin]
    simp only [toList_balL]
    have := ihl lc lk lv lr
    simp only [toList] at this ⊢
    rw [← this]; simp

/-- deleting the key at the root removes exactly that pair -/
theorem toList_del_root (c : Color) (l : T V) (k : Nat) (v : V) (r : T V) :
    toList (del k (node c l k v r)).1 = toList l ++ toList r := by
  cases l with
  | nil => simp [del, toList_splice]
  | node lc ll lk lv lr =>
    cases r with
    | nil => simp [del, toList_splice]
    | node rc rl rk rv rr =>
      simp only [del, if_true, toList_balR]
      have := toList_delMin rc rl rk rv rr
      rw [← this]

theorem size_eq_length (t : T V) : size t = (toList t).length := by
  induction t with
  | nil => rfl
  | node c l k v r ihl ihr => simp [ihl, ihr]; omega

/-- `hawk_rbt_clear`: the loop ends because every `delete_pair` removes one pair -/
def clear : T V → T V
  | nil => nil
  | node c l k v r => clear (del k (node c l k v r)).1
termination_by t => size t
decreasing_by
  simp only [size_eq_length, toList_del_root]
  simp

end Hawk.Rbt
