import HawkModel.Cmp
/-! helper lemmas for Props/C11.lean: three-way results, antisymmetry of every base routine, the generated
    dispatcher equals the hand-written one, insertion sort, total preorders by kind -/
namespace Hawk.Cmp
variable {F : Type}

/-! ## the generated dispatch table is the one the model uses -/

theorem table_ok : ∀ l r : Ty, Gen.table[l.code * Gen.stride + r.code]? = some (l.code, r.code) := by
  intro l r; cases l <;> cases r <;> rfl

theorem shape_ok : ∀ l r : Ty, Gen.shape l.code r.code = expectedShape l r := by
  intro l r; cases l <;> cases r <;> rfl

theorem cmpVal_eq_direct (P : Params F) (cfg : Cfg) (h : Hint) (a b : Val F) :
    cmpVal P cfg h a b = cmpDirect P cfg h a b := by
  unfold cmpVal cmpDirect
  split
  · rfl
  · rw [table_ok a.ty b.ty]
    simp only [run2, shape_ok]
    cases a <;> cases b <;> rfl

/-! ## three-way results -/

/-- a three-way result -/
def Tri (n : Int) : Prop := n = -1 ∨ n = 0 ∨ n = 1
theorem cmp3Nat_tri (a b : Nat) : Tri (cmp3Nat a b) := by
  unfold cmp3Nat Tri; split <;> (try split) <;> simp
theorem cmp3Int_tri (a b : Int) : Tri (cmp3Int a b) := by
  unfold cmp3Int Tri; split <;> (try split) <;> simp
theorem cmp3F_tri (P : Params F) (a b : F) : Tri (cmp3F P a b) := by
  unfold cmp3F Tri; split <;> (try split) <;> simp
theorem compChars_tri (f : Nat → Nat) (s t : Str) : Tri (compChars f s t) := by
  induction s generalizing t with
  | nil => cases t <;> simp [compChars, Tri]
  | cons a as ih =>
    cases t with
    | nil => simp [compChars, Tri]
    | cons b bs =>
      simp only [compChars]
      split
      · simp [Tri]
      · split
        · simp [Tri]
        · exact ih bs
theorem compOo_tri (P : Params F) (cfg : Cfg) (s t : Str) : Tri (compOo P cfg s t) := compChars_tri _ _ _
theorem compBc_tri (P : Params F) (cfg : Cfg) (s t : Str) : Tri (compBc P cfg s t) := compChars_tri _ _ _
theorem Tri.neg {n : Int} (h : Tri n) : Tri (-n) := by unfold Tri at *; omega
theorem tri_zero : Tri 0 := by simp [Tri]
theorem tri_one : Tri 1 := by simp [Tri]
theorem tri_mone : Tri (-1) := by simp [Tri]

def OkTri (r : Except Err Int) : Prop := ∃ n, r = .ok n ∧ Tri n
theorem OkTri.mk {n : Int} (h : Tri n) : OkTri (.ok n) := ⟨n, rfl, h⟩
theorem OkTri.neg {r : Except Err Int} (h : OkTri r) : OkTri (neg r) := by
  obtain ⟨n, rfl, hn⟩ := h; exact ⟨-n, rfl, hn.neg⟩

macro "tri_tac" : tactic => `(tactic|
  first
  | exact tri_zero | exact tri_one | exact tri_mone
  | exact cmp3Nat_tri _ _ | exact cmp3Int_tri _ _ | exact cmp3F_tri _ _ _
  | exact compOo_tri _ _ _ _ | exact compBc_tri _ _ _ _
  | exact Tri.neg tri_one
  | exact (cmp3Nat_tri _ _).neg | exact (cmp3Int_tri _ _).neg | exact (cmp3F_tri _ _ _).neg
  | exact (compOo_tri _ _ _ _).neg | exact (compBc_tri _ _ _ _).neg)

theorem refusesMap_scalar (cfg : Cfg) (a b : Val F) (ha : a.scalar = true) (hb : b.scalar = true) :
    refusesMap cfg a b = false := by
  cases a <;> cases b <;> simp [Val.scalar] at ha hb <;> simp [refusesMap, Val.ty]

theorem cmpDirect_scalar (P : Params F) (cfg : Cfg) (h : Hint) (a b : Val F)
    (ha : a.scalar = true) (hb : b.scalar = true) :
    cmpDirect P cfg h a b = routine P cfg a.ty b.ty h a b := by
  simp [cmpDirect, refusesMap_scalar cfg a b ha hb]

theorem routine_scalar_ok (P : Params F) (cfg : Cfg) (h : Hint) (a b : Val F)
    (ha : a.scalar = true) (hb : b.scalar = true) : OkTri (routine P cfg a.ty b.ty h a b) := by
  cases a <;> cases b <;> simp [Val.scalar] at ha hb <;>
  simp only [Val.ty, routine, mirrorOf, rNilNil, rNilChar, rNilBchr, rNilInt, rNilFlt,
    rNilStr, rNilMbs, rCharChar, rCharBchr, rCharInt, rCharStr, rCharMbs, rBchrBchr, rBchrInt, rBchrStr, rBchrMbs,
    rIntInt, rIntFlt, rIntStr, rIntMbs, rFltFlt, rFltStr, rFltMbs, rStrStr, rStrMbs, rMbsMbs] <;>
  (repeat' split) <;> (try (apply OkTri.neg)) <;> (repeat' split) <;> (try (apply OkTri.mk)) <;> (try tri_tac)
theorem cmp3Nat_antisymm (a b : Nat) : cmp3Nat b a = -cmp3Nat a b := by
  unfold cmp3Nat; split <;> split <;> (try split) <;> (try split) <;> omega
theorem cmp3Int_antisymm (a b : Int) : cmp3Int b a = -cmp3Int a b := by
  unfold cmp3Int; split <;> split <;> (try split) <;> (try split) <;> omega

def FltAsymm (P : Params F) : Prop := ∀ x y, P.lt x y = true → P.lt y x = false

theorem cmp3F_antisymm (P : Params F) (hP : FltAsymm P) (a b : F) : cmp3F P b a = -cmp3F P a b := by
  unfold cmp3F
  cases hab : P.lt a b <;> cases hba : P.lt b a <;> simp
  have := hP a b hab; simp_all

theorem compChars_antisymm (f : Nat → Nat) (s t : Str) : compChars f t s = -compChars f s t := by
  induction s generalizing t with
  | nil => cases t <;> simp [compChars]
  | cons a as ih =>
    cases t with
    | nil => simp [compChars]
    | cons b bs =>
      simp only [compChars]
      by_cases h1 : f a > f b
      · have : ¬ f b > f a := by omega
        have : f b < f a := h1
        simp [*]
      · by_cases h2 : f a < f b
        · have : f b > f a := h2
          simp [*]
        · have h3 : ¬ f b > f a := by omega
          have h4 : ¬ f b < f a := by omega
          simp [*, ih]

theorem neg_neg' (r : Except Err Int) : neg (neg r) = r := by
  cases r <;> simp [neg]

theorem routine_hint (P : Params F) (cfg : Cfg) (h h' : Hint) (a b : Val F)
    (ha : a.scalar = true) (hb : b.scalar = true) :
    routine P cfg a.ty b.ty h a b = routine P cfg a.ty b.ty h' a b := by
  cases a <;> cases b <;> simp [Val.scalar] at ha hb <;> rfl

theorem neg_ok (n : Int) : neg (.ok n) = .ok (-n) := rfl

theorem rStrStr_antisymm (P : Params F) (hP : FltAsymm P) (cfg : Cfg) (h h' : Hint) (s t : Str) (m n : Nat) :
    rStrStr P cfg h' (.str t n) (.str s m) = neg (rStrStr P cfg h (.str s m) (.str t n)) := by
  simp only [rStrStr]
  by_cases hm : m = 0
  · simp [hm, neg_ok, compOo]; rw [compChars_antisymm]
  · by_cases hn : n = 0
    · simp [hn, neg_ok, compOo]; rw [compChars_antisymm]
    · by_cases hm1 : m = 1 <;> by_cases hn1 : n = 1 <;> simp [hm, hn, hm1, hn1, neg_ok]
      · rw [cmp3Int_antisymm]
      · rw [cmp3F_antisymm P hP]
      · rw [cmp3F_antisymm P hP]
      · rw [cmp3F_antisymm P hP]

theorem routine_antisymm (P : Params F) (hP : FltAsymm P) (cfg : Cfg) (h h' : Hint) (a b : Val F)
    (ha : a.scalar = true) (hb : b.scalar = true) :
    routine P cfg b.ty a.ty h' b a = neg (routine P cfg a.ty b.ty h a b) := by
  cases a <;> cases b <;> simp [Val.scalar] at ha hb <;>
  simp only [Val.ty, routine, mirrorOf, neg_neg'] <;>
  first
  | rfl
  | exact rStrStr_antisymm P hP cfg h h' _ _ _ _
  | (simp only [rCharChar, rBchrBchr, neg_ok]; rw [cmp3Nat_antisymm])
  | (simp only [rIntInt, neg_ok]; rw [cmp3Int_antisymm])
  | (simp only [rFltFlt, neg_ok]; rw [cmp3F_antisymm P hP])
  | (simp only [rMbsMbs, neg_ok, compBc]; rw [compChars_antisymm])

/-! ## lexicographic order is transitive -/

theorem compChars_le_trans (f : Nat → Nat) : ∀ (s t u : Str),
    compChars f s t ≤ 0 → compChars f t u ≤ 0 → compChars f s u ≤ 0
  | [], [], u, _, h2 => h2
  | [], _ :: _, [], _, h2 => by simp [compChars] at h2
  | [], _ :: _, _ :: _, _, _ => by simp [compChars]
  | _ :: _, [], _, h1, _ => by simp [compChars] at h1
  | _ :: _, _ :: _, [], _, h2 => by simp [compChars] at h2
  | a :: as, b :: bs, c :: cs, h1, h2 => by
    simp only [compChars] at h1 h2 ⊢
    have ih := compChars_le_trans f as bs cs
    split at h1
    · omega
    · split at h1
      · split at h2
        · omega
        · split at h2
          · split
            · omega
            · split
              · omega
              · omega
          · split
            · omega
            · split
              · omega
              · omega
      · split at h2
        · omega
        · split at h2
          · split
            · omega
            · split
              · omega
              · omega
          · split
            · omega
            · split
              · omega
              · exact ih h1 h2

/-! ## insertion sort -/

section Sorting
variable {α ε : Type}

/-- `x ≤ y` under a three-way comparator that may fail -/
def LeC (c : α → α → Except ε Int) (x y : α) : Prop := ∃ n, c x y = .ok n ∧ n ≤ 0

/-- the comparator never fails on `S`, and `LeC` is total and transitive there -/
structure TotalPreorderOn (c : α → α → Except ε Int) (S : α → Prop) : Prop where
  ok : ∀ x y, S x → S y → ∃ n, c x y = .ok n
  total : ∀ x y, S x → S y → LeC c x y ∨ LeC c y x
  trans : ∀ x y z, S x → S y → S z → LeC c x y → LeC c y z → LeC c x z

theorem sink_perm (c : α → α → Except ε Int) (x : α) : ∀ (rp r : List α), sink c x rp = .ok r → r.Perm (x :: rp)
  | [], r, h => by simp [sink] at h; subst h; exact List.Perm.refl _
  | p :: rp, r, h => by
    simp only [sink] at h
    split at h
    · cases h
    · split at h
      · cases h; exact List.Perm.refl _
      · split at h
        · cases h
        · rename_i r' hr'
          cases h
          have ih := sink_perm c x rp r' hr'
          exact (List.Perm.cons p ih).trans (List.Perm.swap x p rp)

theorem isortAux_perm (c : α → α → Except ε Int) : ∀ (rest rp out : List α),
    isortAux c rp rest = .ok out → out.Perm (rp ++ rest)
  | [], rp, out, h => by
    simp [isortAux] at h; subst h; simp
  | x :: rest, rp, out, h => by
    simp only [isortAux] at h
    split at h
    · cases h
    · rename_i rp' hrp'
      have h1 := isortAux_perm c rest rp' out h
      have h2 := sink_perm c x rp rp' hrp'
      refine h1.trans ?_
      refine (List.Perm.append_right rest h2).trans ?_
      simpa using (List.perm_middle (a := x) (l₁ := rp) (l₂ := rest)).symm

theorem isort_perm (c : α → α → Except ε Int) (l out : List α) (h : isort c l = .ok out) : out.Perm l := by
  simpa [isort] using isortAux_perm c l [] out h

theorem sink_sorted (c : α → α → Except ε Int) (S : α → Prop) (hT : TotalPreorderOn c S) (x : α) (hx : S x) :
    ∀ (rp : List α), (∀ y ∈ rp, S y) → rp.Pairwise (fun u v => LeC c v u) →
      ∃ r, sink c x rp = .ok r ∧ r.Pairwise (fun u v => LeC c v u)
  | [], _, _ => ⟨[x], rfl, by simp⟩
  | p :: rp, hS, hs => by
    have hp : S p := hS p (by simp)
    have hrpS : ∀ y ∈ rp, S y := fun y hy => hS y (by simp [hy])
    obtain ⟨n, hn⟩ := hT.ok p x hp hx
    rw [List.pairwise_cons] at hs
    simp only [sink, hn]
    by_cases hle : n ≤ 0
    · simp only [hle, if_true]
      refine ⟨_, rfl, ?_⟩
      rw [List.pairwise_cons]
      refine ⟨?_, List.pairwise_cons.mpr hs⟩
      intro y hy
      rcases List.mem_cons.mp hy with rfl | hy
      · exact ⟨n, hn, hle⟩
      · exact hT.trans y p x (hrpS y hy) hp hx (hs.1 y hy) ⟨n, hn, hle⟩
    · simp only [hle, if_false]
      obtain ⟨r, hr, hrs⟩ := sink_sorted c S hT x hx rp hrpS hs.2
      simp only [hr]
      refine ⟨_, rfl, ?_⟩
      rw [List.pairwise_cons]
      refine ⟨?_, hrs⟩
      have hxp : LeC c x p := by
        rcases hT.total p x hp hx with ⟨m, hm, hm0⟩ | h
        · rw [hn] at hm; cases hm; exact absurd hm0 hle
        · exact h
      intro y hy
      have := (sink_perm c x rp r hr).mem_iff.mp hy
      rcases List.mem_cons.mp this with rfl | hy
      · exact hxp
      · exact hs.1 y hy

theorem isortAux_sorted (c : α → α → Except ε Int) (S : α → Prop) (hT : TotalPreorderOn c S) :
    ∀ (rest rp : List α), (∀ y ∈ rest, S y) → (∀ y ∈ rp, S y) → rp.Pairwise (fun u v => LeC c v u) →
      ∃ out, isortAux c rp rest = .ok out ∧ out.Pairwise (LeC c)
  | [], rp, _, _, hs => ⟨rp.reverse, rfl, by simpa [List.pairwise_reverse] using hs⟩
  | x :: rest, rp, hrest, hrp, hs => by
    obtain ⟨r, hr, hrs⟩ := sink_sorted c S hT x (hrest x (by simp)) rp hrp hs
    simp only [isortAux, hr]
    apply isortAux_sorted c S hT rest r (fun y hy => hrest y (by simp [hy])) _ hrs
    intro y hy
    have := (sink_perm c x rp r hr).mem_iff.mp hy
    rcases List.mem_cons.mp this with rfl | hy
    · exact hrest _ (by simp)
    · exact hrp y hy

theorem isort_sorted (c : α → α → Except ε Int) (S : α → Prop) (hT : TotalPreorderOn c S) (l : List α)
    (hl : ∀ y ∈ l, S y) : ∃ out, isort c l = .ok out ∧ out.Perm l ∧ out.Pairwise (LeC c) := by
  obtain ⟨out, h, hs⟩ := isortAux_sorted c S hT l [] hl (by simp) (by simp)
  exact ⟨out, h, isort_perm c l out h, hs⟩
end Sorting

/-! ## total preorders by kind -/

/-- what the property's "finite floats" buys: `<` on hawk_flt_t is a strict weak order, and the
    int→float conversion is exact enough to be strictly monotone (true of a 64-bit-mantissa long double) -/
structure FltLaws (P : Params F) : Prop where
  asymm : ∀ x y, P.lt x y = true → P.lt y x = false
  negTrans : ∀ x y z, P.lt x y = false → P.lt y z = false → P.lt x z = false
  ofInt_lt : ∀ i j : Int, P.lt (P.ofInt i) (P.ofInt j) = decide (i < j)

theorem FltLaws.toAsymm {P : Params F} (h : FltLaws P) : FltAsymm P := h.asymm

theorem cmp3F_le_iff (P : Params F) (x y : F) : cmp3F P x y ≤ 0 ↔ P.lt y x = false := by
  unfold cmp3F
  cases h1 : P.lt y x <;> cases h2 : P.lt x y <;> simp

theorem cmp3Int_eq_cmp3F (P : Params F) (hL : FltLaws P) (i j : Int) :
    cmp3Int i j = cmp3F P (P.ofInt i) (P.ofInt j) := by
  unfold cmp3Int cmp3F
  rw [hL.ofInt_lt, hL.ofInt_lt]
  by_cases h1 : i > j <;> by_cases h2 : i < j <;> simp [h1, h2] <;> omega

theorem cmp3F_total (P : Params F) (hL : FltLaws P) (x y : F) : cmp3F P x y ≤ 0 ∨ cmp3F P y x ≤ 0 := by
  rw [cmp3F_le_iff, cmp3F_le_iff]
  cases h : P.lt y x
  · exact Or.inl rfl
  · exact Or.inr (hL.asymm _ _ h)

theorem cmp3F_trans (P : Params F) (hL : FltLaws P) (x y z : F) :
    cmp3F P x y ≤ 0 → cmp3F P y z ≤ 0 → cmp3F P x z ≤ 0 := by
  rw [cmp3F_le_iff, cmp3F_le_iff, cmp3F_le_iff]
  intro h1 h2; exact hL.negTrans z y x h2 h1

theorem compChars_total (f : Nat → Nat) (s t : Str) : compChars f s t ≤ 0 ∨ compChars f t s ≤ 0 := by
  rw [compChars_antisymm f s t]; omega

theorem cmp3Nat_total (a b : Nat) : cmp3Nat a b ≤ 0 ∨ cmp3Nat b a ≤ 0 := by
  rw [cmp3Nat_antisymm a b]; omega

theorem cmp3Nat_trans (a b c : Nat) : cmp3Nat a b ≤ 0 → cmp3Nat b c ≤ 0 → cmp3Nat a c ≤ 0 := by
  unfold cmp3Nat; repeat' split
  all_goals omega

section
variable {α ε K : Type}
/-- a comparator that is a total-preorder three-way comparison of keys -/
theorem tpo_of_key (c : α → α → Except ε Int) (S : α → Prop) (key : α → K) (c3 : K → K → Int)
    (hc : ∀ x y, S x → S y → c x y = .ok (c3 (key x) (key y)))
    (htot : ∀ x y : K, c3 x y ≤ 0 ∨ c3 y x ≤ 0)
    (htr : ∀ x y z : K, c3 x y ≤ 0 → c3 y z ≤ 0 → c3 x z ≤ 0) : TotalPreorderOn c S where
  ok := fun x y hx hy => ⟨_, hc x y hx hy⟩
  total := fun x y hx hy => by
    rcases htot (key x) (key y) with h | h
    · exact Or.inl ⟨_, hc x y hx hy, h⟩
    · exact Or.inr ⟨_, hc y x hy hx, h⟩
  trans := fun x y z hx hy hz h1 h2 => by
    obtain ⟨n, hn, hn0⟩ := h1
    obtain ⟨m, hm, hm0⟩ := h2
    rw [hc x y hx hy] at hn; cases hn
    rw [hc y z hy hz] at hm; cases hm
    exact ⟨_, hc x z hx hz, htr _ _ _ hn0 hm0⟩
end

/-- the "kinds" of the property: all numbers, all (plain) strings; and further classes on which the
    comparator is also a total preorder: numeric strings (flag set), byte strings, characters, byte characters -/
inductive Kind where
  | num | str | nstr | mbs | char | bchr
  deriving DecidableEq, Repr

def Val.hasKind (v : Val F) : Kind → Bool
  | .num => match v with | .int _ | .flt _ => true | _ => false
  | .str => match v with | .str _ n => n == 0 | _ => false
  | .nstr => match v with | .str _ n => n != 0 | _ => false
  | .mbs => match v with | .mbs _ _ => true | _ => false
  | .char => match v with | .char _ => true | _ => false
  | .bchr => match v with | .bchr _ => true | _ => false

def numKey (P : Params F) : Val F → F
  | .int i => P.ofInt i
  | .flt f => f
  | .str s n => if n = 1 then P.ofInt (P.strToInt s) else (P.strToFlt s).1
  | _ => P.ofInt 0

def strKey : Val F → Str
  | .str s _ => s
  | .mbs s _ => s
  | _ => []

def chrKey : Val F → Nat
  | .char c => c
  | .bchr c => c
  | _ => 0

theorem kind_num_cmp (P : Params F) (hL : FltLaws P) (cfg : Cfg) (a b : Val F)
    (ha : a.hasKind .num = true) (hb : b.hasKind .num = true) :
    cmpVal P cfg .none a b = .ok (cmp3F P (numKey P a) (numKey P b)) := by
  rw [cmpVal_eq_direct]
  cases a <;> simp [Val.hasKind] at ha <;> cases b <;> simp [Val.hasKind] at hb <;>
    simp only [cmpDirect, refusesMap, Val.ty, routine, mirrorOf, rIntInt, rIntFlt, rFltFlt, numKey, neg_ok]
  all_goals simp
  · exact cmp3Int_eq_cmp3F P hL _ _
  · rw [cmp3F_antisymm P hL.toAsymm]; simp


theorem kind_nstr_cmp (P : Params F) (cfg : Cfg) (a b : Val F)
    (ha : a.hasKind .nstr = true) (hb : b.hasKind .nstr = true) :
    cmpVal P cfg .none a b = .ok (cmp3F P (numKey P a) (numKey P b)) ∨
    (∃ s t, a = .str s 1 ∧ b = .str t 1 ∧ cmpVal P cfg .none a b = .ok (cmp3Int (P.strToInt s) (P.strToInt t))) := by
  rw [cmpVal_eq_direct]
  cases a <;> simp [Val.hasKind] at ha
  cases b <;> simp [Val.hasKind] at hb
  rename_i s m t n
  simp only [cmpDirect, refusesMap, Val.ty, routine, rStrStr, numKey]
  by_cases hm1 : m = 1 <;> by_cases hn1 : n = 1 <;> simp [ha, hb, hm1, hn1]

theorem kind_nstr_cmp' (P : Params F) (hL : FltLaws P) (cfg : Cfg) (a b : Val F)
    (ha : a.hasKind .nstr = true) (hb : b.hasKind .nstr = true) :
    cmpVal P cfg .none a b = .ok (cmp3F P (numKey P a) (numKey P b)) := by
  rcases kind_nstr_cmp P cfg a b ha hb with h | ⟨s, t, rfl, rfl, h⟩
  · exact h
  · rw [h, cmp3Int_eq_cmp3F P hL]; simp [numKey]

theorem kind_str_cmp (P : Params F) (cfg : Cfg) (a b : Val F)
    (ha : a.hasKind .str = true) (hb : b.hasKind .str = true) :
    cmpVal P cfg .none a b = .ok (compOo P cfg (strKey a) (strKey b)) := by
  rw [cmpVal_eq_direct]
  cases a <;> simp [Val.hasKind] at ha
  cases b <;> simp [Val.hasKind] at hb
  simp [cmpDirect, refusesMap, Val.ty, routine, rStrStr, strKey, ha]

theorem kind_mbs_cmp (P : Params F) (cfg : Cfg) (a b : Val F)
    (ha : a.hasKind .mbs = true) (hb : b.hasKind .mbs = true) :
    cmpVal P cfg .none a b = .ok (compBc P cfg (strKey a) (strKey b)) := by
  rw [cmpVal_eq_direct]
  cases a <;> simp [Val.hasKind] at ha
  cases b <;> simp [Val.hasKind] at hb
  simp [cmpDirect, refusesMap, Val.ty, routine, rMbsMbs, strKey]

theorem kind_char_cmp (P : Params F) (cfg : Cfg) (a b : Val F)
    (ha : a.hasKind .char = true) (hb : b.hasKind .char = true) :
    cmpVal P cfg .none a b = .ok (cmp3Nat (chrKey a) (chrKey b)) := by
  rw [cmpVal_eq_direct]
  cases a <;> simp [Val.hasKind] at ha
  cases b <;> simp [Val.hasKind] at hb
  simp [cmpDirect, refusesMap, Val.ty, routine, rCharChar, chrKey]

theorem kind_bchr_cmp (P : Params F) (cfg : Cfg) (a b : Val F)
    (ha : a.hasKind .bchr = true) (hb : b.hasKind .bchr = true) :
    cmpVal P cfg .none a b = .ok (cmp3Nat (chrKey a) (chrKey b)) := by
  rw [cmpVal_eq_direct]
  cases a <;> simp [Val.hasKind] at ha
  cases b <;> simp [Val.hasKind] at hb
  simp [cmpDirect, refusesMap, Val.ty, routine, rBchrBchr, chrKey]

theorem kind_tpo (P : Params F) (hL : FltLaws P) (cfg : Cfg) (k : Kind) :
    TotalPreorderOn (cmpVal P cfg .none) (fun v => v.hasKind k = true) := by
  cases k
  · exact tpo_of_key _ _ (numKey P) (cmp3F P) (fun x y hx hy => kind_num_cmp P hL cfg x y hx hy)
      (cmp3F_total P hL) (cmp3F_trans P hL)
  · exact tpo_of_key _ _ strKey (compOo P cfg) (fun x y hx hy => kind_str_cmp P cfg x y hx hy)
      (fun x y => compChars_total _ x y) (fun x y z => compChars_le_trans _ x y z)
  · exact tpo_of_key _ _ (numKey P) (cmp3F P) (fun x y hx hy => kind_nstr_cmp' P hL cfg x y hx hy)
      (cmp3F_total P hL) (cmp3F_trans P hL)
  · exact tpo_of_key _ _ strKey (compBc P cfg) (fun x y hx hy => kind_mbs_cmp P cfg x y hx hy)
      (fun x y => compChars_total _ x y) (fun x y z => compChars_le_trans _ x y z)
  · exact tpo_of_key _ _ chrKey cmp3Nat (fun x y hx hy => kind_char_cmp P cfg x y hx hy) cmp3Nat_total cmp3Nat_trans
  · exact tpo_of_key _ _ chrKey cmp3Nat (fun x y hx hy => kind_bchr_cmp P cfg x y hx hy) cmp3Nat_total cmp3Nat_trans


/-! ## facts about two scalars; `===` -/

theorem scalar_facts0 (P : Params F) (cfg : Cfg) (a b : Val F) (ha : a.scalar = true) (hb : b.scalar = true) :
    ∃ n, Tri n ∧ ∀ h, cmpVal P cfg h a b = .ok n := by
  obtain ⟨n, hn, ht⟩ := routine_scalar_ok P cfg .none a b ha hb
  refine ⟨n, ht, fun h => ?_⟩
  rw [cmpVal_eq_direct, cmpDirect_scalar P cfg h a b ha hb, routine_hint P cfg h .none a b ha hb, hn]

theorem scalar_facts (P : Params F) (hP : FltAsymm P) (cfg : Cfg) (a b : Val F) (ha : a.scalar = true) (hb : b.scalar = true) :
    ∃ n, Tri n ∧ (∀ h, cmpVal P cfg h a b = .ok n) ∧ (∀ h, cmpVal P cfg h b a = .ok (-n)) := by
  obtain ⟨n, ht, hn⟩ := scalar_facts0 P cfg a b ha hb
  refine ⟨n, ht, hn, fun h => ?_⟩
  have h1 := hn h
  rw [cmpVal_eq_direct, cmpDirect_scalar P cfg h a b ha hb] at h1
  rw [cmpVal_eq_direct, cmpDirect_scalar P cfg h b a hb ha, routine_antisymm P hP cfg h h a b ha hb, h1]; rfl

theorem compChars_id_eq (s t : Str) (h : compChars id s t = 0) : s = t := by
  induction s generalizing t with
  | nil => cases t <;> simp_all [compChars]
  | cons a as ih =>
    cases t with
    | nil => simp [compChars] at h
    | cons b bs =>
      simp only [compChars, id] at h
      split at h
      · omega
      · split at h
        · omega
        · have : a = b := by omega
          rw [this, ih bs h]

theorem FltAsymm.irrefl {P : Params F} (hP : FltAsymm P) (x : F) : P.lt x x = false := by
  cases h : P.lt x x
  · rfl
  · have := hP x x h; simp_all

/-- `v_nstr` is what `hawk_rtx_makenstrvalwithoochars` assigns: `hawk_oochars_to_num(..) + 1` or 0 -/
def NstrOK (P : Params F) : Val F → Prop
  | .str s n => n = 0 ∨ (n = 1 ∧ ∃ i, P.strToNum s = .int i) ∨ (n = 2 ∧ ∃ f, P.strToNum s = .flt f)
  | _ => True

/-- strings that `hawk_comp_oochars` finds equal (case-insensitively when IGNORECASE is on) are numeric
    strings of the same sort and convert to the same numbers -/
def FoldNum (P : Params F) (cfg : Cfg) : Prop := ∀ s t, compOo P cfg s t = 0 →
  ((∃ i, P.strToNum s = .int i) → ∃ j, P.strToNum t = .int j) ∧
  ((∃ f, P.strToNum s = .flt f) → ∃ g, P.strToNum t = .flt g) ∧
  P.strToInt s = P.strToInt t ∧
  P.lt (P.strToFlt s).1 (P.strToFlt t).1 = false ∧ P.lt (P.strToFlt t).1 (P.strToFlt s).1 = false

theorem compChars_eq_zero_map (f : Nat → Nat) (s t : Str) (h : compChars f s t = 0) : s.map f = t.map f := by
  induction s generalizing t with
  | nil => cases t <;> simp_all [compChars]
  | cons a as ih =>
    cases t with
    | nil => simp [compChars] at h
    | cons b bs =>
      simp only [compChars] at h
      split at h
      · omega
      · split at h
        · omega
        · have : f a = f b := by omega
          simp [this, ih bs h]

/-- number parsing reads the case-folded text only (`1E1`/`1e1`, `0X1a`/`0x1A`) -/
def CaseInsensitiveParse (P : Params F) : Prop := ∀ s t : Str, s.map P.lower = t.map P.lower →
  P.strToNum s = P.strToNum t ∧ P.strToInt s = P.strToInt t ∧ P.strToFlt s = P.strToFlt t

theorem foldNum_of_caseInsensitiveParse (P : Params F) (hP : FltAsymm P) (cfg : Cfg) (hi : cfg.ignorecase = true)
    (hC : CaseInsensitiveParse P) : FoldNum P cfg := by
  intro s t hst
  simp only [compOo, hi, if_true] at hst
  obtain ⟨h1, h2, h3⟩ := hC s t (compChars_eq_zero_map _ s t hst)
  rw [h1, h2, h3]
  exact ⟨id, id, rfl, hP.irrefl _, hP.irrefl _⟩

theorem foldNum_of_exact (P : Params F) (hP : FltAsymm P) (cfg : Cfg) (h : cfg.ignorecase = false) : FoldNum P cfg := by
  intro s t hst
  have : s = t := by
    simp only [compOo, h] at hst
    exact compChars_id_eq s t hst
  subst this
  exact ⟨id, id, rfl, hP.irrefl _, hP.irrefl _⟩

theorem teq_cmp_zero (P : Params F) (cfg : Cfg) (hF : FoldNum P cfg) (a b : Val F)
    (ha : a.scalar = true) (hb : b.scalar = true) (hwa : NstrOK P a) (hwb : NstrOK P b)
    (ht : teqVal P cfg a b = true) : ∀ h, cmpVal P cfg h a b = .ok 0 := by
  intro h
  rw [cmpVal_eq_direct, cmpDirect_scalar P cfg h a b ha hb]
  cases a <;> cases b <;> simp [Val.scalar] at ha hb <;> simp [teqVal] at ht <;>
    simp only [Val.ty, routine]
  · rfl
  · simp [rCharChar, ht, cmp3Nat]
  · simp [rBchrBchr, ht, cmp3Nat]
  · simp [rIntInt, ht, cmp3Int]
  · simp [rFltFlt, cmp3F, ht]
  · rename_i s m t n
    obtain ⟨hi, hf, hint, hl1, hl2⟩ := hF s t ht
    simp only [rStrStr]
    by_cases hm : m = 0
    · simp [hm, ht]
    · by_cases hn : n = 0
      · simp [hn, ht]
      · simp only [NstrOK] at hwa hwb
        rcases hwa with h0 | ⟨rfl, hsi⟩ | ⟨rfl, hsf⟩
        · exact absurd h0 hm
        · rcases hwb with h0 | ⟨rfl, _⟩ | ⟨rfl, ⟨g, hg⟩⟩
          · exact absurd h0 hn
          · simp [hint, cmp3Int]
          · obtain ⟨j, hj⟩ := hi hsi
            rw [hj] at hg; cases hg
        · rcases hwb with h0 | ⟨rfl, ⟨j, hj⟩⟩ | ⟨rfl, _⟩
          · exact absurd h0 hn
          · obtain ⟨g, hg⟩ := hf hsf
            rw [hg] at hj; cases hj
          · simp [cmp3F, hl1, hl2]
  · simp [rMbsMbs, ht]

/-! ## sorted arrangements of one multiset are unique up to comparator-equality -/

section
variable {α ε : Type}
open Classical in
/-- two sorted arrangements of the same multiset agree position by position up to comparator-equality -/
theorem sorted_perm_pointwise (c : α → α → Except ε Int) (S : α → Prop) (hT : TotalPreorderOn c S)
    (l1 l2 : List α) (hS : ∀ x ∈ l1, S x) (hp : l1.Perm l2)
    (h1 : l1.Pairwise (LeC c)) (h2 : l2.Pairwise (LeC c)) (i : Nat) (hi1 : i < l1.length) (hi2 : i < l2.length) :
    LeC c l1[i] l2[i] := by
  have hS2 : ∀ x ∈ l2, S x := fun x hx => hS x (hp.mem_iff.mpr hx)
  let x := l1[i]
  let y := l2[i]
  have hx : S x := hS _ (List.getElem_mem hi1)
  have hy : S y := hS2 _ (List.getElem_mem hi2)
  apply Classical.byContradiction
  intro hnot
  -- count the elements that are ≤ y
  let p : α → Bool := fun z => decide (LeC c z y)
  -- in l2 the first i+1 positions all qualify
  have hc2 : i + 1 ≤ l2.countP p := by
    have hsplit : l2 = l2.take i ++ (y :: l2.drop (i + 1)) := by
      rw [← List.drop_eq_getElem_cons hi2, List.take_append_drop]
    have hall : ∀ z ∈ l2.take i ++ [y], p z = true := by
      intro z hz
      simp only [p, decide_eq_true_eq]
      rcases List.mem_append.mp hz with hz | hz
      · rw [hsplit] at h2
        exact (List.pairwise_append.mp h2).2.2 z hz y (by simp)
      · simp at hz; subst hz
        rcases hT.total y y hy hy with h | h <;> exact h
    have : l2.countP p = (l2.take i ++ [y]).countP p + (l2.drop (i + 1)).countP p := by
      conv => lhs; rw [hsplit]
      simp [List.countP_append, List.countP_cons]
      omega
    rw [this, List.countP_eq_length.mpr hall]
    simp
    have : (l2.take i).length = i := by simp; omega
    omega
  -- in l1 nothing from position i on qualifies
  have hc1 : l1.countP p ≤ i := by
    have hsplit : l1 = l1.take i ++ (x :: l1.drop (i + 1)) := by
      rw [← List.drop_eq_getElem_cons hi1, List.take_append_drop]
    have hnone : ∀ z ∈ x :: l1.drop (i + 1), ¬ p z = true := by
      intro z hz hpz
      simp only [p, decide_eq_true_eq] at hpz
      rcases List.mem_cons.mp hz with rfl | hz'
      · exact hnot hpz
      · have hzS : S z := hS z (List.mem_of_mem_drop hz')
        have hxz : LeC c x z := by
          rw [hsplit] at h1
          exact (List.pairwise_cons.mp (List.pairwise_append.mp h1).2.1).1 z hz'
        exact hnot (hT.trans x z y hx hzS hy hxz hpz)
    have : l1.countP p = (l1.take i).countP p + (x :: l1.drop (i + 1)).countP p := by
      conv => lhs; rw [hsplit]
      simp [List.countP_append]
    rw [this, List.countP_eq_zero.mpr hnone]
    have := List.countP_le_length (p := p) (l := l1.take i)
    have : (l1.take i).length ≤ i := by simp; omega
    omega
  have := hp.countP_eq p
  omega
end

theorem hasKind_scalar (v : Val F) (k : Kind) (h : v.hasKind k = true) : v.scalar = true := by
  cases k <;> cases v <;> simp [Val.hasKind] at h <;> rfl

/-! ## the driver's exact binary floats -/

/-- value of a finite `Dy` scaled by `2^(-k)` for any `k` not above its exponent -/
def Dy.scaled (m e k : Int) : Int := m * 2 ^ (e - k).toNat

theorem Dy.scaled_shift (m e k k0 : Int) (h0 : k ≤ k0) (h1 : k0 ≤ e) :
    Dy.scaled m e k = Dy.scaled m e k0 * 2 ^ (k0 - k).toNat := by
  unfold Dy.scaled
  have : (e - k).toNat = (e - k0).toNat + (k0 - k).toNat := by omega
  rw [this, Int.pow_add, Int.mul_assoc]

theorem Dy.lt_fin_scale (m1 e1 m2 e2 k : Int) (h1 : k ≤ e1) (h2 : k ≤ e2) :
    Dy.lt (.fin m1 e1) (.fin m2 e2) = true ↔ Dy.scaled m1 e1 k < Dy.scaled m2 e2 k := by
  have hk0 : k ≤ min e1 e2 := by omega
  have h10 : min e1 e2 ≤ e1 := by omega
  have h20 : min e1 e2 ≤ e2 := by omega
  rw [Dy.scaled_shift m1 e1 k (min e1 e2) hk0 h10, Dy.scaled_shift m2 e2 k (min e1 e2) hk0 h20]
  have hpos : (0 : Int) < 2 ^ (min e1 e2 - k).toNat := Int.pow_pos (by decide)
  rw [Int.mul_lt_mul_right hpos]
  simp [Dy.lt, Dy.scaled]

theorem Dy.lt_asymm (x y : Dy) (h : Dy.lt x y = true) : Dy.lt y x = false := by
  cases x <;> cases y <;> simp_all [Dy.lt]
  rename_i m1 e1 m2 e2
  have a := Dy.lt_fin_scale m1 e1 m2 e2 (min e1 e2) (by omega) (by omega)
  have b := Dy.lt_fin_scale m2 e2 m1 e1 (min e1 e2) (by omega) (by omega)
  simp only [Dy.lt, decide_eq_true_eq] at a b
  have h' := a.mp h
  apply Int.not_lt.mp
  intro hc
  have := b.mp hc
  omega

theorem Dy.lt_negTrans (x y z : Dy) (hx : x ≠ .nan) (hy : y ≠ .nan) (hz : z ≠ .nan)
    (h1 : Dy.lt x y = false) (h2 : Dy.lt y z = false) : Dy.lt x z = false := by
  cases x <;> cases y <;> cases z <;> simp_all [Dy.lt]
  rename_i m1 e1 m2 e2 m3 e3
  have k1 : min (min e1 e2) e3 ≤ e1 := by omega
  have k2 : min (min e1 e2) e3 ≤ e2 := by omega
  have k3 : min (min e1 e2) e3 ≤ e3 := by omega
  have a := Dy.lt_fin_scale m1 e1 m2 e2 _ k1 k2
  have b := Dy.lt_fin_scale m2 e2 m3 e3 _ k2 k3
  have c := Dy.lt_fin_scale m1 e1 m3 e3 _ k1 k3
  simp only [Dy.lt, decide_eq_true_eq] at a b c
  have na : ¬ Dy.scaled m1 e1 (min (min e1 e2) e3) < Dy.scaled m2 e2 (min (min e1 e2) e3) := fun hh => by
    have := a.mpr hh; omega
  have nb : ¬ Dy.scaled m2 e2 (min (min e1 e2) e3) < Dy.scaled m3 e3 (min (min e1 e2) e3) := fun hh => by
    have := b.mpr hh; omega
  have nc : ¬ Dy.scaled m1 e1 (min (min e1 e2) e3) < Dy.scaled m3 e3 (min (min e1 e2) e3) := by omega
  apply Int.not_lt.mp
  intro hc
  exact nc (c.mp hc)

theorem Dy.ofInt_lt (i j : Int) : Dy.lt (Dy.ofInt i) (Dy.ofInt j) = decide (i < j) := by
  simp [Dy.ofInt, Dy.lt]


/-! ## asort sources -/

theorem mem_occupied (sl : List (Option (Val F))) (k j : Nat) (v : Val F) :
    (j, v) ∈ occupied sl k ↔ k ≤ j ∧ sl[j - k]? = some (some v) := by
  induction sl generalizing k with
  | nil => simp [occupied]
  | cons o r ih =>
    cases o with
    | none =>
      simp only [occupied, ih]
      constructor
      · rintro ⟨h1, h2⟩
        refine ⟨by omega, ?_⟩
        have : j - k = (j - (k + 1)) + 1 := by omega
        rw [this, List.getElem?_cons_succ]; exact h2
      · rintro ⟨h1, h2⟩
        by_cases hjk : j = k
        · subst hjk; simp at h2
        · refine ⟨by omega, ?_⟩
          have : j - k = (j - (k + 1)) + 1 := by omega
          rw [this, List.getElem?_cons_succ] at h2; exact h2
    | some w =>
      simp only [occupied, List.mem_cons, ih, Prod.mk.injEq]
      constructor
      · rintro (⟨rfl, rfl⟩ | ⟨h1, h2⟩)
        · simp
        · refine ⟨by omega, ?_⟩
          have : j - k = (j - (k + 1)) + 1 := by omega
          rw [this, List.getElem?_cons_succ]; exact h2
      · rintro ⟨h1, h2⟩
        by_cases hjk : j = k
        · subst hjk; simp at h2; exact Or.inl ⟨rfl, h2.symm⟩
        · refine Or.inr ⟨by omega, ?_⟩
          have : j - k = (j - (k + 1)) + 1 := by omega
          rw [this, List.getElem?_cons_succ] at h2; exact h2

theorem userCmp3_eq_cmp' (P : Params F) (cfg : Cfg) (a b : Val F) (ha : a.scalar = true) (hb : b.scalar = true) :
    userCmp3 P cfg a b = cmpVal P cfg .none a b := by
  obtain ⟨n, ht, hn⟩ := scalar_facts0 P cfg a b ha hb
  simp only [userCmp3, evalOp, hn, Op.test, Op.hint]
  rcases ht with rfl | rfl | rfl <;> simp

end Hawk.Cmp
