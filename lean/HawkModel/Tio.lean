import HawkModel.Utf8
/-!
# Model of the staging buffers of lib/tio.c (C15)

Read side: `tio_read_uchars` (refill at `getc_conv`, conversion up to the newline stopper, the
incomplete-tail shift, the illegal-sequence handling with and without HAWK_TIO_IGNOREECERR) and the
loop of `hawk_tio_readuchars`; `hawk_tio_readbchars` for byte-mode reads.  The input handler is a
list of chunks: each `HAWK_TIO_DATA` call delivers the next chunk, or as much of it as fits into the
room it was offered (the rest stays first in the list); an exhausted list or an empty chunk is the
handler's "0 bytes = end of input".

Write side: `hawk_tio_flush`'s loop against an adversarial output handler (a script of replies: accept 1..offered
bytes, accept nothing, fail — with what the buffer and `outbuf_len` are after every exit path), and
`hawk_tio_writeuchars` / `hawk_tio_writebchars` on top with the flush on full / newline (HAWK_TIO_NOAUTOFLUSH included);
`sink` records what the handler accepted, call by call.

`Cfg.legacy = true` reproduces the code before the two repairs proposed with this check
(patches/tio-illseq-oob.diff, patches/tio-shift-overlap.diff); all theorems are about
`legacy = false`, the driver offers both so that the check can name the defect when it meets the
unrepaired code.
-/
namespace Hawk.Tio
open Hawk.Gen Hawk.Utf8

inductive Err
  | eecerr     -- HAWK_EECERR: encoding conversion error
  | ebuffull   -- HAWK_EBUFFULL
  | eioerr     -- the output handler failed (it sets the error number; the harness's sets HAWK_EIOERR)
deriving Repr, DecidableEq

structure Cfg where
  cm : Cmgr := utf8Cmgr utf8Table   -- tio->cmgr (hawk_tio_setcmgr)
  capa : Nat                  -- in.buf.capa / out.buf.capa
  ignoreEcerr : Bool := true  -- HAWK_TIO_IGNOREECERR
  noAutoFlush : Bool := false -- HAWK_TIO_NOAUTOFLUSH
  legacy : Bool := false

/-- what a call returns: `n out` = the characters (bytes for the b-functions are kept as `Nat` too) stored
and their count returned; `err` = -1 with the error number; `fault` = the C would have misbehaved -/
inductive Ret
  | n (out : List Nat)
  | err (e : Err)
  | fault (f : Fault)
deriving Repr, DecidableEq

/-! ## input handler -/

/-- one `in.fun (tio, HAWK_TIO_DATA, ptr, room)` call: (bytes delivered, rest of the source) -/
def pull : List (List UInt8) → Nat → List UInt8 × List (List UInt8)
  | [], _ => ([], [])
  | c :: rest, room => if c.length ≤ room then (c, rest) else (c.take room, c.drop room :: rest)

def srcBytes (src : List (List UInt8)) : Nat := (src.map List.length).sum

theorem pull_bytes (src : List (List UInt8)) (room : Nat) :
    (pull src room).1.length + srcBytes (pull src room).2 = srcBytes src := by
  cases src with
  | nil => simp [pull, srcBytes]
  | cons c rest =>
    simp only [pull]
    split
    · simp [srcBytes]
    · simp [srcBytes, List.length_take, List.length_drop]; omega

/-! ## read side -/

structure InSt where
  buf : List UInt8 := []          -- in.buf.ptr[0 .. inbuf_len)
  cur : Nat := 0                  -- inbuf_cur
  eof : Bool := false             -- STATUS_INPUT_EOF
  illseq : Bool := false          -- STATUS_INPUT_ILLSEQ
  src : List (List UInt8) := []   -- what the input handler is going to deliver
deriving Repr, DecidableEq

/-- the part of `tio_read_uchars` from `mlen = tio->inbuf_len - tio->inbuf_cur` to its end -/
inductive Step
  | done (st : InSt) (r : Ret)
  | more (tail : List UInt8)      -- the incomplete tail was shifted to the head: `goto getc_conv`

def convPart (cfg : Cfg) (bufsize : Nat) (st : InSt) : Step :=
  match convUpto cfg.cm 0x0A bufsize (st.buf.drop st.cur) with
  | .error f => .done st (.fault f)
  | .ok (x, mlen, out) =>
    let st := { st with cur := st.cur + mlen }
    if x = -3 then
      -- incomplete sequence
      if out.length = 0 then
        -- not even a single character was handled: shift bytes in the buffer to the head
        let tail := st.buf.drop st.cur
        if cfg.legacy ∧ 0 < st.cur ∧ st.cur < tail.length then .done st (.fault .overlap)
        else .more tail
      else .done st (.n out)
    else if x = -2 then .done st (.n out)
    else if x ≤ -1 then
      -- illegal sequence
      if cfg.ignoreEcerr then
        if cfg.legacy ∨ out.length < bufsize then
          .done { st with cur := st.cur + 1 } (.n (out ++ [0x3F]))  -- skip one byte, store '?'
        else .done st (.n out)     -- (repair) no room for the '?': leave the byte for the next call
      else if out.length = 0 then .done st (.err .eecerr)
      else .done { st with illseq := true } (.n out)
    else .done st (.n out)

/-- `tio_read_uchars` from the label `getc_conv` on -/
def fill (cfg : Cfg) (bufsize : Nat) (st : InSt) : InSt × Ret :=
  let p := if st.eof then ([], st.src) else pull st.src (cfg.capa - st.buf.length)
  if h : p.1 = [] then
    -- n == 0
    let st := { st with eof := true, src := p.2 }
    if st.cur < st.buf.length then
      -- no more input but some incomplete bytes in the buffer
      if cfg.ignoreEcerr then ({ st with cur := st.cur + 1 }, .n [0x3F])
      else (st, .err .eecerr)
    else (st, .n [])
  else
    match convPart cfg bufsize { st with buf := st.buf ++ p.1, src := p.2 } with
    | .done st' r => (st', r)
    | .more tail => fill cfg bufsize { buf := tail, cur := 0, eof := st.eof, illseq := st.illseq, src := p.2 }
termination_by srcBytes st.src
decreasing_by
  simp only [p] at h ⊢
  split at h
  · simp at h
  · rename_i he
    simp only [he, Bool.false_eq_true, dite_false]
    have := pull_bytes st.src (cfg.capa - st.buf.length)
    have : 0 < (pull st.src (cfg.capa - st.buf.length)).1.length := List.length_pos_iff.mpr h
    omega

/-- `tio_read_uchars (tio, buf, bufsize)` -/
def readU (cfg : Cfg) (bufsize : Nat) (st : InSt) : InSt × Ret :=
  if st.cur ≥ st.buf.length then
    fill cfg bufsize { st with cur := 0, buf := [] }
  else
    match convPart cfg bufsize st with
    | .done st' r => (st', r)
    | .more tail => fill cfg bufsize { st with buf := tail, cur := 0 }

/-- the `while (nread < size)` loop of `hawk_tio_readuchars`; `acc` = buf[0 .. nread) -/
def readLoop (cfg : Cfg) (size : Nat) (st : InSt) (acc : List Nat) : InSt × Ret :=
  if h : acc.length < size then
    if st.illseq then ({ st with illseq := false }, .err .eecerr)
    else
      match hr : readU cfg (size - acc.length) st with
      | (st', .n []) => (st', .n acc)                 -- n == 0: break
      | (st', .n (o :: out)) =>
        let acc' := acc ++ o :: out
        if acc'.getLast? = some 0x0A then (st', .n acc')
        else readLoop cfg size st' acc'
      | (st', r) => (st', r)                          -- n <= -1: return -1
  else (st, .n acc)
termination_by size - acc.length
decreasing_by simp; omega

/-- `hawk_tio_readuchars (tio, buf, size)` -/
def readUchars (cfg : Cfg) (size : Nat) (st : InSt) : InSt × Ret := readLoop cfg size st []

/-- bytes not yet handed to the caller -/
def pending (st : InSt) : Nat := (st.buf.length - st.cur) + srcBytes st.src

inductive End
  | eof                 -- a call returned 0
  | err (e : Err)       -- a call returned -1
  | fault (f : Fault)
  | stuck               -- a call returned characters without consuming a byte (proved impossible)
deriving Repr, DecidableEq

/-- the caller's loop `while ((n = hawk_tio_readuchars (tio, buf, size)) > 0) append (buf, n)` -/
def readAll (cfg : Cfg) (size : Nat) (st : InSt) : List Nat × End :=
  match readUchars cfg size st with
  | (_, .n []) => ([], .eof)
  | (st', .n (o :: out)) =>
    if h : pending st' < pending st then
      let r := readAll cfg size st'
      (o :: out ++ r.1, r.2)
    else (o :: out, .stuck)
  | (_, .err e) => ([], .err e)
  | (_, .fault f) => ([], .fault f)
termination_by pending st

/-! ### hawk_tio_readbchars -/

/-- the inner `do { buf[nread] = ptr[cur++]; if (buf[nread++] == '\n') goto done; } while (cur < len && nread < size)`;
returns (bytes copied, new cur, hit newline) ; `room = size - nread ≥ 1` on entry -/
def copyBytes : List UInt8 → Nat → List UInt8 × Bool
  | [], _ => ([], false)
  | _ :: _, 0 => ([], false)
  | b :: rest, room + 1 =>
    if b = 0x0A then ([b], true)
    else
      let r := copyBytes rest room
      (b :: r.1, r.2)

/-- the `while (nread < size)` loop of `hawk_tio_readbchars` -/
def readBLoop (cfg : Cfg) (size : Nat) (st : InSt) (acc : List UInt8) : InSt × List UInt8 :=
  if h : acc.length < size then
    let st1 := if st.cur ≥ st.buf.length then
        let p := pull st.src cfg.capa
        if p.1 = [] then none else some { st with buf := p.1, cur := 0, src := p.2 }
      else some st
    match st1 with
    | none => ({ st with src := (pull st.src cfg.capa).2 }, acc)       -- n == 0: break
    | some st1 =>
      let r := copyBytes (st1.buf.drop st1.cur) (size - acc.length)
      let st2 := { st1 with cur := st1.cur + r.1.length }
      if r.2 ∨ r.1 = [] then (st2, acc ++ r.1)
      else readBLoop cfg size st2 (acc ++ r.1)
  else (st, acc)
termination_by size - acc.length
decreasing_by
  rename_i hr
  simp only [not_or] at hr
  have : 0 < r.1.length := List.length_pos_iff.mpr hr.2
  show size - (acc ++ r.1).length < _
  simp only [List.length_append]; omega

def readBchars (cfg : Cfg) (size : Nat) (st : InSt) : InSt × List UInt8 := readBLoop cfg size st []

/-- caller's loop over `hawk_tio_readbchars` until it returns 0 -/
def readAllBytes (cfg : Cfg) (size : Nat) (st : InSt) : List UInt8 × Bool :=
  match readBchars cfg size st with
  | (_, []) => ([], true)
  | (st', b :: bs) =>
    if h : pending st' < pending st then
      let r := readAllBytes cfg size st'
      (b :: bs ++ r.1, r.2)
    else (b :: bs, false)
termination_by pending st

/-! ## write side

The output handler is adversarial: every `HAWK_TIO_DATA` call is answered by the next `Reply` of a script —
accept `k+1` bytes (never more than offered), accept nothing (`zero`), or fail; an exhausted script accepts
everything.  `sink` records the slices the handler *accepted*, oldest first; `ncalls` counts its calls. -/

inductive Reply
  | acc (k : Nat)   -- n = min (k+1) offered
  | zero            -- n = 0
  | fail            -- n = -1
deriving Repr, DecidableEq

structure OutSt where
  buf : List UInt8 := []             -- out.buf.ptr[0 .. outbuf_len)
  sink : List (List UInt8) := []     -- what the output handler accepted, call by call
  script : List Reply := []          -- what the output handler is going to answer
  ncalls : Nat := 0                  -- HAWK_TIO_DATA calls made so far
deriving Repr, DecidableEq

/-- all bytes the handler accepted plus those still staged -/
def OutSt.all (o : OutSt) : List UInt8 := o.sink.flatten ++ o.buf

structure FlushOut where
  rem : List UInt8                   -- bytes from `cur` to the end: what the buffer holds afterwards (moved to its head)
  sink : List (List UInt8)
  script : List Reply
  ncalls : Nat
  ok : Bool                          -- false: the `return -1` inside the loop
deriving Repr, DecidableEq

/-- the `while (left > 0)` loop of `hawk_tio_flush`; `rem` = the bytes at `cur .. cur+left`.  On every exit path the C
leaves exactly `rem` at the head of the buffer and `outbuf_len = left` (on the error path by the assignment inside the
branch when something had been accepted, otherwise because nothing changed). -/
def flushLoop : List Reply → List UInt8 → List (List UInt8) → Nat → FlushOut
  | [], rem, sink, nc =>
    if rem = [] then ⟨[], sink, [], nc, true⟩ else ⟨[], sink ++ [rem], [], nc + 1, true⟩
  | r :: s, rem, sink, nc =>
    if rem = [] then ⟨rem, sink, r :: s, nc, true⟩
    else
      match r with
      | .fail => ⟨rem, sink, s, nc + 1, false⟩
      | .zero => ⟨rem, sink, s, nc + 1, true⟩
      | .acc k => flushLoop s (rem.drop (min (k + 1) rem.length)) (sink ++ [rem.take (min (k + 1) rem.length)]) (nc + 1)

/-- `hawk_tio_flush`: new state and return value (`none` = -1, `some count` = bytes handed out by this call) -/
def flush (o : OutSt) : OutSt × Option Nat :=
  let r := flushLoop o.script o.buf o.sink o.ncalls
  ({ buf := r.rem, sink := r.sink, script := r.script, ncalls := r.ncalls },
   if r.ok then some (o.buf.length - r.rem.length) else none)

/-- progress measure of the retry loops: replies left plus bytes staged -/
def OutSt.work (o : OutSt) : Nat := o.script.length + o.buf.length

/-- the `while (xwlen > 0)` loop of `hawk_tio_writeuchars`; `nl` is the C local.
`Fault.hang`: the C loop would spin without the handler being asked (nothing converted and nothing to flush) – only
possible when the buffer capacity is smaller than one character, which `hawk_tio_attachout` refuses. -/
def writeULoop (cfg : Cfg) (ws : List Nat) (o : OutSt) (nl : Bool) : OutSt × Bool × Option (Sum Err Fault) :=
  if hw : ws = [] then (o, nl, none)
  else
    match convUtoB cfg.cm ws (cfg.capa - o.buf.length) with
    | (n, wcnt, bs) =>
      let o1 : OutSt := { o with buf := o.buf ++ bs }
      if n = -2 then
        -- the buffer is not large enough to convert more: flush now and continue
        match flush o1 with
        | (o2, none) => (o2, nl, some (.inl .eioerr))
        | (o2, some _) =>
          if hprog : wcnt ≠ 0 ∨ o2.work < o.work then writeULoop cfg (ws.drop wcnt) o2 false
          else (o2, nl, some (.inr .hang))
      else
        -- flush the full buffer regardless of conversion result
        match (if o1.buf.length ≥ cfg.capa then flush o1 else (o1, some 0)) with
        | (o2, none) => (o2, nl, some (.inl .eioerr))
        | (o2, some _) =>
          let nl2 := if o1.buf.length ≥ cfg.capa then false else nl
          if n ≤ -1 then
            -- an invalid wide character
            if cfg.ignoreEcerr then
              if o2.buf.length ≥ cfg.capa then (o2, nl2, some (.inr .oobWrite))   -- the '?' would go beyond the buffer
              else writeULoop cfg (ws.drop (wcnt + 1)) { o2 with buf := o2.buf ++ [0x3F] } nl2
            else (o2, nl2, some (.inl .eecerr))
          else
            let nl3 := if !cfg.noAutoFlush && !nl2 then decide (0x0A ∈ ws.take wcnt) else nl2
            if hz : wcnt = 0 then (o2, nl3, some (.inr .hang))   -- unreachable: n = 0 converts all of ws ≠ []
            else writeULoop cfg (ws.drop wcnt) o2 nl3
termination_by (ws.length, o.work)
decreasing_by
  · have : 0 < ws.length := List.length_pos_iff.mpr hw
    by_cases hc : wcnt = 0
    · subst hc
      simp only [List.drop_zero]
      exact Prod.Lex.right _ (by simpa using hprog)
    · apply Prod.Lex.left
      simp only [List.length_drop]; omega
  · have : 0 < ws.length := List.length_pos_iff.mpr hw
    apply Prod.Lex.left
    simp only [List.length_drop]; omega
  · have : 0 < ws.length := List.length_pos_iff.mpr hw
    apply Prod.Lex.left
    simp only [List.length_drop]; omega

/-- `hawk_tio_writeuchars (tio, wptr, wlen)`: result state and return (`none` = wlen returned, `some e` = -1) -/
def writeUchars (cfg : Cfg) (ws : List Nat) (o : OutSt) : OutSt × Option (Sum Err Fault) :=
  if o.buf.length ≥ cfg.capa then (o, some (.inl .ebuffull))
  else
    let r := writeULoop cfg ws o false
    match r.2.2 with
    | some e => (r.1, some e)
    | none =>
      if r.2.1 then
        match flush r.1 with
        | (o2, none) => (o2, some (.inl .eioerr))
        | (o2, some _) => (o2, none)
      else (r.1, none)

/-- the `while (mlen >= (capa = tio->out.buf.capa - tio->outbuf_len))` loop of `hawk_tio_writebchars`: the parts that cannot
fit into the staging buffer; result = (bytes not yet staged, state, error).  When a flush hands nothing out the buffer stays
full, `capa` is 0 and the C goes round again asking the handler each time. -/
def writeBBig (cfg : Cfg) (bs : List UInt8) (o : OutSt) : List UInt8 × OutSt × Option (Sum Err Fault) :=
  if bs.length ≥ cfg.capa - o.buf.length then
    match flush { o with buf := o.buf ++ bs.take (cfg.capa - o.buf.length) } with
    | (o2, none) => (bs.drop (cfg.capa - o.buf.length), o2, some (.inl .eioerr))
    | (o2, some _) =>
      if hprog : cfg.capa - o.buf.length > 0 ∨ o2.work < o.work then writeBBig cfg (bs.drop (cfg.capa - o.buf.length)) o2
      else (bs, o2, some (.inr .hang))
  else (bs, o, none)
termination_by (bs.length, o.work)
decreasing_by
  by_cases hc : cfg.capa - o.buf.length > 0
  · apply Prod.Lex.left
    simp only [List.length_drop]; omega
  · have h0 : cfg.capa - o.buf.length = 0 := by omega
    rw [h0]
    simp only [List.drop_zero]
    exact Prod.Lex.right _ (by rcases hprog with h | h; exact absurd h hc; exact h)

/-- `hawk_tio_writebchars (tio, mptr, mlen)` with an explicit length -/
def writeBchars (cfg : Cfg) (bs : List UInt8) (o : OutSt) : OutSt × Option (Sum Err Fault) :=
  if o.buf.length ≥ cfg.capa then (o, some (.inl .ebuffull))
  else
    match writeBBig cfg bs o with
    | (_, o1, some e) => (o1, some e)
    | (rest, o1, none) =>
      -- the last part fits into the staging buffer
      let o2 : OutSt := { o1 with buf := o1.buf ++ rest }
      if !cfg.noAutoFlush && decide ((0x0A : UInt8) ∈ rest) then
        match flush o2 with
        | (o3, none) => (o3, some (.inl .eioerr))
        | (o3, some _) => (o3, none)
      else (o2, none)

/-- the byte loop of `hawk_tio_writebchars (tio, mptr, (hawk_oow_t)-1)` (null-terminated source, behind hawk_sio_putbcstr).
After a flush in which the handler accepted nothing the buffer is still full: before staging the next byte the repaired code
(patches/tio-writebcstr-full.diff) fails with HAWK_EBUFFULL, the unrepaired code (`legacy`) stored it beyond the buffer. -/
def writeBcstrLoop (cfg : Cfg) : List UInt8 → OutSt → Bool → OutSt × Bool × Option (Sum Err Fault)
  | [], o, nl => (o, nl, none)
  | b :: rest, o, nl =>
    if o.buf.length ≥ cfg.capa then
      -- the last flush handed out nothing: (repair) HAWK_EBUFFULL; the unrepaired code stored at out.buf.ptr[capa]
      (o, nl, some (if cfg.legacy then .inr .oobWrite else .inl .ebuffull))
    else
      let o1 : OutSt := { o with buf := o.buf ++ [b] }
      if o1.buf.length ≥ cfg.capa then
        match flush o1 with
        | (o2, none) => (o2, nl, some (.inl .eioerr))
        | (o2, some _) => writeBcstrLoop cfg rest o2 false
      else writeBcstrLoop cfg rest o1 (if cfg.noAutoFlush then false else (nl || b == 0x0A))

/-- `hawk_tio_writebchars (tio, mptr, (hawk_oow_t)-1)` -/
def writeBcstr (cfg : Cfg) (bs : List UInt8) (o : OutSt) : OutSt × Option (Sum Err Fault) :=
  if o.buf.length ≥ cfg.capa then (o, some (.inl .ebuffull))
  else
    match writeBcstrLoop cfg (bs.takeWhile (· ≠ 0)) o false with
    | (o1, _, some e) => (o1, some e)
    | (o1, nl, none) =>
      if nl then
        match flush o1 with
        | (o2, none) => (o2, some (.inl .eioerr))
        | (o2, some _) => (o2, none)
      else (o1, none)

end Hawk.Tio
