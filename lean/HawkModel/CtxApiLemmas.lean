import HawkModel.CtxApi
/-! helper lemmas for section 8 of Props/C09 (the API-ownership model over several `hawk_t`) -/
namespace Hawk.CtxApi

@[simp] theorem World.set_same (w : World) (h : Nat) (s : Option HawkS) : (w.set h s) h = s := by
  simp [World.set]

theorem World.set_other (w : World) {h j : Nat} (s : Option HawkS) (hne : h ≠ j) : (w.set h s) j = w j := by
  simp [World.set, Ne.symm hne]

@[simp] theorem HawkS.setRtx_same (s : HawkS) (r : Nat) (x : Option Rtx) : (s.setRtx r x).rtxs r = x := by
  simp [HawkS.setRtx]

theorem HawkS.setRtx_other (s : HawkS) {r q : Nat} (x : Option Rtx) (hne : q ≠ r) : (s.setRtx r x).rtxs q = s.rtxs q := by
  simp [HawkS.setRtx, hne]

/-- the part of a `hawk_t` that is not its runtimes and not its error number -/
structure Frame where
  prog : Option Nat
  hfBound : Bool
  haltall : Bool
  ecbs : List Nat
  gbls : List (Option String)
  fncs : List String
  opt : Nat
  xtn : Int

def HawkS.frame (s : HawkS) : Frame :=
  { prog := s.prog, hfBound := s.hfBound, haltall := s.haltall, ecbs := s.ecbs, gbls := s.gbls, fncs := s.fncs, opt := s.opt, xtn := s.xtn }

/-! ### an rtx-level call inside its hawk -/

theorem stepRtxIn_sibling (h r q : Nat) (s : HawkS) (op : ROp) (hq : q ≠ r) : (stepRtxIn h r s op).1.rtxs q = s.rtxs q := by
  unfold stepRtxIn
  split
  · exact HawkS.setRtx_other _ _ hq
  · rfl
  · exact HawkS.setRtx_other _ _ hq

theorem stepRtxIn_frame (h r : Nat) (s : HawkS) (op : ROp) : (stepRtxIn h r s op).1.frame = s.frame := by
  unfold stepRtxIn
  split <;> rfl

/-- the error number of the hawk after an rtx-level call: cleared by `hawk_rtx_open`, overwritten by the one
    documented leak (`herr`), otherwise untouched -/
theorem stepRtxIn_err (h r : Nat) (s : HawkS) (op : ROp) :
    (stepRtxIn h r s op).1.err =
      match s.rtxs r, op with
      | none, .«open» => .noerr
      | none, _ => s.err
      | some _, _ => ((stepRtxIn h r s op).2.herr).getD s.err := by
  unfold stepRtxIn
  split <;> simp_all [HawkS.setRtx]

/-! ### hawk-level calls leave every runtime alone -/

theorem stepH_rtxs (h : Nat) (s s' : HawkS) (op : HOp) (hs : (stepH h s op).1 = some s') : s'.rtxs = s.rtxs := by
  cases op <;> simp only [stepH] at hs <;> (repeat' split at hs) <;> simp_all <;> (subst_vars; rfl)

/-! ### callback chains stay duplicate-free -/

theorem Rtx.assignText_ecbs (r : Rtx) (t : String) : (r.assignText t).ecbs = r.ecbs := by
  unfold Rtx.assignText
  split <;> rfl

theorem foldl_assignText_ecbs (ts : List String) : ∀ r : Rtx, (ts.foldl (fun r t => r.assignText t) r).ecbs = r.ecbs := by
  induction ts with
  | nil => intro r; rfl
  | cons t ts ih => intro r; simp only [List.foldl]; rw [ih, Rtx.assignText_ecbs]

theorem stepCall_ecbs (tag : String) (v : View) (r : Rtx) (f a : String) : (stepCall tag v r f a).1.ecbs = r.ecbs := by
  unfold stepCall
  repeat' split
  all_goals (first | rfl | exact Rtx.assignText_ecbs _ _)

theorem stepLoop_ecbs (tag : String) (v : View) (r : Rtx) : (stepLoop tag v r).1.ecbs = r.ecbs := by
  unfold stepLoop
  repeat' split
  all_goals (first | rfl | exact foldl_assignText_ecbs _ _)

end Hawk.CtxApi
