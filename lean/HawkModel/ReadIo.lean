/-!
# Model of record reading: `lib/rio.c:hawk_rtx_readio` (and, line for line the same over bytes,
`hawk_rtx_readiobytes`), `match_long_rs`, the console chain of `lib/std.c:hawk_rio_console` /
`open_rio_console` / `lib/rio.c:hawk_rtx_nextio_read`, and `lib/run.c:read_record` / `update_fnr`.

The model follows the code *with* the repair `patches/c04-console-file-end-ends-record.diff`
(the unrepaired std.c handler opened the next file inside one READ, so the end of a file did not end
the record; see `Props/C04.lean`, `unrepaired_chain_joins_records`).

Core Lean only.  All functions total, no fuel.

Correspondence of names:
* `InState`      = `hawk_rio_arg_t.in.{u.buf[0..len), pos, eof}` (`len` = `buf.length`)
* `Locals`       = the locals `c` and `line_len` of `hawk_rtx_readio` (live across buffer refills
                   inside one call, re-initialised by every call)
* `Stream`       = what the READ handler will still return: one chunk per call, `[]` (no chunk left)
                   or an empty chunk = the handler returns 0
* `scanBuf`      = the four `if (rrs.ptr == NULL) … else if (rrs.len == 0) … else if (rrs.len == 1) … else …`
                   branches, applied to the unread part of the buffer
* `fill`         = the `while (1)` loop from the point where `pos >= len` and `!eof`
* `readFrom`     = one call of `hawk_rtx_readio` on one stream
* `readConsole`  = the same call on the console, where EOF with an empty record asks the handler for the
                   NEXT stream (FNR := 0, FILENAME := name) and goes on in the same call
* `readRecordConsole` = `read_record` (NR, FNR incremented after a record has been read)
-/
namespace Hawk.ReadIo

abbrev Record := List Char
abbrev Chunk := List Char
abbrev Stream := List Chunk

/-- `hawk_rtx_matchrexwithoocs` on the record buffer: `some (start, len)` of the match, or `none` -/
abbrev Matcher := List Char → Option (Nat × Nat)

/-- the four-way dispatch on RS at `rio.c:480/530/618/644` -/
inductive Mode where
  /-- RS is nil (never assigned): newline ends a record, a CR right before it is dropped -/
  | dflt
  /-- RS is one character -/
  | single (rs : Char)
  /-- RS is the empty string: blank lines separate records; `crlf` is the `HAWK_CRLF` trait -/
  | para (crlf : Bool)
  /-- RS has two or more characters: regular expression, matched by `m` -/
  | regex (m : Matcher)

structure InState where
  buf : List Char := []
  pos : Nat := 0
  eof : Bool := false
deriving Repr, DecidableEq

abbrev InState.len (s : InState) : Nat := s.buf.length

structure Locals where
  c : Char := '\x00'
  lineLen : Nat := 0
deriving Repr, DecidableEq

/-- locals at the beginning of a call: `hawk_oow_t line_len = 0; hawk_ooch_t c = '\0'` -/
def loc0 : Locals := {}

/-! ## default RS (rio.c:480-529) -/

structure DfltScan where
  endPos : Nat
  pos : Nat
  c : Char
  /-- `HAWK_OOECS_LEN(buf)--` was executed (the CR came with the previous read) -/
  dropCR : Bool

/-- the `do { pc = c; c = buf[pos++]; end_pos = pos; if (c == '\n') {…break;} } while (pos < len)` loop;
the list argument is `buf[pos..len)` -/
def dfltLoop (startPos : Nat) : List Char → Nat → Char → DfltScan
  | [], pos, c => ⟨pos, pos, c, false⟩
  | ch :: rest, pos, c =>
    let pc := c
    let pos' := pos + 1
    if ch = '\n' then
      let e := pos' - 1                                   -- end_pos--
      if pc = '\r' then
        if e > startPos then ⟨e - 1, pos', ch, false⟩     -- CR is in the read buffer
        else ⟨e, pos', ch, true⟩                          -- CR is the last char of the record buffer
      else ⟨e, pos', ch, false⟩
    else dfltLoop startPos rest pos' ch

/-! ## single-character RS (rio.c:618-643) -/

/-- returns `(end_pos, pos, c)` -/
def singleLoop (rs : Char) : List Char → Nat → Char → Nat × Nat × Char
  | [], pos, c => (pos, pos, c)
  | ch :: rest, pos, _ =>
    let pos' := pos + 1
    if ch = rs then (pos' - 1, pos', ch) else singleLoop rs rest pos' ch

/-! ## RS = "" (rio.c:530-617) -/

structure ParaSt where
  rb : Record
  c : Char
  lineLen : Nat
deriving Repr, DecidableEq

/-- `if (LEN(buf) > 0 && LASTCHAR(buf) == '\r') LEN(buf) -= 1` -/
def dropLastCR (r : Record) : Record :=
  if r.length > 0 ∧ r.getLast? = some '\r' then r.dropLast else r

/-- one pass through the body of the `do … while` at rio.c:534; the `Bool` is `done` -/
def paraStep (crlf : Bool) (s : ParaSt) (ch : Char) : ParaSt × Bool :=
  let pc := s.c
  if ch = '\n' then
    -- rio.c:543 CR before NL
    let cr := pc = '\r' ∧ s.rb.length > 0
    let ll1 := if cr then s.lineLen - 1 else s.lineLen
    let rec1 := if cr ∧ !crlf then s.rb.dropLast else s.rb
    if ll1 = 0 then
      -- a blank line
      if crlf then
        let rec2 := dropLastCR rec1                       -- CR not dropped at POINT-X
        if rec2.length = 0 then (⟨rec2, ch, ll1⟩, false)  -- continue
        else (⟨dropLastCR rec2.dropLast, ch, ll1⟩, true)  -- drop NL, drop preceding CR
      else
        if rec1.length = 0 then (⟨rec1, ch, ll1⟩, false)  -- continue
        else (⟨rec1.dropLast, ch, ll1⟩, true)             -- drop NL of the previous line
    else (⟨rec1 ++ [ch], ch, 0⟩, false)                   -- line_len = 0; ccat
  else (⟨s.rb ++ [ch], ch, s.lineLen + 1⟩, false)        -- line_len++; ccat

/-- the `do … while (pos < len)`; returns the state, `pos`, and `done` -/
def paraLoop (crlf : Bool) : List Char → Nat → ParaSt → ParaSt × Nat × Bool
  | [], pos, s => (s, pos, false)
  | ch :: rest, pos, s =>
    match paraStep crlf s ch with
    | (s', true) => (s', pos + 1, true)
    | (s', false) => paraLoop crlf rest (pos + 1) s'

/-! ## multi-character RS (rio.c:644-672, match_long_rs rio.c:249) -/

/-- `match_long_rs`: `some (rec', pos')` when it returns ≥ 1, `none` when it returns 0.
`pos` is `size_t`: when `be - me` exceeds it the subtraction wraps to a value `≥ len`, and every such value
behaves alike (`pos >= len` → refill, `pos = 0`), so the wrapped value is represented by `len`. -/
def matchLongRs (m : Matcher) (rec : Record) (st : InState) : Option (Record × Nat) :=
  match m rec with
  | none => none
  | some (ms, ml) =>
    if st.eof then some (rec.take (rec.length - ml), st.pos)
    else
      let be := rec.length
      let me := ms + ml
      if me < be then
        some (rec.take (rec.length - (ml + (be - me))),
              if be - me ≤ st.pos then st.pos - (be - me) else st.len)
      else none

/-! ## one buffer -/

inductive Scan where
  /-- the record is complete (`break` with `ret = 1`); new `pos` -/
  | found (rec : Record) (pos : Nat)
  /-- the buffer is used up (`pos = len`), the record is not complete -/
  | more (rec : Record) (loc : Locals)
deriving Repr

/-- the RS dispatch applied to `st.buf[st.pos..)`; precondition of the C: `pos < len` -/
def scanBuf : Mode → Record → Locals → InState → Scan
  | .dflt, rec, loc, st =>
    let r := dfltLoop st.pos (st.buf.drop st.pos) st.pos loc.c
    let rec1 := if r.dropCR then rec.dropLast else rec
    let rec2 := rec1 ++ (st.buf.drop st.pos).take (r.endPos - st.pos)     -- ncat(buf, &in.buf[start_pos], end_pos - start_pos)
    if r.endPos < st.len then .found rec2 r.pos else .more rec2 { loc with c := r.c }
  | .single rs, rec, loc, st =>
    let (e, p, c) := singleLoop rs (st.buf.drop st.pos) st.pos loc.c
    let rec2 := rec ++ (st.buf.drop st.pos).take (e - st.pos)
    if e < st.len then .found rec2 p else .more rec2 { loc with c := c }
  | .para crlf, rec, loc, st =>
    match paraLoop crlf (st.buf.drop st.pos) st.pos ⟨rec, loc.c, loc.lineLen⟩ with
    | (s, p, true) => .found s.rb p
    | (s, _, false) => .more s.rb ⟨s.c, s.lineLen⟩
  | .regex m, rec, loc, st =>
    let rec1 := rec ++ st.buf.drop st.pos                                 -- ncat the rest of the buffer
    let st1 := { st with pos := st.len }
    match matchLongRs m rec1 st1 with
    | some (rec2, p) => .found rec2 p
    | none => .more rec1 loc

/-- what is done to a non-empty record buffer when the handler returns 0 (rio.c:440-471); `st.eof` is already set -/
def finalize : Mode → Record → InState → Record
  | .dflt, rec, _ => rec
  | .single _, rec, _ => rec
  | .para crlf, rec, _ =>
    if rec.getLast? = some '\n' then
      if crlf then dropLastCR rec.dropLast else rec.dropLast
    else rec
  | .regex m, rec, st =>
    match matchLongRs m rec st with
    | some (rec', _) => rec'
    | none => rec

/-! ## one call of hawk_rtx_readio on one stream -/

inductive Out where
  /-- `ret = 1`: a record, the state of the read buffer, and what the handler has left -/
  | got (r : Record) (st : InState) (cs : Stream)
  /-- the stream is at EOF and the record buffer is empty (`ret = 0` unless there is a next stream) -/
  | eofEmpty (loc : Locals) (st : InState)
deriving Repr

/-- the handler returned 0 -/
def atEof (mode : Mode) (rec : Record) (loc : Locals) (st : InState) : Out :=
  let st' := { st with eof := true }
  if rec = [] then .eofEmpty loc st' else .got (finalize mode rec st') st' []

/-- the `while (1)` loop entered with `pos >= len`, `!eof` -/
def fill (mode : Mode) : Record → Locals → InState → Stream → Out
  | rec, loc, st, [] => atEof mode rec loc st
  | rec, loc, st, c :: cs =>
    if c = [] then atEof mode rec loc st
    else
      let st' : InState := { buf := c, pos := 0, eof := false }
      match scanBuf mode rec loc st' with
      | .found r p => .got r { st' with pos := p } cs
      | .more r l => fill mode r l { st' with pos := c.length } cs

/-- one call; `loc` is `loc0` except when the call goes on after a switch to the next console stream -/
def readFrom (loc : Locals) (mode : Mode) (st : InState) (cs : Stream) : Out :=
  if st.pos ≥ st.len then
    if st.eof then .eofEmpty loc st                 -- record buffer is empty at the start of a call
    else fill mode [] loc st cs
  else
    match scanBuf mode [] loc st with
    | .found r p => .got r { st with pos := p } cs
    | .more r l =>
      let st' := { st with pos := st.len }
      if st.eof then (if r = [] then .eofEmpty l st' else .got r st' cs)
      else fill mode r l st' cs

/-- `hawk_rtx_readio` on a single stream (file, pipe, or a console with one stream) -/
def readRecord (mode : Mode) (st : InState) (cs : Stream) : Option Record × InState × Stream :=
  match readFrom loc0 mode st cs with
  | .got r st' cs' => (some r, st', cs')
  | .eofEmpty _ st' => (none, st', [])

/-- what the handler will deliver before it returns 0 for the first time (an empty chunk is a return value of 0) -/
def delivered (cs : Stream) : List Char := (cs.takeWhile (· ≠ [])).flatten

/-- the characters not yet consumed: unread part of the buffer, then what the handler still delivers -/
def pending (st : InState) (cs : Stream) : List Char :=
  st.buf.drop st.pos ++ (if st.eof then [] else delivered cs)

/-- all records of one stream.  The guard is true whenever a record was returned, except for a regex RS that
matches the empty string, where the C returns empty records forever (hawk does that: `RS="a*"`); the
model stops there. -/
def readAll (mode : Mode) (st : InState) (cs : Stream) : List Record :=
  let o := readRecord mode st cs
  match o.1 with
  | none => []
  | some r =>
    if _hlt : (pending o.2.1 o.2.2).length < (pending st cs).length then r :: readAll mode o.2.1 o.2.2 else [r]
termination_by (pending st cs).length

/-! ## the console: several streams (std.c open_rio_console / HAWK_RIO_CMD_NEXT, rio.c hawk_rtx_nextio_read) -/

structure Console where
  st : InState := {}
  /-- chunks the handler will still return for the stream that is open -/
  cur : Stream := []
  /-- ARGV files not yet opened -/
  files : List (String × Stream) := []
  /-- `in.eos`: NEXT found no further stream -/
  eos : Bool := false
  nr : Nat := 0
  fnr : Nat := 0
  filename : String := ""
deriving Repr

/-- HAWK_RIO_CMD_OPEN: the first file is opened, FILENAME set; with no file, stdin (FILENAME stays empty) -/
def openConsole (stdin : Stream) : List (String × Stream) → Console
  | [] => { cur := stdin }
  | (n, cs) :: fs => { cur := cs, files := fs, filename := n }

/-- the loop of `hawk_rtx_readio` on the console: at EOF with an empty record buffer
`hawk_rtx_nextio_read` → handler NEXT → `open_rio_console`; on success `eof = 0, pos = len = 0`, FNR := 0,
FILENAME := the name, and the loop goes on *with the same locals*. -/
def readConsoleGo (mode : Mode) : Locals → InState → Stream → List (String × Stream) → Console → Option Record × Console
  | loc, st, cur, files, con =>
    match readFrom loc mode st cur with
    | .got r st' cs' => (some r, { con with st := st', cur := cs', files := files })
    | .eofEmpty loc' st' =>
      match files with
      | [] => (none, { con with st := st', cur := [], files := [], eos := true })
      | (name, cs) :: fs =>
        readConsoleGo mode loc' { buf := [], pos := 0, eof := false } cs fs { con with fnr := 0, filename := name }

def readConsole (mode : Mode) (con : Console) : Option Record × Console :=
  if con.eos then (none, con)                         -- `if (p->in.eos) return 0;`
  else readConsoleGo mode loc0 con.st con.cur con.files con

/-- `read_record`: after a record has been read, `update_fnr(fnr + 1, nr + 1)` -/
def readRecordConsole (mode : Mode) (con : Console) : Option Record × Console :=
  match readConsole mode con with
  | (some r, con') => (some r, { con' with nr := con'.nr + 1, fnr := con'.fnr + 1 })
  | (none, con') => (none, con')

/-- the `nextfile` statement: `run_nextinfile` → `hawk_rtx_nextio_read` → handler NEXT → `open_rio_console`.
`none`: there is no further stream (`in.eos := 1`, `exit_level = EXIT_GLOBAL`: the main loop ends, END runs).
Otherwise the stream is abandoned where it is: `eof = 0`, `pos = len = 0` — whatever the read buffer and the handler
still held of the old file is dropped —, FILENAME := the name, `update_fnr(0, nr)`. -/
def nextFile (con : Console) : Option Console :=
  if con.eos then none
  else match con.files with
    | [] => none
    | (name, cs) :: fs =>
      some { con with st := { buf := [], pos := 0, eof := false }, cur := cs, files := fs, fnr := 0, filename := name }

/-- characters the console has not consumed yet -/
def Console.pendingLen (con : Console) : Nat :=
  (pending con.st con.cur).length + (con.files.map fun f => (delivered f.2).length).sum

/-- what `{ print NR, FNR, FILENAME, "[" $0 "]" }` sees -/
structure Seen where
  nr : Nat
  fnr : Nat
  filename : String
  rb : Record
deriving Repr, DecidableEq

/-- the main loop of `run_pblocks`: read records until `read_record` returns 0 (same guard as `readAll`) -/
def runConsole (mode : Mode) (con : Console) : List Seen :=
  let o := readRecordConsole mode con
  match o.1 with
  | none => []
  | some r =>
    let s : Seen := ⟨o.2.nr, o.2.fnr, o.2.filename, r⟩
    if _hlt : o.2.pendingLen < con.pendingLen then s :: runConsole mode o.2 else [s]
termination_by con.pendingLen

/-- a program whose action after each record may be the `nextfile` statement (`nf` decides, seeing NR, FNR, FILENAME and
the record): the main loop of `run_pblocks` with `run_nextinfile`.  When `nextfile` finds no further stream the loop ends.
The guards are as in `runConsole` (the second one is always true: abandoning a stream never adds pending characters). -/
def runScript (mode : Mode) (nf : Seen → Bool) (con : Console) : List Seen :=
  let o := readRecordConsole mode con
  match o.1 with
  | none => []
  | some r =>
    let s : Seen := ⟨o.2.nr, o.2.fnr, o.2.filename, r⟩
    if _hlt : o.2.pendingLen < con.pendingLen then
      if nf s then
        match nextFile o.2 with
        | none => [s]
        | some c2 => if _h2 : c2.pendingLen ≤ o.2.pendingLen then s :: runScript mode nf c2 else [s]
      else s :: runScript mode nf o.2
    else [s]
termination_by con.pendingLen
decreasing_by all_goals omega

/-! ## the unrepaired std.c handler, for the record

`hawk_rio_console` READ looped `while (sio_getoochars(...) == 0) { open_rio_console; FNR = 0 }`: rio.c saw
one stream, the concatenation of all files; FILENAME/FNR changed when the handler crossed the boundary. Only
the record list is modelled. -/
def unrepairedRecords (mode : Mode) (files : List (String × Stream)) : List Record :=
  readAll mode {} (files.map (·.2)).flatten

/-! ## RS / FS assignment and the choice of the way of reading / splitting

`run.c:set_global` (cases `HAWK_GBL_RS`, `HAWK_GBL_FS`, `HAWK_GBL_CONVFMT`, `HAWK_GBL_IGNORECASE`) with the repair
`patches/c04-rs-fs-text-fixed-at-assignment.diff` (`set_separator`), `rio.c:resolve_rs` / `resolve_brs` and the
four-way dispatch of `hawk_rtx_readio` / `hawk_rtx_readiobytes`, `rec.c:split_record` (`how`).

The unrepaired readers converted the *value* of RS (FS) to a text again at every read (split), under the CONVFMT of
that moment, while the regular expression in `rtx->gbl.rs` (`fs`) had been compiled - or not - from the text at the
assignment: `selReadUnrepaired` / `Sel.crash`. -/

/-- a value as far as its conversion to a text goes; the argument is the CONVFMT text in force -/
structure Val where
  isNil : Bool
  /-- `hawk_rtx_valtooocstrdup` -/
  text : List Char → List Char
  /-- `hawk_rtx_valtobcstrdup` (bytes) -/
  btext : List Char → List Nat

/-- the unset value -/
def nilVal : Val := ⟨true, fun _ => [], fun _ => []⟩

/-- a string of ASCII characters: the same text under every CONVFMT -/
def strVal (s : List Char) : Val := ⟨false, fun _ => s, fun _ => s.map Char.toNat⟩

/-- what the run-time context keeps of RS (of FS) -/
structure Sep where
  /-- the value on the stack (`HAWK_RTX_STACK_GBL`) -/
  val : Val
  /-- `gbl.rstext` (`fstext`): `none` = `ptr == HAWK_NULL` -/
  text : Option (List Char)
  /-- `gbl.rsbtext` (`fsbtext`) -/
  btext : Option (List Nat)
  /-- `gbl.rs[0..1]` (`fs`): the text they were compiled from, `none` = `HAWK_NULL` -/
  rex : Option (List Char)

structure Env where
  convfmt : List Char
  ignorecase : Bool
  rs : Sep
  fs : Sep

/-- "it's a regular expression if it is longer than a character, or than a byte for those that read bytes. however, FS
is not a regular expression if it's 5 character string beginning with a question mark" -/
def isRexText (fsv : Bool) (t : List Char) (b : List Nat) : Bool :=
  (decide (t.length > 1) || decide (b.length > 1)) && !(fsv && decide (t.length = 5) && t.head? == some '?')

/-- `set_separator`: `none` = the assignment fails (`hawk_rtx_buildrex` rejects the text, `ok t = false`) and nothing
is changed -/
def setSeparator (ok : List Char → Bool) (fsv : Bool) (fmt : List Char) (v : Val) : Option Sep :=
  if v.isNil then some ⟨v, none, none, none⟩
  else
    let t := v.text fmt
    let b := v.btext fmt
    if isRexText fsv t b then
      if ok t then some ⟨v, some t, some b, some t⟩ else none
    else some ⟨v, some t, some b, none⟩

inductive SepOp where
  | convfmt (f : List Char)
  | ignorecase (b : Bool)
  | setRS (v : Val)
  | setFS (v : Val)
  /-- `RS = RS`: `old == val`, set_global returns before its switch -/
  | sameRS
  | sameFS

def Env.step (ok : List Char → Bool) (e : Env) : SepOp → Env
  | .convfmt f => { e with convfmt := f }
  | .ignorecase b => { e with ignorecase := b }
  | .setRS v => match setSeparator ok false e.convfmt v with
    | some s => { e with rs := s }
    | none => e
  | .setFS v => match setSeparator ok true e.convfmt v with
    | some s => { e with fs := s }
    | none => e
  | .sameRS => e
  | .sameFS => e

/-- after `defaultify_globals`: CONVFMT = "%.6g", FS = " " (both assigned through set_global), RS nil -/
def defaultFmt : List Char := ['%', '.', '6', 'g']

def env0 : Env :=
  { convfmt := defaultFmt, ignorecase := false,
    rs := ⟨nilVal, none, none, none⟩,
    fs := ⟨strVal [' '], some [' '], some [32], none⟩ }

def Env.run (ok : List Char → Bool) (e : Env) (ops : List SepOp) : Env := ops.foldl (Env.step ok) e

/-- the dispatch at rio.c:480/530/618/644 (`α` = characters for `hawk_rtx_readio`, bytes for `hawk_rtx_readiobytes`) -/
inductive Sel (α : Type) where
  | dflt
  | para
  | single (c : α)
  /-- `match_long_rs` with the expression compiled from `src`, `rtx->gbl.rs[ignorecase]` -/
  | regex (src : List Char) (ic : Bool)
  /-- `match_long_rs` with `rtx->gbl.rs[..] == HAWK_NULL`: null pointer dereference in `hawk_tre_exec…` -/
  | crash
deriving DecidableEq, Repr

def selOfText {α : Type} (rex : Option (List Char)) (ic : Bool) : Option (List α) → Sel α
  | none => .dflt
  | some [] => .para
  | some [c] => .single c
  | some (_ :: _ :: _) => match rex with
    | some r => .regex r ic
    | none => .crash

/-- `hawk_rtx_readio` (repaired): by the text kept at the assignment -/
def selRead (e : Env) : Sel Char := selOfText e.rs.rex e.ignorecase e.rs.text
/-- `hawk_rtx_readiobytes` (repaired) -/
def selReadBytes (e : Env) : Sel Nat := selOfText e.rs.rex e.ignorecase e.rs.btext

/-- the unrepaired `resolve_rs`: the value converted again, under the CONVFMT of the moment of the read -/
def selReadUnrepaired (e : Env) : Sel Char :=
  selOfText e.rs.rex e.ignorecase (if e.rs.val.isNil then none else some (e.rs.val.text e.convfmt))
def selReadBytesUnrepaired (e : Env) : Sel Nat :=
  selOfText e.rs.rex e.ignorecase (if e.rs.val.isNil then none else some (e.rs.val.btext e.convfmt))

/-- `split_record`'s `how` -/
inductive How where
  /-- `how = 0`: `hawk_rtx_tokoocharswithoochars` with the (at most one-character) text -/
  | chars (t : List Char)
  /-- `how = 1`: `?` and four characters, `hawk_rtx_fldoochars` -/
  | fld (t : List Char)
  /-- `how = 2`: `hawk_rtx_tokoocharsbyrex` with `rtx->gbl.fs[ignorecase]`, compiled from `src` -/
  | rex (src : List Char) (ic : Bool)
  | crash
deriving DecidableEq, Repr

def howOfText (rex : Option (List Char)) (ic : Bool) : Option (List Char) → How
  | none => .chars [' ']
  | some t =>
    if t.length = 5 ∧ t.head? = some '?' then .fld t
    else if t.length ≤ 1 then .chars t
    else match rex with
      | some r => .rex r ic
      | none => .crash

def howSplit (e : Env) : How := howOfText e.fs.rex e.ignorecase e.fs.text
def howSplitUnrepaired (e : Env) : How :=
  howOfText e.fs.rex e.ignorecase (if e.fs.val.isNil then none else some (e.fs.val.text e.convfmt))

/-- the `Mode` of the record reader for a selection; `mk src ic` is the matcher of the compiled expression -/
def Sel.toMode (mk : List Char → Bool → Matcher) (crlf : Bool) : Sel Char → Option Mode
  | .dflt => some .dflt
  | .para => some (.para crlf)
  | .single c => some (.single c)
  | .regex src ic => some (.regex (mk src ic))
  | .crash => none

/-! ### what the English says: the separator in force is the one fixed at the last assignment -/

/-- the history as far as the property is concerned: CONVFMT now, and for RS and FS the value last assigned with
success together with the CONVFMT of that moment -/
structure Last where
  fmt : List Char
  rs : Val × List Char
  fs : Val × List Char

/-- the assignment goes through -/
def accepts (ok : List Char → Bool) (fsv : Bool) (fmt : List Char) (v : Val) : Bool :=
  v.isNil || !isRexText fsv (v.text fmt) (v.btext fmt) || ok (v.text fmt)

def Last.step (ok : List Char → Bool) (l : Last) : SepOp → Last
  | .convfmt f => { l with fmt := f }
  | .ignorecase _ => l
  | .setRS v => if accepts ok false l.fmt v then { l with rs := (v, l.fmt) } else l
  | .setFS v => if accepts ok true l.fmt v then { l with fs := (v, l.fmt) } else l
  | .sameRS => l
  | .sameFS => l

def last0 : Last := ⟨defaultFmt, (nilVal, defaultFmt), (strVal [' '], defaultFmt)⟩

def Last.run (ok : List Char → Bool) (l : Last) (ops : List SepOp) : Last := ops.foldl (Last.step ok) l

/-- the text of the separator: that of the value under the CONVFMT *of the assignment*; `none` for nil -/
def sepText (a : Val × List Char) : Option (List Char) := if a.1.isNil then none else some (a.1.text a.2)
def sepBText (a : Val × List Char) : Option (List Nat) := if a.1.isNil then none else some (a.1.btext a.2)

/-- the way of reading that belongs to a text: newline / paragraph / one character / the text as a regular expression -/
def specSel {α : Type} (src : Option (List Char)) (ic : Bool) : Option (List α) → Sel α
  | none => .dflt
  | some [] => .para
  | some [c] => .single c
  | some (_ :: _ :: _) => .regex (src.getD []) ic

def specHow (ic : Bool) : Option (List Char) → How
  | none => .chars [' ']
  | some t =>
    if t.length = 5 ∧ t.head? = some '?' then .fld t
    else if t.length ≤ 1 then .chars t
    else .rex t ic

/-! ## literal separators (for `stable_of_literal`) -/

/-- leftmost occurrence of a literal string -/
def litMatcher (w : List Char) : Matcher
  | [] => if w.isPrefixOf [] then some (0, w.length) else none
  | t@(_ :: t') =>
    if w.isPrefixOf t then some (0, w.length)
    else match litMatcher w t' with
      | some (i, l) => some (i + 1, l)
      | none => none

end Hawk.ReadIo
