import HawkModel.Arr
import HawkModel.HeapLemmas
/-! helper lemmas for the heap with position back-pointers: refinement to the key-only heap, and `PosOk` -/
namespace Hawk.Arr

@[simp] theorem keys_length (l : List Item) : (keys l).length = l.length := by simp [keys]

theorem keys_getD (l : List Item) (i : Nat) : (keys l).getD i 0 = (l.getD i (0, 0)).1 := by
  simp only [keys, List.getD_eq_getElem?_getD, List.getElem?_map]
  cases l[i]? <;> rfl

@[simp] theorem stamp_length (l : List Item) (i : Nat) (x : Item) : (stamp l i x).length = l.length := by
  simp [stamp]

theorem keys_stamp (l : List Item) (i : Nat) (x : Item) : keys (stamp l i x) = (keys l).set i x.1 := by
  simp [keys, stamp, List.map_set]

theorem keys_stamp_getD (l : List Item) (i p : Nat) :
    keys (stamp l i (l.getD p (0, 0))) = (keys l).set i ((keys l).getD p 0) := by
  rw [keys_stamp, keys_getD]

theorem siftUpLoopP_refines (tmp : Item) (l : List Item) (i : Nat) :
    keys (siftUpLoopP tmp l i).1 = (siftUpLoop tmp.1 (keys l) i).1 ∧
    (siftUpLoopP tmp l i).2 = (siftUpLoop tmp.1 (keys l) i).2 := by
  fun_induction siftUpLoopP tmp l i with
  | case1 l => rw [siftUpLoop]; simp [keys_stamp]
  | case2 l index h parent l1 hp =>
    have e1 : keys l1 = (keys l).set index ((keys l).getD (hparent index) 0) := keys_stamp_getD ..
    have hp' : hparent index = 0 := hp
    rw [siftUpLoop]; simp only [h, ↓reduceDIte, hp', ↓reduceIte]
    rw [keys_stamp, e1, hp']; simp [parent, hp']
  | case3 l index h parent l1 hp hc =>
    have e1 : keys l1 = (keys l).set index ((keys l).getD (hparent index) 0) := keys_stamp_getD ..
    have hp' : ¬ hparent index = 0 := hp
    rw [← keys_getD, e1] at hc
    have hc' : cmp tmp.1 (((keys l).set index ((keys l).getD (hparent index) 0)).getD (hparent (hparent index)) 0) ≤ 0 := hc
    rw [siftUpLoop]; simp only [h, ↓reduceDIte, hp', ↓reduceIte, hc']
    rw [keys_stamp, e1]; exact ⟨rfl, rfl⟩
  | case4 l index h parent l1 hp hc ih =>
    have e1 : keys l1 = (keys l).set index ((keys l).getD (hparent index) 0) := keys_stamp_getD ..
    have hp' : ¬ hparent index = 0 := hp
    rw [← keys_getD, e1] at hc
    have hc' : ¬ cmp tmp.1 (((keys l).set index ((keys l).getD (hparent index) 0)).getD (hparent (hparent index)) 0) ≤ 0 := hc
    rw [siftUpLoop]; simp only [h, ↓reduceDIte, hp', ↓reduceIte, hc']
    rw [← e1]; exact ih

theorem siftUpP_refines (l : List Item) (i : Nat) :
    keys (siftUpP l i).1 = (siftUp (keys l) i).1 ∧ (siftUpP l i).2 = (siftUp (keys l) i).2 := by
  unfold siftUpP siftUp
  rw [keys_getD, keys_getD]
  by_cases h0 : i > 0
  · rw [if_pos h0, if_pos h0]
    by_cases hc : cmp (l.getD i (0, 0)).1 (l.getD (hparent i) (0, 0)).1 > 0
    · rw [if_pos hc, if_pos hc]; exact siftUpLoopP_refines _ _ _
    · rw [if_neg hc, if_neg hc]; exact ⟨rfl, rfl⟩
  · rw [if_neg h0, if_neg h0]; exact ⟨rfl, rfl⟩

theorem pickChildP_eq (l : List Item) (i : Nat) : pickChildP l i = pickChild (keys l) i := by
  unfold pickChildP pickChild
  rw [keys_length, keys_getD, keys_getD]

theorem siftDownLoopP_refines (tmp : Item) (l : List Item) (i : Nat) :
    keys (siftDownLoopP tmp l i).1 = (siftDownLoop tmp.1 (keys l) i).1 ∧
    (siftDownLoopP tmp l i).2 = (siftDownLoop tmp.1 (keys l) i).2 := by
  fun_induction siftDownLoopP tmp l i with
  | case1 l index child hc =>
    have hc' : cmp tmp.1 ((keys l).getD (pickChild (keys l) index) 0) > 0 := by
      rw [keys_getD, ← pickChildP_eq]; exact hc
    rw [siftDownLoop]; simp only [hc', ↓reduceIte]
    rw [keys_stamp]; exact ⟨rfl, trivial⟩
  | case2 l index child hc l1 hb ih =>
    have hc' : ¬ cmp tmp.1 ((keys l).getD (pickChild (keys l) index) 0) > 0 := by
      rw [keys_getD, ← pickChildP_eq]; exact hc
    have e1 : keys l1 = (keys l).set index ((keys l).getD (pickChild (keys l) index) 0) := by
      rw [← pickChildP_eq]; exact keys_stamp_getD ..
    have hb' : pickChild (keys l) index < (keys l).length / 2 := by
      rw [← pickChildP_eq, keys_length]; exact hb
    rw [siftDownLoop]; simp only [hc', ↓reduceIte, hb']
    rw [← e1, ← pickChildP_eq]; exact ih
  | case3 l index child hc l1 hb =>
    have hc' : ¬ cmp tmp.1 ((keys l).getD (pickChild (keys l) index) 0) > 0 := by
      rw [keys_getD, ← pickChildP_eq]; exact hc
    have e1 : keys l1 = (keys l).set index ((keys l).getD (pickChild (keys l) index) 0) := by
      rw [← pickChildP_eq]; exact keys_stamp_getD ..
    have hb' : ¬ pickChild (keys l) index < (keys l).length / 2 := by
      rw [← pickChildP_eq, keys_length]; exact hb
    rw [siftDownLoop]; simp only [hc', ↓reduceIte, hb']
    rw [keys_stamp, e1, ← pickChildP_eq]; exact ⟨rfl, rfl⟩

theorem siftDownP_refines (l : List Item) (i : Nat) :
    keys (siftDownP l i).1 = (siftDown (keys l) i).1 ∧ (siftDownP l i).2 = (siftDown (keys l) i).2 := by
  unfold siftDownP siftDown
  rw [keys_length, keys_getD]
  by_cases h0 : i < l.length / 2
  · rw [if_pos h0, if_pos h0]; exact siftDownLoopP_refines _ _ _
  · rw [if_neg h0, if_neg h0]; exact ⟨rfl, rfl⟩

theorem keys_append (l : List Item) (x : Item) : keys (l ++ [x]) = keys l ++ [x.1] := by simp [keys]

theorem keys_take (l : List Item) (n : Nat) : keys (l.take n) = (keys l).take n := by simp [keys, List.map_take]

theorem pushheapP_keys (l : List Item) (k : Nat) : keys (pushheapP l k) = pushheap (keys l) k := by
  unfold pushheapP pushheap
  rw [(siftUpP_refines _ _).1, keys_append, keys_length]

theorem keys_getElem (l : List Item) (i : Nat) (h : i < l.length) :
    (l[i]).1 = (keys l)[i]'(by simpa using h) := by simp [keys]

theorem deleteheapP_keys (l : List Item) (i : Nat) :
    keys (deleteheapP l i).1 = (deleteheap (keys l) i).1 ∧ (deleteheapP l i).2 = (deleteheap (keys l) i).2 := by
  unfold deleteheapP deleteheap
  by_cases h : i < l.length
  · have h' : i < (keys l).length := by simpa using h
    rw [dif_pos h, dif_pos h']
    simp only [keys_length]
    by_cases hn : l.length - 1 > 0 ∧ i ≠ l.length - 1
    · have e1 : keys ((stamp l i (l.getD (l.length - 1) (0, 0))).take (l.length - 1)) =
          ((keys l).set i ((keys l).getD (l.length - 1) 0)).take (l.length - 1) := by
        rw [keys_take, keys_stamp_getD]
      rw [if_pos hn, if_pos hn, ← keys_getD, e1, keys_getElem l i h]
      by_cases c1 : cmp ((((keys l).set i ((keys l).getD (l.length - 1) 0)).take (l.length - 1)).getD i 0) (keys l)[i] > 0
      · rw [if_pos c1, if_pos c1]; exact ⟨by rw [(siftUpP_refines _ _).1, e1], rfl⟩
      · rw [if_neg c1, if_neg c1]
        by_cases c2 : cmp ((((keys l).set i ((keys l).getD (l.length - 1) 0)).take (l.length - 1)).getD i 0) (keys l)[i] < 0
        · rw [if_pos c2, if_pos c2]; exact ⟨by rw [(siftDownP_refines _ _).1, e1], rfl⟩
        · rw [if_neg c2, if_neg c2]; exact ⟨e1, rfl⟩
    · rw [if_neg hn, if_neg hn]
      exact ⟨keys_take _ _, by rw [keys_getElem l i h]⟩
  · have h' : ¬ i < (keys l).length := by simpa using h
    rw [dif_neg h, dif_neg h']; exact ⟨rfl, rfl⟩

theorem updateheapP_keys (l : List Item) (i k : Nat) :
    keys (updateheapP l i k).1 = (updateheap (keys l) i k).1 ∧ (updateheapP l i k).2 = (updateheap (keys l) i k).2 := by
  unfold updateheapP updateheap
  by_cases h : i < l.length
  · have h' : i < (keys l).length := by simpa using h
    rw [dif_pos h, dif_pos h']
    simp only []
    rw [keys_getElem l i h]
    have e1 : keys (stamp l i (k, 0)) = (keys l).set i k := keys_stamp ..
    by_cases c0 : cmp k (keys l)[i] ≠ 0
    · rw [if_pos c0, if_pos c0]
      by_cases c1 : cmp k (keys l)[i] > 0
      · rw [if_pos c1, if_pos c1]; exact ⟨by rw [(siftUpP_refines _ _).1, e1], rfl⟩
      · rw [if_neg c1, if_neg c1]; exact ⟨by rw [(siftDownP_refines _ _).1, e1], rfl⟩
    · rw [if_neg c0, if_neg c0]; exact ⟨rfl, rfl⟩
  · have h' : ¬ i < (keys l).length := by simpa using h
    rw [dif_neg h, dif_neg h']; exact ⟨rfl, rfl⟩

/-! ### every item's position field names its slot -/

theorem posOk_stamp (l : List Item) (i : Nat) (x : Item) (h : PosOk l) : PosOk (stamp l i x) := by
  intro j hj
  simp only [stamp, List.getElem_set]
  split
  · next e => simpa using e
  · exact h j (by simpa using hj)

theorem siftUpLoopP_posOk (tmp : Item) (l : List Item) (i : Nat) (h : PosOk l) : PosOk (siftUpLoopP tmp l i).1 := by
  fun_induction siftUpLoopP tmp l i with
  | case1 l => exact posOk_stamp _ _ _ h
  | case2 l index _ parent l1 _ => exact posOk_stamp _ _ _ (posOk_stamp _ _ _ h)
  | case3 l index _ parent l1 _ _ => exact posOk_stamp _ _ _ (posOk_stamp _ _ _ h)
  | case4 l index _ parent l1 _ _ ih => exact ih (posOk_stamp _ _ _ h)

theorem siftUpP_posOk (l : List Item) (i : Nat) (h : PosOk l) : PosOk (siftUpP l i).1 := by
  unfold siftUpP; split
  · split
    · exact siftUpLoopP_posOk _ _ _ h
    · exact h
  · exact h

theorem siftDownLoopP_posOk (tmp : Item) (l : List Item) (i : Nat) (h : PosOk l) : PosOk (siftDownLoopP tmp l i).1 := by
  fun_induction siftDownLoopP tmp l i with
  | case1 l index child _ => exact posOk_stamp _ _ _ h
  | case2 l index child _ l1 _ ih => exact ih (posOk_stamp _ _ _ h)
  | case3 l index child _ l1 _ => exact posOk_stamp _ _ _ (posOk_stamp _ _ _ h)

theorem siftDownP_posOk (l : List Item) (i : Nat) (h : PosOk l) : PosOk (siftDownP l i).1 := by
  unfold siftDownP; split
  · exact siftDownLoopP_posOk _ _ _ h
  · exact h

theorem posOk_take (l : List Item) (n : Nat) (h : PosOk l) : PosOk (l.take n) := by
  intro j hj
  rw [List.getElem_take]
  exact h j (by simp at hj; omega)

theorem posOk_append (l : List Item) (k : Nat) (h : PosOk l) : PosOk (l ++ [(k, l.length)]) := by
  intro j hj
  by_cases hl : j < l.length
  · rw [List.getElem_append_left hl]; exact h j hl
  · have : j = l.length := by simp at hj; omega
    subst this; simp

theorem pushheapP_posOk (l : List Item) (k : Nat) (h : PosOk l) : PosOk (pushheapP l k) := by
  unfold pushheapP; exact siftUpP_posOk _ _ (posOk_append l k h)

theorem deleteheapP_posOk (l : List Item) (i : Nat) (h : PosOk l) : PosOk (deleteheapP l i).1 := by
  unfold deleteheapP
  split
  · simp only []
    split
    · have h1 := posOk_take _ (l.length - 1) (posOk_stamp l i (l.getD (l.length - 1) (0, 0)) h)
      split
      · exact siftUpP_posOk _ _ h1
      · split
        · exact siftDownP_posOk _ _ h1
        · exact h1
    · exact posOk_take _ _ h
  · exact h

theorem updateheapP_posOk (l : List Item) (i k : Nat) (h : PosOk l) : PosOk (updateheapP l i k).1 := by
  unfold updateheapP
  split
  · simp only []
    split
    · have h1 := posOk_stamp l i (k, 0) h
      split
      · exact siftUpP_posOk _ _ h1
      · exact siftDownP_posOk _ _ h1
    · exact h
  · exact h

end Hawk.Arr
