/-!
# C07 — leaf values and the host blocks behind them (lib/val.c hawk_rtx_makeintval / makefltval / make_str_val,
hawk_rtx_freeval; lib/run.c fini_rtx)

Boxed integers and floats live in chunks of `CHUNKSIZE` slots (`rtx->vmgr.ichunk/rchunk`), one host block per
chunk; a released slot goes to the free list `ifree/rfree`, never back to the host before the runtime is closed.
A released string goes to `rtx->str_cache[i]` (`i` = aligned length / 16, 16 classes of 128 entries) when there is
room, else back to the host; a new string takes a cached block of its class when there is one.
`host` counts the blocks obtained from the host allocator and not given back: what harness/gc_h.c's counting
`hawk_mmgr_t` sees.  `scache` = `str_cache_count[0..15]`.
-/
namespace Hawk.Gc

def CHUNKSIZE : Nat := 100          -- HAWK_VAL_CHUNK_SIZE
def STR_CACHE_NUM : Nat := 16       -- HAWK_STR_CACHE_NUM_BLOCKS
def STR_CACHE_UNIT : Nat := 16      -- HAWK_STR_CACHE_BLOCK_UNIT
def STR_CACHE_CAP : Nat := 128      -- HAWK_STR_CACHE_BLOCK_SIZE

inductive Leaf where
  | int | flt | str (cls : Nat)
deriving Repr, DecidableEq

structure VSt where
  tab : List (Option Leaf) := []    -- the host's table of leaf values it holds (none = released)
  ilive : Nat := 0
  ifree : Nat := 0
  ichunks : Nat := 0
  flive : Nat := 0
  ffree : Nat := 0
  fchunks : Nat := 0
  slive : Nat := 0
  scache : List Nat := List.replicate 16 0
  host : Nat := 0

/-- `HAWK_ALIGN_POW2 (len + 1, 16) / 16` -/
def strClass (len : Nat) : Nat := (len + 1 + (STR_CACHE_UNIT - 1)) / STR_CACHE_UNIT

/-- `hawk_rtx_makeintval` of a value outside the quick-int range, then the host's `refupval` -/
def mkInt (v : VSt) : VSt :=
  if v.ifree = 0 then
    { v with ichunks := v.ichunks + 1, ifree := CHUNKSIZE - 1, host := v.host + 1, ilive := v.ilive + 1, tab := v.tab ++ [some .int] }
  else { v with ifree := v.ifree - 1, ilive := v.ilive + 1, tab := v.tab ++ [some .int] }

/-- `hawk_rtx_makefltval` -/
def mkFlt (v : VSt) : VSt :=
  if v.ffree = 0 then
    { v with fchunks := v.fchunks + 1, ffree := CHUNKSIZE - 1, host := v.host + 1, flive := v.flive + 1, tab := v.tab ++ [some .flt] }
  else { v with ffree := v.ffree - 1, flive := v.flive + 1, tab := v.tab ++ [some .flt] }

/-- `make_str_val` of a string of `len ≥ 1` characters -/
def mkStr (v : VSt) (len : Nat) : VSt :=
  let c := strClass len
  if c < STR_CACHE_NUM ∧ 0 < v.scache.getD c 0 then
    { v with scache := v.scache.set c (v.scache.getD c 0 - 1), slive := v.slive + 1, tab := v.tab ++ [some (.str c)] }
  else { v with host := v.host + 1, slive := v.slive + 1, tab := v.tab ++ [some (.str c)] }

/-- `hawk_rtx_refdownval` of the host's (only) reference → `hawk_rtx_freeval (…, HAWK_RTX_FREEVAL_CACHE)` -/
def rel (v : VSt) (k : Nat) : Option VSt :=
  match (v.tab[k]?).getD none with
  | none => none
  | some .int => some { v with tab := v.tab.set k none, ilive := v.ilive - 1, ifree := v.ifree + 1 }
  | some .flt => some { v with tab := v.tab.set k none, flive := v.flive - 1, ffree := v.ffree + 1 }
  | some (.str c) =>
    if c < STR_CACHE_NUM ∧ v.scache.getD c 0 < STR_CACHE_CAP then
      some { v with tab := v.tab.set k none, slive := v.slive - 1, scache := v.scache.set c (v.scache.getD c 0 + 1) }
    else some { v with tab := v.tab.set k none, slive := v.slive - 1, host := v.host - 1 }

/-- `fini_rtx`: the string cache is emptied back to the host, the chunks are freed -/
def flush (v : VSt) : VSt :=
  { v with host := v.host - v.scache.sum - v.ichunks - v.fchunks, scache := List.replicate 16 0,
           ichunks := 0, fchunks := 0, ifree := 0, ffree := 0, ilive := 0, flive := 0 }

inductive VOp where
  | int | flt | str (len : Nat) | rel (k : Nat)
deriving Repr

def vstep (v : VSt) : VOp → VSt
  | .int => mkInt v
  | .flt => mkFlt v
  | .str len => mkStr v len
  | .rel k => (rel v k).getD v

def vrun (ops : List VOp) : VSt := ops.foldl vstep {}

end Hawk.Gc
