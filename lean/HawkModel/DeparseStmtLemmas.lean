import HawkModel.DeparseStmt
import HawkModel.DeparseStable
/-!
  Round trip of the statement level: `parseStmt (toksS (printS s)) = normS s` for the statement trees the parser can
  return (`WFS`), on top of the expression round trip (`rtA`).
-/
namespace Hawk.Deparse
open Hawk.Gen.Precedence Hawk.Gen.Keywords

/-! ### specification level -/

def normO : Option Ast → Option Ast
  | none => none
  | some a => some (norm a)

mutual
/-- the tree `parseStmt (print s)` returns: `norm` in every expression position -/
def normS : Stmt → Stmt
  | .null => .null
  | .blk nl body => .blk nl (normSL body)
  | .ift c t => .ift (norm c) (normS t)
  | .ife c t e => .ife (norm c) (normS t) (normS e)
  | .whl c b => .whl (norm c) (normS b)
  | .dowhl b c => .dowhl (normS b) (norm c)
  | .for_ i t u b => .for_ (normO i) (normO t) (normO u) (normS b)
  | .forin x b => .forin (norm x) (normS b)
  | .brk => .brk
  | .cont => .cont
  | .ret v => .ret (normO v)
  | .exit_ ab v => .exit_ ab (normO v)
  | .next => .next
  | .nextfile o => .nextfile o
  | .del v => .del (norm v)
  | .reset v => .reset (norm v)
  | .prt f args out => .prt f (normL args) (match out with | none => none | some (r, o) => some (r, norm o))
  | .expr e => .expr (norm e)
def normSL : StmtL → StmtL
  | .nil => .nil
  | .cons s t => .cons (normS s) (normSL t)
end

/-- the statement ends in an `if` without `else` (an `else` that follows would be taken by that `if`) -/
def openIf : Stmt → Bool
  | .ift _ _ => true
  | .ife _ _ e => openIf e
  | .whl _ b => openIf b
  | .for_ _ _ _ b => openIf b
  | .forin _ b => openIf b
  | _ => false

def WFO : Option Ast → Prop
  | none => True
  | some a => WFparse a

def lastArg : AstL → Option Ast
  | .nil => none
  | .cons a .nil => some a
  | .cons _ (.cons b t) => lastArg (.cons b t)

def isRedirBin : Ast → Bool
  | .bin op _ _ => (redirOfBin op).isSome
  | _ => false

/-- parse_print: a parenthesised list `print (a, b)` is the only argument -/
def grpAlone : AstL → Prop
  | .cons (.grp _) t => t = .nil
  | _ => True

/-- the target of a redirection -/
def WFout : Option (Redir × Ast) → Prop
  | none => True
  | some (_, o) => WFparse o

def lastNotRedir (l : AstL) : Prop :=
  match lastArg l with
  | some a => isRedirBin a = false
  | none => True

mutual
/-- the statement trees the parser can return (and, `_partial`: that the round trip theorem covers) -/
def WFS : Stmt → Prop
  | .null => True
  | .blk _ body => WFSL body
  | .ift c t => WFparse c ∧ WFS t
  | .ife c t e => WFparse c ∧ WFS t ∧ WFS e ∧ openIf t = false
  | .whl c b => WFparse c ∧ WFS b
  | .dowhl b c => WFparse c ∧ WFS b
  | .for_ i t u b => WFO i ∧ WFO t ∧ WFO u ∧ WFS b
  | .forin x b => WFparse x ∧ isForinHead x = true ∧ WFS b
  | .brk => True
  | .cont => True
  | .ret v => WFO v
  | .exit_ _ v => WFO v
  | .next => True
  | .nextfile _ => True
  | .del v => WFparse v ∧ v.isVar = true
  | .reset v => ∃ n, v = .var n
  | .prt f args out =>
    WFparseL args ∧ (f = true → args ≠ .nil) ∧ grpAlone args ∧ WFout out
  | .expr e => WFparse e
/-- parse_block keeps no null statement and no block with an empty body in a block body -/
def WFSL : StmtL → Prop
  | .nil => True
  | .cons s t => WFS s ∧ s.dropped = false ∧ WFSL t
end

mutual
def sz : Stmt → Nat
  | .blk _ body => szL body + 1
  | .ift _ t => sz t + 1
  | .ife _ t e => sz t + sz e + 1
  | .whl _ b => sz b + 1
  | .dowhl b _ => sz b + 1
  | .for_ _ _ _ b => sz b + 1
  | .forin _ b => sz b + 1
  | _ => 1
def szL : StmtL → Nat
  | .nil => 1
  | .cons s t => sz s + szL t + 1
end

/-! ### tokens of printed statements -/

theorem toksS_append (a b : List SP) : toksS (a ++ b) = toksS a ++ toksS b := by
  induction a with
  | nil => rfl
  | cons x r ih =>
    match x with
    | .p (.t _) => simp [toksS, ih]
    | .p .sp => simp [toksS, ih]
    | .nl => simp [toksS, ih]
    | .tab => simp [toksS, ih]

theorem toksS_tabs (d : Nat) : toksS (tabs d) = [] := by
  induction d with
  | zero => rfl
  | succ n ih => simp [tabs, List.replicate_succ, toksS] at ih ⊢; exact ih

theorem toksS_mapP (l : List PT) : toksS (l.map .p) = toks l := by
  induction l with
  | nil => rfl
  | cons x r ih => cases x <;> simp [toksS, toks, ih]

theorem toksS_ex (a : Ast) : toksS (ex a) = print a := by simp [ex, toksS_mapP, print]

theorem toksS_opx (a : Ast) : toksS (opx a) = opnd a := by
  simp only [opx, toksS_mapP, opndP, opnd]
  split <;> simp [toks, toks_append, print]

def tSEMI : Tok := symTok ";"
def tLBR : Tok := symTok "{"
def tRBR : Tok := symTok "}"
theorem tSEMI_k : tSEMI.k = .SEMICOLON := by decide
theorem tLBR_k : tLBR.k = .LBRACE := by decide
theorem tRBR_k : tRBR.k = .RBRACE := by decide
theorem nlTok_k : nlTok.k = .NEWLINE := rfl
theorem kwTok_k (k : TK) : (kwTok k).k = k := rfl

theorem dropNl_nl (r : List Tok) : dropNl (nlTok :: r) = dropNl r := by simp [dropNl, nlTok]
theorem dropNl_ne (t : Tok) (r : List Tok) (h : t.k ≠ .NEWLINE) : dropNl (t :: r) = t :: r := by simp [dropNl, h]
theorem dropNl_idem (ts : List Tok) : dropNl (dropNl ts) = dropNl ts := by
  induction ts with
  | nil => rfl
  | cons t r ih => by_cases h : t.k = .NEWLINE <;> simp [dropNl, h, ih]

/-! ### stop tokens for expressions in statements -/

theorem stop_SEMI (b : Option TK) : opOK ladderPre (some .SEMICOLON) b = true := by
  rw [opOK_indep _ _ _ none (by decide) (by decide)]; decide +kernel

/-- parse_expr_withdc reads a printed expression back when a token follows that stops every level -/
theorem pExpr_stop (a : Ast) (hw : WFparse a) (c : Tok) (rest : List Tok) (hc : ∀ b, opOK ladderPre (some c.k) b = true) :
    pExpr (print a ++ c :: rest) = .ok (norm a, c :: rest) :=
  (rtA a hw).2 _ _ (by simp; omega) (by rw [k1_cons, k2_cons]; exact hc _)

theorem pExpr_semi (a : Ast) (hw : WFparse a) (rest : List Tok) :
    pExpr (print a ++ tSEMI :: rest) = .ok (norm a, tSEMI :: rest) :=
  pExpr_stop a hw tSEMI rest (by rw [tSEMI_k]; exact stop_SEMI)

theorem pExpr_rp (a : Ast) (hw : WFparse a) (rest : List Tok) :
    pExpr (print a ++ tRP :: rest) = .ok (norm a, tRP :: rest) :=
  pExpr_stop a hw tRP rest (by rw [tRP_k]; exact stop_RPAREN')

/-! ### the round trip, case by case -/

/-- `s`, printed at any depth and followed by anything (but an `else` after an open `if`), is read back as `normS s`;
    what is left is `rest` up to leading newlines -/
def RT (s : Stmt) : Prop := ∀ (outer d n : Nat) (rest : List Tok), sz s ≤ n →
  (openIf s = true → k1 (dropNl rest) ≠ some .ELSE) →
  ∃ r', parseStmt n outer (toksS (printS outer d s) ++ rest) = .ok (normS s, r') ∧ dropNl r' = dropNl rest

theorem sym_semi : sym ";" = .p (.t tSEMI) := rfl
theorem sym_lbr : sym "{" = .p (.t tLBR) := rfl
theorem sym_rbr : sym "}" = .p (.t tRBR) := rfl
theorem sym_lp : sym "(" = .p (.t tLP) := rfl
theorem sym_rp : sym ")" = .p (.t tRP) := rfl
theorem sym_comma : sym "," = .p (.t tCOMMA) := rfl

/-- dispatch of parse_statement / parse_statement_nb on the kind of the first token -/
theorem ps_head (m outer : Nat) (t : Tok) (r : List Tok) (h : t.k ≠ .NEWLINE) :
    parseStmt (m + 1) outer (t :: r) = parseStmt (m + 1) outer (dropNl (t :: r)) := by
  rw [dropNl_ne t r h]

theorem ps_semi (m outer : Nat) (t : Tok) (r : List Tok) (h : t.k = .SEMICOLON) :
    parseStmt (m + 1) outer (t :: r) = .ok (.null, r) := by
  rw [parseStmt, dropNl_ne t r (by rw [h]; decide)]; simp only [h]

theorem ps_brk (m outer : Nat) (t : Tok) (r : List Tok) (h : t.k = .BREAK) :
    parseStmt (m + 1) outer (t :: r) = endStmt .brk r := by
  rw [parseStmt, dropNl_ne t r (by rw [h]; decide)]; simp only [h]

theorem endStmt_semi (x : Stmt) (t : Tok) (r : List Tok) (h : t.k = .SEMICOLON) : endStmt x (t :: r) = .ok (x, r) := by
  simp [endStmt, h]

theorem rt_null : RT .null := by
  intro outer d n rest hn _
  obtain ⟨m, rfl⟩ : ∃ m, n = m + 1 := ⟨n - 1, by simp [sz] at hn; omega⟩
  refine ⟨nlTok :: rest, ?_, dropNl_nl rest⟩
  simp only [printS, toksS_append, toksS_tabs, toksS, sym_semi, List.nil_append, List.cons_append, normS]
  exact ps_semi m outer tSEMI _ tSEMI_k

theorem rt_brk : RT .brk := by
  intro outer d n rest hn _
  obtain ⟨m, rfl⟩ : ∃ m, n = m + 1 := ⟨n - 1, by simp [sz] at hn; omega⟩
  refine ⟨nlTok :: rest, ?_, dropNl_nl rest⟩
  simp only [printS, toksS_append, toksS_tabs, toksS, sym_semi, kw, List.nil_append, List.cons_append, normS]
  rw [ps_brk m outer _ _ (kwTok_k _), endStmt_semi _ _ _ tSEMI_k]

theorem ps_dropNl (n outer : Nat) (ts : List Tok) : parseStmt n outer ts = parseStmt n outer (dropNl ts) := by
  cases n with
  | zero => simp [parseStmt]
  | succ m => rw [parseStmt, parseStmt, dropNl_idem]

theorem pb_dropNl (n outer : Nat) (ts : List Tok) : parseBody n outer ts = parseBody n outer (dropNl ts) := by
  cases n with
  | zero => simp [parseBody]
  | succ m => rw [parseBody, parseBody, dropNl_idem]

theorem ps_nl (n outer : Nat) (ts : List Tok) : parseStmt n outer (nlTok :: ts) = parseStmt n outer ts := by
  rw [ps_dropNl, dropNl_nl, ← ps_dropNl]

theorem ps_cont (m outer : Nat) (t : Tok) (r : List Tok) (h : t.k = .CONTINUE) :
    parseStmt (m + 1) outer (t :: r) = endStmt .cont r := by
  rw [parseStmt, dropNl_ne t r (by rw [h]; decide)]; simp only [h]
theorem ps_next (m outer : Nat) (t : Tok) (r : List Tok) (h : t.k = .NEXT) :
    parseStmt (m + 1) outer (t :: r) = endStmt .next r := by
  rw [parseStmt, dropNl_ne t r (by rw [h]; decide)]; simp only [h]
theorem ps_nextfile (m outer : Nat) (t : Tok) (r : List Tok) (h : t.k = .NEXTFILE) :
    parseStmt (m + 1) outer (t :: r) = endStmt (.nextfile false) r := by
  rw [parseStmt, dropNl_ne t r (by rw [h]; decide)]; simp only [h]
theorem ps_nextofile (m outer : Nat) (t : Tok) (r : List Tok) (h : t.k = .NEXTOFILE) :
    parseStmt (m + 1) outer (t :: r) = endStmt (.nextfile true) r := by
  rw [parseStmt, dropNl_ne t r (by rw [h]; decide)]; simp only [h]
theorem ps_ret (m outer : Nat) (t : Tok) (r r1 : List Tok) (v : Option Ast) (h : t.k = .RETURN) (hv : optVal r = .ok (v, r1)) :
    parseStmt (m + 1) outer (t :: r) = endStmt (.ret v) r1 := by
  rw [parseStmt, dropNl_ne t r (by rw [h]; decide)]; simp only [h, hv]
theorem ps_exit (m outer : Nat) (t : Tok) (r r1 : List Tok) (v : Option Ast) (h : t.k = .EXIT) (hv : optVal r = .ok (v, r1)) :
    parseStmt (m + 1) outer (t :: r) = endStmt (.exit_ false v) r1 := by
  rw [parseStmt, dropNl_ne t r (by rw [h]; decide)]; simp only [h, hv]
theorem ps_abort (m outer : Nat) (t : Tok) (r r1 : List Tok) (v : Option Ast) (h : t.k = .XABORT) (hv : optVal r = .ok (v, r1)) :
    parseStmt (m + 1) outer (t :: r) = endStmt (.exit_ true v) r1 := by
  rw [parseStmt, dropNl_ne t r (by rw [h]; decide)]; simp only [h, hv]
theorem ps_del (m outer : Nat) (t : Tok) (r : List Tok) (h : t.k = .DELETE) :
    parseStmt (m + 1) outer (t :: r) = parseDelete false r := by
  rw [parseStmt, dropNl_ne t r (by rw [h]; decide)]; simp only [h]
theorem ps_reset (m outer : Nat) (t : Tok) (r : List Tok) (h : t.k = .XRESET) :
    parseStmt (m + 1) outer (t :: r) = parseDelete true r := by
  rw [parseStmt, dropNl_ne t r (by rw [h]; decide)]; simp only [h]
theorem ps_print (m outer : Nat) (t : Tok) (r : List Tok) (h : t.k = .PRINT) :
    parseStmt (m + 1) outer (t :: r) = parsePrint false r := by
  rw [parseStmt, dropNl_ne t r (by rw [h]; decide)]; simp only [h]
theorem ps_printf (m outer : Nat) (t : Tok) (r : List Tok) (h : t.k = .PRINTF) :
    parseStmt (m + 1) outer (t :: r) = parsePrint true r := by
  rw [parseStmt, dropNl_ne t r (by rw [h]; decide)]; simp only [h]

theorem ps_expr (m outer : Nat) (t : Tok) (r r1 : List Tok) (a : Ast) (h : t.k ∈ startKs) (he : pExpr (t :: r) = .ok (a, r1)) :
    parseStmt (m + 1) outer (t :: r) = endStmt (.expr a) r1 := by
  have hn : t.k ≠ .NEWLINE := by intro e; rw [e] at h; revert h; decide
  rw [parseStmt, dropNl_ne t r hn]
  simp only [startKs, List.mem_cons, List.not_mem_nil, or_false] at h
  rcases h with h | h | h | h | h | h | h | h | h | h | h | h <;> simp only [h] <;> rw [he]

theorem ps_lbrace (m outer : Nat) (t : Tok) (r r1 r2 : List Tok) (nl : Nat) (body : StmtL) (h : t.k = .LBRACE)
    (hl : blockLocals (r.length + 1) r 0 = .ok (nl, r1)) (hb : parseBody m (outer + nl) r1 = .ok (body, r2)) :
    parseStmt (m + 1) outer (t :: r) = .ok (.blk nl body, r2) := by
  rw [parseStmt, dropNl_ne t r (by rw [h]; decide)]; simp only [h, hl, hb]

theorem ps_while (m outer : Nat) (t lp rp : Tok) (r1 r3 r4 : List Tok) (c : Ast) (b : Stmt) (h : t.k = .WHILE) (hlp : lp.k = .LPAREN)
    (hc : pExpr r1 = .ok (c, rp :: r3)) (hrp : rp.k = .RPAREN) (hb : parseStmt m outer r3 = .ok (b, r4)) :
    parseStmt (m + 1) outer (t :: lp :: r1) = .ok (.whl c b, r4) := by
  rw [parseStmt, dropNl_ne t _ (by rw [h]; decide)]; simp [h, hlp, hc, hrp, hb]

theorem ps_if_noelse (m outer : Nat) (t lp rp : Tok) (r1 r3 r4 : List Tok) (c : Ast) (b : Stmt) (h : t.k = .IF) (hlp : lp.k = .LPAREN)
    (hc : pExpr r1 = .ok (c, rp :: r3)) (hrp : rp.k = .RPAREN) (hb : parseStmt m outer r3 = .ok (b, r4))
    (hne : k1 (dropNl r4) ≠ some .ELSE) :
    parseStmt (m + 1) outer (t :: lp :: r1) = .ok (.ift c b, dropNl r4) := by
  rw [parseStmt, dropNl_ne t _ (by rw [h]; decide)]; simp only [h]
  simp only [hlp, hc, hrp, hb, bne_self_eq_false, Bool.false_eq_true, if_false]
  cases hd : dropNl r4 with
  | nil => rfl
  | cons el r5 =>
    rw [hd, k1_cons] at hne
    have : (el.k == TK.ELSE) = false := by simpa using hne
    simp [this]

theorem ps_if_else (m outer : Nat) (t lp rp el : Tok) (r1 r3 r4 r5 r6 : List Tok) (c : Ast) (b e : Stmt) (h : t.k = .IF) (hlp : lp.k = .LPAREN)
    (hc : pExpr r1 = .ok (c, rp :: r3)) (hrp : rp.k = .RPAREN) (hb : parseStmt m outer r3 = .ok (b, r4))
    (hd : dropNl r4 = el :: r5) (hel : el.k = .ELSE) (he : parseStmt m outer r5 = .ok (e, r6)) :
    parseStmt (m + 1) outer (t :: lp :: r1) = .ok (.ife c b e, r6) := by
  rw [parseStmt, dropNl_ne t _ (by rw [h]; decide)]; simp only [h]
  simp [hlp, hc, hrp, hb, hd, hel, he]

theorem ps_do (m outer : Nat) (t w lp rp : Tok) (r r1 r2 r4 : List Tok) (c : Ast) (b : Stmt) (h : t.k = .DO)
    (hb : parseStmt m outer r = .ok (b, r1)) (hd : dropNl r1 = w :: lp :: r2) (hw : w.k = .WHILE) (hlp : lp.k = .LPAREN)
    (hc : pExpr r2 = .ok (c, rp :: r4)) (hrp : rp.k = .RPAREN) :
    parseStmt (m + 1) outer (t :: r) = endStmt (.dowhl b c) r4 := by
  rw [parseStmt, dropNl_ne t _ (by rw [h]; decide)]; simp only [h]
  simp [hb, hd, hw, hlp, hc, hrp]

theorem ps_forin (m outer : Nat) (t lp rp : Tok) (r1 r3 r4 : List Tok) (i : Ast) (b : Stmt) (h : t.k = .FOR) (hlp : lp.k = .LPAREN)
    (hh : forHead r1 = .ok (some i, true, rp :: r3)) (hrp : rp.k = .RPAREN) (hb : parseStmt m outer r3 = .ok (b, r4)) :
    parseStmt (m + 1) outer (t :: lp :: r1) = .ok (.forin i b, r4) := by
  rw [parseStmt, dropNl_ne t _ (by rw [h]; decide)]; simp only [h]
  simp [hlp, hh, hrp, hb]

theorem ps_for (m outer : Nat) (t lp s1 s2 rp : Tok) (r1 r3 r6 r9 r10 : List Tok) (i t' u : Option Ast) (b : Stmt) (h : t.k = .FOR) (hlp : lp.k = .LPAREN)
    (hh : forHead r1 = .ok (i, false, s1 :: r3)) (hs1 : s1.k = .SEMICOLON)
    (ht : forOpt .SEMICOLON (dropNl r3) = .ok (t', s2 :: r6)) (hs2 : s2.k = .SEMICOLON)
    (hu : forOpt .RPAREN (dropNl r6) = .ok (u, rp :: r9)) (hrp : rp.k = .RPAREN) (hb : parseStmt m outer r9 = .ok (b, r10)) :
    parseStmt (m + 1) outer (t :: lp :: r1) = .ok (.for_ i t' u b, r10) := by
  rw [parseStmt, dropNl_ne t _ (by rw [h]; decide)]; simp only [h]
  cases i <;> simp [hlp, hh, hs1, ht, hs2, hu, hrp, hb]

theorem pb_end (m outer : Nat) (ts r : List Tok) (t : Tok) (hd : dropNl ts = t :: r) (h : t.k = .RBRACE) :
    parseBody (m + 1) outer ts = .ok (.nil, r) := by
  rw [parseBody, hd]; simp [h]

theorem pb_cons (m outer : Nat) (ts r r1 r2 : List Tok) (t : Tok) (s : Stmt) (l : StmtL) (hd : dropNl ts = t :: r) (h : t.k ≠ .RBRACE)
    (hs : parseStmt m outer (t :: r) = .ok (s, r1)) (hl : parseBody m outer r1 = .ok (l, r2)) (hdr : s.dropped = false) :
    parseBody (m + 1) outer ts = .ok (.cons s l, r2) := by
  rw [parseBody, hd]; simp [h, hs, hl, hdr]

/-! ### the cases -/

local macro "tk_simp" : tactic => `(tactic| simp only [printS, toksS_append, toksS_tabs, toksS, toksS_ex, kw, sym_semi, sym_lbr, sym_rbr,
  sym_lp, sym_rp, blank, List.nil_append, List.cons_append, List.append_assoc, normS, normO, optEx])

theorem start_all (p : TK → Bool) (hp : startKs.all p = true) (k : TK) (h : k ∈ startKs) : p k = true :=
  List.all_eq_true.mp hp k h

def stmtHeadOK (k : TK) : Bool := k != .NEWLINE && k != .RBRACE && k != .ELSE && k != .XLOCAL

theorem print_head' (e : Ast) (hw : WFparse e) (tl : List Tok) : ∃ t r, print e ++ tl = t :: r ∧ t.k ∈ startKs := by
  obtain ⟨t0, r0, e0, hk⟩ := print_head e hw
  exact ⟨t0, r0 ++ tl, by rw [e0]; rfl, hk⟩

theorem rt_simple (s : Stmt) (k : TK) (hs : ∀ outer d, toksS (printS outer d s) = [kwTok k, tSEMI, nlTok]) (hz : sz s = 1)
    (hn : normS s = s)
    (hp : ∀ m outer r, parseStmt (m + 1) outer (kwTok k :: r) = endStmt s r) : RT s := by
  intro outer d n rest hn' _
  obtain ⟨m, rfl⟩ : ∃ m, n = m + 1 := ⟨n - 1, by omega⟩
  refine ⟨nlTok :: rest, ?_, dropNl_nl rest⟩
  rw [hs, hn]
  simp only [List.cons_append, List.nil_append]
  rw [hp, endStmt_semi _ _ _ tSEMI_k]

theorem rt_cont : RT .cont :=
  rt_simple _ .CONTINUE (by intros; tk_simp) rfl rfl (fun m outer r => ps_cont m outer _ r rfl)
theorem rt_next : RT .next :=
  rt_simple _ .NEXT (by intros; tk_simp) rfl rfl (fun m outer r => ps_next m outer _ r rfl)
theorem rt_nextfile (o : Bool) : RT (.nextfile o) := by
  cases o
  · exact rt_simple _ .NEXTFILE (by intros; tk_simp; rfl) rfl rfl (fun m outer r => ps_nextfile m outer _ r rfl)
  · exact rt_simple _ .NEXTOFILE (by intros; tk_simp; rfl) rfl rfl (fun m outer r => ps_nextofile m outer _ r rfl)

theorem rt_expr (e : Ast) (hw : WFparse e) : RT (.expr e) := by
  intro outer d n rest hn _
  obtain ⟨m, rfl⟩ : ∃ m, n = m + 1 := ⟨n - 1, by simp [sz] at hn; omega⟩
  refine ⟨nlTok :: rest, ?_, dropNl_nl rest⟩
  tk_simp
  have he := pExpr_semi e hw (nlTok :: rest)
  obtain ⟨t0, r0, e0, hk⟩ := print_head' e hw (tSEMI :: nlTok :: rest)
  rw [e0] at he ⊢
  rw [ps_expr m outer t0 _ _ _ hk he, endStmt_semi _ _ _ tSEMI_k]

theorem optVal_none (t : Tok) (r : List Tok) (h : isTermK t.k = true) : optVal (t :: r) = .ok (none, t :: r) := by
  simp [optVal, h]

theorem optVal_some (a : Ast) (hw : WFparse a) (rest : List Tok) :
    optVal (print a ++ tSEMI :: rest) = .ok (some (norm a), tSEMI :: rest) := by
  have he := pExpr_semi a hw rest
  obtain ⟨t0, r0, e0, hk⟩ := print_head' a hw (tSEMI :: rest)
  rw [e0] at he ⊢
  have : isTermK t0.k = false := by simpa using start_all (fun k => !isTermK k) (by decide) _ hk
  simp [optVal, this, he]

theorem optVal_print (v : Option Ast) (hw : WFO v) (rest : List Tok) :
    optVal (toksS (optEx v) ++ tSEMI :: rest) = .ok (normO v, tSEMI :: rest) := by
  cases v with
  | none => simp only [optEx, toksS, List.nil_append, normO]; exact optVal_none _ _ (by decide)
  | some a => simp only [optEx, toksS_ex, normO]; exact optVal_some a hw rest

theorem toks_ret (v : Option Ast) (outer d : Nat) (k : TK) (s : Stmt)
    (h : printS outer d s = tabs d ++ [kw k] ++ (match v with | none => [] | some a => blank :: ex a) ++ [sym ";", .nl]) :
    toksS (printS outer d s) = kwTok k :: (toksS (optEx v) ++ [tSEMI, nlTok]) := by
  rw [h]; cases v <;> tk_simp

theorem rt_ret (v : Option Ast) (hw : WFO v) : RT (.ret v) := by
  intro outer d n rest hn _
  obtain ⟨m, rfl⟩ : ∃ m, n = m + 1 := ⟨n - 1, by simp [sz] at hn; omega⟩
  refine ⟨nlTok :: rest, ?_, dropNl_nl rest⟩
  rw [toks_ret v outer d .RETURN _ (by cases v <;> simp [printS])]
  simp only [List.cons_append, List.append_assoc, List.nil_append, normS]
  rw [ps_ret m outer _ _ _ _ rfl (optVal_print v hw _), endStmt_semi _ _ _ tSEMI_k]

theorem rt_exit (ab : Bool) (v : Option Ast) (hw : WFO v) : RT (.exit_ ab v) := by
  intro outer d n rest hn _
  obtain ⟨m, rfl⟩ : ∃ m, n = m + 1 := ⟨n - 1, by simp [sz] at hn; omega⟩
  refine ⟨nlTok :: rest, ?_, dropNl_nl rest⟩
  cases ab
  · rw [toks_ret v outer d .EXIT _ (by cases v <;> simp [printS])]
    simp only [List.cons_append, List.append_assoc, List.nil_append, normS]
    rw [ps_exit m outer _ _ _ _ rfl (optVal_print v hw _), endStmt_semi _ _ _ tSEMI_k]
  · rw [toks_ret v outer d .XABORT _ (by cases v <;> simp [printS])]
    simp only [List.cons_append, List.append_assoc, List.nil_append, normS]
    rw [ps_abort m outer _ _ _ _ rfl (optVal_print v hw _), endStmt_semi _ _ _ tSEMI_k]

theorem rt_whl (c : Ast) (b : Stmt) (hc : WFparse c) (ib : RT b) : RT (.whl c b) := by
  intro outer d n rest hn ho
  obtain ⟨m, rfl⟩ : ∃ m, n = m + 1 := ⟨n - 1, by simp [sz] at hn; omega⟩
  obtain ⟨r', h1, h2⟩ := ib outer (if b.isBlk then d else d + 1) m rest (by simp [sz] at hn; omega) (by simpa [openIf] using ho)
  refine ⟨r', ?_, h2⟩
  tk_simp
  exact ps_while m outer _ tLP tRP _ _ _ _ _ rfl tLP_k (pExpr_rp c hc _) tRP_k (by rw [ps_nl]; exact h1)

theorem rt_ift (c : Ast) (t : Stmt) (hc : WFparse c) (it : RT t) : RT (.ift c t) := by
  intro outer d n rest hn ho
  obtain ⟨m, rfl⟩ : ∃ m, n = m + 1 := ⟨n - 1, by simp [sz] at hn; omega⟩
  have ho' : k1 (dropNl rest) ≠ some .ELSE := ho rfl
  obtain ⟨r', h1, h2⟩ := it outer (if t.isBlk then d else d + 1) m rest (by simp [sz] at hn; omega) (fun _ => ho')
  refine ⟨dropNl r', ?_, by rw [dropNl_idem, h2]⟩
  tk_simp
  exact ps_if_noelse m outer _ tLP tRP _ _ _ _ _ rfl tLP_k (pExpr_rp c hc _) tRP_k (by rw [ps_nl]; exact h1) (by rw [h2]; exact ho')

theorem rt_ife (c : Ast) (t e : Stmt) (hc : WFparse c) (hop : openIf t = false) (it : RT t) (ie : RT e) : RT (.ife c t e) := by
  intro outer d n rest hn ho
  obtain ⟨m, rfl⟩ : ∃ m, n = m + 1 := ⟨n - 1, by simp [sz] at hn; omega⟩
  obtain ⟨r6, h3, h4⟩ := ie outer (if e.isBlk then d else d + 1) m rest (by simp [sz] at hn; omega) (by simpa [openIf] using ho)
  obtain ⟨r4, h1, h2⟩ := it outer (if t.isBlk then d else d + 1) m
    (kwTok .ELSE :: nlTok :: (toksS (printS outer (if e.isBlk then d else d + 1) e) ++ rest)) (by simp [sz] at hn; omega) (by simp [hop])
  refine ⟨r6, ?_, h4⟩
  tk_simp
  rw [dropNl_ne _ _ (by decide)] at h2
  exact ps_if_else m outer _ tLP tRP (kwTok .ELSE) _ _ _ _ _ _ _ _ rfl tLP_k (pExpr_rp c hc _) tRP_k (by rw [ps_nl]; exact h1) h2 rfl
    (by rw [ps_nl]; exact h3)

theorem rt_dowhl (b : Stmt) (c : Ast) (hc : WFparse c) (ib : RT b) : RT (.dowhl b c) := by
  intro outer d n rest hn _
  obtain ⟨m, rfl⟩ : ∃ m, n = m + 1 := ⟨n - 1, by simp [sz] at hn; omega⟩
  obtain ⟨r1, h1, h2⟩ := ib outer (if b.isBlk then d else d + 1) m
    (kwTok .WHILE :: tLP :: (print c ++ tRP :: tSEMI :: nlTok :: rest)) (by simp [sz] at hn; omega) (by intro _; rw [dropNl_ne _ _ (by decide)]; simp [k1, kwTok])
  refine ⟨nlTok :: rest, ?_, dropNl_nl rest⟩
  tk_simp
  rw [dropNl_ne _ _ (by decide)] at h2
  rw [ps_do m outer _ (kwTok .WHILE) tLP tRP _ _ _ _ _ _ rfl (by rw [ps_nl]; exact h1) h2 rfl tLP_k (pExpr_rp c hc _) tRP_k,
    endStmt_semi _ _ _ tSEMI_k]

/-! ### for -/

theorem stop_notStart_SEMI : TK.SEMICOLON ∉ startKs := by decide
theorem stop_notStart_RP : TK.RPAREN ∉ startKs := by decide

theorem forOpt_print (v : Option Ast) (hw : WFO v) (c : Tok) (hc : ∀ b, opOK ladderPre (some c.k) b = true) (hs : c.k ∉ startKs)
    (rest : List Tok) : forOpt c.k (toksS (optEx v) ++ c :: rest) = .ok (normO v, c :: rest) := by
  cases v with
  | none => simp [optEx, toksS, forOpt, headIs, normO]
  | some a =>
    simp only [optEx, toksS_ex, normO]
    have he := pExpr_stop a hw c rest hc
    obtain ⟨t0, r0, e0, hk⟩ := print_head' a hw (c :: rest)
    rw [e0] at he ⊢
    have : (t0.k == c.k) = false := by
      apply Bool.eq_false_iff.mpr; intro h; have := eq_of_beq h; rw [this] at hk; exact hs hk
    simp [forOpt, headIs, this, he]

theorem dropNl_optEx (v : Option Ast) (hw : WFO v) (c : Tok) (hc : c.k ≠ .NEWLINE) (rest : List Tok) :
    dropNl (toksS (optEx v) ++ c :: rest) = toksS (optEx v) ++ c :: rest := by
  cases v with
  | none => simp only [optEx, toksS, List.nil_append]; exact dropNl_ne _ _ hc
  | some a =>
    simp only [optEx, toksS_ex]
    obtain ⟨t0, r0, e0, hk⟩ := print_head' a hw (c :: rest)
    rw [e0]; exact dropNl_ne _ _ (start_not_newline _ hk)

theorem forin_norm_head (a : Ast) (h : isForinHead (norm a) = true) : ∃ l r, a = .bin .IN l r := by
  cases a with
  | bin op l r =>
    cases op <;> simp [norm, isForinHead] at h
    exact ⟨l, r, rfl⟩
  | int v t =>
    cases t with
    | none => simp only [norm] at h; split at h <;> simp [isForinHead] at h
    | some t => simp [norm, isForinHead] at h
  | unr op e => simp only [norm] at h; split at h <;> simp [isForinHead] at h
  | _ => simp [norm, isForinHead] at h

theorem forHead_print (i : Option Ast) (hw : WFO i) (rest : List Tok) :
    forHead (toksS (optEx i) ++ tSEMI :: rest) = .ok (normO i, false, tSEMI :: rest) := by
  cases i with
  | none => simp [optEx, toksS, forHead, headIs, normO, tSEMI_k]
  | some a =>
    simp only [optEx, toksS_ex, normO]
    have he := pExpr_semi a hw rest
    obtain ⟨t0, r0, e0, hk⟩ := print_head' a hw (tSEMI :: rest)
    have hfl : (!headIs .LPAREN (print a ++ tSEMI :: rest) && isForinHead (norm a)) = false := by
      cases hf : isForinHead (norm a) with
      | false => simp
      | true =>
        obtain ⟨l, r, rfl⟩ := forin_norm_head a hf
        simp [print_bin, headIs, tLP_k]
    rw [e0] at he hfl ⊢
    have : (t0.k == TK.SEMICOLON) = false := by
      apply Bool.eq_false_iff.mpr; intro h; have := eq_of_beq h; rw [this] at hk; exact stop_notStart_SEMI hk
    simp only [forHead, headIs, this, he, Bool.false_eq_true, if_false]
    simp only [headIs] at hfl
    rw [hfl]

theorem rt_for (i t u : Option Ast) (b : Stmt) (hi : WFO i) (ht : WFO t) (hu : WFO u) (ib : RT b) : RT (.for_ i t u b) := by
  intro outer d n rest hn ho
  obtain ⟨m, rfl⟩ : ∃ m, n = m + 1 := ⟨n - 1, by simp [sz] at hn; omega⟩
  obtain ⟨r', h1, h2⟩ := ib outer (if b.isBlk then d else d + 1) m rest (by simp [sz] at hn; omega) (by simpa [openIf] using ho)
  refine ⟨r', ?_, h2⟩
  simp only [printS, toksS_append, toksS_tabs, toksS, kw, sym_semi, sym_lp, sym_rp, blank, List.nil_append, List.cons_append,
    List.append_assoc, normS]
  exact ps_for m outer _ tLP tSEMI tSEMI tRP _ _ _ _ _ _ _ _ _ rfl tLP_k (forHead_print i hi _) tSEMI_k
    (by rw [dropNl_optEx t ht tSEMI (by decide)]; exact forOpt_print t ht tSEMI (by rw [tSEMI_k]; exact stop_SEMI) (by rw [tSEMI_k]; decide) _) tSEMI_k
    (by rw [dropNl_optEx u hu tRP (by decide)]; exact forOpt_print u hu tRP (by rw [tRP_k]; exact stop_RPAREN') (by rw [tRP_k]; decide) _) tRP_k
    (by rw [ps_nl]; exact h1)

theorem forin_shape (x : Ast) (h : isForinHead x = true) : ∃ l r, x = .bin .IN l r ∧ l.isVar = true := by
  cases x with
  | bin op l r =>
    cases op <;> simp [isForinHead] at h
    exact ⟨l, r, rfl, h⟩
  | _ => simp [isForinHead] at h

theorem rt_forin (x : Ast) (b : Stmt) (hx : WFparse x) (hf : isForinHead x = true) (ib : RT b) : RT (.forin x b) := by
  intro outer d n rest hn ho
  obtain ⟨m, rfl⟩ : ∃ m, n = m + 1 := ⟨n - 1, by simp [sz] at hn; omega⟩
  obtain ⟨r', h1, h2⟩ := ib outer (if b.isBlk then d else d + 1) m rest (by simp [sz] at hn; omega) (by simpa [openIf] using ho)
  refine ⟨r', ?_, h2⟩
  obtain ⟨l, r, rfl, hv⟩ := forin_shape x hf
  · simp only [WFparse] at hx
    obtain ⟨hwl, hwr, hnf, hin⟩ := hx
    have hna : l.isAss = false := by cases l <;> simp_all [Ast.isVar, Ast.isAss]
    simp only [printS, toksS_append, toksS_tabs, toksS, toksS_ex, kw, blank, List.nil_append, List.cons_append,
      List.append_assoc, normS, print_bin, norm]
    obtain ⟨tl, rl, el, hkl⟩ := opnd_head l hwl
    have hE := bin_inner .IN l r hwl hwr hnf (fun _ => hin trivial) (rtA l hwl).1 (rtA r hwr).1
      ((opnd l ++ binTok .IN :: opnd r ++ tRP :: nlTok :: (toksS (printS outer (if b.isBlk then d else d + 1) b) ++ rest)).length)
      (nlTok :: (toksS (printS outer (if b.isBlk then d else d + 1) b) ++ rest)) (by simp; omega) (by simp; omega)
    have hid : tl.k = .IDENT := by
      rw [opnd_nonass l hna] at el
      cases l <;> simp_all [Ast.isVar, print_var, print_idx]
      all_goals (obtain ⟨rfl, _⟩ := el; rfl)
    have hh : forHead (opnd l ++ binTok .IN :: (opnd r ++ tRP :: nlTok :: (toksS (printS outer (if b.isBlk then d else d + 1) b) ++ rest)))
        = .ok (some (.bin .IN (norm l) (norm r)), true, tRP :: nlTok :: (toksS (printS outer (if b.isBlk then d else d + 1) b) ++ rest)) := by
      have hE' : pExpr (opnd l ++ binTok .IN :: (opnd r ++ tRP :: nlTok :: (toksS (printS outer (if b.isBlk then d else d + 1) b) ++ rest)))
          = .ok (.bin .IN (norm l) (norm r), tRP :: nlTok :: (toksS (printS outer (if b.isBlk then d else d + 1) b) ++ rest)) := by
        simp only [pExpr]
        simpa [List.append_assoc] using hE
      rw [forHead, hE']
      rw [el]
      simp [headIs, hid, isForinHead, norm_isVar, hv]
    exact ps_forin m outer _ tLP tRP _ _ _ _ _ rfl tLP_k (by simpa [List.append_assoc] using hh) tRP_k (by rw [ps_nl]; exact h1)

/-! ### blocks -/

theorem start_headOK (k : TK) (h : k ∈ startKs) : stmtHeadOK k = true := start_all stmtHeadOK (by decide) k h

theorem head_printS (s : Stmt) (hw : WFS s) (outer d : Nat) :
    ∃ t r, toksS (printS outer d s) = t :: r ∧ stmtHeadOK t.k = true := by
  cases s with
  | expr e =>
    obtain ⟨t0, r0, e0, hk⟩ := print_head' e hw [tSEMI, nlTok]
    exact ⟨t0, r0, by tk_simp; exact e0, start_headOK _ hk⟩
  | null => exact ⟨_, _, by tk_simp; rfl, by decide⟩
  | blk nl body => exact ⟨tLBR, _, by tk_simp; rfl, by decide⟩
  | ift c t => exact ⟨kwTok .IF, _, by tk_simp; rfl, by decide⟩
  | ife c t e => exact ⟨kwTok .IF, _, by tk_simp; rfl, by decide⟩
  | whl c b => exact ⟨kwTok .WHILE, _, by tk_simp; rfl, by decide⟩
  | dowhl b c => exact ⟨kwTok .DO, _, by tk_simp; rfl, by decide⟩
  | for_ i t u b => exact ⟨kwTok .FOR, _, by tk_simp; rfl, by decide⟩
  | forin x b => exact ⟨kwTok .FOR, _, by tk_simp; rfl, by decide⟩
  | brk => exact ⟨kwTok .BREAK, _, by tk_simp; rfl, by decide⟩
  | cont => exact ⟨kwTok .CONTINUE, _, by tk_simp; rfl, by decide⟩
  | ret v => cases v <;> exact ⟨kwTok .RETURN, _, by tk_simp; rfl, by decide⟩
  | exit_ ab v => cases v <;> cases ab <;> exact ⟨_, _, by tk_simp; rfl, by decide⟩
  | next => exact ⟨kwTok .NEXT, _, by tk_simp; rfl, by decide⟩
  | nextfile o => cases o <;> exact ⟨_, _, by tk_simp; rfl, by decide⟩
  | del v => exact ⟨kwTok .DELETE, _, by tk_simp; rfl, by decide⟩
  | reset v => exact ⟨kwTok .XRESET, _, by tk_simp; rfl, by decide⟩
  | prt f args out => cases f <;> exact ⟨_, _, by tk_simp; rfl, by decide⟩

theorem headOK_parts (k : TK) (h : stmtHeadOK k = true) : k ≠ .NEWLINE ∧ k ≠ .RBRACE ∧ k ≠ .ELSE ∧ k ≠ .XLOCAL := by
  simp only [stmtHeadOK, Bool.and_eq_true, bne_iff_ne, ne_eq] at h
  exact ⟨h.1.1.1, h.1.1.2, h.1.2, h.2⟩

theorem head_printSL (l : StmtL) (hw : WFSL l) (outer d : Nat) (c : Tok) (hc : c.k = .RBRACE) (rest : List Tok) :
    ∃ t r, toksS (printSL outer d l) ++ c :: rest = t :: r ∧ t.k ≠ .NEWLINE ∧ t.k ≠ .ELSE ∧ t.k ≠ .XLOCAL := by
  cases l with
  | nil => exact ⟨c, rest, by simp [printSL, toksS], by rw [hc]; decide, by rw [hc]; decide, by rw [hc]; decide⟩
  | cons s t =>
    simp only [WFSL] at hw
    obtain ⟨t0, r0, e0, hk⟩ := head_printS s hw.1 outer d
    obtain ⟨h1, _, h3, h4⟩ := headOK_parts _ hk
    exact ⟨t0, r0 ++ (toksS (printSL outer d t) ++ c :: rest), by simp only [printSL, toksS_append, e0, List.cons_append, List.append_assoc], h1, h3, h4⟩

theorem bl_done (n cnt : Nat) (t : Tok) (r : List Tok) (h1 : t.k ≠ .NEWLINE) (h2 : t.k ≠ .XLOCAL) :
    blockLocals (n + 1) (t :: r) cnt = .ok (cnt, t :: r) := by
  rw [blockLocals, dropNl_ne _ _ h1]; simp [h2]

theorem bl_nl (n cnt : Nat) (r : List Tok) : blockLocals (n + 1) (nlTok :: r) cnt = blockLocals (n + 1) r cnt := by
  rw [blockLocals, blockLocals, dropNl_nl]

theorem bl_local (n cnt c : Nat) (t : Tok) (r r' : List Tok) (ht : t.k = .XLOCAL) (h : collectLocals n r cnt = .ok (c, r')) :
    blockLocals (n + 1) (t :: r) cnt = blockLocals n r' c := by
  rw [blockLocals, dropNl_ne _ _ (by rw [ht]; decide)]; simp [ht, h]

theorem toks_lcl_one (outer : Nat) : toksS (lclList outer 1) = [lclTok outer] := rfl
theorem toks_lcl_more (outer k : Nat) : toksS (lclList outer (k + 2)) = lclTok outer :: tCOMMA :: toksS (lclList (outer + 1) (k + 1)) := by
  simp [lclList, toksS, sym_comma, blank]

theorem cl_names : ∀ (k outer cnt n : Nat) (Y : List Tok), k + 1 ≤ n →
    collectLocals n (toksS (lclList outer (k + 1)) ++ tSEMI :: Y) cnt = .ok (cnt + (k + 1), Y)
  | 0, outer, cnt, n, Y, hn => by
    obtain ⟨m, rfl⟩ : ∃ m, n = m + 1 := ⟨n - 1, by omega⟩
    rw [toks_lcl_one]; simp [collectLocals, lclTok, tSEMI_k]
  | k + 1, outer, cnt, n, Y, hn => by
    obtain ⟨m, rfl⟩ : ∃ m, n = m + 1 := ⟨n - 1, by omega⟩
    rw [toks_lcl_more]
    have ih := cl_names k (outer + 1) (cnt + 1) m Y (by omega)
    have hd : dropNl (toksS (lclList (outer + 1) (k + 1)) ++ tSEMI :: Y) = toksS (lclList (outer + 1) (k + 1)) ++ tSEMI :: Y := by
      cases k with
      | zero => rw [toks_lcl_one]; exact dropNl_ne _ _ (by simp [lclTok])
      | succ j => rw [toks_lcl_more]; exact dropNl_ne _ _ (by simp [lclTok])
    simp only [List.cons_append, collectLocals]
    simp only [lclTok, tCOMMA_k, hd, ih]
    simp; omega

theorem len_lcl : ∀ (k outer : Nat), k + 1 ≤ (toksS (lclList outer (k + 1))).length
  | 0, outer => by rw [toks_lcl_one]; simp
  | k + 1, outer => by rw [toks_lcl_more]; have := len_lcl k (outer + 1); simp; omega

/-- a printed body followed by its closing brace -/
def RTL (l : StmtL) : Prop := ∀ (outer d n : Nat) (c : Tok) (rest : List Tok), szL l ≤ n → c.k = .RBRACE →
  parseBody n outer (toksS (printSL outer d l) ++ c :: rest) = .ok (normSL l, rest)

theorem rt_blk (nl : Nat) (body : StmtL) (hw : WFSL body) (il : RTL body) : RT (.blk nl body) := by
  intro outer d n rest hn _
  obtain ⟨m, rfl⟩ : ∃ m, n = m + 1 := ⟨n - 1, by simp [sz] at hn; omega⟩
  refine ⟨nlTok :: rest, ?_, dropNl_nl rest⟩
  have hb := il (outer + nl) (d + 1) m tRBR (nlTok :: rest) (by simp [sz] at hn; omega) tRBR_k
  obtain ⟨t0, r0, e0, h1, _, h4⟩ := head_printSL body hw (outer + nl) (d + 1) tRBR tRBR_k (nlTok :: rest)
  cases nl with
  | zero =>
    simp only [printS, toksS_append, toksS_tabs, toksS, sym_lbr, sym_rbr, List.nil_append, List.cons_append, List.append_assoc, normS,
      Nat.lt_irrefl, gt_iff_lt, if_false]
    refine ps_lbrace m outer tLBR _ _ _ 0 _ tLBR_k ?_ hb
    rw [bl_nl, e0]; exact bl_done _ _ _ _ h1 h4
  | succ k =>
    simp only [printS, toksS_append, toksS_tabs, toksS, sym_lbr, sym_rbr, sym_semi, kw, blank, List.nil_append, List.cons_append,
      List.append_assoc, normS, gt_iff_lt, Nat.zero_lt_succ, if_true]
    refine ps_lbrace m outer tLBR _ _ _ (k + 1) _ tLBR_k ?_ hb
    have hlen := len_lcl k outer
    rw [bl_nl]
    rw [bl_local _ 0 _ (kwTok .XLOCAL) _ _ rfl (cl_names k outer 0 _ _ (by simp only [List.length_append, List.length_cons]; omega))]
    rw [List.length_cons, bl_nl, e0, Nat.zero_add]; exact bl_done _ _ _ _ h1 h4

theorem dropped_norm (s : Stmt) : (normS s).dropped = s.dropped := by
  cases s with
  | blk nl body => cases body <;> simp [normS, normSL, Stmt.dropped]
  | _ => simp [normS, Stmt.dropped]

theorem rtl_nil : RTL .nil := by
  intro outer d n c rest hn hc
  obtain ⟨m, rfl⟩ : ∃ m, n = m + 1 := ⟨n - 1, by simp [szL] at hn; omega⟩
  simp only [printSL, toksS, List.nil_append, normSL]
  exact pb_end m outer _ rest c (dropNl_ne _ _ (by rw [hc]; decide)) hc

theorem rtl_cons (s : Stmt) (t : StmtL) (hws : WFS s) (hdr : s.dropped = false) (hwt : WFSL t) (is : RT s) (it : RTL t) :
    RTL (.cons s t) := by
  intro outer d n c rest hn hc
  obtain ⟨m, rfl⟩ : ∃ m, n = m + 1 := ⟨n - 1, by simp [szL] at hn; omega⟩
  obtain ⟨t1, r1, e1, hn1, he1, _⟩ := head_printSL t hwt outer d c hc rest
  obtain ⟨r', h1, h2⟩ := is outer d m (toksS (printSL outer d t) ++ c :: rest) (by simp [szL] at hn; omega)
    (by intro _; rw [e1, dropNl_ne _ _ hn1, k1_cons]; simpa using he1)
  have h3 := it outer d m c rest (by simp [szL] at hn; omega) hc
  obtain ⟨t0, r0, e0, hk⟩ := head_printS s hws outer d
  obtain ⟨g1, g2, _, _⟩ := headOK_parts _ hk
  simp only [printSL, toksS_append, List.append_assoc, normSL]
  rw [e0] at h1 ⊢
  simp only [List.cons_append] at h1 ⊢
  refine pb_cons m outer _ _ r' rest t0 (normS s) (normSL t) (dropNl_ne _ _ g1) g2 h1 ?_ (by rw [dropped_norm]; exact hdr)
  rw [pb_dropNl, h2, ← pb_dropNl]; exact h3

/-! ### delete, @reset -/

theorem stop_prim_SEMI (b : Option TK) : noContK .primLv (some .SEMICOLON) b = true := opOK_prim (stop_SEMI b)

theorem del_dispatch (rs : Bool) (v : Ast) (m outer d : Nat) (rest : List Tok) :
    parseStmt (m + 1) outer (toksS (printS outer d (if rs = true then Stmt.reset v else Stmt.del v)) ++ rest)
      = parseDelete rs (print v ++ tSEMI :: nlTok :: rest) := by
  cases rs
  · simp only [Bool.false_eq_true, if_false]; tk_simp; exact ps_del m outer _ _ rfl
  · simp only [if_true]; tk_simp; exact ps_reset m outer _ _ rfl

theorem rt_del_var (rs : Bool) (nm : String) : RT (if rs then .reset (.var nm) else .del (.var nm)) := by
  intro outer d n rest hn _
  obtain ⟨m, rfl⟩ : ∃ m, n = m + 1 := ⟨n - 1, by cases rs <;> simp [sz] at hn <;> omega⟩
  refine ⟨nlTok :: rest, ?_, dropNl_nl rest⟩
  rw [del_dispatch, print_var]
  simp only [parseDelete, List.cons_append, List.nil_append]
  simp only [show (TK.IDENT == TK.LPAREN) = false by decide, Bool.false_eq_true, if_false]
  rw [primNoPipe.eq_def]
  cases rs <;> simp [tSEMI_k, endStmt, normS, norm]

theorem rt_del_idx (nm : String) (ix : AstL) (hw : WFparse (.idx nm ix)) : RT (.del (.idx nm ix)) := by
  intro outer d n rest hn _
  obtain ⟨m, rfl⟩ : ∃ m, n = m + 1 := ⟨n - 1, by simp [sz] at hn; omega⟩
  refine ⟨nlTok :: rest, ?_, dropNl_nl rest⟩
  have := del_dispatch false (.idx nm ix) m outer d rest
  simp only [Bool.false_eq_true, if_false] at this
  rw [this, print_idx]
  simp only [WFparse] at hw
  simp only [parseDelete, List.cons_append, List.nil_append, List.append_assoc]
  simp only [show (TK.IDENT == TK.LPAREN) = false by decide, Bool.false_eq_true, if_false]
  have h1 : ∀ n, (printLT ix).length ≤ n → parseList ladder n false (printLT ix ++ tRB :: tSEMI :: nlTok :: rest)
      = .ok (normL ix, tRB :: tSEMI :: nlTok :: rest) := fun n hn' =>
    rtL ix hw.1 n false tRB (tSEMI :: nlTok :: rest) hn' hw.2 (by rw [tRB_k]; decide) (by rw [tRB_k]; exact stop_RBRACK' _)
  rw [primNoPipe.eq_def]
  simp only [tLB_k, beq_self_eq_true, if_true]
  rw [h1 _ (by simp only [List.length_cons, List.length_append]; omega)]
  simp [tRB_k, tSEMI_k, headIs, endStmt, normS, norm]

theorem rt_del (v : Ast) (hw : WFparse v) (hv : v.isVar = true) : RT (.del v) := by
  cases v with
  | var nm => exact rt_del_var false nm
  | idx nm ix => exact rt_del_idx nm ix hw
  | _ => simp [Ast.isVar] at hv

theorem rt_reset (nm : String) : RT (.reset (.var nm)) := rt_del_var true nm

/-! ### print / printf (no redirection) -/

def toksMore : AstL → List Tok
  | .nil => []
  | .cons b t => tCOMMA :: (opnd b ++ toksMore t)

theorem toks_argList : ∀ (a : Ast) (l : AstL), toksS (argList (.cons a l)) = opnd a ++ toksMore l
  | a, .nil => by simp [argList, toksS_opx, toksMore]
  | a, .cons b t => by
    simp only [argList, toksS_append, toksS_opx, toksS, sym_comma, toksMore, toks_argList b t]
    simp

theorem pExpr_opnd (a : Ast) (hw : WFparse a) (c : Tok) (rest : List Tok) (hc : ∀ b, opOK ladderPre (some c.k) b = true) :
    pExpr (opnd a ++ c :: rest) = .ok (norm a, c :: rest) := by
  have := (rtA a hw).1 ((opnd a ++ c :: rest).length + 1) ladderPre (c :: rest) (by simp; omega) (by rw [k1_cons, k2_cons]; exact hc _)
  rw [← ladder_split] at this; exact this

theorem more_head (t : AstL) (rest : List Tok) :
    ∃ c r, toksMore t ++ tSEMI :: rest = c :: r ∧ (∀ b, opOK ladderPre (some c.k) b = true) := by
  cases t with
  | nil => exact ⟨tSEMI, rest, rfl, by rw [tSEMI_k]; exact stop_SEMI⟩
  | cons b t => exact ⟨tCOMMA, _, rfl, by rw [tCOMMA_k]; exact stop_COMMA'⟩

theorem printMore_print : ∀ (l : AstL) (_ : WFparseL l) (n : Nat) (rest : List Tok), (toksMore l ++ tSEMI :: rest).length + 1 ≤ n →
    ∃ gm, printMore n (toksMore l ++ tSEMI :: rest) = .ok (normL l, gm, tSEMI :: rest)
  | .nil, _, n, rest, hn => by
    obtain ⟨m, rfl⟩ : ∃ m, n = m + 1 := ⟨n - 1, by omega⟩
    exact ⟨false, by simp [toksMore, printMore, tSEMI_k, normL]⟩
  | .cons b t, hw, n, rest, hn => by
    obtain ⟨m, rfl⟩ : ∃ m, n = m + 1 := ⟨n - 1, by omega⟩
    simp only [WFparseL] at hw
    obtain ⟨gm', ih⟩ := printMore_print t hw.2 m rest (by simp [toksMore] at hn ⊢; omega)
    obtain ⟨c, r, ec, hc⟩ := more_head t rest
    have he := pExpr_opnd b hw.1 c r hc
    obtain ⟨t0, r0, e0, hk⟩ := opnd_head b hw.1
    have hd : dropNl (opnd b ++ (toksMore t ++ tSEMI :: rest)) = opnd b ++ (toksMore t ++ tSEMI :: rest) := by
      rw [e0]; exact dropNl_ne _ _ (start_not_newline _ hk)
    rw [← ec] at he
    simp only [toksMore, List.cons_append, List.append_assoc, printMore, tCOMMA_k, bne_self_eq_false, Bool.false_eq_true, if_false, hd, he, ih]
    rw [show normL (.cons b t) = .cons (norm b) (normL t) from by simp [normL]]
    cases normL t <;> exact ⟨_, rfl⟩

theorem isRedirBin_norm (a : Ast) : isRedirBin (norm a) = isRedirBin a := by
  cases a with
  | int v t =>
    cases t with
    | none => simp only [norm]; split <;> rfl
    | some t => rfl
  | unr op e => simp only [norm]; split <;> rfl
  | _ => rfl

theorem isGrp_norm (a : Ast) : isGrp (norm a) = isGrp a := by
  cases a with
  | int v t =>
    cases t with
    | none => simp only [norm]; split <;> rfl
    | some t => rfl
  | unr op e => simp only [norm]; split <;> rfl
  | _ => rfl

theorem splitLast_one (a : Ast) (h : isRedirBin a = false) : splitLast (.cons a .nil) = none := by
  cases a with
  | bin op l r =>
    simp only [isRedirBin] at h
    simp only [splitLast]
    cases hr : redirOfBin op with
    | none => rfl
    | some rd => rw [hr] at h; simp at h
  | _ => rfl

theorem splitLast_none : ∀ (l : AstL), lastNotRedir l →
    splitLast (normL l) = none
  | .nil, _ => rfl
  | .cons a .nil, h => by
    simp only [lastNotRedir, lastArg] at h
    simp only [normL]
    exact splitLast_one _ (by rw [isRedirBin_norm]; exact h)
  | .cons a (.cons b t), h => by
    simp only [lastNotRedir, lastArg] at h
    have ih := splitLast_none (.cons b t) (by simpa only [lastNotRedir] using h)
    simp only [normL] at ih ⊢
    simp only [splitLast, ih]

theorem pp_noargs (t : Tok) (r : List Tok) (h : t.k = .SEMICOLON) : parsePrint false (t :: r) = .ok (.prt false .nil none, r) := by
  simp [parsePrint, isTermK, h, redirOfTok, endStmt]

theorem pp_args (f : Bool) (t0 : Tok) (r0 r1 r2 : List Tok) (a : Ast) (l : AstL) (gm : Bool) (hk : t0.k ∈ startKs)
    (he : pExpr (t0 :: r0) = .ok (a, r1))
    (hm : (if isGrp a then Except.ok (AstL.nil, false, r1) else printMore (r1.length + 1) r1) = .ok (l, gm, tSEMI :: r2))
    (hs : splitLast (.cons a l) = none) :
    parsePrint f (t0 :: r0) = .ok (.prt f (.cons a l) none, r2) := by
  have h1 : isTermK t0.k = false := by simpa using start_all (fun k => !isTermK k) (by decide) _ hk
  have h2 : redirOfTok t0.k = none := by
    have := start_all (fun k => (redirOfTok k).isNone) (by decide) _ hk
    simpa using this
  have h3 : (t0.k == TK.LOR) = false := by simpa using start_all (fun k => !(k == TK.LOR)) (by decide) _ hk
  simp only [parsePrint, h1, h2, h3, he, hm, hs]
  simp [redirOfTok, tSEMI_k, endStmt]

theorem pp_print_args (f : Bool) (a : Ast) (l : AstL) (hw : WFparseL (.cons a l))
    (hg : grpAlone (.cons a l)) (hl : lastNotRedir (.cons a l)) (rest : List Tok) :
    parsePrint f (opnd a ++ (toksMore l ++ tSEMI :: rest)) = .ok (.prt f (.cons (norm a) (normL l)) none, rest) := by
  simp only [WFparseL] at hw
  obtain ⟨t0, r0, e0, hk⟩ := opnd_head a hw.1
  obtain ⟨c, r, ec, hc⟩ := more_head l rest
  have he := pExpr_opnd a hw.1 c r hc
  rw [← ec] at he
  have hs := splitLast_none (.cons a l) hl
  simp only [normL] at hs
  rw [e0] at he ⊢
  simp only [List.cons_append] at he ⊢
  cases hgr : isGrp a with
  | true =>
    have hnil : l = .nil := by cases a <;> simp_all [isGrp, grpAlone]
    subst hnil
    exact pp_args f t0 _ _ rest (norm a) .nil false hk he (by simp [isGrp_norm, hgr, toksMore]) hs
  | false =>
    obtain ⟨gm, hm⟩ := printMore_print l hw.2 ((toksMore l ++ tSEMI :: rest).length + 1) rest (Nat.le_refl _)
    exact pp_args f t0 _ _ rest (norm a) (normL l) gm hk he (by simp only [isGrp_norm, hgr, Bool.false_eq_true, if_false]; exact hm) hs

/-! ### a binary node that is closed by a semicolon (print's redirection: `print a > b;`) -/

/-- `binOK` with `;` in place of `)` -/
def binOKsemi (op : BinOp) : Bool :=
  match splitAtOp (binTok op).k op ladderPre with
  | none => false
  | some (pre, L, bp) =>
    startKs.all (fun s => passK pre (some s) (some .SEMICOLON) none) &&
    startKs.all (fun s => opOK bp (some (binTok op).k) (some s)) &&
    opOK (rightLevels L bp) (some .SEMICOLON) none &&
    noContK L (some .SEMICOLON) none

theorem binOKsemi_redir (op : BinOp) (h : (redirOfBin op).isSome = true) : binOKsemi op = true := by
  cases op <;> first | (simp [redirOfBin] at h; done) | decide +kernel

theorem bin_inner_semi (op : BinOp) (l r : Ast) (hwl : WFparse l) (hwr : WFparse r)
    (hnf : ¬ (foldable op = true ∧ (norm l).isNum = true ∧ (norm r).isNum = true)) (hin : op = .IN → r.isVar = true)
    (ol : OStmt l) (or : OStmt r) (m : Nat) (rest : List Tok) (hll : (opnd l).length ≤ m + 1) (hlr : (opnd r).length ≤ m)
    (hbs : binOKsemi op = true) :
    parseLv ladder (m + 1) ladder ((opnd l ++ binTok op :: opnd r) ++ tSEMI :: rest) = .ok (.bin op (norm l) (norm r), tSEMI :: rest) := by
  obtain ⟨tl, rl, el, hkl⟩ := opnd_head l hwl
  obtain ⟨tr, rr, er, hkr⟩ := opnd_head r hwr
  have hb := hbs
  unfold binOKsemi at hb
  split at hb
  · simp at hb
  · next pre L bp hs =>
    obtain ⟨hsplit, hh⟩ := splitAtOp_eq _ _ _ _ _ _ hs
    simp only [Bool.and_eq_true, List.all_eq_true] at hb
    obtain ⟨⟨⟨hb1, hb2⟩, hb3⟩, hb4⟩ := hb
    have e : ladder = pre ++ L :: (bp ++ [.incLv, .primLv]) := by rw [ladder_split, hsplit]; simp
    have hE : parseLv ladder (m + 1) ladder ((opnd l ++ binTok op :: opnd r) ++ tSEMI :: rest)
        = .ok (.bin op (norm l) (norm r), tSEMI :: rest) := by
      have hlad : parseLv ladder (m + 1) ladder ((opnd l ++ binTok op :: opnd r) ++ tSEMI :: rest)
          = parseLv ladder (m + 1) (pre ++ L :: (bp ++ [.incLv, .primLv])) ((opnd l ++ binTok op :: opnd r) ++ tSEMI :: rest) := by
        rw [← e]
      rw [hlad]
      simp only [List.cons_append, List.append_assoc, List.nil_append]
      apply climb ladder (m + 1) pre
      · apply binLevel m L (bp ++ [Level.incLv, Level.primLv]) op (binTok op) tSEMI (opnd l) (opnd r) rest (norm l) (norm r) hh
        · exact ol (m + 1) bp _ hll (by rw [k1_cons, k2_cons, er, List.cons_append, k1_cons]; exact hb2 tr.k hkr)
        · have e2 : rightLevels L bp ++ [Level.incLv, Level.primLv] = rightLevels L (bp ++ [Level.incLv, Level.primLv]) := by
            simp only [rightLevels]; split <;> rfl
          rw [← e2]
          exact or m (rightLevels L bp) _ hlr (by
            rw [k1_cons, k2_cons, tSEMI_k, opOK_indep _ _ _ none (by decide) (by decide)]; exact hb3)
        · rw [er, List.cons_append, k1_cons]; intro h; exact start_not_newline _ hkr (by simpa using h)
        · exact mkBin_nofold op _ _ hnf
        · intro h; rw [norm_isVar]; exact hin h
        · rw [tSEMI_k, noContK_indep _ _ _ none (by decide) (by decide)]; exact hb4
      · rw [el, List.cons_append, k1_cons, k1_cons, k2_cons, tSEMI_k, passK_indep _ _ _ _ none (by decide) (by decide)]
        exact hb1 tl.k hkl
    exact hE

/-! ### parentheses of printed expressions (parse_print's `in_parens` bookkeeping) -/

/-- a token segment that leaves the count of open parentheses as it found it, never going below it -/
def Bal (seg : List Tok) : Prop := ∀ (d : Nat) (rest : List Tok), closesAtEnd (d + 1) (seg ++ rest) = closesAtEnd (d + 1) rest

theorem Bal.nil : Bal [] := fun _ _ => rfl

theorem Bal.cons (t : Tok) (a : List Tok) (h1 : t.k ≠ .LPAREN) (h2 : t.k ≠ .RPAREN) (ha : Bal a) : Bal (t :: a) := by
  intro d rest
  simp only [List.cons_append, closesAtEnd, beq_iff_eq, h1, h2, if_false]
  exact ha d rest

theorem Bal.app (a b : List Tok) (ha : Bal a) (hb : Bal b) : Bal (a ++ b) := by
  intro d rest; rw [List.append_assoc, ha, hb]

theorem Bal.paren (a : List Tok) (ha : Bal a) : Bal (tLP :: (a ++ [tRP])) := by
  intro d rest
  simp only [List.cons_append, List.append_assoc, List.nil_append, closesAtEnd, tLP_k, beq_self_eq_true, if_true]
  rw [ha (d + 1) (tRP :: rest)]
  simp [closesAtEnd, tRP_k]

theorem Bal.tok (t : Tok) (h1 : t.k ≠ .LPAREN) (h2 : t.k ≠ .RPAREN) : Bal [t] := Bal.cons t [] h1 h2 Bal.nil

theorem binTok_noparen (op : BinOp) : (binTok op).k ≠ .LPAREN ∧ (binTok op).k ≠ .RPAREN := by cases op <;> decide
theorem unrTok_noparen (op : UnrOp) : (unrTok op).k ≠ .LPAREN ∧ (unrTok op).k ≠ .RPAREN := by cases op <;> decide
theorem incTok_noparen (op : IncOp) : (incTok op).k ≠ .LPAREN ∧ (incTok op).k ≠ .RPAREN := by cases op <;> decide
theorem assTok_noparen (op : AssOp) : (assTok op).k ≠ .LPAREN ∧ (assTok op).k ≠ .RPAREN := by cases op <;> decide
theorem lit_noparen (k : TK) (h : k ∈ litKinds) : k ≠ .LPAREN ∧ k ≠ .RPAREN := by
  simp only [litKinds, List.mem_cons, List.not_mem_nil, or_false] at h
  rcases h with h | h | h | h | h | h <;> subst h <;> decide

theorem Bal.opnd (a : Ast) (h : Bal (print a)) : Bal (opnd a) := by
  unfold Hawk.Deparse.opnd; split
  · exact Bal.paren _ h
  · exact h

mutual
theorem balA : (a : Ast) → WFparse a → Bal (print a)
  | .int v (some t), _ => by rw [print_int_some]; exact Bal.tok _ (by simp) (by simp)
  | .int v none, _ => by
    by_cases hv : v < 0
    · rw [print_int_neg v hv]
      exact Bal.paren [tMINUS, natTok v.natAbs] (Bal.cons _ _ (by decide) (by decide) (Bal.tok _ (by simp [natTok]) (by simp [natTok])))
    · rw [print_int_nonneg v hv]; exact Bal.tok _ (by simp [natTok]) (by simp [natTok])
  | .lit k s, h => by
    rw [print_lit]; simp only [WFparse] at h
    exact Bal.tok _ (lit_noparen k h).1 (lit_noparen k h).2
  | .var n, _ => by rw [print_var]; exact Bal.tok _ (by simp) (by simp)
  | .idx n ix, h => by
    rw [print_idx]; simp only [WFparse] at h
    exact Bal.cons _ _ (by simp) (by simp) (Bal.cons _ _ (by decide) (by decide) (Bal.app _ _ (balL ix h.1) (Bal.tok _ (by decide) (by decide))))
  | .call n l, h => by
    rw [print_call]; simp only [WFparse] at h
    exact Bal.cons _ _ (by simp) (by simp) (Bal.paren _ (balL l h))
  | .grp l, h => by
    rw [print_grp]; simp only [WFparse] at h
    exact Bal.paren _ (balL l h.1)
  | .pos e, h => by
    rw [print_pos]; simp only [WFparse] at h
    exact Bal.cons _ _ (by decide) (by decide) (Bal.paren _ (balA e h))
  | .bin op l r, h => by
    simp only [WFparse] at h
    have e : print (.bin op l r) = tLP :: ((opnd l ++ binTok op :: opnd r) ++ [tRP]) := by rw [print_bin]; simp
    rw [e]
    exact Bal.paren _ (Bal.app _ _ (Bal.opnd l (balA l h.1)) (Bal.cons _ _ (binTok_noparen op).1 (binTok_noparen op).2 (Bal.opnd r (balA r h.2.1))))
  | .unr op e, h => by
    simp only [WFparse] at h
    have e' : print (.unr op e) = tLP :: ((unrTok op :: tLP :: (print e ++ [tRP])) ++ [tRP]) := by rw [print_unr]; simp
    rw [e']
    exact Bal.paren _ (Bal.cons _ _ (unrTok_noparen op).1 (unrTok_noparen op).2 (Bal.paren _ (balA e h.1)))
  | .incpre op e, h => by
    rw [print_incpre]; simp only [WFparse] at h
    exact Bal.cons _ _ (incTok_noparen op).1 (incTok_noparen op).2 (Bal.paren _ (balA e h.1))
  | .incpst op e, h => by
    simp only [WFparse] at h
    have e' : print (.incpst op e) = (tLP :: (print e ++ [tRP])) ++ [incTok op] := by rw [print_incpst]; simp
    rw [e']
    exact Bal.app _ _ (Bal.paren _ (balA e h.1)) (Bal.tok _ (incTok_noparen op).1 (incTok_noparen op).2)
  | .cnd c l r, h => by
    simp only [WFparse] at h
    have e' : print (.cnd c l r) = tLP :: (((tLP :: (print c ++ [tRP])) ++ (tQUEST :: (print l ++ (tCOLON :: print r)))) ++ [tRP]) := by
      rw [print_cnd]; simp
    rw [e']
    exact Bal.paren _ (Bal.app _ _ (Bal.paren _ (balA c h.1))
      (Bal.cons _ _ (by decide) (by decide) (Bal.app _ _ (balA l h.2.1) (Bal.cons _ _ (by decide) (by decide) (balA r h.2.2)))))
  | .ass op l r, h => by
    rw [print_ass]; simp only [WFparse] at h
    exact Bal.app _ _ (balA l h.1) (Bal.cons _ _ (assTok_noparen op).1 (assTok_noparen op).2 (balA r h.2.1))
theorem balL : (l : AstL) → WFparseL l → Bal (printLT l)
  | .nil, _ => by rw [printLT_nil]; exact Bal.nil
  | .cons a .nil, h => by rw [printLT_one]; simp only [WFparseL] at h; exact balA a h.1
  | .cons a (.cons b t), h => by
    rw [printLT_cons]; simp only [WFparseL] at h
    exact Bal.app _ _ (balA a h.1) (Bal.cons _ _ (by decide) (by decide) (balL (.cons b t) (by simp only [WFparseL]; exact h.2)))
end

theorem consumed_app (x r : List Tok) : consumed (x ++ r) r = x := by
  simp [consumed]

/-- `print (a > b)`: the argument is one parenthesised node, parse_print's `in_parens` is confirmed -/
theorem inParens_redirbin (b : Ast) (hw : WFparse b) (h : isRedirBin b = true) (rest : List Tok) :
    inParens (opnd b ++ rest) rest = true := by
  cases b with
  | bin op l r =>
    simp only [WFparse] at hw
    have hb : Bal (opnd l ++ binTok op :: opnd r) :=
      Bal.app _ _ (Bal.opnd l (balA l hw.1)) (Bal.cons _ _ (binTok_noparen op).1 (binTok_noparen op).2 (Bal.opnd r (balA r hw.2.1)))
    have e : opnd (.bin op l r) = tLP :: ((opnd l ++ binTok op :: opnd r) ++ [tRP]) := by
      rw [opnd_nonass _ rfl, print_bin]; simp
    simp only [inParens, consumed_app, e, tLP_k, beq_self_eq_true, Bool.true_and]
    rw [hb 0 [tRP]]
    simp [closesAtEnd, tRP_k]
  | _ => simp [isRedirBin] at h

def lastIsRedir (l : AstL) : Bool :=
  match lastArg l with
  | some x => isRedirBin x
  | none => false

theorem printMore_print2 : ∀ (l : AstL) (_ : WFparseL l) (n : Nat) (rest : List Tok), (toksMore l ++ tSEMI :: rest).length + 1 ≤ n →
    ∃ gm, printMore n (toksMore l ++ tSEMI :: rest) = .ok (normL l, gm, tSEMI :: rest) ∧ (lastIsRedir l = true → gm = true)
  | .nil, _, n, rest, hn => by
    obtain ⟨m, rfl⟩ : ∃ m, n = m + 1 := ⟨n - 1, by omega⟩
    exact ⟨false, by simp [toksMore, printMore, tSEMI_k, normL], by simp [lastIsRedir, lastArg]⟩
  | .cons b t, hw, n, rest, hn => by
    obtain ⟨m, rfl⟩ : ∃ m, n = m + 1 := ⟨n - 1, by omega⟩
    simp only [WFparseL] at hw
    obtain ⟨gm', ih, ihg⟩ := printMore_print2 t hw.2 m rest (by simp [toksMore] at hn ⊢; omega)
    obtain ⟨c, r, ec, hc⟩ := more_head t rest
    have he := pExpr_opnd b hw.1 c r hc
    obtain ⟨t0, r0, e0, hk⟩ := opnd_head b hw.1
    have hd : dropNl (opnd b ++ (toksMore t ++ tSEMI :: rest)) = opnd b ++ (toksMore t ++ tSEMI :: rest) := by
      rw [e0]; exact dropNl_ne _ _ (start_not_newline _ hk)
    rw [← ec] at he
    simp only [toksMore, List.cons_append, List.append_assoc, printMore, tCOMMA_k, bne_self_eq_false, Bool.false_eq_true, if_false, hd, he, ih]
    rw [show normL (.cons b t) = .cons (norm b) (normL t) from by simp [normL]]
    cases t with
    | nil =>
      refine ⟨_, rfl, ?_⟩
      intro hl
      simp only [lastIsRedir, lastArg] at hl
      simp only [toksMore, List.nil_append]
      exact inParens_redirbin b hw.1 hl _
    | cons b2 t2 =>
      refine ⟨gm', rfl, ?_⟩
      intro hl
      exact ihg (by simpa only [lastIsRedir, lastArg] using hl)

theorem pp_args2 (f : Bool) (t0 : Tok) (r0 r1 r2 : List Tok) (a : Ast) (l : AstL) (gm : Bool) (hk : t0.k ∈ startKs)
    (he : pExpr (t0 :: r0) = .ok (a, r1))
    (hm : (if isGrp a then Except.ok (AstL.nil, false, r1) else printMore (r1.length + 1) r1) = .ok (l, gm, tSEMI :: r2))
    (hs : ((!inpFlag l (t0 :: r0) r1 && !gm) = true) → splitLast (.cons a l) = none) :
    parsePrint f (t0 :: r0) = .ok (.prt f (.cons a l) none, r2) := by
  have h1 : isTermK t0.k = false := by simpa using start_all (fun k => !isTermK k) (by decide) _ hk
  have h2 : redirOfTok t0.k = none := by
    have := start_all (fun k => (redirOfTok k).isNone) (by decide) _ hk
    simpa using this
  have h3 : (t0.k == TK.LOR) = false := by simpa using start_all (fun k => !(k == TK.LOR)) (by decide) _ hk
  simp only [parsePrint, h1, h2, h3, he, hm]
  cases hc : (!inpFlag l (t0 :: r0) r1 && !gm) with
  | true =>
    have := hs hc
    simp [this, redirOfTok, tSEMI_k, endStmt]
  | false =>
    simp [redirOfTok, tSEMI_k, endStmt]

theorem lastNotRedir_of (l : AstL) (h : lastIsRedir l = false) : lastNotRedir l := by
  simp only [lastIsRedir, lastNotRedir] at h ⊢
  cases hl : lastArg l with
  | none => trivial
  | some x => rw [hl] at h; exact h

theorem pp_print_args2 (f : Bool) (a : Ast) (l : AstL) (hw : WFparseL (.cons a l)) (hg : grpAlone (.cons a l)) (rest : List Tok) :
    parsePrint f (opnd a ++ (toksMore l ++ tSEMI :: rest)) = .ok (.prt f (.cons (norm a) (normL l)) none, rest) := by
  by_cases hlr : lastIsRedir (.cons a l) = false
  · exact pp_print_args f a l hw hg (lastNotRedir_of _ hlr) rest
  · have hlr' : lastIsRedir (.cons a l) = true := by simpa using hlr
    simp only [WFparseL] at hw
    obtain ⟨t0, r0, e0, hk⟩ := opnd_head a hw.1
    obtain ⟨c, r, ec, hc⟩ := more_head l rest
    have he := pExpr_opnd a hw.1 c r hc
    rw [← ec] at he
    have hgr : isGrp a = false := by
      cases a with
      | grp b =>
        simp only [grpAlone] at hg; subst hg
        simp [lastIsRedir, lastArg, isRedirBin] at hlr'
      | _ => rfl
    obtain ⟨gm, hm, hgm⟩ := printMore_print2 l hw.2 ((toksMore l ++ tSEMI :: rest).length + 1) rest (Nat.le_refl _)
    have hflag : (!inpFlag (normL l) (opnd a ++ (toksMore l ++ tSEMI :: rest)) (toksMore l ++ tSEMI :: rest) && !gm) = false := by
      cases l with
      | nil =>
        simp only [lastIsRedir, lastArg] at hlr'
        have := inParens_redirbin a hw.1 hlr' (tSEMI :: rest)
        simp [normL, inpFlag, toksMore, this]
      | cons b t =>
        have : gm = true := hgm (by simpa only [lastIsRedir, lastArg] using hlr')
        simp [this]
    rw [e0] at he hflag ⊢
    simp only [List.cons_append] at he hflag ⊢
    exact pp_args2 f t0 _ _ rest (norm a) (normL l) gm hk he
      (by simp only [isGrp_norm, hgr, Bool.false_eq_true, if_false]; exact hm)
      (by intro h; rw [hflag] at h; exact absurd h (by decide))

theorem rt_prt (f : Bool) (args : AstL) (hw : WFparseL args) (hf : f = true → args ≠ .nil) (hg : grpAlone args) :
    RT (.prt f args none) := by
  intro outer d n rest hn _
  obtain ⟨m, rfl⟩ : ∃ m, n = m + 1 := ⟨n - 1, by simp [sz] at hn; omega⟩
  refine ⟨nlTok :: rest, ?_, dropNl_nl rest⟩
  cases args with
  | nil =>
    have hff : f = false := by
      cases f with
      | false => rfl
      | true => exact absurd rfl (hf rfl)
    subst hff
    tk_simp
    simp only [Bool.false_eq_true, if_false, normL]
    rw [ps_print m outer _ _ rfl]
    exact pp_noargs _ _ tSEMI_k
  | cons a l =>
    have hp := pp_print_args2 f a l hw hg (nlTok :: rest)
    tk_simp
    simp only [toks_argList, List.append_assoc, normL]
    cases f
    · simp only [Bool.false_eq_true, if_false]; rw [ps_print m outer _ _ rfl]; exact hp
    · simp only [if_true]; rw [ps_printf m outer _ _ rfl]; exact hp

/-! ### print / printf with a redirection -/

/-- a printed operand either is `( mid ) tl` with `mid` balanced, or does not start with a parenthesis -/
theorem paren_shape (b : Ast) (hw : WFparse b) :
    (∃ mid tl, opnd b = tLP :: (mid ++ tRP :: tl) ∧ Bal mid) ∨ (∃ t r, opnd b = t :: r ∧ t.k ≠ .LPAREN) := by
  by_cases ha : b.isAss = true
  · exact .inl ⟨print b, [], by simp [opnd, ha], balA b hw⟩
  · have ha' : b.isAss = false := by simpa using ha
    rw [opnd_nonass b ha']
    cases b with
    | int v t =>
      cases t with
      | some t => exact .inr ⟨_, _, print_int_some v t, by simp⟩
      | none =>
        by_cases hv : v < 0
        · exact .inl ⟨[tMINUS, natTok v.natAbs], [], by rw [print_int_neg v hv]; rfl,
            Bal.cons _ _ (by decide) (by decide) (Bal.tok _ (by simp [natTok]) (by simp [natTok]))⟩
        · exact .inr ⟨_, _, print_int_nonneg v hv, by simp [natTok]⟩
    | lit k s => simp only [WFparse] at hw; exact .inr ⟨_, _, print_lit k s, (lit_noparen k hw).1⟩
    | var n => exact .inr ⟨_, _, print_var n, by simp⟩
    | idx n ix => exact .inr ⟨_, _, print_idx n ix, by simp⟩
    | call n l => exact .inr ⟨_, _, print_call n l, by simp⟩
    | grp l => simp only [WFparse] at hw; exact .inl ⟨printLT l, [], by rw [print_grp], balL l hw.1⟩
    | pos e => exact .inr ⟨_, _, print_pos e, by decide⟩
    | bin op l r =>
      simp only [WFparse] at hw
      exact .inl ⟨opnd l ++ binTok op :: opnd r, [], by rw [print_bin]; simp,
        Bal.app _ _ (Bal.opnd l (balA l hw.1)) (Bal.cons _ _ (binTok_noparen op).1 (binTok_noparen op).2 (Bal.opnd r (balA r hw.2.1)))⟩
    | unr op e =>
      simp only [WFparse] at hw
      exact .inl ⟨unrTok op :: tLP :: (print e ++ [tRP]), [], by rw [print_unr]; simp,
        Bal.cons _ _ (unrTok_noparen op).1 (unrTok_noparen op).2 (Bal.paren _ (balA e hw.1))⟩
    | incpre op e => exact .inr ⟨_, _, print_incpre op e, (incTok_noparen op).1⟩
    | incpst op e =>
      simp only [WFparse] at hw
      exact .inl ⟨print e, [incTok op], by rw [print_incpst], balA e hw.1⟩
    | cnd c l r =>
      simp only [WFparse] at hw
      exact .inl ⟨(tLP :: (print c ++ [tRP])) ++ (tQUEST :: (print l ++ (tCOLON :: print r))), [], by rw [print_cnd]; simp,
        Bal.app _ _ (Bal.paren _ (balA c hw.1))
          (Bal.cons _ _ (by decide) (by decide) (Bal.app _ _ (balA l hw.2.1) (Bal.cons _ _ (by decide) (by decide) (balA r hw.2.2))))⟩
    | ass op l r => simp [Ast.isAss] at ha'

/-- `print (a) > b`: the first parenthesis is closed before the end of what was consumed: `in_parens` is not confirmed -/
theorem inParens_early (b : Ast) (hw : WFparse b) (X : List Tok) (hX : X ≠ []) (rest : List Tok) :
    inParens (opnd b ++ (X ++ rest)) rest = false := by
  have hc : consumed (opnd b ++ (X ++ rest)) rest = opnd b ++ X := by rw [← List.append_assoc]; exact consumed_app _ _
  simp only [inParens, hc]
  rcases paren_shape b hw with ⟨mid, tl, e, hb⟩ | ⟨t, r, e, ht⟩
  · rw [e]
    simp only [List.cons_append, List.append_assoc, tLP_k, beq_self_eq_true, Bool.true_and]
    rw [hb 0]
    cases X with
    | nil => exact absurd rfl hX
    | cons x xs => simp [closesAtEnd, tRP_k]
  · rw [e]; simp [ht]

def opOfRedir : Redir → BinOp
  | .file => .GT
  | .apfile => .RS
  | .pipe => .BOR
  | .rwpipe => .LOR

theorem redir_sym (rd : Redir) : symTok rd.str = binTok (opOfRedir rd) := by cases rd <;> decide +kernel
theorem redirOfBin_op (rd : Redir) : redirOfBin (opOfRedir rd) = some rd := by cases rd <;> rfl
theorem redir_nofold (rd : Redir) : foldable (opOfRedir rd) = false := by cases rd <;> rfl
theorem redir_notin (rd : Redir) : opOfRedir rd ≠ .IN := by cases rd <;> decide

/-- `b > o ;` is read by parse_expr_withdc as one binary node -/
theorem pExpr_redir (b o : Ast) (hwb : WFparse b) (hwo : WFparse o) (rd : Redir) (rest : List Tok) :
    pExpr (opnd b ++ binTok (opOfRedir rd) :: (opnd o ++ tSEMI :: rest))
      = .ok (.bin (opOfRedir rd) (norm b) (norm o), tSEMI :: rest) := by
  have h := bin_inner_semi (opOfRedir rd) b o hwb hwo (by simp [redir_nofold]) (fun h => absurd h (redir_notin rd))
    (rtA b hwb).1 (rtA o hwo).1 ((opnd b ++ binTok (opOfRedir rd) :: (opnd o ++ tSEMI :: rest)).length) rest
    (by simp; omega) (by simp; omega) (binOKsemi_redir _ (by rw [redirOfBin_op]; rfl))
  simp only [pExpr]
  simpa [List.append_assoc] using h

/-- tokens of the arguments after the first one when the last one is followed by the redirection -/
def toksMoreR (op : BinOp) (o : Ast) : AstL → List Tok
  | .nil => []
  | .cons b .nil => tCOMMA :: (opnd b ++ binTok op :: opnd o)
  | .cons b (.cons c t) => tCOMMA :: (opnd b ++ toksMoreR op o (.cons c t))

/-- what parse_print's argument loop reads from them: the last argument and the target are one binary node -/
def resR (op : BinOp) (o : Ast) : AstL → AstL
  | .nil => .nil
  | .cons b .nil => .cons (.bin op (norm b) (norm o)) .nil
  | .cons b (.cons c t) => .cons (norm b) (resR op o (.cons c t))

theorem toksMoreR_eq (op : BinOp) (o : Ast) : ∀ (l : AstL), l ≠ .nil → ∀ (Y : List Tok),
    toksMore l ++ binTok op :: (opnd o ++ Y) = toksMoreR op o l ++ Y
  | .nil, h, _ => absurd rfl h
  | .cons b .nil, _, Y => by simp [toksMore, toksMoreR]
  | .cons b (.cons c t), _, Y => by
    have ih := toksMoreR_eq op o (.cons c t) (by simp) Y
    simp only [toksMore, toksMoreR, List.cons_append, List.append_assoc] at ih ⊢
    rw [ih]

theorem printMore_redir (rd : Redir) (o : Ast) (hwo : WFparse o) : ∀ (l : AstL), l ≠ .nil → WFparseL l → ∀ (n : Nat) (rest : List Tok),
    (toksMoreR (opOfRedir rd) o l ++ tSEMI :: rest).length + 1 ≤ n →
    printMore n (toksMoreR (opOfRedir rd) o l ++ tSEMI :: rest) = .ok (resR (opOfRedir rd) o l, false, tSEMI :: rest)
  | .nil, h, _, _, _, _ => absurd rfl h
  | .cons b .nil, _, hw, n, rest, hn => by
    obtain ⟨m, rfl⟩ : ∃ m, n = m + 2 := ⟨n - 2, by simp [toksMoreR] at hn; omega⟩
    simp only [WFparseL] at hw
    obtain ⟨t0, r0, e0, hk⟩ := opnd_head b hw.1
    have he := pExpr_redir b o hw.1 hwo rd rest
    have hd : dropNl (opnd b ++ binTok (opOfRedir rd) :: (opnd o ++ tSEMI :: rest)) = opnd b ++ binTok (opOfRedir rd) :: (opnd o ++ tSEMI :: rest) := by
      rw [e0]; exact dropNl_ne _ _ (start_not_newline _ hk)
    have hin := inParens_early b hw.1 (binTok (opOfRedir rd) :: opnd o) (by simp) (tSEMI :: rest)
    simp only [List.cons_append, List.append_assoc] at hin
    simp only [toksMoreR, resR, List.cons_append, List.append_assoc, printMore, tCOMMA_k, bne_self_eq_false, Bool.false_eq_true, if_false, hd, he,
      tSEMI_k, hin]
    simp
  | .cons b (.cons c t), _, hw, n, rest, hn => by
    obtain ⟨m, rfl⟩ : ∃ m, n = m + 1 := ⟨n - 1, by omega⟩
    simp only [WFparseL] at hw
    have ih := printMore_redir rd o hwo (.cons c t) (by simp) (by simp only [WFparseL]; exact hw.2) m rest (by simp [toksMoreR] at hn ⊢; omega)
    obtain ⟨t0, r0, e0, hk⟩ := opnd_head b hw.1
    have hc : ∃ r, toksMoreR (opOfRedir rd) o (.cons c t) ++ tSEMI :: rest = tCOMMA :: r := by
      cases t <;> exact ⟨_, rfl⟩
    obtain ⟨r, ec⟩ := hc
    have he := pExpr_opnd b hw.1 tCOMMA r (by rw [tCOMMA_k]; exact stop_COMMA')
    rw [← ec] at he
    have hd : dropNl (opnd b ++ (toksMoreR (opOfRedir rd) o (.cons c t) ++ tSEMI :: rest)) = opnd b ++ (toksMoreR (opOfRedir rd) o (.cons c t) ++ tSEMI :: rest) := by
      rw [e0]; exact dropNl_ne _ _ (start_not_newline _ hk)
    have hres : ∃ x y, resR (opOfRedir rd) o (.cons c t) = .cons x y := by cases t <;> exact ⟨_, _, rfl⟩
    obtain ⟨x, y, ex⟩ := hres
    rw [show toksMoreR (opOfRedir rd) o (.cons b (.cons c t)) = tCOMMA :: (opnd b ++ toksMoreR (opOfRedir rd) o (.cons c t)) from rfl,
      show resR (opOfRedir rd) o (.cons b (.cons c t)) = .cons (norm b) (resR (opOfRedir rd) o (.cons c t)) from rfl]
    simp only [List.cons_append, List.append_assoc, printMore, tCOMMA_k, bne_self_eq_false, Bool.false_eq_true, if_false, hd, he, ih, ex]

theorem splitLast_resR (rd : Redir) (o : Ast) : ∀ (l : AstL), l ≠ .nil →
    splitLast (resR (opOfRedir rd) o l) = some (normL l, rd, norm o)
  | .nil, h => absurd rfl h
  | .cons b .nil, _ => by simp [resR, splitLast, redirOfBin_op, normL]
  | .cons b (.cons c t), _ => by
    have ih := splitLast_resR rd o (.cons c t) (by simp)
    have hres : ∃ x y, resR (opOfRedir rd) o (.cons c t) = .cons x y := by cases t <;> exact ⟨_, _, rfl⟩
    obtain ⟨x, y, ex⟩ := hres
    rw [show resR (opOfRedir rd) o (.cons b (.cons c t)) = .cons (norm b) (resR (opOfRedir rd) o (.cons c t)) from rfl]
    rw [ex] at ih ⊢
    simp only [splitLast, ih]
    simp [normL]

theorem pp_args3 (f : Bool) (t0 : Tok) (r0 r1 r2 : List Tok) (a x : Ast) (l y : AstL) (gm : Bool) (rd : Redir) (o : Ast) (hk : t0.k ∈ startKs)
    (he : pExpr (t0 :: r0) = .ok (a, r1))
    (hm : (if isGrp a then Except.ok (AstL.nil, false, r1) else printMore (r1.length + 1) r1) = .ok (l, gm, tSEMI :: r2))
    (hflag : (!inpFlag l (t0 :: r0) r1 && !gm) = true)
    (hs : splitLast (.cons a l) = some (.cons x y, rd, o)) :
    parsePrint f (t0 :: r0) = .ok (.prt f (.cons x y) (some (rd, o)), r2) := by
  have h1 : isTermK t0.k = false := by simpa using start_all (fun k => !isTermK k) (by decide) _ hk
  have h2 : redirOfTok t0.k = none := by
    have := start_all (fun k => (redirOfTok k).isNone) (by decide) _ hk
    simpa using this
  have h3 : (t0.k == TK.LOR) = false := by simpa using start_all (fun k => !(k == TK.LOR)) (by decide) _ hk
  simp only [parsePrint, h1, h2, h3, he, hm, hflag, hs]
  simp [tSEMI_k, endStmt]

theorem pp_print_redir (f : Bool) (a : Ast) (l : AstL) (hw : WFparseL (.cons a l)) (hg : grpAlone (.cons a l))
    (rd : Redir) (o : Ast) (hwo : WFparse o) (rest : List Tok) :
    parsePrint f (opnd a ++ (toksMore l ++ binTok (opOfRedir rd) :: (opnd o ++ tSEMI :: rest)))
      = .ok (.prt f (.cons (norm a) (normL l)) (some (rd, norm o)), rest) := by
  simp only [WFparseL] at hw
  obtain ⟨t0, r0, e0, hk⟩ := opnd_head a hw.1
  cases l with
  | nil =>
    have he := pExpr_redir a o hw.1 hwo rd rest
    have hin := inParens_early a hw.1 (binTok (opOfRedir rd) :: opnd o) (by simp) (tSEMI :: rest)
    simp only [toksMore, List.nil_append, List.cons_append, List.append_assoc, normL] at hin ⊢
    rw [e0] at he hin ⊢
    simp only [List.cons_append] at he hin ⊢
    exact pp_args3 f t0 _ _ rest _ (norm a) .nil .nil false rd (norm o) hk he
      (by simp [isGrp, printMore, tSEMI_k]) (by simp [inpFlag, hin]) (by simp [splitLast, redirOfBin_op])
  | cons b t =>
    have hgr : isGrp a = false := by cases a <;> simp_all [isGrp, grpAlone]
    have eq := toksMoreR_eq (opOfRedir rd) o (.cons b t) (by simp) (tSEMI :: rest)
    rw [eq]
    have hc : ∃ r, toksMoreR (opOfRedir rd) o (.cons b t) ++ tSEMI :: rest = tCOMMA :: r := by cases t <;> exact ⟨_, rfl⟩
    obtain ⟨r, ec⟩ := hc
    have he := pExpr_opnd a hw.1 tCOMMA r (by rw [tCOMMA_k]; exact stop_COMMA')
    rw [← ec] at he
    have hm := printMore_redir rd o hwo (.cons b t) (by simp) hw.2 _ rest (Nat.le_refl _)
    have hs := splitLast_resR rd o (.cons b t) (by simp)
    have hres : ∃ x y, resR (opOfRedir rd) o (.cons b t) = .cons x y := by cases t <;> exact ⟨_, _, rfl⟩
    obtain ⟨x, y, ex⟩ := hres
    rw [e0] at he ⊢
    simp only [List.cons_append] at he ⊢
    refine pp_args3 f t0 _ _ rest (norm a) (norm a) (resR (opOfRedir rd) o (.cons b t)) (normL (.cons b t)) false rd (norm o) hk he
      (by simp only [isGrp_norm, hgr, Bool.false_eq_true, if_false]; exact hm) (by rw [ex]; simp [inpFlag]) ?_
    rw [ex] at hs ⊢
    simp only [splitLast, hs]

theorem pp_noargs_redir (rd : Redir) (o : Ast) (hwo : WFparse o) (rest : List Tok) :
    parsePrint false (binTok (opOfRedir rd) :: (opnd o ++ tSEMI :: rest)) = .ok (.prt false .nil (some (rd, norm o)), rest) := by
  have he := pExpr_opnd o hwo tSEMI rest (by rw [tSEMI_k]; exact stop_SEMI)
  have h1 : isTermK (binTok (opOfRedir rd)).k = false := by cases rd <;> decide +kernel
  have h2 : redirOfTok (binTok (opOfRedir rd)).k = some rd := by cases rd <;> decide +kernel
  simp [parsePrint, h1, h2, he, tSEMI_k, endStmt]

theorem rt_prt_redir (f : Bool) (args : AstL) (hw : WFparseL args) (hf : f = true → args ≠ .nil) (hg : grpAlone args)
    (rd : Redir) (o : Ast) (hwo : WFparse o) : RT (.prt f args (some (rd, o))) := by
  intro outer d n rest hn _
  obtain ⟨m, rfl⟩ : ∃ m, n = m + 1 := ⟨n - 1, by simp [sz] at hn; omega⟩
  refine ⟨nlTok :: rest, ?_, dropNl_nl rest⟩
  cases args with
  | nil =>
    have hff : f = false := by
      cases f with
      | false => rfl
      | true => exact absurd rfl (hf rfl)
    subst hff
    have hp := pp_noargs_redir rd o hwo (nlTok :: rest)
    tk_simp
    simp only [sym, toksS, toksS_append, toksS_opx, redir_sym, Bool.false_eq_true, if_false, normL, List.append_assoc, List.cons_append, List.nil_append]
    rw [ps_print m outer _ _ rfl]; exact hp
  | cons a l =>
    have hp := pp_print_redir f a l hw hg rd o hwo (nlTok :: rest)
    tk_simp
    simp only [sym, toksS, toksS_append, toksS_opx, redir_sym, toks_argList, List.append_assoc, List.cons_append, List.nil_append, normL]
    cases f
    · simp only [Bool.false_eq_true, if_false]; rw [ps_print m outer _ _ rfl]; exact hp
    · simp only [if_true]; rw [ps_printf m outer _ _ rfl]; exact hp

/-! ### every statement tree -/

mutual
theorem rtS : (s : Stmt) → WFS s → RT s
  | .null, _ => rt_null
  | .blk nl body, h => by simp only [WFS] at h; exact rt_blk nl body h (rtSL body h)
  | .ift c t, h => by simp only [WFS] at h; exact rt_ift c t h.1 (rtS t h.2)
  | .ife c t e, h => by simp only [WFS] at h; exact rt_ife c t e h.1 h.2.2.2 (rtS t h.2.1) (rtS e h.2.2.1)
  | .whl c b, h => by simp only [WFS] at h; exact rt_whl c b h.1 (rtS b h.2)
  | .dowhl b c, h => by simp only [WFS] at h; exact rt_dowhl b c h.1 (rtS b h.2)
  | .for_ i t u b, h => by simp only [WFS] at h; exact rt_for i t u b h.1 h.2.1 h.2.2.1 (rtS b h.2.2.2)
  | .forin x b, h => by simp only [WFS] at h; exact rt_forin x b h.1 h.2.1 (rtS b h.2.2)
  | .brk, _ => rt_brk
  | .cont, _ => rt_cont
  | .ret v, h => by simp only [WFS] at h; exact rt_ret v h
  | .exit_ ab v, h => by simp only [WFS] at h; exact rt_exit ab v h
  | .next, _ => rt_next
  | .nextfile o, _ => rt_nextfile o
  | .del v, h => by simp only [WFS] at h; exact rt_del v h.1 h.2
  | .reset v, h => by simp only [WFS] at h; obtain ⟨nm, rfl⟩ := h; exact rt_reset nm
  | .prt f args out, h => by
    simp only [WFS] at h
    obtain ⟨h1, h3, h4, h5⟩ := h
    cases out with
    | none => exact rt_prt f args h1 h3 h4
    | some p => obtain ⟨rd, o⟩ := p; exact rt_prt_redir f args h1 h3 h4 rd o h5
  | .expr e, h => by simp only [WFS] at h; exact rt_expr e h
theorem rtSL : (l : StmtL) → WFSL l → RTL l
  | .nil, _ => rtl_nil
  | .cons s t, h => by simp only [WFSL] at h; exact rtl_cons s t h.1 h.2.1 h.2.2 (rtS s h.1) (rtSL t h.2.2)
end

end Hawk.Deparse
