/-
  C10 — out of memory is an error, never a crash or a leak.

  Three executable models (core Lean only):

  1. Unwind tables.  A constructor written in the hawk idiom
        x = alloc(...); if (!x) goto oops_N;   ...   oops_N: free(...); oops_M: ...
     is a list of steps (`Op`) and, per cleanup label, the ordered list of releases executed
     when control reaches that label (fall-through already expanded).  `run` executes a table
     against a failure oracle (which steps fail) and records what was acquired and what was
     released.  The tables themselves are *generated* from the C sources by extract/unwind.py
     into HawkModel/Gen/Unwind.lean on every check.

  2. gc_calloc_val / hawk_rtx_makemapval (lib/val.c): collect-then-retry on allocation failure.

  3. ecs (lib/ecs-imp.h, dynamic strings): setcapa / setlen / ncpy / ncat with the
     grow-or-fail logic and the capacity back-off loop of resize_for_ncat.
-/
namespace Hawk.Oom

/-! ## 1. unwind tables -/

abbrev Res := Nat
abbrev Label := Nat

/-- one step of a constructor body -/
inductive Op where
  /-- `x = acquire(...)`.  `onFail = some l`: `if (!x) goto l` follows immediately.
      `onFail = none`: the result is only stored (field stays null on failure) and tested later
      by a `check` (hawk_init's block of eight `*_open` calls). -/
  | acq (r : Res) (onFail : Option Label)
  /-- `if (r1 == NULL || r2 == NULL ...) goto l` -/
  | check (rs : List Res) (l : Label)
  /-- a fallible step that acquires nothing new at this level (what it allocates is owned by an
      already acquired container): `if (f(obj) <= -1) goto l` -/
  | guard (l : Label)
  /-- a fallible step whose failure is tolerated (`hawk_stdmodstartup`: "carry on regardless") -/
  | soft
deriving Repr, DecidableEq

/-- one release statement under a cleanup label -/
inductive Rel where
  /-- `release(x);` -/
  | always (r : Res)
  /-- `if (x) release(x);` (or a helper whose whole body is that guard) -/
  | ifSet (r : Res)
deriving Repr, DecidableEq

def Rel.res : Rel → Res
  | .always r => r
  | .ifSet r => r

structure Table where
  ops : List Op
  /-- `labels[l]` = every release executed, in order, once control reaches label `l` -/
  labels : List (List Rel)
deriving Repr, DecidableEq

structure Outcome where
  ok : Bool
  /-- resources acquired, in acquisition order -/
  acquired : List Res
  /-- resources released, in release order (a release of something not held is recorded too) -/
  released : List Res
deriving Repr, DecidableEq

/-- what one release statement does when `acq` is the set of resources actually held
    (fields are zero-initialised, so "field non-null" = "acquired") -/
def Rel.fire (acq : List Res) : Rel → List Res
  | .always r => [r]
  | .ifSet r => if r ∈ acq then [r] else []

def unwind (acq : List Res) (rels : List Rel) : List Res :=
  rels.flatMap (Rel.fire acq)

def jump (t : Table) (acq : List Res) (l : Label) : Outcome :=
  { ok := false, acquired := acq, released := unwind acq (t.labels.getD l []) }

/-- run the remaining steps; `i` is the index of the head step in the whole body and
    `fail i` says whether step `i` fails -/
def runFrom (t : Table) (fail : Nat → Bool) : List Op → Nat → List Res → Outcome
  | [], _, acq => { ok := true, acquired := acq, released := [] }
  | .acq r onFail :: rest, i, acq =>
      if fail i then
        match onFail with
        | some l => jump t acq l
        | none => runFrom t fail rest (i + 1) acq
      else runFrom t fail rest (i + 1) (acq ++ [r])
  | .check rs l :: rest, i, acq =>
      if rs.all (fun r => decide (r ∈ acq)) then runFrom t fail rest (i + 1) acq else jump t acq l
  | .guard l :: rest, i, acq =>
      if fail i then jump t acq l else runFrom t fail rest (i + 1) acq
  | .soft :: rest, i, acq => runFrom t fail rest (i + 1) acq

def run (t : Table) (fail : Nat → Bool) : Outcome := runFrom t fail t.ops 0 []

/-- "fail exactly the k-th step" -/
def failAt (k : Nat) : Nat → Bool := fun i => i == k
/-- "fail every step from the k-th on" -/
def failFrom (k : Nat) : Nat → Bool := fun i => decide (k ≤ i)

/-- resources a table can acquire, in program order -/
def resOf : List Op → List Res
  | [] => []
  | .acq r _ :: rest => r :: resOf rest
  | _ :: rest => resOf rest

def Table.resources (t : Table) : List Res := resOf t.ops

/-! ### the decidable well-formedness check

  Symbolic execution: `sure` = resources certainly held at this point, `maybe` = resources
  stored without a test (held or null).  Every failure target must release exactly that. -/

structure Sym where
  sure : List Res
  maybe : List Res
deriving Repr, DecidableEq

def nodupB : List Nat → Bool
  | [] => true
  | x :: xs => !(xs.contains x) && nodupB xs

/-- the release list `rels` is exact for the symbolic state `s` -/
def labelExact (s : Sym) (rels : List Rel) : Bool :=
  nodupB (rels.map Rel.res)
  && rels.all (fun x => match x with
      | .always r => s.sure.contains r
      | .ifSet _ => true)
  && s.sure.all (fun r => (rels.map Rel.res).contains r)
  && s.maybe.all (fun r => rels.contains (.ifSet r))

def labelOK (t : Table) (s : Sym) (l : Label) : Bool :=
  match t.labels[l]? with
  | some rels => labelExact s rels
  | none => false

def fresh (r : Res) (s : Sym) : Bool := !(s.sure.contains r) && !(s.maybe.contains r)

def wfFrom (t : Table) : List Op → Sym → Bool
  | [], s => s.maybe.isEmpty
  | .acq r (some l) :: rest, s =>
      fresh r s && labelOK t s l && wfFrom t rest { s with sure := s.sure ++ [r] }
  | .acq r none :: rest, s =>
      fresh r s && wfFrom t rest { s with maybe := s.maybe ++ [r] }
  | .check rs l :: rest, s =>
      labelOK t s l &&
      wfFrom t rest { sure := s.sure ++ s.maybe.filter (fun r => rs.contains r),
                      maybe := s.maybe.filter (fun r => !(rs.contains r)) }
  | .guard l :: rest, s => labelOK t s l && wfFrom t rest s
  | .soft :: rest, s => wfFrom t rest s

def Table.wf (t : Table) : Bool := wfFrom t t.ops { sure := [], maybe := [] }

/-- a generated constructor: the table plus the data the driver needs to relate step indices
    to allocator requests (`callees[i]` describes step `i`) -/
inductive Callee where
  | prim                    -- one allocator request
  | call (ctor : String)     -- another extracted constructor
  | opaque (fn : String)     -- a function that is not extracted (loops etc.); request count unknown
  | leaf (fn : String) (n : Nat) -- a function that is not extracted but makes exactly n requests, failing at the first refusal
  | none                    -- the step makes no request (check)
deriving Repr, DecidableEq

structure Ctor where
  name : String
  file : String
  table : Table
  callees : List Callee
  resNames : List String
deriving Repr

/-! ## 2. gc_calloc_val and hawk_rtx_makemapval / makearrval (lib/val.c) -/

/-- allocator oracle: answers for successive requests; exhausted = success -/
abbrev Oracle := List Bool

def Oracle.next : Oracle → Bool × Oracle
  | [] => (true, [])
  | b :: r => (b, r)

/-- rtx->gc.pressure[0..3], rtx->gc.threshold[0..2]  (HAWK_GC_NUM_GENS = 3) -/
structure Gc where
  p0 : Nat
  p1 : Nat
  p2 : Nat
  p3 : Nat
  t0 : Nat
  t1 : Nat
  t2 : Nat
deriving Repr, DecidableEq

inductive GcEv where
  | collect (gen : Nat)
  | request (granted : Bool)
  | freeVal            -- gc_free_val of the half-built value (makemapval/makearrval)
deriving Repr, DecidableEq

/-- bookkeeping at the end of gc_collect_garbage_in_generation:
    `pressure[gen+1]++; pressure[gen] = 0; pressure[0] = 0;` -/
def Gc.collected (g : Gc) (gen : Nat) : Gc :=
  match gen with
  | 0 => { g with p1 := g.p1 + 1, p0 := 0 }
  | 1 => { g with p2 := g.p2 + 1, p1 := 0, p0 := 0 }
  | _ => { g with p3 := g.p3 + 1, p2 := 0, p0 := 0 }

/-- gc_collect_garbage_auto: `i = 3; while (i > 1) { --i; if (pressure[i] >= threshold[i]) { collect i; return i } } collect 0; return 0` -/
def Gc.autoGen (g : Gc) : Nat :=
  if g.p2 ≥ g.t2 then 2 else if g.p1 ≥ g.t1 then 1 else 0

structure CallocRes where
  gc : Gc
  granted : Bool
  evs : List GcEv
  rest : Oracle
deriving Repr, DecidableEq

/-- gc_calloc_val, branch by branch -/
def gcCallocVal (g : Gc) (o : Oracle) : CallocRes :=
  -- if (pressure[0] >= threshold[0]) gc_gen = gc_collect_garbage_auto(rtx);
  let (g1, gen, ev1) :=
    if g.p0 ≥ g.t0 then (g.collected g.autoGen, g.autoGen, [GcEv.collect g.autoGen]) else (g, 0, [])
  match o.next with
  | (true, o1) => { gc := { g1 with p0 := g1.p0 + 1 }, granted := true, evs := ev1 ++ [.request true], rest := o1 }
  | (false, o1) =>
    -- if (gc_gen < NUM_GENS - 1) hawk_rtx_gc(rtx, NUM_GENS - 1);
    let (g2, ev2) := if gen < 2 then (g1.collected 2, [GcEv.collect 2]) else (g1, [])
    match o1.next with
    | (true, o2) => { gc := { g2 with p0 := g2.p0 + 1 }, granted := true,
                      evs := ev1 ++ [.request false] ++ ev2 ++ [.request true], rest := o2 }
    | (false, o2) => { gc := g2, granted := false,
                       evs := ev1 ++ [.request false] ++ ev2 ++ [.request false], rest := o2 }

def requests (evs : List GcEv) : Nat := (evs.filter (fun e => match e with | .request _ => true | _ => false)).length
def grants (evs : List GcEv) : Nat := (evs.filter (fun e => match e with | .request true => true | _ => false)).length
def collects (evs : List GcEv) : Nat := (evs.filter (fun e => match e with | .collect _ => true | _ => false)).length
def frees (evs : List GcEv) : Nat := (evs.filter (fun e => match e with | .freeVal => true | _ => false)).length

/-- hawk_rtx_makemapval / hawk_rtx_makearrval:
      retry: val = gc_calloc_val(); if (!val) return NULL;
             if (container_init(val) <= -1) { gc_free_val(val); if (!retried) { full gc; retried = 1; goto retry; } return NULL; }
    `retried` is the C flag; the recursion is the `goto retry`. -/
def makeContainerVal (g : Gc) (retried : Bool) (o : Oracle) : CallocRes :=
  let r := gcCallocVal g o
  if !r.granted then r
  else
    match r.rest.next with
    | (true, o2) => { r with evs := r.evs ++ [.request true], rest := o2 }
    | (false, o2) =>
      if retried then
        { gc := r.gc, granted := false, evs := r.evs ++ [.request false, .freeVal], rest := o2 }
      else
        let r2 := makeContainerVal (r.gc.collected 2) true o2
        { r2 with evs := r.evs ++ [.request false, .freeVal, .collect 2] ++ r2.evs }
termination_by (if retried then 0 else 1)
decreasing_by all_goals simp_all

/-! ## 3. ecs: dynamic strings (lib/ecs-imp.h) -/

inductive EcsErr where
  | enomem
deriving Repr, DecidableEq

/-- `val.ptr` (null or a buffer holding `chars`, `chars.length = val.len`), `capa` -/
structure Ecs where
  chars : List Nat
  capa : Nat
  hasPtr : Bool
deriving Repr, DecidableEq

def Ecs.len (e : Ecs) : Nat := e.chars.length

structure EcsRes where
  ecs : Ecs
  ret : Except EcsErr Nat
  rest : Oracle
deriving Repr

/-- FN(init): capa = 0 → no buffer, no request -/
def Ecs.init (capa : Nat) (o : Oracle) : EcsRes :=
  if capa = 0 then { ecs := { chars := [], capa := 0, hasPtr := false }, ret := .ok 0, rest := o }
  else
    match o.next with
    | (true, o1) => { ecs := { chars := [], capa := capa, hasPtr := true }, ret := .ok 0, rest := o1 }
    | (false, o1) => { ecs := { chars := [], capa := 0, hasPtr := false }, ret := .error .enomem, rest := o1 }

/-- FN(setcapa) -/
def Ecs.setcapa (e : Ecs) (capa : Nat) (o : Oracle) : EcsRes :=
  if capa = e.capa then { ecs := e, ret := .ok capa, rest := o }
  else
    match o.next with
    | (false, o1) => { ecs := e, ret := .error .enomem, rest := o1 }
    | (true, o1) =>
      { ecs := { chars := if capa < e.len then e.chars.take capa else e.chars, capa := capa, hasPtr := true },
        ret := .ok capa, rest := o1 }

/-- FN(setlen): pads with blanks (32) -/
def Ecs.setlen (e : Ecs) (len : Nat) (o : Oracle) : EcsRes :=
  if len = e.len then { ecs := e, ret := .ok len, rest := o }
  else if len < e.len then { ecs := { e with chars := e.chars.take len }, ret := .ok len, rest := o }
  else
    let r := if len > e.capa then e.setcapa len o else { ecs := e, ret := .ok e.capa, rest := o }
    match r.ret with
    | .error x => { ecs := e, ret := .error x, rest := r.rest }
    | .ok _ =>
      { ecs := { r.ecs with chars := r.ecs.chars ++ List.replicate (len - r.ecs.len) 32 }, ret := .ok len, rest := r.rest }

/-- FN(ncpy) -/
def Ecs.ncpy (e : Ecs) (s : List Nat) (o : Oracle) : EcsRes :=
  let len := s.length
  let r := if len > e.capa ∨ e.capa = 0
           then e.setcapa (if e.capa = 0 ∧ len = 0 then 1 else len) o
           else { ecs := e, ret := .ok e.capa, rest := o }
  match r.ret with
  | .error x => { ecs := e, ret := .error x, rest := r.rest }
  | .ok _ => { ecs := { r.ecs with chars := s }, ret := .ok len, rest := r.rest }

/-- the back-off loop of resize_for_ncat:
      do { if (setcapa(ncapa) != -1) break; if (ncapa <= mincapa) return -1; ncapa--; } while (1) -/
def Ecs.growLoop (e : Ecs) (ncapa mincapa : Nat) (o : Oracle) : EcsRes :=
  let r := e.setcapa ncapa o
  match r.ret with
  | .ok c => { ecs := r.ecs, ret := .ok c, rest := r.rest }
  | .error x =>
    if h : ncapa ≤ mincapa then { ecs := e, ret := .error x, rest := r.rest }
    else Ecs.growLoop e (ncapa - 1) mincapa r.rest
termination_by ncapa - mincapa
decreasing_by omega

/-- resize_for_ncat with no sizer callback (hawk never installs one on the strings it owns) -/
def Ecs.resizeForNcat (e : Ecs) (len : Nat) (o : Oracle) : EcsRes :=
  if len > e.capa - e.len then
    let mincapa := e.len + len
    let ncapa := if mincapa < e.capa * 2 then e.capa * 2 else mincapa
    e.growLoop ncapa mincapa o
  else if e.capa = 0 ∧ len = 0 then e.setcapa 1 o
  else { ecs := e, ret := .ok e.capa, rest := o }

/-- FN(ncat) -/
def Ecs.ncat (e : Ecs) (s : List Nat) (o : Oracle) : EcsRes :=
  let r := e.resizeForNcat s.length o
  match r.ret with
  | .error x => { ecs := e, ret := .error x, rest := r.rest }
  | .ok _ =>
    let room := r.ecs.capa - r.ecs.len
    let s' := if s.length > room then s.take room else s
    { ecs := { r.ecs with chars := r.ecs.chars ++ s' }, ret := .ok (r.ecs.len + s'.length), rest := r.rest }

/-- FN(nrcat): appends the characters in reverse order -/
def Ecs.nrcat (e : Ecs) (s : List Nat) (o : Oracle) : EcsRes :=
  let r := e.resizeForNcat s.length o
  match r.ret with
  | .error x => { ecs := e, ret := .error x, rest := r.rest }
  | .ok _ =>
    let room := r.ecs.capa - r.ecs.len
    let s' := if s.length > room then s.take room else s
    { ecs := { r.ecs with chars := r.ecs.chars ++ s'.reverse }, ret := .ok (r.ecs.len + s'.length), rest := r.rest }

/-- FN(nccat): `while (len > 0) { if (ncat(&c, 1) == -1) return -1; len--; }` — one character at a time -/
def Ecs.nccat (e : Ecs) (c : Nat) : Nat → Oracle → EcsRes
  | 0, o => { ecs := e, ret := .ok e.len, rest := o }
  | n + 1, o =>
    let r := e.ncat [c] o
    match r.ret with
    | .error x => { ecs := r.ecs, ret := .error x, rest := r.rest }
    | .ok _ => Ecs.nccat r.ecs c n r.rest

/-- FN(del) -/
def Ecs.del (e : Ecs) (index size : Nat) : Ecs :=
  if e.hasPtr ∧ index < e.len ∧ size > 0 then
    if index + size ≥ e.len then { e with chars := e.chars.take index }
    else { e with chars := e.chars.take index ++ e.chars.drop (index + size) }
  else e

/-- `HAWK_MEMMOVE(&ptr[pos], repl, repl_len)` -/
def overwrite (l : List Nat) (pos : Nat) (repl : List Nat) : List Nat :=
  l.take pos ++ repl ++ l.drop (pos + repl.length)

/-- FN(amend): replace `len` characters at `pos` by `repl` -/
def Ecs.amend (e : Ecs) (pos len : Nat) (repl : List Nat) (o : Oracle) : EcsRes :=
  let pos := if pos ≥ e.len then e.len else pos
  let len := if len > e.len - pos then e.len - pos else len
  if len > repl.length then
    let e1 := e.del pos (len - repl.length)
    let e2 := if repl.length > 0 then { e1 with chars := overwrite e1.chars pos repl } else e1
    { ecs := e2, ret := .ok e2.len, rest := o }
  else if len < repl.length then
    let r := e.setlen (e.len + repl.length - len) o
    match r.ret with
    | .error x => { ecs := e, ret := .error x, rest := r.rest }
    | .ok _ =>
      -- memmove of the old tail [pos+len, old_len) to pos+repl_len, then the replacement
      let moved := r.ecs.chars.take (pos + repl.length) ++ e.chars.drop (pos + len)
      let e2 := { r.ecs with chars := overwrite moved pos repl }
      { ecs := e2, ret := .ok e2.len, rest := r.rest }
  else
    let e2 := if repl.length > 0 then { e with chars := overwrite e.chars pos repl } else e
    { ecs := e2, ret := .ok e2.len, rest := o }

/-- FN(clear) -/
def Ecs.clear (e : Ecs) : Ecs := { e with chars := [] }

/-- the representation invariant: the contents fit, and a buffer exists whenever capa > 0 -/
def Ecs.WF (e : Ecs) : Prop := e.len ≤ e.capa ∧ (e.capa > 0 → e.hasPtr = true)

end Hawk.Oom
