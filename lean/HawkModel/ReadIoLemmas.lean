import HawkModel.ReadIo
/-!
# Specification of record splitting and the lemmas that tie `ReadIo` to it

* `stepChar` / `runAuto`: for the three non-regex modes the record reader, seen one character at a time, is an
  automaton on (record buffer, locals); `scanBuf` (which works on buffer slices) is shown equal to running it.
* `specRecord` / `specAll`: the declarative splitter — a function of the *characters* only.
* `Stable`: the hypothesis under which the regex mode is chunk independent.
-/
namespace Hawk.ReadIo

/-! ## the character-level automaton (modes dflt, single, para) -/

abbrev AState := Record × Locals

inductive AStep where
  | cont (s : AState)
  | done (r : Record)

def stepChar : Mode → AState → Char → AStep
  | .dflt, (rb, loc), ch =>
    if ch = '\n' then .done (if loc.c = '\r' then rb.dropLast else rb) else .cont (rb ++ [ch], { loc with c := ch })
  | .single rs, (rb, loc), ch =>
    if ch = rs then .done rb else .cont (rb ++ [ch], { loc with c := ch })
  | .para crlf, (rb, loc), ch =>
    match paraStep crlf ⟨rb, loc.c, loc.lineLen⟩ ch with
    | (s, true) => .done s.rb
    | (s, false) => .cont (s.rb, ⟨s.c, s.lineLen⟩)
  | .regex _, (rb, loc), ch => .cont (rb ++ [ch], loc)

inductive ARun where
  /-- all characters consumed, record not complete -/
  | more (s : AState)
  /-- record complete; the characters not consumed -/
  | found (r : Record) (rest : List Char)

def runAuto (mode : Mode) : AState → List Char → ARun
  | s, [] => .more s
  | s, ch :: t =>
    match stepChar mode s ch with
    | .done r => .found r t
    | .cont s' => runAuto mode s' t

theorem runAuto_append (mode : Mode) (s : AState) (a b : List Char) :
    runAuto mode s (a ++ b) =
      match runAuto mode s a with
      | .found r rest => .found r (rest ++ b)
      | .more s' => runAuto mode s' b := by
  induction a generalizing s with
  | nil => simp [runAuto]
  | cons ch a ih =>
    simp only [List.cons_append, runAuto]
    cases stepChar mode s ch with
    | done r => simp
    | cont s' => simpa using ih s'

theorem runAuto_found_suffix {mode : Mode} {s : AState} {t : List Char} {r : Record} {rest : List Char}
    (h : runAuto mode s t = .found r rest) : ∃ pre, t = pre ++ rest ∧ pre ≠ [] := by
  induction t generalizing s with
  | nil => simp [runAuto] at h
  | cons ch t ih =>
    simp only [runAuto] at h
    cases hs : stepChar mode s ch with
    | done r' =>
      rw [hs] at h
      simp only [ARun.found.injEq] at h
      exact ⟨[ch], by simp [h.2], by simp⟩
    | cont s' =>
      rw [hs] at h
      obtain ⟨pre, hp, _⟩ := ih h
      exact ⟨ch :: pre, by simp [hp], by simp⟩

theorem runAuto_found_length {mode : Mode} {s : AState} {t : List Char} {r : Record} {rest : List Char}
    (h : runAuto mode s t = .found r rest) : rest.length < t.length := by
  obtain ⟨pre, hp, hne⟩ := runAuto_found_suffix h
  subst hp
  have : 0 < pre.length := List.length_pos_iff.mpr hne
  simp; omega

/-! ## `scanBuf` is the automaton run over the unread part of the buffer -/

/-- what `scanBuf` must return given the automaton's answer on `st.buf.drop st.pos` -/
def scanOfRun (st : InState) : ARun → Scan
  | .found r rest => .found r (st.len - rest.length)
  | .more (r, l) => .more r l

theorem dfltLoop_spec (start ll : Nat) (rb : Record) :
    ∀ (rest mid : List Char) (c : Char) (r : DfltScan), (mid ≠ [] → mid.getLast? = some c) →
      dfltLoop start rest (start + mid.length) c = r →
      match runAuto .dflt (rb ++ mid, ⟨c, ll⟩) rest with
      | .found rr rest' =>
        r.endPos < start + mid.length + rest.length ∧
        r.pos = start + mid.length + rest.length - rest'.length ∧
        (if r.dropCR then rb.dropLast else rb) ++ (mid ++ rest).take (r.endPos - start) = rr
      | .more (rr, l) =>
        r.endPos = start + mid.length + rest.length ∧ r.dropCR = false ∧
        rr = rb ++ mid ++ rest ∧ l = ⟨r.c, ll⟩ := by
  intro rest
  induction rest with
  | nil =>
    intro mid c r _ hr
    subst hr
    simp [runAuto, dfltLoop]
  | cons ch rest ih =>
    intro mid c r hc hr
    by_cases hnl : ch = '\n'
    · subst hnl
      simp only [runAuto, stepChar, if_true]
      simp only [dfltLoop, if_true] at hr
      by_cases hcr : c = '\r'
      · subst hcr
        by_cases hmid : mid = []
        · subst hmid
          subst hr
          simp <;> omega
        · have hpos : 0 < mid.length := List.length_pos_iff.mpr hmid
          have h1 : start + mid.length + 1 - 1 > start := by omega
          simp only [h1, if_true] at hr
          subst hr
          simp only [Bool.false_eq_true, if_false, if_true]
          refine ⟨by simp; omega, by simp <;> omega, ?_⟩
          have h2 : start + mid.length + 1 - 1 - 1 - start = mid.length - 1 := by omega
          rw [h2, List.take_append_of_le_length (by omega), ← List.dropLast_eq_take,
            List.dropLast_append_of_ne_nil hmid]
      · simp only [hcr, if_false] at hr
        subst hr
        simp only [hcr, if_false, Bool.false_eq_true]
        refine ⟨by simp, by simp <;> omega, ?_⟩
        have h2 : start + mid.length + 1 - 1 - start = mid.length := by omega
        rw [h2]; simp
    · have hstep : stepChar .dflt (rb ++ mid, ⟨c, ll⟩) ch = .cont (rb ++ (mid ++ [ch]), ⟨ch, ll⟩) := by
        simp [stepChar, hnl]
      simp only [runAuto, hstep]
      simp only [dfltLoop, hnl, if_false] at hr
      have e1 : start + (mid ++ [ch]).length = start + mid.length + 1 := by simp [Nat.add_assoc]
      have := ih (mid ++ [ch]) ch r (by intro _; simp) (by rw [e1]; exact hr)
      cases hrun : runAuto .dflt (rb ++ (mid ++ [ch]), ⟨ch, ll⟩) rest with
      | found rr rest' =>
        rw [hrun] at this
        simp only [List.length_append, List.append_assoc, List.singleton_append,
          List.length_cons, List.length_nil, Nat.zero_add] at this ⊢
        obtain ⟨a, b, c'⟩ := this
        exact ⟨by omega, by omega, c'⟩
      | more s =>
        obtain ⟨rr, l⟩ := s
        rw [hrun] at this
        simp only [List.length_append, List.append_assoc, List.singleton_append,
          List.length_cons, List.length_nil, Nat.zero_add] at this ⊢
        obtain ⟨a, b, c', d⟩ := this
        exact ⟨by omega, b, c', d⟩

theorem singleLoop_spec (rs : Char) (start ll : Nat) (rb : Record) :
    ∀ (rest mid : List Char) (c : Char) (r : Nat × Nat × Char),
      singleLoop rs rest (start + mid.length) c = r →
      match runAuto (.single rs) (rb ++ mid, ⟨c, ll⟩) rest with
      | .found rr rest' =>
        r.1 < start + mid.length + rest.length ∧
        r.2.1 = start + mid.length + rest.length - rest'.length ∧
        rb ++ (mid ++ rest).take (r.1 - start) = rr
      | .more (rr, l) =>
        r.1 = start + mid.length + rest.length ∧ rr = rb ++ mid ++ rest ∧ l = ⟨r.2.2, ll⟩ := by
  intro rest
  induction rest with
  | nil =>
    intro mid c r hr
    subst hr
    simp [runAuto, singleLoop]
  | cons ch rest ih =>
    intro mid c r hr
    by_cases hnl : ch = rs
    · subst hnl
      simp only [runAuto, stepChar, if_true]
      simp only [singleLoop, if_true] at hr
      subst hr
      refine ⟨by simp, by simp <;> omega, ?_⟩
      have h2 : start + mid.length + 1 - 1 - start = mid.length := by omega
      simp only [h2]; simp
    · have hstep : stepChar (.single rs) (rb ++ mid, ⟨c, ll⟩) ch = .cont (rb ++ (mid ++ [ch]), ⟨ch, ll⟩) := by
        simp [stepChar, hnl]
      simp only [runAuto, hstep]
      simp only [singleLoop, hnl, if_false] at hr
      have e1 : start + (mid ++ [ch]).length = start + mid.length + 1 := by simp [Nat.add_assoc]
      have := ih (mid ++ [ch]) ch r (by rw [e1]; exact hr)
      cases hrun : runAuto (.single rs) (rb ++ (mid ++ [ch]), ⟨ch, ll⟩) rest with
      | found rr rest' =>
        rw [hrun] at this
        simp only [List.length_append, List.append_assoc, List.singleton_append,
          List.length_cons, List.length_nil, Nat.zero_add] at this ⊢
        obtain ⟨a, b, c'⟩ := this
        exact ⟨by omega, by omega, c'⟩
      | more s =>
        obtain ⟨rr, l⟩ := s
        rw [hrun] at this
        simp only [List.length_append, List.append_assoc, List.singleton_append,
          List.length_cons, List.length_nil, Nat.zero_add] at this ⊢
        obtain ⟨a, c', d⟩ := this
        exact ⟨by omega, c', d⟩

theorem paraLoop_spec (crlf : Bool) :
    ∀ (rest : List Char) (pos : Nat) (s : ParaSt),
      match runAuto (.para crlf) (s.rb, ⟨s.c, s.lineLen⟩) rest with
      | .found rr rest' =>
        ∃ s', paraLoop crlf rest pos s = (s', pos + rest.length - rest'.length, true) ∧ s'.rb = rr
      | .more (rr, l) => paraLoop crlf rest pos s = (⟨rr, l.c, l.lineLen⟩, pos + rest.length, false) := by
  intro rest
  induction rest with
  | nil => intro pos s; simp [runAuto, paraLoop]
  | cons ch rest ih =>
    intro pos s
    simp only [runAuto, stepChar, paraLoop]
    rcases hp : paraStep crlf s ch with ⟨s', d⟩
    cases d with
    | true =>
      simp only
      exact ⟨s', by simp <;> omega, rfl⟩
    | false =>
      simp only
      have := ih (pos + 1) s'
      cases hrun : runAuto (.para crlf) (s'.rb, ⟨s'.c, s'.lineLen⟩) rest with
      | found rr rest' =>
        rw [hrun] at this
        obtain ⟨s'', h1, h2⟩ := this
        refine ⟨s'', ?_, h2⟩
        rw [h1]
        have := runAuto_found_length hrun
        simp only [List.length_cons, Prod.mk.injEq, and_true, true_and]
        omega
      | more sl =>
        obtain ⟨rr, l⟩ := sl
        rw [hrun] at this
        simp only at this ⊢
        rw [this]
        simp only [List.length_cons, Prod.mk.injEq, and_true, true_and]
        omega

/-- `scanBuf` = the automaton run over the unread part of the buffer (non-regex modes) -/
theorem scanBuf_dflt (rb : Record) (loc : Locals) (st : InState) :
    scanBuf .dflt rb loc st = scanOfRun st (runAuto .dflt (rb, loc) (st.buf.drop st.pos)) := by
  have h := dfltLoop_spec st.pos loc.lineLen rb (st.buf.drop st.pos) [] loc.c _ (by simp) rfl
  simp only [List.append_nil, List.length_nil, Nat.add_zero, List.nil_append, List.length_drop] at h
  simp only [scanBuf]
  cases hrun : runAuto .dflt (rb, loc) (st.buf.drop st.pos) with
  | found rr rest' =>
    have hl := runAuto_found_length hrun
    simp only [List.length_drop] at hl
    rw [show (rb, loc) = (rb, (⟨loc.c, loc.lineLen⟩ : Locals)) from rfl] at hrun
    rw [hrun] at h
    obtain ⟨h1, h2, h3⟩ := h
    have : (dfltLoop st.pos (st.buf.drop st.pos) st.pos loc.c).endPos < st.len := by
      simp only [InState.len]; omega
    simp only [this, if_true, scanOfRun, h3, h2]
    congr 1
    simp only [InState.len]; omega
  | more s =>
    obtain ⟨rr, l⟩ := s
    rw [show (rb, loc) = (rb, (⟨loc.c, loc.lineLen⟩ : Locals)) from rfl] at hrun
    rw [hrun] at h
    obtain ⟨h1, h2, h3, h4⟩ := h
    have : ¬ (dfltLoop st.pos (st.buf.drop st.pos) st.pos loc.c).endPos < st.len := by
      simp only [InState.len]; omega
    simp only [this, if_false, scanOfRun, h2, Bool.false_eq_true, h3, h4]
    congr 1
    rw [h1, List.take_of_length_le (by simp)]

theorem scanBuf_single (rs : Char) (rb : Record) (loc : Locals) (st : InState) :
    scanBuf (.single rs) rb loc st = scanOfRun st (runAuto (.single rs) (rb, loc) (st.buf.drop st.pos)) := by
  have h := singleLoop_spec rs st.pos loc.lineLen rb (st.buf.drop st.pos) [] loc.c _ rfl
  simp only [List.append_nil, List.length_nil, Nat.add_zero, List.nil_append, List.length_drop] at h
  simp only [scanBuf]
  rcases hl : singleLoop rs (st.buf.drop st.pos) st.pos loc.c with ⟨e, p, c⟩
  rw [hl] at h
  simp only at h ⊢
  cases hrun : runAuto (.single rs) (rb, loc) (st.buf.drop st.pos) with
  | found rr rest' =>
    have hlen := runAuto_found_length hrun
    simp only [List.length_drop] at hlen
    rw [show (rb, loc) = (rb, (⟨loc.c, loc.lineLen⟩ : Locals)) from rfl] at hrun
    rw [hrun] at h
    obtain ⟨h1, h2, h3⟩ := h
    have : e < st.len := by simp only [InState.len]; omega
    simp only [this, if_true, scanOfRun, h3, h2]
    congr 1
    simp only [InState.len]; omega
  | more s =>
    obtain ⟨rr, l⟩ := s
    rw [show (rb, loc) = (rb, (⟨loc.c, loc.lineLen⟩ : Locals)) from rfl] at hrun
    rw [hrun] at h
    obtain ⟨h1, h3, h4⟩ := h
    have : ¬ e < st.len := by simp only [InState.len]; omega
    simp only [this, if_false, scanOfRun, h3, h4]
    congr 1
    rw [h1, List.take_of_length_le (by simp)]

theorem scanBuf_para (crlf : Bool) (rb : Record) (loc : Locals) (st : InState) :
    scanBuf (.para crlf) rb loc st = scanOfRun st (runAuto (.para crlf) (rb, loc) (st.buf.drop st.pos)) := by
  have h := paraLoop_spec crlf (st.buf.drop st.pos) st.pos ⟨rb, loc.c, loc.lineLen⟩
  simp only [scanBuf]
  cases hrun : runAuto (.para crlf) (rb, loc) (st.buf.drop st.pos) with
  | found rr rest' =>
    have hlen := runAuto_found_length hrun
    simp only [List.length_drop] at hlen
    rw [show (rb, loc) = (rb, (⟨loc.c, loc.lineLen⟩ : Locals)) from rfl] at hrun
    simp only at h
    rw [hrun] at h
    obtain ⟨s', h1, h2⟩ := h
    rw [h1]
    simp only [scanOfRun, h2, List.length_drop]
    congr 1
    simp only [InState.len]; omega
  | more s =>
    obtain ⟨rr, l⟩ := s
    rw [show (rb, loc) = (rb, (⟨loc.c, loc.lineLen⟩ : Locals)) from rfl] at hrun
    simp only at h
    rw [hrun] at h
    rw [h]
    simp [scanOfRun]

/-- modes whose record reader is the character automaton -/
def Mode.isAuto : Mode → Bool
  | .regex _ => false
  | _ => true

theorem scanBuf_auto {mode : Mode} (hm : mode.isAuto) (rb : Record) (loc : Locals) (st : InState) :
    scanBuf mode rb loc st = scanOfRun st (runAuto mode (rb, loc) (st.buf.drop st.pos)) := by
  cases mode with
  | dflt => exact scanBuf_dflt rb loc st
  | single rs => exact scanBuf_single rs rb loc st
  | para crlf => exact scanBuf_para crlf rb loc st
  | regex m => simp [Mode.isAuto] at hm

/-! ## `fill` and `readFrom` against the automaton run over the pending characters -/

/-- invariant of the read buffer: once EOF has been seen the buffer is used up -/
def WF (st : InState) : Prop := st.eof = true → st.len ≤ st.pos

theorem delivered_nil : delivered [] = [] := rfl

theorem delivered_cons_nil (cs : Stream) : delivered ([] :: cs) = [] := by
  simp [delivered]

theorem delivered_cons {c : Chunk} (hc : c ≠ []) (cs : Stream) : delivered (c :: cs) = c ++ delivered cs := by
  simp [delivered, hc]

theorem delivered_of_noEmpty {cs : Stream} (h : ∀ c ∈ cs, c ≠ []) : delivered cs = cs.flatten := by
  induction cs with
  | nil => rfl
  | cons c cs ih =>
    rw [delivered_cons (h c (by simp)), ih (fun c hc => h c (by simp [hc]))]
    simp

theorem pending_eof {st : InState} {cs : Stream} (h1 : st.eof = true) (h2 : st.len ≤ st.pos) :
    pending st cs = [] := by
  simp only [pending, h1, if_true, List.append_nil]
  exact List.drop_eq_nil_iff.mpr h2

/-- what an outcome must look like given the automaton's answer on the pending characters -/
def OutSpec (mode : Mode) (o : Out) : ARun → Prop
  | .found r rest => ∃ st' cs', o = .got r st' cs' ∧ st'.eof = false ∧ pending st' cs' = rest
  | .more (r, l) =>
    if r = [] then ∃ st', o = .eofEmpty l st' ∧ st'.eof = true ∧ st'.len ≤ st'.pos
    else ∃ st', o = .got (finalize mode r st') st' [] ∧ st'.eof = true ∧ st'.len ≤ st'.pos

theorem atEof_spec (mode : Mode) (rb : Record) (loc : Locals) (st : InState) (h : st.len ≤ st.pos) :
    OutSpec mode (atEof mode rb loc st) (.more (rb, loc)) := by
  simp only [OutSpec, atEof]
  by_cases hr : rb = []
  · simp only [hr, if_true]
    exact ⟨_, rfl, rfl, h⟩
  · simp only [hr, if_false]
    exact ⟨_, rfl, rfl, h⟩

theorem fill_auto {mode : Mode} (hm : mode.isAuto) :
    ∀ (cs : Stream) (rb : Record) (loc : Locals) (st : InState), st.len ≤ st.pos →
      OutSpec mode (fill mode rb loc st cs) (runAuto mode (rb, loc) (delivered cs)) := by
  intro cs
  induction cs with
  | nil =>
    intro rb loc st h
    simpa [fill, delivered_nil, runAuto] using atEof_spec mode rb loc st h
  | cons c cs ih =>
    intro rb loc st h
    by_cases hc : c = []
    · subst hc
      simpa [fill, delivered_cons_nil, runAuto] using atEof_spec mode rb loc st h
    · simp only [fill, hc, if_false, delivered_cons hc, runAuto_append]
      rw [scanBuf_auto hm]
      simp only [List.drop_zero]
      cases hrun : runAuto mode (rb, loc) c with
      | found r rest =>
        simp only [scanOfRun, OutSpec]
        refine ⟨_, _, rfl, rfl, ?_⟩
        obtain ⟨pre, hp, _⟩ := runAuto_found_suffix hrun
        simp only [pending, InState.len, Bool.false_eq_true, if_false]
        subst hp
        simp
      | more s =>
        obtain ⟨r, l⟩ := s
        simp only [scanOfRun]
        exact ih r l _ (by simp [InState.len])

theorem readFrom_auto {mode : Mode} (hm : mode.isAuto) (loc : Locals) (st : InState) (cs : Stream) (hwf : WF st) :
    OutSpec mode (readFrom loc mode st cs) (runAuto mode ([], loc) (pending st cs)) := by
  unfold readFrom
  by_cases hp : st.pos ≥ st.len
  · simp only [hp, if_true]
    by_cases he : st.eof = true
    · simp only [he, if_true, pending_eof he hp, runAuto, OutSpec]
      exact ⟨_, rfl, he, hp⟩
    · have hd : st.buf.drop st.pos = [] := List.drop_eq_nil_iff.mpr hp
      simp only [he, if_false, pending, hd, List.nil_append, Bool.false_eq_true]
      exact fill_auto hm cs [] loc st hp
  · have he : st.eof = false := by
      cases h : st.eof with
      | false => rfl
      | true => exact absurd (hwf h) (by omega)
    simp only [hp, if_false, pending, he, Bool.false_eq_true, runAuto_append]
    rw [scanBuf_auto hm]
    cases hrun : runAuto mode ([], loc) (st.buf.drop st.pos) with
    | found r rest =>
      simp only [scanOfRun, OutSpec]
      refine ⟨_, _, rfl, by simp, ?_⟩
      obtain ⟨pre, hp', _⟩ := runAuto_found_suffix hrun
      have hlen := congrArg List.length hp'
      simp only [List.length_drop, List.length_append] at hlen
      simp only [InState.len] at hp
      simp only [pending, Bool.false_eq_true, if_false, InState.len]
      congr 1
      have : st.buf.length - rest.length = st.pos + pre.length := by omega
      rw [this, ← List.drop_drop, hp']
      simp
    | more s =>
      obtain ⟨r, l⟩ := s
      simp only [scanOfRun]
      exact fill_auto hm cs r l _ (by simp [InState.len])

/-! ## regex mode -/

/-- Whether the text has a match that ends strictly inside its first `|t|` characters, and which one, is decided by
these `|t|` characters alone: such a match of `t` is still the match after text is appended, and such a match of the
longer text was already the match of `t`. -/
def Stable (m : Matcher) : Prop :=
  ∀ (t u : List Char) (i l : Nat), i + l < t.length → (m t = some (i, l) ↔ m (t ++ u) = some (i, l))

/-- every match found has consumed at least one character (excludes RS that match the empty string at offset 0) -/
def Progress (m : Matcher) : Prop := ∀ (t : List Char) (i l : Nat), m t = some (i, l) → 0 < i + l

/-- loop invariant of the regex branch: the match of the record buffer, if any, touches its end -/
def NoInterior (m : Matcher) (rb : Record) : Prop := ∀ i l, m rb = some (i, l) → rb.length ≤ i + l

/-- what one call returns in regex mode when the pending characters are `t` -/
def RegexSpec (m : Matcher) (o : Out) (loc : Locals) (t : List Char) : Prop :=
  if t = [] then ∃ st', o = .eofEmpty loc st' ∧ st'.eof = true ∧ st'.len ≤ st'.pos
  else match m t with
    | some (i, l) =>
      if i + l < t.length then
        ∃ st' cs', o = .got (t.take i) st' cs' ∧ st'.eof = false ∧ pending st' cs' = t.drop (i + l)
      else ∃ st', o = .got (t.take (t.length - l)) st' [] ∧ st'.eof = true ∧ st'.len ≤ st'.pos
    | none => ∃ st', o = .got t st' [] ∧ st'.eof = true ∧ st'.len ≤ st'.pos

theorem matchLongRs_noeof (m : Matcher) (rb : Record) (st : InState) (he : st.eof = false) :
    matchLongRs m rb st =
      match m rb with
      | none => none
      | some (ms, ml) =>
        if ms + ml < rb.length then
          some (rb.take ms, if rb.length - (ms + ml) ≤ st.pos then st.pos - (rb.length - (ms + ml)) else st.len)
        else none := by
  unfold matchLongRs
  cases hm : m rb with
  | none => rfl
  | some p =>
    obtain ⟨ms, ml⟩ := p
    simp only [he, Bool.false_eq_true, if_false]
    by_cases h : ms + ml < rb.length
    · simp only [h, if_true]
      have : rb.length - (ml + (rb.length - (ms + ml))) = ms := by omega
      rw [this]
    · simp [h]

theorem atEof_regex (m : Matcher) (rb : Record) (loc : Locals) (st : InState) (h : st.len ≤ st.pos)
    (hni : NoInterior m rb) : RegexSpec m (atEof (.regex m) rb loc st) loc rb := by
  unfold RegexSpec atEof
  by_cases hr : rb = []
  · simp only [hr, if_true]
    exact ⟨_, rfl, rfl, h⟩
  · simp only [hr, if_false, finalize, matchLongRs]
    cases hm : m rb with
    | none => exact ⟨_, rfl, rfl, h⟩
    | some p =>
      obtain ⟨i, l⟩ := p
      have := hni i l hm
      have hn : ¬ i + l < rb.length := by omega
      simp only [hn, if_false, if_true]
      exact ⟨_, rfl, rfl, h⟩

theorem fill_regex {m : Matcher} (hS : Stable m) :
    ∀ (cs : Stream) (rb : Record) (loc : Locals) (st : InState), st.len ≤ st.pos → NoInterior m rb →
      RegexSpec m (fill (.regex m) rb loc st cs) loc (rb ++ delivered cs) := by
  intro cs
  induction cs with
  | nil =>
    intro rb loc st h hni
    simpa [fill, delivered_nil] using atEof_regex m rb loc st h hni
  | cons c cs ih =>
    intro rb loc st h hni
    by_cases hc : c = []
    · subst hc
      simpa [fill, delivered_cons_nil] using atEof_regex m rb loc st h hni
    · have hcl : 0 < c.length := List.length_pos_iff.mpr hc
      simp only [fill, hc, if_false, delivered_cons hc, scanBuf, List.drop_zero]
      rw [matchLongRs_noeof _ _ _ rfl]
      cases hm : m (rb ++ c) with
      | none =>
        simp only
        have := ih (rb ++ c) loc ⟨c, c.length, false⟩ (by simp [InState.len]) (by intro i l h'; rw [hm] at h'; cases h')
        simpa [List.append_assoc] using this
      | some p =>
        obtain ⟨i, l⟩ := p
        simp only
        by_cases hil : i + l < (rb ++ c).length
        · simp only [hil, if_true]
          -- the match ends at or after the end of the old record buffer
          have hge : rb.length ≤ i + l := by
            by_cases hlt : i + l < rb.length
            · have := (hS rb c i l hlt).mpr hm
              have := hni i l this
              omega
            · omega
          -- and it is the match of the whole pending text
          have hall : m (rb ++ c ++ delivered cs) = some (i, l) := (hS (rb ++ c) (delivered cs) i l hil).mp hm
          have hne : rb ++ c ++ delivered cs ≠ [] := by simp [hc]
          simp only [List.length_append] at hil
          unfold RegexSpec
          simp only [← List.append_assoc, hne, if_false, hall]
          have hlt2 : i + l < (rb ++ c ++ delivered cs).length := by simp only [List.length_append]; omega
          simp only [hlt2, if_true]
          have htk : (rb ++ c ++ delivered cs).take i = (rb ++ c).take i :=
            List.take_append_of_le_length (by rw [List.length_append]; omega)
          rw [htk]
          refine ⟨_, _, rfl, rfl, ?_⟩
          have hd : (rb ++ c).length - (i + l) ≤ c.length := by simp only [List.length_append]; omega
          simp only [InState.len, hd, if_true, pending, Bool.false_eq_true, if_false]
          rw [List.drop_append_of_le_length (by simp only [List.length_append]; omega)]
          congr 1
          rw [List.drop_append]
          have : rb.drop (i + l) = [] := List.drop_eq_nil_iff.mpr hge
          rw [this, List.nil_append]
          congr 1
          simp only [List.length_append]; omega
        · simp only [hil, if_false]
          have := ih (rb ++ c) loc ⟨c, c.length, false⟩ (by simp [InState.len])
            (by intro i' l' h'; rw [hm] at h'; cases h'; omega)
          simpa [List.append_assoc] using this

theorem readFrom_regex {m : Matcher} (hS : Stable m) (loc : Locals) (st : InState) (cs : Stream) (hwf : WF st) :
    RegexSpec m (readFrom loc (.regex m) st cs) loc (pending st cs) := by
  unfold readFrom
  by_cases hp : st.pos ≥ st.len
  · simp only [hp, if_true]
    by_cases he : st.eof = true
    · simp only [he, if_true, pending_eof he hp, RegexSpec]
      exact ⟨_, rfl, he, hp⟩
    · have hd : st.buf.drop st.pos = [] := List.drop_eq_nil_iff.mpr hp
      simp only [he, if_false, pending, hd, Bool.false_eq_true]
      exact fill_regex hS cs [] loc st hp (by intro i l _; simp)
  · have he : st.eof = false := by
      cases h : st.eof with
      | false => rfl
      | true => exact absurd (hwf h) (by omega)
    simp only [InState.len] at hp
    have hdl : (st.buf.drop st.pos).length = st.buf.length - st.pos := by simp
    simp only [hp, if_false, pending, he, Bool.false_eq_true, scanBuf, List.nil_append, InState.len]
    rw [matchLongRs_noeof _ _ _ rfl]
    cases hm : m (st.buf.drop st.pos) with
    | none =>
      simp only
      exact fill_regex hS cs _ loc _ (by simp [InState.len]) (by intro i l h'; rw [hm] at h'; cases h')
    | some p =>
      obtain ⟨i, l⟩ := p
      simp only
      by_cases hil : i + l < (st.buf.drop st.pos).length
      · simp only [hil, if_true]
        have hall : m (st.buf.drop st.pos ++ delivered cs) = some (i, l) := (hS _ (delivered cs) i l hil).mp hm
        have hne : st.buf.drop st.pos ++ delivered cs ≠ [] := by
          intro h
          have := congrArg List.length h
          simp only [List.length_append, List.length_nil] at this
          omega
        unfold RegexSpec
        simp only [hne, if_false, hall]
        have hlt2 : i + l < (st.buf.drop st.pos ++ delivered cs).length := by
          simp only [List.length_append]; omega
        simp only [hlt2, if_true]
        rw [hdl] at hil
        have htk : (st.buf.drop st.pos ++ delivered cs).take i = (st.buf.drop st.pos).take i :=
          List.take_append_of_le_length (by rw [hdl]; omega)
        rw [htk]
        refine ⟨_, _, rfl, rfl, ?_⟩
        have hd : (st.buf.drop st.pos).length - (i + l) ≤ st.buf.length := by rw [hdl]; omega
        simp only [InState.len, hd, if_true, pending, Bool.false_eq_true, if_false]
        rw [List.drop_append_of_le_length (by rw [hdl]; omega), List.drop_drop]
        congr 2
        rw [hdl]; omega
      · simp only [hil, if_false]
        exact fill_regex hS cs _ loc _ (by simp [InState.len])
          (by intro i' l' h'; rw [hm] at h'; cases h'; omega)

/-! ## the declarative splitter -/

/-- the read-buffer state `finalize` sees at EOF (only `eof` is looked at, and only in regex mode) -/
def eofSt : InState := { eof := true }

/-- The first record of the character sequence `t` and the characters left after it.  A function of the characters
only: no buffer, no chunks.
* non-regex modes: run the character automaton from its initial state; if the text ends before a separator was
  seen, what has been collected is the record (after the end-of-input treatment `finalize`), unless it is empty;
* regex mode: the match of the *whole* text decides; a match that touches the end of the text ends the last record. -/
def specRecord : Mode → List Char → Option Record × List Char
  | .regex m, t =>
    if t = [] then (none, [])
    else match m t with
      | some (i, l) =>
        if i + l < t.length then (some (t.take i), t.drop (i + l)) else (some (t.take (t.length - l)), [])
      | none => (some t, [])
  | .dflt, t =>
    match runAuto .dflt ([], loc0) t with
    | .found r rest => (some r, rest)
    | .more (r, _) => if r = [] then (none, []) else (some r, [])
  | .single rs, t =>
    match runAuto (.single rs) ([], loc0) t with
    | .found r rest => (some r, rest)
    | .more (r, _) => if r = [] then (none, []) else (some r, [])
  | .para crlf, t =>
    match runAuto (.para crlf) ([], loc0) t with
    | .found r rest => (some r, rest)
    | .more (r, _) => if r = [] then (none, []) else (some (finalize (.para crlf) r eofSt), [])

/-- all records of a character sequence (the guard is always true except for a regex that matches the empty string) -/
def specAll (mode : Mode) (t : List Char) : List Record :=
  let s := specRecord mode t
  match s.1 with
  | none => []
  | some r => if _h : s.2.length < t.length then r :: specAll mode s.2 else [r]
termination_by t.length

/-- what is assumed of the mode: nothing, except for a regex RS that its matcher is `Stable` -/
def ModeOK : Mode → Prop
  | .regex m => Stable m
  | _ => True

theorem specRecord_auto {mode : Mode} (hm : mode.isAuto) (t : List Char) :
    specRecord mode t =
      match runAuto mode ([], loc0) t with
      | .found r rest => (some r, rest)
      | .more (r, _) => if r = [] then (none, []) else (some (finalize mode r eofSt), []) := by
  cases mode with
  | dflt => simp only [specRecord, finalize]
  | single rs => simp only [specRecord, finalize]
  | para crlf => simp only [specRecord]
  | regex m => simp [Mode.isAuto] at hm

theorem finalize_auto_st {mode : Mode} (hm : mode.isAuto) (r : Record) (st st' : InState) :
    finalize mode r st = finalize mode r st' := by
  cases mode with
  | regex m => simp [Mode.isAuto] at hm
  | _ => rfl

/-- `hawk_rtx_readio` returns the first record of the pending characters and leaves the rest pending -/
theorem readRecord_spec {mode : Mode} (hok : ModeOK mode) (st : InState) (cs : Stream) (hwf : WF st) :
    (readRecord mode st cs).1 = (specRecord mode (pending st cs)).1 ∧
    pending (readRecord mode st cs).2.1 (readRecord mode st cs).2.2 = (specRecord mode (pending st cs)).2 ∧
    WF (readRecord mode st cs).2.1 := by
  by_cases hm : mode.isAuto
  · have h := readFrom_auto hm loc0 st cs hwf
    rw [specRecord_auto hm]
    unfold readRecord
    cases hrun : runAuto mode ([], loc0) (pending st cs) with
    | found r rest =>
      rw [hrun] at h
      obtain ⟨st', cs', h1, h2, h3⟩ := h
      rw [h1]
      exact ⟨rfl, h3, by intro h; rw [h2] at h; cases h⟩
    | more s =>
      obtain ⟨r, l⟩ := s
      rw [hrun] at h
      simp only [OutSpec] at h
      by_cases hr : r = []
      · simp only [hr, if_true] at h ⊢
        obtain ⟨st', h1, h2, h3⟩ := h
        rw [h1]
        exact ⟨rfl, pending_eof h2 h3, fun _ => h3⟩
      · simp only [hr, if_false] at h ⊢
        obtain ⟨st', h1, h2, h3⟩ := h
        rw [h1]
        exact ⟨by simp [finalize_auto_st hm r st' eofSt], pending_eof h2 h3, fun _ => h3⟩
  · cases mode with
    | regex m =>
      have h := readFrom_regex hok loc0 st cs hwf
      unfold readRecord
      unfold RegexSpec at h
      simp only [specRecord]
      by_cases ht : pending st cs = []
      · simp only [ht, if_true] at h ⊢
        obtain ⟨st', h1, h2, h3⟩ := h
        rw [h1]
        exact ⟨rfl, pending_eof h2 h3, fun _ => h3⟩
      · simp only [ht, if_false] at h ⊢
        cases hmt : m (pending st cs) with
        | none =>
          rw [hmt] at h
          obtain ⟨st', h1, h2, h3⟩ := h
          rw [h1]
          exact ⟨rfl, pending_eof h2 h3, fun _ => h3⟩
        | some p =>
          obtain ⟨i, l⟩ := p
          rw [hmt] at h
          simp only at h ⊢
          by_cases hil : i + l < (pending st cs).length
          · simp only [hil, if_true] at h ⊢
            obtain ⟨st', cs', h1, h2, h3⟩ := h
            rw [h1]
            exact ⟨rfl, h3, by intro h; rw [h2] at h; cases h⟩
          · simp only [hil, if_false] at h ⊢
            obtain ⟨st', h1, h2, h3⟩ := h
            rw [h1]
            exact ⟨rfl, pending_eof h2 h3, fun _ => h3⟩
    | dflt => simp [Mode.isAuto] at hm
    | single rs => simp [Mode.isAuto] at hm
    | para crlf => simp [Mode.isAuto] at hm

/-- the records read from a stream are the records of the pending characters -/
theorem readAll_spec {mode : Mode} (hok : ModeOK mode) :
    ∀ (n : Nat) (st : InState) (cs : Stream), (pending st cs).length = n → WF st →
      readAll mode st cs = specAll mode (pending st cs) := by
  intro n
  induction n using Nat.strongRecOn with
  | ind n ih =>
    intro st cs hn hwf
    obtain ⟨h1, h2, h3⟩ := readRecord_spec hok st cs hwf
    rw [readAll, specAll]
    rw [← h1, ← h2]
    cases ho : (readRecord mode st cs).1 with
    | none => rfl
    | some r =>
      simp only
      by_cases hlt : (pending (readRecord mode st cs).2.1 (readRecord mode st cs).2.2).length < (pending st cs).length
      · simp only [hlt, dif_pos]
        rw [ih _ (by omega) _ _ rfl h3]
      · simp only [hlt, dif_neg, not_false_eq_true]

/-! ## progress: every record consumes at least one character -/

def ModeProg : Mode → Prop
  | .regex m => Progress m
  | _ => True

theorem specRecord_progress {mode : Mode} (hp : ModeProg mode) (t : List Char) (r : Record)
    (h : (specRecord mode t).1 = some r) : (specRecord mode t).2.length < t.length := by
  by_cases hm : mode.isAuto
  · rw [specRecord_auto hm] at h ⊢
    cases hrun : runAuto mode ([], loc0) t with
    | found r' rest => simpa using runAuto_found_length hrun
    | more s =>
      obtain ⟨r', l⟩ := s
      rw [hrun] at h
      simp only at h ⊢
      by_cases hr : r' = []
      · simp [hr] at h
      · simp only [hr, if_false, List.length_nil]
        cases t with
        | nil => simp [runAuto] at hrun; exact (hr hrun.1).elim
        | cons a t => simp
  · cases mode with
    | regex m =>
      simp only [specRecord] at h ⊢
      by_cases ht : t = []
      · simp [ht] at h
      · have htl : 0 < t.length := List.length_pos_iff.mpr ht
        simp only [ht, if_false] at h ⊢
        cases hmt : m t with
        | none => simpa using htl
        | some p =>
          obtain ⟨i, l⟩ := p
          have := hp t i l hmt
          simp only
          by_cases hil : i + l < t.length
          · simp only [hil, if_true, List.length_drop]; omega
          · simpa [hil] using htl
    | dflt => simp [Mode.isAuto] at hm
    | single rs => simp [Mode.isAuto] at hm
    | para crlf => simp [Mode.isAuto] at hm

/-- the readable unfolding of `specAll`: the guard never fires -/
theorem specAll_eq {mode : Mode} (hp : ModeProg mode) (t : List Char) :
    specAll mode t =
      match (specRecord mode t).1 with
      | none => []
      | some r => r :: specAll mode (specRecord mode t).2 := by
  rw [specAll]
  cases h : (specRecord mode t).1 with
  | none => rfl
  | some r => simp [specRecord_progress hp t r h]

/-! ## locals carried over a switch to the next console stream are harmless -/

theorem stepChar_nil_benign {mode : Mode} (hm : mode.isAuto) (loc : Locals) (hb : loc.lineLen = 0) (ch : Char) :
    stepChar mode ([], loc) ch = stepChar mode ([], loc0) ch := by
  obtain ⟨c, ll⟩ := loc
  simp only at hb
  subst hb
  cases mode with
  | dflt => by_cases h : ch = '\n' <;> simp [stepChar, h, loc0]
  | single rs => by_cases h : ch = rs <;> simp [stepChar, h, loc0]
  | para crlf => simp [stepChar, paraStep, loc0]
  | regex m => simp [Mode.isAuto] at hm

theorem runAuto_nil_benign {mode : Mode} (hm : mode.isAuto) (loc : Locals) (hb : loc.lineLen = 0)
    (t : List Char) (ht : t ≠ []) :
    runAuto mode ([], loc) t = runAuto mode ([], loc0) t := by
  cases t with
  | nil => exact absurd rfl ht
  | cons ch t => simp only [runAuto, stepChar_nil_benign hm loc hb ch]

theorem paraStep_cont_nil {crlf : Bool} {s s' : ParaSt} {ch : Char}
    (h : paraStep crlf s ch = (s', false)) (h1 : s'.rb = []) : s'.lineLen = 0 := by
  unfold paraStep at h
  by_cases hnl : ch = '\n'
  · grind
  · simp only [hnl, if_false, Prod.mk.injEq, and_true] at h
    subst h
    simp at h1

theorem stepChar_cont_nil {mode : Mode} (hm : mode.isAuto) {s : AState} {ch : Char} {l : Locals}
    (h : stepChar mode s ch = .cont ([], l)) : l.lineLen = 0 := by
  obtain ⟨rb, loc⟩ := s
  cases mode with
  | dflt =>
    simp only [stepChar] at h
    split at h <;> simp at h
  | single rs =>
    simp only [stepChar] at h
    split at h <;> simp at h
  | regex m => simp [Mode.isAuto] at hm
  | para crlf =>
    simp only [stepChar] at h
    split at h
    · cases h
    · rename_i s' hs
      simp only [AStep.cont.injEq, Prod.mk.injEq] at h
      obtain ⟨h1, h2⟩ := h
      subst h2
      exact paraStep_cont_nil hs h1

theorem runAuto_more_nil {mode : Mode} (hm : mode.isAuto) :
    ∀ (t : List Char) (s : AState) (l : Locals), runAuto mode s t = .more ([], l) →
      (t = [] ∧ s = ([], l)) ∨ l.lineLen = 0 := by
  intro t
  induction t with
  | nil => intro s l h; simp only [runAuto, ARun.more.injEq] at h; exact .inl ⟨rfl, h⟩
  | cons ch t ih =>
    intro s l h
    simp only [runAuto] at h
    cases hs : stepChar mode s ch with
    | done r => rw [hs] at h; cases h
    | cont s' =>
      rw [hs] at h
      rcases ih s' l h with ⟨_, h2⟩ | h2
      · subst h2
        exact .inr (stepChar_cont_nil hm hs)
      · exact .inr h2

/-- one call of `hawk_rtx_readio` on one stream, started with harmless locals, against the splitter -/
theorem readFrom_spec {mode : Mode} (hok : ModeOK mode) (loc : Locals) (hb : loc.lineLen = 0)
    (st : InState) (cs : Stream) (hwf : WF st) :
    (∀ r, (specRecord mode (pending st cs)).1 = some r →
      ∃ st' cs', readFrom loc mode st cs = .got r st' cs' ∧
        pending st' cs' = (specRecord mode (pending st cs)).2 ∧ WF st') ∧
    ((specRecord mode (pending st cs)).1 = none →
      ∃ loc' st', readFrom loc mode st cs = .eofEmpty loc' st' ∧ loc'.lineLen = 0 ∧ st'.eof = true ∧ st'.len ≤ st'.pos) := by
  by_cases hm : mode.isAuto
  · have h := readFrom_auto hm loc st cs hwf
    rw [specRecord_auto hm]
    by_cases ht : pending st cs = []
    · rw [ht] at h ⊢
      simp only [runAuto, OutSpec, if_true] at h ⊢
      obtain ⟨st', h1, h2, h3⟩ := h
      exact ⟨(by intro r hr; cases hr), fun _ => ⟨loc, st', h1, hb, h2, h3⟩⟩
    · rw [runAuto_nil_benign hm loc hb _ ht] at h
      cases hrun : runAuto mode ([], loc0) (pending st cs) with
      | found r rest =>
        rw [hrun] at h
        obtain ⟨st', cs', h1, h2, h3⟩ := h
        refine ⟨?_, (by intro h; cases h)⟩
        intro r' hr'
        simp only [Option.some.injEq] at hr'
        subst hr'
        exact ⟨st', cs', h1, h3, by intro h; rw [h2] at h; cases h⟩
      | more s =>
        obtain ⟨r, l⟩ := s
        rw [hrun] at h
        simp only [OutSpec] at h
        by_cases hr : r = []
        · simp only [hr, if_true] at h ⊢
          obtain ⟨st', h1, h2, h3⟩ := h
          refine ⟨(by intro r hr; cases hr), fun _ => ⟨l, st', h1, ?_, h2, h3⟩⟩
          subst hr
          rcases runAuto_more_nil hm _ _ _ hrun with ⟨h4, _⟩ | h4
          · exact absurd h4 ht
          · exact h4
        · simp only [hr, if_false] at h ⊢
          obtain ⟨st', h1, h2, h3⟩ := h
          refine ⟨?_, (by intro h; cases h)⟩
          intro r' hr'
          simp only [Option.some.injEq] at hr'
          subst hr'
          exact ⟨st', [], by rw [h1, finalize_auto_st hm r st' eofSt], pending_eof h2 h3, fun _ => h3⟩
  · cases mode with
    | regex m =>
      have h := readFrom_regex hok loc st cs hwf
      unfold RegexSpec at h
      simp only [specRecord]
      by_cases ht : pending st cs = []
      · simp only [ht, if_true] at h ⊢
        obtain ⟨st', h1, h2, h3⟩ := h
        exact ⟨(by intro r hr; cases hr), fun _ => ⟨loc, st', h1, hb, h2, h3⟩⟩
      · simp only [ht, if_false] at h ⊢
        cases hmt : m (pending st cs) with
        | none =>
          rw [hmt] at h
          obtain ⟨st', h1, h2, h3⟩ := h
          refine ⟨?_, (by intro h; cases h)⟩
          intro r' hr'
          simp only [Option.some.injEq] at hr'
          subst hr'
          exact ⟨st', [], h1, pending_eof h2 h3, fun _ => h3⟩
        | some p =>
          obtain ⟨i, l⟩ := p
          rw [hmt] at h
          simp only at h ⊢
          by_cases hil : i + l < (pending st cs).length
          · simp only [hil, if_true] at h ⊢
            obtain ⟨st', cs', h1, h2, h3⟩ := h
            refine ⟨?_, (by intro h; cases h)⟩
            intro r' hr'
            simp only [Option.some.injEq] at hr'
            subst hr'
            exact ⟨st', cs', h1, h3, by intro h; rw [h2] at h; cases h⟩
          · simp only [hil, if_false] at h ⊢
            obtain ⟨st', h1, h2, h3⟩ := h
            refine ⟨?_, (by intro h; cases h)⟩
            intro r' hr'
            simp only [Option.some.injEq] at hr'
            subst hr'
            exact ⟨st', [], h1, pending_eof h2 h3, fun _ => h3⟩
    | dflt => simp [Mode.isAuto] at hm
    | single rs => simp [Mode.isAuto] at hm
    | para crlf => simp [Mode.isAuto] at hm

/-! ## the console chain -/

/-- records of one file as the program sees them: NR continues, FNR counts from 1, FILENAME is the file's -/
def number (nr fnr : Nat) (name : String) : List Record → List Seen
  | [] => []
  | r :: rs => ⟨nr + 1, fnr + 1, name, r⟩ :: number (nr + 1) (fnr + 1) name rs

theorem number_length (nr fnr : Nat) (name : String) (rs : List Record) : (number nr fnr name rs).length = rs.length := by
  induction rs generalizing nr fnr with
  | nil => rfl
  | cons r rs ih => simp [number, ih]

/-- what a list of files (name, characters) must produce: each file is split on its own -/
def specChain (mode : Mode) : Nat → List (String × List Char) → List Seen
  | _, [] => []
  | nr, (name, s) :: fs =>
    number nr 0 name (specAll mode s) ++ specChain mode (nr + (specAll mode s).length) fs

/-- the files as character sequences -/
def fileChars (files : List (String × Stream)) : List (String × List Char) :=
  files.map fun f => (f.1, delivered f.2)

/-- what is still to come from a console whose pending characters are `t` -/
def specRest (mode : Mode) (con : Console) (t : List Char) (files : List (String × Stream)) : List Seen :=
  number con.nr con.fnr con.filename (specAll mode t) ++
    specChain mode (con.nr + (specAll mode t).length) (fileChars files)

def filesLen (files : List (String × Stream)) : Nat := (files.map fun f => (delivered f.2).length).sum

/-- result of the console read loop, described file by file -/
def GoSpec (mode : Mode) (res : Option Record × Console) : List (String × Stream) → List Char → Console → Prop
  | files, t, con =>
    match (specRecord mode t).1 with
    | some r => ∃ st' cs', res = (some r, { con with st := st', cur := cs', files := files }) ∧
        pending st' cs' = (specRecord mode t).2 ∧ WF st'
    | none =>
      match files with
      | [] => ∃ st', res = (none, { con with st := st', cur := [], files := [], eos := true })
      | (name, cs) :: fs => GoSpec mode res fs (delivered cs) { con with fnr := 0, filename := name }

theorem pending_fresh (cs : Stream) : pending { buf := [], pos := 0, eof := false } cs = delivered cs := by
  simp [pending]

theorem go_spec {mode : Mode} (hok : ModeOK mode) :
    ∀ (files : List (String × Stream)) (loc : Locals) (st : InState) (cur : Stream) (con : Console),
      loc.lineLen = 0 → WF st →
      GoSpec mode (readConsoleGo mode loc st cur files con) files (pending st cur) con := by
  intro files
  induction files with
  | nil =>
    intro loc st cur con hb hwf
    obtain ⟨h1, h2⟩ := readFrom_spec hok loc hb st cur hwf
    unfold GoSpec readConsoleGo
    cases hs : (specRecord mode (pending st cur)).1 with
    | some r =>
      obtain ⟨st', cs', h3, h4, h5⟩ := h1 r hs
      simp only [h3]
      exact ⟨st', cs', rfl, h4, h5⟩
    | none =>
      obtain ⟨loc', st', h3, _, _, _⟩ := h2 hs
      simp only [h3]
      exact ⟨st', rfl⟩
  | cons f fs ih =>
    intro loc st cur con hb hwf
    obtain ⟨name, cs⟩ := f
    obtain ⟨h1, h2⟩ := readFrom_spec hok loc hb st cur hwf
    unfold GoSpec readConsoleGo
    cases hs : (specRecord mode (pending st cur)).1 with
    | some r =>
      obtain ⟨st', cs', h3, h4, h5⟩ := h1 r hs
      simp only [h3]
      exact ⟨st', cs', rfl, h4, h5⟩
    | none =>
      obtain ⟨loc', st', h3, h6, _, _⟩ := h2 hs
      simp only [h3]
      have := ih loc' { buf := [], pos := 0, eof := false } cs { con with fnr := 0, filename := name } h6
        (by intro h; cases h)
      rw [pending_fresh] at this
      exact this

/-- from the description of one console read: either the input is exhausted and nothing more was to come, or a
record was returned which is the next one the specification lists, with strictly fewer characters pending -/
theorem goSpec_step {mode : Mode} (hp : ModeProg mode) (res : Option Record × Console) :
    ∀ (files : List (String × Stream)) (t : List Char) (con : Console), con.eos = false →
      GoSpec mode res files t con →
      (res.1 = none ∧ specRest mode con t files = []) ∨
      (∃ r, res.1 = some r ∧ res.2.eos = false ∧ WF res.2.st ∧
        res.2.pendingLen < t.length + filesLen files ∧
        specRest mode con t files =
          ⟨res.2.nr + 1, res.2.fnr + 1, res.2.filename, r⟩ ::
            specRest mode { res.2 with nr := res.2.nr + 1, fnr := res.2.fnr + 1 } (pending res.2.st res.2.cur) res.2.files) := by
  intro files
  induction files with
  | nil =>
    intro t con he h
    unfold GoSpec at h
    cases hs : (specRecord mode t).1 with
    | some r =>
      rw [hs] at h
      obtain ⟨st', cs', h1, h2, h3⟩ := h
      right
      refine ⟨r, by rw [h1], by rw [h1]; exact he, by rw [h1]; exact h3, ?_, ?_⟩
      · rw [h1]
        simp only [Console.pendingLen, h2, filesLen, List.map_nil, List.sum_nil, Nat.add_zero]
        exact specRecord_progress hp t r hs
      · rw [h1]
        simp only [specRest, h2]
        rw [specAll_eq hp t, hs]
        simp only [number, List.cons_append, List.length_cons]
        try simp only [Nat.add_assoc, Nat.add_comm 1]
    | none =>
      rw [hs] at h
      obtain ⟨st', h1⟩ := h
      left
      refine ⟨by rw [h1], ?_⟩
      simp only [specRest]
      rw [specAll_eq hp t, hs]
      simp [number, fileChars, specChain]
  | cons f fs ih =>
    intro t con he h
    obtain ⟨name, cs⟩ := f
    unfold GoSpec at h
    cases hs : (specRecord mode t).1 with
    | some r =>
      rw [hs] at h
      obtain ⟨st', cs', h1, h2, h3⟩ := h
      right
      refine ⟨r, by rw [h1], by rw [h1]; exact he, by rw [h1]; exact h3, ?_, ?_⟩
      · rw [h1]
        simp only [Console.pendingLen, h2, filesLen]
        have := specRecord_progress hp t r hs
        omega
      · rw [h1]
        simp only [specRest, h2]
        rw [specAll_eq hp t, hs]
        simp only [number, List.cons_append, List.length_cons]
        try simp only [Nat.add_assoc, Nat.add_comm 1]
    | none =>
      rw [hs] at h
      simp only at h
      have hrest : specRest mode con t ((name, cs) :: fs) =
          specRest mode { con with fnr := 0, filename := name } (delivered cs) fs := by
        simp only [specRest]
        rw [specAll_eq hp t, hs]
        simp [number, fileChars, specChain]
      rw [hrest]
      rcases ih (delivered cs) { con with fnr := 0, filename := name } he h with h' | ⟨r, h1, h2, h3, h4, h5⟩
      · exact .inl h'
      · right
        refine ⟨r, h1, h2, h3, ?_, h5⟩
        simp only [filesLen, List.map_cons, List.sum_cons] at h4 ⊢
        omega

/-- the program sees exactly what the specification lists -/
theorem runConsole_spec {mode : Mode} (hok : ModeOK mode) (hp : ModeProg mode) :
    ∀ (n : Nat) (con : Console), con.pendingLen = n → con.eos = false → WF con.st →
      runConsole mode con = specRest mode con (pending con.st con.cur) con.files := by
  intro n
  induction n using Nat.strongRecOn with
  | ind n ih =>
    intro con hn he hwf
    have hgo := go_spec hok con.files loc0 con.st con.cur con rfl hwf
    have hstep := goSpec_step hp _ con.files _ con he hgo
    rw [runConsole]
    simp only [readRecordConsole, readConsole, he, Bool.false_eq_true, if_false]
    rcases hstep with ⟨h1, h2⟩ | ⟨r, h1, h2, h3, h4, h5⟩
    · rw [h2]
      generalize readConsoleGo mode loc0 con.st con.cur con.files con = res at h1 ⊢
      obtain ⟨o, c⟩ := res
      simp only at h1
      subst h1
      rfl
    · rw [h5]
      generalize readConsoleGo mode loc0 con.st con.cur con.files con = res at h1 h2 h3 h4 ⊢
      obtain ⟨o, c⟩ := res
      simp only at h1 h2 h3 h4 ⊢
      subst h1
      simp only
      have hlt : ({ c with nr := c.nr + 1, fnr := c.fnr + 1 } : Console).pendingLen < con.pendingLen := by
        simp only [Console.pendingLen] at h4 ⊢
        simp only [filesLen] at h4
        exact h4
      simp only [hlt, dif_pos]
      congr 1
      exact ih _ (by omega) _ rfl h2 h3

/-! ## literal separators are stable -/

theorem litMatcher_cons (w : List Char) (a : Char) (t : List Char) :
    litMatcher w (a :: t) =
      if w.isPrefixOf (a :: t) then some (0, w.length)
      else match litMatcher w t with
        | some (i, l) => some (i + 1, l)
        | none => none := by
  simp only [litMatcher]
  rfl

theorem litMatcher_len {w t : List Char} {i l : Nat} (h : litMatcher w t = some (i, l)) : l = w.length := by
  induction t generalizing i l with
  | nil =>
    simp only [litMatcher] at h
    split at h <;> simp at h
    exact h.2.symm
  | cons a t ih =>
    rw [litMatcher_cons] at h
    split at h
    · simp at h; exact h.2.symm
    · cases hm : litMatcher w t with
      | none => rw [hm] at h; cases h
      | some p =>
        obtain ⟨i', l'⟩ := p
        rw [hm] at h
        simp only [Option.some.injEq, Prod.mk.injEq] at h
        rw [← h.2]
        exact ih hm

theorem isPrefixOf_append_of_le {w t u : List Char} (hl : w.length ≤ t.length) :
    w.isPrefixOf (t ++ u) = w.isPrefixOf t := by
  rw [Bool.eq_iff_iff, List.isPrefixOf_iff_prefix, List.isPrefixOf_iff_prefix]
  constructor
  · intro h
    exact List.prefix_of_prefix_length_le h (List.prefix_append t u) hl
  · intro h
    exact h.trans (List.prefix_append t u)

theorem isPrefixOf_length_le {w t : List Char} (h : w.isPrefixOf t = true) : w.length ≤ t.length := by
  rw [List.isPrefixOf_iff_prefix] at h
  exact h.length_le

/-- a literal multi-character RS (no regex operators): the leftmost occurrence is found by `litMatcher` -/
theorem stable_litMatcher (w : List Char) : Stable (litMatcher w) := by
  intro t
  induction t with
  | nil => intro u i l h; simp at h
  | cons a t ih =>
    intro u i l hil
    simp only [List.cons_append]
    rw [litMatcher_cons, litMatcher_cons]
    by_cases hp : w.isPrefixOf (a :: t) = true
    · have hp' : w.isPrefixOf (a :: (t ++ u)) = true := by
        rw [← List.cons_append, isPrefixOf_append_of_le (isPrefixOf_length_le hp)]; exact hp
      simp [hp, hp']
    · simp only [hp, Bool.false_eq_true, if_false]
      by_cases hp' : w.isPrefixOf (a :: (t ++ u)) = true
      · -- the occurrence starts inside `t` and ends beyond it: it cannot end before `|t|`
        simp only [hp', if_true]
        have hlen : (a :: t).length < w.length := by
          by_cases hle : w.length ≤ (a :: t).length
          · rw [← List.cons_append, isPrefixOf_append_of_le hle] at hp'
            exact absurd hp' hp
          · omega
        constructor
        · intro h
          cases hm : litMatcher w t with
          | none => rw [hm] at h; cases h
          | some p =>
            obtain ⟨i', l'⟩ := p
            rw [hm] at h
            simp only [Option.some.injEq, Prod.mk.injEq] at h
            have := litMatcher_len hm
            simp only [List.length_cons] at hil hlen
            omega
        · intro h
          simp only [Option.some.injEq, Prod.mk.injEq] at h
          simp only [List.length_cons] at hil hlen
          omega
      · simp only [hp', Bool.false_eq_true, if_false]
        cases i with
        | zero =>
          constructor
          · intro h
            cases hm : litMatcher w t with
            | none => rw [hm] at h; cases h
            | some p => obtain ⟨i', l'⟩ := p; rw [hm] at h; simp at h
          · intro h
            cases hm : litMatcher w (t ++ u) with
            | none => rw [hm] at h; cases h
            | some p => obtain ⟨i', l'⟩ := p; rw [hm] at h; simp at h
        | succ i =>
          have hil' : i + l < t.length := by simp only [List.length_cons] at hil; omega
          have := ih u i l hil'
          constructor
          · intro h
            cases hm : litMatcher w t with
            | none => rw [hm] at h; cases h
            | some p =>
              obtain ⟨i', l'⟩ := p
              rw [hm] at h
              simp only [Option.some.injEq, Prod.mk.injEq, Nat.add_right_cancel_iff] at h
              rw [h.1, h.2] at hm
              rw [this.mp hm]
          · intro h
            cases hm : litMatcher w (t ++ u) with
            | none => rw [hm] at h; cases h
            | some p =>
              obtain ⟨i', l'⟩ := p
              rw [hm] at h
              simp only [Option.some.injEq, Prod.mk.injEq, Nat.add_right_cancel_iff] at h
              rw [h.1, h.2] at hm
              rw [this.mpr hm]

theorem progress_litMatcher {w : List Char} (hw : w ≠ []) : Progress (litMatcher w) := by
  intro t i l h
  have := litMatcher_len h
  have : 0 < w.length := List.length_pos_iff.mpr hw
  omega

/-! ## a matcher that is not stable: `ab(cd)?` -/

/-- leftmost-longest match of `ab(cd)?` -/
def abcdMatcher : Matcher
  | [] => none
  | 'a' :: 'b' :: 'c' :: 'd' :: _ => some (0, 4)
  | 'a' :: 'b' :: _ => some (0, 2)
  | _ :: t => match abcdMatcher t with
    | some (i, l) => some (i + 1, l)
    | none => none

/-! ## unfolding helpers for concrete evaluations -/

theorem readAll_cons_of {mode : Mode} {st st' : InState} {cs cs' : Stream} {r : Record}
    (h : readRecord mode st cs = (some r, st', cs')) (hlt : (pending st' cs').length < (pending st cs).length) :
    readAll mode st cs = r :: readAll mode st' cs' := by
  rw [readAll]
  simp [h, hlt]

theorem readAll_nil_of {mode : Mode} {st st' : InState} {cs cs' : Stream}
    (h : readRecord mode st cs = (none, st', cs')) : readAll mode st cs = [] := by
  rw [readAll]
  simp [h]

theorem specAll_cons_of {mode : Mode} {t rest : List Char} {r : Record}
    (h : specRecord mode t = (some r, rest)) (hlt : rest.length < t.length) :
    specAll mode t = r :: specAll mode rest := by
  rw [specAll]
  simp [h, hlt]

theorem specAll_nil_of {mode : Mode} {t rest : List Char}
    (h : specRecord mode t = (none, rest)) : specAll mode t = [] := by
  rw [specAll]
  simp [h]

/-! ## what the splitter is, in plain terms (single-character and newline mode) -/

theorem runAuto_single_char (rs : Char) :
    ∀ (t : List Char) (rb : Record) (loc : Locals),
      match runAuto (.single rs) (rb, loc) t with
      | .found r rest => ∃ a, t = a ++ rs :: rest ∧ rs ∉ a ∧ r = rb ++ a
      | .more (r, _) => rs ∉ t ∧ r = rb ++ t := by
  intro t
  induction t with
  | nil => intro rb loc; simp [runAuto]
  | cons ch t ih =>
    intro rb loc
    simp only [runAuto, stepChar]
    by_cases h : ch = rs
    · subst h
      simp only [if_true]
      exact ⟨[], by simp, by simp, by simp⟩
    · simp only [h, if_false]
      have := ih (rb ++ [ch]) { loc with c := ch }
      cases hr : runAuto (.single rs) (rb ++ [ch], { loc with c := ch }) t with
      | found r rest =>
        rw [hr] at this
        obtain ⟨a, h1, h2, h3⟩ := this
        refine ⟨ch :: a, by simp [h1], ?_, by simp [h3]⟩
        simp only [List.mem_cons, not_or]
        exact ⟨fun e => h e.symm, h2⟩
      | more s =>
        obtain ⟨r, l⟩ := s
        rw [hr] at this
        obtain ⟨h1, h2⟩ := this
        refine ⟨?_, by simp [h2]⟩
        simp only [List.mem_cons, not_or]
        exact ⟨fun e => h e.symm, h1⟩

/-- the input with a terminator supplied at the end if the last record has none -/
def terminated (rs : Char) (t : List Char) : List Char :=
  if t = [] ∨ t.getLast? = some rs then t else t ++ [rs]

/-- a CR at the end of a line is not part of the record -/
def stripCR (r : Record) : Record := if r.getLast? = some '\r' then r.dropLast else r

theorem runAuto_dflt_vs_single :
    ∀ (t : List Char) (rb : Record) (c : Char) (ll : Nat), c = rb.getLast?.getD '\x00' →
      match runAuto (.single '\n') (rb, ⟨c, ll⟩) t with
      | .found r rest => runAuto .dflt (rb, ⟨c, ll⟩) t = .found (stripCR r) rest
      | .more (r, l) => runAuto .dflt (rb, ⟨c, ll⟩) t = .more (r, l) := by
  intro t
  induction t with
  | nil => intro rb c ll _; simp [runAuto]
  | cons ch t ih =>
    intro rb c ll hc
    simp only [runAuto, stepChar]
    by_cases h : ch = '\n'
    · subst h
      simp only [if_true, stripCR]
      congr 1
      subst hc
      cases hl : rb.getLast? with
      | none => simp
      | some x => simp
    · simp only [h, if_false]
      exact ih (rb ++ [ch]) ch ll (by simp)

theorem specAll_single_ne_nil (rs : Char) (t : List Char) (ht : t ≠ []) : specAll (.single rs) t ≠ [] := by
  have hp : ModeProg (.single rs) := trivial
  rw [specAll_eq hp t]
  have hrun := runAuto_single_char rs t [] loc0
  simp only [specRecord]
  cases hr : runAuto (.single rs) ([], loc0) t with
  | found r rest => simp
  | more s =>
    obtain ⟨r, l⟩ := s
    rw [hr] at hrun
    simp only [List.nil_append] at hrun
    simp [hrun.2, ht]

/-! ## programs with `nextfile`: what is seen depends on the characters only -/

/-- what of a console the *characters* determine: the characters pending in the open stream, the characters of the files
not yet opened, and the program-visible counters -/
structure View where
  pend : List Char
  files : List (String × List Char)
  nr : Nat
  fnr : Nat
  filename : String
  eos : Bool

def Console.view (con : Console) : View :=
  ⟨pending con.st con.cur, fileChars con.files, con.nr, con.fnr, con.filename, con.eos⟩

theorem pendingLen_view (con : Console) :
    con.pendingLen = con.view.pend.length + (con.view.files.map fun f => f.2.length).sum := by
  simp [Console.pendingLen, Console.view, fileChars, List.map_map, Function.comp_def]

theorem goSpec_view {mode : Mode} :
    ∀ (f1 f2 : List (String × Stream)) (t : List Char) (c1 c2 : Console) (res1 res2 : Option Record × Console),
      fileChars f1 = fileChars f2 → c1.nr = c2.nr → c1.fnr = c2.fnr → c1.filename = c2.filename → c1.eos = c2.eos →
      GoSpec mode res1 f1 t c1 → GoSpec mode res2 f2 t c2 →
      res1.1 = res2.1 ∧ (∀ r, res1.1 = some r → res1.2.view = res2.2.view ∧ WF res1.2.st ∧ WF res2.2.st) := by
  intro f1
  induction f1 with
  | nil =>
    intro f2 t c1 c2 res1 res2 hf h1 h2 h3 h4 g1 g2
    have hf2 : f2 = [] := by
      cases f2 with
      | nil => rfl
      | cons a b => simp [fileChars] at hf
    subst hf2
    unfold GoSpec at g1 g2
    cases hs : (specRecord mode t).1 with
    | some r =>
      rw [hs] at g1 g2
      obtain ⟨st1, cs1, e1, p1, w1⟩ := g1
      obtain ⟨st2, cs2, e2, p2, w2⟩ := g2
      subst e1 e2
      refine ⟨rfl, fun _ _ => ⟨?_, w1, w2⟩⟩
      simp [Console.view, p1, p2, h1, h2, h3, h4]
    | none =>
      rw [hs] at g1 g2
      obtain ⟨st1, e1⟩ := g1
      obtain ⟨st2, e2⟩ := g2
      subst e1 e2
      exact ⟨rfl, fun r hr => by cases hr⟩
  | cons a f1 ih =>
    intro f2 t c1 c2 res1 res2 hf h1 h2 h3 h4 g1 g2
    obtain ⟨n1, cs1⟩ := a
    cases f2 with
    | nil => simp [fileChars] at hf
    | cons b f2 =>
      obtain ⟨n2, cs2⟩ := b
      simp only [fileChars, List.map_cons, List.cons.injEq, Prod.mk.injEq] at hf
      obtain ⟨⟨hn, hd⟩, hr⟩ := hf
      unfold GoSpec at g1 g2
      cases hs : (specRecord mode t).1 with
      | some r =>
        rw [hs] at g1 g2
        obtain ⟨st1, cs1', e1, p1, w1⟩ := g1
        obtain ⟨st2, cs2', e2, p2, w2⟩ := g2
        subst e1 e2
        refine ⟨rfl, fun _ _ => ⟨?_, w1, w2⟩⟩
        simp [Console.view, p1, p2, h1, h2, h3, h4, fileChars, hn, hd]
        exact hr
      | none =>
        rw [hs] at g1 g2
        simp only at g1 g2
        rw [hd] at g1
        exact ih f2 (delivered cs2) { c1 with fnr := 0, filename := n1 } { c2 with fnr := 0, filename := n2 } res1 res2 hr h1 rfl hn h4 g1 g2

theorem readRecordConsole_some {mode : Mode} {c : Console} {r : Record} (h : (readConsole mode c).1 = some r) :
    readRecordConsole mode c =
      (some r, { (readConsole mode c).2 with nr := (readConsole mode c).2.nr + 1, fnr := (readConsole mode c).2.fnr + 1 }) := by
  unfold readRecordConsole
  rcases hc : readConsole mode c with ⟨o, c'⟩
  rw [hc] at h
  simp only at h
  subst h
  rfl

theorem readRecordConsole_none {mode : Mode} {c : Console} (h : (readConsole mode c).1 = none) :
    (readRecordConsole mode c).1 = none := by
  unfold readRecordConsole
  rcases hc : readConsole mode c with ⟨o, c'⟩
  rw [hc] at h
  simp only at h
  subst h
  rfl

/-- one `read_record` on two consoles holding the same characters: same record, and again the same characters -/
theorem readRecordConsole_view {mode : Mode} (hok : ModeOK mode) (c1 c2 : Console) (w1 : WF c1.st) (w2 : WF c2.st)
    (hv : c1.view = c2.view) :
    (readRecordConsole mode c1).1 = (readRecordConsole mode c2).1 ∧
    (∀ r, (readRecordConsole mode c1).1 = some r →
      (readRecordConsole mode c1).2.view = (readRecordConsole mode c2).2.view ∧
      WF (readRecordConsole mode c1).2.st ∧ WF (readRecordConsole mode c2).2.st) := by
  simp only [Console.view, View.mk.injEq] at hv
  obtain ⟨hp, hf, h1, h2, h3, h4⟩ := hv
  have key : (readConsole mode c1).1 = (readConsole mode c2).1 ∧
      (∀ r, (readConsole mode c1).1 = some r →
        (readConsole mode c1).2.view = (readConsole mode c2).2.view ∧
        WF (readConsole mode c1).2.st ∧ WF (readConsole mode c2).2.st) := by
    unfold readConsole
    by_cases he : c1.eos = true
    · have he2 : c2.eos = true := by rw [← h4]; exact he
      rw [if_pos he, if_pos he2]
      exact ⟨rfl, fun r hr => by cases hr⟩
    · have he2 : ¬ c2.eos = true := by rw [← h4]; exact he
      rw [if_neg he, if_neg he2]
      have g1 := go_spec hok c1.files loc0 c1.st c1.cur c1 rfl w1
      have g2 := go_spec hok c2.files loc0 c2.st c2.cur c2 rfl w2
      rw [hp] at g1
      exact goSpec_view c1.files c2.files _ c1 c2 _ _ hf h1 h2 h3 h4 g1 g2
  obtain ⟨k1, k2⟩ := key
  cases hr1 : (readConsole mode c1).1 with
  | none =>
    have hr2 : (readConsole mode c2).1 = none := by rw [← k1]; exact hr1
    rw [readRecordConsole_none hr1, readRecordConsole_none hr2]
    exact ⟨rfl, fun r hr => by cases hr⟩
  | some r =>
    have hr2 : (readConsole mode c2).1 = some r := by rw [← k1]; exact hr1
    obtain ⟨v, wa, wb⟩ := k2 r hr1
    rw [readRecordConsole_some hr1, readRecordConsole_some hr2]
    refine ⟨rfl, fun _ _ => ⟨?_, wa, wb⟩⟩
    simp only [Console.view, View.mk.injEq] at v ⊢
    obtain ⟨a1, a2, a3, a4, a5, a6⟩ := v
    exact ⟨a1, a2, by rw [a3], by rw [a4], a5, a6⟩

theorem nextFile_view (c1 c2 : Console) (hv : c1.view = c2.view) :
    match nextFile c1, nextFile c2 with
    | none, none => True
    | some a, some b => a.view = b.view ∧ WF a.st ∧ WF b.st
    | _, _ => False := by
  simp only [Console.view, View.mk.injEq] at hv
  obtain ⟨hp, hf, h1, h2, h3, h4⟩ := hv
  unfold nextFile
  rw [h4]
  by_cases he : c2.eos = true
  · simp [he]
  · simp only [he, if_false]
    cases hf1 : c1.files with
    | nil =>
      rw [hf1] at hf
      cases hf2 : c2.files with
      | nil => simp
      | cons b f2 => rw [hf2] at hf; simp [fileChars] at hf
    | cons a f1 =>
      rw [hf1] at hf
      obtain ⟨n1, cs1⟩ := a
      cases hf2 : c2.files with
      | nil => rw [hf2] at hf; simp [fileChars] at hf
      | cons b f2 =>
        rw [hf2] at hf
        obtain ⟨n2, cs2⟩ := b
        simp only [fileChars, List.map_cons, List.cons.injEq, Prod.mk.injEq] at hf
        obtain ⟨⟨hn, hd⟩, hr⟩ := hf
        simp only
        refine ⟨?_, (by intro h; cases h), (by intro h; cases h)⟩
        simp [Console.view, pending_fresh, hd, hn, h1, fileChars]
        exact hr

/-- **A program that uses `nextfile` sees the same records on two consoles that hold the same characters**, however
these characters are spread over the read buffer, the chunks still to come, and the chunkings of the files to come. -/
theorem runScript_view {mode : Mode} (hok : ModeOK mode) (nf : Seen → Bool) :
    ∀ (n : Nat) (c1 c2 : Console), c1.pendingLen = n → WF c1.st → WF c2.st → c1.view = c2.view →
      runScript mode nf c1 = runScript mode nf c2 := by
  intro n
  induction n using Nat.strongRecOn with
  | ind n ih =>
    intro c1 c2 hn w1 w2 hv
    obtain ⟨k1, k2⟩ := readRecordConsole_view hok c1 c2 w1 w2 hv
    have hl : c1.pendingLen = c2.pendingLen := by rw [pendingLen_view, pendingLen_view, hv]
    conv => lhs; rw [runScript]
    conv => rhs; rw [runScript]
    simp only
    cases hr : (readRecordConsole mode c1).1 with
    | none =>
      have hr2 : (readRecordConsole mode c2).1 = none := by rw [← k1]; exact hr
      simp [hr2]
    | some r =>
      have hr2 : (readRecordConsole mode c2).1 = some r := by rw [← k1]; exact hr
      obtain ⟨v, wa, wb⟩ := k2 r hr
      have hl2 : (readRecordConsole mode c1).2.pendingLen = (readRecordConsole mode c2).2.pendingLen := by
        rw [pendingLen_view, pendingLen_view, v]
      have hs : (⟨(readRecordConsole mode c1).2.nr, (readRecordConsole mode c1).2.fnr, (readRecordConsole mode c1).2.filename, r⟩ : Seen) =
          ⟨(readRecordConsole mode c2).2.nr, (readRecordConsole mode c2).2.fnr, (readRecordConsole mode c2).2.filename, r⟩ := by
        simp only [Console.view, View.mk.injEq] at v
        obtain ⟨_, _, a3, a4, a5, _⟩ := v
        rw [a3, a4, a5]
      simp only [hr2, hs, hl2, hl]
      by_cases hlt : (readRecordConsole mode c2).2.pendingLen < c2.pendingLen
      · simp only [hlt, dif_pos]
        by_cases hnf : nf ⟨(readRecordConsole mode c2).2.nr, (readRecordConsole mode c2).2.fnr, (readRecordConsole mode c2).2.filename, r⟩ = true
        · simp only [hnf, if_true]
          have nv := nextFile_view _ _ v
          cases hx1 : nextFile (readRecordConsole mode c1).2 with
          | none =>
            cases hx2 : nextFile (readRecordConsole mode c2).2 with
            | none => rfl
            | some b => rw [hx1, hx2] at nv; exact nv.elim
          | some a =>
            cases hx2 : nextFile (readRecordConsole mode c2).2 with
            | none => rw [hx1, hx2] at nv; exact nv.elim
            | some b =>
              rw [hx1, hx2] at nv
              obtain ⟨va, waa, wbb⟩ := nv
              have hla : a.pendingLen = b.pendingLen := by rw [pendingLen_view, pendingLen_view, va]
              simp only [hla]
              by_cases hle : b.pendingLen ≤ (readRecordConsole mode c2).2.pendingLen
              · simp only [hle, dif_pos]
                congr 1
                exact ih a.pendingLen (by omega) a b rfl waa wbb va
              · simp only [hle, dif_neg, not_false_eq_true]
        · simp only [hnf, if_false, Bool.false_eq_true]
          congr 1
          exact ih _ (by omega) _ _ rfl wa wb v
      · simp only [hlt, dif_neg, not_false_eq_true]

/-! ## RS / FS histories: the run-time context tracks the last assignment (used by Props/C04.lean) -/

/-- what `set_separator` leaves for a value assigned under a CONVFMT -/
def sepOf (fsv : Bool) (a : Val × List Char) : Sep :=
  if a.1.isNil then ⟨a.1, none, none, none⟩
  else ⟨a.1, some (a.1.text a.2), some (a.1.btext a.2),
        if isRexText fsv (a.1.text a.2) (a.1.btext a.2) then some (a.1.text a.2) else none⟩

theorem setSeparator_eq (ok : List Char → Bool) (fsv : Bool) (fmt : List Char) (v : Val) :
    setSeparator ok fsv fmt v = if accepts ok fsv fmt v then some (sepOf fsv (v, fmt)) else none := by
  unfold setSeparator accepts sepOf
  cases h1 : v.isNil <;> simp
  cases h2 : isRexText fsv (v.text fmt) (v.btext fmt) <;> simp

/-- the run-time context agrees with the history -/
def Tracks (e : Env) (l : Last) : Prop :=
  e.convfmt = l.fmt ∧ e.rs = sepOf false l.rs ∧ e.fs = sepOf true l.fs

theorem tracks_init : Tracks env0 last0 := by
  refine ⟨rfl, ?_, ?_⟩
  · simp [env0, last0, sepOf, nilVal]
  · simp [env0, last0, sepOf, strVal, isRexText]

theorem tracks_step (ok : List Char → Bool) (e : Env) (l : Last) (op : SepOp) (h : Tracks e l) :
    Tracks (e.step ok op) (l.step ok op) := by
  obtain ⟨h1, h2, h3⟩ := h
  cases op with
  | convfmt f => exact ⟨rfl, h2, h3⟩
  | ignorecase b => exact ⟨h1, h2, h3⟩
  | setRS v =>
    simp only [Env.step, Last.step, setSeparator_eq, h1]
    by_cases ha : accepts ok false l.fmt v = true
    · simp only [ha, if_true]; exact ⟨rfl, rfl, h3⟩
    · simp only [ha]; exact ⟨h1, h2, h3⟩
  | setFS v =>
    simp only [Env.step, Last.step, setSeparator_eq, h1]
    by_cases ha : accepts ok true l.fmt v = true
    · simp only [ha, if_true]; exact ⟨rfl, h2, rfl⟩
    · simp only [ha]; exact ⟨h1, h2, h3⟩
  | sameRS => exact ⟨h1, h2, h3⟩
  | sameFS => exact ⟨h1, h2, h3⟩

theorem tracks_run (ok : List Char → Bool) (ops : List SepOp) :
    ∀ (e : Env) (l : Last), Tracks e l → Tracks (e.run ok ops) (l.run ok ops) := by
  induction ops with
  | nil => intro e l h; exact h
  | cons op ops ih => intro e l h; exact ih _ _ (tracks_step ok e l op h)

/-- IGNORECASE is not touched by the assignments of the separators -/
theorem selOfText_sepOf {α : Type} (fsv : Bool) (a : Val × List Char) (ic : Bool) (tx : Option (List α))
    (h : ∀ x y r, tx = some (x :: y :: r) → a.1.isNil = false ∧ isRexText fsv (a.1.text a.2) (a.1.btext a.2) = true) :
    selOfText (sepOf fsv a).rex ic tx = specSel (sepText a) ic tx := by
  match tx, h with
  | none, _ => rfl
  | some [], _ => rfl
  | some [_], _ => rfl
  | some (x :: y :: r), h =>
    obtain ⟨hn, hr⟩ := h x y r rfl
    simp [selOfText, specSel, sepOf, sepText, hn, hr]

theorem selOfText_regex {α : Type} (rex : Option (List Char)) (ic : Bool) (tx : Option (List α)) (src : List Char) (ic' : Bool)
    (h : selOfText rex ic tx = .regex src ic') : rex = some src := by
  match tx, rex, h with
  | none, _, h => simp [selOfText] at h
  | some [], _, h => simp [selOfText] at h
  | some [_], _, h => simp [selOfText] at h
  | some (_ :: _ :: _), none, h => simp [selOfText] at h
  | some (_ :: _ :: _), some s, h =>
    simp only [selOfText, Sel.regex.injEq] at h
    rw [h.1]

theorem sepOf_rex (fsv : Bool) (a : Val × List Char) (s : List Char) (h : (sepOf fsv a).rex = some s) :
    (sepOf fsv a).text = some s := by
  unfold sepOf at h ⊢
  split at h
  · simp at h
  · rename_i hn
    simp only [hn]
    split at h
    · simpa using h
    · simp at h

end Hawk.ReadIo
