import HawkModel.OomRel
import HawkModel.OomLemmas
/-! helper lemmas for the second table language (Props/C10, section "functions with temporaries") -/
namespace Hawk.Oom.Ft
open Hawk.Oom (nodupB nodupB_iff getD_of_getElem?)

/-- what a run guarantees from a state that passes the check -/
def Spec (o : Outcome) : Prop :=
  o.held.Nodup ∧ (∀ r, r ∈ o.freed → r ∉ o.held) ∧
  (o.ok = false → o.released.Nodup ∧ (∀ r, r ∈ o.released ↔ r ∈ o.held)) ∧
  (o.ok = true → o.released = [])

theorem labelExact_spec (held rels : List Res) (h : labelExact held rels = true) :
    rels.Nodup ∧ ∀ r, r ∈ rels ↔ r ∈ held := by
  simp only [labelExact, Bool.and_eq_true, List.all_eq_true, List.contains_iff_mem] at h
  obtain ⟨⟨hn, h1⟩, h2⟩ := h
  rw [nodupB_iff] at hn
  refine ⟨hn, fun r => ⟨fun hr => ?_, fun hr => ?_⟩⟩
  · simpa using h1 r hr
  · simpa using h2 r hr

theorem exit_spec (t : Table) (held freed : List Res) (l : Nat) (h : labelOK t held l = true)
    (hn : held.Nodup) (hd : ∀ r, r ∈ freed → r ∉ held) : Spec (exit t held freed l) := by
  unfold labelOK at h
  split at h
  · rename_i rels hl
    have hg : t.labels.getD l [] = rels := getD_of_getElem? _ _ _ _ hl
    obtain ⟨a, b⟩ := labelExact_spec held rels h
    refine ⟨hn, hd, ?_, ?_⟩
    · intro _; simp only [exit, hg]; exact ⟨a, b⟩
    · intro hk; simp [exit] at hk
  · simp at h

theorem runFrom_spec (t : Table) (fail : Nat → Bool) :
    ∀ (ops : List Op) (i : Nat) (held freed : List Res),
      wfFrom t ops held freed = true → held.Nodup → (∀ r, r ∈ freed → r ∉ held) →
      Spec (runFrom t fail ops i held freed) := by
  intro ops
  induction ops with
  | nil =>
    intro i held freed _ hn hd
    exact ⟨hn, hd, by simp [runFrom], fun _ => rfl⟩
  | cons op rest ih =>
    intro i held freed hw hn hd
    cases op with
    | acq r l =>
      simp only [wfFrom, Bool.and_eq_true, Bool.not_eq_true', List.contains_eq_mem, decide_eq_false_iff_not] at hw
      obtain ⟨⟨⟨h1, h2⟩, hl⟩, hrest⟩ := hw
      simp only [runFrom]
      split
      · exact exit_spec t held freed l hl hn hd
      · refine ih (i + 1) (held ++ [r]) freed hrest ?_ ?_
        · rw [List.nodup_append]
          refine ⟨hn, by simp, ?_⟩
          intro a ha b hb
          simp at hb; subst hb
          intro e; subst e; exact h1 ha
        · intro q hq
          simp only [List.mem_append, List.mem_singleton, not_or]
          refine ⟨hd q hq, ?_⟩
          intro e; subst e; exact h2 hq
    | guard l =>
      simp only [wfFrom, Bool.and_eq_true] at hw
      obtain ⟨hl, hrest⟩ := hw
      simp only [runFrom]
      split
      · exact exit_spec t held freed l hl hn hd
      · exact ih (i + 1) held freed hrest hn hd
    | acqp r l =>
      simp only [wfFrom, Bool.and_eq_true, Bool.not_eq_true', List.contains_eq_mem, decide_eq_false_iff_not] at hw
      obtain ⟨⟨⟨h1, h2⟩, hl⟩, hrest⟩ := hw
      have hn' : (held ++ [r]).Nodup := by
        rw [List.nodup_append]
        refine ⟨hn, by simp, ?_⟩
        intro a ha b hb
        simp at hb; subst hb
        intro e; subst e; exact h1 ha
      have hd' : ∀ q, q ∈ freed → q ∉ held ++ [r] := by
        intro q hq
        simp only [List.mem_append, List.mem_singleton, not_or]
        refine ⟨hd q hq, ?_⟩
        intro e; subst e; exact h2 hq
      simp only [runFrom]
      split
      · exact exit_spec t (held ++ [r]) freed l hl hn' hd'
      · exact ih (i + 1) (held ++ [r]) freed hrest hn' hd'
    | rel r =>
      simp only [wfFrom, Bool.and_eq_true, List.contains_eq_mem, decide_eq_true_eq] at hw
      obtain ⟨_, hrest⟩ := hw
      simp only [runFrom]
      refine ih (i + 1) (held.erase r) (freed ++ [r]) hrest (hn.erase r) ?_
      intro q hq
      simp only [List.mem_append, List.mem_singleton] at hq
      rw [hn.mem_erase_iff]
      rcases hq with hq | hq
      · intro h; exact hd q hq h.2
      · intro h; exact h.1 hq

/-- a successful run means no acquisition and no fallible step failed -/
theorem ok_no_hard_failure (t : Table) (fail : Nat → Bool) :
    ∀ (ops : List Op) (i : Nat) (held freed : List Res),
      (runFrom t fail ops i held freed).ok = true →
      ∀ j op, ops[j]? = some op → op.hard = true → fail (i + j) = false := by
  intro ops
  induction ops with
  | nil => intro i held freed _ j op hj; simp at hj
  | cons o rest ih =>
    intro i held freed hk j op hj hh
    cases o with
    | acq r l =>
      simp only [runFrom] at hk
      split at hk
      · simp [exit] at hk
      · rename_i hf
        cases j with
        | zero => simpa using hf
        | succ j =>
          have := ih (i + 1) _ _ hk j op (by simpa using hj) hh
          rw [show i + (j + 1) = i + 1 + j by omega]; exact this
    | guard l =>
      simp only [runFrom] at hk
      split at hk
      · simp [exit] at hk
      · rename_i hf
        cases j with
        | zero => simpa using hf
        | succ j =>
          have := ih (i + 1) _ _ hk j op (by simpa using hj) hh
          rw [show i + (j + 1) = i + 1 + j by omega]; exact this
    | acqp r l =>
      simp only [runFrom] at hk
      split at hk
      · simp [exit] at hk
      · rename_i hf
        cases j with
        | zero => simpa using hf
        | succ j =>
          have := ih (i + 1) _ _ hk j op (by simpa using hj) hh
          rw [show i + (j + 1) = i + 1 + j by omega]; exact this
    | rel r =>
      simp only [runFrom] at hk
      cases j with
      | zero => simp at hj; subst hj; simp [Op.hard] at hh
      | succ j =>
        have := ih (i + 1) _ _ hk j op (by simpa using hj) hh
        rw [show i + (j + 1) = i + 1 + j by omega]; exact this

end Hawk.Oom.Ft
