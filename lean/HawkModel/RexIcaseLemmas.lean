import HawkModel.RexParseLemmas
/-! REG_ICASE at a literal: the `upper | lower` union `tre_parse` builds accepts exactly what the specification's case
folding (`chrEq`) accepts -/
namespace Hawk.Rex.Tre
open Hawk.Rex

/-- the characters a literal leaf / a union of literal leaves accepts -/
def nodeAccepts (ic : Bool) : Ast → Char → Bool
  | .leaf (.lit l) _ _, d => l.has ic d
  | .union a b _ _, d => nodeAccepts ic a d || nodeAccepts ic b d
  | _, _ => false

/-- both characters ASCII: checked exhaustively by the kernel (2 x 128 x 128 cases) -/
theorem literal_small (icf : Bool) : ∀ n, n < 128 → ∀ m, m < 128 →
    nodeAccepts icf (literalNode ⟨icf, false, false⟩ n 0) (Char.ofNat m) = chrEq icf (Char.ofNat n) (Char.ofNat m) := by
  cases icf <;> decide +kernel

theorem fold_small : ∀ n, n < 128 → (fold (Char.ofNat n)).toNat < 128 := by decide +kernel

theorem lit_has_big (ic : Bool) (k p : Nat) (d : Char) (hk : k < 128) (hd : 128 ≤ d.toNat) :
    Lit.has ic ⟨k, some k, p, none, []⟩ d = false := by
  have e := ofNat_toNat_small k (by omega)
  simp only [Lit.has, hiChar, inRange_nat, e, List.all_nil, Bool.and_true]
  simp
  omega

theorem nodeAccepts_pos (ic : Bool) (cf : CF) (n p : Nat) (d : Char) :
    nodeAccepts ic (literalNode cf n p) d = nodeAccepts ic (literalNode cf n 0) d := by
  unfold literalNode
  split <;> simp [nodeAccepts, mkUnion, mkLit, Lit.has]

theorem literal_big (icf : Bool) (n : Nat) (hn : n < 128) (d : Char) (hd : 128 ≤ d.toNat) :
    nodeAccepts icf (literalNode ⟨icf, false, false⟩ n 0) d = chrEq icf (Char.ofNat n) d := by
  have hu : toUpperN n < 128 := by unfold toUpperN; split <;> omega
  have hl : toLowerN n < 128 := by
    unfold toLowerN isUpperN
    split
    · rename_i h; simp at h; omega
    · omega
  have lhs : nodeAccepts icf (literalNode ⟨icf, false, false⟩ n 0) d = false := by
    unfold literalNode
    split <;> simp [nodeAccepts, mkUnion, mkLit, lit_has_big _ _ _ d hu hd, lit_has_big _ _ _ d hl hd, lit_has_big _ _ _ d hn hd]
  rw [lhs]
  have hne : ∀ c : Char, c.toNat < 128 → (c == d) = false := fun c hc => by
    simp only [beq_eq_false_iff_ne, ne_eq]; intro h; subst h; omega
  cases icf
  · simp only [chrEq, Bool.false_eq_true, if_false]
    exact (hne _ (by rw [ofNat_toNat_small n (by omega)]; exact hn)).symm
  · simp only [chrEq, if_true, fold_big d hd]
    exact (hne _ (fold_small n hn)).symm

/-- **REG_ICASE at a literal is case folding**: for every ASCII pattern character `c` and every subject character `d`
the node `tre_parse` makes for `c` (`upper | lower` under REG_ICASE, the plain literal otherwise) accepts `d` iff the
specification's `chrEq` does (`fold c == fold d`, resp. `c == d`) -/
theorem literalNode_accepts (icf : Bool) (c d : Char) (hc : c.toNat < 128) (pos : Nat) :
    nodeAccepts icf (literalNode ⟨icf, false, false⟩ c.toNat pos) d = chrEq icf c d := by
  rw [nodeAccepts_pos]
  by_cases hd : d.toNat < 128
  · have := literal_small icf c.toNat hc d.toNat hd
    rwa [Char.ofNat_toNat, Char.ofNat_toNat] at this
  · have := literal_big icf c.toNat hc d (by omega)
    rwa [Char.ofNat_toNat] at this

/-- in subject context: the node for an ASCII pattern character matches exactly where the specification's literal
`.chr c` matches under the same IGNORECASE flag -/
theorem literalNode_matches (icf nb ne : Bool) (s : List Char) (c : Char) (hc : c.toNat < 128) (pos i j : Nat) :
    AMatches icf nb ne s (literalNode ⟨icf, false, false⟩ c.toNat pos) i j ↔ Matches ⟨icf, nb, ne⟩ s (.chr c) i j := by
  have key : ∀ d, nodeAccepts icf (literalNode ⟨icf, false, false⟩ c.toNat pos) d = chrEq icf c d :=
    fun d => literalNode_accepts icf c d hc pos
  have shape : AMatches icf nb ne s (literalNode ⟨icf, false, false⟩ c.toNat pos) i j ↔
      (j = i + 1 ∧ ∃ d, s[i]? = some d ∧ nodeAccepts icf (literalNode ⟨icf, false, false⟩ c.toNat pos) d = true) := by
    unfold literalNode
    split
    · simp only [mkUnion, mkLit, AMatches, nodeAccepts, Bool.or_eq_true]
      constructor
      · rintro (⟨hj, d, hd, h⟩ | ⟨hj, d, hd, h⟩)
        · exact ⟨hj, d, hd, Or.inl h⟩
        · exact ⟨hj, d, hd, Or.inr h⟩
      · rintro ⟨hj, d, hd, h | h⟩
        · exact Or.inl ⟨hj, d, hd, h⟩
        · exact Or.inr ⟨hj, d, hd, h⟩
    · simp only [mkLit, AMatches, nodeAccepts]
  rw [shape]
  simp only [Matches, key]

end Hawk.Rex.Tre
