import HawkModel.Expr

/-!
# C08 - the storage layer below the expression evaluator: the frame of block-level locals

`lib/parse.c parse_block()` migrates the `@local`s of every nested block to the frame of the outermost block of a
function / BEGIN / pattern-action: a local's slot is its index in `hawk->parse.lcls` while its block is open
(`outer_nlcls` of the block = size of that array at block entry, plus the position in the block's own declaration);
every block node records `org_nlcls` (how many it declares), `outer_nlcls`, and `nlcls` (the frame size `nlcls_max`
for the outermost block, 0 for nested ones).  `lib/run.c run_block0()` pushes `nlcls` nils for the outermost block and,
for a nested block, sets the slots `[outer_nlcls, outer_nlcls + org_nlcls)` to nil on EVERY entry - sibling blocks share
slots, a loop body is re-entered over the values its previous iteration left.

This file transcribes both sides (`compile` = the parser's slot assignment, `run` = `run_block0` over the flat frame
`Env.lcl`) and gives the semantics the language promises (`srun`: lexically scoped locals, a fresh all-nil frame per
block entry, dropped at exit).  `ExprBlockLemmas.lean` proves that the former simulates the latter for every program,
every placement of the non-local variables and every garbage the frame may contain (the re-entry history).
Core Lean only.
-/

namespace Hawk.Expr
open FloatOps

variable {F : Type} [FloatOps F]

/-! ## the run-time side -/

/-- statements as the parser leaves them -/
inductive Stmt (F : Type) where
  | skip
  /-- expression statement; its value goes to the trace (what a `print` of it would show) -/
  | ex (e : Expr Ref F)
  | seq (a b : Stmt F)
  /-- `HAWK_NDE_BLK` with its three counters -/
  | blk (nlcls org outer : Nat) (body : Stmt F)
  /-- a loop whose body is entered `n` times -/
  | rep (n : Nat) (body : Stmt F)
  | ite (c : Expr Ref F) (t f : Stmt F)

/-- `n`-fold Kleisli iteration -/
def iter {α : Type} : Nat → (α → Except Err α) → α → Except Err α
  | 0, _, a => .ok a
  | n + 1, f, a => f a >>= iter n f

/-- `for (tmp = lo; tmp < hi; tmp++) HAWK_RTX_STACK_LCL(rtx, tmp) = hawk_val_nil;` -/
def resetLcls (e : Env F) (lo hi : Nat) : Env F :=
  { e with lcl := fun j => if lo ≤ j ∧ j < hi then .sc .nil else e.lcl j }

/-- `run_statement` / `run_block0`; the state carries the trace of the values of the expression statements.
The outermost block (`nlcls > 0`) pushes `nlcls` nils: the slots `0 .. nlcls-1` of the new frame are nil (the matching
pop at the end is a no-op on a function-shaped frame: whatever stays in the slots is unreachable garbage).
A nested block whose locals were migrated (`nlcls = 0 ≠ org_nlcls`) resets exactly its own slots. -/
def run (X : Ext F) : Stmt F → Env F × List (Val F) → Except Err (Env F × List (Val F))
  | .skip, s => .ok s
  | .ex e, (env, tr) => do
    let (v, env1) ← eval X (envStorage X) e env
    pure (env1, tr ++ [v])
  | .seq a b, s => run X a s >>= run X b
  | .blk nlcls org outer body, (env, tr) =>
    if nlcls > 0 then run X body (resetLcls env 0 nlcls, tr)
    else if nlcls ≠ org then run X body (resetLcls env outer (outer + org), tr)
    else run X body (env, tr)
  | .rep n body, s => iter n (run X body) s
  | .ite c t f, (env, tr) => do
    let (v, env1) ← eval X (envStorage X) c env
    if toBool v then run X t (env1, tr) else run X f (env1, tr)

/-! ## the source side -/

/-- source-level variable references -/
inductive SRef where
  /-- the `idx`-th `@local` of the block `up` levels out from the innermost enclosing block -/
  | loc (up idx : Nat)
  /-- any other variable (named, global, parameter, element of a map or array): abstract slot `i` -/
  | oth (i : Nat)
  deriving DecidableEq, Repr

/-- source statements; `blk k body` is a block declaring `k` locals -/
inductive SStmt (F : Type) where
  | skip
  | ex (e : Expr SRef F)
  | seq (a b : SStmt F)
  | blk (k : Nat) (body : SStmt F)
  | rep (n : Nat) (body : SStmt F)
  | ite (c : Expr SRef F) (t f : SStmt F)

/-- parser context: `(outer_nlcls, org_nlcls)` of the open blocks, innermost first -/
abbrev PCtx := List (Nat × Nat)

/-- `HAWK_ARR_SIZE(hawk->parse.lcls)` -/
def lclsSize : PCtx → Nat
  | [] => 0
  | (o, k) :: _ => o + k

/-- index of a local in `parse.lcls` = its frame slot -/
def slotOf (ctx : PCtx) (up idx : Nat) : Nat := (ctx.getD up (0, 0)).1 + idx

/-- name resolution: locals to `HAWK_NDE_LCL` with their slot, everything else as the placement `ρ` says -/
def resolve (ρ : Nat → Ref) (ctx : PCtx) : SRef → Ref
  | .loc up idx => .plain (.lcl (slotOf ctx up idx))
  | .oth i => ρ i

/-- what a statement contributes to `hawk->parse.nlcls_max` -/
def maxLcls : SStmt F → PCtx → Nat
  | .blk k body, ctx => max (lclsSize ctx + k) (maxLcls body ((lclsSize ctx, k) :: ctx))
  | .seq a b, ctx => max (maxLcls a ctx) (maxLcls b ctx)
  | .ite _ t f, ctx => max (maxLcls t ctx) (maxLcls f ctx)
  | .rep _ b, ctx => maxLcls b ctx
  | _, _ => 0

/-- `parse_block(istop = 0)` and the statements around it -/
def compile (ρ : Nat → Ref) : SStmt F → PCtx → Stmt F
  | .skip, _ => .skip
  | .ex e, ctx => .ex (e.map (resolve ρ ctx))
  | .seq a b, ctx => .seq (compile ρ a ctx) (compile ρ b ctx)
  | .blk k body, ctx => .blk 0 k (lclsSize ctx) (compile ρ body ((lclsSize ctx, k) :: ctx))
  | .rep n b, ctx => .rep n (compile ρ b ctx)
  | .ite c t f, ctx => .ite (c.map (resolve ρ ctx)) (compile ρ t ctx) (compile ρ f ctx)

/-- `parse_block(istop = 1)`: the body block of a function / BEGIN / action, declaring `k` locals -/
def compileTop (ρ : Nat → Ref) (k : Nat) (body : SStmt F) : Stmt F :=
  .blk (max k (maxLcls body [(0, k)])) k 0 (compile ρ body [(0, k)])

/-! ## the semantics the language promises: lexically scoped locals -/

/-- values of the non-local variables, and one frame per open block (innermost first) -/
abbrev SState (F : Type) := Store F × List (Nat → Val F)

def nilFrame : Nat → Val F := fun _ => .nil

def frameSet (f : Nat → Val F) (i : Nat) (v : Val F) : Nat → Val F := fun j => if j = i then v else f j

def modifyAt {α : Type} (g : α → α) : List α → Nat → List α
  | [], _ => []
  | a :: as, 0 => g a :: as
  | a :: as, n + 1 => a :: modifyAt g as n

def scopedStorage : Storage (SState F) SRef F where
  read := fun r s =>
    match r with
    | .loc up idx => .ok ((s.2.getD up nilFrame) idx, s)
    | .oth i => .ok (s.1 i, s)
  write := fun r v s =>
    match r with
    | .loc up idx => .ok (s.1, modifyAt (fun f => frameSet f idx v) s.2 up)
    | .oth i => .ok (s.1.set i v, s.2)

/-- a block entry creates a fresh frame of nils, the exit drops it -/
def srun (X : Ext F) : SStmt F → SState F × List (Val F) → Except Err (SState F × List (Val F))
  | .skip, s => .ok s
  | .ex e, (st, tr) => do
    let (v, st1) ← eval X scopedStorage e st
    pure (st1, tr ++ [v])
  | .seq a b, s => srun X a s >>= srun X b
  | .blk _ body, (st, tr) => do
    let (st', tr') ← srun X body ((st.1, nilFrame :: st.2), tr)
    pure ((st'.1, st'.2.tail), tr')
  | .rep n body, s => iter n (srun X body) s
  | .ite c t f, (st, tr) => do
    let (v, st1) ← eval X scopedStorage c st
    if toBool v then srun X t (st1, tr) else srun X f (st1, tr)

/-! ## calling a function whose body is a block program, with by-reference parameters -/

/-- `f(a0, a1, ...)` for `function f(&p0, &p1, ...) BODY` where `prog` is the compiled body block:
`hawk_rtx_evalcall` pushes the arguments by value; the callee's frame of locals lies on the stack above the caller's,
where earlier calls left `garbage`; named variables and globals are shared; after the body every parameter is copied
back through its argument node; the caller's own frame is untouched. -/
def evalCallByRefBlk (X : Ext F) (args : List Ref) (prog : Stmt F) (garbage : Nat → Cell F)
    (e : Env F) (tr : List (Val F)) : Except Err (Env F × List (Val F)) := do
  let (vals, e1) ← pushArgs args e
  let callee : Env F :=
    { named := e1.named, gbl := e1.gbl, lcl := garbage, arg := fun i => .sc (vals.getD i .nil) }
  let (callee', tr') ← run X prog (callee, tr)
  let back : Env F := { named := callee'.named, gbl := callee'.gbl, lcl := e1.lcl, arg := e1.arg }
  let e2 ← copyBackAll X.flexmap callee'.arg args 0 back
  pure (e2, tr')

/-! ## which C function serves which reference kind / expression node
(compared with the dispatch tables generated from `eval_expression0` and `do_assignment` in `Props/C08.lean`) -/

/-- the node type (`HAWK_NDE_` prefix stripped) of a variable reference -/
def Ref.nde : Ref → String
  | .plain (.named _) => "NAMED"
  | .plain (.gbl _) => "GBL"
  | .plain (.lcl _) => "LCL"
  | .plain (.arg _) => "ARG"
  | .idx (.named _) _ => "NAMEDIDX"
  | .idx (.gbl _) _ => "GBLIDX"
  | .idx (.lcl _) _ => "LCLIDX"
  | .idx (.arg _) _ => "ARGIDX"

/-- the evaluator `envRead` transcribes for the reference -/
def Ref.evaluator : Ref → String
  | .plain (.named _) => "eval_named"
  | .plain (.gbl _) => "eval_gbl"
  | .plain (.lcl _) => "eval_lcl"
  | .plain (.arg _) => "eval_arg"
  | .idx (.named _) _ => "eval_namedidx"
  | .idx (.gbl _) _ => "eval_gblidx"
  | .idx (.lcl _) _ => "eval_lclidx"
  | .idx (.arg _) _ => "eval_argidx"

/-- the assigner `envWrite` transcribes for the reference -/
def Ref.assigner : Ref → String
  | .plain _ => "do_assignment_nonindexed"
  | .idx _ _ => "do_assignment_indexed"

/-- the constructors of `Expr` (other than `var`): node type and the evaluator `eval` transcribes in that case -/
def exprCtorDispatch : List (String × String) :=
  [("INT", "eval_int"), ("FLT", "eval_flt"), ("STR", "eval_str"), ("MBS", "eval_mbs"), ("CHAR", "eval_char"),
   ("BCHR", "eval_bchr"), ("XNIL", "eval_xnil"), ("EXP_UNR", "eval_unary"), ("EXP_BIN", "eval_binary"),
   ("CND", "eval_cnd"), ("ASS", "eval_assignment"), ("EXP_INCPRE", "eval_incpre"), ("EXP_INCPST", "eval_incpst")]

end Hawk.Expr
