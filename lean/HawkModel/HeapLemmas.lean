import HawkModel.Arr
/-!
  Lemmas for the binary max-heap model of `HawkModel/Arr.lean`
  (sift_up / sift_down / pushheap / deleteheap / updateheap).

  The C code moves a "hole" instead of swapping.  With the hole at `index` and the
  lifted value `tmp`, all statements are phrased over `L := l.set index tmp`.

  * `UpInv L index`   : every edge `i → hparent i` with `i ≠ index` is ordered, and every
                        child of `index` is below the grandparent `L[hparent index]`.
  * `DownInv L index` : every edge `i → hparent i` with `hparent i ≠ index` is ordered, and
                        every child of `index` is below `L[hparent index]`.
-/
namespace Hawk.Arr

/-! ### the comparator -/

theorem cmp_pos (a b : Nat) : cmp a b > 0 ↔ b < a := by
  unfold cmp; split <;> (try split) <;> omega

theorem cmp_nonpos (a b : Nat) : cmp a b ≤ 0 ↔ a ≤ b := by
  unfold cmp; split <;> (try split) <;> omega

theorem cmp_neg (a b : Nat) : cmp a b < 0 ↔ a < b := by
  unfold cmp; split <;> (try split) <;> omega

theorem cmp_ne_zero (a b : Nat) : cmp a b ≠ 0 ↔ a ≠ b := by
  unfold cmp; split <;> (try split) <;> omega

/-! ### reading cells -/

theorem getD_set (l : List Nat) (i j v : Nat) :
    (l.set i v).getD j 0 = if i = j ∧ i < l.length then v else l.getD j 0 := by
  simp only [List.getD_eq_getElem?_getD, List.getElem?_set]
  by_cases h : i = j
  · subst h
    by_cases h2 : i < l.length
    · simp [h2]
    · simp [h2]
  · simp [h]

theorem getD_take (l : List Nat) (n j : Nat) :
    (l.take n).getD j 0 = if j < n then l.getD j 0 else 0 := by
  simp only [List.getD_eq_getElem?_getD, List.getElem?_take]
  split <;> simp

theorem getD_append_single (l : List Nat) (v j : Nat) :
    (l ++ [v]).getD j 0 = if j < l.length then l.getD j 0 else if j = l.length then v else 0 := by
  simp only [List.getD_eq_getElem?_getD, List.getElem?_append]
  split
  · rfl
  · split
    · next h => simp [h]
    · next h1 h2 =>
      have : j - l.length ≠ 0 := by omega
      cases hk : j - l.length with
      | zero => omega
      | succ k => simp

theorem getD_eq_getElem (l : List Nat) (i : Nat) (h : i < l.length) : l.getD i 0 = l[i] := by
  simp [List.getD_eq_getElem?_getD, List.getElem?_eq_getElem h]

theorem set_getD_self (l : List Nat) (i : Nat) : l.set i (l.getD i 0) = l := by
  by_cases h : i < l.length
  · rw [getD_eq_getElem l i h]; exact List.set_getElem_self h
  · exact List.set_eq_of_length_le (by omega)

/-! ### lengths -/

theorem siftUpLoop_length (tmp : Nat) (l : List Nat) (i : Nat) :
    (siftUpLoop tmp l i).1.length = l.length := by
  fun_induction siftUpLoop tmp l i with
  | case1 l => simp
  | case2 l index h parent l1 hp => simp [l1]
  | case3 l index h parent l1 hp hc => simp [l1]
  | case4 l index h parent l1 hp hc ih => simpa [l1] using ih

theorem siftDownLoop_length (tmp : Nat) (l : List Nat) (i : Nat) :
    (siftDownLoop tmp l i).1.length = l.length := by
  fun_induction siftDownLoop tmp l i with
  | case1 l index child hc => simp
  | case2 l index child hc l1 hlt ih => simpa [l1] using ih
  | case3 l index child hc l1 hlt => simp [l1]

theorem siftUp_length (l : List Nat) (i : Nat) : (siftUp l i).1.length = l.length := by
  unfold siftUp
  split
  · split
    · exact siftUpLoop_length _ _ _
    · rfl
  · rfl

theorem siftDown_length (l : List Nat) (i : Nat) : (siftDown l i).1.length = l.length := by
  unfold siftDown
  split
  · exact siftDownLoop_length _ _ _
  · rfl

/-! ### permutations -/

/-- overwriting cell `i` with `x` trades `t[i]` for `x` -/
theorem cons_set_perm (t : List Nat) (i x : Nat) (h : i < t.length) :
    (t.getD i 0 :: t.set i x).Perm (x :: t) := by
  induction t generalizing i with
  | nil => simp at h
  | cons y ys ih =>
    cases i with
    | zero => simpa using List.Perm.swap x y ys
    | succ k =>
      have hk : k < ys.length := by simpa using h
      have h1 := ih k hk
      have e1 : (y :: ys).getD (k + 1) 0 = ys.getD k 0 := by simp [List.getD_eq_getElem?_getD]
      rw [e1, List.set_cons_succ]
      exact (List.Perm.swap y (ys.getD k 0) (ys.set k x)).trans
        ((h1.cons y).trans (List.Perm.swap x y ys))

/-- one hole move: the hole (holding `tmp`) at `i` and the value at `j` change places -/
theorem hole_move_perm (l : List Nat) (i j tmp : Nat) (hi : i < l.length) (hj : j < l.length)
    (hij : i ≠ j) : ((l.set i (l.getD j 0)).set j tmp).Perm (l.set i tmp) := by
  -- both sides, with `l[j]` put in front, are permutations of `tmp :: l.set i (l[j])`
  have h1 := cons_set_perm (l.set i (l.getD j 0)) j tmp (by simpa using hj)
  have e1 : (l.set i (l.getD j 0)).getD j 0 = l.getD j 0 := by
    rw [getD_set]; simp [hij]
  rw [e1] at h1
  have h2 := cons_set_perm (l.set i tmp) i (l.getD j 0) (by simpa using hi)
  have e2 : (l.set i tmp).getD i 0 = tmp := by
    rw [getD_set]; simp [hi]
  rw [e2, List.set_set] at h2
  -- h1 : l[j] :: (l.set i l[j]).set j tmp ~ tmp :: l.set i l[j]
  -- h2 : tmp :: l.set i l[j] ~ l[j] :: l.set i tmp
  exact (h1.trans h2).cons_inv

theorem hparent_lt (i : Nat) (h : i ≠ 0) : hparent i < i := by
  unfold hparent; omega

theorem siftUpLoop_perm (tmp : Nat) (l : List Nat) (i : Nat) (h : i < l.length) :
    (siftUpLoop tmp l i).1.Perm (l.set i tmp) := by
  fun_induction siftUpLoop tmp l i with
  | case1 l => exact List.Perm.refl _
  | case2 l index h0 parent l1 hp =>
    have := hparent_lt index h0
    exact hole_move_perm l index parent tmp h (by omega) (by omega)
  | case3 l index h0 parent l1 hp hc =>
    have := hparent_lt index h0
    exact hole_move_perm l index parent tmp h (by omega) (by omega)
  | case4 l index h0 parent l1 hp hc ih =>
    have := hparent_lt index h0
    have hpl : parent < l.length := by omega
    exact (ih (by simpa [l1] using hpl)).trans
      (hole_move_perm l index parent tmp h hpl (by omega))

theorem siftUp_perm (l : List Nat) (i : Nat) (h : i < l.length) : (siftUp l i).1.Perm l := by
  unfold siftUp
  split
  · split
    · have := siftUpLoop_perm (l.getD i 0) l i h
      rwa [set_getD_self] at this
    · exact List.Perm.refl _
  · exact List.Perm.refl _

theorem pickChild_cases (l : List Nat) (i : Nat) :
    pickChild l i = 2 * i + 1 ∨ (pickChild l i = 2 * i + 2 ∧ 2 * i + 2 < l.length) := by
  unfold pickChild; split
  · split
    · right; omega
    · left; rfl
  · left; rfl

theorem siftDownLoop_perm (tmp : Nat) (l : List Nat) (i : Nat) (h : i < l.length / 2) :
    (siftDownLoop tmp l i).1.Perm (l.set i tmp) := by
  fun_induction siftDownLoop tmp l i with
  | case1 l index child hc => exact List.Perm.refl _
  | case2 l index child hc l1 hlt ih =>
    have hpc := pickChild_cases l index
    have hcl : child < l.length := by omega
    exact (ih (by simpa [l1] using hlt)).trans
      (hole_move_perm l index child tmp (by omega) hcl (by omega))
  | case3 l index child hc l1 hlt =>
    have hpc := pickChild_cases l index
    have hcl : child < l.length := by omega
    exact hole_move_perm l index child tmp (by omega) hcl (by omega)

theorem siftDown_perm (l : List Nat) (i : Nat) (h : i < l.length) : (siftDown l i).1.Perm l := by
  have _ := h
  unfold siftDown
  split
  · next h2 =>
    have := siftDownLoop_perm (l.getD i 0) l i h2
    rwa [set_getD_self] at this
  · exact List.Perm.refl _

/-! ### heap order: sift-up -/

/-- the sift-up loop invariant over `L = l.set index tmp` (the hole filled with the lifted value) -/
def UpInv (L : List Nat) (index : Nat) : Prop :=
  (∀ i, 0 < i → i < L.length → i ≠ index → L.getD i 0 ≤ L.getD (hparent i) 0) ∧
  (0 < index → ∀ i, 0 < i → i < L.length → hparent i = index →
    L.getD i 0 ≤ L.getD (hparent index) 0)

theorem upInv_step (tmp : Nat) (l : List Nat) (index : Nat) (h : index < l.length)
    (h0 : index ≠ 0) (inv : UpInv (l.set index tmp) index)
    (hd : l.getD (hparent index) 0 ≤ tmp) :
    UpInv ((l.set index (l.getD (hparent index) 0)).set (hparent index) tmp) (hparent index) := by
  obtain ⟨hb, hc⟩ := inv
  have hpl := hparent_lt index h0
  refine ⟨?_, ?_⟩
  · intro i hi0 hil hne
    have b1 := hb i hi0 (by simpa using hil)
    have b2 := hb (hparent index)
    have c1 := hc (by omega) i hi0 (by simpa using hil)
    have hpi := hparent_lt i (by omega)
    simp only [getD_set, List.length_set] at *
    grind
  · intro hp0 i hi0 hil hpi
    have b1 := hb i hi0 (by simpa using hil)
    have b2 := hb (hparent index) hp0 (by simp; omega) (by omega)
    have hpp := hparent_lt (hparent index) (by omega)
    simp only [getD_set, List.length_set] at *
    grind

/-- an `UpInv` list whose remaining edge `index → hparent index` is ordered is a heap -/
theorem heapOrd_of_upInv (L : List Nat) (index : Nat) (inv : UpInv L index)
    (hd : 0 < index → L.getD index 0 ≤ L.getD (hparent index) 0) : HeapOrd L := by
  intro i hi0 hil
  by_cases hne : i = index
  · subst hne; exact hd hi0
  · exact inv.1 i hi0 hil hne

theorem siftUpLoop_heap (tmp : Nat) (l : List Nat) (index : Nat) (h : index < l.length)
    (inv : UpInv (l.set index tmp) index) (hd : 0 < index → l.getD (hparent index) 0 ≤ tmp) :
    HeapOrd (siftUpLoop tmp l index).1 := by
  fun_induction siftUpLoop tmp l index with
  | case1 l => exact heapOrd_of_upInv _ 0 inv (by omega)
  | case2 l index h0 parent l1 hp =>
    have st := upInv_step tmp l index h h0 inv (hd (by omega))
    exact heapOrd_of_upInv _ parent st (by omega)
  | case3 l index h0 parent l1 hp hc =>
    have st := upInv_step tmp l index h h0 inv (hd (by omega))
    have hpl := hparent_lt index h0
    have hpp := hparent_lt parent hp
    refine heapOrd_of_upInv _ parent st ?_
    intro _
    rw [cmp_nonpos] at hc
    have e1 : (l1.set parent tmp).getD parent 0 = tmp := by
      rw [getD_set]; simp [l1]; omega
    have e2 : (l1.set parent tmp).getD (hparent parent) 0 = l1.getD (hparent parent) 0 := by
      rw [getD_set]; simp; omega
    rw [e1, e2]; exact hc
  | case4 l index h0 parent l1 hp hc ih =>
    have st := upInv_step tmp l index h h0 inv (hd (by omega))
    have hpl := hparent_lt index h0
    rw [cmp_nonpos] at hc
    exact ih (by simp [l1]; omega) st (by intro _; omega)

/-- sift_up repairs a list that is heap-ordered except possibly at the edge above `index` -/
theorem siftUp_heap (l : List Nat) (index : Nat) (h : index < l.length) (inv : UpInv l index) :
    HeapOrd (siftUp l index).1 := by
  unfold siftUp
  split
  · next hpos =>
    split
    · next hc =>
      rw [cmp_pos] at hc
      exact siftUpLoop_heap _ l index h (by rwa [set_getD_self]) (by intro _; omega)
    · next hc =>
      rw [cmp_pos] at hc
      exact heapOrd_of_upInv l index inv (by intro _; omega)
  · next hpos => exact heapOrd_of_upInv l index inv (by omega)

/-! ### heap order: sift-down -/

/-- the sift-down loop invariant over `L = l.set index tmp` -/
def DownInv (L : List Nat) (index : Nat) : Prop :=
  (∀ i, 0 < i → i < L.length → hparent i ≠ index → L.getD i 0 ≤ L.getD (hparent i) 0) ∧
  (0 < index → ∀ i, 0 < i → i < L.length → hparent i = index →
    L.getD i 0 ≤ L.getD (hparent index) 0)

/-- `pickChild` returns an in-range child of `index` holding the greatest child value -/
theorem pickChild_spec (l : List Nat) (index : Nat) (h : index < l.length / 2) :
    pickChild l index < l.length ∧ 0 < pickChild l index ∧ hparent (pickChild l index) = index ∧
    ∀ i, 0 < i → i < l.length → hparent i = index →
      l.getD i 0 ≤ l.getD (pickChild l index) 0 := by
  unfold pickChild
  split
  · next h2 =>
    split
    · next hc =>
      rw [cmp_pos] at hc
      refine ⟨by omega, by omega, by unfold hparent; omega, ?_⟩
      intro i hi0 hil hpi
      have : i = 2 * index + 1 ∨ i = 2 * index + 2 := by unfold hparent at hpi; omega
      rcases this with rfl | rfl <;> omega
    · next hc =>
      rw [cmp_pos] at hc
      refine ⟨by omega, by omega, by unfold hparent; omega, ?_⟩
      intro i hi0 hil hpi
      have : i = 2 * index + 1 ∨ i = 2 * index + 2 := by unfold hparent at hpi; omega
      rcases this with rfl | rfl <;> omega
  · next h2 =>
    refine ⟨by omega, by omega, by unfold hparent; omega, ?_⟩
    intro i hi0 hil hpi
    have : i = 2 * index + 1 := by unfold hparent at hpi; omega
    subst this; omega

theorem downInv_step (tmp : Nat) (l : List Nat) (index : Nat) (h : index < l.length / 2)
    (inv : DownInv (l.set index tmp) index)
    (hle : tmp ≤ l.getD (pickChild l index) 0) :
    DownInv ((l.set index (l.getD (pickChild l index) 0)).set (pickChild l index) tmp)
      (pickChild l index) := by
  obtain ⟨hb, hc⟩ := inv
  obtain ⟨hcl, hc0, hpc, hmax⟩ := pickChild_spec l index h
  generalize pickChild l index = child at *
  have hil : index < l.length := by omega
  have hlt : index < child := by have := hparent_lt child (by omega); omega
  refine ⟨?_, ?_⟩
  · intro i hi0 hilen hne
    have b1 := hb i hi0 (by simpa using hilen)
    have c1 := hc
    have m1 := hmax i hi0 (by simpa using hilen)
    have hpi := hparent_lt i (by omega)
    simp only [getD_set, List.length_set] at *
    grind
  · intro _ i hi0 hilen hpi
    have b1 := hb i hi0 (by simpa using hilen) (by omega)
    have hpi' := hparent_lt i (by omega)
    simp only [getD_set, List.length_set] at *
    grind

/-- a `DownInv` list whose edges below `index` are ordered is a heap -/
theorem heapOrd_of_downInv (L : List Nat) (index : Nat) (inv : DownInv L index)
    (hd : ∀ i, 0 < i → i < L.length → hparent i = index → L.getD i 0 ≤ L.getD index 0) :
    HeapOrd L := by
  intro i hi0 hil
  by_cases hne : hparent i = index
  · have := hd i hi0 hil hne; rwa [hne]
  · exact inv.1 i hi0 hil hne

theorem siftDownLoop_heap (tmp : Nat) (l : List Nat) (index : Nat) (h : index < l.length / 2)
    (inv : DownInv (l.set index tmp) index) : HeapOrd (siftDownLoop tmp l index).1 := by
  fun_induction siftDownLoop tmp l index with
  | case1 l index child hc =>
    have hce : child = pickChild l index := rfl
    rw [cmp_pos, hce] at hc
    obtain ⟨hcl, hc0, hpc, hmax⟩ := pickChild_spec l index h
    refine heapOrd_of_downInv _ index inv ?_
    intro i hi0 hil hpi
    have m1 := hmax i hi0 (by simpa using hil) hpi
    have hpi' := hparent_lt i (by omega)
    have hil' : index < l.length := by omega
    have hne : ¬ index = i := by omega
    show (l.set index tmp).getD i 0 ≤ (l.set index tmp).getD index 0
    rw [getD_set, getD_set]
    simp only [hne, hil', false_and, true_and, if_false, if_true]
    omega
  | case2 l index child hc l1 hlt ih =>
    have hce : child = pickChild l index := rfl
    rw [cmp_pos, hce] at hc
    rw [hce] at hlt
    have st := downInv_step tmp l index h inv (by omega)
    exact ih (by simpa [l1] using hlt) st
  | case3 l index child hc l1 hlt =>
    have hce : child = pickChild l index := rfl
    rw [cmp_pos, hce] at hc
    have st := downInv_step tmp l index h inv (by omega)
    refine heapOrd_of_downInv _ child st ?_
    intro i hi0 hil hpi
    exfalso
    simp only [List.length_set, l1] at hil
    unfold hparent at hpi
    omega

/-- sift_down repairs a list that is heap-ordered except possibly at the edges below `index` -/
theorem siftDown_heap (l : List Nat) (index : Nat) (inv : DownInv l index) :
    HeapOrd (siftDown l index).1 := by
  unfold siftDown
  split
  · next h => exact siftDownLoop_heap _ l index h (by rwa [set_getD_self])
  · next h =>
    refine heapOrd_of_downInv l index inv ?_
    intro i hi0 hil hpi
    exfalso
    unfold hparent at hpi
    omega

/-! ### establishing the invariants from a heap -/

theorem heapOrd_take (l : List Nat) (n : Nat) (h : HeapOrd l) : HeapOrd (l.take n) := by
  intro i hi0 hil
  have hil' : i < n ∧ i < l.length := by
    rw [List.length_take] at hil; omega
  have hpi := hparent_lt i (by omega)
  have := h i hi0 hil'.2
  rw [getD_take, getD_take]
  simp only [hil'.1, (by omega : hparent i < n), if_true]
  exact this

/-- raising the value at `index` of a heap leaves only the edge above `index` to repair -/
theorem upInv_set (l : List Nat) (index v : Nat) (h : HeapOrd l) (hi : index < l.length)
    (hv : l.getD index 0 ≤ v) : UpInv (l.set index v) index := by
  refine ⟨?_, ?_⟩
  · intro i hi0 hil hne
    have h1 := h i hi0 (by simpa using hil)
    have h2 := h index
    have hpi := hparent_lt i (by omega)
    simp only [getD_set, List.length_set] at *
    grind
  · intro hpos i hi0 hil hpi
    have h1 := h i hi0 (by simpa using hil)
    have h2 := h index hpos hi
    have hpi' := hparent_lt i (by omega)
    have hpp := hparent_lt index (by omega)
    simp only [getD_set, List.length_set] at *
    grind

/-- lowering the value at `index` of a heap leaves only the edges below `index` to repair -/
theorem downInv_set (l : List Nat) (index v : Nat) (h : HeapOrd l) (hi : index < l.length)
    (hv : v ≤ l.getD index 0) : DownInv (l.set index v) index := by
  refine ⟨?_, ?_⟩
  · intro i hi0 hil hne
    have h1 := h i hi0 (by simpa using hil)
    have hpi := hparent_lt i (by omega)
    simp only [getD_set, List.length_set] at *
    grind
  · intro hpos i hi0 hil hpi
    have h1 := h i hi0 (by simpa using hil)
    have h2 := h index hpos hi
    have hpi' := hparent_lt i (by omega)
    have hpp := hparent_lt index (by omega)
    simp only [getD_set, List.length_set] at *
    grind

/-! ### pushheap -/

theorem pushheap_perm (l : List Nat) (v : Nat) : (pushheap l v).Perm (v :: l) := by
  unfold pushheap
  exact (siftUp_perm (l ++ [v]) l.length (by simp)).trans (List.perm_append_singleton v l)

theorem pushheap_heap (l : List Nat) (v : Nat) (h : HeapOrd l) : HeapOrd (pushheap l v) := by
  unfold pushheap
  refine siftUp_heap (l ++ [v]) l.length (by simp) ⟨?_, ?_⟩
  · intro i hi0 hil hne
    have hil' : i < l.length := by simp at hil; omega
    have hpi := hparent_lt i (by omega)
    rw [getD_append_single, getD_append_single]
    simp only [hil', (by omega : hparent i < l.length), if_true]
    exact h i hi0 hil'
  · intro _ i hi0 hil hpi
    exfalso
    simp at hil
    unfold hparent at hpi
    omega

/-! ### deleteheap -/

theorem take_pred_append_last (l : List Nat) (hl : 0 < l.length) :
    l.take (l.length - 1) ++ [l.getD (l.length - 1) 0] = l := by
  have hn : l.length - 1 < l.length := by omega
  rw [getD_eq_getElem l _ hn, List.take_append_getElem hn]
  exact List.take_of_length_le (by omega)

theorem deleteheap_perm (l : List Nat) (i : Nat) (hi : i < l.length) :
    (l[i] :: (deleteheap l i).1).Perm l := by
  unfold deleteheap
  simp only [hi, dite_true]
  have hlast := take_pred_append_last l (by omega)
  have hpl : (l.getD (l.length - 1) 0 :: l.take (l.length - 1)).Perm l := by
    have := (List.perm_append_singleton (l.getD (l.length - 1) 0) (l.take (l.length - 1))).symm
    rwa [hlast] at this
  split
  · next hc =>
    have hin : i < (l.take (l.length - 1)).length := by simp [List.length_take]; omega
    -- the array handed to the sift functions
    have e1 : (l.set i (l.getD (l.length - 1) 0)).take (l.length - 1)
        = (l.take (l.length - 1)).set i (l.getD (l.length - 1) 0) := List.take_set
    have hl1 : (l[i] :: (l.take (l.length - 1)).set i (l.getD (l.length - 1) 0)).Perm l := by
      have := cons_set_perm (l.take (l.length - 1)) i (l.getD (l.length - 1) 0) hin
      rw [getD_take, if_pos (by omega), getD_eq_getElem l i hi] at this
      exact this.trans hpl
    rw [e1]
    have hin' : i < ((l.take (l.length - 1)).set i (l.getD (l.length - 1) 0)).length := by
      simpa using hin
    split
    · exact ((siftUp_perm _ i hin').cons _).trans hl1
    · split
      · exact ((siftDown_perm _ i hin').cons _).trans hl1
      · exact hl1
  · next hc =>
    have : i = l.length - 1 := by omega
    subst this
    rw [← getD_eq_getElem l _ hi]
    exact hpl

theorem deleteheap_heap (l : List Nat) (i : Nat) (h : HeapOrd l) (hi : i < l.length) :
    HeapOrd (deleteheap l i).1 := by
  unfold deleteheap
  simp only [hi, dite_true]
  have ht := heapOrd_take l (l.length - 1) h
  split
  · next hc =>
    have hin : i < (l.take (l.length - 1)).length := by simp [List.length_take]; omega
    have e1 : (l.set i (l.getD (l.length - 1) 0)).take (l.length - 1)
        = (l.take (l.length - 1)).set i (l.getD (l.length - 1) 0) := List.take_set
    have e2 : ((l.take (l.length - 1)).set i (l.getD (l.length - 1) 0)).getD i 0
        = l.getD (l.length - 1) 0 := by
      rw [getD_set]; simp only [hin, and_self, if_true]
    have e3 : (l.take (l.length - 1)).getD i 0 = l[i] := by
      rw [getD_take, if_pos (by omega), getD_eq_getElem l i hi]
    rw [e1, e2]
    have hin' : i < ((l.take (l.length - 1)).set i (l.getD (l.length - 1) 0)).length := by
      simpa using hin
    split
    · next hgt =>
      rw [cmp_pos] at hgt
      exact siftUp_heap _ i hin' (upInv_set _ i _ ht hin (by omega))
    · next hgt =>
      split
      · next hlt =>
        rw [cmp_neg] at hlt
        exact siftDown_heap _ i (downInv_set _ i _ ht hin (by omega))
      · next hlt =>
        rw [cmp_pos] at hgt
        rw [cmp_neg] at hlt
        have : l.getD (l.length - 1) 0 = (l.take (l.length - 1)).getD i 0 := by omega
        rw [this, set_getD_self]
        exact ht
  · exact ht

/-! ### updateheap -/

theorem updateheap_perm (l : List Nat) (i v : Nat) (hi : i < l.length) :
    (updateheap l i v).1.Perm (l.set i v) := by
  unfold updateheap
  simp only [hi, dite_true]
  have hin : i < (l.set i v).length := by simpa using hi
  split
  · split
    · exact siftUp_perm _ i hin
    · exact siftDown_perm _ i hin
  · next hc =>
    have : v = l[i] := by
      by_cases hv : v = l[i]
      · exact hv
      · exact absurd ((cmp_ne_zero v l[i]).mpr hv) hc
    rw [this, List.set_getElem_self hi]

theorem updateheap_heap (l : List Nat) (i v : Nat) (h : HeapOrd l) (hi : i < l.length) :
    HeapOrd (updateheap l i v).1 := by
  unfold updateheap
  simp only [hi, dite_true]
  have hin : i < (l.set i v).length := by simpa using hi
  have e := getD_eq_getElem l i hi
  split
  · next hne =>
    rw [cmp_ne_zero] at hne
    split
    · next hgt =>
      rw [cmp_pos] at hgt
      exact siftUp_heap _ i hin (upInv_set l i v h hi (by omega))
    · next hgt =>
      rw [cmp_pos] at hgt
      exact siftDown_heap _ i (downInv_set l i v h hi (by omega))
  · exact h

end Hawk.Arr
