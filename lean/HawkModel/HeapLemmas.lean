import HawkModel.Arr
namespace Hawk.Arr
end Hawk.Arr
