/-!
# C07 — executable model of hawk's value-lifetime machinery (lib/val.c, lib/run.c fini_rtx)

Reference counts (`hawk_rtx_refupval` / `hawk_rtx_refdownval` / `hawk_rtx_freeval`), the element
freeers of maps and arrays (`free_mapval` / `free_arrval`) and the generational cycle collector
(`gc_trace_refs`, `gc_move_reachables`, `gc_free_unreachables`, `gc_collect_garbage_in_generation`,
`gc_collect_garbage_auto`, `hawk_rtx_gc`, `gc_calloc_val`), transcribed from the C.

* Only containers (maps and arrays, the `v_gc` values) are objects of the heap.  Leaf values
  (strings, numbers) are not modelled: they have no children, so they are plain reference
  counted values and never take part in a collection.
* `Heap = List (Option Obj)`: the identity of an object is its index (allocation order); a freed
  object leaves `none` behind, identities are never reused.
* `Obj.gen ∈ {0,1,2}` says in which list `rtx->gc.g[gen]` the object is chained; `3` (`TMP`) is the
  local list `reachable` of `gc_collect_garbage_in_generation` and only occurs inside `collectGen`.
* `Obj.gcRefs : Int` is `hawk_gch_t.gc_refs` (a `hawk_uintptr_t`) read as a two's-complement number:
  `GCH_MOVED = HAWK_TYPE_MAX(hawk_uintptr_t) = -1`, `GCH_UNREACHABLE = GCH_MOVED - 1 = -2`, so that
  "decrementing a stale GCH_MOVED yields GCH_UNREACHABLE" is expressible exactly as in the C.
  The C's unsigned test `gc_refs > 0` is `gcRefs ≠ 0`.
* `St.legacy = true` selects the behaviour of the code before the repair
  (patches/gc-stale-gcrefs.diff): `gc_trace_refs` decrements `gc_refs` of every container element,
  also of elements that are not members of the list being collected.  `legacy = false` is the
  repaired code: an element whose `gc_refs` is `GCH_MOVED` (= not a member of the list) is left alone.
  All theorems are about `legacy = false`.
* `St.fault` records that the C would have hit `HAWK_ASSERT (val->v_refs > 0)` or touched a freed
  value; it is proved to stay `false`.
-/
namespace Hawk.Gc

abbrev Id := Nat

/-- `#define GCH_MOVED HAWK_TYPE_MAX(hawk_uintptr_t)` (all bits set = -1) -/
def GCH_MOVED : Int := -1
/-- `#define GCH_UNREACHABLE (GCH_MOVED - 1)` -/
def GCH_UNREACHABLE : Int := GCH_MOVED - 1
/-- the local list `reachable` in `gc_collect_garbage_in_generation` -/
def TMP : Nat := 3

structure Obj where
  refs : Nat          -- v_refs
  gcRefs : Int        -- hawk_gch_t.gc_refs
  gen : Nat           -- which list the gch is chained in
  children : List Id  -- container elements that are containers (with multiplicity)
deriving Repr, DecidableEq

abbrev Heap := List (Option Obj)

namespace Heap
def get (h : Heap) (i : Id) : Option Obj := (h[i]?).getD none
def kids (h : Heap) (i : Id) : List Id := match h.get i with | some o => o.children | none => []
/-- apply `f` to every live object (a loop over gc lists whose body touches only the visited object) -/
def upd (h : Heap) (f : Obj → Obj) : Heap := h.map (Option.map f)
/-- identities of the live objects satisfying `p`, ascending -/
def idsWhere (h : Heap) (p : Obj → Bool) : List Id :=
  h.zipIdx.filterMap fun (oo, i) => match oo with | some o => if p o then some i else none | none => none
/-- all elements of all live objects satisfying `p` (a loop over a gc list visiting every element) -/
def edgesWhere (h : Heap) (p : Obj → Bool) : List Id :=
  h.flatMap fun oo => match oo with | some o => if p o then o.children else [] | none => []
def liveCount (h : Heap) : Nat := h.countP Option.isSome
def notMovedCount (h : Heap) : Nat :=
  h.countP fun oo => match oo with | some o => decide (o.gcRefs ≠ GCH_MOVED) | none => false
end Heap

structure St where
  heap : Heap := []
  roots : List Id := []     -- external holders (variables, stack slots, API holders), with multiplicity
  p0 : Nat := 0             -- rtx->gc.pressure[0..3]
  p1 : Nat := 0
  p2 : Nat := 0
  p3 : Nat := 0
  t0 : Nat := 100           -- rtx->gc.threshold[0..2] as set by init_rtx
  t1 : Nat := 20
  t2 : Nat := 10
  fault : Bool := false
  legacy : Bool := false
deriving Repr

def St.live (s : St) (i : Id) : Bool := (s.heap.get i).isSome

theorem liveCount_set_none_lt (h : Heap) (c : Id) (o : Obj) (hc : h.get c = some o) :
    Heap.liveCount (h.set c none) < Heap.liveCount h := by
  unfold Heap.liveCount
  unfold Heap.get at hc
  induction h generalizing c with
  | nil => simp at hc
  | cons a t ih =>
    cases c with
    | zero =>
      simp at hc; subst hc
      simp [List.countP_cons]
    | succ n =>
      simp at hc
      have := ih n hc
      simp only [List.set_cons_succ, List.countP_cons]
      omega

theorem liveCount_set_some (h : Heap) (c : Id) (o o' : Obj) (hc : h.get c = some o) :
    Heap.liveCount (h.set c (some o')) = Heap.liveCount h := by
  unfold Heap.liveCount
  unfold Heap.get at hc
  induction h generalizing c with
  | nil => simp
  | cons a t ih =>
    cases c with
    | zero => simp at hc; subst hc; simp [List.countP_cons]
    | succ n => simp at hc; simp [List.countP_cons, ih n hc]

/-! ## reference counting: `hawk_rtx_refdownval` → `hawk_rtx_freeval` → `hawk_map_fini` → `free_mapval` → … -/

/-- The recursion refdown → freeval → map/arr fini → element freeer → refdown …, written with an
explicit stack of pending element-freeer calls (`todo`, depth-first as in the C).
One step = one call of `free_mapval`/`free_arrval` on element `c`:
* `gc_refs == GCH_UNREACHABLE` → return without touching the count;
* else `hawk_rtx_refdownval`: `HAWK_ASSERT (v_refs > 0)`; `v_refs--`; at 0 `hawk_rtx_freeval`
  (finalise the container = call the freeer on every element, unchain, free).
The shell is taken out of the heap before (in the C: after) its elements are visited. -/
def cascade (s : St) (todo : List Id) : St :=
  match todo with
  | [] => s
  | c :: rest =>
    match hc : s.heap.get c with
    | none => { s with fault := true }
    | some oc =>
      if oc.gcRefs = GCH_UNREACHABLE then cascade s rest
      else if oc.refs = 0 then { s with fault := true }
      else if oc.refs = 1 then
        cascade { s with heap := s.heap.set c none } (oc.children ++ rest)
      else
        cascade { s with heap := s.heap.set c (some { oc with refs := oc.refs - 1 }) } rest
termination_by (Heap.liveCount s.heap, todo.length)
decreasing_by
  · exact Prod.Lex.right _ (by simp)
  · exact Prod.Lex.left _ _ (liveCount_set_none_lt _ _ _ hc)
  · rw [liveCount_set_some _ _ _ _ hc]
    exact Prod.Lex.right _ (by simp)

/-- `hawk_rtx_refdownval` called directly by a holder (no sentinel test on this path) -/
def refdown (s : St) (o : Id) : St :=
  match s.heap.get o with
  | none => { s with fault := true }
  | some ob =>
    if ob.refs = 0 then { s with fault := true }
    else if ob.refs = 1 then cascade { s with heap := s.heap.set o none } ob.children
    else { s with heap := s.heap.set o (some { ob with refs := ob.refs - 1 }) }

/-- `hawk_rtx_refupval` -/
def refup (h : Heap) (o : Id) : Heap :=
  match h.get o with
  | some ob => h.set o (some { ob with refs := ob.refs + 1 })
  | none => h

/-! ## the collector -/

/-- `gc_move_all_gchs (&g[i], &g[gen])` for all `i < gen` -/
def mergeYounger (h : Heap) (g : Nat) : Heap := h.upd fun o => if o.gen < g then { o with gen := g } else o

/-- `gc_trace_refs` phase 1 -/
def tracePhase1 (h : Heap) (g : Nat) : Heap := h.upd fun o => if o.gen = g then { o with gcRefs := o.refs } else o

/-- one `hawk_val_to_gch(iv)->gc_refs--` of `gc_trace_refs` phase 2 (repaired: only when the element's
`gc_refs` is not `GCH_MOVED`, i.e. only for members of the list being collected) -/
def decChild (legacy : Bool) (h : Heap) (c : Id) : Heap :=
  match h.get c with
  | some oc => if legacy || oc.gcRefs ≠ GCH_MOVED then h.set c (some { oc with gcRefs := oc.gcRefs - 1 }) else h
  | none => h

/-- `gc_trace_refs` phase 2: visit every element of every member of list `g` -/
def tracePhase2 (legacy : Bool) (h : Heap) (g : Nat) : Heap :=
  (h.edgesWhere fun o => o.gen == g).foldl (decChild legacy) h

/-- `gc_move_reachables`, first loop: members with a positive residual count go to `reachable` -/
def moveRoots (h : Heap) (g : Nat) : Heap :=
  h.upd fun o => if o.gen = g ∧ o.gcRefs ≠ 0 then { o with gen := TMP, gcRefs := GCH_MOVED } else o

theorem notMoved_set_lt (h : Heap) (c : Id) (o o' : Obj) (hc : h.get c = some o)
    (h1 : o.gcRefs ≠ GCH_MOVED) (h2 : o'.gcRefs = GCH_MOVED) :
    Heap.notMovedCount (h.set c (some o')) < Heap.notMovedCount h := by
  unfold Heap.notMovedCount
  unfold Heap.get at hc
  induction h generalizing c with
  | nil => simp at hc
  | cons a t ih =>
    cases c with
    | zero =>
      simp at hc; subst hc
      simp [List.countP_cons, h1, h2]
    | succ n =>
      simp at hc
      have := ih n hc
      simp only [List.set_cons_succ, List.countP_cons]
      omega

/-- `gc_move_reachables`, second loop: walk `reachable` (which grows at its end while being walked)
and pull in every element whose `gc_refs` is not `GCH_MOVED`.  `todo` is the sequence of elements
still to be looked at, in the order the C looks at them. -/
def moveLoop (h : Heap) (todo : List Id) : Heap :=
  match todo with
  | [] => h
  | c :: rest =>
    match hc : h.get c with
    | none => moveLoop h rest
    | some oc =>
      if hm : oc.gcRefs ≠ GCH_MOVED then
        moveLoop (h.set c (some { oc with gen := TMP, gcRefs := GCH_MOVED })) (rest ++ oc.children)
      else moveLoop h rest
termination_by (Heap.notMovedCount h, todo.length)
decreasing_by
  · exact Prod.Lex.right _ (by simp)
  · exact Prod.Lex.left _ _ (notMoved_set_lt _ _ _ _ hc hm rfl)
  · exact Prod.Lex.right _ (by simp)

def moveReachables (h : Heap) (g : Nat) : Heap :=
  let h1 := moveRoots h g
  moveLoop h1 (h1.edgesWhere fun o => o.gen == TMP)

/-- `gc_free_unreachables`, first loop -/
def markUnreachable (h : Heap) (g : Nat) : Heap :=
  h.upd fun o => if o.gen = g then { o with gcRefs := GCH_UNREACHABLE } else o

/-- `hawk_rtx_freeval (rtx, v, HAWK_RTX_FREEVAL_GC_PRESERVE)`: finalise the container (freeer on every
element) but keep the shell chained -/
def finalizePreserve (s : St) (u : Id) : St :=
  match s.heap.get u with
  | some ou => cascade { s with heap := s.heap.set u (some { ou with children := [] }) } ou.children
  | none => s

/-- `gc_free_unreachables`, third loop: unchain and free every shell left in list `g` -/
def dropShells (h : Heap) (g : Nat) : Heap :=
  h.map fun oo => match oo with | some o => if o.gen = g then none else some o | none => none

def freeUnreachables (s : St) (g : Nat) : St :=
  let s1 := { s with heap := markUnreachable s.heap g }
  let s2 := (s1.heap.idsWhere fun o => o.gen == g).foldl finalizePreserve s1
  { s2 with heap := dropShells s2.heap g }

/-- `gc_move_all_gchs (&reachable, &rtx->gc.g[newgen])` -/
def promote (h : Heap) (newgen : Nat) : Heap := h.upd fun o => if o.gen = TMP then { o with gen := newgen } else o

/-- `pressure[gen + 1]++; pressure[gen] = 0; pressure[0] = 0;` -/
def bumpPressure (s : St) (g : Nat) : St :=
  match g with
  | 0 => { s with p1 := s.p1 + 1, p0 := 0 }
  | 1 => { s with p2 := s.p2 + 1, p1 := 0, p0 := 0 }
  | _ => { s with p3 := s.p3 + 1, p2 := 0, p0 := 0 }

/-- `gc_collect_garbage_in_generation (rtx, g)`, `g ≤ 2`.  (The C skips the three phases when the
merged list is empty; they are no-ops on an empty list, so the test is not transcribed.) -/
def collectGen (s : St) (g : Nat) : St :=
  let newgen := if g < 2 then g + 1 else g
  let h1 := mergeYounger s.heap g
  let h2 := tracePhase1 h1 g
  let h3 := tracePhase2 s.legacy h2 g
  let h4 := moveReachables h3 g
  let s5 := freeUnreachables { s with heap := h4 } g
  bumpPressure { s5 with heap := promote s5.heap newgen } g

/-- `gc_collect_garbage_auto`: returns the state and the generation collected -/
def collectAuto (s : St) : St × Nat :=
  if s.p2 ≥ s.t2 then (collectGen s 2, 2)
  else if s.p1 ≥ s.t1 then (collectGen s 1, 1)
  else (collectGen s 0, 0)

/-- `hawk_rtx_gc (rtx, gen)` -/
def gc (s : St) (gen : Int) : St × Nat :=
  if gen < 0 then collectAuto s
  else
    let g := if gen ≥ 3 then 2 else gen.toNat
    (collectGen s g, g)

/-! ## operations of a client (the interpreter or an embedding host) -/

/-- `hawk_rtx_makemapval`/`hawk_rtx_makearrval` (`gc_calloc_val`: collection by pressure, then a new
container chained into generation 0) followed by the caller's `refupval`.  The host allocator is
assumed not to fail. -/
def alloc (s : St) : St × Id :=
  let s1 := if s.p0 ≥ s.t0 then (collectAuto s).1 else s
  let id := s1.heap.length
  ({ s1 with heap := s1.heap ++ [some { refs := 1, gcRefs := 0, gen := 0, children := [] }],
             roots := id :: s1.roots, p0 := s1.p0 + 1 }, id)

/-- store `c` into a fresh slot of `p` (`hawk_rtx_setmapvalfld`/`setarrvalfld`: upsert, then refup) -/
def link (s : St) (p c : Id) : Option St :=
  match s.heap.get p, s.heap.get c with
  | some op, some _ =>
    let h1 := s.heap.set p (some { op with children := c :: op.children })
    some { s with heap := refup h1 c }
  | _, _ => none

/-- delete a slot of `p` that holds `c` (the pair is unlinked, then the element freeer runs) -/
def unlink (s : St) (p c : Id) : Option St :=
  match s.heap.get p with
  | some op =>
    if c ∈ op.children then
      some (cascade { s with heap := s.heap.set p (some { op with children := op.children.erase c }) } [c])
    else none
  | none => none

/-- overwrite a slot of `p` that holds `c` with `d` (upsert on an existing key).
Same pointer: the keeper runs (`refdownval_nofree`), then `refupval`: nothing changes, and the caller needs no
reference of its own (it may have borrowed the pointer from the slot).  Different pointer: the freeer runs on `c`,
then `refupval (d)`; the caller must hold `d` (the cascade started by the freeer could otherwise free it). -/
def relink (s : St) (p c d : Id) : Option St :=
  match s.heap.get p with
  | some op =>
    if c ∈ op.children then
      if c = d then some s
      else if d ∈ s.roots then (unlink s p c).bind fun s1 => link s1 p d
      else none
    else none
  | none => none

/-- `hawk_map_clear`/`hawk_arr_clear` on a container `p` the caller holds (`delete p` in the language, where `p`
is a variable): the freeer runs on every element.  (A caller that clears a container it holds no reference to
could have it freed, by the cascade, under the feet of the running `hawk_map_clear`.) -/
def clear (s : St) (p : Id) : Option St :=
  match s.heap.get p with
  | some op =>
    if p ∈ s.roots then
      some (cascade { s with heap := s.heap.set p (some { op with children := [] }) } op.children)
    else none
  | none => none

/-- a new external holder takes a reference -/
def addRoot (s : St) (o : Id) : Option St :=
  match s.heap.get o with
  | some _ => some { s with heap := refup s.heap o, roots := o :: s.roots }
  | none => none

/-- an embedding host fetches the element `c` of container `p` (`hawk_rtx_getmapvalfld` / `hawk_rtx_getarrvalfld` /
the map iteration API return a borrowed pointer) and takes a reference of its own to it -/
def take (s : St) (p c : Id) : Option St :=
  match s.heap.get p with
  | some op => if c ∈ op.children then addRoot s c else none
  | none => none

/-- an external holder lets go -/
def dropRoot (s : St) (o : Id) : Option St :=
  if o ∈ s.roots then some (refdown { s with roots := s.roots.erase o } o) else none

/-- `hawk::gc_set_threshold (gen, threshold)`: returns the threshold in force afterwards -/
def setThreshold (s : St) (gen thr : Int) : St × Nat :=
  let g := if gen < 0 then 0 else if gen ≥ 3 then 2 else gen.toNat
  if thr ≥ 0 then
    let t := thr.toNat
    match g with
    | 0 => ({ s with t0 := t }, t)
    | 1 => ({ s with t1 := t }, t)
    | _ => ({ s with t2 := t }, t)
  else
    match g with
    | 0 => (s, s.t0)
    | 1 => (s, s.t1)
    | _ => (s, s.t2)

inductive Op where
  | alloc
  | link (p c : Id)
  | unlink (p c : Id)
  | relink (p c d : Id)
  | clear (p : Id)
  | addRoot (o : Id)
  | take (p c : Id)
  | dropRoot (o : Id)
  | gc (gen : Int)
  | setThr (gen thr : Int)
deriving Repr

/-- one client operation; an operation whose precondition fails (it names a freed object, a slot
that does not exist, a holder that does not exist) is rejected and leaves the state unchanged -/
def step (s : St) : Op → St
  | .alloc => (alloc s).1
  | .link p c => (link s p c).getD s
  | .unlink p c => (unlink s p c).getD s
  | .relink p c d => (relink s p c d).getD s
  | .clear p => (clear s p).getD s
  | .addRoot o => (addRoot s o).getD s
  | .take p c => (take s p c).getD s
  | .dropRoot o => (dropRoot s o).getD s
  | .gc g => (gc s g).1
  | .setThr g t => (setThreshold s g t).1

def run (ops : List Op) : St := ops.foldl step {}

/-- `fini_rtx`: every external holder lets go (`refdown_globals`, the named-variable table is closed),
then `hawk_rtx_gc (rtx, HAWK_RTX_GC_GEN_FULL)` -/
def teardown (s : St) : St :=
  (gc (s.roots.foldl (fun s r => (dropRoot s r).getD s) s) 2147483647).1

end Hawk.Gc
