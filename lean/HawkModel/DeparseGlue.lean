import HawkModel.DeparseLemmas
/-!
  Token gluing: two tokens that `print_expr` writes without a blank between them are cut apart by the lexer
  exactly as written.  The criterion `cutOK` looks at the spelling of the first token and the class of the first
  character of the second; for symbol/symbol pairs it is tied to the C's walk over `ops[]` by evaluation
  (`cut_sound_symbols`).
-/
namespace Hawk.Deparse
open Hawk.Gen.Precedence

/-- class of the first character of a token (lexemes of non-symbol kinds start as their kind says) -/
inductive CC where
  | ch (c : Char)
  | alpha | digit | dquote | squote | at
deriving DecidableEq, Repr

def firstCC (t : Tok) : CC :=
  match t.k with
  | .IDENT => .alpha
  | .IN => .alpha
  | .INT => .digit
  | .FLT => .digit
  | .STR => .dquote
  | .CHAR => .squote
  | .MBS => .at
  | .BCHR => .at
  | .XNIL => .at
  | _ => match t.s.toList with
    | c :: _ => .ch c
    | [] => .alpha

/-- is `s` followed by a character of this class the beginning of a longer symbol of the table?
    (a number may start with `.`; letters, digits, quotes and `@` occur in no symbol: `symbols_have_no_alnum`) -/
def extendsCC (s : String) : CC → Bool
  | .ch c => symTable.any (fun e => (s.toList ++ [c]).isPrefixOf e.1.toList)
  | .digit => symTable.any (fun e => (s.toList ++ ['.']).isPrefixOf e.1.toList)
  | _ => false

def isSymTok (t : Tok) : Bool := symTable.lookup t.s == some t.k

/-- `a` immediately followed by `b` is read back as `a`, `b` -/
def cutOK (a b : Tok) : Bool :=
  if isSymTok a then !extendsCC a.s (firstCC b)
  else
    match firstCC b with
    | .ch c => !isAlnum c && c != '.' && (c == '(') == (a.k == .IDENT && a.adj)
    | _ => false

/-- every two neighbouring tokens without a blank between them pass `cutOK` -/
def adjOK : List PT → Bool
  | .t a :: .t b :: r => cutOK a b && adjOK (.t b :: r)
  | _ :: r => adjOK r
  | [] => true

def firstT : List PT → Option Tok
  | .t a :: _ => some a
  | _ => none

def lastT : List PT → Option Tok
  | [] => none
  | [.t a] => some a
  | [.sp] => none
  | _ :: b :: r => lastT (b :: r)

def joinOK (x y : Option Tok) : Bool :=
  match x, y with
  | some a, some b => cutOK a b
  | _, _ => true

theorem adjOK_append (A B : List PT) : adjOK (A ++ B) = (adjOK A && adjOK B && joinOK (lastT A) (firstT B)) := by
  induction A with
  | nil => cases B <;> simp [adjOK, lastT, joinOK]
  | cons x r ih =>
    cases r with
    | nil =>
      cases x with
      | sp => cases B <;> simp [adjOK, lastT, joinOK]
      | t a =>
        cases B with
        | nil => simp [adjOK, lastT, joinOK, firstT]
        | cons y r' => cases y <;> simp [adjOK, lastT, joinOK, firstT, Bool.and_comm]
    | cons y r' =>
      have : (x :: y :: r') ++ B = x :: (y :: r' ++ B) := rfl
      rw [this]
      cases x with
      | sp => simp only [adjOK, lastT]; exact ih
      | t a =>
        cases y with
        | sp => simp only [adjOK, lastT, List.cons_append] at ih ⊢; exact ih
        | t b =>
          simp only [List.cons_append, adjOK, lastT] at ih ⊢
          rw [ih]; simp [Bool.and_assoc]

theorem firstT_append (A B : List PT) (h : A ≠ []) : firstT (A ++ B) = firstT A := by
  cases A with
  | nil => exact absurd rfl h
  | cons x r => cases x <;> rfl

theorem lastT_append (A B : List PT) (h : B ≠ []) : lastT (A ++ B) = lastT B := by
  induction A with
  | nil => rfl
  | cons x r ih =>
    cases hr : r ++ B with
    | nil => simp at hr; exact absurd hr.2 h
    | cons y r' =>
      rw [List.cons_append, hr]; simp only [lastT]; rw [← hr]; exact ih


/-! ### tokens a printed tree starts / ends with -/

def litKs : List TK := [.INT, .FLT, .STR, .MBS, .CHAR, .BCHR, .XNIL]

def startTok (t : Tok) : Bool :=
  litKs.contains t.k || t.k == .IDENT || t == tLP || t == tDOLLAR || t == incTok .PLUS || t == incTok .MINUS

def endTok (t : Tok) : Bool :=
  litKs.contains t.k || (t.k == .IDENT && !t.adj) || t == tRP || t == tRB || t == incTok .PLUS || t == incTok .MINUS

def startCCs : List CC := [.alpha, .digit, .dquote, .squote, .at, .ch '(', .ch '$', .ch '+', .ch '-']

theorem startTok_cc (t : Tok) (h : startTok t = true) : firstCC t ∈ startCCs := by
  simp only [startTok, Bool.or_eq_true, List.contains_eq_mem, decide_eq_true_eq, beq_iff_eq, litKs, List.mem_cons, List.not_mem_nil, or_false] at h
  rcases h with ((((h | h) | h) | h) | h) | h
  · rcases h with h | h | h | h | h | h | h <;> simp [firstCC, h, startCCs]
  · simp [firstCC, h, startCCs]
  · subst h; decide
  · subst h; decide
  · subst h; decide
  · subst h; decide

/-- a symbol that no start character extends may be written directly before any tree -/
theorem cut_sym_start (x : Tok) (hx : isSymTok x = true) (h : startCCs.all (fun cc => !extendsCC x.s cc) = true)
    (t : Tok) (ht : startTok t = true) : cutOK x t = true := by
  simp only [cutOK, hx, if_true]
  simp only [List.all_eq_true] at h
  exact h _ (startTok_cc t ht)

theorem lookup_mem_snd (l : List (String × TK)) (s : String) (k : TK) (h : l.lookup s = some k) : k ∈ l.map (·.2) := by
  induction l with
  | nil => simp [List.lookup] at h
  | cons e r ih =>
    obtain ⟨s', k'⟩ := e
    simp only [List.lookup] at h
    split at h
    · simp at h; simp [h]
    · simp [ih h]

theorem nonsym_kind (t : Tok) (h : t.k ∉ symTable.map (·.2)) : isSymTok t = false := by
  simp only [isSymTok, beq_eq_false_iff_ne, ne_eq]
  intro e; exact h (lookup_mem_snd _ _ _ e)

theorem lit_not_sym (t : Tok) (h : litKs.contains t.k = true ∨ t.k = .IDENT) : isSymTok t = false := by
  apply nonsym_kind
  simp only [litKs, List.contains_eq_mem, List.mem_cons, List.not_mem_nil, or_false, decide_eq_true_eq] at h
  rcases h with (h | h | h | h | h | h | h) | h <;> rw [h] <;> decide

/-- closing tokens and separators: a character that ends every lexeme and starts no longer symbol after `)`, `]`, `++`, `--` -/
def closeOK (y : Tok) : Bool :=
  match firstCC y with
  | .ch c => !isAlnum c && c != '.' && c != '(' &&
      !extendsCC tRP.s (.ch c) && !extendsCC tRB.s (.ch c) && !extendsCC (incTok .PLUS).s (.ch c) && !extendsCC (incTok .MINUS).s (.ch c)
  | _ => false

theorem cut_end_close (u y : Tok) (hu : endTok u = true) (hy : closeOK y = true) : cutOK u y = true := by
  simp only [closeOK] at hy
  split at hy
  · next c hc =>
    simp only [Bool.and_eq_true, Bool.not_eq_true', bne_iff_ne, ne_eq] at hy
    obtain ⟨⟨⟨⟨⟨⟨h1, h2⟩, h3⟩, h4⟩, h5⟩, h6⟩, h7⟩ := hy
    simp only [endTok, Bool.or_eq_true, beq_iff_eq, Bool.and_eq_true, Bool.not_eq_true'] at hu
    rcases hu with ((((hu | hu) | hu) | hu) | hu) | hu
    · have := lit_not_sym u (Or.inl hu)
      have hk : u.k ≠ .IDENT := by
        intro e; rw [e] at hu; revert hu; decide
      have e1 : (c == '(') = false := by simpa using h3
      have e2 : (u.k == TK.IDENT) = false := by simpa using hk
      simp [cutOK, this, hc, h1, h2, e1, e2]
    · have := lit_not_sym u (Or.inr hu.1)
      have e1 : (c == '(') = false := by simpa using h3
      simp [cutOK, this, hc, h1, h2, e1, hu.2]
    · subst hu; have : isSymTok tRP = true := by decide +kernel
      simp [cutOK, this, hc, h4]
    · subst hu; have : isSymTok tRB = true := by decide +kernel
      simp [cutOK, this, hc, h5]
    · subst hu; have : isSymTok (incTok .PLUS) = true := by decide +kernel
      simp [cutOK, this, hc, h6]
    · subst hu; have : isSymTok (incTok .MINUS) = true := by decide +kernel
      simp [cutOK, this, hc, h7]
  · simp at hy

/-! ### the shape of printed text -/

structure Shape (l : List PT) : Prop where
  ok : adjOK l = true
  first : ∃ t, firstT l = some t ∧ startTok t = true
  last : ∃ u, lastT l = some u ∧ endTok u = true

theorem joinOK_none_r (x : Option Tok) : joinOK x none = true := by cases x <;> rfl
theorem joinOK_none_l (y : Option Tok) : joinOK none y = true := by cases y <;> rfl

theorem Shape.ne_nil {l : List PT} (h : Shape l) : l ≠ [] := by
  intro e; subst e; obtain ⟨t, ht, _⟩ := h.first; simp [firstT] at ht

theorem Shape.single (t : Tok) (hs : startTok t = true) (he : endTok t = true) : Shape [.t t] :=
  ⟨by simp [adjOK], ⟨t, rfl, hs⟩, ⟨t, rfl, he⟩⟩

/-- `x P` -/
theorem Shape.pre {P : List PT} (h : Shape P) (x : Tok) (hx : startTok x = true) (hc : ∀ t, startTok t = true → cutOK x t = true) :
    Shape (.t x :: P) := by
  obtain ⟨t, ht, hst⟩ := h.first
  obtain ⟨u, hu, hen⟩ := h.last
  refine ⟨?_, ⟨x, rfl, hx⟩, ⟨u, ?_, hen⟩⟩
  · cases P with
    | nil => simp [firstT] at ht
    | cons y r =>
      cases y with
      | sp => simp [firstT] at ht
      | t b =>
        simp only [firstT, Option.some.injEq] at ht; subst ht
        simp only [adjOK, Bool.and_eq_true]; exact ⟨hc _ hst, h.ok⟩
  · cases P with
    | nil => simp [firstT] at ht
    | cons y r => simpa [lastT] using hu

/-- `P y` for a closing token `y` -/
theorem Shape.post {P : List PT} (h : Shape P) (y : Tok) (hy : closeOK y = true) (hey : endTok y = true) :
    Shape (P ++ [.t y]) := by
  obtain ⟨t, ht, hst⟩ := h.first
  obtain ⟨u, hu, hen⟩ := h.last
  refine ⟨?_, ⟨t, ?_, hst⟩, ⟨y, ?_, hey⟩⟩
  · rw [adjOK_append]; simp [h.ok, adjOK, hu, firstT, joinOK, cut_end_close u y hen hy]
  · rw [firstT_append _ _ h.ne_nil]; exact ht
  · rw [lastT_append _ _ (by simp)]; rfl

theorem lp_start : startCCs.all (fun cc => !extendsCC tLP.s cc) = true := by decide +kernel
theorem rp_close : closeOK tRP = true := by decide +kernel
theorem rb_close : closeOK tRB = true := by decide +kernel

theorem cut_lp (t : Tok) (ht : startTok t = true) : cutOK tLP t = true :=
  cut_sym_start tLP (by decide) lp_start t ht

/-- `( P )` -/
theorem Shape.paren {P : List PT} (h : Shape P) : Shape (.t tLP :: (P ++ [.t tRP])) :=
  (h.post tRP rp_close (by decide)).pre tLP (by decide) cut_lp

/-- `P sep Q` where `sep` is written without blanks (`,` `:`) -/
theorem Shape.sep {P Q : List PT} (hp : Shape P) (hq : Shape Q) (y : Tok) (hy : closeOK y = true)
    (hc : ∀ t, startTok t = true → cutOK y t = true) : Shape (P ++ .t y :: Q) := by
  obtain ⟨t, ht, hst⟩ := hp.first
  obtain ⟨u, hu, hen⟩ := hp.last
  obtain ⟨t2, ht2, hst2⟩ := hq.first
  obtain ⟨u2, hu2, hen2⟩ := hq.last
  refine ⟨?_, ⟨t, ?_, hst⟩, ⟨u2, ?_, hen2⟩⟩
  · rw [adjOK_append]
    have : adjOK (.t y :: Q) = true := by
      cases Q with
      | nil => simp [firstT] at ht2
      | cons z r =>
        cases z with
        | sp => simp [firstT] at ht2
        | t b =>
          simp only [firstT, Option.some.injEq] at ht2; subst ht2
          simp only [adjOK, Bool.and_eq_true]; exact ⟨hc _ hst2, hq.ok⟩
    simp [hp.ok, this, hu, firstT, joinOK, cut_end_close u y hen hy]
  · rw [firstT_append _ _ hp.ne_nil]; exact ht
  · rw [lastT_append _ _ (by simp)]
    cases Q with
    | nil => simp [firstT] at ht2
    | cons z r => simpa [lastT] using hu2

/-- `P ⎵ op ⎵ Q` : blanks around the operator -/
theorem Shape.spaced {P Q : List PT} (hp : Shape P) (hq : Shape Q) (y : Tok) : Shape (P ++ .sp :: .t y :: .sp :: Q) := by
  obtain ⟨t, ht, hst⟩ := hp.first
  obtain ⟨u2, hu2, hen2⟩ := hq.last
  refine ⟨?_, ⟨t, ?_, hst⟩, ⟨u2, ?_, hen2⟩⟩
  · rw [adjOK_append]; simp [hp.ok, adjOK, hq.ok, firstT, joinOK_none_r]
  · rw [firstT_append _ _ hp.ne_nil]; exact ht
  · rw [lastT_append _ _ (by simp)]
    have hq' := hq.ne_nil
    cases Q with
    | nil => exact absurd rfl hq'
    | cons z r => simpa [lastT] using hu2


/-- `x1 x2 P` where `x2` need not be able to start a tree (`a[`, `f(`, `$(`, `++(`, `(-`) -/
theorem Shape.pre2 {P : List PT} (h : Shape P) (x1 x2 : Tok) (hx : startTok x1 = true) (h12 : cutOK x1 x2 = true)
    (hc : ∀ t, firstT P = some t → cutOK x2 t = true) : Shape (.t x1 :: .t x2 :: P) := by
  obtain ⟨t, ht, hst⟩ := h.first
  obtain ⟨u, hu, hen⟩ := h.last
  refine ⟨?_, ⟨x1, rfl, hx⟩, ⟨u, ?_, hen⟩⟩
  · cases P with
    | nil => simp [firstT] at ht
    | cons y r =>
      cases y with
      | sp => simp [firstT] at ht
      | t b =>
        simp only [adjOK, Bool.and_eq_true]; exact ⟨h12, hc b rfl, h.ok⟩
  · cases P with
    | nil => simp [firstT] at ht
    | cons y r => simpa [lastT] using hu

theorem comma_close : closeOK tCOMMA = true := by decide +kernel
theorem colon_close : closeOK tCOLON = true := by decide +kernel
theorem quest_close : closeOK tQUEST = true := by decide +kernel
theorem cut_comma (t : Tok) (ht : startTok t = true) : cutOK tCOMMA t = true :=
  cut_sym_start tCOMMA (by decide) (by decide) t ht
theorem cut_colon (t : Tok) (ht : startTok t = true) : cutOK tCOLON t = true :=
  cut_sym_start tCOLON (by decide) (by decide) t ht
theorem cut_quest (t : Tok) (ht : startTok t = true) : cutOK tQUEST t = true :=
  cut_sym_start tQUEST (by decide) (by decide) t ht
theorem cut_lb (t : Tok) (ht : startTok t = true) : cutOK tLB t = true :=
  cut_sym_start tLB (by decide) (by decide) t ht

theorem inc_close (op : IncOp) : closeOK (incTok op) = true := by cases op <;> decide +kernel
theorem inc_end (op : IncOp) : endTok (incTok op) = true := by cases op <;> decide +kernel
theorem inc_start (op : IncOp) : startTok (incTok op) = true := by cases op <;> decide +kernel
theorem cut_inc_lp (op : IncOp) : cutOK (incTok op) tLP = true := by cases op <;> decide +kernel
theorem cut_unr_lp (op : UnrOp) : cutOK (unrTok op) tLP = true := by cases op <;> decide +kernel
theorem cut_lp_unr (op : UnrOp) : cutOK tLP (unrTok op) = true := by cases op <;> decide +kernel

theorem litKinds_litKs (k : TK) (h : k ∈ litKinds) : litKs.contains k = true := by
  simp only [litKinds, List.mem_cons, List.not_mem_nil, or_false] at h
  rcases h with h | h | h | h | h | h <;> subst h <;> decide

mutual
/-- the printed form of a tree: neighbouring tokens are cut apart as written; it starts and ends with tokens of the
    start / end classes -/
theorem shape_print : (a : Ast) → WFparse a → Shape (printP a)
  | .int v (some t), _ => by
    simp only [printP]; exact Shape.single _ (by simp [startTok, litKs]) (by simp [endTok, litKs])
  | .int v none, _ => by
    by_cases hv : v < 0
    · simp only [printP, hv, if_true]
      have hn : isSymTok (natTok v.natAbs) = false := lit_not_sym _ (Or.inl (by simp [natTok, litKs]))
      refine ⟨?_, ⟨tLP, rfl, by decide⟩, ⟨tRP, rfl, by decide⟩⟩
      have c1 : cutOK tLP tMINUS = true := by decide +kernel
      have c2 : cutOK tMINUS (natTok v.natAbs) = true := by
        have : isSymTok tMINUS = true := by decide +kernel
        simp only [cutOK, this, if_true, firstCC, natTok]; decide
      have c3 : cutOK (natTok v.natAbs) tRP = true :=
        cut_end_close _ _ (by simp [endTok, natTok, litKs]) rp_close
      simp [adjOK, c1, c2, c3]
    · simp only [printP, hv, if_false]
      exact Shape.single _ (by simp [startTok, natTok, litKs]) (by simp [endTok, natTok, litKs])
  | .lit k s, h => by
    simp only [WFparse] at h
    simp only [printP]
    have hk : k ∈ litKs := by simpa using litKinds_litKs k h
    exact Shape.single _ (by simp [startTok, hk]) (by simp [endTok, hk])
  | .var n, _ => by
    simp only [printP]; exact Shape.single _ (by simp [startTok]) (by simp [endTok])
  | .idx n ix, h => by
    simp only [WFparse] at h
    simp only [printP, List.cons_append, List.nil_append]
    apply ((shape_printL ix h.1 h.2).post tRB rb_close (by decide)).pre2 _ tLB (by simp [startTok])
    · have : isSymTok { k := TK.IDENT, s := n } = false := lit_not_sym _ (Or.inr rfl)
      simp only [cutOK, this, Bool.false_eq_true, if_false]; decide
    · intro t ht
      obtain ⟨t', ht', hs⟩ := (shape_printL ix h.1 h.2).first
      rw [firstT_append _ _ (shape_printL ix h.1 h.2).ne_nil, ht'] at ht
      simp only [Option.some.injEq] at ht; subst ht; exact cut_lb _ hs
  | .call n args, h => by
    simp only [WFparse] at h
    simp only [printP, List.cons_append, List.nil_append]
    have c1 : cutOK { k := TK.IDENT, s := n, adj := true } tLP = true := by
      have : isSymTok { k := TK.IDENT, s := n, adj := true } = false := lit_not_sym _ (Or.inr rfl)
      simp only [cutOK, this, Bool.false_eq_true, if_false]; decide
    by_cases hne : args = .nil
    · subst hne
      simp only [printL, List.nil_append]
      refine ⟨?_, ⟨_, rfl, by simp [startTok]⟩, ⟨tRP, rfl, by decide⟩⟩
      have c2 : cutOK tLP tRP = true := by decide +kernel
      simp [adjOK, c1, c2]
    · apply ((shape_printL args h hne).post tRP rp_close (by decide)).pre2 _ tLP (by simp [startTok]) c1
      intro t ht
      obtain ⟨t', ht', hs⟩ := (shape_printL args h hne).first
      rw [firstT_append _ _ (shape_printL args h hne).ne_nil, ht'] at ht
      simp only [Option.some.injEq] at ht; subst ht; exact cut_lp _ hs
  | .grp b, h => by
    simp only [WFparse] at h
    simp only [printP, List.cons_append, List.nil_append]
    have hne : b ≠ .nil := by intro e; subst e; simp [AstL.length] at h
    exact (shape_printL b h.1 hne).paren
  | .pos e, h => by
    simp only [WFparse] at h
    simp only [printP, List.cons_append, List.nil_append]
    apply ((shape_print e h).post tRP rp_close (by decide)).pre2 tDOLLAR tLP (by decide) (by decide)
    intro t ht
    obtain ⟨t', ht', hs⟩ := (shape_print e h).first
    rw [firstT_append _ _ (shape_print e h).ne_nil, ht'] at ht
    simp only [Option.some.injEq] at ht; subst ht; exact cut_lp _ hs
  | .bin op l r, h => by
    simp only [WFparse] at h
    have sl : Shape (if l.isAss then [.t tLP] ++ printP l ++ [.t tRP] else printP l) := by
      split
      · simpa using (shape_print l h.1).paren
      · exact shape_print l h.1
    have sr : Shape (if r.isAss then [.t tLP] ++ printP r ++ [.t tRP] else printP r) := by
      split
      · simpa using (shape_print r h.2.1).paren
      · exact shape_print r h.2.1
    simp only [printP]
    have := (sl.spaced sr (binTok op)).paren
    simpa using this
  | .unr op e, h => by
    simp only [WFparse] at h
    simp only [printP, List.cons_append, List.nil_append]
    have s1 := ((shape_print e h.1).paren.post tRP rp_close (by decide))
    have := s1.pre2 tLP (unrTok op) (by decide) (cut_lp_unr op) (by
      intro t ht; simp only [List.cons_append, firstT, Option.some.injEq] at ht; subst ht; exact cut_unr_lp op)
    simpa using this
  | .incpre op e, h => by
    simp only [WFparse] at h
    simp only [printP, List.cons_append, List.nil_append]
    apply ((shape_print e h.1).post tRP rp_close (by decide)).pre2 (incTok op) tLP (inc_start op) (cut_inc_lp op)
    intro t ht
    obtain ⟨t', ht', hs⟩ := (shape_print e h.1).first
    rw [firstT_append _ _ (shape_print e h.1).ne_nil, ht'] at ht
    simp only [Option.some.injEq] at ht; subst ht; exact cut_lp _ hs
  | .incpst op e, h => by
    simp only [WFparse] at h
    simp only [printP]
    have := (shape_print e h.1).paren.post (incTok op) (inc_close op) (inc_end op)
    simpa using this
  | .cnd c l r, h => by
    simp only [WFparse] at h
    simp only [printP]
    have s1 := (shape_print c h.1).paren
    have s2 := s1.sep (shape_print l h.2.1) tQUEST quest_close cut_quest
    have s3 := s2.sep (shape_print r h.2.2) tCOLON colon_close cut_colon
    have := s3.paren
    simpa using this
  | .ass op l r, h => by
    simp only [WFparse] at h
    simp only [printP]
    have := (shape_print l h.1).spaced (shape_print r h.2.1) (assTok op)
    simpa using this
theorem shape_printL : (l : AstL) → WFparseL l → l ≠ .nil → Shape (printL l)
  | .nil, _, hne => absurd rfl hne
  | .cons a .nil, h, _ => by
    simp only [WFparseL] at h
    simp only [printL]; exact shape_print a h.1
  | .cons a (.cons b t), h, _ => by
    have h' := h
    simp only [WFparseL] at h'
    simp only [printL]
    have := (shape_print a h'.1).sep (shape_printL (.cons b t) (by simp only [WFparseL]; exact h'.2) (by simp)) tCOMMA comma_close cut_comma
    simpa using this
end

end Hawk.Deparse
