import HawkModel.Gen.Precedence
import HawkModel.Gen.Keywords
/-!
  Token-level model of the hawk deparser (lib/tree.c `print_expr`, as repaired) and of the expression
  parser (lib/parse.c `parse_expr` … `parse_primary`, the precedence ladder), both driven by the tables
  that extract/precedence.py regenerates from the sources (`Hawk.Gen.Precedence`).

  * `Ast`            expression trees (the node kinds of the core: numbers, other literals, variables,
                     indexed variables, calls, groups `(a,b)`, `$e`, binary, unary, increment and decrement (prefix and postfix),
                     `?:`, assignment).  The parser keeps NO node for a parenthesised single expression
                     (`parse_primary_lparen` returns the inner node); HAWK_NDE_GRP exists for comma lists only.
  * `printP`         `print_expr`: which parentheses and blanks are written (items = token | one blank);
                     `print` = the tokens, `printStr` = the text.
  * `parseLv`        the ladder: one generic `parse_binary` loop per `binmap_t` table (left- or right-associative as the
                     generated `rassoc` flag says) plus the hand-written
                     levels, in the order the generated `ladder` gives; `parse` = `parse_expr` on all tokens.
  * `lex`            characters -> tokens (symbols by the generated `get_symbols` table with the C's walk);
                     used by the driver and by the gluing lemma.

  Configuration = the CLI default ("modern": HAWK_BLANKCONCAT, HAWK_TOLERANT, HAWK_RIO, HAWK_RWPIPE on).
  Not modelled (the parser model answers `unsupported`): getline forms, regular expression literals,
  print/printf as expressions, `a[i][j]`, module constants, constant folding that involves a
  floating-point literal or yields one.
-/
namespace Hawk.Deparse
open Hawk.Gen.Precedence

/-- a token: kind, lexeme, value (TOK_INT only), and for TOK_IDENT whether `(` follows without a blank
    (parse.c compares `tok.loc.colm == xloc.colm + name.len`) -/
structure Tok where
  k : TK
  s : String := ""
  v : Nat := 0
  adj : Bool := false
deriving DecidableEq, Repr, Inhabited

inductive Err where
  | syntax | eassign | incdec | notvar | divby0 | rparen | rbrack | colon | comma | fuel | lex | unsupported
deriving DecidableEq, Repr

mutual
inductive Ast where
  | int (v : Int) (txt : Option String)      -- HAWK_NDE_INT: value, retained source text (none after folding)
  | lit (k : TK) (s : String)                -- FLT (retained text), STR, MBS, CHAR, BCHR, XNIL: one token, printed back verbatim
  | var (name : String)                      -- NAMED / GBL / LCL / ARG (the printed name)
  | idx (name : String) (ix : AstL)          -- name[i,j]
  | call (name : String) (args : AstL)       -- FNCALL_*
  | grp (body : AstL)                        -- HAWK_NDE_GRP (a,b,...)
  | pos (e : Ast)                            -- $e
  | bin (op : BinOp) (l r : Ast)
  | unr (op : UnrOp) (e : Ast)
  | incpre (op : IncOp) (e : Ast)
  | incpst (op : IncOp) (e : Ast)
  | cnd (t l r : Ast)
  | ass (op : AssOp) (l r : Ast)
inductive AstL where
  | nil
  | cons (a : Ast) (t : AstL)
end

def AstL.length : AstL → Nat
  | .nil => 0
  | .cons _ t => t.length + 1

def Ast.isVar : Ast → Bool
  | .var _ => true
  | .idx _ _ => true
  | _ => false

def Ast.isPos : Ast → Bool
  | .pos _ => true
  | _ => false

def Ast.isAss : Ast → Bool
  | .ass _ _ _ => true
  | _ => false

def Ast.isInt : Ast → Bool
  | .int _ _ => true
  | _ => false

def Ast.isFlt : Ast → Bool
  | .lit .FLT _ => true
  | _ => false

def Ast.isNum (a : Ast) : Bool := a.isInt || a.isFlt

/-! ### configuration (CLI defaults) -/
def blankconcat : Bool := true
def tolerant : Bool := true
def rio : Bool := true
def rwpipe : Bool := true

/-! ### constant folding of integers (parse_unary, fold_constants_for_binop) -/
def wrap64 (x : Int) : Int := (x + 9223372036854775808) % 18446744073709551616 - 9223372036854775808

def foldUnrInt : UnrOp → Int → Int
  | .PLUS, v => v
  | .MINUS, v => wrap64 (-v)
  | .LNOT, v => if v = 0 then 1 else 0
  | .BNOT, v => -v - 1

inductive FoldRes where
  | none
  | val (v : Int)
  | err (e : Err)

def foldable : BinOp → Bool
  | .PLUS | .MINUS | .MUL | .DIV | .IDIV | .MOD => true
  | _ => false

def foldBinInt : BinOp → Int → Int → FoldRes
  | .PLUS, a, b => .val (wrap64 (a + b))
  | .MINUS, a, b => .val (wrap64 (a - b))
  | .MUL, a, b => .val (wrap64 (a * b))
  | .DIV, a, b => if b = 0 then .err .divby0 else if a.tmod b ≠ 0 then .err .unsupported else .val (wrap64 (a.tdiv b))
  | .IDIV, a, b => if b = 0 then .err .divby0 else .val (wrap64 (a.tdiv b))
  | .MOD, a, b => if b = 0 then .err .unsupported else .val (a.tmod b)
  | _, _, _ => .none

/-- parse_binary after both operands are parsed: fold two numbers, else build HAWK_NDE_EXP_BIN -/
def mkBin (op : BinOp) (l r : Ast) : Except Err Ast :=
  match l, r with
  | .int a _, .int b _ =>
    match foldBinInt op a b with
    | .none => .ok (.bin op l r)
    | .val v => .ok (.int v none)
    | .err e => .error e
  | _, _ => if foldable op && l.isNum && r.isNum then .error .unsupported else .ok (.bin op l r)

/-- parse_unary after the operand is parsed -/
def mkUnr (op : UnrOp) (x : Ast) : Except Err Ast :=
  match x with
  | .int v _ => .ok (.int (foldUnrInt op v) none)
  | .lit .FLT _ => .error .unsupported
  | _ => .ok (.unr op x)

/-! ### the deparser -/

/-- the token a spelling of the symbol lexer's table stands for (keyword `in` added) -/
def tkOfSpelling (s : String) : TK :=
  match symTable.lookup s with
  | some k => k
  | none => if s = "in" then .IN else .EOF

def symTok (s : String) : Tok := { k := tkOfSpelling s, s := s }

def binTok (op : BinOp) : Tok := symTok (if blankconcat then binopStrBlank op else binopStrNoBlank op)
def unrTok (op : UnrOp) : Tok := symTok (unropStr op)
def incTok (op : IncOp) : Tok := symTok (incopStr op)
def assTok (op : AssOp) : Tok := symTok (assopStr op)

def tLP : Tok := symTok "("
def tRP : Tok := symTok ")"
def tLB : Tok := symTok "["
def tRB : Tok := symTok "]"
def tCOMMA : Tok := symTok ","
def tQUEST : Tok := symTok "?"
def tCOLON : Tok := symTok ":"
def tDOLLAR : Tok := symTok "$"
def tMINUS : Tok := symTok "-"

/-- printed item: a token or one blank -/
inductive PT where
  | t (tok : Tok)
  | sp
deriving DecidableEq, Repr

def natTok (n : Nat) : Tok := { k := .INT, s := toString n, v := n }

mutual
/-- print_expr (repaired): items written for a node -/
def printP : Ast → List PT
  | .int v (some txt) => [.t { k := .INT, s := txt, v := v.toNat }]
  | .int v none =>
    if v < 0 then [.t tLP, .t tMINUS, .t (natTok v.natAbs), .t tRP] else [.t (natTok v.toNat)]
  | .lit k s => [.t { k := k, s := s }]
  | .var n => [.t { k := .IDENT, s := n }]
  | .idx n ix => [.t { k := .IDENT, s := n }, .t tLB] ++ printL ix ++ [.t tRB]
  | .call n args => [.t { k := .IDENT, s := n, adj := true }, .t tLP] ++ printL args ++ [.t tRP]
  | .grp body => [.t tLP] ++ printL body ++ [.t tRP]
  | .pos e => [.t tDOLLAR, .t tLP] ++ printP e ++ [.t tRP]
  | .bin op l r =>
    [.t tLP] ++ (if l.isAss then [.t tLP] ++ printP l ++ [.t tRP] else printP l) ++ [.sp, .t (binTok op), .sp]
      ++ (if r.isAss then [.t tLP] ++ printP r ++ [.t tRP] else printP r) ++ [.t tRP]
  | .unr op e => [.t tLP, .t (unrTok op), .t tLP] ++ printP e ++ [.t tRP, .t tRP]
  | .incpre op e => [.t (incTok op), .t tLP] ++ printP e ++ [.t tRP]
  | .incpst op e => [.t tLP] ++ printP e ++ [.t tRP, .t (incTok op)]
  | .cnd c l r => [.t tLP, .t tLP] ++ printP c ++ [.t tRP, .t tQUEST] ++ printP l ++ [.t tCOLON] ++ printP r ++ [.t tRP]
  | .ass op l r => printP l ++ [.sp, .t (assTok op), .sp] ++ printP r
/-- print_expr_list: comma separated, no blanks -/
def printL : AstL → List PT
  | .nil => []
  | .cons a .nil => printP a
  | .cons a (.cons b t) => printP a ++ [.t tCOMMA] ++ printL (.cons b t)
end

def toks : List PT → List Tok
  | [] => []
  | .t x :: r => x :: toks r
  | .sp :: r => toks r

/-- the token sequence of the deparsed expression -/
def print (a : Ast) : List Tok := toks (printP a)

def render : List PT → String
  | [] => ""
  | .t x :: r => x.s ++ render r
  | .sp :: r => " " ++ render r

/-- the deparsed text -/
def printStr (a : Ast) : String := render (printP a)

/-! ### the parser -/

abbrev Res := Except Err (Ast × List Tok)

def skipNl (b : Bool) (ts : List Tok) : List Tok :=
  if b then ts.dropWhile (fun t => t.k == TK.NEWLINE) else ts

/-- parse_concat: does this token start the right operand of a concatenation by blanks? -/
def isStarterK (k : TK) : Bool :=
  blankconcat && (concatStarters.contains k || (tolerant && concatTolerantStarters.contains k) || decide (concatMin.ord ≤ k.ord))

def isStarter (t : Tok) : Bool := isStarterK t.k

/-- parse_primary: `|` (or `||` with HAWK_RWPIPE) followed by getline/getbline -/
def isPipeGetline (ts : List Tok) : Bool :=
  match ts with
  | t :: u :: _ => rio && (t.k == .BOR || (rwpipe && t.k == .LOR)) && (u.k == .GETLINE || u.k == .GETBLINE)
  | _ => false

/-- is the next token of kind `k`? -/
def headIs (k : TK) (ts : List Tok) : Bool :=
  match ts with
  | z :: _ => z.k == k
  | [] => false

def headIsInc (ts : List Tok) : Bool :=
  match ts with
  | u :: _ => (incToks.lookup u.k).isSome
  | [] => false

/-- the part of the ladder that starts at level `l` -/
def suffixFrom (l : Level) (full : List Level) : List Level := full.dropWhile (fun x => x != l)

mutual
/-- parse at the ladder suffix `lv` (`full` = the whole ladder, for the recursive entries parse_expr_withdc and
    parse_unary).  `n` bounds the number of tokens that may still be consumed: every recursive call that follows the
    consumption of a token gets `n-1`; `parse` starts with more than the number of tokens. -/
def parseLv (full : List Level) (n : Nat) (lv : List Level) (ts : List Tok) : Res :=
  match lv with
  | [] => .error .syntax
  | .binary fn sk ra map :: rest =>
    -- parse_binary: left = next(); loop
    match parseLv full n rest ts with
    | .error e => .error e
    | .ok (l, ts1) => binLoop full n fn sk ra map rest l ts1
  | .assLv :: rest =>
    -- parse_expr
    match parseLv full n rest ts with
    | .error e => .error e
    | .ok (x, ts1) =>
      match ts1 with
      | [] => .ok (x, ts1)
      | t :: ts2 =>
        match assignToks.lookup t.k with
        | none => .ok (x, ts1)
        | some op =>
          if !(x.isVar || x.isPos) then .error .eassign else
          match n with
          | 0 => .error .fuel
          | n' + 1 =>
            match parseLv full n' full ts2 with
            | .error e => .error e
            | .ok (y, ts3) => .ok (.ass op x y, ts3)
  | .cndLv :: rest =>
    -- parse_expr_basic
    match parseLv full n rest ts with
    | .error e => .error e
    | .ok (c, ts1) =>
      match ts1 with
      | [] => .ok (c, ts1)
      | t :: ts2 =>
        if t.k != .QUEST then .ok (c, ts1) else
        match n with
        | 0 => .error .fuel
        | n' + 1 =>
          match parseLv full n' full ts2 with
          | .error e => .error e
          | .ok (a, ts3) =>
            match ts3 with
            | [] => .error .colon
            | u :: ts4 =>
              if u.k != .COLON then .error .colon else
              match parseLv full n' full ts4 with
              | .error e => .error e
              | .ok (b, ts5) => .ok (.cnd c a b, ts5)
  | .inLv :: rest =>
    match parseLv full n rest ts with
    | .error e => .error e
    | .ok (l, ts1) => inLoop full n rest l ts1
  | .concatLv :: rest =>
    match parseLv full n rest ts with
    | .error e => .error e
    | .ok (l, ts1) => concatLoop full n rest l ts1
  | .unaryLv :: rest =>
    -- parse_unary
    match ts with
    | [] => parseLv full n rest ts
    | t :: ts1 =>
      match unaryToks.lookup t.k with
      | none => parseLv full n rest ts
      | some op =>
        match n with
        | 0 => .error .fuel
        | n' + 1 =>
          match parseLv full n' (.unaryLv :: rest) ts1 with
          | .error e => .error e
          | .ok (x, ts2) =>
            match mkUnr op x with
            | .error e => .error e
            | .ok y => .ok (y, ts2)
  | .unaryExpLv :: rest =>
    -- parse_unary_exp: the operand is parsed by parse_unary; no folding
    match ts with
    | [] => parseLv full n rest ts
    | t :: ts1 =>
      match unaryExpToks.lookup t.k with
      | none => parseLv full n rest ts
      | some op =>
        match n with
        | 0 => .error .fuel
        | n' + 1 =>
          match parseLv full n' (suffixFrom unaryExpOperand full) ts1 with
          | .error e => .error e
          | .ok (x, ts2) => .ok (.unr op x, ts2)
  | .incLv :: rest =>
    -- parse_increment
    match ts with
    | [] => parseLv full n rest ts
    | t :: ts1 =>
      match incToks.lookup t.k with
      | some op1 =>
        -- prefix operator
        match n with
        | 0 => .error .fuel
        | n' + 1 =>
          match parseLv full n' rest ts1 with
          | .error e => .error e
          | .ok (x, ts2) =>
            -- (with HAWK_BLANKCONCAT a postfix operator after a prefixed operand is left alone)
            if !blankconcat && headIsInc ts2 then .error .incdec
            else if !(x.isVar || x.isPos) then .error .incdec
            else .ok (.incpre op1 x, ts2)
      | none =>
        match parseLv full n rest ts with
        | .error e => .error e
        | .ok (x, ts2) =>
          match ts2 with
          | [] => .ok (x, ts2)
          | u :: ts3 =>
            match incToks.lookup u.k with
            | none => .ok (x, ts2)
            | some op2 =>
              -- "for an expression like 1 ++y, left is 1. so we leave ++ for y"
              if !(x.isVar || x.isPos) then .ok (x, ts2) else .ok (.incpst op2 x, ts3)
  | .primLv :: _ =>
    -- parse_primary = parse_primary_nopipe, then `| getline`
    match ts with
    | [] => .error .syntax
    | t :: ts1 =>
      match n with
      | 0 => .error .fuel
      | n' + 1 =>
        match primNoPipe full n' t.k t ts1 with
        | .error e => .error e
        | .ok (x, ts2) => if isPipeGetline ts2 then .error .unsupported else .ok (x, ts2)
termination_by (n, lv.length * 2 + 1)
decreasing_by all_goals (simp_wf; first | omega | (apply Prod.Lex.left; omega) | (apply Prod.Lex.right; simp; omega) | (apply Prod.Lex.right; omega))

/-- parse_primary_nopipe on token `t` of kind `k` (already taken from the input) -/
def primNoPipe (full : List Level) (n : Nat) (k : TK) (t : Tok) (ts1 : List Tok) : Res :=
  match k with
  | .INT => .ok (.int (Int.ofNat t.v) (some t.s), ts1)
  | .FLT => .ok (.lit .FLT t.s, ts1)
  | .STR => .ok (.lit .STR t.s, ts1)
  | .MBS => .ok (.lit .MBS t.s, ts1)
  | .CHAR => .ok (.lit .CHAR t.s, ts1)
  | .BCHR => .ok (.lit .BCHR t.s, ts1)
  | .XNIL => .ok (.lit .XNIL t.s, ts1)
  | .IDENT =>
    -- parse_primary_ident (names are not resolved in the model): name[...], name(...) or a variable
    match ts1 with
    | u :: ts2 =>
      if u.k == .LBRACK then
        match parseList full n false ts2 with
        | .error e => .error e
        | .ok (ix, ts3) =>
          match ts3 with
          | w :: ts4 =>
            if w.k != .RBRACK then .error .rbrack
            else if headIs .LBRACK ts4 then .error .unsupported
            else .ok (.idx t.s ix, ts4)
          | [] => .error .rbrack
      else if u.k == .LPAREN && t.adj then
        match ts2 with
        | w :: ts3 =>
          if w.k == .RPAREN then .ok (.call t.s .nil, ts3) else
          match parseList full n true ts2 with
          | .error e => .error e
          | .ok (args, ts4) =>
            match ts4 with
            | z :: ts5 => if z.k != .RPAREN then .error .comma else .ok (.call t.s args, ts5)
            | [] => .error .comma
        | [] => .error .syntax
      else .ok (.var t.s, ts1)
    | [] => .ok (.var t.s, ts1)
  | .DOLLAR =>
    -- parse_primary_positional: the operand is a primary
    match parseLv full n [.primLv] ts1 with
    | .error e => .error e
    | .ok (x, ts2) => .ok (.pos x, ts2)
  | .LPAREN =>
    -- parse_primary_lparen: no node for a single parenthesised expression
    match parseList full n true ts1 with
    | .error e => .error e
    | .ok (l, ts2) =>
      match ts2 with
      | w :: ts3 =>
        if w.k != .RPAREN then .error .rparen else
        match l with
        | .cons a .nil => .ok (a, ts3)
        | _ =>
          if !tolerant && !headIs .IN ts3 then .error .syntax
          else .ok (.grp l, ts3)
      | [] => .error .rparen
  | _ => .error .unsupported
termination_by (n, full.length * 2 + 4)
decreasing_by all_goals (simp_wf; first | omega | (apply Prod.Lex.left; omega) | (apply Prod.Lex.right; simp; omega) | (apply Prod.Lex.right; omega))

/-- the loop of parse_binary: `while (tok in map) { right = <operand level>(); left = fold or node }`.
    The right operand is parsed by the next level (left-associative), or - `ra` - by the level itself through
    its *_withdc wrapper (right-associative: `a ** b ** c` is `a ** (b ** c)`) -/
def binLoop (full : List Level) (n : Nat) (fn : String) (sk ra : Bool) (map : List (TK × BinOp)) (next : List Level) (left : Ast) (ts : List Tok) : Res :=
  match ts with
  | [] => .ok (left, ts)
  | t :: ts1 =>
    match map.lookup t.k with
    | none => .ok (left, ts)
    | some op =>
      match n with
      | 0 => .error .fuel
      | n' + 1 =>
        match parseLv full n' (if ra then .binary fn sk ra map :: next else next) (skipNl sk ts1) with
        | .error e => .error e
        | .ok (r, ts2) =>
          match mkBin op left r with
          | .error e => .error e
          | .ok l' => binLoop full n' fn sk ra map next l' ts2
termination_by (n, next.length * 2)
decreasing_by all_goals (simp_wf; first | omega | (apply Prod.Lex.left; omega) | (apply Prod.Lex.right; simp; omega) | (apply Prod.Lex.right; omega))

/-- parse_in: right operand must be a variable; no folding -/
def inLoop (full : List Level) (n : Nat) (next : List Level) (left : Ast) (ts : List Tok) : Res :=
  match ts with
  | [] => .ok (left, ts)
  | t :: ts1 =>
    if t.k != .IN then .ok (left, ts) else
    match n with
    | 0 => .error .fuel
    | n' + 1 =>
      match parseLv full n' next ts1 with
      | .error e => .error e
      | .ok (r, ts2) =>
        if !r.isVar then .error .notvar else inLoop full n' next (.bin .IN left r) ts2
termination_by (n, next.length * 2)
decreasing_by all_goals (simp_wf; first | omega | (apply Prod.Lex.left; omega) | (apply Prod.Lex.right; simp; omega) | (apply Prod.Lex.right; omega))

/-- parse_concat: explicit operator, or (HAWK_BLANKCONCAT) a token that starts an operand; no folding -/
def concatLoop (full : List Level) (n : Nat) (next : List Level) (left : Ast) (ts : List Tok) : Res :=
  match ts with
  | [] => .ok (left, ts)
  | t :: ts1 =>
    match n with
    | 0 => if t.k == concatTok || isStarter t then .error .fuel else .ok (left, ts)
    | n' + 1 =>
      if t.k == concatTok then
        match parseLv full n' next ts1 with
        | .error e => .error e
        | .ok (r, ts2) => concatLoop full n' next (.bin .CONCAT left r) ts2
      else if isStarter t then
        match parseLv full n' next ts with
        | .error e => .error e
        | .ok (r, ts2) => concatLoop full n' next (.bin .CONCAT left r) ts2
      else .ok (left, ts)
termination_by (n, next.length * 2)
decreasing_by all_goals (simp_wf; first | omega | (apply Prod.Lex.left; omega) | (apply Prod.Lex.right; simp; omega) | (apply Prod.Lex.right; omega))

/-- `e (, e)*` (each e by parse_expr_withdc); `sk`: newlines after a comma are skipped (calls, groups) or not (indices) -/
def parseList (full : List Level) (n : Nat) (sk : Bool) (ts : List Tok) : Except Err (AstL × List Tok) :=
  match parseLv full n full ts with
  | .error e => .error e
  | .ok (a, ts1) =>
    match ts1 with
    | [] => .ok (.cons a .nil, ts1)
    | t :: ts2 =>
      if t.k != .COMMA then .ok (.cons a .nil, ts1) else
      match n with
      | 0 => .error .fuel
      | n' + 1 =>
        match parseList full n' sk (skipNl sk ts2) with
        | .error e => .error e
        | .ok (l, ts3) => .ok (.cons a l, ts3)
termination_by (n, full.length * 2 + 2)
decreasing_by all_goals (simp_wf; first | omega | (apply Prod.Lex.left; omega) | (apply Prod.Lex.right; simp; omega) | (apply Prod.Lex.right; omega))
end

/-- parse_expr on a whole token list: all tokens must be consumed -/
def parse (ts : List Tok) : Except Err Ast :=
  match parseLv ladder (ts.length + 1) ladder ts with
  | .error e => .error e
  | .ok (a, []) => .ok a
  | .ok (_, _ :: _) => .error .syntax

/-! ### the lexer (symbols: the C's walk over the `ops[]` table) -/

/-- get_symbols(), the part of the walk that stays on one table entry `(s, k)`:
    `if (!p->str[idx]) return p; if (c == p->str[idx]) { idx++; c = next; continue; } p++;`
    (`next` = the walk over the remaining entries) -/
def walkEntry (s : String) (k : TK) (next : Nat → List Char → Option (String × TK × List Char)) :
    Nat → List Char → Option (String × TK × List Char)
  | idx, [] => if idx ≥ s.length then some (s, k, []) else next idx []
  | idx, c :: cs' =>
    if idx ≥ s.length then some (s, k, c :: cs')
    else if s.toList[idx]? == some c then walkEntry s k next (idx + 1) cs' else next idx (c :: cs')

/-- get_symbols(): `for (p = ops; p->str; ) { ... }` over the generated `ops[]` table -/
def symWalk : List (String × TK) → Nat → List Char → Option (String × TK × List Char)
  | [], _, _ => none
  | (s, k) :: rest, idx, cs => walkEntry s k (fun idx' cs' => symWalk rest idx' cs') idx cs

def isAlpha (c : Char) : Bool := c.isAlpha || c == '_'
def isAlnum (c : Char) : Bool := c.isAlphanum || c == '_'

def spanC (p : Char → Bool) : List Char → List Char × List Char
  | [] => ([], [])
  | c :: cs => if p c then let (a, b) := spanC p cs; (c :: a, b) else ([], c :: cs)

def digitVal (c : Char) : Nat :=
  if c.isDigit then c.toNat - '0'.toNat else if 'a' ≤ c ∧ c ≤ 'f' then c.toNat - 'a'.toNat + 10
  else if 'A' ≤ c ∧ c ≤ 'F' then c.toNat - 'A'.toNat + 10 else 0

def numVal (base : Nat) (ds : List Char) : Nat := ds.foldl (fun a c => a * base + digitVal c) 0

def isHex (c : Char) : Bool := c.isDigit || ('a' ≤ c && c ≤ 'f') || ('A' ≤ c && c ≤ 'F')

/-- a number: 0x.., 0b.., decimal/octal integer, or a floating-point literal (kept as text) -/
def lexNumber (cs : List Char) : Tok × List Char :=
  match cs with
  | '0' :: x :: r =>
    if (x == 'x' || x == 'X') && (match r with | d :: _ => isHex d | [] => false) then
      let (ds, r') := spanC isHex r
      ({ k := .INT, s := String.ofList ('0' :: x :: ds), v := numVal 16 ds }, r')
    else if (x == 'b' || x == 'B') && (match r with | d :: _ => d == '0' || d == '1' | [] => false) then
      let (ds, r') := spanC (fun c => c == '0' || c == '1') r
      ({ k := .INT, s := String.ofList ('0' :: x :: ds), v := numVal 2 ds }, r')
    else lexDec cs
  | _ => lexDec cs
where
  lexDec (cs : List Char) : Tok × List Char :=
    let (ip, r1) := spanC Char.isDigit cs
    let (fp, r2, isf) : List Char × List Char × Bool :=
      match r1 with
      | '.' :: r => let (f, r') := spanC Char.isDigit r; ('.' :: f, r', true)
      | _ => ([], r1, false)
    let (ep, r3, ise) : List Char × List Char × Bool :=
      match r2 with
      | e :: r =>
        if e == 'e' || e == 'E' then
          match r with
          | sgn :: d :: r' =>
            if (sgn == '+' || sgn == '-') && d.isDigit then let (x, r'') := spanC Char.isDigit (d :: r'); (e :: sgn :: x, r'', true)
            else if sgn.isDigit then let (x, r'') := spanC Char.isDigit (sgn :: d :: r'); (e :: x, r'', true)
            else ([], r2, false)
          | [d] => if d.isDigit then ([e, d], [], true) else ([], r2, false)
          | [] => ([], r2, false)
        else ([], r2, false)
      | [] => ([], r2, false)
    if isf || ise then ({ k := .FLT, s := String.ofList (ip ++ fp ++ ep) }, r3)
    else
      let oct := ip.length > 1 && ip.head? == some '0' && ip.all (fun c => '0' ≤ c && c ≤ '7')
      ({ k := .INT, s := String.ofList ip, v := if oct then numVal 8 ip else numVal 10 ip }, r3)

/-- body of a quoted literal up to the closing quote; only the escapes the deparser writes back unchanged -/
def lexQuoted (q : Char) : List Char → Option (List Char × List Char)
  | [] => none
  | c :: cs =>
    if c == q then some ([], cs)
    else if c == '\\' then
      match cs with
      | e :: cs' =>
        if e == 'n' || e == 't' || e == '\\' || e == q then
          match lexQuoted q cs' with
          | some (b, r) => some ('\\' :: e :: b, r)
          | none => none
        else none
      | [] => none
    else if c.toNat < 32 || c.toNat > 126 || c == '"' || c == '\'' then none
    else
      match lexQuoted q cs with
      | some (b, r) => some (c :: b, r)
      | none => none

/-- classify_ident: the generated keyword table `kwtab[]` of parse.c -/
def kwKind (s : String) : TK :=
  match Hawk.Gen.Keywords.kwtab.lookup s with
  | some k => k
  | none => .IDENT

def lexGo (fuel : Nat) (cs : List Char) (acc : List Tok) : Except Err (List Tok) :=
  match fuel with
  | 0 => .error .fuel
  | fuel' + 1 =>
    match cs with
    | [] => .ok acc.reverse
    | c :: r =>
      if c == ' ' || c == '\t' || c == '\r' then lexGo fuel' r acc
      else if c == '\n' then lexGo fuel' r ({ k := .NEWLINE, s := "\n" } :: acc)
      else if c.isDigit || (c == '.' && (match r with | d :: _ => d.isDigit | [] => false)) then
        let (t, r') := lexNumber cs
        lexGo fuel' r' (t :: acc)
      else if isAlpha c then
        let (w, r') := spanC isAlnum cs
        -- `mod::name` is one name
        let (w2, r2) : List Char × List Char :=
          match r' with
          | ':' :: ':' :: x :: r'' => if isAlpha x then let (w', r3) := spanC isAlnum (x :: r''); (w ++ [':', ':'] ++ w', r3) else (w, r')
          | _ => (w, r')
        let s := String.ofList w2
        let k := if w2.contains ':' then TK.IDENT else kwKind s
        lexGo fuel' r2 ({ k := k, s := s, adj := (match r2 with | '(' :: _ => true | _ => false) } :: acc)
      else if c == '"' then
        match lexQuoted '"' r with
        | some (b, r') => lexGo fuel' r' ({ k := .STR, s := String.ofList ('"' :: b ++ ['"']) } :: acc)
        | none => .error .lex
      else if c == '\'' then
        match lexQuoted '\'' r with
        | some ([x], r') => lexGo fuel' r' ({ k := .CHAR, s := String.ofList ['\'', x, '\''] } :: acc)
        | _ => .error .lex
      else if c == '@' then
        match r with
        | 'b' :: '"' :: r1 =>
          match lexQuoted '"' r1 with
          | some (b, r') => lexGo fuel' r' ({ k := .MBS, s := String.ofList ('@' :: 'b' :: '"' :: b ++ ['"']) } :: acc)
          | none => .error .lex
        | 'b' :: '\'' :: r1 =>
          match lexQuoted '\'' r1 with
          | some ([x], r') => lexGo fuel' r' ({ k := .BCHR, s := String.ofList ['@', 'b', '\'', x, '\''] } :: acc)
          | _ => .error .lex
        | 'n' :: 'i' :: 'l' :: r1 =>
          if (match r1 with | x :: _ => isAlnum x | [] => false) then .error .lex
          else lexGo fuel' r1 ({ k := .XNIL, s := "@nil" } :: acc)
        | _ =>
          -- `@word`: a keyword of kwtab[] (@local, @global, @reset, @abort, ...)
          let (w, r1) := spanC isAlnum r
          let sp := String.ofList ('@' :: w)
          match Hawk.Gen.Keywords.kwtab.lookup sp with
          | some k => lexGo fuel' r1 ({ k := k, s := sp } :: acc)
          | none => .error .lex
      else
        match symWalk symTable 0 cs with
        | some (s, k, r') => if s.length = 0 then .error .lex else lexGo fuel' r' ({ k := k, s := s } :: acc)
        | none => .error .lex

/-- characters -> tokens (every step consumes at least one character, so `cs.length + 1` steps are enough) -/
def lex (s : String) : Except Err (List Tok) := lexGo (s.length + 1) s.toList []

end Hawk.Deparse
