import HawkModel.ExprLemmas
import HawkModel.ExprBlock

/-! lemmas for the block-locals layer (`ExprBlock.lean`): the flat frame with `run_block0`'s reset simulates lexically
scoped locals. The property theorems are in `Props/C08.lean`. -/

namespace Hawk.Expr
open FloatOps

variable {F : Type} [FloatOps F]

/-! ## simulation of storages, restricted to the references an expression may use -/

section simOn
variable {S₁ S₂ R₁ R₂ : Type}

/-- every reference in the expression satisfies `P` -/
def Expr.AllRefs {R : Type} (P : R → Prop) : Expr R F → Prop
  | .var r => P r
  | .un _ e => e.AllRefs P
  | .bin _ l r => l.AllRefs P ∧ r.AllRefs P
  | .cnd c t f => c.AllRefs P ∧ t.AllRefs P ∧ f.AllRefs P
  | .asg _ x y => P x ∧ y.AllRefs P
  | .incpre _ x => P x
  | .incpst _ x => P x
  | _ => True

structure SimulatesOn (P : R₁ → Prop) (st₂ : Storage S₂ R₂ F) (st₁ : Storage S₁ R₁ F) (π : R₁ → R₂)
    (Rel : S₂ → S₁ → Prop) : Prop where
  read : ∀ r, P r → ∀ s₂ s₁, Rel s₂ s₁ → Sim Rel (st₂.read (π r) s₂) (st₁.read r s₁)
  write : ∀ r, P r → ∀ v s₂ s₁, Rel s₂ s₁ → SimW Rel (st₂.write (π r) v s₂) (st₁.write r v s₁)

theorem eval_sim_on (X : Ext F) {P : R₁ → Prop} {st₂ : Storage S₂ R₂ F} {st₁ : Storage S₁ R₁ F} {π : R₁ → R₂}
    {Rel : S₂ → S₁ → Prop} (H : SimulatesOn P st₂ st₁ π Rel) (e : Expr R₁ F) :
    e.AllRefs P → ∀ s₂ s₁, Rel s₂ s₁ → Sim Rel (eval X st₂ (e.map π) s₂) (eval X st₁ e s₁) := by
  induction e with
  | lit n => intro _ s₂ s₁ h; simpa [eval, Expr.map] using Sim.ok h
  | str x => intro _ s₂ s₁ h; simpa [eval, Expr.map] using Sim.ok h
  | mbs x => intro _ s₂ s₁ h; simpa [eval, Expr.map] using Sim.ok h
  | chr x => intro _ s₂ s₁ h; simpa [eval, Expr.map] using Sim.ok h
  | bchr x => intro _ s₂ s₁ h; simpa [eval, Expr.map] using Sim.ok h
  | xnil => intro _ s₂ s₁ h; simpa [eval, Expr.map] using Sim.ok h
  | var r => intro he s₂ s₁ h; simpa [eval, Expr.map] using H.read r he s₂ s₁ h
  | un op e ih =>
    intro he s₂ s₁ h
    simp only [eval, Expr.map]
    exact Sim.bind (ih he s₂ s₁ h) (fun v t₂ t₁ ht => Sim.pureBind _ ht)
  | bin op l r ihl ihr =>
    intro he s₂ s₁ h
    have ihl := ihl he.1
    have ihr := ihr he.2
    cases op <;> simp only [eval, Expr.map] <;>
    first
    | exact Sim.bind (ihl s₂ s₁ h) (fun lv t₂ t₁ ht => Sim.bind (ihr t₂ t₁ ht) (fun rv u₂ u₁ hu => Sim.pureBind _ hu))
    | (refine Sim.bind (ihl s₂ s₁ h) (fun lv t₂ t₁ ht => ?_)
       by_cases hb : toBool lv = true
       · first
         | simpa [hb] using Sim.ok ht
         | (simp only [hb]
            exact Sim.bind (ihr t₂ t₁ ht) (fun rv u₂ u₁ hu => by simpa using Sim.ok hu))
       · first
         | simpa [hb] using Sim.ok ht
         | (simp only [hb]
            exact Sim.bind (ihr t₂ t₁ ht) (fun rv u₂ u₁ hu => by simpa using Sim.ok hu)))
    | exact Sim.bind (ihl s₂ s₁ h) (fun lv t₂ t₁ ht => Sim.bind (ihr t₂ t₁ ht) (fun rv u₂ u₁ hu => Sim.pureBindG _ (fun m => boolVal m) hu))
    | exact Sim.bind (ihl s₂ s₁ h) (fun lv t₂ t₁ ht => Sim.bind (ihr t₂ t₁ ht) (fun rv u₂ u₁ hu => Sim.pureBindG _ (fun m => boolVal (!m)) hu))
    | simp [Sim]
  | cnd c t f ihc iht ihf =>
    intro he s₂ s₁ h
    simp only [eval, Expr.map]
    refine Sim.bind (ihc he.1 s₂ s₁ h) (fun v t₂ t₁ ht => ?_)
    by_cases hb : toBool v = true
    · simpa [hb] using iht he.2.1 t₂ t₁ ht
    · simpa [hb] using ihf he.2.2 t₂ t₁ ht
  | asg op x y ih =>
    intro he s₂ s₁ h
    have ih := ih he.2
    have hx := he.1
    cases op <;> simp only [eval, Expr.map] <;>
    first
    | exact Sim.bind (ih s₂ s₁ h) (fun v t₂ t₁ ht => SimW.bind (H.write x hx v t₂ t₁ ht) (fun u₂ u₁ hu => by simpa using Sim.ok hu))
    | (refine Sim.bind (ih s₂ s₁ h) (fun v t₂ t₁ ht => Sim.bind (H.read x hx t₂ t₁ ht) (fun v2 u₂ u₁ hu => ?_))
       cases hxx : evalBinop X _ v2 v with
       | error e => simp [Sim]
       | ok tmp => simpa using SimW.bind (H.write x hx tmp u₂ u₁ hu) (fun w₂ w₁ hw => by simpa using Sim.ok hw))
  | incpre op x =>
    intro he s₂ s₁ h
    simp only [eval, Expr.map]
    refine Sim.bind (H.read x he s₂ s₁ h) (fun v t₂ t₁ ht => ?_)
    exact SimW.bind (H.write x he _ t₂ t₁ ht) (fun u₂ u₁ hu => by simpa using Sim.ok hu)
  | incpst op x =>
    intro he s₂ s₁ h
    simp only [eval, Expr.map]
    refine Sim.bind (H.read x he s₂ s₁ h) (fun v t₂ t₁ ht => ?_)
    exact SimW.bind (H.write x he _ t₂ t₁ ht) (fun u₂ u₁ hu => by simpa using Sim.ok hu)

end simOn

/-! ## the parser context -/

/-- a reference the parser can resolve in context `ctx`: a local of an open block, or a non-local -/
def InScope (ctx : PCtx) : SRef → Prop
  | .loc up idx => ∃ o k, ctx[up]? = some (o, k) ∧ idx < k
  | .oth _ => True

/-- contexts that `parse_block` can build: every block starts where the enclosing one ends -/
def Chain : PCtx → Prop
  | [] => True
  | (o, _) :: rest => o = lclsSize rest ∧ Chain rest

theorem chain_le : ∀ (ctx : PCtx) (up o k : Nat), Chain ctx → ctx[up]? = some (o, k) → o + k ≤ lclsSize ctx := by
  intro ctx
  induction ctx with
  | nil => intro up o k _ h; simp at h
  | cons hd rest ih =>
    obtain ⟨oh, kh⟩ := hd
    intro up o k hc h
    cases up with
    | zero =>
      simp at h
      obtain ⟨h1, h2⟩ := h
      subst h1; subst h2
      simp [lclsSize]
    | succ u =>
      simp at h
      have := ih u o k hc.2 h
      have h1 := hc.1
      simp only [lclsSize]
      omega

theorem chain_lt : ∀ (ctx : PCtx) (up up' o k o' k' : Nat), Chain ctx → ctx[up]? = some (o, k) →
    ctx[up']? = some (o', k') → up < up' → o' + k' ≤ o := by
  intro ctx
  induction ctx with
  | nil => intro up up' o k o' k' _ h; simp at h
  | cons hd rest ih =>
    obtain ⟨oh, kh⟩ := hd
    intro up up' o k o' k' hc h h' hlt
    cases up' with
    | zero => omega
    | succ u' =>
      simp at h'
      cases up with
      | zero =>
        simp at h
        obtain ⟨h1, h2⟩ := h
        subst h1; subst h2
        have := chain_le rest u' o' k' hc.2 h'
        have h1 := hc.1
        omega
      | succ u =>
        simp at h
        exact ih u u' o k o' k' hc.2 h h' (by omega)

theorem slotOf_eq (ctx : PCtx) (up idx o k : Nat) (h : ctx[up]? = some (o, k)) : slotOf ctx up idx = o + idx := by
  simp [slotOf, List.getD_eq_getElem?_getD, h]

/-- distinct locals in scope have distinct frame slots -/
theorem slot_inj (ctx : PCtx) (hc : Chain ctx) (up idx up' idx' : Nat)
    (h : InScope ctx (.loc up idx)) (h' : InScope ctx (.loc up' idx'))
    (hs : slotOf ctx up idx = slotOf ctx up' idx') : up = up' ∧ idx = idx' := by
  obtain ⟨o, k, hk, hi⟩ := h
  obtain ⟨o', k', hk', hi'⟩ := h'
  rw [slotOf_eq ctx up idx o k hk, slotOf_eq ctx up' idx' o' k' hk'] at hs
  rcases Nat.lt_trichotomy up up' with hlt | heq | hgt
  · have := chain_lt ctx up up' o k o' k' hc hk hk' hlt
    omega
  · subst heq
    rw [hk] at hk'
    injection hk' with hk'
    injection hk' with h1 h2
    subst h1
    exact ⟨rfl, by omega⟩
  · have := chain_lt ctx up' up o' k' o k hc hk' hk hgt
    omega

/-! ## frames of the scoped semantics -/

theorem length_modifyAt {α : Type} (g : α → α) : ∀ (l : List α) (n : Nat), (modifyAt g l n).length = l.length := by
  intro l
  induction l with
  | nil => intro n; simp [modifyAt]
  | cons a as ih =>
    intro n
    cases n with
    | zero => simp [modifyAt]
    | succ m => simp [modifyAt, ih]

theorem getD_modifyAt_same {α : Type} (g : α → α) (d : α) : ∀ (l : List α) (n : Nat), n < l.length →
    (modifyAt g l n).getD n d = g (l.getD n d) := by
  intro l
  induction l with
  | nil => intro n h; simp at h
  | cons a as ih =>
    intro n h
    cases n with
    | zero => simp [modifyAt]
    | succ m =>
      simp only [modifyAt, List.getD_cons_succ]
      exact ih m (by simpa using h)

theorem getD_modifyAt_ne {α : Type} (g : α → α) (d : α) : ∀ (l : List α) (n m : Nat), m ≠ n →
    (modifyAt g l n).getD m d = l.getD m d := by
  intro l
  induction l with
  | nil => intro n m _; simp [modifyAt]
  | cons a as ih =>
    intro n m h
    cases n with
    | zero =>
      cases m with
      | zero => exact absurd rfl h
      | succ m' => simp [modifyAt]
    | succ n' =>
      cases m with
      | zero => simp [modifyAt]
      | succ m' =>
        simp only [modifyAt, List.getD_cons_succ]
        exact ih n' m' (by omega)

/-- the value a source reference denotes in the scoped state -/
def den (s : SState F) : SRef → Val F
  | .loc up idx => (s.2.getD up nilFrame) idx
  | .oth i => s.1 i

/-! ## the simulation relation -/

/-- a placement of the non-locals that stays away from the frame of locals -/
def OffFrame (ρ : Nat → Ref) : Prop := ∀ i n, (ρ i).base ≠ .lcl n

/-- the flat frame stores what the scoped state says, for every reference in scope.
Nothing is said about the slots at or above `lclsSize ctx`: they hold whatever earlier blocks left there. -/
def BRel (ρ : Nat → Ref) (ctx : PCtx) (env : Env F) (s : SState F) : Prop :=
  s.2.length = ctx.length ∧ ∀ r, InScope ctx r → Good env (resolve ρ ctx r) (den s r)

omit [FloatOps F] in
theorem good_lcl (e : Env F) (n : Nat) (v : Val F) : Good e (.plain (.lcl n)) v ↔ e.lcl n = .sc v := by
  constructor
  · rintro ⟨hp, w, hw⟩
    simp only [Env.top] at hw
    simp only [Env.peek, Env.top, hw] at hp
    rw [hw, hp]
  · intro h
    exact ⟨by simp [Env.peek, Env.top, h], v, by simp [Env.top, h]⟩

omit [FloatOps F] in
/-- a reference that is not based on a local only depends on the non-frame part of the environment -/
theorem good_off_frame (e e' : Env F) (r : Ref) (v : Val F) (hb : ∀ n, r.base ≠ .lcl n)
    (hn : e'.named = e.named) (hg : e'.gbl = e.gbl) (ha : e'.arg = e.arg) (h : Good e r v) : Good e' r v := by
  have htop : e'.top r.base = e.top r.base := by
    cases hr : r.base with
    | named n => simp [Env.top, hn]
    | gbl i => simp [Env.top, hg]
    | lcl i => exact absurd hr (hb i)
    | arg i => simp [Env.top, ha]
  cases r with
  | plain b =>
    simp only [Ref.base] at htop
    simpa [Good, Env.peek, Kinded, htop] using h
  | idx b k =>
    simp only [Ref.base] at htop
    simpa [Good, Env.peek, Kinded, htop] using h

omit [FloatOps F] in
theorem indep_resolve (ρ : Nat → Ref) (hρ : NoAlias ρ) (hoff : OffFrame ρ) (ctx : PCtx) (hc : Chain ctx)
    (r r' : SRef) (h : InScope ctx r) (h' : InScope ctx r') (hne : r ≠ r') :
    Indep (resolve ρ ctx r) (resolve ρ ctx r') := by
  cases r with
  | loc up idx =>
    cases r' with
    | loc up' idx' =>
      simp only [resolve, Indep, Ref.base]
      intro heq
      injection heq with heq
      have := slot_inj ctx hc up idx up' idx' h h' heq
      exact hne (by rw [this.1, this.2])
    | oth j =>
      simp only [resolve, Indep]
      exact fun heq => hoff j _ heq.symm
  | oth i =>
    cases r' with
    | loc up' idx' =>
      simp only [resolve]
      have hb := hoff i (slotOf ctx up' idx')
      cases hr : ρ i with
      | plain b => rw [hr] at hb; simpa [Indep, Ref.base] using hb
      | idx b k => rw [hr] at hb; simpa [Indep, Ref.base] using hb
    | oth j =>
      simp only [resolve]
      exact hρ i j (fun heq => hne (by rw [heq]))

omit [FloatOps F] in
theorem den_write_same (s : SState F) (r : SRef) (v : Val F) (ctx : PCtx) (hl : s.2.length = ctx.length)
    (h : InScope ctx r) (s' : SState F) (hw : (scopedStorage (F := F)).write r v s = .ok s') : den s' r = v := by
  cases r with
  | loc up idx =>
    obtain ⟨o, k, hk, _⟩ := h
    have hup : up < s.2.length := by
      rw [hl]
      exact (List.getElem?_eq_some_iff.mp hk).1
    simp only [scopedStorage] at hw
    injection hw with hw
    subst hw
    show ((modifyAt (fun f => frameSet f idx v) s.2 up).getD up nilFrame) idx = v
    rw [getD_modifyAt_same _ _ _ _ hup]
    simp [frameSet]
  | oth i =>
    simp only [scopedStorage] at hw
    injection hw with hw
    subst hw
    simp [den, Store.set]

omit [FloatOps F] in
theorem den_write_ne (s : SState F) (r r' : SRef) (v : Val F) (hne : r' ≠ r)
    (s' : SState F) (hw : (scopedStorage (F := F)).write r v s = .ok s') : den s' r' = den s r' := by
  cases r with
  | loc up idx =>
    simp only [scopedStorage] at hw
    injection hw with hw
    subst hw
    cases r' with
    | loc up' idx' =>
      by_cases hu : up' = up
      · subst hu
        have hi : idx' ≠ idx := fun h => hne (by rw [h])
        by_cases hlen : up' < s.2.length
        · show ((modifyAt (fun f => frameSet f idx v) s.2 up').getD up' nilFrame) idx' = (s.2.getD up' nilFrame) idx'
          rw [getD_modifyAt_same _ _ _ _ hlen]
          simp [frameSet, hi]
        · have h1 : (modifyAt (fun f => frameSet f idx v) s.2 up').length ≤ up' := by
            rw [length_modifyAt]; omega
          have h2 : s.2.length ≤ up' := by omega
          simp [den, List.getD_eq_getElem?_getD, List.getElem?_eq_none h1, List.getElem?_eq_none h2]
      · show ((modifyAt (fun f => frameSet f idx v) s.2 up).getD up' nilFrame) idx' = (s.2.getD up' nilFrame) idx'
        rw [getD_modifyAt_ne _ _ _ _ _ hu]
    | oth j => simp [den]
  | oth i =>
    simp only [scopedStorage] at hw
    injection hw with hw
    subst hw
    cases r' with
    | loc up' idx' => simp [den]
    | oth j =>
      have : j ≠ i := fun h => hne (by rw [h])
      simp [den, Store.set, this]

/-- the evaluator's storage, reached through the parser's name resolution, behaves like the scoped storage -/
theorem block_simulates (X : Ext F) (ρ : Nat → Ref) (hρ : NoAlias ρ) (hoff : OffFrame ρ) (ctx : PCtx) (hc : Chain ctx) :
    SimulatesOn (InScope ctx) (envStorage X) (scopedStorage (F := F)) (resolve ρ ctx) (BRel ρ ctx) := by
  constructor
  · intro r hr env s h
    obtain ⟨e', h1, h2, h3⟩ := envRead_good env (resolve ρ ctx r) (den s r) (h.2 r hr)
    have hread : (scopedStorage (F := F)).read r s = .ok (den s r, s) := by
      cases r <;> rfl
    rw [hread]
    refine ⟨e', h1, h.1, fun r' hr' => ?_⟩
    by_cases heq : r' = r
    · subst heq; exact h2
    · exact h3 _ _ (indep_resolve ρ hρ hoff ctx hc r r' hr hr' (Ne.symm heq)) (h.2 r' hr')
  · intro r hr v env s h
    obtain ⟨e', h1, h2, h3⟩ := envWrite_good X.flexmap env (resolve ρ ctx r) (den s r) v (h.2 r hr)
    have hw : ∃ s', (scopedStorage (F := F)).write r v s = .ok s' := by
      cases r <;> exact ⟨_, rfl⟩
    obtain ⟨s', hs'⟩ := hw
    have hlen : s'.2.length = ctx.length := by
      cases r with
      | loc up idx =>
        simp only [scopedStorage] at hs'
        injection hs' with hs'
        subst hs'
        simpa [length_modifyAt] using h.1
      | oth i =>
        simp only [scopedStorage] at hs'
        injection hs' with hs'
        subst hs'
        exact h.1
    rw [hs']
    refine ⟨e', h1, hlen, fun r' hr' => ?_⟩
    by_cases heq : r' = r
    · subst heq
      rw [den_write_same s r' v ctx h.1 hr s' hs']
      exact h2
    · rw [den_write_ne s r r' v heq s' hs']
      exact h3 _ _ (indep_resolve ρ hρ hoff ctx hc r r' hr hr' (Ne.symm heq)) (h.2 r' hr')

/-! ## block entry and exit -/

omit [FloatOps F] in
/-- ENTRY.  Resetting the slots from `outer_nlcls` up to (at least) `outer_nlcls + org_nlcls` makes the flat frame
store a fresh all-nil scoped frame on top of the enclosing ones, whatever the slots held before. -/
theorem brel_enter (ρ : Nat → Ref) (hoff : OffFrame ρ) (ctx : PCtx) (hc : Chain ctx) (k hi : Nat)
    (hhi : lclsSize ctx + k ≤ hi) (env : Env F) (s : SState F) (h : BRel ρ ctx env s) :
    BRel ρ ((lclsSize ctx, k) :: ctx) (resetLcls env (lclsSize ctx) hi) (s.1, nilFrame :: s.2) := by
  refine ⟨by simp [h.1], fun r hr => ?_⟩
  cases r with
  | loc up idx =>
    cases up with
    | zero =>
      obtain ⟨o, k', hk, hi'⟩ := hr
      simp at hk
      obtain ⟨h1, h2⟩ := hk
      subst h1; subst h2
      simp only [resolve]
      rw [good_lcl]
      have : lclsSize ctx ≤ slotOf ((lclsSize ctx, k) :: ctx) 0 idx ∧ slotOf ((lclsSize ctx, k) :: ctx) 0 idx < hi := by
        simp [slotOf]; omega
      simp [resetLcls, this, den, nilFrame]
    | succ u =>
      obtain ⟨o, k', hk, hi'⟩ := hr
      simp at hk
      have hin : InScope ctx (.loc u idx) := ⟨o, k', hk, hi'⟩
      have hg := h.2 _ hin
      simp only [resolve] at hg ⊢
      rw [good_lcl] at hg ⊢
      have hs : slotOf ((lclsSize ctx, k) :: ctx) (u + 1) idx = slotOf ctx u idx := by simp [slotOf]
      have hlt : slotOf ctx u idx < lclsSize ctx := by
        rw [slotOf_eq ctx u idx o k' hk]
        have := chain_le ctx u o k' hc hk
        omega
      rw [hs]
      have hno : ¬ (lclsSize ctx ≤ slotOf ctx u idx ∧ slotOf ctx u idx < hi) := by omega
      simp only [resetLcls, hno, if_false]
      simpa [den] using hg
  | oth i =>
    have hg := h.2 (.oth i) trivial
    simp only [resolve, den] at hg ⊢
    exact good_off_frame env _ (ρ i) _ (hoff i) rfl rfl rfl hg

omit [FloatOps F] in
/-- EXIT.  Dropping the innermost scoped frame: the enclosing levels are still stored (the dead slots stay as garbage). -/
theorem brel_exit (ρ : Nat → Ref) (ctx : PCtx) (o k : Nat) (env : Env F) (s : SState F)
    (h : BRel ρ ((o, k) :: ctx) env s) : BRel ρ ctx env (s.1, s.2.tail) := by
  obtain ⟨hl, hg⟩ := h
  obtain ⟨σ, fr⟩ := s
  cases fr with
  | nil => simp at hl
  | cons a t =>
    refine ⟨by simpa using hl, fun r hr => ?_⟩
    cases r with
    | loc up idx =>
      obtain ⟨o', k', hk, hi⟩ := hr
      have hin : InScope ((o, k) :: ctx) (.loc (up + 1) idx) := ⟨o', k', by simpa using hk, hi⟩
      have := hg _ hin
      simpa [resolve, slotOf, den] using this
    | oth i =>
      have := hg (.oth i) trivial
      simpa [resolve, den] using this

omit [FloatOps F] in
theorem resetLcls_empty (e : Env F) (o : Nat) : resetLcls e o o = e := by
  cases e
  simp only [resetLcls]
  congr
  funext j
  have h : ¬ (o ≤ j ∧ j < o) := by omega
  exact if_neg h

/-! ## statements -/

/-- the concrete run matches the scoped run: same trace and related states, or the same error -/
def SimS (Rel : Env F → SState F → Prop) (r₂ : Except Err (Env F × List (Val F)))
    (r₁ : Except Err (SState F × List (Val F))) : Prop :=
  match r₁ with
  | .ok (s₁, tr) => ∃ env', r₂ = .ok (env', tr) ∧ Rel env' s₁
  | .error e => r₂ = .error e

omit [FloatOps F] in
theorem SimS.bind {Rel Rel' : Env F → SState F → Prop} {r₂ : Except Err (Env F × List (Val F))}
    {r₁ : Except Err (SState F × List (Val F))}
    {f₂ : Env F × List (Val F) → Except Err (Env F × List (Val F))}
    {f₁ : SState F × List (Val F) → Except Err (SState F × List (Val F))}
    (h : SimS Rel r₂ r₁) (hf : ∀ env s tr, Rel env s → SimS Rel' (f₂ (env, tr)) (f₁ (s, tr))) :
    SimS Rel' (r₂ >>= f₂) (r₁ >>= f₁) := by
  cases r₁ with
  | error e => simp only [SimS] at h; subst h; simp [SimS]
  | ok p =>
    obtain ⟨s₁, tr⟩ := p
    simp only [SimS] at h
    obtain ⟨env', h2, hr⟩ := h
    subst h2
    simpa using hf env' s₁ tr hr

omit [FloatOps F] in
theorem iter_sim {Rel : Env F → SState F → Prop}
    (f₂ : Env F × List (Val F) → Except Err (Env F × List (Val F)))
    (f₁ : SState F × List (Val F) → Except Err (SState F × List (Val F)))
    (hf : ∀ env s tr, Rel env s → SimS Rel (f₂ (env, tr)) (f₁ (s, tr))) :
    ∀ (n : Nat) env s tr, Rel env s → SimS Rel (iter n f₂ (env, tr)) (iter n f₁ (s, tr)) := by
  intro n
  induction n with
  | zero => intro env s tr h; exact ⟨env, rfl, h⟩
  | succ m ih =>
    intro env s tr h
    simp only [iter]
    exact SimS.bind (hf env s tr h) ih

/-- every expression refers only to variables the parser can resolve where the expression stands -/
def SStmt.WS : SStmt F → PCtx → Prop
  | .skip, _ => True
  | .ex e, ctx => e.AllRefs (InScope ctx)
  | .seq a b, ctx => a.WS ctx ∧ b.WS ctx
  | .blk k body, ctx => body.WS ((lclsSize ctx, k) :: ctx)
  | .rep _ b, ctx => b.WS ctx
  | .ite c t f, ctx => c.AllRefs (InScope ctx) ∧ t.WS ctx ∧ f.WS ctx

theorem sim_ex (X : Ext F) (ρ : Nat → Ref) (hρ : NoAlias ρ) (hoff : OffFrame ρ) (ctx : PCtx) (hc : Chain ctx)
    (e : Expr SRef F) (he : e.AllRefs (InScope ctx)) (env : Env F) (s : SState F) (h : BRel ρ ctx env s)
    (g₂ : Val F × Env F → Except Err (Env F × List (Val F)))
    (g₁ : Val F × SState F → Except Err (SState F × List (Val F)))
    (hg : ∀ v env' s', BRel ρ ctx env' s' → SimS (BRel ρ ctx) (g₂ (v, env')) (g₁ (v, s'))) :
    SimS (BRel ρ ctx) (eval X (envStorage X) (e.map (resolve ρ ctx)) env >>= g₂)
      (eval X scopedStorage e s >>= g₁) := by
  have hs := eval_sim_on X (block_simulates X ρ hρ hoff ctx hc) e he env s h
  cases hres : eval X scopedStorage e s with
  | error err =>
    rw [hres] at hs
    simp only [Sim] at hs
    rw [hs]
    simp [SimS]
  | ok p =>
    obtain ⟨v, s'⟩ := p
    rw [hres] at hs
    obtain ⟨env', h1, h2⟩ := hs
    rw [h1]
    simpa using hg v env' s' h2

/-- THE BLOCK SIMULATION -/
theorem block_sim (X : Ext F) (ρ : Nat → Ref) (hρ : NoAlias ρ) (hoff : OffFrame ρ) (s : SStmt F) :
    ∀ (ctx : PCtx), Chain ctx → s.WS ctx → ∀ env st tr, BRel ρ ctx env st →
      SimS (BRel ρ ctx) (run X (compile ρ s ctx) (env, tr)) (srun X s (st, tr)) := by
  induction s with
  | skip => intro ctx _ _ env st tr h; exact ⟨env, rfl, h⟩
  | ex e =>
    intro ctx hc hws env st tr h
    simp only [compile, run, srun]
    exact sim_ex X ρ hρ hoff ctx hc e hws env st h _ _ (fun v env' s' h' => ⟨env', rfl, h'⟩)
  | seq a b iha ihb =>
    intro ctx hc hws env st tr h
    simp only [compile, run, srun]
    exact SimS.bind (iha ctx hc hws.1 env st tr h) (fun env' s' tr' h' => ihb ctx hc hws.2 env' s' tr' h')
  | blk k body ih =>
    intro ctx hc hws env st tr h
    have hc' : Chain ((lclsSize ctx, k) :: ctx) := ⟨rfl, hc⟩
    have hent := brel_enter ρ hoff ctx hc k (lclsSize ctx + k) (Nat.le_refl _) env st h
    have hrun : run X (compile ρ (.blk k body) ctx) (env, tr) =
        run X (compile ρ body ((lclsSize ctx, k) :: ctx)) (resetLcls env (lclsSize ctx) (lclsSize ctx + k), tr) := by
      by_cases hk : k = 0
      · subst hk
        simp [compile, run, resetLcls_empty]
      · have : (0 : Nat) ≠ k := fun h => hk h.symm
        simp [compile, run, this]
    rw [hrun]
    have hb := ih _ hc' hws _ _ tr hent
    simp only [srun]
    cases hres : srun X body ((st.1, nilFrame :: st.2), tr) with
    | error err =>
      rw [hres] at hb
      simp only [SimS] at hb
      rw [hb]
      simp [SimS]
    | ok p =>
      obtain ⟨s', tr'⟩ := p
      rw [hres] at hb
      obtain ⟨env', h1, h2⟩ := hb
      rw [h1]
      exact ⟨env', rfl, brel_exit ρ ctx _ _ env' s' h2⟩
  | rep n body ih =>
    intro ctx hc hws env st tr h
    simp only [compile, run, srun]
    exact iter_sim _ _ (fun env' s' tr' h' => ih ctx hc hws env' s' tr' h') n env st tr h
  | ite c t f iht ihf =>
    intro ctx hc hws env st tr h
    simp only [compile, run, srun]
    refine sim_ex X ρ hρ hoff ctx hc c hws.1 env st h _ _ (fun v env' s' h' => ?_)
    by_cases hb : toBool v = true
    · simpa [hb] using iht ctx hc hws.2.1 env' s' tr h'
    · simpa [hb] using ihf ctx hc hws.2.2 env' s' tr h'

/-- the outermost block: pushing `nlcls_max` nils sets up the frame, from ANY previous content of the stack -/
theorem block_top_sim (X : Ext F) (ρ : Nat → Ref) (hρ : NoAlias ρ) (hoff : OffFrame ρ) (k : Nat) (body : SStmt F)
    (hws : body.WS [(0, k)]) (env : Env F) (σ : Store F) (tr : List (Val F)) (h : Holds ρ env σ) :
    SimS (fun env' s' => Holds ρ env' s'.1) (run X (compileTop ρ k body) (env, tr))
      (srun X (.blk k body) ((σ, []), tr)) := by
  have h0 : BRel ρ [] env (σ, []) := by
    refine ⟨rfl, fun r hr => ?_⟩
    cases r with
    | loc up idx => obtain ⟨o, k', hk, _⟩ := hr; simp at hk
    | oth i => exact h i
  have hc' : Chain [((0 : Nat), k)] := ⟨rfl, trivial⟩
  have hrun : ∃ hi, k ≤ hi ∧ run X (compileTop ρ k body) (env, tr) =
      run X (compile ρ body [(0, k)]) (resetLcls env 0 hi, tr) := by
    by_cases hN : max k (maxLcls body [(0, k)]) > 0
    · exact ⟨max k (maxLcls body [(0, k)]), by omega, by simp [compileTop, run, hN]⟩
    · have hk : k = 0 := by omega
      subst hk
      have hm' : maxLcls body [(0, 0)] = 0 := by omega
      refine ⟨0, by omega, ?_⟩
      rw [resetLcls_empty]
      simp [compileTop, run, hm']
  obtain ⟨hi, hhi, hr⟩ := hrun
  rw [hr]
  have hent : BRel ρ [(0, k)] (resetLcls env 0 hi) (σ, [nilFrame]) :=
    brel_enter ρ hoff [] trivial k hi (by simpa [lclsSize] using hhi) env (σ, []) h0
  have hb := block_sim X ρ hρ hoff body [(0, k)] hc' hws _ _ tr hent
  simp only [srun]
  cases hres : srun X body ((σ, [nilFrame]), tr) with
  | error err =>
    rw [hres] at hb
    simp only [SimS] at hb
    rw [hb]
    simp [SimS]
  | ok p =>
    obtain ⟨s', tr'⟩ := p
    rw [hres] at hb
    obtain ⟨env', h1, h2⟩ := hb
    rw [h1]
    exact ⟨env', rfl, fun i => h2.2 (.oth i) trivial⟩

end Hawk.Expr
