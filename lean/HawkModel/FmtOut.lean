import HawkModel.Fmt
/-!
# C12 — the float branch of `fmt_outv` (lib/fmt.c) below the specifier: buffers and the call protocol

`case 'e': case 'E': case 'f': case 'F': case 'g': case 'G':` of `fmt_outv`, after the specifier was recomposed
(`Fmt.recompose`):

* `fb.fmt` — the buffer the recomposed specifier is written to (`sbuf[32]`, `capa = 31`; replaced by a heap block of
  `fmtlen + 1` cells when the specifier *as written* (`fmtlen = fmtptr - percent`, in bytes) is longer) → `fmtCapa`;
  the number texts are written by `hawk_fmt_uintmax_to_bcstr(&ptr[fmtlen], capa - fmtlen, n, 10, -1, '\0', NULL)`, which
  cuts them to the room that is left → `composeInto`;
* `fb.out` — the buffer libc renders into (`sbuf[64]`, `capa = 63`), the `while (1)` loop
  `q = snprintf(ptr, capa + 1, fmt, v); if (q <= -1) goto oops; if (q <= capa) break; newcapa = capa * 2; if (newcapa < q)
  newcapa = q; (re)allocate newcapa + 1 cells; capa = newcapa;` → `outLoop`;
* the copy `fb.out.ptr[q] = '\0'; while (q > 0) { q--; fb.out.ptr[q] = ((hawk_bch_t*)fb.out.ptr)[q]; }` (in `fmt_outv`
  `fb.out.ptr` is a `hawk_bch_t*`: the loop copies every cell onto itself) and `n = strlen(bsp); PUT_BCS (fmtout, bsp, n)`
  → `deliver`.

libc is a parameter: `render : Str → F → Str` is the complete text `snprintf` produces for a format text and a value of
the floating type `F` (`long double` here; `__float128` through `quadmath_snprintf` and `double` follow the same code).
`snprintfC` is the ISO C contract of `snprintf` (7.21.6.5): at most `size - 1` characters are stored, the return value is the
length of the complete text, negative when that does not fit an `int`.
Core Lean only.
-/
namespace Hawk.Fmt

/-- ISO C 7.21.6.5 for `snprintf(buf, size, fmt, v)`, `t` being the complete text: (return value, characters stored before the
terminating NUL) -/
def snprintfC (t : Str) (size : Nat) : Int × Str :=
  if t.length > 2147483647 then (-1, t.take (size - 1)) else ((t.length : Int), t.take (size - 1))

/-- how the float branch ends -/
inductive OutRes where
  | oops                                                   -- `goto oops`: fmt_outv returns -1
  | ok (capa : Nat) (heap : Bool) (calls : Nat) (buf : Str)  -- fb.out.capa, fb.out.ptr != fb.out.sbuf, snprintf calls made, buffer content up to the NUL libc wrote
deriving Repr, DecidableEq

theorem snprintfC_fst (t : Str) (size : Nat) :
    (snprintfC t size).1 = if t.length > 2147483647 then -1 else (t.length : Int) := by
  unfold snprintfC; split <;> rfl

/-- the `while (1)` loop around `snprintf` -/
def outLoop (t : Str) (capa : Nat) (heap : Bool) (calls : Nat) : OutRes :=
  if _h1 : (snprintfC t (capa + 1)).1 ≤ -1 then .oops
  else if _h2 : (snprintfC t (capa + 1)).1 ≤ (capa : Int) then .ok capa heap (calls + 1) (snprintfC t (capa + 1)).2
  else
    -- `newcapa = fb.out.capa * 2; if (newcapa < q) newcapa = q;`
    outLoop t (max (capa * 2) (snprintfC t (capa + 1)).1.toNat) true (calls + 1)
termination_by t.length - capa
decreasing_by
  rw [snprintfC_fst] at _h1 _h2 ⊢
  by_cases hbig : t.length > 2147483647
  · simp [hbig] at _h1
  · simp only [hbig, if_false, Int.toNat_natCast] at _h2 ⊢
    omega

/-- `n = 0; while (bsp[n] != '\0') n++; PUT_BCS (fmtout, bsp, n);` -/
def cstrOf (buf : Str) : Str := buf.takeWhile (· != '\x00')

/-- the float branch from the `while (1)` loop to `PUT_BCS`: `none` = oops, `some s` = the characters put out -/
def deliver (t : Str) : Option Str :=
  match outLoop t 63 false 0 with
  | .oops => none
  | .ok _ _ _ buf => some (cstrOf buf)

/-- `fb.fmt.capa` after `if (fmtlen > fb.fmt.capa) { …ALLOC(fmtlen + 1)…; fb.fmt.capa = fmtlen; }`, `origBytes` = `fmtptr - percent` -/
def fmtCapa (origBytes : Nat) : Nat := if origBytes > 31 then origBytes else 31

/-- what `hawk_fmt_uintmax_to_bcstr(buf, size, n, 10, -1, '\0', NULL)` stores and returns (`Fmt.fmtUintmaxTo` with no flags):
the decimal digits cut to `size - 1` cells (nothing and a negative value when `size = 0`) -/
def numInto (size : Nat) (n : Nat) : Int × Str :=
  fmtUintmaxTo size n { base := 10 } (-1) none none

/-- "compose back the format specifier" with the room checks of the code: the cells of `fb.fmt.ptr` written
(without the final NUL). The single characters are stored unchecked; the two numbers are cut to `capa - fmtlen`. -/
def composeInto (capa : Nat) (st : CState) (conv : Char) : Str :=
  let s0 : Str := ['%'] ++ (if st.space then [' '] else []) ++ (if st.sharp then ['#'] else []) ++ (if st.sign then ['+'] else [])
    ++ (if st.leftadj then ['-'] else []) ++ (if st.zeropad then ['0'] else [])
  let s1 := if st.width then s0 ++ (numInto (capa - s0.length) st.w).2 else s0
  let s2 := if st.dot then s1 ++ ['.'] else s1
  let s3 := if st.precision then s2 ++ (numInto (capa - s2.length) st.p).2 else s2
  s3 ++ ['L', conv]

/-- the float branch as a whole for the specifier `fbu` that run.c built, rendered by `render`:
`none` = fmt.c rejects the specifier (it is put out raw), `some none` = oops, `some (some s)` = the text put out;
`chsz` = bytes per format character (1 for `hawk_becs_fcat`, 2 for `hawk_uecs_fcat`) -/
def fmtcFloatOut {F : Type} (render : Str → F → Str) (chsz : Nat) (fbu : Str) (v : F) : Option (Option Str) :=
  match fbu with
  | '%' :: body =>
    (fmtcScan body {}).map fun (st, conv) =>
      deliver (render (composeInto (fmtCapa (chsz * fbu.length)) st conv) v)
  | _ => none

/-! ## run.c: the scratch buffers `rtx->format.tmp` (hawk_rtx_format) and `rtx->formatmbs.tmp` (hawk_rtx_formatmbs)

Both start with 4096 cells and `inc = 8192`; both grow by the same rule (`GROW_WITH_INC` / `GROW_MBSBUF_WITH_INC`), each formatter
looking at its own buffer only. -/

/-- `GROW_WITH_INC (buf, incv)`: `len += (incv > inc)? incv: inc` with `inc = 4096 * 2` -/
def growWithInc (len incv : Nat) : Nat := len + (if incv > 8192 then incv else 8192)

/-- `if (wp[WP_WIDTH] > 0) { if (wp[WP_WIDTH] > tmp.len) GROW_WITH_INC (tmp, wp[WP_WIDTH] - tmp.len); … }` -/
def tmpT1 (tmpLen width : Nat) : Nat := if width > 0 ∧ width > tmpLen then growWithInc tmpLen (width - tmpLen) else tmpLen

/-- `if ((hawk_oow_t)-n > tmp.len) GROW_WITH_INC (tmp, (hawk_oow_t)-n - tmp.len);` -/
def tmpT2 (t1 need : Nat) : Nat := if need > t1 then growWithInc t1 (need - t1) else t1

/-- the `do { n = fmt(tmp.ptr, fmt_width, …); if (n <= -1) { …GROW…; fmt_width = -n; continue; } break; } while (1)` loop, buffer side,
for the callee `call` (as `Fmt.retryLoop`, which gives the text): the length of the scratch buffer afterwards and, for every call,
the pair (`fmt_width`, `tmp.len` at that moment). The callee writes up to `fmt_width` cells. -/
def emitIntTmpOf (call : Nat → Int × Str) (tmpLen width : Nat) : Nat × List (Nat × Nat) :=
  let t1 := tmpT1 tmpLen width
  let fmtWidth := if width > 0 then width else t1     -- `fmt_width = wp[WP_WIDTH]` resp. `fmt_width = tmp.len`
  if (call fmtWidth).1 ≤ -1 then
    let need := (-(call fmtWidth).1).toNat
    (tmpT2 t1 need, [(fmtWidth, t1), (need, tmpT2 t1 need)])
  else (t1, [(fmtWidth, t1)])

/-- the integer branch of hawk_rtx_format, buffer side (the callee as in `Fmt.emitInt`) -/
def emitIntTmp (tmpLen : Nat) (flags : Flags) (width : Nat) (precGiven : Bool) (prec : Int) (c : Char) (l : Int) : Nat × List (Nat × Nat) :=
  let fl := fillOf flags width precGiven prec
  let cv := convOf flags c l
  let f : IFlags :=
    { base := cv.1, notrunc := true, nonull := true,
      nozero := decide (l = 0 ∧ precGiven = true ∧ prec = 0),
      zerolead := cv.2.2.1, uppercase := cv.2.1, plussign := cv.2.2.2.1, emptysign := cv.2.2.2.2.1,
      fillright := fl.1, fillcenter := fl.2.1 }
  emitIntTmpOf (fun size =>
    if cv.2.2.2.2.2.1 then fmtUintmaxTo size (l % 18446744073709551616).toNat f prec fl.2.2 cv.2.2.2.2.2.2
    else fmtIntmaxTo size l f prec fl.2.2 cv.2.2.2.2.2.2) tmpLen width

/-- the lengths of the two scratch buffers of one runtime -/
structure Scratch where
  wide : Nat := 4096    -- rtx->format.tmp.len
  byte : Nat := 4096    -- rtx->formatmbs.tmp.len
deriving Repr, DecidableEq

def Scratch.get (s : Scratch) (mbs : Bool) : Nat := if mbs then s.byte else s.wide

def Scratch.set (s : Scratch) (mbs : Bool) (n : Nat) : Scratch := if mbs then { s with byte := n } else { s with wide := n }

/-- one integer conversion by the wide (`mbs = false`) or the byte-string formatter in a runtime whose scratch buffers have the
lengths `s`: the new lengths, the text, and the (size passed, buffer length) pairs of the calls into fmt.c -/
def seqStep (s : Scratch) (mbs : Bool) (flags : Flags) (width : Nat) (precGiven : Bool) (prec : Int) (c : Char) (l : Int) :
    Scratch × Str × List (Nat × Nat) :=
  let r := emitIntTmp (s.get mbs) flags width precGiven prec c l
  (s.set mbs r.1, emitInt (s.get mbs) flags width precGiven prec c l, r.2)

/-- one integer conversion of a sequence -/
structure IntOp where
  mbs : Bool
  flags : Flags
  width : Nat
  precGiven : Bool
  prec : Int
  c : Char
  l : Int
deriving Repr

/-- a sequence of integer conversions by the two formatters of ONE runtime, started with the buffer lengths `s`:
the texts and the (size passed, buffer length) pairs of all calls into fmt.c -/
def seqRun (s : Scratch) : List IntOp → List (Str × List (Nat × Nat))
  | [] => []
  | o :: r =>
    let x := seqStep s o.mbs o.flags o.width o.precGiven o.prec o.c o.l
    (x.2.1, x.2.2) :: seqRun x.1 r

end Hawk.Fmt
