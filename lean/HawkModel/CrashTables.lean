import HawkModel.Gen.ArgSites
import HawkModel.Gen.SwitchSites
import HawkModel.Gen.SubscriptSites
import HawkModel.Gen.RetrySites
/-!
# C01 — criteria over the round-5 structural tables, and why they suffice

* `ArgSites`  (extract/arg_sites.py): `hawk_rtx_getarg(rtx, I)` is the unchecked read `rtx->stack[base + 4 + I]`; the
  cells `base+4 .. base+4+nargs-1` belong to the call.  `argRowOk` compares the index with the number of arguments
  known to be present; `argRowOk_sound` derives `cell < end of the frame` from it.
* `SubscriptSites` (extract/subscript_sites.py): a subscript `a[i]` into an array of declared length N is in range when
  `i < N`; `subRowOk` is the per-class bound, `subRowOk_sound` derives `i < N` for every index value the class admits.
* `SwitchSites` (extract/switch_sites.py): a `switch` is modelled by its label set and its default flag;
  `switchRowOk_sound` says that a switch accepted by the criterion takes an arm (or the error exit that follows it) for
  every value of the enum.
Core Lean only.
-/
namespace Hawk.Crash
open Hawk.Gen

/-! ## argument indices -/

/-- number of arguments known to be present at the site, counted from the site's symbolic offset `sym`:
    a literal index (`sym = ""`) may use the minimum of the function-table spec and the dominating comparison of the
    actual count; an index `K + x` only a dominating comparison with `… + x` -/
def argGuaranteed (r : ArgSites.Row) : Nat := if r.sym = "" then max r.specMin r.pathMin else r.pathMin

def argRowOk (r : ArgSites.Row) : Bool := decide (r.idx < argGuaranteed r)

/-- the stack cell read by `hawk_rtx_getarg(rtx, i)` and the first cell after the arguments of the current call
    (run.c: RTX_STACK_ARG = stack[stack_base + 4 + n]) -/
def argCell (base i : Nat) : Nat := base + 4 + i
def argEnd (base nargs : Nat) : Nat := base + 4 + nargs

/-- why the criterion suffices: `x` is the run-time value of the symbolic offset (0 for a literal index), `nargs` the
    actual argument count.  Given that the caller refused fewer than `specMin` arguments (parse.c / run.c check the
    spec before the builtin runs) and that the dominating comparison holds (`pathMin + x ≤ nargs`, when there is one),
    the cell read lies inside the frame of the call — for every frame base, count and offset. -/
theorem argRowOk_sound (r : ArgSites.Row) (h : argRowOk r = true) (base nargs x : Nat)
    (hspec : r.sym = "" → x = 0 ∧ r.specMin ≤ nargs) (hpath : 0 < r.pathMin → r.pathMin + x ≤ nargs) :
    argCell base (r.idx + x) < argEnd base nargs := by
  unfold argRowOk argGuaranteed at h
  unfold argCell argEnd
  have h' := of_decide_eq_true h
  by_cases hs : r.sym = ""
  · obtain ⟨hx, hm⟩ := hspec hs
    simp only [hs, if_true] at h'
    by_cases hp : 0 < r.pathMin
    · have := hpath hp
      rcases Nat.le_total r.specMin r.pathMin with hle | hle
      · rw [Nat.max_eq_right hle] at h'; omega
      · rw [Nat.max_eq_left hle] at h'; omega
    · have hz : r.pathMin = 0 := by omega
      rw [hz, Nat.max_eq_left (Nat.zero_le _)] at h'; omega
  · simp only [hs, if_false] at h'
    have := hpath (by omega)
    omega

/-! ## subscripts into arrays of declared length -/

/-- the class bound: a constant index is below the length; a 0/1 index needs two cells; an index dominated by
    `i < h` (or typed by an enum with h proper values) needs h ≤ length; an unclassified index is not accepted -/
def subRowOk (r : SubscriptSites.Row) : Bool :=
  match r.cls with
  | .lit => decide (r.h < r.len)
  | .bool => decide (2 ≤ r.len)
  | .below => decide (r.h ≤ r.len)
  | .enumT => decide (r.h ≤ r.len)
  | .open => false

/-- the index values a class admits at run time -/
def subAdmits (r : SubscriptSites.Row) (v : Nat) : Prop :=
  match r.cls with
  | .lit => v = r.h
  | .bool => v = 0 ∨ v = 1
  | .below => v < r.h
  | .enumT => v < r.h
  | .open => True

/-- why the criterion suffices: every index value the class admits is a valid cell of the array -/
theorem subRowOk_sound (r : SubscriptSites.Row) (h : subRowOk r = true) (v : Nat) (hv : subAdmits r v) : v < r.len := by
  unfold subRowOk at h
  unfold subAdmits at hv
  cases hc : r.cls <;> simp only [hc] at h hv
  · have := of_decide_eq_true h; omega
  · have := of_decide_eq_true h; omega
  · have := of_decide_eq_true h; omega
  · have := of_decide_eq_true h; omega
  · exact absurd h (by decide)

/-! ## fmt.c fmt_outv: scanning a width / precision (model of the REPAIRED digit loop, patches/c01-fmt-width-precision-overflow.diff) -/

def INT32_MAX : Nat := 2147483647

/-- `for (n = 0;; ...) { if (n > (INT_MAX - d) / 10) goto invalid_format; n = n * 10 + d; ... }` over the digits scanned -/
def scanNum : List Nat → Nat → Option Nat
  | [], n => some n
  | d :: ds, n => if n > (INT32_MAX - d) / 10 then none else scanNum ds (n * 10 + d)

/-- the unrepaired loop: `int n; n = n * 10 + d` wraps around (two's complement) -/
def scanNumWrap : List Nat → Int → Int
  | [], n => n
  | d :: ds, n => scanNumWrap ds (((n * 10 + d + 2147483648) % 4294967296) - 2147483648)

theorem scanNum_bounds (ds : List Nat) : ∀ (n m : Nat), n ≤ INT32_MAX → (∀ d ∈ ds, d < 10) → scanNum ds n = some m →
    m ≤ INT32_MAX ∧ m < (n + 1) * 10 ^ ds.length := by
  induction ds with
  | nil =>
    intro n m hn _ h
    simp [scanNum] at h
    subst h
    exact ⟨hn, by simp⟩
  | cons d ds ih =>
    intro n m hn hd h
    have hd10 : d < 10 := hd d (by simp)
    unfold scanNum at h
    split at h
    · exact absurd h (by simp)
    · rename_i hle
      have hle' : n ≤ (INT32_MAX - d) / 10 := Nat.le_of_not_gt hle
      have h10 : n * 10 ≤ INT32_MAX - d := by
        have := Nat.mul_le_mul_right 10 hle'
        exact Nat.le_trans this (Nat.div_mul_le_self _ _)
      have hd' : d ≤ INT32_MAX := by unfold INT32_MAX; omega
      have hn' : n * 10 + d ≤ INT32_MAX := by omega
      obtain ⟨h1, h2⟩ := ih (n * 10 + d) m hn' (fun x hx => hd x (by simp [hx])) h
      refine ⟨h1, ?_⟩
      have hstep : (n * 10 + d + 1) * 10 ^ ds.length ≤ ((n + 1) * 10) * 10 ^ ds.length :=
        Nat.mul_le_mul_right _ (by omega)
      have : (n + 1) * 10 ^ (d :: ds).length = ((n + 1) * 10) * 10 ^ ds.length := by
        simp [List.length_cons, Nat.pow_succ, Nat.mul_assoc, Nat.mul_comm 10]
      omega

/-! ## retry-after-failure loops (arr.c hawk_arr_insert, ecs-imp.h resize_for_ncat) -/

/-- the step of the loop variable (a capacity) above its floor `m` -/
def retryStep : RetrySites.Shape → Nat → Nat → Nat
  | .halveAbove, m, c => m + (c - m) / 2
  | .decrement, _, c => c - 1
  | .other, _, c => c

def retryRowOk (r : RetrySites.Row) : Bool := r.shape != .other && r.giveup == "(" ++ r.var ++ "<=" ++ r.floor ++ ")"

/-- while the give-up test `c <= m` is false, a recognised step strictly lowers the capacity and never goes below the floor -/
theorem retryStep_decreases (s : RetrySites.Shape) (hs : s ≠ .other) (m c : Nat) (h : m < c) :
    retryStep s m c < c ∧ m ≤ retryStep s m c := by
  cases s
  · simp only [retryStep]
    have : (c - m) / 2 < c - m := Nat.div_lt_self (by omega) (by decide)
    omega
  · simp only [retryStep]; omega
  · exact absurd rfl hs

/-- the loop when every attempt fails: `do { attempt; if (c <= m) give up; c = step c; } while (1)` — the number of
    attempts made before it gives up.  Total by the measure `c - m` (no fuel). -/
def failingAttempts (s : RetrySites.Shape) (hs : s ≠ .other) (m c : Nat) : Nat :=
  if c ≤ m then 1 else 1 + failingAttempts s hs m (retryStep s m c)
termination_by c - m
decreasing_by
  have := retryStep_decreases s hs m c (by omega)
  omega

/-- it gives up after at most `c - m + 1` failing attempts -/
theorem failingAttempts_le (s : RetrySites.Shape) (hs : s ≠ .other) (m : Nat) : ∀ c, failingAttempts s hs m c ≤ c - m + 1 := by
  intro c
  induction h : c - m using Nat.strongRecOn generalizing c with
  | _ k ih =>
    unfold failingAttempts
    split
    · omega
    · rename_i hgt
      have hd := retryStep_decreases s hs m c (by omega)
      have := ih (retryStep s m c - m) (by omega) (retryStep s m c) rfl
      omega

/-- the step that rounds the half up has a fixed point right above the floor: the give-up test is never reached from it -/
theorem roundUp_step_stuck (m : Nat) : m + ((m + 1) - m + 1) / 2 = m + 1 ∧ ¬ (m + 1 ≤ m) := by
  constructor
  · have : (m + 1) - m + 1 = 2 := by omega
    rw [this]
  · omega

/-! ## switches over enumerators -/

/-- a switch accepted by the criterion: every value of the enum has a label (and no label is a foreign integer), or
    there is a `default:`, or the statements after the switch are an error exit -/
def switchRowOk (r : SwitchSites.Row) : Bool :=
  (r.plain == 0 && r.missing == 0) || r.hasDefault || r.after == .error

/-- model of the dispatch: the arm taken for value `v` -/
inductive Arm where
  | label (v : Nat) | dflt | falloff
  deriving DecidableEq, Repr

def dispatch (labels : List Nat) (hasDefault : Bool) (v : Nat) : Arm :=
  if labels.contains v then .label v else if hasDefault then .dflt else .falloff

/-- what the translator counts as `missing` -/
def missingOf (dom labels : List Nat) : Nat := (dom.filter fun v => !labels.contains v).length

/-- why the criterion suffices: with no enum value missing, or with a default, no value of the enum falls off the switch -/
theorem dispatch_total (dom labels : List Nat) (hasDefault : Bool)
    (h : missingOf dom labels = 0 ∨ hasDefault = true) : ∀ v ∈ dom, dispatch labels hasDefault v ≠ .falloff := by
  intro v hv
  unfold dispatch
  rcases h with h | h
  · have hnil : (dom.filter fun v => !labels.contains v) = [] := List.eq_nil_of_length_eq_zero h
    have := (List.filter_eq_nil_iff.mp hnil) v hv
    simp at this
    simp [this]
  · split
    · simp
    · simp

/-- and a value that is missing does fall off a switch without default (the criterion is not vacuous) -/
theorem dispatch_falls_off (labels : List Nat) (v : Nat) (h : labels.contains v = false) : dispatch labels false v = .falloff := by
  have h' : ¬ v ∈ labels := by simpa using h
  simp [dispatch, h']

end Hawk.Crash
