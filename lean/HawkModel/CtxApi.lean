/-!
# C09 (round 5) — the embedding API as a state machine over SEVERAL `hawk_t` and their `hawk_rtx_t`

`HawkModel/Ctx.lean` models one interpreter in depth (frames, reference counts inside a call).  This file
models the *object level* of `lib/hawk.h`: which API call creates, shares or transfers what, per object:

* `hawk_open/close/clear`, `hawk_parse` (clears first; a failed parse clears again), callback chains
  (`hawk_pushecb/popecb`, called top-first, `clear` from `hawk_clear`, `close` from `hawk_close` after the clear),
  `hawk_addgbl*/delgbl*` (slot list; refused with EPERM once the parsed program declared globals),
  `hawk_addfnc*/delfnc*` (survive `hawk_clear`), error number per object, `hawk_haltall`, `hawk_setopt`, the
  extension area (`hawk_getxtn`);
* `hawk_rtx_open` (resets the error number of its `hawk_t`), `hawk_rtx_close` (runtime callbacks top-first),
  `hawk_rtx_call*` (result carries one reference for the caller), `hawk_rtx_loop` (un-latches), `hawk_rtx_halt`,
  `hawk_rtx_make*val / refupval / refdownval / refdownval_nofree` through application handles (a value whose last
  reference was given up without freeing is *floating*: it may only be taken up again or handed to a global),
  `hawk_rtx_setgbl/getgbl` (the global takes its own reference; `getgbl` lends), `hawk_rtx_getvaloocstr /
  freevaloocstr` (string value: borrowed, nil: a conversion slot of the context, number: heap),
  `hawk_rtx_valtostr` (CPL lends a string value's characters and otherwise writes to the caller's buffer, CPLCPY
  fails with EINVAL when the buffer is short, CPLDUP allocates for the caller), error number, extension area.

A program is one of five fixed texts (see `harness/ctxapi_h.c`), described here by what its functions do to the
global `g0`.  Everything the C harness prints after each call is computed by `dump`.
-/
namespace Hawk.CtxApi

inductive Err where
  | noerr | eperm | enoent | eexist | einval | edivby0 | edupgbl | efunnf | other (n : Nat)
  deriving DecidableEq, Repr

def Err.name : Err → String
  | .noerr => "ENOERR" | .eperm => "EPERM" | .enoent => "ENOENT" | .eexist => "EEXIST" | .einval => "EINVAL"
  | .edivby0 => "EDIVBY0" | .edupgbl => "EDUPGBL" | .efunnf => "EFUNNF" | .other n => "E" ++ toString n

/-- `errtab` of the harness: what `hseterr n` / `rseterr n` store -/
def errOfNat (n : Nat) : Err :=
  match n % 5 with
  | 0 => .noerr | 1 => .eperm | 2 => .enoent | 3 => .eexist | _ => .einval

inductive Val where
  | nil | int (n : Int) | cell (id : Nat)
  deriving DecidableEq, Repr

structure Cell where
  text : String
  rc : Nat
  deriving Repr

/-- an application handle: the value, how many references the application holds through it, and whether the
    value is floating (its last reference was given up with `hawk_rtx_refdownval_nofree`) -/
structure Hnd where
  v : Val
  held : Nat
  floating : Bool
  deriving Repr

abbrev Heap := List (Nat × Cell)

def Heap.get? (h : Heap) (id : Nat) : Option Cell := (h.find? (·.1 == id)).map (·.2)
def Heap.set (h : Heap) (id : Nat) (c : Cell) : Heap := h.map (fun p => if p.1 == id then (id, c) else p)
def Heap.del (h : Heap) (id : Nat) : Heap := h.filter (fun p => p.1 != id)
def Heap.rc (h : Heap) (id : Nat) : Nat := match h.get? id with | some c => c.rc | none => 0
def Heap.text (h : Heap) (id : Nat) : String := match h.get? id with | some c => c.text | none => "?"
/-- `hawk_rtx_refupval` -/
def Heap.up (h : Heap) : Val → Heap
  | .cell id => match h.get? id with | some c => h.set id { c with rc := c.rc + 1 } | none => h
  | _ => h
/-- `hawk_rtx_refdownval`: the value is freed when the count reaches zero -/
def Heap.down (h : Heap) : Val → Heap
  | .cell id => match h.get? id with
    | some c => if c.rc ≤ 1 then h.del id else h.set id { c with rc := c.rc - 1 }
    | none => h
  | _ => h
/-- `hawk_rtx_refdownval_nofree` -/
def Heap.downNoFree (h : Heap) : Val → Heap
  | .cell id => match h.get? id with | some c => h.set id { c with rc := c.rc - 1 } | none => h
  | _ => h

structure Rtx where
  err : Err := .noerr
  xl : Nat := 0
  ecbs : List Nat := []
  heap : Heap := []
  next : Nat := 0
  g0 : Option Val := none
  xtn : Int := 0
  hnd : Nat → Option Hnd := fun _ => none
  nstr : Nat := 0
  /-- the record loop of `hawk_rtx_loop` ran once: reaching the end of the (empty) console input stores a built-in
      global for the first time, which the `gblset` callbacks see; later loops store the same value (no callback) -/
  inSeen : Bool := false

def Rtx.alloc (r : Rtx) (text : String) (rc : Nat) : Rtx × Val :=
  ({ r with heap := r.heap ++ [(r.next, { text := text, rc := rc })], next := r.next + 1 }, .cell r.next)

def Rtx.setHnd (r : Rtx) (k : Nat) (h : Option Hnd) : Rtx := { r with hnd := fun j => if j = k then h else r.hnd j }

def valText (h : Heap) : Val → String
  | .nil => "" | .int n => toString n | .cell id => h.text id

def showVal (h : Heap) : Val → String
  | .nil => "nil/0" | .int n => "i:" ++ toString n ++ "/0" | .cell id => "s:" ++ h.text id ++ "/" ++ toString (h.rc id)

/-- the value a context returns to the caller of `hawk_rtx_call*`: one more reference than the context holds -/
def showRet (h : Heap) : Val → String
  | .nil => "nil/0" | .int n => "i:" ++ toString n ++ "/0" | .cell id => "s:" ++ h.text id ++ "/" ++ toString (h.rc id + 1)

structure HawkS where
  err : Err := .noerr
  prog : Option Nat := none
  /-- whether the host function `hf0` existed when the program was parsed (the call site is bound then) -/
  hfBound : Bool := false
  haltall : Bool := false
  ecbs : List Nat := []
  gbls : List (Option String) := []
  fncs : List String := []
  opt : Nat := 0
  xtn : Int := 0
  rtxs : Nat → Option Rtx := fun _ => none

abbrev World := Nat → Option HawkS

def World.empty : World := fun _ => none
def World.set (w : World) (h : Nat) (s : Option HawkS) : World := fun j => if j = h then s else w j
def HawkS.setRtx (s : HawkS) (r : Nat) (x : Option Rtx) : HawkS := { s with rtxs := fun j => if j = r then x else s.rtxs j }

def nRtx : Nat := 3
def nHawk : Nat := 3
def nHnd : Nat := 4
def maxStr : Nat := 3

def HawkS.busy (s : HawkS) : Bool := (List.range nRtx).any (fun r => (s.rtxs r).isSome)

inductive HOp where
  | close | clear | parse (p : Nat) | pushecb (e : Nat) | popecb | addgbl (n : String) | delgbl (n : String)
  | addfnc (n : String) | delfnc (n : String) | seterr (n : Nat) | haltall | setopt (n : Nat) | xtn (n : Int)
  deriving Repr

inductive ROp where
  | «open» | close | pushecb (e : Nat) | popecb | call (f : String) (a : String) | loop | halt
  | mk (k : Nat) (kind : Nat) (text : String) | up (k : Nat) | down (k : Nat) | downnf (k : Nat)
  | setgbl (k : Nat) | getgbl (k : Nat) | getstr (k : Nat) | freestr | tostr (k : Nat) (mode : String)
  | seterr (n : Nat) | xtn (n : Int)
  deriving Repr

inductive Op where
  | hopen (h : Nat) | hcall (h : Nat) (op : HOp) | rcall (h : Nat) (r : Nat) (op : ROp)
  deriving Repr

def Op.hawk : Op → Nat
  | .hopen x => x | .hcall x _ => x | .rcall x _ _ => x

/-- result text and the callback events of one API call -/
structure Res where
  out : String
  log : List String := []
  /-- an error number the call leaves in the `hawk_t` of the runtime it was made on
      (`hawk_rtx_findfunwith*` looks the name up in `hawk->tree.funs`; a miss stores ENOENT in that table's owner) -/
  herr : Option Err := none

def cbLog (what : String) (tag : String) (ecbs : List Nat) : List String :=
  ecbs.map (fun e => what ++ tag ++ ":" ++ toString e)

/-! ## programs -/

def progFuns (p : Nat) : List String :=
  if p = 2 then ["getg", "setg", "boom", "quit", "two", "hf"] else ["getg", "setg", "boom", "quit", "two"]

def twoSuffix (p : Nat) : String := if p = 1 then "*" else if p = 4 then "/" else "+"

/-- the texts `BEGIN` / `END` store into `g0`, in order -/
def loopStores (p : Nat) : List String :=
  match p with
  | 0 => ["b0", "b0e"] | 1 => ["b1"] | 2 => ["b2"] | 4 => ["e4"] | _ => []

def liveGbls (s : HawkS) : List String := s.gbls.filterMap id

/-- outcome of `hawk_parse` on program `p`: the error it fails with, if any -/
def parseErr (s : HawkS) (p : Nat) : Option Err :=
  if p = 3 then some (.other 66)
  else if p = 4 ∧ "ga" ∈ liveGbls s then some .edupgbl
  else none

/-! ## hawk-level calls -/

def stepH (h : Nat) (s : HawkS) : HOp → Option HawkS × Res
  | .close =>
    if s.busy then (some s, { out := "busy" })
    else (none, { out := "ok", log := cbLog "hclear" (toString h) s.ecbs ++ cbLog "hclose" (toString h) s.ecbs })
  | .clear =>
    if s.busy then (some s, { out := "busy" })
    else (some { s with prog := none, haltall := false }, { out := "ok", log := cbLog "hclear" (toString h) s.ecbs })
  | .parse p =>
    if s.busy then (some s, { out := "busy" })
    else if p ≥ 5 then (some s, { out := "bad-op" })
    else match parseErr s p with
      | some e => (some { s with prog := none, haltall := false, err := e },
                   { out := "fail:" ++ e.name, log := cbLog "hclear" (toString h) s.ecbs ++ cbLog "hclear" (toString h) s.ecbs })
      | none => (some { s with prog := some p, hfBound := decide ("hf0" ∈ s.fncs), haltall := false, err := .enoent },
                 { out := "ok", log := cbLog "hclear" (toString h) s.ecbs })
  | .pushecb e =>
    if e ≥ 4 then (some s, { out := "bad-op" })
    else if e ∈ s.ecbs then (some s, { out := "dup" })
    else (some { s with ecbs := e :: s.ecbs }, { out := "ok" })
  | .popecb =>
    match s.ecbs with
    | [] => (some s, { out := "empty" })
    | e :: es => (some { s with ecbs := es }, { out := "popped:" ++ toString e })
  | .addgbl n =>
    if s.busy then (some s, { out := "busy" })
    else if s.prog.isSome then (some { s with err := .eperm }, { out := "fail:EPERM" })
    else if n ∈ liveGbls s then (some { s with err := .edupgbl }, { out := "fail:EDUPGBL" })
    else (some { s with gbls := s.gbls ++ [some n], err := .enoent }, { out := "id:" ++ toString s.gbls.length })
  | .delgbl n =>
    if s.busy then (some s, { out := "busy" })
    else if s.prog.isSome then (some { s with err := .eperm }, { out := "fail:EPERM" })
    else if n ∈ liveGbls s then
      (some { s with gbls := s.gbls.map (fun g => if g = some n then none else g) }, { out := "ok" })
    else (some { s with err := .enoent }, { out := "fail:ENOENT" })
  | .addfnc n =>
    if n ∈ s.fncs then (some { s with err := .eexist }, { out := "fail:EEXIST" })
    else (some { s with fncs := s.fncs ++ [n], err := .enoent }, { out := "ok" })
  | .delfnc n =>
    if n ∈ s.fncs then (some { s with fncs := s.fncs.filter (· != n) }, { out := "ok" })
    else (some { s with err := .enoent }, { out := "fail:ENOENT" })
  | .seterr n => (some { s with err := errOfNat n }, { out := "ok" })
  | .haltall => (some { s with haltall := true }, { out := "ok" })
  | .setopt n => (some { s with opt := n }, { out := "ok" })
  | .xtn n => (some { s with xtn := n }, { out := "ok" })

/-! ## runtime-level calls -/

/-- what an rtx-level call reads of its `hawk_t`: the program, the halt-all flag (and the host functions through
    the program) -/
structure View where
  prog : Option Nat
  hfBound : Bool
  haltall : Bool

def HawkS.view (s : HawkS) : View := { prog := s.prog, hfBound := s.hfBound, haltall := s.haltall }

def gblsetLog (tag : String) (r : Rtx) (times : Nat) : List String :=
  (List.replicate times (cbLog "gblset" tag r.ecbs)).flatten

/-- assignment of a value the global now owns (one reference) -/
def Rtx.storeG0 (r : Rtx) (v : Val) : Rtx :=
  match r.g0 with
  | some old => { r with heap := (r.heap.up v).down old, g0 := some v }
  | none => r

/-- `g0 = "text"` by the script: a fresh string owned by the global -/
def Rtx.assignText (r : Rtx) (t : String) : Rtx :=
  match r.g0 with
  | some old => let (r1, v) := r.alloc t 1; { r1 with heap := r1.heap.down old, g0 := some v }
  | none => r

def releaseCount (r : Rtx) : Nat :=
  r.nstr + ((List.range nHnd).map (fun k => match r.hnd k with
    | some h => if h.floating then 1 else h.held
    | none => 0)).sum

def stepCall (tag : String) (v : View) (r : Rtx) (f a : String) : Rtx × Res :=
  match v.prog with
  | none => ({ r with err := .efunnf }, { out := "fail:EFUNNF", herr := some .enoent })
  | some p =>
    if ¬ (f ∈ progFuns p) then ({ r with err := .efunnf }, { out := "fail:EFUNNF", herr := some .enoent })
    else if r.xl ≥ 5 then ({ r with err := .eperm }, { out := "fail:EPERM" })
    else if v.haltall then
      -- every statement first latches ABORT; the unresolved callee of `hf` is reported before the abort is noticed
      if f = "hf" ∧ ¬ v.hfBound then ({ r with xl := 6, err := .efunnf }, { out := "fail:EFUNNF", herr := some .enoent })
      else ({ r with xl := 6, err := .noerr }, { out := "ret=nil/0" })
    else if f = "getg" then (r, { out := "ret=" ++ showRet r.heap (r.g0.getD .nil) })
    else if f = "setg" then
      let r1 := r.assignText a
      (r1, { out := "ret=" ++ showRet r1.heap (r1.g0.getD .nil), log := gblsetLog tag r 1 })
    else if f = "two" then
      let r1 := r.assignText (a ++ twoSuffix p)
      (r1, { out := "ret=" ++ showRet r1.heap (r1.g0.getD .nil), log := gblsetLog tag r 2 })
    else if f = "boom" then ({ r with err := .edivby0 }, { out := "fail:EDIVBY0" })
    else if f = "quit" then ({ r with xl := 5 }, { out := "ret=s:" ++ a ++ "/1" })
    else if v.hfBound then (r, { out := "ret=s:" ++ a ++ "!/1" })
    else ({ r with err := .efunnf }, { out := "fail:EFUNNF", herr := some .enoent })

def hasEnd (p : Nat) : Bool := p == 0 || p == 4

def stepLoop (tag : String) (v : View) (r : Rtx) : Rtx × Res :=
  match v.prog with
  | none => ({ r with xl := 0 }, { out := "ret=nil/0" })
  | some p =>
    if v.haltall then
      -- a BEGIN block is cut at its first statement and latches ABORT, which skips the record loop; without BEGIN
      -- (program 4) the record loop still runs and END is cut
      let extra := if p = 4 ∧ ¬ r.inSeen then 1 else 0
      ({ r with xl := 0, err := .noerr, inSeen := r.inSeen || p == 4 }, { out := "ret=nil/0", log := gblsetLog tag r extra })
    else
      let extra := if hasEnd p ∧ ¬ r.inSeen then 1 else 0
      let r1 := (loopStores p).foldl (fun r t => r.assignText t) r
      ({ r1 with xl := 0, inSeen := r.inSeen || hasEnd p },
       { out := "ret=nil/0", log := gblsetLog tag r ((loopStores p).length + extra) })

def stepR (tag : String) (v : View) (r : Rtx) : ROp → Option Rtx × Res
  | .«open» => (some r, { out := "exists" })
  | .close => (none, { out := "ok dropped=" ++ toString (releaseCount r), log := cbLog "rclose" tag r.ecbs })
  | .pushecb e =>
    if e ≥ 4 then (some r, { out := "bad-op" })
    else if e ∈ r.ecbs then (some r, { out := "dup" })
    else (some { r with ecbs := e :: r.ecbs }, { out := "ok" })
  | .popecb =>
    match r.ecbs with
    | [] => (some r, { out := "empty" })
    | e :: es => (some { r with ecbs := es }, { out := "popped:" ++ toString e })
  | .call f a => let (r1, res) := stepCall tag v r f a; (some r1, res)
  | .loop => let (r1, res) := stepLoop tag v r; (some r1, res)
  | .halt => (some { r with xl := 6 }, { out := "ok" })
  | .mk k kind text =>
    if k ≥ nHnd then (some r, { out := "bad-op" })
    else if (r.hnd k).isSome then (some r, { out := "inuse" })
    else if kind = 0 then
      let (r1, v) := r.alloc text 1
      (some (r1.setHnd k (some { v := v, held := 1, floating := false })), { out := "ok" })
    else if kind = 1 then (some (r.setHnd k (some { v := .int text.toInt!, held := 1, floating := false })), { out := "ok" })
    else (some (r.setHnd k (some { v := .nil, held := 1, floating := false })), { out := "ok" })
  | .up k =>
    match r.hnd k with
    | none => (some r, { out := "empty" })
    | some h =>
      let r1 := { r with heap := r.heap.up h.v }
      if h.floating then (some (r1.setHnd k (some { h with held := 1, floating := false })), { out := "ok" })
      else (some (r1.setHnd k (some { h with held := h.held + 1 })), { out := "ok" })
  | .down k =>
    match r.hnd k with
    | none => (some r, { out := "empty" })
    | some h =>
      if r.nstr > 0 then (some r, { out := "strs" })
      else if h.floating then (some r, { out := "floating" })
      else
        let r1 := { r with heap := r.heap.down h.v }
        (some (r1.setHnd k (if h.held ≤ 1 then none else some { h with held := h.held - 1 })), { out := "ok" })
  | .downnf k =>
    match r.hnd k with
    | none => (some r, { out := "empty" })
    | some h =>
      if r.nstr > 0 then (some r, { out := "strs" })
      else if h.floating then (some r, { out := "floating" })
      else
        let r1 := { r with heap := r.heap.downNoFree h.v }
        let h' : Option Hnd :=
          if h.held ≤ 1 then
            match h.v with
            | .cell id => if r1.heap.rc id = 0 then some { h with held := 0, floating := true } else none
            | _ => none
          else some { h with held := h.held - 1 }
        (some (r1.setHnd k h'), { out := "ok" })
  | .setgbl k =>
    match r.hnd k with
    | none => (some r, { out := "empty" })
    | some h =>
      match r.g0 with
      | none => (some r, { out := "nogbl" })
      | some old =>
        -- `hawk_rtx_setgbl` returns early when the global already holds this very value
        if old = h.v then (some r, { out := "ok" })
        else
          let r1 := r.storeG0 h.v
          (some (if h.floating then r1.setHnd k none else r1), { out := "ok", log := gblsetLog tag r 1 })
  | .getgbl k =>
    if k ≥ nHnd then (some r, { out := "bad-op" })
    else if (r.hnd k).isSome then (some r, { out := "inuse" })
    else match r.g0 with
      | none => (some r, { out := "nogbl" })
      | some v => (some ({ r with heap := r.heap.up v }.setHnd k (some { v := v, held := 1, floating := false })), { out := "ok" })
  | .getstr k =>
    match r.hnd k with
    | none => (some r, { out := "empty" })
    | some h =>
      if r.nstr ≥ maxStr then (some r, { out := "full" })
      else if h.floating then (some r, { out := "floating" })
      else
        let own := match h.v with | .cell _ => "borrowed" | .nil => "slot" | .int _ => "heap"
        (some { r with nstr := r.nstr + 1 }, { out := own ++ ":" ++ valText r.heap h.v })
  | .freestr =>
    if r.nstr = 0 then (some r, { out := "empty" }) else (some { r with nstr := r.nstr - 1 }, { out := "ok" })
  | .tostr k mode =>
    match r.hnd k with
    | none => (some r, { out := "empty" })
    | some h =>
      if h.floating then (some r, { out := "floating" })
      else
        let t := valText r.heap h.v
        if mode = "cpl" then
          -- a string value lends its characters, nil lends a static empty string, a number is written to the caller's buffer
          (some r, { out := (match h.v with | .int _ => "caller:" | _ => "borrowed:") ++ t })
        else if mode = "dup" then (some r, { out := "heap:" ++ t })
        else if mode = "cpy2" ∧ t.length ≥ 2 then (some { r with err := .einval }, { out := "fail:EINVAL" })
        else (some r, { out := "caller:" ++ t })
  | .seterr n => (some { r with err := errOfNat n }, { out := "ok" })
  | .xtn n => (some { r with xtn := n }, { out := "ok" })

/-- a fresh runtime context of a hawk: the global exists iff a program is there -/
def Rtx.fresh (s : HawkS) : Rtx := { g0 := if s.prog.isSome then some .nil else none }

def tagOf (h r : Nat) : String := toString h ++ "." ++ toString r

/-! ## the world -/

/-- what `hawk_openstd` leaves in the error number of a new interpreter -/
def freshHawk : HawkS := { err := .enoent }

/-- an rtx-level call inside its `hawk_t`: besides the runtime only the error number of the hawk can change -/
def stepRtxIn (h r : Nat) (s : HawkS) (op : ROp) : HawkS × Res :=
  match s.rtxs r, op with
  | none, .«open» =>
    -- `hawk_rtx_open` starts by clearing the error number of the interpreter
    ({ s with err := .noerr }.setRtx r (some (Rtx.fresh s)), { out := "ok" })
  | none, _ => (s, { out := "nortx" })
  | some x, op =>
    let p := stepR (tagOf h r) s.view x op
    ({ s with err := p.2.herr.getD s.err }.setRtx r p.1, p.2)

/-- one API call as a function of the state of the one `hawk_t` it is made on -/
def stepHawk (h : Nat) (cur : Option HawkS) : Op → Option HawkS × Res
  | .hopen _ =>
    match cur with
    | some s => (some s, { out := "exists" })
    | none => (some freshHawk, { out := "ok" })
  | .hcall _ op =>
    match cur with
    | none => (none, { out := "nohawk" })
    | some s => stepH h s op
  | .rcall _ r op =>
    match cur with
    | none => (none, { out := "nohawk" })
    | some s => (some (stepRtxIn h r s op).1, (stepRtxIn h r s op).2)

def World.step (w : World) (o : Op) : World × Res :=
  (w.set o.hawk (stepHawk o.hawk (w o.hawk) o).1, (stepHawk o.hawk (w o.hawk) o).2)

/-! ## what the harness prints -/

def joinOr (xs : List String) : String := if xs.isEmpty then "-" else ",".intercalate xs

def showHnd (heap : Heap) : Option Hnd → String
  | none => "-"
  | some h => showVal heap h.v ++ (if h.floating then "f" else "")

def dumpRtx (h r : Nat) (x : Rtx) : String :=
  " R" ++ tagOf h r ++ "[e=" ++ x.err.name ++ " xl=" ++ toString x.xl ++ " ecb=" ++ joinOr (x.ecbs.map toString) ++
  " g0=" ++ (match x.g0 with | some v => showVal x.heap v | none => "-") ++ " x=" ++ toString x.xtn ++
  " h=" ++ ",".intercalate ((List.range nHnd).map (fun k => showHnd x.heap (x.hnd k))) ++ " s=" ++ toString x.nstr ++ "]"

def dumpHawk (h : Nat) (s : HawkS) : String :=
  " H" ++ toString h ++ "[e=" ++ s.err.name ++ " p=" ++ (match s.prog with | some p => toString p | none => "-") ++
  " ha=" ++ (if s.haltall then "1" else "0") ++ " ecb=" ++ joinOr (s.ecbs.map toString) ++
  " g=" ++ joinOr (s.gbls.map (fun g => g.getD "_")) ++
  " f=" ++ joinOr (["hf0", "hf1"].filter (· ∈ s.fncs)) ++
  " o=" ++ toString s.opt ++ " x=" ++ toString s.xtn ++ "]" ++
  String.join ((List.range nRtx).map (fun r => match s.rtxs r with | some x => dumpRtx h r x | none => ""))

def dump (w : World) : String :=
  String.join ((List.range nHawk).map (fun h => match w h with | some s => dumpHawk h s | none => ""))

def lineOf (w : World) (res : Res) : String :=
  res.out ++ " |" ++ dump w ++ " log=" ++ joinOr res.log

def World.run (w : World) : List Op → World × List Res
  | [] => (w, [])
  | o :: os => (((w.step o).1.run os).1, (w.step o).2 :: ((w.step o).1.run os).2)

end Hawk.CtxApi
