import HawkModel.TioLemmas
/-!
# Lemmas about the tio write side against an adversarial output handler (C15, byte layer of C05)

`flushLoop_spec` is the one fact about `hawk_tio_flush`'s loop: whatever the handler answers, the slices it accepted
followed by what is left in the buffer are the bytes that were in the buffer, in order — nothing lost, nothing twice.
-/
open Hawk.Gen Hawk.Utf8
namespace Hawk.Tio

/-- every slice the handler accepted is within the staging capacity -/
def SinkOk (cfg : Cfg) (o : OutSt) : Prop := ∀ ch ∈ o.sink, ch.length ≤ cfg.capa

def isAcc : Reply → Prop
  | .acc _ => True
  | _ => False

theorem flushLoop_spec : ∀ (script : List Reply) (rem : List UInt8) (sink : List (List UInt8)) (nc : Nat),
    (∃ extra, (flushLoop script rem sink nc).sink = sink ++ extra ∧
        extra.flatten ++ (flushLoop script rem sink nc).rem = rem ∧ (∀ ch ∈ extra, ch.length ≤ rem.length)) ∧
    (flushLoop script rem sink nc).script.length + (flushLoop script rem sink nc).rem.length ≤ script.length + rem.length ∧
    (rem ≠ [] → (flushLoop script rem sink nc).script.length + (flushLoop script rem sink nc).rem.length
        < script.length + rem.length) ∧
    ((flushLoop script rem sink nc).ok = true → (∀ x ∈ script, x ≠ .zero) → (flushLoop script rem sink nc).rem = []) ∧
    ((∀ x ∈ script, x ≠ .fail) → (flushLoop script rem sink nc).ok = true) ∧
    ((flushLoop script rem sink nc).ok = false → (flushLoop script rem sink nc).rem ≠ []) := by
  intro script
  induction script with
  | nil =>
    intro rem sink nc
    rw [flushLoop]
    by_cases h : rem = []
    · subst h; simp
    · rw [if_neg h]
      refine ⟨⟨[rem], by simp⟩, by simp, fun _ => ?_, by simp, by simp, by simp⟩
      have := List.length_pos_iff.mpr h
      simpa using this
  | cons r s ih =>
    intro rem sink nc
    by_cases h : rem = []
    · subst h; cases r <;> simp [flushLoop]
    · have hpos : 0 < rem.length := List.length_pos_iff.mpr h
      cases r with
      | fail =>
        simp only [flushLoop, if_neg h]
        refine ⟨⟨[], by simp⟩, by simp, fun _ => by simp, by simp, by simp, fun _ => h⟩
      | zero =>
        simp only [flushLoop, if_neg h]
        refine ⟨⟨[], by simp⟩, by simp, fun _ => by simp, by simp, by simp, by simp⟩
      | acc k =>
        simp only [flushLoop, if_neg h]
        have hn : 0 < min (k + 1) rem.length := by omega
        obtain ⟨⟨extra, h1, h2, h3⟩, h4, h5, h6, h7, h8⟩ :=
          ih (rem.drop (min (k + 1) rem.length)) (sink ++ [rem.take (min (k + 1) rem.length)]) (nc + 1)
        refine ⟨⟨rem.take (min (k + 1) rem.length) :: extra, by rw [h1]; simp, ?_, ?_⟩, ?_, fun _ => ?_, ?_, ?_, h8⟩
        · rw [List.flatten_cons, List.append_assoc, h2, List.take_append_drop]
        · intro ch hch
          simp at hch
          rcases hch with rfl | hch
          · simp [List.length_take]; omega
          · have := h3 ch hch; simp at this; omega
        · simp at h4 ⊢; omega
        · simp at h4 ⊢; omega
        · intro hok hz
          exact h6 hok (fun x hx => hz x (by simp [hx]))
        · intro hf
          exact h7 (fun x hx => hf x (by simp [hx]))

theorem flush_spec (o : OutSt) :
    (flush o).1.all = o.all ∧
    (∃ extra, (flush o).1.sink = o.sink ++ extra ∧ extra.flatten ++ (flush o).1.buf = o.buf ∧
        (∀ ch ∈ extra, ch.length ≤ o.buf.length)) ∧
    (flush o).1.work ≤ o.work ∧ (o.buf ≠ [] → (flush o).1.work < o.work) ∧
    ((flush o).2 = none → (flush o).1.buf ≠ []) ∧
    (∀ c, (flush o).2 = some c → c + (flush o).1.buf.length = o.buf.length ∧
        ((∀ x ∈ o.script, x ≠ .zero) → (flush o).1.buf = [])) ∧
    ((∀ x ∈ o.script, x ≠ .fail) → (flush o).2 ≠ none) := by
  obtain ⟨⟨extra, h1, h2, h3⟩, h4, h5, h6, h7, h8⟩ := flushLoop_spec o.script o.buf o.sink o.ncalls
  have hlen : extra.flatten.length + (flushLoop o.script o.buf o.sink o.ncalls).rem.length = o.buf.length := by
    have := congrArg List.length h2; simpa using this
  refine ⟨?_, ⟨extra, h1, h2, h3⟩, h4, h5, ?_, ?_, ?_⟩
  · simp only [flush, OutSt.all, h1, List.flatten_append, List.append_assoc, h2]
  · intro hn
    simp only [flush] at hn ⊢
    split at hn
    · simp at hn
    · rename_i hok; exact h8 (by simpa using hok)
  · intro c hc
    simp only [flush] at hc ⊢
    split at hc
    · rename_i hok
      simp at hc
      exact ⟨by omega, fun hz => h6 hok hz⟩
    · simp at hc
  · intro hf hn
    simp only [flush] at hn
    rw [if_pos (h7 hf)] at hn
    simp at hn

theorem flushLoop_suffix : ∀ (script : List Reply) (rem : List UInt8) (sink : List (List UInt8)) (nc : Nat),
    ∃ pre, script = pre ++ (flushLoop script rem sink nc).script := by
  intro script
  induction script with
  | nil => intro rem sink nc; rw [flushLoop]; split <;> exact ⟨[], rfl⟩
  | cons r s ih =>
    intro rem sink nc
    by_cases h : rem = []
    · subst h; cases r <;> exact ⟨[], by simp [flushLoop]⟩
    · cases r with
      | fail => exact ⟨[.fail], by simp [flushLoop, h]⟩
      | zero => exact ⟨[.zero], by simp [flushLoop, h]⟩
      | acc k =>
        simp only [flushLoop, if_neg h]
        obtain ⟨pre, hp⟩ := ih (rem.drop (min (k + 1) rem.length)) (sink ++ [rem.take (min (k + 1) rem.length)]) (nc + 1)
        exact ⟨.acc k :: pre, by rw [List.cons_append, ← hp]⟩

/-- a handler that only ever accepts (at least one byte per call): the flush succeeds, empties the buffer, and the
replies left are of the same kind -/
theorem flush_acc (o : OutSt) (h : ∀ x ∈ o.script, isAcc x) :
    (∃ c, (flush o).2 = some c) ∧ (flush o).1.buf = [] ∧ ∀ x ∈ (flush o).1.script, isAcc x := by
  obtain ⟨_, _, _, _, _, h6, h7⟩ := flush_spec o
  have hnf : ∀ x ∈ o.script, x ≠ Reply.fail := fun x hx he => by have := h x hx; rw [he] at this; exact this
  have hnz : ∀ x ∈ o.script, x ≠ Reply.zero := fun x hx he => by have := h x hx; rw [he] at this; exact this
  have hsome : ∃ c, (flush o).2 = some c := by
    cases hr : (flush o).2 with
    | none => exact absurd hr (h7 hnf)
    | some c => exact ⟨c, rfl⟩
  obtain ⟨c, hc⟩ := hsome
  refine ⟨⟨c, hc⟩, (h6 c hc).2 hnz, ?_⟩
  obtain ⟨pre, hp⟩ := flushLoop_suffix o.script o.buf o.sink o.ncalls
  intro x hx
  exact h x (by rw [hp]; exact List.mem_append_right _ hx)

/-- from `o` to `o'` exactly the bytes `p` were added to "accepted ++ staged"; the accepted slices only grew -/
structure Grew (cfg : Cfg) (o o' : OutSt) (p : List UInt8) : Prop where
  all : o'.all = o.all ++ p
  sink : ∃ extra, o'.sink = o.sink ++ extra
  sinkOk : SinkOk cfg o → SinkOk cfg o'
  len : o'.buf.length ≤ cfg.capa

theorem Grew.rfl' (cfg : Cfg) (o : OutSt) (h : o.buf.length ≤ cfg.capa) : Grew cfg o o [] :=
  ⟨by simp, ⟨[], by simp⟩, id, h⟩

theorem Grew.trans {cfg : Cfg} {o o' o'' : OutSt} {p q : List UInt8} (h1 : Grew cfg o o' p) (h2 : Grew cfg o' o'' q) :
    Grew cfg o o'' (p ++ q) := by
  obtain ⟨e1, he1⟩ := h1.sink
  obtain ⟨e2, he2⟩ := h2.sink
  exact ⟨by rw [h2.all, h1.all]; simp, ⟨e1 ++ e2, by rw [he2, he1]; simp⟩, fun h => h2.sinkOk (h1.sinkOk h), h2.len⟩

theorem step_flush (cfg : Cfg) (o : OutSt) (h : o.buf.length ≤ cfg.capa) : Grew cfg o (flush o).1 [] := by
  obtain ⟨h1, ⟨extra, h2, h3, h4⟩, _⟩ := flush_spec o
  refine ⟨by simpa using h1, ⟨extra, h2⟩, ?_, ?_⟩
  · intro hs ch hch
    rw [h2] at hch
    rcases List.mem_append.mp hch with hch | hch
    · exact hs ch hch
    · exact Nat.le_trans (h4 ch hch) h
  · have := congrArg List.length h3; simp at this; omega

theorem step_append (cfg : Cfg) (o : OutSt) (bs : List UInt8) (h : o.buf.length + bs.length ≤ cfg.capa) :
    Grew cfg o { o with buf := o.buf ++ bs } bs :=
  ⟨by simp [OutSt.all], ⟨[], by simp⟩, fun hs => hs, by simpa using h⟩

theorem writeULoop_nil (cfg : Cfg) (o : OutSt) (nl : Bool) : writeULoop cfg [] o nl = (o, nl, none) := by
  rw [writeULoop]; simp

/-- what the conversion loop of `hawk_tio_writeuchars` guarantees for BMP characters and **every** handler script -/
def ULoopOk (cm : Cmgr) (cfg : Cfg) (ws : List Nat) (o : OutSt) (nl : Bool) : Prop :=
  ∃ o' nl' res p, writeULoop cfg ws o nl = (o', nl', res) ∧ Grew cfg o o' p ∧ p <+: encodeAllC cm ws ∧
    (res = none → p = encodeAllC cm ws) ∧ (res = none ∨ res = some (.inl .eioerr)) ∧
    ((∀ x ∈ o.script, isAcc x) → res = none ∧ (o.buf.length < cfg.capa ∨ ws ≠ [] → o'.buf.length < cfg.capa) ∧
      ∀ x ∈ o'.script, isAcc x)

theorem writeULoop_spec {cm : Cmgr} {dom : Nat → Prop} {maxlen : Nat} (hok : CodecOk cm dom maxlen) (cfg : Cfg) (hT : cfg.cm = cm) (hc : maxlen ≤ cfg.capa) :
    ∀ (n m : Nat) (ws : List Nat) (o : OutSt) (nl : Bool), ws.length < n → o.work < m → Dom dom ws →
      o.buf.length ≤ cfg.capa → ULoopOk cm cfg ws o nl := by
  intro n
  induction n with
  | zero => intro m ws o nl h; omega
  | succ n ihn =>
    intro m
    induction m with
    | zero => intro ws o nl _ h; omega
    | succ m ihm =>
      intro ws o nl hn hm hb hl
      by_cases hw : ws = []
      · subst hw
        exact ⟨o, nl, none, [], writeULoop_nil .., Grew.rfl' cfg o hl, by simp [encodeAllC_nil], by simp [encodeAllC_nil], Or.inl rfl,
          fun ha => ⟨rfl, fun h => by rcases h with h | h; exact h; exact absurd rfl h, ha⟩⟩
      · have hwl : 0 < ws.length := List.length_pos_iff.mpr hw
        have hcap : 0 < cfg.capa := by
          obtain ⟨c0, hc0⟩ := List.exists_mem_of_ne_nil ws hw
          have := hok.enc_len c0 (hb c0 hc0)
          omega
        obtain ⟨x, k, bs, hcv, hk, hbs, hlen, hx⟩ := convUtoB_bmp hok ws hb (cfg.capa - o.buf.length)
        have hsplit : encodeAllC cm ws = bs ++ encodeAllC cm (ws.drop k) := by
          rw [hbs, ← encodeAllC_append, List.take_append_drop]
        have hfit : o.buf.length + bs.length ≤ cfg.capa := by omega
        have hs1 := step_append cfg o bs hfit
        unfold ULoopOk
        rw [writeULoop, dif_neg hw, hT, hcv]
        simp only
        rcases hx with ⟨rfl, rfl⟩ | ⟨rfl, c, rest, hd, hlt⟩
        · -- everything converted
          simp only [List.drop_length, encodeAllC_nil, List.append_nil] at hsplit
          have hne : ws.length ≠ 0 := by omega
          simp only [show ((0 : Int) = -2) = False by decide, if_false, show ¬ ((0 : Int) ≤ -1) by decide, dif_neg hne,
            List.drop_length, writeULoop_nil]
          by_cases hfull : (o.buf ++ bs).length ≥ cfg.capa
          · simp only [hfull, if_true]
            have hs2 := step_flush cfg { o with buf := o.buf ++ bs } (by simpa using hfit)
            rcases hfl : flush { o with buf := o.buf ++ bs } with ⟨o2, _ | cnt⟩
            · rw [hfl] at hs2
              exact ⟨_, _, _, bs ++ [], rfl, hs1.trans hs2, by simp [hsplit], by simp, Or.inr rfl,
                fun ha => by have := (flush_acc { o with buf := o.buf ++ bs } ha).1; rw [hfl] at this; simp at this⟩
            · rw [hfl] at hs2
              exact ⟨_, _, _, bs ++ [], rfl, hs1.trans hs2, by simp [hsplit], by simp [hsplit], Or.inl rfl,
                fun ha => by
                  have h2 := (flush_acc { o with buf := o.buf ++ bs } ha).2
                  rw [hfl] at h2
                  exact ⟨rfl, fun _ => by simp only at h2; rw [h2.1]; simp; omega, h2.2⟩⟩
          · simp only [hfull, if_false]
            exact ⟨_, _, _, bs, rfl, hs1, by simp [hsplit], by simp [hsplit], Or.inl rfl,
              fun ha => ⟨rfl, fun _ => by simp at hfull ⊢; omega, ha⟩⟩
        · -- the next character does not fit: flush and continue
          simp only [if_true]
          have hcb : dom c := hb c (List.mem_of_mem_drop (by rw [hd]; simp))
          have hbd : Dom dom (ws.drop k) := fun x hx => hb x (List.mem_of_mem_drop hx)
          have hs2 := step_flush cfg { o with buf := o.buf ++ bs } (by simpa using hfit)
          obtain ⟨_, _, hwk, hwk', _⟩ := flush_spec { o with buf := o.buf ++ bs }
          rcases hfl : flush { o with buf := o.buf ++ bs } with ⟨o2, _ | cnt⟩
          · rw [hfl] at hs2
            exact ⟨_, _, _, bs ++ [], rfl, hs1.trans hs2, by simp [hsplit], by simp, Or.inr rfl,
              fun ha => by have := (flush_acc { o with buf := o.buf ++ bs } ha).1; rw [hfl] at this; simp at this⟩
          · have hacc2 := flush_acc { o with buf := o.buf ++ bs }
            rw [hfl] at hs2 hwk hwk' hacc2
            simp only at hs2 hwk hwk' ⊢
            have hprog : k ≠ 0 ∨ o2.work < o.work := by
              by_cases hk0 : k = 0
              · right
                subst hk0
                simp [encodeAllC_nil] at hbs
                subst hbs
                have hbne : o.buf ≠ [] := by
                  intro h0
                  have := (hok.enc_len c hcb).2
                  simp [h0] at hlt
                  omega
                have := hwk' (by simpa using hbne)
                simpa [OutSt.work] using this
              · exact Or.inl hk0
            rw [dif_pos hprog]
            have hrec : ULoopOk cm cfg (ws.drop k) o2 false := by
              by_cases hk0 : k = 0
              · subst hk0
                rcases hprog with h | h
                · exact absurd rfl h
                · simp only [List.drop_zero]
                  exact ihm ws o2 false hn (by omega) hb hs2.len
              · exact ihn (o2.work + 1) (ws.drop k) o2 false (by simp; omega) (by omega) hbd hs2.len
            obtain ⟨o', nl', res, p, hrun, hst, hpre, hfin, hres, hacc⟩ := hrec
            refine ⟨o', nl', res, bs ++ [] ++ p, hrun, (hs1.trans hs2).trans hst, ?_, ?_, hres, ?_⟩
            · rw [hsplit]; simpa using hpre
            · intro h; rw [hsplit, hfin h]; simp
            · intro ha
              obtain ⟨_, hb2, hs2'⟩ := hacc2 ha
              simp only at hb2 hs2'
              obtain ⟨h1, h2, h3⟩ := hacc hs2'
              exact ⟨h1, fun _ => h2 (Or.inl (by rw [hb2]; simp; omega)), h3⟩

/-- what one write call guarantees: `p` = the part of `text` that entered "accepted ++ staged" -/
def WriteOk (cfg : Cfg) (text : List UInt8) (o : OutSt) (r : OutSt × Option (Sum Err Fault)) : Prop :=
  ∃ p, Grew cfg o r.1 p ∧ p <+: text ∧ (r.2 = none → p = text) ∧
    (r.2 = none ∨ r.2 = some (.inl .eioerr) ∨ (r.2 = some (.inl .ebuffull) ∧ r.1 = o ∧ cfg.capa ≤ o.buf.length)) ∧
    ((∀ x ∈ o.script, isAcc x) → o.buf.length < cfg.capa → r.2 = none ∧ r.1.buf.length < cfg.capa ∧ ∀ x ∈ r.1.script, isAcc x)

/-- `hawk_tio_writeuchars` with BMP characters, for every handler script -/
theorem writeUchars_spec {cm : Cmgr} {dom : Nat → Prop} {maxlen : Nat} (hok : CodecOk cm dom maxlen) (cfg : Cfg) (hT : cfg.cm = cm) (hc : maxlen ≤ cfg.capa) (ws : List Nat) (o : OutSt) (hb : Dom dom ws)
    (hl : o.buf.length ≤ cfg.capa) : WriteOk cfg (encodeAllC cm ws) o (writeUchars cfg ws o) := by
  unfold writeUchars
  by_cases hfull : o.buf.length ≥ cfg.capa
  · rw [if_pos hfull]
    exact ⟨[], Grew.rfl' cfg o hl, by simp, by simp, Or.inr (Or.inr ⟨rfl, rfl, hfull⟩), fun _ h => by omega⟩
  · rw [if_neg hfull]
    obtain ⟨o', nl', res, p, hrun, hst, hpre, hfin, hres, hacc⟩ :=
      writeULoop_spec hok cfg hT hc (ws.length + 1) (o.work + 1) ws o false (by omega) (by omega) hb hl
    rw [hrun]
    simp only
    rcases hres with rfl | rfl
    · simp only
      cases nl' with
      | false =>
        refine ⟨p, hst, hpre, fun _ => hfin rfl, Or.inl rfl, fun ha hlt => ?_⟩
        obtain ⟨_, h2, h3⟩ := hacc ha
        exact ⟨rfl, h2 (Or.inl hlt), h3⟩
      | true =>
        simp only [if_true]
        have hs2 := step_flush cfg o' hst.len
        have ha2 := flush_acc o'
        rcases hfl : flush o' with ⟨o2, _ | cnt⟩
        · rw [hfl] at hs2 ha2
          refine ⟨p ++ [], hst.trans hs2, by simpa using hpre, by simp, Or.inr (Or.inl rfl), fun ha _ => ?_⟩
          have := (ha2 (hacc ha).2.2).1; simp at this
        · rw [hfl] at hs2 ha2
          refine ⟨p ++ [], hst.trans hs2, by simpa using hpre, fun _ => by simpa using hfin rfl, Or.inl rfl, fun ha _ => ?_⟩
          obtain ⟨_, h2, h3⟩ := ha2 (hacc ha).2.2
          exact ⟨rfl, by simp only at h2; rw [h2]; simp; omega, h3⟩
    · simp only
      refine ⟨p, hst, hpre, by simp, Or.inr (Or.inl rfl), fun ha _ => ?_⟩
      have := (hacc ha).1; simp at this

/-- the "cannot fit" loop of `hawk_tio_writebchars`, for every handler script -/
theorem writeBBig_spec (cfg : Cfg) (hc : 1 ≤ cfg.capa) :
    ∀ (n m : Nat) (bs : List UInt8) (o : OutSt), bs.length < n → o.work < m → o.buf.length ≤ cfg.capa →
      ∃ rest o' res p, writeBBig cfg bs o = (rest, o', res) ∧ Grew cfg o o' p ∧ p ++ rest = bs ∧
        (res = none → o'.buf.length + rest.length < cfg.capa) ∧ (res = none ∨ res = some (.inl .eioerr)) ∧
        ((∀ x ∈ o.script, isAcc x) → res = none ∧ ∀ x ∈ o'.script, isAcc x) := by
  intro n
  induction n with
  | zero => intro m bs o h; omega
  | succ n ihn =>
    intro m
    induction m with
    | zero => intro bs o _ h; omega
    | succ m ihm =>
      intro bs o hn hm hl
      rw [writeBBig]
      by_cases hge : bs.length ≥ cfg.capa - o.buf.length
      · rw [if_pos hge]
        have hfit : o.buf.length + (bs.take (cfg.capa - o.buf.length)).length ≤ cfg.capa := by
          simp [List.length_take]; omega
        have hs1 := step_append cfg o (bs.take (cfg.capa - o.buf.length)) hfit
        have hs2 := step_flush cfg { o with buf := o.buf ++ bs.take (cfg.capa - o.buf.length) } (by simpa using hfit)
        obtain ⟨_, _, hwk, hwk', _⟩ := flush_spec { o with buf := o.buf ++ bs.take (cfg.capa - o.buf.length) }
        have hacc2 := flush_acc { o with buf := o.buf ++ bs.take (cfg.capa - o.buf.length) }
        rcases hfl : flush { o with buf := o.buf ++ bs.take (cfg.capa - o.buf.length) } with ⟨o2, _ | cnt⟩
        · rw [hfl] at hs2 hacc2
          refine ⟨_, _, _, bs.take (cfg.capa - o.buf.length) ++ [], rfl, hs1.trans hs2, by simp, by simp, Or.inr rfl, fun ha => ?_⟩
          have := (hacc2 ha).1; simp at this
        · rw [hfl] at hs2 hwk hwk' hacc2
          simp only at hs2 hwk hwk' ⊢
          have hprog : cfg.capa - o.buf.length > 0 ∨ o2.work < o.work := by
            by_cases h0 : cfg.capa - o.buf.length > 0
            · exact Or.inl h0
            · right
              have h00 : cfg.capa - o.buf.length = 0 := by omega
              have hne : o.buf ≠ [] := by
                intro h; rw [h] at h00; simp at h00; omega
              have := hwk' (by simp [h00, hne])
              simpa [OutSt.work, h00] using this
          rw [dif_pos hprog]
          have hrec : ∃ rest o' res p, writeBBig cfg (bs.drop (cfg.capa - o.buf.length)) o2 = (rest, o', res) ∧ Grew cfg o2 o' p ∧
              p ++ rest = bs.drop (cfg.capa - o.buf.length) ∧ (res = none → o'.buf.length + rest.length < cfg.capa) ∧
              (res = none ∨ res = some (.inl .eioerr)) ∧ ((∀ x ∈ o2.script, isAcc x) → res = none ∧ ∀ x ∈ o'.script, isAcc x) := by
            by_cases h0 : cfg.capa - o.buf.length > 0
            · exact ihn (o2.work + 1) _ o2 (by simp; omega) (by omega) hs2.len
            · have h00 : cfg.capa - o.buf.length = 0 := by omega
              rcases hprog with h | h
              · exact absurd h h0
              · rw [h00]; simp only [List.drop_zero]
                exact ihm bs o2 hn (by omega) hs2.len
          obtain ⟨rest, o', res, p, hrun, hst, hpr, hfin, hres, hacc⟩ := hrec
          refine ⟨rest, o', res, bs.take (cfg.capa - o.buf.length) ++ [] ++ p, hrun, (hs1.trans hs2).trans hst, ?_, hfin, hres, ?_⟩
          · simp only [List.append_nil, List.append_assoc, hpr, List.take_append_drop]
          · intro ha; exact hacc (hacc2 ha).2.2
      · rw [if_neg hge]
        exact ⟨bs, o, none, [], rfl, Grew.rfl' cfg o hl, by simp, fun _ => by omega, Or.inl rfl, fun ha => ⟨rfl, ha⟩⟩

/-- `hawk_tio_writebchars`, for every handler script -/
theorem writeBchars_spec (cfg : Cfg) (hc : 1 ≤ cfg.capa) (bs : List UInt8) (o : OutSt) (hl : o.buf.length ≤ cfg.capa) :
    WriteOk cfg bs o (writeBchars cfg bs o) := by
  unfold writeBchars
  by_cases hfull : o.buf.length ≥ cfg.capa
  · rw [if_pos hfull]
    exact ⟨[], Grew.rfl' cfg o hl, by simp, by simp, Or.inr (Or.inr ⟨rfl, rfl, hfull⟩), fun _ h => by omega⟩
  · rw [if_neg hfull]
    obtain ⟨rest, o1, res, p, hrun, hst, hpr, hfin, hres, hacc⟩ :=
      writeBBig_spec cfg hc (bs.length + 1) (o.work + 1) bs o (by omega) (by omega) hl
    rw [hrun]
    rcases hres with rfl | rfl
    · simp only
      have hfit := hfin rfl
      have hs1 := step_append cfg o1 rest (by omega)
      by_cases hnl : (!cfg.noAutoFlush && decide ((0x0A : UInt8) ∈ rest)) = true
      · rw [if_pos hnl]
        have hs2 := step_flush cfg { o1 with buf := o1.buf ++ rest } (by simp; omega)
        have ha2 := flush_acc { o1 with buf := o1.buf ++ rest }
        rcases hfl : flush { o1 with buf := o1.buf ++ rest } with ⟨o3, _ | cnt⟩
        · rw [hfl] at hs2 ha2
          refine ⟨p ++ rest ++ [], (hst.trans hs1).trans hs2, by simp [hpr], by simp, Or.inr (Or.inl rfl), fun ha _ => ?_⟩
          have := (ha2 (hacc ha).2).1; simp at this
        · rw [hfl] at hs2 ha2
          refine ⟨p ++ rest ++ [], (hst.trans hs1).trans hs2, by simp [hpr], fun _ => by simp [hpr], Or.inl rfl, fun ha _ => ?_⟩
          obtain ⟨_, h2, h3⟩ := ha2 (hacc ha).2
          exact ⟨rfl, by simp only at h2; rw [h2]; simp; omega, h3⟩
      · rw [if_neg hnl]
        exact ⟨p ++ rest, hst.trans hs1, by simp [hpr], fun _ => hpr, Or.inl rfl,
          fun ha _ => ⟨rfl, by simp; omega, (hacc ha).2⟩⟩
    · simp only
      refine ⟨p, hst, ⟨rest, hpr⟩, by simp, Or.inr (Or.inl rfl), fun ha _ => ?_⟩
      have := (hacc ha).1; simp at this

/-! ### sequences of calls -/

/-- the write-side API calls -/
inductive WOp
  | u (ws : List Nat)      -- hawk_tio_writeuchars
  | b (bs : List UInt8)    -- hawk_tio_writebchars
  | fl                     -- hawk_tio_flush
deriving Repr, DecidableEq

/-- the bytes a call is asked to put on the stream -/
def WOp.text (cm : Cmgr) : WOp → List UInt8
  | .u ws => encodeAllC cm ws
  | .b bs => bs
  | .fl => []

def WOp.bmp (dom : Nat → Prop) : WOp → Prop
  | .u ws => Dom dom ws
  | _ => True

/-- one call: new state and "the call reported success" (a return value ≥ 0) -/
def runOp (cfg : Cfg) : WOp → OutSt → OutSt × Bool
  | .u ws, o => ((writeUchars cfg ws o).1, (writeUchars cfg ws o).2.isNone)
  | .b bs, o => ((writeBchars cfg bs o).1, (writeBchars cfg bs o).2.isNone)
  | .fl, o => ((flush o).1, (flush o).2.isSome)

/-- a caller that goes on after failures -/
def runOps (cfg : Cfg) : List WOp → OutSt → OutSt × List Bool
  | [], o => (o, [])
  | op :: rest, o => ((runOps cfg rest (runOp cfg op o).1).1, (runOp cfg op o).2 :: (runOps cfg rest (runOp cfg op o).1).2)

/-- `ps` says how much of each call's text entered the stream: all of it when the call reported success, a prefix of it
when the call reported failure -/
def PartsOk (cm : Cmgr) : List WOp → List Bool → List (List UInt8) → Prop
  | [], [], [] => True
  | op :: ops, ok :: oks, p :: ps => p <+: op.text cm ∧ (ok = true → p = op.text cm) ∧ PartsOk cm ops oks ps
  | _, _, _ => False

theorem runOp_spec {cm : Cmgr} {dom : Nat → Prop} {maxlen : Nat} (hok : CodecOk cm dom maxlen) (cfg : Cfg) (hT : cfg.cm = cm) (hc : maxlen ≤ cfg.capa) (op : WOp) (o : OutSt) (hb : op.bmp dom) (hc1 : 1 ≤ cfg.capa)
    (hl : o.buf.length ≤ cfg.capa) :
    ∃ p, Grew cfg o (runOp cfg op o).1 p ∧ p <+: op.text cm ∧ ((runOp cfg op o).2 = true → p = op.text cm) ∧
      ((∀ x ∈ o.script, isAcc x) → o.buf.length < cfg.capa →
        (runOp cfg op o).2 = true ∧ (runOp cfg op o).1.buf.length < cfg.capa ∧ ∀ x ∈ (runOp cfg op o).1.script, isAcc x) := by
  cases op with
  | u ws =>
    obtain ⟨p, h1, h2, h3, _, h5⟩ := writeUchars_spec hok cfg hT hc ws o hb hl
    refine ⟨p, h1, h2, fun h => h3 (by simpa [runOp] using h), fun ha hlt => ?_⟩
    obtain ⟨a, b, c⟩ := h5 ha hlt
    exact ⟨by simp [runOp, a], b, c⟩
  | b bs =>
    obtain ⟨p, h1, h2, h3, _, h5⟩ := writeBchars_spec cfg hc1 bs o hl
    refine ⟨p, h1, h2, fun h => h3 (by simpa [runOp] using h), fun ha hlt => ?_⟩
    obtain ⟨a, b, c⟩ := h5 ha hlt
    exact ⟨by simp [runOp, a], b, c⟩
  | fl =>
    refine ⟨[], step_flush cfg o hl, by simp, fun _ => rfl, fun ha _ => ?_⟩
    obtain ⟨⟨c, hc'⟩, h2, h3⟩ := flush_acc o ha
    exact ⟨by simp [runOp, hc'], by simp only [runOp]; rw [h2]; simp; omega, h3⟩

/-- every sequence of write-side calls against every handler script -/
theorem runOps_spec {cm : Cmgr} {dom : Nat → Prop} {maxlen : Nat} (hok : CodecOk cm dom maxlen) (cfg : Cfg) (hT : cfg.cm = cm) (hc : maxlen ≤ cfg.capa) :
    ∀ (ops : List WOp) (o : OutSt), (∀ op ∈ ops, op.bmp dom) → 1 ≤ cfg.capa → o.buf.length ≤ cfg.capa →
      ∃ ps, PartsOk cm ops (runOps cfg ops o).2 ps ∧ Grew cfg o (runOps cfg ops o).1 ps.flatten ∧
        ((∀ x ∈ o.script, isAcc x) → o.buf.length < cfg.capa → ∀ ok ∈ (runOps cfg ops o).2, ok = true) := by
  intro ops
  induction ops with
  | nil => intro o _ _ hl; exact ⟨[], trivial, by simpa [runOps] using Grew.rfl' cfg o hl, fun _ _ ok h => by simp [runOps] at h⟩
  | cons op rest ih =>
    intro o hb hc1 hl
    obtain ⟨p, h1, h2, h3, h4⟩ := runOp_spec hok cfg hT hc op o (hb op (by simp)) hc1 hl
    obtain ⟨ps, h5, h6, h7⟩ := ih (runOp cfg op o).1 (fun x hx => hb x (by simp [hx])) hc1 h1.len
    refine ⟨p :: ps, ⟨h2, h3, h5⟩, by simpa [runOps] using h1.trans h6, fun ha hlt ok hok => ?_⟩
    obtain ⟨a, b, c⟩ := h4 ha hlt
    simp only [runOps, List.mem_cons] at hok
    rcases hok with rfl | hok
    · exact a
    · exact h7 c b ok hok

theorem partsOk_all (cm : Cmgr) (ops : List WOp) : ∀ (oks : List Bool) (ps : List (List UInt8)), PartsOk cm ops oks ps →
    (∀ ok ∈ oks, ok = true) → ps.flatten = (ops.map (WOp.text cm)).flatten := by
  induction ops with
  | nil => intro oks ps h _; cases oks <;> cases ps <;> simp_all [PartsOk]
  | cons op rest ih =>
    intro oks ps h hall
    cases oks with
    | nil => cases ps <;> simp [PartsOk] at h
    | cons ok oks =>
      cases ps with
      | nil => simp [PartsOk] at h
      | cons p ps =>
        obtain ⟨_, h2, h3⟩ := h
        simp [h2 (hall ok (by simp)), ih oks ps h3 (fun x hx => hall x (by simp [hx]))]

theorem partsOk_prefix (cm : Cmgr) (ops : List WOp) : ∀ (oks : List Bool) (ps : List (List UInt8)), PartsOk cm ops oks ps →
    ps.length = ops.length ∧ ps.flatten.length ≤ ((ops.map (WOp.text cm)).flatten).length := by
  induction ops with
  | nil => intro oks ps h; cases oks <;> cases ps <;> simp_all [PartsOk]
  | cons op rest ih =>
    intro oks ps h
    cases oks with
    | nil => cases ps <;> simp [PartsOk] at h
    | cons ok oks =>
      cases ps with
      | nil => simp [PartsOk] at h
      | cons p ps =>
        obtain ⟨h1, _, h3⟩ := h
        obtain ⟨a, b⟩ := ih oks ps h3
        have := h1.length_le
        simp at b ⊢; omega

/-- a sequence of `hawk_tio_writeuchars` calls (`fst` = state, `snd` = whether every call succeeded) -/
def writeMany (cfg : Cfg) (segs : List (List Nat)) (o : OutSt) : OutSt × Bool :=
  ((runOps cfg (segs.map WOp.u) o).1, (runOps cfg (segs.map WOp.u) o).2.all id)

theorem encodeAll_flatten (cm : Cmgr) (segs : List (List Nat)) :
    ((segs.map WOp.u).map (WOp.text cm)).flatten = encodeAllC cm segs.flatten := by
  induction segs with
  | nil => simp [encodeAllC_nil]
  | cons ws rest ih => simp only [List.map_cons, List.flatten_cons, ih, encodeAllC_append, WOp.text]

/-! ### the null-terminated byte write -/

theorem writeBcstrLoop_spec (cfg : Cfg) (hl : cfg.legacy = false) :
    ∀ (bs : List UInt8) (o : OutSt) (nl : Bool), o.buf.length ≤ cfg.capa →
      ∃ o' nl' res p, writeBcstrLoop cfg bs o nl = (o', nl', res) ∧ Grew cfg o o' p ∧ p <+: bs ∧ (res = none → p = bs) ∧
        (res = none ∨ res = some (.inl .eioerr) ∨ res = some (.inl .ebuffull)) := by
  intro bs
  induction bs with
  | nil => intro o nl h; exact ⟨o, nl, none, [], rfl, Grew.rfl' cfg o h, by simp, by simp, Or.inl rfl⟩
  | cons b rest ih =>
    intro o nl h
    rw [writeBcstrLoop]
    by_cases hfull : o.buf.length ≥ cfg.capa
    · rw [if_pos hfull]
      exact ⟨o, nl, _, [], rfl, Grew.rfl' cfg o h, by simp, by simp [hl], Or.inr (Or.inr (by simp [hl]))⟩
    · rw [if_neg hfull]
      have hs1 := step_append cfg o [b] (by simp; omega)
      simp only
      by_cases hf1 : (o.buf ++ [b]).length ≥ cfg.capa
      · rw [if_pos hf1]
        have hs2 := step_flush cfg { o with buf := o.buf ++ [b] } (by simp; omega)
        rcases hfl : flush { o with buf := o.buf ++ [b] } with ⟨o2, _ | cnt⟩
        · rw [hfl] at hs2
          exact ⟨o2, nl, _, [b] ++ [], rfl, hs1.trans hs2, by simp, by simp, Or.inr (Or.inl rfl)⟩
        · rw [hfl] at hs2
          obtain ⟨o', nl', res, p, hrun, hst, hpre, hfin, hres⟩ := ih o2 false hs2.len
          refine ⟨o', nl', res, [b] ++ [] ++ p, hrun, (hs1.trans hs2).trans hst, ?_, ?_, hres⟩
          · simpa using hpre
          · intro hr; simp [hfin hr]
      · rw [if_neg hf1]
        obtain ⟨o', nl', res, p, hrun, hst, hpre, hfin, hres⟩ :=
          ih { o with buf := o.buf ++ [b] } (if cfg.noAutoFlush then false else (nl || b == 0x0A)) hs1.len
        refine ⟨o', nl', res, [b] ++ p, hrun, hs1.trans hst, ?_, ?_, hres⟩
        · simpa using hpre
        · intro hr; simp [hfin hr]

/-- `hawk_tio_writebchars` with a null-terminated source (repaired), every handler script: the part that entered
"accepted ++ staged" is a prefix of the bytes before the first NUL, all of them on success; failure is EIOERR or EBUFFULL;
nothing is ever stored beyond the buffer -/
theorem writeBcstr_spec (cfg : Cfg) (hl : cfg.legacy = false) (bs : List UInt8) (o : OutSt) (h : o.buf.length ≤ cfg.capa) :
    ∃ p, Grew cfg o (writeBcstr cfg bs o).1 p ∧ p <+: bs.takeWhile (· ≠ 0) ∧ ((writeBcstr cfg bs o).2 = none → p = bs.takeWhile (· ≠ 0)) ∧
      ((writeBcstr cfg bs o).2 = none ∨ (writeBcstr cfg bs o).2 = some (.inl .eioerr) ∨ (writeBcstr cfg bs o).2 = some (.inl .ebuffull)) := by
  unfold writeBcstr
  by_cases hfull : o.buf.length ≥ cfg.capa
  · rw [if_pos hfull]
    exact ⟨[], Grew.rfl' cfg o h, by simp, by simp, Or.inr (Or.inr rfl)⟩
  · rw [if_neg hfull]
    obtain ⟨o', nl', res, p, hrun, hst, hpre, hfin, hres⟩ := writeBcstrLoop_spec cfg hl (bs.takeWhile (· ≠ 0)) o false h
    rw [hrun]
    rcases hres with rfl | rfl | rfl
    · simp only
      cases nl' with
      | false => exact ⟨p, hst, hpre, fun _ => hfin rfl, Or.inl rfl⟩
      | true =>
        simp only [if_true]
        have hs2 := step_flush cfg o' hst.len
        rcases hfl : flush o' with ⟨o2, _ | cnt⟩
        · rw [hfl] at hs2
          exact ⟨p ++ [], hst.trans hs2, by simpa using hpre, by simp, Or.inr (Or.inl rfl)⟩
        · rw [hfl] at hs2
          exact ⟨p ++ [], hst.trans hs2, by simpa using hpre, fun _ => by simpa using hfin rfl, Or.inl rfl⟩
    · exact ⟨p, hst, hpre, by simp, Or.inr (Or.inl rfl)⟩
    · exact ⟨p, hst, hpre, by simp, Or.inr (Or.inr rfl)⟩

end Hawk.Tio
