import HawkModel.Xma
import HawkModel.CTieLemmas
import HawkModel.Gen.CFunsXma
/-!
  Helper lemmas for Props/C20Tie.lean: the translated szlog2 (Gen/CFunsXma.lean) seen as six conditional steps, and each
  step related to the model's `szStep`.  `gen_szlog2_eq` is closed by `rfl`: it holds exactly as long as the generated
  definition has this shape with these masks and shift counts.
-/
namespace Hawk.Xma.Tie
open Hawk.Xma

/-- one `if ((n & (~0 << (BITS-k))) == 0) { x -= k; n <<= k; }` of the translated szlog2 (`m` is the folded mask) -/
def cstep (k m : Nat) (p : Int × Nat) : Int × Nat :=
  if p.2 &&& m = 0 then (((p.1 - (k : Int)) + 2147483648) % 4294967296 - 2147483648, (p.2 <<< k) % 18446744073709551616) else p

/-- the last one, `if ((n & (~0 << (BITS-1))) == 0) { x -= 1; }` -/
def clast (m : Nat) (p : Int × Nat) : Int :=
  if p.2 &&& m = 0 then ((p.1 - 1) + 2147483648) % 4294967296 - 2147483648 else p.1

theorem gen_szlog2_eq (n : Nat) :
    Hawk.Gen.C.szlog2 n = Int.toNat ((clast 9223372036854775808 (cstep 2 13835058055282163712 (cstep 4 17293822569102704640
      (cstep 8 18374686479671623680 (cstep 16 18446462598732840960 (cstep 32 18446744069414584320 (63, n))))))) % 18446744073709551616) := rfl

theorem szStep_fst (k : Nat) (p : Nat × Nat) : (szStep k p).1 = p.1 - k ∨ (szStep k p).1 = p.1 := by
  unfold szStep; split <;> simp

theorem szStep_snd_lt (k : Nat) (p : Nat × Nat) (h : p.2 < 2 ^ 64) : (szStep k p).2 < 2 ^ 64 := by
  unfold szStep; split
  · exact Nat.mod_lt _ (by decide)
  · exact h

theorem step_ok (k m : Nat) (p : Nat × Nat) (hk : k ≤ 64) (hm : m = (2 ^ (64 - (64 - k)) - 1) <<< (64 - k))
    (hn : p.2 < 2 ^ 64) (hx : k ≤ p.1) (hx2 : p.1 ≤ 63) :
    cstep k m ((p.1 : Int), p.2) = (((szStep k p).1 : Int), (szStep k p).2) := by
  unfold cstep szStep
  have hc := CTie.and_mask64_eq_zero p.2 (64 - k) m (by omega) hm hn
  have hB : BITS = 64 := rfl
  have hW : WORD = 18446744073709551616 := by decide
  simp only [hB, hW]
  by_cases h : p.2 / 2 ^ (64 - k) = 0
  · have h' : p.2 &&& m = 0 := hc.mpr h
    simp only [h, h', if_true, Nat.shiftLeft_eq]
    congr 1
    omega
  · have h' : ¬ (p.2 &&& m = 0) := fun e => h (hc.mp e)
    simp only [h, h', if_false]

theorem last_ok (m : Nat) (p : Nat × Nat) (hm : m = (2 ^ (64 - 63) - 1) <<< 63)
    (hn : p.2 < 2 ^ 64) (hx : 1 ≤ p.1) (hx2 : p.1 ≤ 63) :
    clast m ((p.1 : Int), p.2) = ((szStep 1 p).1 : Int) := by
  unfold clast szStep
  have hc := CTie.and_mask64_eq_zero p.2 63 m (by omega) hm hn
  have hB : BITS = 64 := rfl
  simp only [hB]
  by_cases h : p.2 / 2 ^ (64 - 1) = 0
  · have h' : p.2 &&& m = 0 := hc.mpr h
    simp only [h, h', if_true]
    omega
  · have h' : ¬ (p.2 &&& m = 0) := fun e => h (hc.mp e)
    simp only [h, h', if_false]

end Hawk.Xma.Tie
