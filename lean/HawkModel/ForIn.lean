/-
  Model of run_forin (lib/run.c): `for (k in m) body`.

  run_forin evaluates the container once, copies its keys onto the shared snapshot stack
  `rtx->forin.ptr[old_forin_size ..)`, then runs
      for (i = old_forin_size; i < rtx->forin.size; i++) { do_assignment(var, ptr[i]); run_statement(body); ...exit_level... }
  and finally pops the stack back to `old_forin_size` (label done2/done3, reached on every path).
  Keys are *not* re-checked against the container: a key deleted by the body is still visited, a key
  added by the body is not.  Nested loops share the stack: an inner loop pushes above the outer
  snapshot and pops back before the outer loop reads `ptr[i]` again.

  Part 1 is generic: the state outside the stack (`σ`), the key type, the container evaluation, the
  assignment and the body are parameters; the body is an arbitrary function on the whole state.
  Part 2 instantiates it with a small statement language over three map/array variables (the
  programs the correspondence check generates) whose interpreter `exec` is what the driver runs.

  Not modelled: allocation failures inside run_forin (stack growth, key value creation), reference
  counting of the snapshot values.
-/
namespace Hawk.ForIn

/-- rtx->exit_level after a statement (`func` = EXIT_FUNCTION, `glob` = EXIT_GLOBAL/EXIT_ABORT/EXIT_NEXT…),
    and `err` for run_statement() <= -1 -/
inductive Exit where
  | none | brk | cont | func | glob | err
deriving Repr, DecidableEq

/-- `user`: everything but the snapshot stack (variables, the containers themselves);
    `stack`: rtx->forin.ptr[0 .. rtx->forin.size) -/
structure St (σ κ : Type) where
  user : σ
  stack : List κ

/-- the value of the right operand of `in` -/
inductive Coll (κ : Type) where
  | nil                  -- HAWK_VAL_NIL: "just return without executing the loop body"
  | keys (l : List κ)    -- HAWK_VAL_MAP / HAWK_VAL_ARR: its keys in the container's iteration order
  | other                -- anything else: HAWK_EINROP

structure Loop (σ κ : Type) where
  /-- eval_expression(test->right), then getfirstpair/getnextpair resp. the occupied-slot scan -/
  coll : σ → Coll κ
  /-- do_assignment(test->left, key); `none` = it failed -/
  assign : κ → σ → Option σ
  /-- run_statement(nde->body): any function of the whole state -/
  body : St σ κ → St σ κ × Exit

/-- final state, exit level handed to the enclosing statement, and the keys assigned to the loop
    variable by this loop, in order -/
structure Out (σ κ : Type) where
  st : St σ κ
  exit : Exit
  visited : List κ

/-- the iteration over the snapshot.  `i < rtx->forin.size` is `s.stack[i]? ≠ none`; the size is re-read
    on every round as in the C.  `fuel` is the number of snapshot entries: for bodies that leave the
    stack as they found it (all statements do, `runForIn_balanced`) it is never the reason to stop
    (`fuel_irrelevant` in Props/C16Htb.lean); it only makes the function total for arbitrary `body`. -/
def iter {σ κ : Type} (L : Loop σ κ) : (fuel i : Nat) → St σ κ → List κ → Out σ κ
  | 0, _, s, acc => ⟨s, .none, acc.reverse⟩
  | fuel + 1, i, s, acc =>
    match s.stack[i]? with
    | none => ⟨s, .none, acc.reverse⟩
    | some k =>
      match L.assign k s.user with
      | none => ⟨s, .err, acc.reverse⟩
      | some u =>
        let r := L.body { s with user := u }
        match r.2 with
        | .none => iter L fuel (i + 1) r.1 (k :: acc)
        | .cont => iter L fuel (i + 1) r.1 (k :: acc)    -- EXIT_CONTINUE: reset to EXIT_NONE, next round
        | .brk => ⟨r.1, .none, (k :: acc).reverse⟩        -- EXIT_BREAK: reset to EXIT_NONE, leave
        | e => ⟨r.1, e, (k :: acc).reverse⟩               -- any other level, or an error: leave, keep it

def runForIn {σ κ : Type} (L : Loop σ κ) (s : St σ κ) : Out σ κ :=
  match L.coll s.user with
  | .nil => ⟨s, .none, []⟩
  | .other => ⟨s, .err, []⟩
  | .keys ks =>
    let old := s.stack.length
    let r := iter L ks.length old { s with stack := s.stack ++ ks } []
    -- done2/done3: `while (rtx->forin.size > old_forin_size) refdown(ptr[--size])`
    { r with st := { r.st with stack := r.st.stack.take old } }

/-- the same loop written as a plain recursion over the entry-time key list, with no stack at all -/
def loopSpec {σ κ : Type} (L : Loop σ κ) : List κ → St σ κ → List κ → Out σ κ
  | [], s, acc => ⟨s, .none, acc.reverse⟩
  | k :: ks, s, acc =>
    match L.assign k s.user with
    | none => ⟨s, .err, acc.reverse⟩
    | some u =>
      let r := L.body { s with user := u }
      match r.2 with
      | .none => loopSpec L ks r.1 (k :: acc)
      | .cont => loopSpec L ks r.1 (k :: acc)
      | .brk => ⟨r.1, .none, (k :: acc).reverse⟩
      | e => ⟨r.1, e, (k :: acc).reverse⟩

/-! ## Part 2: a small statement language (what the correspondence check generates) -/

/-- a hawk variable holding a container; the pairs are kept in the container's iteration order -/
inductive Val where
  | nil
  | map (l : List (Nat × Nat))
  | arr (l : List (Nat × Nat))
  | scalar                       -- a number: not iterable (HAWK_EINROP), not deletable, but `M[k] = v` turns it into a map
deriving Repr, DecidableEq

def Val.isScalar : Val → Bool
  | .scalar => true
  | _ => false

/-- rbt order of hawk map keys (hawk_rbt_dflcomp on the key strings: bytewise, shorter prefix first) -/
def mapLt (a b : Nat) : Bool := decide (toString a < toString b)
/-- hawk::array(): ascending index -/
def arrLt (a b : Nat) : Bool := decide (a < b)

def insSorted (lt : Nat → Nat → Bool) (k v : Nat) : List (Nat × Nat) → List (Nat × Nat)
  | [] => [(k, v)]
  | p :: r => if p.1 = k then (k, v) :: r else if lt k p.1 then (k, v) :: p :: r else p :: insSorted lt k v r

def Val.set (x : Val) (k v : Nat) : Val :=
  match x with
  | .nil => .map [(k, v)]
  | .scalar => .map [(k, v)]
  | .map l => .map (insSorted mapLt k v l)
  | .arr l => .arr (insSorted arrLt k v l)

def Val.del (x : Val) (k : Nat) : Val :=
  match x with
  | .nil => .nil
  | .scalar => .scalar
  | .map l => .map (l.filter fun p => p.1 != k)
  | .arr l => .arr (l.filter fun p => p.1 != k)

/-- `delete M`: a nil variable becomes an empty map, a map/array is emptied and keeps its kind -/
def Val.reset : Val → Val
  | .nil => .map []
  | .scalar => .scalar
  | .map _ => .map []
  | .arr _ => .arr []

def Val.coll : Val → Coll Nat
  | .nil => .nil
  | .scalar => .other
  | .map l => .keys (l.map Prod.fst)
  | .arr l => .keys (l.map Prod.fst)

structure U where
  vars : List Val          -- M0, M1, M2
  kv : List (Option Nat)   -- loop variables K0, K1, K2
  out : List Nat           -- what `emit` printed
deriving Repr, DecidableEq

def U.init : U := ⟨[.nil, .nil, .nil], [none, none, none], []⟩

def U.var (u : U) (m : Nat) : Val := u.vars.getD m .nil
def U.setVar (u : U) (m : Nat) (x : Val) : U := { u with vars := u.vars.set m x }
def U.key (u : U) (x : Nat) : Nat := (u.kv.getD x none).getD 0

inductive Stmt where
  | set (m k v : Nat)            -- M[k] = v
  | setcur (m x off : Nat)       -- M[K_x + off] = 1
  | del (m k : Nat)              -- delete M[k]
  | delcur (m x : Nat)           -- delete M[K_x]
  | reset (m : Nat)              -- delete M
  | renew (m : Nat)              -- M = @nil
  | newarr (m : Nat)             -- M = hawk::array()
  | scalar (m : Nat)             -- M = 5
  | emit (x : Nat)               -- printf "<%s>", K_x
  | brk | cont | exit | ret | skip
  | ifeq (x k : Nat) (s : Stmt)  -- if (K_x == k) s
  | seq (a b : Stmt)
  | forin (x m : Nat) (body : Stmt)
  | call (body : Stmt)           -- a call of a user function with this body (globals only)
deriving Repr

abbrev S := St U Nat

def onUser (f : U → U) (s : S) : S × Exit := ({ s with user := f s.user }, .none)

/-- the loop `for (K_x in M_m) body` for an already interpreted body -/
def loopOf (x m : Nat) (body : S → S × Exit) : Loop U Nat :=
  { coll := fun u => (u.var m).coll
    assign := fun k u => some { u with kv := u.kv.set x (some k) }
    body := body }

def exec : Stmt → S → S × Exit
  | .set m k v, s => onUser (fun u => u.setVar m ((u.var m).set k v)) s
  | .setcur m x off, s => onUser (fun u => u.setVar m ((u.var m).set (u.key x + off) 1)) s
  -- delete on a variable holding a scalar is a run-time error ("not deletable"): the program is aborted
  | .del m k, s => if (s.user.var m).isScalar then (s, .err) else onUser (fun u => u.setVar m ((u.var m).del k)) s
  | .delcur m x, s => if (s.user.var m).isScalar then (s, .err) else onUser (fun u => u.setVar m ((u.var m).del (u.key x))) s
  | .reset m, s => if (s.user.var m).isScalar then (s, .err) else onUser (fun u => u.setVar m (u.var m).reset) s
  | .scalar m, s => onUser (fun u => u.setVar m .scalar) s
  | .renew m, s => onUser (fun u => u.setVar m .nil) s
  | .newarr m, s => onUser (fun u => u.setVar m (.arr [])) s
  | .emit x, s => onUser (fun u => { u with out := u.key x :: u.out }) s
  | .brk, s => (s, .brk)
  | .cont, s => (s, .cont)
  | .exit, s => (s, .glob)
  | .ret, s => (s, .func)
  | .skip, s => (s, .none)
  | .ifeq x k b, s => if s.user.key x = k then exec b s else (s, .none)
  | .seq a b, s =>
    let r := exec a s
    if r.2 = .none then exec b r.1 else r
  | .forin x m b, s =>
    let r := runForIn (loopOf x m (exec b)) s
    (r.st, r.exit)
  | .call b, s =>
    let r := exec b s
    (r.1, if r.2 = .func then .none else r.2)

end Hawk.ForIn
