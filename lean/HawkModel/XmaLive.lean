import HawkModel.XmaLemmas
import HawkModel.XmaClass
/-! C20 helper lemmas, part 2: what every operation does to the set of live blocks (offset, size, payload) -/
namespace Hawk.Xma

/-! ### alloc -/

theorem takeWhole_live {s : Xma} {o : Nat} {rp : List Blk} {b : Blk} {q : List Blk}
    (hf : findBlk o 0 [] s.blks = some (rp, b, q)) (hbf : b.free = true) :
    LiveStep s.blks (takeWhole s o rp b q).blks [] [(o, b.size, [])] := by
  obtain ⟨hb, ho⟩ := findBlk_split hf
  have := seg_live (P := rp.reverse) (mid := [b]) (mid' := [{ b with free := false, data := [] }]) (R := q) (R' := q)
    hb (by simp) (fun _ => rfl)
  simpa [liveOffs_cons, hbf, ho, takeWhole, plug] using this

theorem takeSplit_live {s : Xma} {size o : Nat} {rp : List Blk} {b : Blk} {q : List Blk}
    (hf : findBlk o 0 [] s.blks = some (rp, b, q)) (hbf : b.free = true) (hrem : b.size - size ≥ FBLKMIN) :
    LiveStep s.blks (takeSplit s size o rp b q).blks [] [(o, size, [])] := by
  obtain ⟨hb, ho⟩ := findBlk_split hf
  have := seg_live (P := rp.reverse) (mid := [b])
    (mid' := [{ b with size := size, free := false, data := [] }, { size := b.size - size - HDR, free := true, prev := size }])
    (R := q) (R' := setPrevHd (b.size - size - HDR) q)
    hb (by simp [FBLKMIN, HDR, MINALLOC] at *; omega) (fun _ => by simp)
  simpa [liveOffs_cons, hbf, ho, takeSplit, plug] using this

/-- a successful allocation adds exactly one live block; it has the rounded size or more, or (best fit) its class is
    the fixed class of the rounded size -/
theorem took_live {s s' : Xma} {size o : Nat} (h : WF s) (ht : Took s size o s') :
    ∃ sz, LiveStep s.blks s'.blks [] [(o, sz, [])] ∧ (size ≤ sz ∨ (getxfi sz = getxfi size ∧ getxfi size < FIXED)) := by
  obtain ⟨rp, b, q, i, hm, hf, hc⟩ := ht
  obtain ⟨hbf, hcls⟩ := wf_entry h hm hf
  rcases hc with ⟨rfl, hle⟩ | ⟨rfl, hi, hfix⟩
  · unfold takeBlk
    split
    · exact ⟨size, takeSplit_live hf hbf (by assumption), Or.inl (Nat.le_refl _)⟩
    · exact ⟨b.size, takeWhole_live hf hbf, Or.inl hle⟩
  · exact ⟨b.size, takeWhole_live hf hbf, Or.inr ⟨by rw [hcls, hi], by rw [← hi]; exact hfix⟩⟩

/-! ### free -/

theorem freeCore_live {s : Xma} {o : Nat} {rp : List Blk} {b : Blk} {q : List Blk}
    (hf : findBlk o 0 [] s.blks = some (rp, b, q)) (hbf : b.free = false) :
    LiveStep s.blks (freeCore s o rp b q).blks [(o, b.size, b.data)] [] := by
  obtain ⟨hb, ho⟩ := findBlk_split hf
  -- the four shapes
  have shapeA : ∀ {x y : Blk} {rp' q' : List Blk}, rp = x :: rp' → q = y :: q' → x.free = true → y.free = true →
      ∀ (v : Nat) (d : List Nat), LiveStep s.blks (plug rp' ({ x with size := x.size + ((HDR + b.size + HDR) + y.size), data := d } ::
          setPrevHd v q')) [(o, b.size, b.data)] [] := by
    intro x y rp' q' e1 e2 hxf hyf v d
    subst e1 e2
    have hb' : s.blks = rp'.reverse ++ ([x, b, y] ++ q') := by simp [hb]
    have := seg_live (P := rp'.reverse) (mid := [x, b, y])
      (mid' := [{ x with size := x.size + ((HDR + b.size + HDR) + y.size), data := d }]) (R := q') (R' := setPrevHd v q')
      hb' (by simp; omega) (fun _ => by simp)
    have e : total rp'.reverse + HDR + x.size = o := by simp at ho; omega
    simpa [liveOffs_cons, hbf, hxf, hyf, plug, e] using this
  have shapeB : ∀ {y : Blk} {q' : List Blk}, q = y :: q' → y.free = true →
      ∀ (v : Nat) (d : List Nat), LiveStep s.blks (plug rp ({ b with free := true, size := b.size + (HDR + y.size), data := d } ::
          setPrevHd v q')) [(o, b.size, b.data)] [] := by
    intro y q' e2 hyf v d
    subst e2
    have hb' : s.blks = rp.reverse ++ ([b, y] ++ q') := by simp [hb]
    have := seg_live (P := rp.reverse) (mid := [b, y])
      (mid' := [{ b with free := true, size := b.size + (HDR + y.size), data := d }]) (R := q') (R' := setPrevHd v q')
      hb' (by simp; omega) (fun _ => by simp)
    simpa [liveOffs_cons, hbf, hyf, plug, ho] using this
  have shapeC : ∀ {x : Blk} {rp' : List Blk}, rp = x :: rp' → x.free = true →
      ∀ (v : Nat) (d : List Nat), LiveStep s.blks (plug rp' ({ x with size := x.size + (HDR + b.size), data := d } ::
          setPrevHd v q)) [(o, b.size, b.data)] [] := by
    intro x rp' e1 hxf v d
    subst e1
    have hb' : s.blks = rp'.reverse ++ ([x, b] ++ q) := by simp [hb]
    have := seg_live (P := rp'.reverse) (mid := [x, b])
      (mid' := [{ x with size := x.size + (HDR + b.size), data := d }]) (R := q) (R' := setPrevHd v q)
      hb' (by simp; omega) (fun _ => by simp)
    have e : total rp'.reverse + HDR + x.size = o := by simp at ho; omega
    simpa [liveOffs_cons, hbf, hxf, plug, e] using this
  have shapeD : ∀ (d : List Nat), LiveStep s.blks (plug rp ({ b with free := true, data := d } :: q)) [(o, b.size, b.data)] [] := by
    intro d
    have hb' : s.blks = rp.reverse ++ ([b] ++ q) := by simp [hb]
    have := seg_live (P := rp.reverse) (mid := [b]) (mid' := [{ b with free := true, data := d }]) (R := q) (R' := q)
      hb' (by simp) (fun _ => rfl)
    simpa [liveOffs_cons, hbf, plug, ho] using this
  unfold freeCore
  split
  · rename_i x rp' y q'
    simp only
    split
    · rename_i hxy; exact shapeA rfl rfl hxy.1 hxy.2 _ _
    · split
      · rename_i hy; exact shapeB rfl hy _ _
      · split
        · rename_i hx; exact shapeC rfl hx _ _
        · exact shapeD _
  · rename_i y q'
    simp only
    split
    · rename_i hy; exact shapeB rfl hy _ _
    · exact shapeD _
  · rename_i x rp'
    simp only
    split
    · rename_i hx; exact shapeC rfl hx _ _
    · exact shapeD _
  · exact shapeD _


/-! ### realloc -/

theorem live_id {blks : List Blk} {o : Nat} {rp : List Blk} {b : Blk} {q : List Blk}
    (hf : findBlk o 0 [] blks = some (rp, b, q)) (hbf : b.free = false) :
    LiveStep blks blks [(o, b.size, b.data)] [(o, b.size, b.data)] := by
  obtain ⟨hb, ho⟩ := findBlk_split hf
  have := seg_live (P := rp.reverse) (mid := [b]) (mid' := [b]) (R := q) (R' := q) hb rfl (fun _ => rfl)
  have e : rp.reverse ++ ([b] ++ q) = blks := by simp [hb]
  rw [e] at this
  simpa [liveOffs_cons, hbf, ho] using this

theorem setData_live {s : Xma} {o : Nat} {d : List Nat} {rp : List Blk} {b : Blk} {q : List Blk}
    (hf : findBlk o 0 [] s.blks = some (rp, b, q)) (hbf : b.free = false) :
    LiveStep s.blks (setData s o d).blks [(o, b.size, b.data)] [(o, b.size, d)] := by
  obtain ⟨hb, ho⟩ := findBlk_split hf
  have := seg_live (P := rp.reverse) (mid := [b]) (mid' := [{ b with data := d }]) (R := q) (R' := q) hb (by simp) (fun _ => rfl)
  unfold setData
  rw [hf]
  simpa [liveOffs_cons, hbf, ho, plug] using this

theorem reallocMerge_live {s s' : Xma} {o n : Nat} (hr : reallocMerge s o n = .ok (some s')) :
    ∃ (b : Blk) (sz' : Nat) (d' : List Nat), s'.zone = s.zone ∧ (∃ rp q, findBlk o 0 [] s.blks = some (rp, b, q)) ∧ b.free = false ∧
      LiveStep s.blks s'.blks [(o, b.size, b.data)] [(o, sz', d')] ∧ ¬ roundReq n < ALIGN ∧ roundReq n ≤ sz' ∧
      (d' = b.data ∨ d' = b.data.take (roundReq n)) := by
  unfold reallocMerge at hr
  split at hr
  · simp at hr
  · rename_i rp b q hfb
    obtain ⟨hb, ho⟩ := findBlk_split hfb
    split at hr
    · simp at hr
    · rename_i hbf
      have hbf : b.free = false := by simpa using hbf
      simp only at hr
      split at hr
      · simp at hr
      · rename_i hsz
        split at hr
        · rename_i hgt
          split at hr
          · simp at hr
          · rename_i nb q'
            split at hr
            · simp at hr
            · rename_i hc
              simp only [Bool.not_eq_eq_eq_not, Bool.not_true, not_or, Bool.not_eq_false] at hc
              have hnf : nb.free = true := by simpa using hc.1
              have hb' : s.blks = rp.reverse ++ ([b, nb] ++ q') := by simp [hb]
              split at hr
              · rename_i hrem
                simp only [Except.ok.injEq, Option.some.injEq] at hr; subst hr
                refine ⟨b, b.size + (roundReq n - b.size), b.data, rfl, ⟨rp, _, hfb⟩, hbf, ?_, hsz, by omega, Or.inl rfl⟩
                have := seg_live (P := rp.reverse) (mid := [b, nb])
                  (mid' := [{ b with size := b.size + (roundReq n - b.size) },
                            { size := (HDR + nb.size) - (roundReq n - b.size) - HDR, free := true, prev := b.size + (roundReq n - b.size) }])
                  (R := q') (R' := setPrevHd ((HDR + nb.size) - (roundReq n - b.size) - HDR) q')
                  hb' (by simp [FBLKMIN, HDR, MINALLOC] at *; omega) (fun _ => by simp)
                simpa [liveOffs_cons, hbf, hnf, plug, ho] using this
              · simp only [Except.ok.injEq, Option.some.injEq] at hr; subst hr
                refine ⟨b, b.size + (HDR + nb.size), b.data, rfl, ⟨rp, _, hfb⟩, hbf, ?_, hsz, by omega, Or.inl rfl⟩
                have := seg_live (P := rp.reverse) (mid := [b, nb]) (mid' := [{ b with size := b.size + (HDR + nb.size) }])
                  (R := q') (R' := setPrevHd (b.size + (HDR + nb.size)) q')
                  hb' (by simp; omega) (fun _ => by simp)
                simpa [liveOffs_cons, hbf, hnf, plug, ho] using this
        · rename_i hngt
          have shrinkSplit : ∀ (hrem : b.size - roundReq n ≥ FBLKMIN),
              LiveStep s.blks (plug rp ({ b with size := roundReq n, data := b.data.take (roundReq n) } ::
                { size := b.size - roundReq n - HDR, free := true, prev := roundReq n } ::
                setPrevHd (b.size - roundReq n - HDR) q)) [(o, b.size, b.data)] [(o, roundReq n, b.data.take (roundReq n))] := by
            intro hrem
            have hb' : s.blks = rp.reverse ++ ([b] ++ q) := by simp [hb]
            have := seg_live (P := rp.reverse) (mid := [b])
              (mid' := [{ b with size := roundReq n, data := b.data.take (roundReq n) },
                        { size := b.size - roundReq n - HDR, free := true, prev := roundReq n }])
              (R := q) (R' := setPrevHd (b.size - roundReq n - HDR) q)
              hb' (by simp [FBLKMIN, HDR, MINALLOC] at *; omega) (fun _ => by simp)
            simpa [liveOffs_cons, hbf, plug, ho] using this
          split at hr
          · split at hr
            · rename_i hrem
              split at hr
              · rename_i nb q'
                split at hr
                · rename_i hnf
                  simp only [Except.ok.injEq, Option.some.injEq] at hr; subst hr
                  refine ⟨b, roundReq n, b.data.take (roundReq n), rfl, ⟨rp, _, hfb⟩, hbf, ?_, hsz, Nat.le_refl _, Or.inr rfl⟩
                  have hb' : s.blks = rp.reverse ++ ([b, nb] ++ q') := by simp [hb]
                  have := seg_live (P := rp.reverse) (mid := [b, nb])
                    (mid' := [{ b with size := roundReq n, data := b.data.take (roundReq n) },
                              { size := b.size - roundReq n + nb.size, free := true, prev := roundReq n }])
                    (R := q') (R' := setPrevHd (b.size - roundReq n + nb.size) q')
                    hb' (by simp [FBLKMIN, HDR, MINALLOC] at *; omega) (fun _ => by simp)
                  simpa [liveOffs_cons, hbf, hnf, plug, ho] using this
                · simp only [Except.ok.injEq, Option.some.injEq] at hr; subst hr
                  exact ⟨b, roundReq n, b.data.take (roundReq n), rfl, ⟨rp, _, hfb⟩, hbf, shrinkSplit hrem, hsz, Nat.le_refl _, Or.inr rfl⟩
              · simp only [Except.ok.injEq, Option.some.injEq] at hr; subst hr
                exact ⟨b, roundReq n, b.data.take (roundReq n), rfl, ⟨rp, _, hfb⟩, hbf, shrinkSplit hrem, hsz, Nat.le_refl _, Or.inr rfl⟩
            · simp only [Except.ok.injEq, Option.some.injEq] at hr; subst hr
              exact ⟨b, b.size, b.data, rfl, ⟨rp, _, hfb⟩, hbf, live_id hfb hbf, hsz, by omega, Or.inl rfl⟩
          · simp only [Except.ok.injEq, Option.some.injEq] at hr; subst hr
            exact ⟨b, b.size, b.data, rfl, ⟨rp, _, hfb⟩, hbf, live_id hfb hbf, hsz, by omega, Or.inl rfl⟩


/-! ### operation-level statements -/

theorem wf_live_facts {s : Xma} (h : WF s) {x : Nat × Nat × List Nat} (hx : x ∈ liveOffs 0 s.blks) :
    x.1 % ALIGN = 0 ∧ MINALLOC ≤ x.2.1 ∧ x.1 + HDR + x.2.1 ≤ s.zone ∧
    ((x.1 + HDR + x.2.1) % ALIGN = 0 ∨ x.1 + HDR + x.2.1 = s.zone) := by
  have a := live_aligned h.chain hx
  have b := liveOffs_bounds hx
  have e := live_end h.chain hx
  rw [h.tile] at b e
  exact ⟨a.1, a.2, by omega, by simpa using e⟩

theorem alloc_spec {s s' : Xma} {n : Nat} {r : Option Nat} (h : WF s) (hz : s.zone < WORD) (hn : n < WORD)
    (ha : alloc s n = .ok (r, s')) :
    (r = none ∧ s' = s) ∨ ∃ o sz, r = some o ∧ n ≤ sz ∧
      (∀ x, x ∈ liveOffs 0 s'.blks ↔ x ∈ liveOffs 0 s.blks ∨ x = (o, sz, [])) ∧ (∀ x ∈ liveOffs 0 s.blks, x.1 ≠ o) := by
  have hwf' := alloc_wf' h ha
  rcases alloc_cases ha with hnone | ⟨o, rfl, hsz, ht⟩
  · exact Or.inl hnone
  · right
    obtain ⟨sz, hl, hsize⟩ := took_live h ht
    obtain ⟨m1, m2⟩ := liveStep_add hl
    have hzone : s'.zone = s.zone := by
      obtain ⟨rp, b, q, i, _, _, hc⟩ := ht
      rcases hc with ⟨rfl, _⟩ | ⟨rfl, _⟩
      · unfold takeBlk; split <;> rfl
      · rfl
    have hin : (o, sz, ([] : List Nat)) ∈ liveOffs 0 s'.blks := (m1 _).2 (Or.inr rfl)
    have hf := wf_live_facts hwf' hin
    have hr := roundReq_ok hsz
    have hge := roundReq_ge hn hsz
    refine ⟨o, sz, rfl, ?_, m1, m2⟩
    rcases hsize with hle | ⟨hc1, hc2⟩
    · omega
    · have : roundReq n ≤ sz := by
        apply fixed_class_ge (by have := hf.2.1; simp only [ALIGN, MINALLOC] at *; omega)
          (by have := hf.2.2.1; simp only at this; rw [hzone] at this; omega) hr.1
          (by simp only [ALIGN, MINALLOC] at *; omega)
          (by unfold roundReq; simp only [WORD, BITS, ALIGN]; omega) hc1 hc2
      omega

theorem free_spec {s s' : Xma} {o : Nat} (hf : free s o = .ok s') :
    ∃ sz d, (o, sz, d) ∈ liveOffs 0 s.blks ∧ ∀ x, x ∈ liveOffs 0 s'.blks ↔ x ∈ liveOffs 0 s.blks ∧ x.1 ≠ o := by
  unfold free at hf
  split at hf
  · simp at hf
  · rename_i rp b q hfb
    split at hf
    · simp at hf
    · rename_i hbf
      simp only [Except.ok.injEq] at hf
      subst hf
      have := liveStep_del (freeCore_live hfb (by simpa using hbf))
      exact ⟨b.size, b.data, this.1, this.2⟩

theorem free_total {s : Xma} {o sz : Nat} {d : List Nat} (hl : (o, sz, d) ∈ liveOffs 0 s.blks) : ∃ s', free s o = .ok s' := by
  obtain ⟨⟨rp, b, q⟩, hf⟩ := findBlk_live_exists s.blks 0 [] hl
  have := findBlk_live hf hl
  unfold free
  rw [hf]
  simp [this.1]

theorem scan_total {blks : List Blk} {size : Nat} : ∀ (l : List Nat), (∀ o ∈ l, ∃ r, findBlk o 0 [] blks = some r) →
    ∃ r, scan blks size l = .ok r := by
  intro l
  induction l with
  | nil => intro _; exact ⟨none, rfl⟩
  | cons a l ih =>
    intro hall
    obtain ⟨⟨rp, b, q⟩, hf⟩ := hall a (by simp)
    unfold scan
    rw [hf]
    simp only
    split
    · exact ⟨_, rfl⟩
    · exact ih (fun o ho => hall o (by simp [ho]))

theorem allocFrom_total {s : Xma} (h : WF s) (i size : Nat) : ∃ r, allocFrom s i size = .ok r := by
  obtain ⟨r, hr⟩ := scan_total (blks := s.blks) (size := size) (fl s.xfree i) (by
    intro o ho
    obtain ⟨sz, hm, _⟩ := (h.mem i o).1 ho
    exact findBlk_exists _ _ _ hm)
  unfold allocFrom
  rw [hr]
  cases r with
  | none => exact ⟨_, rfl⟩
  | some c => obtain ⟨o, rp, b, q⟩ := c; exact ⟨_, rfl⟩

theorem sweep_total {s : Xma} (h : WF s) (size : Nat) : ∀ (cls : List Nat), ∃ r, sweep s size cls = .ok r := by
  intro cls
  induction cls with
  | nil => exact ⟨none, rfl⟩
  | cons i cls ih =>
    obtain ⟨r, hr⟩ := allocFrom_total h i size
    unfold sweep
    rw [hr]
    cases r with
    | none => exact ih
    | some x => exact ⟨_, rfl⟩

/-- on a well-formed state hawk_xma_alloc never follows a dangling free-list entry -/
theorem alloc_total {s : Xma} (h : WF s) (n : Nat) : ∃ r s', alloc s n = .ok (r, s') := by
  unfold alloc
  simp only
  split
  · exact ⟨_, _, rfl⟩
  · split
    · rename_i hfix
      split
      · exact ⟨_, _, rfl⟩
      · rename_i o l hl
        have ho : o ∈ fl s.xfree (getxfi (roundReq n)) := by rw [hl]; simp
        obtain ⟨sz, hm, _⟩ := (h.mem _ o).1 ho
        obtain ⟨⟨rp, b, q⟩, hf⟩ := findBlk_exists s.blks 0 [] hm
        rw [hf]
        exact ⟨_, _, rfl⟩
    · split
      · obtain ⟨r, hr⟩ := allocFrom_total h XFIMAX (roundReq n)
        rw [hr]
        cases r with
        | none => exact ⟨_, _, rfl⟩
        | some x => obtain ⟨o, s'⟩ := x; exact ⟨_, _, rfl⟩
      · have hfirst : ∃ r, allocFirst s (getxfi (roundReq n)) (roundReq n) = .ok r := by
          unfold allocFirst
          split
          · obtain ⟨r, hr⟩ := allocFrom_total h (getxfi (roundReq n)) (roundReq n)
            rw [hr]
            cases r with
            | some x => exact ⟨_, rfl⟩
            | none =>
              obtain ⟨r2, hr2⟩ := allocFrom_total h XFIMAX (roundReq n)
              simp only
              rw [hr2]
              exact ⟨_, rfl⟩
          · obtain ⟨r, hr⟩ := allocFrom_total h XFIMAX (roundReq n)
            rw [hr]
            cases r with
            | some x => exact ⟨_, rfl⟩
            | none => exact ⟨_, rfl⟩
        obtain ⟨⟨r, k⟩, hr⟩ := hfirst
        rw [hr]
        cases r with
        | some x => obtain ⟨o, s'⟩ := x; exact ⟨_, _, rfl⟩
        | none =>
          simp only
          obtain ⟨r2, hr2⟩ := sweep_total h (roundReq n) (sweepClasses k)
          rw [hr2]
          cases r2 with
          | none => exact ⟨_, _, rfl⟩
          | some x => obtain ⟨o, s'⟩ := x; exact ⟨_, _, rfl⟩


theorem alloc_mem {s s' : Xma} {n o' : Nat} (h : WF s) (ha : alloc s n = .ok (some o', s')) :
    ∃ sz', (∀ x, x ∈ liveOffs 0 s'.blks ↔ x ∈ liveOffs 0 s.blks ∨ x = (o', sz', [])) ∧ (∀ x ∈ liveOffs 0 s.blks, x.1 ≠ o') := by
  rcases alloc_cases ha with ⟨hnone, _⟩ | ⟨o, ho, hsz, ht⟩
  · simp at hnone
  · simp only [Option.some.injEq] at ho; subst ho
    obtain ⟨sz, hl, _⟩ := took_live h ht
    exact ⟨sz, liveStep_add hl⟩

theorem reallocMerge_total {s : Xma} {o sz n : Nat} {d : List Nat} (hl : (o, sz, d) ∈ liveOffs 0 s.blks) :
    ∃ r, reallocMerge s o n = .ok r := by
  obtain ⟨⟨rp, b, q⟩, hf⟩ := findBlk_live_exists s.blks 0 [] hl
  have := findBlk_live hf hl
  unfold reallocMerge
  rw [hf]
  simp only [this.1, Bool.false_eq_true, if_false]
  repeat' split
  all_goals exact ⟨_, rfl⟩

theorem take_prefix {d d' : List Nat} {m k : Nat} (h : d' = d ∨ d' = d.take m) (hk : k ≤ m) : d'.take k = d.take k := by
  rcases h with rfl | rfl
  · rfl
  · rw [List.take_take]; congr 1; omega

theorem realloc_spec {s s' : Xma} {o n sz : Nat} {d : List Nat} {r : Option Nat} (h : WF s) (hz : s.zone < WORD)
    (hn : n < WORD) (hl : (o, sz, d) ∈ liveOffs 0 s.blks) (hr : realloc s o n = .ok (r, s')) :
    (r = none ∧ s' = s) ∨ ∃ o' sz' d', r = some o' ∧ n ≤ sz' ∧ (∀ k, k ≤ n → k ≤ sz → d'.take k = d.take k) ∧
      (∀ x, x ∈ liveOffs 0 s'.blks ↔ (x ∈ liveOffs 0 s.blks ∧ x.1 ≠ o) ∨ x = (o', sz', d')) ∧
      (o' ≠ o → ∀ x ∈ liveOffs 0 s.blks, x.1 ≠ o') := by
  unfold realloc at hr
  split at hr
  · simp at hr
  · rename_i s1 hm
    simp only [Except.ok.injEq, Prod.mk.injEq] at hr
    obtain ⟨rfl, rfl⟩ := hr
    obtain ⟨b, sz', d', _, ⟨rp, q, hf⟩, hbf, hls, hsz, hle, hd⟩ := reallocMerge_live hm
    obtain ⟨_, e1, e2⟩ := findBlk_live hf hl
    subst e1 e2
    have hge := roundReq_ge hn hsz
    exact Or.inr ⟨o, sz', d', rfl, by omega, fun k hk _ => take_prefix hd (by omega), (liveStep_repl hls).2,
      fun hne => absurd rfl hne⟩
  · split at hr
    · simp at hr
    · rename_i s1 ha
      simp only [Except.ok.injEq, Prod.mk.injEq] at hr
      obtain ⟨rfl, rfl⟩ := hr
      rcases alloc_cases ha with ⟨_, e⟩ | ⟨o2, ho2, _⟩
      · exact Or.inl ⟨rfl, e⟩
      · simp at ho2
    · rename_i o' s1 ha
      split at hr
      · simp at hr
      · rename_i ob hob
        simp only at hr
        split at hr
        · simp at hr
        · rename_i s3 hfr
          simp only [Except.ok.injEq, Prod.mk.injEq] at hr
          obtain ⟨rfl, rfl⟩ := hr
          rcases alloc_spec h hz hn ha with ⟨hnone, _⟩ | ⟨o2, sz', ho2, hle, m1, m2⟩
          · simp at hnone
          · simp only [Option.some.injEq] at ho2; subst ho2
            have hne : o ≠ o' := m2 _ hl
            -- the old block is still there in s1
            have hl1 : (o, sz, d) ∈ liveOffs 0 s1.blks := (m1 _).2 (Or.inl hl)
            obtain ⟨⟨rp, b1, q⟩, hf1⟩ := findBlk_live_exists s1.blks 0 [] hl1
            obtain ⟨_, e1, e2⟩ := findBlk_live hf1 hl1
            have hob' : ob = b1 := by
              unfold blkAt at hob; rw [hf1] at hob; simpa using hob.symm
            subst hob'
            subst e1 e2
            -- the fresh block receives the copy
            have hl2 : (o', sz', ([] : List Nat)) ∈ liveOffs 0 s1.blks := (m1 _).2 (Or.inr rfl)
            obtain ⟨⟨rp2, b2, q2⟩, hf2⟩ := findBlk_live_exists s1.blks 0 [] hl2
            obtain ⟨hb2f, e3, e4⟩ := findBlk_live hf2 hl2
            have hs2 := (liveStep_repl (setData_live (d := ob.data.take (copyLen n ob.size)) hf2 hb2f)).2
            rw [e3, e4] at hs2
            obtain ⟨_, _, _, m3⟩ := free_spec hfr
            refine Or.inr ⟨o', sz', ob.data.take (copyLen n ob.size), rfl, hle, ?_, ?_, fun _ => m2⟩
            · intro k hk1 hk2
              rw [List.take_take]; congr 1; unfold copyLen; split <;> omega
            · intro x
              rw [m3, hs2, m1]
              constructor
              · rintro ⟨(⟨(hx | hx), _⟩ | hx), hxo⟩
                · exact Or.inl ⟨hx, hxo⟩
                · subst hx; simp_all
                · exact Or.inr hx
              · rintro (⟨hx, hxo⟩ | hx)
                · exact ⟨Or.inl ⟨Or.inl hx, m2 x hx⟩, hxo⟩
                · subst hx; exact ⟨Or.inr rfl, fun e => hne e.symm⟩

theorem realloc_total {s : Xma} {o sz n : Nat} {d : List Nat} (h : WF s) (hl : (o, sz, d) ∈ liveOffs 0 s.blks) :
    ∃ r s', realloc s o n = .ok (r, s') := by
  unfold realloc
  obtain ⟨rm, hrm⟩ := reallocMerge_total (n := n) hl
  rw [hrm]
  cases rm with
  | some s1 => exact ⟨_, _, rfl⟩
  | none =>
    simp only
    obtain ⟨r, s1, ha⟩ := alloc_total h n
    rw [ha]
    cases r with
    | none => exact ⟨_, _, rfl⟩
    | some o' =>
      simp only
      obtain ⟨sz', m1, m2⟩ := alloc_mem h ha
      have hne : o ≠ o' := m2 _ hl
      have hl1 : (o, sz, d) ∈ liveOffs 0 s1.blks := (m1 _).2 (Or.inl hl)
      obtain ⟨⟨rp, b1, q⟩, hf1⟩ := findBlk_live_exists s1.blks 0 [] hl1
      have hob : blkAt s1 o = some b1 := by unfold blkAt; rw [hf1]
      rw [hob]
      simp only
      have hl2 : (o', sz', ([] : List Nat)) ∈ liveOffs 0 s1.blks := (m1 _).2 (Or.inr rfl)
      obtain ⟨⟨rp2, b2, q2⟩, hf2⟩ := findBlk_live_exists s1.blks 0 [] hl2
      obtain ⟨hb2f, e3, e4⟩ := findBlk_live hf2 hl2
      have hs2 := (liveStep_repl (setData_live (d := b1.data.take (copyLen n b1.size)) hf2 hb2f)).2
      have hl3 : (o, sz, d) ∈ liveOffs 0 (setData s1 o' (b1.data.take (copyLen n b1.size))).blks :=
        (hs2 _).2 (Or.inl ⟨hl1, by rw [e3] at *; exact hne⟩)
      obtain ⟨s3, hfr⟩ := free_total hl3
      rw [hfr]
      exact ⟨_, _, rfl⟩

/-! ### everything freed -/

/-- a chain without live blocks and without two adjacent free blocks has at most one block -/
theorem all_free_single {c0 ps : Nat} {pf : Bool} {l : List Blk} (h : ChainOK c0 ps pf l) (hl : ∀ c, liveOffs c l = []) :
    l.length ≤ 1 := by
  cases l with
  | nil => simp
  | cons a l =>
    cases l with
    | nil => simp
    | cons b l =>
      exfalso
      have h0 := hl 0
      rw [liveOffs_cons, liveOffs_cons] at h0
      simp only [ChainOK] at h
      have hab := h.2.2.2.2.2.1
      cases ha : a.free <;> cases hb : b.free <;> simp_all

theorem liveOffs_nil_shift {l : List Blk} {c : Nat} (h : liveOffs c l = []) : ∀ c', liveOffs c' l = [] := by
  induction l generalizing c with
  | nil => intro _; rfl
  | cons a l ih =>
    intro c'
    rw [liveOffs_cons] at h ⊢
    simp only [List.append_eq_nil_iff] at h ⊢
    constructor
    · split <;> simp_all
    · exact ih h.2 _


/-! ### the specification vocabulary in plain terms -/

theorem freeOffs_mem_iff {c o sz : Nat} {l : List Blk} :
    (o, sz) ∈ freeOffs c l ↔ ∃ p b q, l = p ++ b :: q ∧ c + total p = o ∧ b.free = true ∧ b.size = sz := by
  induction l generalizing c with
  | nil => simp
  | cons a l ih =>
    rw [freeOffs_cons]
    simp only [List.mem_append]
    constructor
    · rintro (h | h)
      · split at h
        · simp at h; rename_i hf; exact ⟨[], a, l, rfl, by simp [h.1], hf, h.2.symm⟩
        · simp at h
      · obtain ⟨p, b, q, e1, e2, e3, e4⟩ := ih.1 h
        exact ⟨a :: p, b, q, by simp [e1], by simp; omega, e3, e4⟩
    · rintro ⟨p, b, q, e1, e2, e3, e4⟩
      cases p with
      | nil =>
        simp at e1 e2
        obtain ⟨rfl, rfl⟩ := e1
        left; simp [e3, e2, e4]
      | cons a' p =>
        simp at e1 e2
        obtain ⟨rfl, rfl⟩ := e1
        right
        exact ih.2 ⟨p, b, q, rfl, by omega, e3, e4⟩

theorem liveOffs_mem_iff {c o sz : Nat} {d : List Nat} {l : List Blk} :
    (o, sz, d) ∈ liveOffs c l ↔ ∃ p b q, l = p ++ b :: q ∧ c + total p = o ∧ b.free = false ∧ b.size = sz ∧ b.data = d := by
  induction l generalizing c with
  | nil => simp
  | cons a l ih =>
    rw [liveOffs_cons]
    simp only [List.mem_append]
    constructor
    · rintro (h | h)
      · split at h
        · simp at h
        · simp at h; rename_i hf; exact ⟨[], a, l, rfl, by simp [h.1], by simpa using hf, h.2.1.symm, h.2.2.symm⟩
      · obtain ⟨p, b, q, e1, e2, e3, e4⟩ := ih.1 h
        exact ⟨a :: p, b, q, by simp [e1], by simp; omega, e3, e4⟩
    · rintro ⟨p, b, q, e1, e2, e3, e4, e5⟩
      cases p with
      | nil =>
        simp at e1 e2
        obtain ⟨rfl, rfl⟩ := e1
        left; simp [e3, e2, e4, e5]
      | cons a' p =>
        simp at e1 e2
        obtain ⟨rfl, rfl⟩ := e1
        right
        exact ih.2 ⟨p, b, q, rfl, by omega, e3, e4, e5⟩

theorem chainOK_sizes {c ps : Nat} {pf : Bool} {l : List Blk} (h : ChainOK c ps pf l) :
    ∀ p b q, l = p ++ b :: q → (c + total p) % ALIGN = 0 ∧ MINALLOC ≤ b.size := by
  intro p b q e
  subst e
  rw [chainOK_append] at h
  have := h.2
  simp only [ChainOK] at this
  exact ⟨this.2.2.1, this.2.2.2.1⟩

theorem chainOK_adjacent {c ps : Nat} {pf : Bool} {l p q : List Blk} {a b : Blk} (h : ChainOK c ps pf l)
    (e : l = p ++ a :: b :: q) : b.prev = a.size ∧ ¬(a.free = true ∧ b.free = true) := by
  subst e
  rw [chainOK_append] at h
  have := h.2
  simp only [ChainOK] at this
  exact ⟨this.2.2.2.2.1, this.2.2.2.2.2.1⟩


/-! ### the zone size is never touched -/

theorem alloc_zone {s s' : Xma} {n : Nat} {r : Option Nat} (ha : alloc s n = .ok (r, s')) : s'.zone = s.zone := by
  rcases alloc_cases ha with ⟨_, e⟩ | ⟨o, _, _, rp, b, q, i, _, _, hc⟩
  · rw [e]
  · rcases hc with ⟨rfl, _⟩ | ⟨rfl, _⟩
    · unfold takeBlk; split <;> rfl
    · rfl

theorem freeCore_zone (s : Xma) (o : Nat) (rp : List Blk) (b : Blk) (q : List Blk) : (freeCore s o rp b q).zone = s.zone := by
  unfold freeCore
  repeat' split
  all_goals rfl

theorem free_zone {s s' : Xma} {o : Nat} (hf : free s o = .ok s') : s'.zone = s.zone := by
  unfold free at hf
  split at hf
  · simp at hf
  · split at hf
    · simp at hf
    · simp only [Except.ok.injEq] at hf; subst hf; exact freeCore_zone _ _ _ _ _

theorem setData_zone (s : Xma) (o : Nat) (d : List Nat) : (setData s o d).zone = s.zone := by
  unfold setData; split <;> rfl

theorem reallocMerge_zone {s s' : Xma} {o n : Nat} (hr : reallocMerge s o n = .ok (some s')) : s'.zone = s.zone := by
  obtain ⟨b, sz', d', hz, _⟩ := reallocMerge_live hr
  exact hz

theorem realloc_zone {s s' : Xma} {o n : Nat} {r : Option Nat} (hr : realloc s o n = .ok (r, s')) : s'.zone = s.zone := by
  unfold realloc at hr
  split at hr
  · simp at hr
  · rename_i s1 hm
    simp only [Except.ok.injEq, Prod.mk.injEq] at hr
    obtain ⟨_, rfl⟩ := hr
    exact reallocMerge_zone hm
  · split at hr
    · simp at hr
    · rename_i s1 ha
      simp only [Except.ok.injEq, Prod.mk.injEq] at hr
      obtain ⟨_, rfl⟩ := hr
      exact alloc_zone ha
    · rename_i o' s1 ha
      split at hr
      · simp at hr
      · simp only at hr
        split at hr
        · simp at hr
        · rename_i s3 hfr
          simp only [Except.ok.injEq, Prod.mk.injEq] at hr
          obtain ⟨_, rfl⟩ := hr
          rw [free_zone hfr, setData_zone, alloc_zone ha]

theorem calloc_zone {s s' : Xma} {n : Nat} {r : Option Nat} (hc : calloc s n = .ok (r, s')) : s'.zone = s.zone := by
  unfold calloc at hc
  split at hc
  · simp at hc
  · rename_i s1 ha
    simp only [Except.ok.injEq, Prod.mk.injEq] at hc
    obtain ⟨_, rfl⟩ := hc
    exact alloc_zone ha
  · rename_i o s1 ha
    simp only [Except.ok.injEq, Prod.mk.injEq] at hc
    obtain ⟨_, rfl⟩ := hc
    rw [setData_zone, alloc_zone ha]

/-- hawk_xma_calloc: as hawk_xma_alloc, and the `n` requested bytes of the fresh block are zero -/
theorem calloc_spec {s s' : Xma} {n : Nat} {r : Option Nat} (h : WF s) (hz : s.zone < WORD) (hn : n < WORD)
    (hc : calloc s n = .ok (r, s')) :
    (r = none ∧ s' = s) ∨ ∃ o sz, r = some o ∧ n ≤ sz ∧
      (∀ x, x ∈ liveOffs 0 s'.blks ↔ x ∈ liveOffs 0 s.blks ∨ x = (o, sz, List.replicate n 0)) ∧
      (∀ x ∈ liveOffs 0 s.blks, x.1 ≠ o) := by
  unfold calloc at hc
  split at hc
  · simp at hc
  · rename_i s1 ha
    simp only [Except.ok.injEq, Prod.mk.injEq] at hc
    obtain ⟨rfl, rfl⟩ := hc
    rcases alloc_cases ha with ⟨_, e⟩ | ⟨o2, ho2, _⟩
    · exact Or.inl ⟨rfl, e⟩
    · simp at ho2
  · rename_i o s1 ha
    simp only [Except.ok.injEq, Prod.mk.injEq] at hc
    obtain ⟨rfl, rfl⟩ := hc
    rcases alloc_spec h hz hn ha with ⟨hnone, _⟩ | ⟨o2, sz, ho2, hle, m1, m2⟩
    · simp at hnone
    · simp only [Option.some.injEq] at ho2; subst ho2
      have hl2 : (o, sz, ([] : List Nat)) ∈ liveOffs 0 s1.blks := (m1 _).2 (Or.inr rfl)
      obtain ⟨⟨rp2, b2, q2⟩, hf2⟩ := findBlk_live_exists s1.blks 0 [] hl2
      obtain ⟨hb2f, e3, e4⟩ := findBlk_live hf2 hl2
      have hs2 := (liveStep_repl (setData_live (d := List.replicate n 0) hf2 hb2f)).2
      rw [e3] at hs2
      refine Or.inr ⟨o, sz, rfl, hle, ?_, m2⟩
      intro x
      rw [hs2, m1]
      constructor
      · rintro (⟨(hx | hx), hne⟩ | hx)
        · exact Or.inl hx
        · subst hx; exact absurd rfl hne
        · exact Or.inr hx
      · rintro (hx | hx)
        · exact Or.inl ⟨Or.inl hx, m2 x hx⟩
        · exact Or.inr hx

theorem step_zone (s : Xma) (op : Op) : (step s op).zone = s.zone := by
  cases op with
  | calloc n => simp only [step]; split; · rename_i ha; exact calloc_zone ha
                · rfl
  | alloc n => simp only [step]; split; · rename_i ha; exact alloc_zone ha
               · rfl
  | realloc o n => simp only [step]; split; · rename_i ha; exact realloc_zone ha
                   · rfl
  | free o => simp only [step]; split; · rename_i ha; exact free_zone ha
              · rfl
  | write o d =>
    simp only [step]
    split
    · split
      · exact setData_zone _ _ _
      · rfl
    · rfl

theorem run_zone (s : Xma) (ops : List Op) : (run s ops).zone = s.zone := by
  induction ops generalizing s with
  | nil => rfl
  | cons op ops ih => rw [show run s (op :: ops) = run (step s op) ops from rfl, ih, step_zone]

end Hawk.Xma
