import HawkModel.StrFn
/-! helper lemmas for Props/C13.lean (model: HawkModel/StrFn.lean) -/
set_option linter.unusedSectionVars false
set_option linter.unusedVariables false
namespace Hawk.StrFn
variable {α : Type} [DecidableEq α]

/-! ### find -/

theorem isPrefixOf_nil_right (p : List α) : p.isPrefixOf [] = true ↔ p = [] := by
  cases p <;> simp [List.isPrefixOf]

theorem find_some (p : List α) : ∀ (s : List α) (i : Nat), find s p = some i →
    i ≤ s.length ∧ p <+: s.drop i ∧ ∀ j, j < i → ¬ p <+: s.drop j := by
  intro s
  induction s with
  | nil =>
    intro i h
    simp only [find] at h
    split at h
    · rename_i hp
      simp only [Option.some.injEq] at h; subst h
      have := (isPrefixOf_nil_right p).1 hp
      subst this
      simp
    · simp at h
  | cons c t ih =>
    intro i h
    simp only [find] at h
    split at h
    · rename_i hp
      simp only [Option.some.injEq] at h; subst h
      refine ⟨by simp, ?_, by simp⟩
      simpa using (List.isPrefixOf_iff_prefix.1 hp)
    · rename_i hp
      cases hf : find t p with
      | none => simp [hf] at h
      | some i' =>
        simp only [hf, Option.map_some, Option.some.injEq] at h
        subst h
        obtain ⟨h1, h2, h3⟩ := ih i' hf
        refine ⟨by simp; omega, by simpa using h2, ?_⟩
        intro j hj
        cases j with
        | zero =>
          intro hpre
          exact hp (List.isPrefixOf_iff_prefix.2 (by simpa using hpre))
        | succ j' =>
          simpa using h3 j' (by omega)

theorem find_none (p : List α) : ∀ (s : List α), find s p = none →
    ∀ j, j ≤ s.length → ¬ p <+: s.drop j := by
  intro s
  induction s with
  | nil =>
    intro h j hj hpre
    simp only [find] at h
    split at h
    · simp at h
    · rename_i hp
      have : j = 0 := by simpa using hj
      subst this
      apply hp
      exact List.isPrefixOf_iff_prefix.2 (by simpa using hpre)
  | cons c t ih =>
    intro h j hj hpre
    simp only [find] at h
    split at h
    · simp at h
    · rename_i hp
      cases hf : find t p with
      | some i' => simp [hf] at h
      | none =>
        cases j with
        | zero => exact hp (List.isPrefixOf_iff_prefix.2 (by simpa using hpre))
        | succ j' =>
          exact ih hf j' (by simpa using hj) (by simpa using hpre)


theorem occursAt_iff (p s : List α) (i : Nat) : occursAt p s i = true ↔ p <+: s.drop i := by
  simp [occursAt, List.isPrefixOf_iff_prefix]

theorem rfindFrom_some (s p : List α) : ∀ (k i : Nat), rfindFrom s p k = some i →
    i ≤ k ∧ p <+: s.drop i ∧ ∀ j, i < j → j ≤ k → ¬ p <+: s.drop j := by
  intro k
  induction k with
  | zero =>
    intro i h
    simp only [rfindFrom] at h
    split at h
    · rename_i ho
      simp only [Option.some.injEq] at h; subst h
      exact ⟨Nat.le_refl _, (occursAt_iff p s 0).1 ho, by intro j h1 h2; omega⟩
    · simp at h
  | succ k ih =>
    intro i h
    simp only [rfindFrom] at h
    split at h
    · rename_i ho
      simp only [Option.some.injEq] at h; subst h
      exact ⟨Nat.le_refl _, (occursAt_iff p s (k+1)).1 ho, by intro j h1 h2; omega⟩
    · rename_i ho
      obtain ⟨h1, h2, h3⟩ := ih i h
      refine ⟨by omega, h2, ?_⟩
      intro j hj1 hj2
      by_cases hjk : j = k + 1
      · subst hjk
        intro hpre; exact ho ((occursAt_iff p s (k+1)).2 hpre)
      · exact h3 j hj1 (by omega)

theorem rfindFrom_none (s p : List α) : ∀ (k : Nat), rfindFrom s p k = none →
    ∀ j, j ≤ k → ¬ p <+: s.drop j := by
  intro k
  induction k with
  | zero =>
    intro h j hj hpre
    simp only [rfindFrom] at h
    split at h
    · simp at h
    · rename_i ho
      have : j = 0 := by omega
      subst this
      exact ho ((occursAt_iff p s 0).2 hpre)
  | succ k ih =>
    intro h j hj hpre
    simp only [rfindFrom] at h
    split at h
    · simp at h
    · rename_i ho
      by_cases hjk : j = k + 1
      · subst hjk; exact ho ((occursAt_iff p s (k+1)).2 hpre)
      · exact ih h j (by omega) hpre

/-- `p` occurs in `s` at offset `i` (0-based) -/
def Occurs (p s : List α) (i : Nat) : Prop := i + p.length ≤ s.length ∧ p <+: s.drop i

theorem prefix_drop_bound {p s : List α} {i : Nat} (hi : i ≤ s.length) (h : p <+: s.drop i) :
    i + p.length ≤ s.length := by
  have := h.length_le
  simp only [List.length_drop] at this
  omega

theorem nonempty_prefix_drop_lt {p s : List α} {i : Nat} (hp : p ≠ []) (h : p <+: s.drop i) :
    i + p.length ≤ s.length := by
  have hl := h.length_le
  simp only [List.length_drop] at hl
  have : 0 < p.length := List.length_pos_iff.2 hp
  omega


theorem indexCore_index (s p : List α) (start : Option Int) :
    indexCore false s p start =
      if indexBoundary false s.length start ≤ 0 ∨ indexBoundary false s.length start > (s.length : Int) + 1 then 0
      else match find (s.drop ((indexBoundary false s.length start).toNat - 1)) p with
        | some i => (((indexBoundary false s.length start).toNat - 1 + i : Nat) : Int) + 1
        | none => 0 := rfl

theorem indexCore_rindex (s p : List α) (start : Option Int) :
    indexCore true s p start =
      if indexBoundary true s.length start ≤ 0 ∨ indexBoundary true s.length start > (s.length : Int) + 0 then 0
      else match rfind (s.take (indexBoundary true s.length start).toNat) p with
        | some i => (i : Int) + 1
        | none => 0 := rfl


/-- first position taken (1-based): the start clamped into [1, n+1] -/
def substrLo (n : Nat) (start : Int) : Int := min (max start 1) ((n : Int) + 1)
/-- one past the last position taken: lo + max(len,0), clamped to n+1 (no length: to the end) -/
def substrHi (n : Nat) (start : Int) : Option Int → Int
  | none => (n : Int) + 1
  | some l => min (substrLo n start + max l 0) ((n : Int) + 1)

theorem substrIndex_eq (n : Nat) (start : Int) : substrIndex n start = (substrLo n start - 1).toNat := by
  simp only [substrIndex, substrLo]
  split <;> split <;> omega

theorem substrCount_eq (n : Nat) (start : Int) (len : Option Int) :
    substrCount n (substrIndex n start) len = (substrHi n start len - substrLo n start).toNat := by
  rw [substrIndex_eq]
  cases len with
  | none => simp only [substrCount, substrHi, substrLo]; omega
  | some l =>
    simp only [substrCount, substrHi, substrLo]
    split <;> split <;> omega

theorem substr_bounds (n : Nat) (start : Int) (len : Option Int) :
    1 ≤ substrLo n start ∧ substrLo n start ≤ substrHi n start len ∧ substrHi n start len ≤ (n : Int) + 1 := by
  cases len <;> simp only [substrLo, substrHi] <;> omega

theorem piecesLoop_unfold {σ : Type} (step : σ → TokRes σ α) (μ : σ → Nat)
    (hdec : ∀ a t b, step a = (t, some b) → μ b < μ a) (a : σ) (k : Nat) :
    piecesLoop step μ hdec a k =
      match step a with
      | (tk, none) => if k = 0 ∧ tk = [] then [] else [tk]
      | (tk, some b) => tk :: piecesLoop step μ hdec b (k + 1) := by
  rw [piecesLoop]
  split <;> simp_all

/-- pieces joined with a separator -/
def joinWith (sep : List α) : List (List α) → List α
  | [] => []
  | [x] => x
  | x :: y :: r => x ++ sep ++ joinWith sep (y :: r)

theorem joinWith_eq_intercalate (sep : List α) (xs : List (List α)) :
    joinWith sep xs = List.intercalate sep xs := by
  induction xs with
  | nil => simp [joinWith, List.intercalate]
  | cons x r ih =>
    cases r with
    | nil => simp [joinWith, List.intercalate]
    | cons y r' =>
      simp only [joinWith, ih]
      simp [List.intercalate, List.intersperse]

theorem joinWith_cons_ne (sep x : List α) (r : List (List α)) (h : r ≠ []) :
    joinWith sep (x :: r) = x ++ sep ++ joinWith sep r := by
  cases r with
  | nil => exact absurd rfl h
  | cons y r' => rfl

theorem dropWhile_head_false (p : α → Bool) : ∀ (l : List α) (x : α) (t : List α),
    l.dropWhile p = x :: t → p x = false := by
  intro l
  induction l with
  | nil => intro x t h; simp at h
  | cons a r ih =>
    intro x t h
    simp only [List.dropWhile_cons] at h
    split at h
    · exact ih x t h
    · rename_i hp
      simp only [List.cons.injEq] at h
      rw [← h.1]; simpa using hp

theorem mem_takeWhile_true (p : α → Bool) : ∀ (l : List α) (x : α), x ∈ l.takeWhile p → p x = true := by
  intro l
  induction l with
  | nil => intro x h; simp at h
  | cons a r ih =>
    intro x h
    simp only [List.takeWhile_cons] at h
    split at h
    · rename_i hp
      rcases List.mem_cons.1 h with h | h
      · rw [h]; exact hp
      · exact ih x h
    · simp at h

theorem not_mem_takeWhile_ne (c : α) (l : List α) : c ∉ l.takeWhile (fun x => !([c].contains x)) := by
  intro h
  have := mem_takeWhile_true _ l c h
  simp at this

theorem delimMode_single (isSp : α → Bool) (blank c : α) (hc : c ≠ blank) :
    delimMode isSp blank [c] = .nospaces := by
  simp only [delimMode, delimScan]
  by_cases h : isSp c = true
  · simp [h, hc]
  · simp [h]

theorem tokChars_single (isSp : α → Bool) (blank c : α) (hc : c ≠ blank) (s : List α) :
    tokChars isSp blank [c] s = tokNoSpaces [c] s := by
  simp only [tokChars, delimMode_single isSp blank c hc]

/-- the field loop over the single-character tokeniser: pieces re-joined with the character give the
    text back, there is one piece more than separator characters, and no piece contains the separator -/
theorem piecesLoop_single {step : List α → TokRes (List α) α}
    (hdec : ∀ a t b, step a = (t, some b) → b.length < a.length) (c : α)
    (hstep : ∀ s, step s = tokNoSpaces [c] s) :
    ∀ (n : Nat) (s : List α) (k : Nat), s.length = n → (0 < k ∨ s ≠ []) →
      joinWith [c] (piecesLoop step List.length hdec s k) = s ∧
      (piecesLoop step List.length hdec s k).length = s.count c + 1 ∧
      ∀ t ∈ piecesLoop step List.length hdec s k, c ∉ t := by
  intro n
  induction n using Nat.strongRecOn with
  | _ n ih =>
    intro s k hn hk
    rw [piecesLoop_unfold, hstep]
    simp only [tokNoSpaces]
    have happ := List.takeWhile_append_dropWhile (p := fun x => !([c].contains x)) (l := s)
    have hfree := not_mem_takeWhile_ne c s
    generalize s.takeWhile (fun x => !([c].contains x)) = tk at *
    cases hd : s.dropWhile (fun x => !([c].contains x)) with
    | nil =>
      simp only
      rw [hd, List.append_nil] at happ
      subst happ
      have hne : ¬ (k = 0 ∧ tk = []) := by
        intro ⟨h1, h2⟩
        rcases hk with hk | hk
        · omega
        · exact hk h2
      rw [if_neg hne]
      refine ⟨by simp [joinWith], ?_, ?_⟩
      · simp [List.count_eq_zero.2 hfree]
      · intro t ht
        simp only [List.mem_singleton] at ht
        rw [ht]; exact hfree
    | cons x t =>
      simp only
      have hx : x = c := by
        have := dropWhile_head_false _ s x t hd
        simpa using this
      subst hx
      rw [hd] at happ
      have hlen : t.length < n := by
        rw [← hn, ← happ]; simp only [List.length_append, List.length_cons]; omega
      obtain ⟨h1, h2, h3⟩ := ih t.length hlen t (k + 1) rfl (Or.inl (by omega))
      have hne : piecesLoop step List.length hdec t (k + 1) ≠ [] := by
        intro h; rw [h] at h2; simp at h2
      refine ⟨?_, ?_, ?_⟩
      · rw [joinWith_cons_ne _ _ _ hne, h1]
        simpa using happ
      · rw [List.length_cons, h2, ← happ, List.count_append, List.count_cons_self,
          List.count_eq_zero.2 hfree]
        omega
      · intro u hu
        rcases List.mem_cons.1 hu with hu | hu
        · rw [hu]; exact hfree
        · exact h3 u hu

/-- The matches that sub/gsub replace, by the rule of the property: take the leftmost match at or after
    the cursor (what the engine reports from there); an empty match immediately after the previous taken
    match is not taken (the cursor moves one character on); after a taken match the cursor is its end, one
    character further after an empty one; stop after `limit` matches.  `pend` = end of the previous taken
    match, `cnt` = matches taken so far. -/
def matchSeq (m : Matcher α) (s : List α) (limit : Option Nat) (cur : Nat) (pend : Option Nat) (cnt : Nat) :
    List (Nat × Nat) :=
  if hc : cur ≤ s.length then
    match hm : (if belowLimit cnt limit then m.run s cur else none) with
    | none => []
    | some (p, l) =>
      if l = 0 ∧ pend = some p then matchSeq m s limit (cur + 1) pend cnt
      else if l = 0 then (p, l) :: matchSeq m s limit (p + 1) (some p) (cnt + 1)
      else (p, l) :: matchSeq m s limit (p + l) (some (p + l)) (cnt + 1)
  else []
termination_by s.length + 1 - cur
decreasing_by
  · omega
  · have hr : m.run s cur = some (p, l) := by
      split at hm
      · exact hm
      · simp at hm
    have := m.inside s cur p l hr
    omega
  · have hr : m.run s cur = some (p, l) := by
      split at hm
      · exact hm
      · simp at hm
    have := m.inside s cur p l hr
    omega

/-- the substituted text for a list of matches: text between matches copied, each match replaced by the
    expanded template; `from_` = where copying resumes -/
def render (bs amp : α) (s repl : List α) : List (Nat × Nat) → Nat → List α
  | [], from_ => s.drop from_
  | (p, l) :: r, from_ =>
    (s.drop from_).take (p - from_) ++ expand bs amp ((s.drop p).take l) repl ++ render bs amp s repl r (p + l)

theorem matchSeq_unfold (m : Matcher α) (s : List α) (limit : Option Nat) (cur : Nat) (pend : Option Nat) (cnt : Nat) :
    matchSeq m s limit cur pend cnt =
      if cur ≤ s.length then
        match (if belowLimit cnt limit then m.run s cur else none) with
        | none => []
        | some (p, l) =>
          if l = 0 ∧ pend = some p then matchSeq m s limit (cur + 1) pend cnt
          else if l = 0 then (p, l) :: matchSeq m s limit (p + 1) (some p) (cnt + 1)
          else (p, l) :: matchSeq m s limit (p + l) (some (p + l)) (cnt + 1)
      else [] := by
  rw [matchSeq]
  split
  · split <;> simp_all
  · rfl

theorem substLoop_unfold (m : Matcher α) (bs amp : α) (s repl : List α) (limit : Option Nat)
    (cur : Nat) (pend : Option Nat) (cnt : Nat) (out : List α) :
    substLoop m bs amp s repl limit cur pend cnt out =
      if cur ≤ s.length then
        match (if belowLimit cnt limit then m.run s cur else none) with
        | none => (out ++ s.drop cur, cnt)
        | some (p, l) =>
          if l = 0 ∧ pend = some p then
            substLoop m bs amp s repl limit (cur + 1) pend cnt (out ++ (s.drop cur).take 1)
          else if l = 0 then
            substLoop m bs amp s repl limit (p + 1) (some p) (cnt + 1)
              (out ++ (s.drop cur).take (p - cur) ++ expand bs amp ((s.drop p).take l) repl ++ (s.drop p).take 1)
          else
            substLoop m bs amp s repl limit (p + l) (some (p + l)) (cnt + 1)
              (out ++ (s.drop cur).take (p - cur) ++ expand bs amp ((s.drop p).take l) repl)
      else (out, cnt) := by
  rw [substLoop]
  split
  · split <;> simp_all
  · rfl


theorem run_of_guard {m : Matcher α} {s : List α} {b : Bool} {cur p l : Nat}
    (h : (if b then m.run s cur else none) = some (p, l)) : cur ≤ p ∧ p + l ≤ s.length := by
  split at h
  · exact m.inside s cur p l h
  · simp at h

theorem matchSeq_ge (m : Matcher α) (s : List α) (limit : Option Nat) :
    ∀ (k cur : Nat) (pend : Option Nat) (cnt : Nat), s.length + 1 - cur = k →
      ∀ x ∈ matchSeq m s limit cur pend cnt, cur ≤ x.1 := by
  intro k
  induction k using Nat.strongRecOn with
  | _ k ih =>
    intro cur pend cnt hk x hx
    rw [matchSeq_unfold] at hx
    by_cases hc : cur ≤ s.length
    · rw [if_pos hc] at hx
      cases hm : (if belowLimit cnt limit then m.run s cur else none) with
      | none => rw [hm] at hx; simp at hx
      | some pl =>
        obtain ⟨p, l⟩ := pl
        rw [hm] at hx
        have hb := run_of_guard hm
        simp only at hx
        by_cases hskip : l = 0 ∧ pend = some p
        · rw [if_pos hskip] at hx
          have := ih (s.length + 1 - (cur + 1)) (by omega) (cur + 1) pend cnt rfl x hx
          omega
        · rw [if_neg hskip] at hx
          by_cases hl : l = 0
          · rw [if_pos hl] at hx
            rcases List.mem_cons.1 hx with hx | hx
            · rw [hx]; exact hb.1
            · have := ih (s.length + 1 - (p + 1)) (by omega) (p + 1) (some p) (cnt + 1) rfl x hx
              omega
          · rw [if_neg hl] at hx
            rcases List.mem_cons.1 hx with hx | hx
            · rw [hx]; exact hb.1
            · have := ih (s.length + 1 - (p + l)) (by omega) (p + l) (some (p + l)) (cnt + 1) rfl x hx
              omega
    · rw [if_neg hc] at hx; simp at hx

theorem take_succ_split (k : Nat) (L : List α) : L.take (k + 1) = L.take 1 ++ (L.drop 1).take k := by
  cases L with
  | nil => simp
  | cons a r => simp

/-- copying may resume one character later if no match starts at `from_` -/
theorem render_shift (bs amp : α) (s repl : List α) (ms : List (Nat × Nat)) (from_ : Nat)
    (h : ∀ x ∈ ms, from_ + 1 ≤ x.1) :
    render bs amp s repl ms from_ = (s.drop from_).take 1 ++ render bs amp s repl ms (from_ + 1) := by
  cases ms with
  | nil =>
    simp only [render]
    have := List.take_append_drop 1 (s.drop from_)
    rw [List.drop_drop] at this
    exact this.symm
  | cons x r =>
    obtain ⟨p, l⟩ := x
    have hp : from_ + 1 ≤ p := h (p, l) (by simp)
    simp only [render]
    have e : p - from_ = (p - (from_ + 1)) + 1 := by omega
    rw [e, take_succ_split, List.drop_drop]
    simp [List.append_assoc]

theorem substLoop_render (m : Matcher α) (bs amp : α) (s repl : List α) (limit : Option Nat) :
    ∀ (k cur : Nat) (pend : Option Nat) (cnt : Nat) (out : List α), s.length + 1 - cur = k →
      substLoop m bs amp s repl limit cur pend cnt out =
        (out ++ render bs amp s repl (matchSeq m s limit cur pend cnt) cur,
         cnt + (matchSeq m s limit cur pend cnt).length) := by
  intro k
  induction k using Nat.strongRecOn with
  | _ k ih =>
    intro cur pend cnt out hk
    rw [substLoop_unfold, matchSeq_unfold]
    by_cases hc : cur ≤ s.length
    · rw [if_pos hc, if_pos hc]
      cases hm : (if belowLimit cnt limit then m.run s cur else none) with
      | none => simp [render]
      | some pl =>
        obtain ⟨p, l⟩ := pl
        have hb := run_of_guard hm
        simp only
        by_cases hskip : l = 0 ∧ pend = some p
        · rw [if_pos hskip, if_pos hskip]
          rw [ih (s.length + 1 - (cur + 1)) (by omega) (cur + 1) pend cnt _ rfl]
          rw [render_shift bs amp s repl _ cur (matchSeq_ge m s limit _ (cur + 1) pend cnt rfl)]
          simp [List.append_assoc]
        · rw [if_neg hskip, if_neg hskip]
          by_cases hl : l = 0
          · rw [if_pos hl, if_pos hl]
            rw [ih (s.length + 1 - (p + 1)) (by omega) (p + 1) (some p) (cnt + 1) _ rfl]
            subst hl
            simp only [render, List.length_cons, Nat.add_zero]
            rw [render_shift bs amp s repl _ p (matchSeq_ge m s limit _ (p + 1) (some p) (cnt + 1) rfl)]
            simp [List.append_assoc]
            omega
          · rw [if_neg hl, if_neg hl]
            rw [ih (s.length + 1 - (p + l)) (by omega) (p + l) (some (p + l)) (cnt + 1) _ rfl]
            simp only [render, List.length_cons]
            simp [List.append_assoc]
            omega
    · rw [if_neg hc, if_neg hc]
      simp only [render, List.length_nil, Nat.add_zero]
      rw [List.drop_of_length_le (by omega)]
      simp


/-- matches lie inside the subject, run left to right and do not overlap: each starts at or after `lo`,
    the next one at or after its end (strictly after its start when it is empty) -/
def NonOverlapping (n : Nat) : Nat → List (Nat × Nat) → Prop
  | _, [] => True
  | lo, (p, l) :: r => lo ≤ p ∧ p + l ≤ n ∧ NonOverlapping n (if l = 0 then p + 1 else p + l) r

/-- no taken match is an empty match sitting at the end of the previous taken match -/
def NoAdjacentEmpty : Option Nat → List (Nat × Nat) → Prop
  | _, [] => True
  | pend, (p, l) :: r => ¬ (l = 0 ∧ pend = some p) ∧ NoAdjacentEmpty (some (p + l)) r

/-- every taken match is what the engine reports from some cursor between `lo` and the match -/
def FromEngine (m : Matcher α) (s : List α) : Nat → List (Nat × Nat) → Prop
  | _, [] => True
  | lo, (p, l) :: r => (∃ c, lo ≤ c ∧ c ≤ p ∧ m.run s c = some (p, l)) ∧ FromEngine m s (p + l) r

theorem nonOverlapping_mono (n : Nat) : ∀ (ms : List (Nat × Nat)) (a b : Nat), a ≤ b →
    NonOverlapping n b ms → NonOverlapping n a ms := by
  intro ms a b hab h
  cases ms with
  | nil => trivial
  | cons x r =>
    obtain ⟨p, l⟩ := x
    simp only [NonOverlapping] at *
    exact ⟨by omega, h.2⟩

theorem fromEngine_mono (m : Matcher α) (s : List α) : ∀ (ms : List (Nat × Nat)) (a b : Nat), a ≤ b →
    FromEngine m s b ms → FromEngine m s a ms := by
  intro ms a b hab h
  cases ms with
  | nil => trivial
  | cons x r =>
    obtain ⟨p, l⟩ := x
    simp only [FromEngine] at *
    obtain ⟨⟨c, h1, h2, h3⟩, h4⟩ := h
    exact ⟨⟨c, by omega, h2, h3⟩, h4⟩

theorem guard_run {m : Matcher α} {s : List α} {b : Bool} {cur p l : Nat}
    (h : (if b then m.run s cur else none) = some (p, l)) : m.run s cur = some (p, l) ∧ b = true := by
  split at h
  · rename_i hb; exact ⟨h, hb⟩
  · simp at h

theorem matchSeq_props (m : Matcher α) (s : List α) (limit : Option Nat) :
    ∀ (k cur : Nat) (pend : Option Nat) (cnt : Nat), s.length + 1 - cur = k →
      NonOverlapping s.length cur (matchSeq m s limit cur pend cnt) ∧
      NoAdjacentEmpty pend (matchSeq m s limit cur pend cnt) ∧
      FromEngine m s cur (matchSeq m s limit cur pend cnt) ∧
      (∀ lim, limit = some lim → cnt + (matchSeq m s limit cur pend cnt).length ≤ max cnt lim) := by
  intro k
  induction k using Nat.strongRecOn with
  | _ k ih =>
    intro cur pend cnt hk
    rw [matchSeq_unfold]
    by_cases hc : cur ≤ s.length
    · rw [if_pos hc]
      cases hm : (if belowLimit cnt limit then m.run s cur else none) with
      | none => simp [NonOverlapping, NoAdjacentEmpty, FromEngine]; intro lim _; omega
      | some pl =>
        obtain ⟨p, l⟩ := pl
        have hb := run_of_guard hm
        have hr := guard_run hm
        simp only
        by_cases hskip : l = 0 ∧ pend = some p
        · rw [if_pos hskip]
          obtain ⟨h1, h2, h3, h4⟩ := ih (s.length + 1 - (cur + 1)) (by omega) (cur + 1) pend cnt rfl
          exact ⟨nonOverlapping_mono _ _ _ _ (by omega) h1, h2, fromEngine_mono m s _ _ _ (by omega) h3, h4⟩
        · rw [if_neg hskip]
          have hlim : ∀ lim, limit = some lim → cnt < lim := by
            intro lim hl
            have := hr.2
            rw [hl] at this
            simpa [belowLimit] using this
          by_cases hl : l = 0
          · rw [if_pos hl]
            obtain ⟨h1, h2, h3, h4⟩ := ih (s.length + 1 - (p + 1)) (by omega) (p + 1) (some p) (cnt + 1) rfl
            subst hl
            refine ⟨?_, ?_, ?_, ?_⟩
            · simp only [NonOverlapping, if_true]; exact ⟨hb.1, hb.2, h1⟩
            · simp only [NoAdjacentEmpty, Nat.add_zero]; exact ⟨by simpa using hskip, h2⟩
            · simp only [FromEngine, Nat.add_zero]
              exact ⟨⟨cur, Nat.le_refl _, hb.1, hr.1⟩, fromEngine_mono m s _ _ _ (by omega) h3⟩
            · intro lim hlm
              have := h4 lim hlm
              have := hlim lim hlm
              simp only [List.length_cons]; omega
          · rw [if_neg hl]
            obtain ⟨h1, h2, h3, h4⟩ := ih (s.length + 1 - (p + l)) (by omega) (p + l) (some (p + l)) (cnt + 1) rfl
            refine ⟨?_, ?_, ?_, ?_⟩
            · simp only [NonOverlapping, if_neg hl]; exact ⟨hb.1, hb.2, h1⟩
            · simp only [NoAdjacentEmpty]; exact ⟨hskip, h2⟩
            · simp only [FromEngine]
              exact ⟨⟨cur, Nat.le_refl _, hb.1, hr.1⟩, h3⟩
            · intro lim hlm
              have := h4 lim hlm
              have := hlim lim hlm
              simp only [List.length_cons]; omega
    · rw [if_neg hc]
      simp [NonOverlapping, NoAdjacentEmpty, FromEngine]; intro lim _; omega

theorem find_single_none (c : α) : ∀ L : List α, find L [c] = none → c ∉ L := by
  intro L
  induction L with
  | nil => intro _; simp
  | cons a t ih =>
    intro h
    simp only [find, List.isPrefixOf, Bool.and_eq_true, beq_iff_eq] at h
    split at h
    · simp at h
    · rename_i hne
      cases hf : find t [c] with
      | some i => simp [hf] at h
      | none =>
        have := ih hf
        intro hm
        rcases List.mem_cons.1 hm with hm | hm
        · exact hne ⟨hm, trivial⟩
        · exact this hm

theorem find_single_some (c : α) : ∀ (L : List α) (i : Nat), find L [c] = some i →
    L = L.take i ++ c :: L.drop (i + 1) ∧ c ∉ L.take i := by
  intro L
  induction L with
  | nil => intro i h; simp [find, List.isPrefixOf] at h
  | cons a t ih =>
    intro i h
    simp only [find] at h
    split at h
    · rename_i hp
      simp only [Option.some.injEq] at h; subst h
      have : c = a := by cases t <;> simpa [List.isPrefixOf] using hp
      subst this; simp
    · rename_i hne
      cases hf : find t [c] with
      | none => simp [hf] at h
      | some i' =>
        simp only [hf, Option.map_some, Option.some.injEq] at h; subst h
        obtain ⟨h1, h2⟩ := ih i' hf
        have hca : c ≠ a := by
          intro e; apply hne; cases t <;> simp [List.isPrefixOf, e]
        refine ⟨?_, ?_⟩
        · simp only [List.take_succ_cons, List.drop_succ_cons, List.cons_append, List.cons.injEq, true_and]
          exact h1
        · simp only [List.take_succ_cons, List.mem_cons, not_or]
          exact ⟨hca, h2⟩

/-- the engine for the one-character pattern `c`: first occurrence of `c` at or after the start offset -/
def charMatcher (c : α) : Matcher α where
  run s k := (find (s.drop k) [c]).map fun i => (k + i, 1)
  inside := by
    intro s k p l h
    cases hf : find (s.drop k) [c] with
    | none => simp [hf] at h
    | some i =>
      simp only [hf, Option.map_some, Option.some.injEq, Prod.mk.injEq] at h
      obtain ⟨h1, h2, _⟩ := find_some [c] _ i hf
      have := nonempty_prefix_drop_lt (by simp) h2
      simp only [List.length_drop, List.length_singleton] at this
      omega

theorem charMatcher_run (c : α) (s : List α) (k : Nat) :
    (charMatcher c).run s k = (find (s.drop k) [c]).map fun i => (k + i, 1) := rfl

theorem flatMap_no_c (c : α) (g : α → List α) (L : List α) (h : c ∉ L) :
    L.flatMap (fun x => if x = c then g x else [x]) = L ∧ L.count c = 0 := by
  induction L with
  | nil => simp
  | cons a t ih =>
    have ha : a ≠ c := fun e => h (by simp [e])
    have ht : c ∉ t := fun e => h (by simp [e])
    obtain ⟨h1, h2⟩ := ih ht
    refine ⟨?_, ?_⟩
    · simp only [List.flatMap_cons, ha, if_false, List.singleton_append, h1]
    · rw [List.count_cons, h2]; simp [ha]

theorem substLoop_char (c bs amp : α) (s repl : List α) :
    ∀ (k cur : Nat) (pend : Option Nat) (cnt : Nat) (out : List α), s.length + 1 - cur = k → cur ≤ s.length →
      substLoop (charMatcher c) bs amp s repl none cur pend cnt out =
        (out ++ (s.drop cur).flatMap (fun x => if x = c then expand bs amp [c] repl else [x]),
         cnt + (s.drop cur).count c) := by
  intro k
  induction k using Nat.strongRecOn with
  | _ k ih =>
    intro cur pend cnt out hk hc
    rw [substLoop_unfold, if_pos hc]
    simp only [belowLimit, if_true]
    rw [charMatcher_run]
    cases hf : find (s.drop cur) [c] with
    | none =>
      simp only [Option.map_none]
      obtain ⟨h1, h2⟩ := flatMap_no_c c (fun _ => expand bs amp [c] repl) _ (find_single_none c _ hf)
      rw [h1, h2]; simp
    | some i =>
      simp only [Option.map_some]
      obtain ⟨h1, h2⟩ := find_single_some c _ i hf
      have hin := (charMatcher c).inside s cur (cur + i) 1 (by rw [charMatcher_run, hf]; rfl)
      rw [if_neg (by omega), if_neg (by omega)]
      rw [ih (s.length + 1 - (cur + i + 1)) (by omega) (cur + i + 1) _ _ _ rfl (by omega)]
      obtain ⟨g1, g2⟩ := flatMap_no_c c (fun _ => expand bs amp [c] repl) _ h2
      have hd1 : s.drop (cur + i) = c :: s.drop (cur + i + 1) := by
        have : s.drop (cur + i) = (s.drop cur).drop i := by rw [List.drop_drop]
        rw [this]
        conv => lhs; rw [h1]
        rw [List.drop_append_of_le_length (by simp only [List.length_take, List.length_drop]; omega)]
        have : (List.take i (List.drop cur s)).length = i := by
          simp only [List.length_take, List.length_drop]; omega
        rw [List.drop_of_length_le (by omega)]
        simp [List.drop_drop, Nat.add_assoc]
      have hd2 : (s.drop cur).drop (i + 1) = s.drop (cur + i + 1) := by
        rw [List.drop_drop, Nat.add_assoc]
      have e1 : (s.drop cur).flatMap (fun x => if x = c then expand bs amp [c] repl else [x]) =
          (s.drop cur).take i ++ expand bs amp [c] repl ++
            (s.drop (cur + i + 1)).flatMap (fun x => if x = c then expand bs amp [c] repl else [x]) := by
        conv => lhs; rw [h1]
        rw [List.flatMap_append, g1, List.flatMap_cons, hd2]
        simp [List.append_assoc]
      have e2 : (s.drop cur).count c = 1 + (s.drop (cur + i + 1)).count c := by
        conv => lhs; rw [h1]
        rw [List.count_append, g2, List.count_cons_self, hd2]; omega
      rw [e1, e2, hd1]
      have : cur + i - cur = i := by omega
      rw [this]
      simp [List.append_assoc]
      omega

theorem filter_takeWhile_true (p : α → Bool) (l : List α) :
    (l.takeWhile p).filter (fun x => !p x) = [] := by
  rw [List.filter_eq_nil_iff]
  intro x hx
  simp [mem_takeWhile_true p l x hx]

theorem filter_takeWhile_not (p : α → Bool) (l : List α) :
    (l.takeWhile (fun x => !p x)).filter (fun x => !p x) = l.takeWhile (fun x => !p x) := by
  rw [List.filter_eq_self]
  intro x hx
  exact mem_takeWhile_true _ l x hx

theorem delimMode_blank (isSp : α → Bool) (blank : α) (hb : isSp blank = true) :
    delimMode isSp blank [blank] = .spaces := by
  simp [delimMode, delimScan, hb]

theorem piecesLoop_blank {step : List α → TokRes (List α) α} (isSp : α → Bool)
    (hdec : ∀ a t b, step a = (t, some b) → b.length < a.length)
    (hstep : ∀ s, step s = tokSpaces isSp s) :
    ∀ (n : Nat) (s : List α) (k : Nat), s.length = n →
      (k = 0 ∨ ∃ a t, s = a :: t ∧ isSp a = false) →
      (∀ t ∈ piecesLoop step List.length hdec s k, t ≠ [] ∧ ∀ x ∈ t, isSp x = false) ∧
      (piecesLoop step List.length hdec s k).flatten = s.filter (fun x => !isSp x) := by
  intro n
  induction n using Nat.strongRecOn with
  | _ n ih =>
    intro s k hn hk
    rw [piecesLoop_unfold, hstep]
    simp only [tokSpaces]
    -- decomposition of s
    have a1 := List.takeWhile_append_dropWhile (p := isSp) (l := s)
    generalize hp1 : s.dropWhile isSp = p1 at *
    have a2 := List.takeWhile_append_dropWhile (p := fun c => !isSp c) (l := p1)
    have htk : ∀ x ∈ p1.takeWhile (fun c => !isSp c), isSp x = false := by
      intro x hx; simpa using mem_takeWhile_true _ p1 x hx
    have f2 := filter_takeWhile_not isSp p1
    generalize htkdef : p1.takeWhile (fun c => !isSp c) = tk at *
    generalize hd : p1.dropWhile (fun c => !isSp c) = d at *
    have a3 := List.takeWhile_append_dropWhile (p := isSp) (l := d)
    have f1 := filter_takeWhile_true isSp s
    have f3 := filter_takeWhile_true isSp d
    generalize hp2 : d.dropWhile isSp = p2 at *
    have hfilter : s.filter (fun x => !isSp x) = tk ++ p2.filter (fun x => !isSp x) := by
      rw [← a1, ← a2, ← a3]
      simp only [List.filter_append, f1, f2, f3, List.nil_append]
    have hlen : p2.length ≤ s.length := by
      rw [← a1, ← a2, ← a3]; simp only [List.length_append]; omega
    -- the token is non-empty whenever something follows or a field was already produced
    have htk_ne : (p2 ≠ [] ∨ k ≠ 0) → tk ≠ [] := by
      intro hor htke
      subst htke
      -- tk = [] means p1 is empty or starts with a space; p1 = dropWhile isSp s cannot start with a space
      have hp1e : p1 = [] := by
        cases hp1c : p1 with
        | nil => rfl
        | cons a r =>
          have h1 : isSp a = false := dropWhile_head_false isSp s a r (by rw [hp1, hp1c])
          rw [hp1c] at htkdef
          simp [h1] at htkdef
      subst hp1e
      simp at hd; subst hd
      simp at hp2; subst hp2
      rcases hor with h | h
      · exact h rfl
      · rcases hk with hk | ⟨a, t, hs, ha⟩
        · exact h hk
        · subst hs
          simp [ha] at hp1
    unfold nextOrNull
    by_cases hp2e : p2 = []
    · rw [if_pos hp2e]
      simp only
      subst hp2e
      simp only [List.filter_nil, List.append_nil] at hfilter
      by_cases hz : k = 0 ∧ tk = []
      · rw [if_pos hz]
        refine ⟨by simp, ?_⟩
        rw [hfilter, hz.2]; simp
      · rw [if_neg hz]
        have : tk ≠ [] := by
          by_cases hk0 : k = 0
          · intro e; exact hz ⟨hk0, e⟩
          · exact htk_ne (Or.inr hk0)
        refine ⟨?_, by simp [hfilter]⟩
        intro t ht
        simp only [List.mem_singleton] at ht
        subst ht
        exact ⟨this, htk⟩
    · rw [if_neg hp2e]
      simp only
      have hne := htk_ne (Or.inl hp2e)
      have hlt : p2.length < n := by
        have : 0 < tk.length := List.length_pos_iff.2 hne
        rw [← hn, ← a1, ← a2, ← a3]; simp only [List.length_append]; omega
      have hinv : ∃ a t, p2 = a :: t ∧ isSp a = false := by
        cases hp2c : p2 with
        | nil => exact absurd hp2c hp2e
        | cons a r => exact ⟨a, r, rfl, dropWhile_head_false isSp d a r (by rw [hp2, hp2c])⟩
      obtain ⟨g1, g2⟩ := ih p2.length hlt p2 (k + 1) rfl (Or.inr hinv)
      refine ⟨?_, ?_⟩
      · intro t ht
        rcases List.mem_cons.1 ht with ht | ht
        · subst ht; exact ⟨hne, htk⟩
        · exact g1 t ht
      · rw [List.flatten_cons, g2, hfilter]

/-- ASCII-only case maps on bytes (what hawk_to_bch_lower/upper do in a UTF-8 locale) -/
def asciiLower (b : UInt8) : UInt8 := if 65 ≤ b.toNat ∧ b.toNat ≤ 90 then UInt8.ofNat (b.toNat + 32) else b
def asciiUpper (b : UInt8) : UInt8 := if 97 ≤ b.toNat ∧ b.toNat ≤ 122 then UInt8.ofNat (b.toNat - 32) else b

theorem asciiLower_idem (b : UInt8) : asciiLower (asciiLower b) = asciiLower b := by
  unfold asciiLower
  by_cases h : 65 ≤ b.toNat ∧ b.toNat ≤ 90
  · have e : (UInt8.ofNat (b.toNat + 32)).toNat = b.toNat + 32 := by
      simp only [UInt8.toNat_ofNat']; omega
    rw [if_pos h, if_neg (by rw [e]; omega)]
  · rw [if_neg h, if_neg h]

theorem asciiUpper_idem (b : UInt8) : asciiUpper (asciiUpper b) = asciiUpper b := by
  unfold asciiUpper
  by_cases h : 97 ≤ b.toNat ∧ b.toNat ≤ 122
  · have e : (UInt8.ofNat (b.toNat - 32)).toNat = b.toNat - 32 := by
      simp only [UInt8.toNat_ofNat']; omega
    rw [if_pos h, if_neg (by rw [e]; omega)]
  · rw [if_neg h, if_neg h]

theorem compactAux_filter (isSp : α → Bool) : ∀ (l : List α) (st fbs : Bool),
    (compactAux isSp st fbs l).1.filter (fun x => !isSp x) = l.filter (fun x => !isSp x) := by
  intro l
  induction l with
  | nil => intro st fbs; cases st <;> simp [compactAux]
  | cons c r ih =>
    intro st fbs
    cases st with
    | false =>
      simp only [compactAux]
      by_cases hc : isSp c = true
      · simp [hc, ih]
      · have hc' : isSp c = false := by simpa using hc
        simp [hc', ih]
    | true =>
      simp only [compactAux]
      by_cases hc : isSp c = true
      · cases fbs <;> simp [hc, ih]
      · have hc' : isSp c = false := by simpa using hc
        simp [hc', ih]

/-- when the machine ends with followed_by_space set, the last character written is that space (or nothing
    was written and the flag was already set on entry); state 0 is only ever entered with the flag clear -/
theorem compactAux_flag (isSp : α → Bool) : ∀ (l : List α) (st fbs : Bool), (st = false → fbs = false) →
    (compactAux isSp st fbs l).2 = true →
      ((compactAux isSp st fbs l).1 = [] ∧ fbs = true) ∨
      ∃ o c, (compactAux isSp st fbs l).1 = o ++ [c] ∧ isSp c = true := by
  intro l
  induction l with
  | nil => intro st fbs _ h; cases st <;> simp_all [compactAux]
  | cons c r ih =>
    intro st fbs hinv h
    cases st with
    | false =>
      have hf : fbs = false := hinv rfl
      subst hf
      simp only [compactAux] at h ⊢
      by_cases hc : isSp c = true
      · simp only [hc, if_true] at h ⊢
        exact ih false false (fun _ => rfl) h
      · have hc' : isSp c = false := by simpa using hc
        simp only [hc', Bool.false_eq_true, if_false] at h ⊢
        right
        rcases ih true false (by simp) h with ⟨_, h2⟩ | ⟨o, c', h1, h2⟩
        · simp at h2
        · exact ⟨c :: o, c', by rw [h1]; rfl, h2⟩
    | true =>
      simp only [compactAux] at h ⊢
      by_cases hc : isSp c = true
      · cases fbs with
        | true =>
          simp only [hc, if_true] at h ⊢
          rcases ih true true (by simp) h with ⟨h1, _⟩ | ⟨o, c', h1, h2⟩
          · left; exact ⟨h1, trivial⟩
          · right; exact ⟨o, c', h1, h2⟩
        | false =>
          simp only [hc, if_true, Bool.false_eq_true, if_false] at h ⊢
          right
          rcases ih true true (by simp) h with ⟨h1, _⟩ | ⟨o, c', h1, h2⟩
          · exact ⟨[], c, by rw [h1]; rfl, hc⟩
          · exact ⟨c :: o, c', by rw [h1]; rfl, h2⟩
      · have hc' : isSp c = false := by simpa using hc
        simp only [hc', Bool.false_eq_true, if_false] at h ⊢
        right
        rcases ih true false (by simp) h with ⟨_, h2⟩ | ⟨o, c', h1, h2⟩
        · simp at h2
        · exact ⟨c :: o, c', by rw [h1]; rfl, h2⟩

theorem trimRight_append (isSp : α → Bool) (l : List α) :
    ∃ b, l = trimRight isSp l ++ b ∧ ∀ x ∈ b, isSp x = true := by
  unfold trimRight
  refine ⟨(l.reverse.takeWhile isSp).reverse, ?_, ?_⟩
  · have := List.takeWhile_append_dropWhile (p := isSp) (l := l.reverse)
    have h2 := congrArg List.reverse this
    simp only [List.reverse_append, List.reverse_reverse] at h2
    exact h2.symm
  · intro x hx
    exact mem_takeWhile_true isSp l.reverse x (by simpa using hx)

theorem trimRight_last (isSp : α → Bool) (l : List α) :
    ∀ x, (trimRight isSp l).getLast? = some x → isSp x = false := by
  intro x hx
  unfold trimRight at hx
  rw [List.getLast?_reverse] at hx
  cases hd : l.reverse.dropWhile isSp with
  | nil => rw [hd] at hx; simp at hx
  | cons a r =>
    rw [hd] at hx
    simp only [List.head?_cons, Option.some.injEq] at hx
    subst hx
    exact dropWhile_head_false isSp l.reverse a r hd

/-- a small concrete environment for non-vacuity examples: Latin-1 as the "codec", no regex ever matches -/
def toyEnv : Env where
  enc := fun s => s.map fun c => UInt8.ofNat c.toNat
  dec := fun b => b.map fun x => Char.ofNat x.toNat
  fmtFlt := fun _ _ => []
  compile := fun _ => ⟨⟨fun _ _ => none, by intro s k p l h; simp at h⟩, ⟨fun _ _ => none, by intro s k p l h; simp at h⟩⟩
  lowerC := id
  upperC := id
  lowerB := asciiLower
  upperB := asciiUpper
  spaceC := fun c => c == ' '
  spaceB := fun b => b == 32

end Hawk.StrFn
