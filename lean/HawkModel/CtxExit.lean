import HawkModel.CtxLemmas
/-! exit level and error number along a body: what a failed call leaves behind (C09) -/
namespace Hawk.Ctx

/-- error number and exit level -/
def Ctx.ee (c : Ctx) : Err × Nat := (c.err, c.exitLevel)

@[simp] theorem ee_refup (c : Ctx) (v : Val) : (c.refup v).ee = c.ee := rfl
@[simp] theorem ee_refdown (c : Ctx) (v : Val) : (c.refdown v).ee = c.ee := rfl
@[simp] theorem ee_alloc (c : Ctx) (d : Data) : (c.alloc d).1.ee = c.ee := rfl
@[simp] theorem ee_push (c : Ctx) (s : Slot) : (c.push s).ee = c.ee := rfl
@[simp] theorem ee_setSlot (c : Ctx) (i : Nat) (v : Val) : (c.setSlot i v).ee = c.ee := by
  unfold Ctx.setSlot; split <;> rfl
@[simp] theorem ee_setRaw (c : Ctx) (i n : Nat) : (c.setRaw i n).ee = c.ee := by
  unfold Ctx.setRaw; split <;> rfl
@[simp] theorem ee_evalOwned (c : Ctx) (e : Expr) : (evalOwned c e).1.ee = c.ee := by
  cases e <;> simp [evalOwned]
@[simp] theorem ee_assign (c : Ctx) (i : Nat) (v : Val) : (c.assign i v).ee = c.ee := by
  unfold Ctx.assign; split <;> simp
@[simp] theorem ee_pushNils (c : Ctx) (n : Nat) : (pushNils c n).ee = c.ee := by
  induction n generalizing c with
  | zero => rfl
  | succ n ih => simp [pushNils, ih]
@[simp] theorem ee_pushArgsFromExprs (c : Ctx) (es : List Expr) : (pushArgsFromExprs c es).ee = c.ee := by
  induction es generalizing c with
  | nil => rfl
  | cons e es ih => simp [pushArgsFromExprs, ih]
@[simp] theorem ee_pushArgsFromVals (c : Ctx) (vs : List Val) : (pushArgsFromVals c vs).ee = c.ee := by
  induction vs generalizing c with
  | nil => rfl
  | cons e es ih => simp [pushArgsFromVals, ih]
@[simp] theorem ee_pushPrologue (c : Ctx) : (pushPrologue c).ee = c.ee := by simp [pushPrologue]
@[simp] theorem ee_enterFrame (c : Ctx) (t n : Nat) : (enterFrame c t n).ee = c.ee := by
  unfold enterFrame; simp; rfl
@[simp] theorem ee_enterCall (c : Ctx) (f : Fun) (args : List Expr) : (enterCall c f args).ee = c.ee := by
  unfold enterCall; simp
@[simp] theorem ee_popVals (c : Ctx) (n : Nat) : (popVals c n).ee = c.ee := by
  induction n generalizing c with
  | zero => rfl
  | succ n ih => simp only [popVals, ih]; rfl
@[simp] theorem ee_refdownArgs (c : Ctx) (n k : Nat) : (refdownArgs c n k).ee = c.ee := by
  induction k generalizing c with
  | zero => rfl
  | succ k ih => simp [refdownArgs, ih]

theorem err_of_ee {c c' : Ctx} (h : c'.ee = c.ee) : c'.err = c.err := congrArg Prod.fst h
theorem xl_of_ee {c c' : Ctx} (h : c'.ee = c.ee) : c'.exitLevel = c.exitLevel := congrArg Prod.snd h

theorem ee_popFrame (c : Ctx) :
    (popFrame c).err = c.err ∧ (popFrame c).exitLevel = if c.exitLevel = xlFunction then xlNone else c.exitLevel :=
  ⟨rfl, rfl⟩

/-- what `leaveFrame` does to error number, exit level and result -/
theorem leaveFrame_ee (c : Ctx) (ok api : Bool) :
    (leaveFrame c ok api).1.err = c.err ∧
    (leaveFrame c ok api).1.exitLevel = (if c.exitLevel = xlFunction then xlNone else c.exitLevel) ∧
    ((leaveFrame c ok api).2.1.isSome = ok) ∧
    ((leaveFrame c ok api).2.2.isSome = (!ok && api && (c.err == .enoerr))) := by
  unfold leaveFrame
  simp only
  have h0 : (refdownArgs c c.nargs c.nargs).ee = c.ee := by simp
  split
  · next hok =>
    have h1 : ((refdownArgs c c.nargs c.nargs).setSlot (refdownArgs c c.nargs c.nargs).retIdx Val.nil).ee = c.ee := by simp
    refine ⟨?_, ?_, by simp [hok], by simp [hok]⟩
    · rw [(ee_popFrame _).1]; exact err_of_ee h1
    · rw [(ee_popFrame _).2, xl_of_ee h1]
  · next hok =>
    have he : (refdownArgs c c.nargs c.nargs).err = c.err := err_of_ee h0
    split
    · next hc =>
      refine ⟨?_, ?_, by simp [hok], by simp [hok, hc.1, ← he, hc.2]⟩
      · rw [(ee_popFrame _).1]; exact err_of_ee (by simp)
      · rw [(ee_popFrame _).2]
        have : ((((refdownArgs c c.nargs c.nargs).refup ((refdownArgs c c.nargs c.nargs).slot (refdownArgs c c.nargs c.nargs).retIdx)).refdown
            ((refdownArgs c c.nargs c.nargs).slot (refdownArgs c c.nargs c.nargs).retIdx)).setSlot
            ((refdownArgs c c.nargs c.nargs).refup ((refdownArgs c c.nargs c.nargs).slot (refdownArgs c c.nargs c.nargs).retIdx)).retIdx Val.nil).ee = c.ee := by simp
        rw [xl_of_ee this]
    · next hc =>
      refine ⟨?_, ?_, by simp [hok], ?_⟩
      · rw [(ee_popFrame _).1]; exact err_of_ee (by simp)
      · rw [(ee_popFrame _).2]
        have : (((refdownArgs c c.nargs c.nargs).refdown
            ((refdownArgs c c.nargs c.nargs).slot (refdownArgs c c.nargs c.nargs).retIdx)).setSlot
            (refdownArgs c c.nargs c.nargs).retIdx Val.nil).ee = c.ee := by simp
        rw [xl_of_ee this]
      · rw [he] at hc
        cases api <;> simp_all

/-! ## induction with the completion flag and the fact that statements only run at exit level NONE -/

theorem runPure_rel2 (p : Prog) (R : Ctx → Bool → Ctx → Prop)
    (hrefl : ∀ c, R c true c)
    (htrans : ∀ a b ok c, R a true b → R b ok c → R a ok c)
    (herr : ∀ c e, c.exitLevel = xlNone → e ≠ .enoerr → R c false (c.setErr e))
    (hsimple : ∀ c a b c', c.exitLevel = xlNone → stepSimple c a = (b, c') → R c b c')
    (hcall : ∀ c f args nl ok c3 dst, c.exitLevel = xlNone → args.length ≤ f.nargs →
        R (pushNils (enterCall c f args) nl) ok c3 →
        R c (afterCall c3 ok nl dst f.spec args).1 (afterCall c3 ok nl dst f.spec args).2)
    (avail : Nat) (c : Ctx) (body : List Action) : R c (runPure p avail c body).1 (runPure p avail c body).2 := by
  fun_induction runPure p avail c body with
  | case1 avail c => exact hrefl c
  | case2 avail c a rest hx => exact hrefl c
  | case3 avail c rest hx dst site args hfun => exact herr c _ (by simpa using hx) (by decide)
  | case4 avail c rest hx dst site args f hfun hlt => exact herr c _ (by simpa using hx) (by decide)
  | case5 avail c rest hx dst site args f hfun hlt hst => exact herr c _ (by simpa using hx) (by decide)
  | case6 avail c rest hx dst site args f hfun hlt hst c2 hl c4 hac =>
    have hx' : c.exitLevel = xlNone := by simpa using hx
    have h2 : c2.exitLevel = xlNone := by rw [xl_of_ee (ee_enterCall c f args)]; exact hx'
    have := hcall c f args 0 false (c2.setErr .estack) dst hx' (by omega)
      (by simpa [pushNils] using herr c2 .estack h2 (by decide))
    rw [hac] at this; exact this
  | case7 avail c rest hx dst site args f hfun hlt hst c2 hl c5 hac ih =>
    have hx' : c.exitLevel = xlNone := by simpa using hx
    have h2 : c2.exitLevel = xlNone := by rw [xl_of_ee (ee_enterCall c f args)]; exact hx'
    have := hcall c f args 0 false (c2.setErr .estack) dst hx' (by omega)
      (by simpa [pushNils] using herr c2 .estack h2 (by decide))
    rw [hac] at this; exact htrans _ _ _ _ this ih
  | case8 avail c rest hx dst site args f hfun hlt hst c2 hl ok c3 hrun c4 hac ih =>
    have hx' : c.exitLevel = xlNone := by simpa using hx
    rw [hrun] at ih
    have := hcall c f args f.nlcls ok c3 dst hx' (by omega) ih
    rw [hac] at this; exact this
  | case9 avail c rest hx dst site args f hfun hlt hst c2 hl ok c3 hrun c5 hac ih1 ih2 =>
    have hx' : c.exitLevel = xlNone := by simpa using hx
    rw [hrun] at ih1
    have := hcall c f args f.nlcls ok c3 dst hx' (by omega) ih1
    rw [hac] at this; exact htrans _ _ _ _ this ih2
  | case10 avail c rest hx a hna c1 hs ih =>
    exact htrans _ _ _ _ (hsimple c a true c1 (by simpa using hx) hs) ih
  | case11 avail c rest hx a hna c1 hs => exact hsimple c a false c1 (by simpa using hx) hs

/-- how a body can end, relative to where it started.  Completed: the exit level is what it was, or
    NONE, or was set by `return` / `exit`.  Failed: with a real error and the exit level at NONE, or
    unwound by `exit` (error number cleared, exit level latched). -/
def EndState (c : Ctx) (ok : Bool) (c' : Ctx) : Prop :=
  (ok = true → c'.exitLevel = c.exitLevel ∨ c'.exitLevel = xlNone ∨ c'.exitLevel = xlFunction ∨ c'.exitLevel = xlGlobal) ∧
  (ok = false → (c'.err ≠ .enoerr ∧ c'.exitLevel = xlNone) ∨ (c'.err = .enoerr ∧ xlGlobal ≤ c'.exitLevel))

theorem stepSimple_fail {c : Ctx} {a : Action} {c' : Ctx} (h : stepSimple c a = (false, c')) :
    c' = c.setErr .edivby0 := by
  cases a with
  | fail => simp [stepSimple] at h; exact h.symm
  | closef k => simp only [stepSimple] at h; split at h <;> simp at h
  | getline => simp only [stepSimple] at h; split at h <;> simp at h
  | exit e => cases e <;> simp [stepSimple] at h
  | ret e => cases e <;> simp [stepSimple] at h
  | mapset n key e =>
    simp only [stepSimple] at h
    split at h
    · simp at h
    · split at h <;> simp at h
  | _ => simp [stepSimple] at h

@[simp] theorem ee_assignGbl (c : Ctx) (i : Nat) (v : Val) : (c.assignGbl i v).ee = c.ee := by
  unfold Ctx.assignGbl; split <;> simp
@[simp] theorem ee_replaceOwned (c : Ctx) (i : Nat) (v : Val) : (c.replaceOwned i v).ee = c.ee := by
  unfold Ctx.replaceOwned; split <;> simp
@[simp] theorem ee_doAssign (c : Ctx) (i : Nat) (e : Expr) (g : Bool) : (doAssign c i e g).ee = c.ee := by
  unfold doAssign; cases g <;> simp

/-- a statement leaves the exit level alone or sets it to FUNCTION (`return`) or GLOBAL (`exit`) -/
theorem stepSimple_xl (c : Ctx) (a : Action) :
    (stepSimple c a).2.exitLevel = c.exitLevel ∨ (stepSimple c a).2.exitLevel = xlFunction ∨
    (stepSimple c a).2.exitLevel = xlGlobal := by
  cases a with
  | setg n e => left; exact xl_of_ee (by simp [stepSimple])
  | setl n e => left; exact xl_of_ee (by simp [stepSimple])
  | seta n e => left; exact xl_of_ee (by simp [stepSimple])
  | print e => left; simp only [stepSimple]; exact xl_of_ee (ee_evalOwned c e)
  | printf k e =>
    left; simp only [stepSimple]
    have h : (evalOwned c e).1.exitLevel = c.exitLevel := xl_of_ee (ee_evalOwned c e)
    split <;> exact h
  | closef k => left; simp only [stepSimple]; split <;> rfl
  | getline => left; simp only [stepSimple]; split <;> rfl
  | fail => left; rfl
  | exit e => right; right; cases e <;> rfl
  | ret e => right; left; cases e <;> rfl
  | call d s a => left; rfl
  | mapset n key e =>
    left; simp only [stepSimple]
    split
    · rfl
    · split
      · exact xl_of_ee (c := c) (by simp)
      · rfl

theorem xl_setRec0 (c : Ctx) (t : String) : (setRec0 c t).exitLevel = c.exitLevel := by
  unfold setRec0; simp only; split <;> rfl

/-- copying back never touches the exit level; a rejected copy leaves ENONSCATOPOS and can only
    happen below exit level GLOBAL -/
theorem copyBackOne_xl (c : Ctx) (e : Expr) (av : Val) :
    (copyBackOne c e av).2.exitLevel = c.exitLevel ∧
    ((copyBackOne c e av).1 = false → (copyBackOne c e av).2.err = .enonscatopos ∧ c.exitLevel < xlGlobal) := by
  unfold copyBackOne
  cases e with
  | glob g => exact ⟨xl_of_ee (by simp), by simp⟩
  | arg j => exact ⟨xl_of_ee (by simp), by simp⟩
  | loc j => exact ⟨xl_of_ee (by simp), by simp⟩
  | rec0 =>
    simp only
    split
    · exact ⟨rfl, by simp⟩
    · next hx =>
      split
      · exact ⟨rfl, by simp⟩
      · split
        · exact ⟨rfl, fun _ => ⟨rfl, by omega⟩⟩
        · exact ⟨xl_setRec0 c _, by simp⟩
  | nr => exact ⟨rfl, by simp⟩
  | lit s => exact ⟨rfl, by simp⟩
  | app e s => exact ⟨rfl, by simp⟩
  | cat a b => exact ⟨rfl, by simp⟩
  | mlen n => exact ⟨rfl, by simp⟩

theorem copyBack_xl (c : Ctx) (bs : List Bool) (es : List Expr) (i : Nat) :
    (copyBack c bs es i).2.exitLevel = c.exitLevel ∧
    ((copyBack c bs es i).1 = false → (copyBack c bs es i).2.err = .enonscatopos ∧ c.exitLevel < xlGlobal) := by
  induction bs generalizing c es i with
  | nil => simp [copyBack]
  | cons b bs ih =>
    cases es with
    | nil => simp [copyBack]
    | cons e es =>
      simp only [copyBack]
      split
      · have h1 := copyBackOne_xl c e (c.slot (c.argIdx i))
        generalize copyBackOne c e (c.slot (c.argIdx i)) = r at h1
        obtain ⟨b1, c1⟩ := r
        cases b1
        · exact ⟨h1.1, fun _ => h1.2 rfl⟩
        · simp only at h1 ⊢
          have h2 := ih c1 es (i + 1)
          exact ⟨h2.1.trans h1.1, fun hf => by have := h2.2 hf; rw [h1.1] at this; exact this⟩
      · exact ih _ _ _

theorem runPure_endState (p : Prog) (avail : Nat) (c : Ctx) (body : List Action) :
    EndState c (runPure p avail c body).1 (runPure p avail c body).2 := by
  apply runPure_rel2 p EndState
  · intro c; exact ⟨fun _ => Or.inl rfl, (fun h => by cases h)⟩
  · intro a b ok c h1 h2
    refine ⟨fun hok => ?_, h2.2⟩
    have e1 := h1.1 rfl
    have e2 := h2.1 hok
    rcases e2 with e2 | e2 | e2 | e2
    · rw [e2]; exact e1
    · exact Or.inr (Or.inl e2)
    · exact Or.inr (Or.inr (Or.inl e2))
    · exact Or.inr (Or.inr (Or.inr e2))
  · intro c e hx he
    exact ⟨(fun h => by cases h), fun _ => Or.inl ⟨he, hx⟩⟩
  · intro c a b c' hx h
    refine ⟨fun hb => ?_, fun hb => ?_⟩
    · have := stepSimple_xl c a
      rw [h] at this
      rcases this with e | e | e
      · exact Or.inl e
      · exact Or.inr (Or.inr (Or.inl e))
      · exact Or.inr (Or.inr (Or.inr e))
    · subst hb
      have := stepSimple_fail h
      subst this
      left; exact ⟨by simp [Ctx.setErr], hx⟩
  · intro c f args nl ok c3 dst hx hle hin
    have hx2 : (pushNils (enterCall c f args) nl).exitLevel = xlNone := by
      rw [xl_of_ee (c := c) (by simp)]; exact hx
    have he3 : (popVals c3 nl).err = c3.err := err_of_ee (by simp)
    have hx3 : (popVals c3 nl).exitLevel = c3.exitLevel := xl_of_ee (by simp)
    -- the state handed to leaveFrame
    have hcb : ∀ ok1 c3a, (if ok = true then copyBack (popVals c3 nl) f.spec args 0 else (false, popVals c3 nl)) = (ok1, c3a) →
        c3a.exitLevel = c3.exitLevel ∧
        (ok1 = true → ok = true) ∧
        (ok1 = false → ok = true → c3a.err = .enonscatopos ∧ c3.exitLevel < xlGlobal) ∧
        (ok = false → c3a.err = c3.err) := by
      intro ok1 c3a heq
      cases ok with
      | false =>
        simp at heq
        obtain ⟨rfl, rfl⟩ := heq
        exact ⟨hx3, by simp, by simp, fun _ => he3⟩
      | true =>
        simp only [↓reduceIte] at heq
        have := copyBack_xl (popVals c3 nl) f.spec args 0
        rw [heq] at this
        simp only at this
        refine ⟨this.1.trans hx3, fun _ => rfl, fun h1 _ => ?_, by simp⟩
        have h2 := this.2 h1
        rw [hx3] at h2
        exact h2
    unfold afterCall
    generalize (if ok = true then copyBack (popVals c3 nl) f.spec args 0 else (false, popVals c3 nl)) = rb at hcb
    obtain ⟨ok1, c3a⟩ := rb
    obtain ⟨hxa, hok1, hfail, hsame⟩ := hcb ok1 c3a rfl
    simp only
    have hl := leaveFrame_ee c3a ok1 false
    generalize leaveFrame c3a ok1 false = r at hl
    obtain ⟨c4, r, cap⟩ := r
    simp only at hl ⊢
    rw [hxa] at hl
    cases r with
    | none =>
      simp only
      have hok1f : ok1 = false := by
        have := hl.2.2.1; simp at this; exact this
      refine ⟨(fun h => by cases h), fun _ => ?_⟩
      cases hok : ok with
      | true =>
        -- the body completed but a copy-back was rejected
        have hf := hfail hok1f hok
        have hi := hin.1 hok
        rw [hx2] at hi
        left
        rw [hl.1, hl.2.1]
        refine ⟨by rw [hf.1]; decide, ?_⟩
        rcases hi with e | e | e | e
        · rw [e]; simp [xlNone, xlFunction]
        · rw [e]; simp [xlNone, xlFunction]
        · rw [e]; simp
        · rw [e] at hf; simp [xlGlobal] at hf
      | false =>
        have hi := hin.2 hok
        have hes := hsame hok
        rcases hi with ⟨h1, h2⟩ | ⟨h1, h2⟩
        · left; rw [hl.1, hl.2.1, hes, h2]; exact ⟨h1, by simp [xlNone, xlFunction]⟩
        · right; rw [hl.1, hl.2.1, hes]
          refine ⟨h1, ?_⟩
          have : ¬ c3.exitLevel = xlFunction := by simp [xlGlobal, xlFunction] at h2 ⊢; omega
          simp [this]; exact h2
    | some v =>
      simp only
      have hok1t : ok1 = true := by
        have := hl.2.2.1; simp at this; exact this
      have hok := hok1 hok1t
      have hi := hin.1 hok
      rw [hx2] at hi
      split
      · next hg => exact ⟨(fun h => by cases h), fun _ => Or.inr ⟨rfl, hg⟩⟩
      · next hg =>
        refine ⟨fun _ => ?_, (fun h => by cases h)⟩
        left
        have e4 : ((c4.assign (c4.lclIdx dst) v).refdown v).exitLevel = c4.exitLevel := xl_of_ee (by simp)
        rw [e4, hl.2.1, hx]
        rcases hi with e | e | e | e
        · rw [e]; simp [xlNone, xlFunction]
        · rw [e]; simp [xlNone, xlFunction]
        · rw [e]; simp
        · rw [hl.2.1, e] at hg; simp [xlGlobal, xlFunction] at hg

theorem runBlock_endState (p : Prog) (c : Ctx) (k : Cache) (nl : Nat) (body : List Action) (hk : Consistent p k)
    (hx : c.exitLevel = xlNone) :
    (runBlock p c k nl body).1 = false →
      ((runBlock p c k nl body).2.1.err ≠ .enoerr ∧ (runBlock p c k nl body).2.1.exitLevel = xlNone) ∨
      ((runBlock p c k nl body).2.1.err = .enoerr ∧ xlGlobal ≤ (runBlock p c k nl body).2.1.exitLevel) := by
  unfold runBlock
  split
  · intro _; left; exact ⟨by simp [Ctx.setErr], hx⟩
  · simp only
    have h1 := (runBody_eq_pure p (c.avail - nl) (pushNils c nl) k body hk).1
    have h2 := runPure_endState p (c.avail - nl) (pushNils c nl) body
    rw [← h1] at h2
    intro hf
    have := h2.2 hf
    rw [err_of_ee (ee_popVals _ nl), xl_of_ee (ee_popVals _ nl)]
    exact this

theorem callFun_failed_xl (p : Prog) (c : Ctx) (k : Cache) (f : Fun) (args : List Val) (hk : Consistent p k)
    (hx : c.exitLevel = xlNone) (hf : (callFun p c k f args).2.2 = none) :
    (callFun p c k f args).1.exitLevel = xlNone := by
  unfold callFun at hf ⊢
  split
  · exact hx
  · split
    · exact hx
    · split
      · exact hx
      · next g1 g2 g3 =>
        simp only [g1, g2, g3, ↓reduceIte] at hf ⊢
        have hx2 : (enterFrame (pushNils (pushArgsFromVals (pushPrologue c) args) (f.nargs - args.length)) c.stack.length f.nargs).exitLevel = xlNone := by
          rw [xl_of_ee (c := c) (by simp)]; exact hx
        generalize enterFrame (pushNils (pushArgsFromVals (pushPrologue c) args) (f.nargs - args.length)) c.stack.length f.nargs = c2 at hx2 hf
        have hb := runBlock_endState p c2 k f.nlcls f.body hk hx2
        generalize runBlock p c2 k f.nlcls f.body = r at hb hf
        obtain ⟨ok, c3, k1⟩ := r
        simp only at hb hf ⊢
        have hl := leaveFrame_ee c3 ok true
        generalize leaveFrame c3 ok true = r2 at hl hf
        obtain ⟨c4, r, cap⟩ := r2
        simp only at hl hf ⊢
        cases r with
        | some v => simp at hf
        | none =>
          simp only at hf
          subst hf
          have hok : ok = false := by have := hl.2.2.1; simp at this; exact this
          have hcap := hl.2.2.2
          simp [hok] at hcap
          rcases hb hok with ⟨h1, h2⟩ | ⟨h1, h2⟩
          · rw [hl.2.1, h2]; simp [xlNone, xlFunction]
          · exact absurd h1 hcap

/-- a failed `call` leaves the exit level at NONE: the context is callable as before -/
theorem stepCtx_call_failed_xl (p : Prog) (k : Cache) (c : Ctx) (fname : String) (args : List Arg)
    (hk : Consistent p k) (hx : c.exitLevel = xlNone)
    (hf : (stepCtx p k c (.call fname args)).2.2.failed = true) :
    (stepCtx p k c (.call fname args)).1.exitLevel = xlNone := by
  simp only [stepCtx] at hf ⊢
  have hm : (mkArgs c args).1.exitLevel = c.exitLevel := by
    have : ∀ (as : List Arg) (c : Ctx), (mkArgs c as).1.exitLevel = c.exitLevel := by
      intro as
      induction as with
      | nil => intro c; rfl
      | cons a as ih =>
        intro c
        cases a with
        | nil => simp only [mkArgs]; exact ih c
        | hnd k => simp only [mkArgs]; exact ih c
        | tmp s => simp only [mkArgs]; rw [ih]; rfl
    exact this args c
  generalize mkArgs c args = r1 at hm hf
  obtain ⟨c1, vs⟩ := r1
  simp only at hm hf ⊢
  have hx1 : c1.exitLevel = xlNone := hm.trans hx
  have hcall : (callByName p c1 k fname vs).2.2 = none → (callByName p c1 k fname vs).1.exitLevel = xlNone := by
    unfold callByName
    split
    · intro _; exact hx1
    · exact callFun_failed_xl p c1 k _ vs hk hx1
  generalize callByName p c1 k fname vs = r2 at hcall hf
  obtain ⟨c2, k1, r⟩ := r2
  simp only at hcall hf ⊢
  have hd : ∀ (l : List Val) (c : Ctx), (dropTmps c l).exitLevel = c.exitLevel := by
    intro l
    induction l with
    | nil => intro c; rfl
    | cons v l ih => intro c; simp only [dropTmps]; rw [ih]; rfl
  cases r with
  | some v => simp [Ctx.snapIO, Ctx.snap] at hf
  | none =>
    simp only
    rw [hd]
    exact hcall rfl

end Hawk.Ctx
