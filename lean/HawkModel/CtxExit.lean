import HawkModel.CtxLemmas
/-! exit level and error number along a body: what a failed call leaves behind (C09) -/
namespace Hawk.Ctx

/-- error number and exit level -/
def Ctx.ee (c : Ctx) : Err × Nat := (c.err, c.exitLevel)

@[simp] theorem ee_refup (c : Ctx) (v : Val) : (c.refup v).ee = c.ee := rfl
@[simp] theorem ee_refdown (c : Ctx) (v : Val) : (c.refdown v).ee = c.ee := rfl
@[simp] theorem ee_alloc (c : Ctx) (d : Data) : (c.alloc d).1.ee = c.ee := rfl
@[simp] theorem ee_push (c : Ctx) (s : Slot) : (c.push s).ee = c.ee := rfl
@[simp] theorem ee_setSlot (c : Ctx) (i : Nat) (v : Val) : (c.setSlot i v).ee = c.ee := by
  unfold Ctx.setSlot; split <;> rfl
@[simp] theorem ee_setRaw (c : Ctx) (i n : Nat) : (c.setRaw i n).ee = c.ee := by
  unfold Ctx.setRaw; split <;> rfl
@[simp] theorem ee_evalOwned (c : Ctx) (e : Expr) : (evalOwned c e).1.ee = c.ee := by
  cases e <;> simp [evalOwned]
@[simp] theorem ee_assign (c : Ctx) (i : Nat) (v : Val) : (c.assign i v).ee = c.ee := by
  unfold Ctx.assign; split <;> simp
@[simp] theorem ee_pushNils (c : Ctx) (n : Nat) : (pushNils c n).ee = c.ee := by
  induction n generalizing c with
  | zero => rfl
  | succ n ih => simp [pushNils, ih]
@[simp] theorem ee_pushArgsFromExprs (c : Ctx) (es : List Expr) : (pushArgsFromExprs c es).ee = c.ee := by
  induction es generalizing c with
  | nil => rfl
  | cons e es ih => simp [pushArgsFromExprs, ih]
@[simp] theorem ee_pushArgsFromVals (c : Ctx) (vs : List Val) : (pushArgsFromVals c vs).ee = c.ee := by
  induction vs generalizing c with
  | nil => rfl
  | cons e es ih => simp [pushArgsFromVals, ih]
@[simp] theorem ee_pushPrologue (c : Ctx) : (pushPrologue c).ee = c.ee := by simp [pushPrologue]
@[simp] theorem ee_enterFrame (c : Ctx) (t n : Nat) : (enterFrame c t n).ee = c.ee := by
  unfold enterFrame; simp; rfl
@[simp] theorem ee_enterCall (c : Ctx) (f : Fun) (args : List Expr) : (enterCall c f args).ee = c.ee := by
  unfold enterCall; simp
@[simp] theorem ee_popVals (c : Ctx) (n : Nat) : (popVals c n).ee = c.ee := by
  induction n generalizing c with
  | zero => rfl
  | succ n ih => simp only [popVals, ih]; rfl
@[simp] theorem ee_refdownArgs (c : Ctx) (n k : Nat) : (refdownArgs c n k).ee = c.ee := by
  induction k generalizing c with
  | zero => rfl
  | succ k ih => simp [refdownArgs, ih]

theorem err_of_ee {c c' : Ctx} (h : c'.ee = c.ee) : c'.err = c.err := congrArg Prod.fst h
theorem xl_of_ee {c c' : Ctx} (h : c'.ee = c.ee) : c'.exitLevel = c.exitLevel := congrArg Prod.snd h

theorem ee_popFrame (c : Ctx) :
    (popFrame c).err = c.err ∧ (popFrame c).exitLevel = if c.exitLevel = xlFunction then xlNone else c.exitLevel :=
  ⟨rfl, rfl⟩

/-- what `leaveFrame` does to error number, exit level and result -/
theorem leaveFrame_ee (c : Ctx) (ok api : Bool) :
    (leaveFrame c ok api).1.err = c.err ∧
    (leaveFrame c ok api).1.exitLevel = (if c.exitLevel = xlFunction then xlNone else c.exitLevel) ∧
    ((leaveFrame c ok api).2.1.isSome = ok) ∧
    ((leaveFrame c ok api).2.2.isSome = (!ok && api && (c.err == .enoerr))) := by
  unfold leaveFrame
  simp only
  have h0 : (refdownArgs c c.nargs c.nargs).ee = c.ee := by simp
  split
  · next hok =>
    have h1 : ((refdownArgs c c.nargs c.nargs).setSlot (refdownArgs c c.nargs c.nargs).retIdx Val.nil).ee = c.ee := by simp
    refine ⟨?_, ?_, by simp [hok], by simp [hok]⟩
    · rw [(ee_popFrame _).1]; exact err_of_ee h1
    · rw [(ee_popFrame _).2, xl_of_ee h1]
  · next hok =>
    have he : (refdownArgs c c.nargs c.nargs).err = c.err := err_of_ee h0
    split
    · next hc =>
      refine ⟨?_, ?_, by simp [hok], by simp [hok, hc.1, ← he, hc.2]⟩
      · rw [(ee_popFrame _).1]; exact err_of_ee (by simp)
      · rw [(ee_popFrame _).2]
        have : ((((refdownArgs c c.nargs c.nargs).refup ((refdownArgs c c.nargs c.nargs).slot (refdownArgs c c.nargs c.nargs).retIdx)).refdown
            ((refdownArgs c c.nargs c.nargs).slot (refdownArgs c c.nargs c.nargs).retIdx)).setSlot
            ((refdownArgs c c.nargs c.nargs).refup ((refdownArgs c c.nargs c.nargs).slot (refdownArgs c c.nargs c.nargs).retIdx)).retIdx Val.nil).ee = c.ee := by simp
        rw [xl_of_ee this]
    · next hc =>
      refine ⟨?_, ?_, by simp [hok], ?_⟩
      · rw [(ee_popFrame _).1]; exact err_of_ee (by simp)
      · rw [(ee_popFrame _).2]
        have : (((refdownArgs c c.nargs c.nargs).refdown
            ((refdownArgs c c.nargs c.nargs).slot (refdownArgs c c.nargs c.nargs).retIdx)).setSlot
            (refdownArgs c c.nargs c.nargs).retIdx Val.nil).ee = c.ee := by simp
        rw [xl_of_ee this]
      · rw [he] at hc
        cases api <;> simp_all

/-! ## induction with the completion flag and the fact that statements only run at exit level NONE -/

theorem runPure_rel2 (p : Prog) (R : Ctx → Bool → Ctx → Prop)
    (hrefl : ∀ c, R c true c)
    (htrans : ∀ a b ok c, R a true b → R b ok c → R a ok c)
    (herr : ∀ c e, c.exitLevel = xlNone → e ≠ .enoerr → R c false (c.setErr e))
    (hsimple : ∀ c a b c', c.exitLevel = xlNone → stepSimple c a = (b, c') → R c b c')
    (hcall : ∀ c f args nl ok c3 dst, c.exitLevel = xlNone → args.length ≤ f.nargs →
        R (pushNils (enterCall c f args) nl) ok c3 → R c (afterCall c3 ok nl dst).1 (afterCall c3 ok nl dst).2)
    (avail : Nat) (c : Ctx) (body : List Action) : R c (runPure p avail c body).1 (runPure p avail c body).2 := by
  fun_induction runPure p avail c body with
  | case1 avail c => exact hrefl c
  | case2 avail c a rest hx => exact hrefl c
  | case3 avail c rest hx dst site args hfun => exact herr c _ (by simpa using hx) (by decide)
  | case4 avail c rest hx dst site args f hfun hlt => exact herr c _ (by simpa using hx) (by decide)
  | case5 avail c rest hx dst site args f hfun hlt hst => exact herr c _ (by simpa using hx) (by decide)
  | case6 avail c rest hx dst site args f hfun hlt hst c2 hl c4 hac =>
    have hx' : c.exitLevel = xlNone := by simpa using hx
    have h2 : c2.exitLevel = xlNone := by rw [xl_of_ee (ee_enterCall c f args)]; exact hx'
    have := hcall c f args 0 false (c2.setErr .estack) dst hx' (by omega)
      (by simpa [pushNils] using herr c2 .estack h2 (by decide))
    rw [hac] at this; exact this
  | case7 avail c rest hx dst site args f hfun hlt hst c2 hl c5 hac ih =>
    have hx' : c.exitLevel = xlNone := by simpa using hx
    have h2 : c2.exitLevel = xlNone := by rw [xl_of_ee (ee_enterCall c f args)]; exact hx'
    have := hcall c f args 0 false (c2.setErr .estack) dst hx' (by omega)
      (by simpa [pushNils] using herr c2 .estack h2 (by decide))
    rw [hac] at this; exact htrans _ _ _ _ this ih
  | case8 avail c rest hx dst site args f hfun hlt hst c2 hl ok c3 hrun c4 hac ih =>
    have hx' : c.exitLevel = xlNone := by simpa using hx
    rw [hrun] at ih
    have := hcall c f args f.nlcls ok c3 dst hx' (by omega) ih
    rw [hac] at this; exact this
  | case9 avail c rest hx dst site args f hfun hlt hst c2 hl ok c3 hrun c5 hac ih1 ih2 =>
    have hx' : c.exitLevel = xlNone := by simpa using hx
    rw [hrun] at ih1
    have := hcall c f args f.nlcls ok c3 dst hx' (by omega) ih1
    rw [hac] at this; exact htrans _ _ _ _ this ih2
  | case10 avail c rest hx a hna c1 hs ih =>
    exact htrans _ _ _ _ (hsimple c a true c1 (by simpa using hx) hs) ih
  | case11 avail c rest hx a hna c1 hs => exact hsimple c a false c1 (by simpa using hx) hs

/-- how a body can end: completed; failed with a real error (exit level still NONE); or unwound by
    `exit` (error number cleared, exit level latched) -/
def EndState (ok : Bool) (c' : Ctx) : Prop :=
  ok = false → (c'.err ≠ .enoerr ∧ c'.exitLevel = xlNone) ∨ (c'.err = .enoerr ∧ xlGlobal ≤ c'.exitLevel)

theorem stepSimple_fail {c : Ctx} {a : Action} {c' : Ctx} (h : stepSimple c a = (false, c')) :
    c' = c.setErr .edivby0 := by
  cases a with
  | fail => simp [stepSimple] at h; exact h.symm
  | closef k => simp only [stepSimple] at h; split at h <;> simp at h
  | getline => simp only [stepSimple] at h; split at h <;> simp at h
  | exit e => cases e <;> simp [stepSimple] at h
  | ret e => cases e <;> simp [stepSimple] at h
  | mapset n key e =>
    simp only [stepSimple] at h
    split at h
    · simp at h
    · split at h <;> simp at h
  | _ => simp [stepSimple] at h

theorem runPure_endState (p : Prog) (avail : Nat) (c : Ctx) (body : List Action) :
    EndState (runPure p avail c body).1 (runPure p avail c body).2 := by
  apply runPure_rel2 p (fun _ ok c' => EndState ok c')
  · intro c h; cases h
  · intro a b ok c _ h; exact h
  · intro c e hx he _
    left; exact ⟨he, hx⟩
  · intro c a b c' hx h hb
    subst hb
    have := stepSimple_fail h
    subst this
    left; exact ⟨by simp [Ctx.setErr], hx⟩
  · intro c f args nl ok c3 dst hx hle hin hf
    unfold afterCall at hf ⊢
    have hl := leaveFrame_ee (popVals c3 nl) ok false
    generalize leaveFrame (popVals c3 nl) ok false = r at hl hf
    obtain ⟨c4, r, cap⟩ := r
    simp only at hl hf ⊢
    have he3 : (popVals c3 nl).err = c3.err := err_of_ee (by simp)
    have hx3 : (popVals c3 nl).exitLevel = c3.exitLevel := xl_of_ee (by simp)
    rw [he3, hx3] at hl
    cases r with
    | none =>
      simp only
      have hok : ok = false := by
        have := hl.2.2.1; simp at this; exact this
      rcases hin hok with ⟨h1, h2⟩ | ⟨h1, h2⟩
      · left; rw [hl.1, hl.2.1, h2]; exact ⟨h1, by simp [xlNone, xlFunction]⟩
      · right; rw [hl.1, hl.2.1]
        refine ⟨h1, ?_⟩
        have : ¬ c3.exitLevel = xlFunction := by simp [xlGlobal, xlFunction] at h2 ⊢; omega
        simp [this]; exact h2
    | some v =>
      simp only at hf ⊢
      split
      · next hg => right; exact ⟨rfl, hg⟩
      · next hg => simp [hg] at hf

theorem runBlock_endState (p : Prog) (c : Ctx) (k : Cache) (nl : Nat) (body : List Action) (hk : Consistent p k)
    (hx : c.exitLevel = xlNone) : EndState (runBlock p c k nl body).1 (runBlock p c k nl body).2.1 := by
  unfold runBlock
  split
  · intro _; left; exact ⟨by simp [Ctx.setErr], hx⟩
  · simp only
    have h1 := (runBody_eq_pure p (c.avail - nl) (pushNils c nl) k body hk).1
    have h2 := runPure_endState p (c.avail - nl) (pushNils c nl) body
    rw [← h1] at h2
    intro hf
    have := h2 hf
    rw [err_of_ee (ee_popVals _ nl), xl_of_ee (ee_popVals _ nl)]
    exact this

theorem callFun_failed_xl (p : Prog) (c : Ctx) (k : Cache) (f : Fun) (args : List Val) (hk : Consistent p k)
    (hx : c.exitLevel = xlNone) (hf : (callFun p c k f args).2.2 = none) :
    (callFun p c k f args).1.exitLevel = xlNone := by
  unfold callFun at hf ⊢
  split
  · exact hx
  · split
    · exact hx
    · split
      · exact hx
      · next g1 g2 g3 =>
        simp only [g1, g2, g3, ↓reduceIte] at hf ⊢
        have hx2 : (enterFrame (pushNils (pushArgsFromVals (pushPrologue c) args) (f.nargs - args.length)) c.stack.length f.nargs).exitLevel = xlNone := by
          rw [xl_of_ee (c := c) (by simp)]; exact hx
        generalize enterFrame (pushNils (pushArgsFromVals (pushPrologue c) args) (f.nargs - args.length)) c.stack.length f.nargs = c2 at hx2 hf
        have hb := runBlock_endState p c2 k f.nlcls f.body hk hx2
        generalize runBlock p c2 k f.nlcls f.body = r at hb hf
        obtain ⟨ok, c3, k1⟩ := r
        simp only at hb hf ⊢
        have hl := leaveFrame_ee c3 ok true
        generalize leaveFrame c3 ok true = r2 at hl hf
        obtain ⟨c4, r, cap⟩ := r2
        simp only at hl hf ⊢
        cases r with
        | some v => simp at hf
        | none =>
          simp only at hf
          subst hf
          have hok : ok = false := by have := hl.2.2.1; simp at this; exact this
          have hcap := hl.2.2.2
          simp [hok] at hcap
          rcases hb hok with ⟨h1, h2⟩ | ⟨h1, h2⟩
          · rw [hl.2.1, h2]; simp [xlNone, xlFunction]
          · exact absurd h1 hcap

/-- a failed `call` leaves the exit level at NONE: the context is callable as before -/
theorem stepCtx_call_failed_xl (p : Prog) (k : Cache) (c : Ctx) (fname : String) (args : List Arg)
    (hk : Consistent p k) (hx : c.exitLevel = xlNone)
    (hf : (stepCtx p k c (.call fname args)).2.2.failed = true) :
    (stepCtx p k c (.call fname args)).1.exitLevel = xlNone := by
  simp only [stepCtx] at hf ⊢
  have hm : (mkArgs c args).1.exitLevel = c.exitLevel := by
    have : ∀ (as : List Arg) (c : Ctx), (mkArgs c as).1.exitLevel = c.exitLevel := by
      intro as
      induction as with
      | nil => intro c; rfl
      | cons a as ih =>
        intro c
        cases a with
        | nil => simp only [mkArgs]; exact ih c
        | hnd k => simp only [mkArgs]; exact ih c
        | tmp s => simp only [mkArgs]; rw [ih]; rfl
    exact this args c
  generalize mkArgs c args = r1 at hm hf
  obtain ⟨c1, vs⟩ := r1
  simp only at hm hf ⊢
  have hx1 : c1.exitLevel = xlNone := hm.trans hx
  have hcall : (callByName p c1 k fname vs).2.2 = none → (callByName p c1 k fname vs).1.exitLevel = xlNone := by
    unfold callByName
    split
    · intro _; exact hx1
    · exact callFun_failed_xl p c1 k _ vs hk hx1
  generalize callByName p c1 k fname vs = r2 at hcall hf
  obtain ⟨c2, k1, r⟩ := r2
  simp only at hcall hf ⊢
  have hd : ∀ (l : List Val) (c : Ctx), (dropTmps c l).exitLevel = c.exitLevel := by
    intro l
    induction l with
    | nil => intro c; rfl
    | cons v l ih => intro c; simp only [dropTmps]; rw [ih]; rfl
  cases r with
  | some v => simp [Ctx.snapIO, Ctx.snap] at hf
  | none =>
    simp only
    rw [hd]
    exact hcall rfl

end Hawk.Ctx
