import HawkModel.Fmt
/-! helper lemmas for C12: digits, closed form of `fmt_uintmax`, the retry loop, scanner pieces -/
namespace Hawk.Fmt

/-! ### digits -/

theorem xdigit_lower : ∀ d, d < 16 → xdigit false d = Nat.digitChar d := by decide

theorem xdigit_upper : ∀ d, d < 16 → xdigit true d = (Nat.digitChar d).toUpper := by decide

theorem revDigits_eq (base : Nat) (upper : Bool) (v : Nat) (hb : 2 ≤ base) :
    revDigits base upper v =
      if v / base > 0 then xdigit upper (v % base) :: revDigits base upper (v / base) else [xdigit upper (v % base)] := by
  rw [revDigits]
  have : ¬ base < 2 := by omega
  simp [this]

/-- the digit loop of `fmt_uintmax` produces, reversed, exactly `Nat.toDigits` (upper-cased for `%X`) -/
theorem revDigits_reverse (base : Nat) (upper : Bool) (hb : 2 ≤ base) (hb16 : base ≤ 16) (v : Nat) :
    (revDigits base upper v).reverse = (Nat.toDigits base v).map (fun c => if upper then c.toUpper else c) := by
  induction v using Nat.strongRecOn with
  | _ v ih =>
    rw [revDigits_eq base upper v hb, Nat.toDigits_eq_if (by omega)]
    have hx : ∀ d, d < base → xdigit upper d = (fun c => if upper then c.toUpper else c) (Nat.digitChar d) := by
      intro d hd
      cases upper
      · simpa using xdigit_lower d (by omega)
      · simpa using xdigit_upper d (by omega)
    by_cases hlt : v < base
    · have h0 : v / base = 0 := Nat.div_eq_of_lt hlt
      have hm : v % base = v := Nat.mod_eq_of_lt hlt
      simp [hlt, h0, hm, hx v hlt]
    · have hpos : v / base > 0 := Nat.div_pos (by omega) (by omega)
      have hlt2 : v / base < v := Nat.div_lt_self (by omega) (by omega)
      have hm : v % base < base := Nat.mod_lt _ (by omega)
      simp only [hpos, hlt, if_true, if_false, List.reverse_cons, ih _ hlt2, List.map_append, List.map_cons, List.map_nil]
      rw [hx _ hm]

theorem revDigits_length_pos (base : Nat) (upper : Bool) (v : Nat) : 0 < (revDigits base upper v).length := by
  rw [revDigits]
  split
  · simp
  · split <;> simp

/-! ### `put` / `fill` -/

theorem put_fits (be : Nat) (out cs : Str) (h : out.length + cs.length ≤ be) : put be out cs = out ++ cs := by
  unfold put
  rw [List.take_of_length_le (by omega)]

/-! ### closed form of `fmt_uintmax` under NOTRUNC | NONULL -/

/-- the digit string (most significant first) `fmt_uintmax` emits -/
def fmtDigits (f : IFlags) (value : Nat) : Str :=
  if f.nozero ∧ value = 0 then [] else (revDigits f.base f.uppercase value).reverse

/-- number of zeros emitted in front of the digits (`preczero`) -/
def fmtPz (f : IFlags) (value : Nat) (prec : Int) : Nat :=
  if f.nozero ∧ value = 0 then (if f.zerolead then 1 else 0)
  else
    let n := (revDigits f.base f.uppercase value).length
    if prec > (n : Int) then prec.toNat - n else if f.zerolead ∧ value ≠ 0 then 1 else 0

/-- `reslen` after sign and prefix were counted -/
def fmtReslen (f : IFlags) (value : Nat) (prec : Int) (sign : Option Char) (pfx : Option Str) : Nat :=
  (optStr sign).length + (pfx.getD []).length + fmtPz f value prec + (fmtDigits f value).length

/-- what ends up in the buffer of `size` characters -/
def fmtLayout (f : IFlags) (value : Nat) (prec : Int) (fillc sign : Option Char) (pfx : Option Str) (size : Nat) : Str :=
  let s := optStr sign
  let p := pfx.getD []
  let z := List.replicate (fmtPz f value prec) '0'
  let d := fmtDigits f value
  let pad := size - fmtReslen f value prec sign pfx
  match fillc with
  | none => s ++ p ++ z ++ d
  | some fc =>
    if f.fillright then s ++ p ++ z ++ d ++ List.replicate pad fc
    else if f.fillcenter then s ++ p ++ List.replicate pad fc ++ z ++ d
    else List.replicate pad fc ++ s ++ p ++ z ++ d

theorem fmtLayout_length (f : IFlags) (value : Nat) (prec : Int) (fillc sign : Option Char) (pfx : Option Str) (size : Nat)
    (h : fmtReslen f value prec sign pfx ≤ size) :
    (fmtLayout f value prec fillc sign pfx size).length =
      match fillc with | none => fmtReslen f value prec sign pfx | some _ => size := by
  unfold fmtLayout
  cases fillc with
  | none => simp [fmtReslen]; omega
  | some fc =>
    simp only []
    split
    · simp [fmtReslen] at *; omega
    · split <;> (simp [fmtReslen] at *; omega)

theorem digitsPart_eq (f : IFlags) (value : Nat) (prec : Int) :
    digitsPart f value prec = ((fmtDigits f value).reverse, fmtPz f value prec + (fmtDigits f value).length, fmtPz f value prec) := by
  unfold digitsPart fmtDigits fmtPz
  by_cases h1 : f.nozero = true ∧ value = 0
  · simp only [h1, and_self, if_true]
    split <;> simp
  · simp only [h1, if_false, List.reverse_reverse, List.length_reverse]
    split
    · rename_i h2
      have := revDigits_length_pos f.base f.uppercase value
      simp; omega
    · split <;> simp [Nat.add_comm]

theorem put2 (be : Nat) (o a b : Str) (h : o.length + a.length + b.length ≤ be) :
    put be (put be o a) b = o ++ a ++ b := by
  rw [put_fits be o a (by omega), put_fits be (o ++ a) b (by simp; omega)]

theorem put4 (be : Nat) (o a b c d : Str) (h : o.length + a.length + b.length + c.length + d.length ≤ be) :
    put be (put be (put be (put be o a) b) c) d = o ++ a ++ b ++ c ++ d := by
  rw [put2 be o a b (by omega), put2 be (o ++ a ++ b) c d (by simp; omega)]

theorem fmtUintmax_eq (size value : Nat) (f : IFlags) (prec : Int) (fillc sign : Option Char) (pfx : Option Str)
    (hb : 2 ≤ f.base ∧ f.base ≤ 36) (hnt : f.notrunc = true) (hnn : f.nonull = true) :
    fmtUintmax size value f prec fillc sign pfx =
      if size = 0 ∨ size < fmtReslen f value prec sign pfx then (-(fmtReslen f value prec sign pfx : Int), [])
      else (((fmtLayout f value prec fillc sign pfx size).length : Int), fmtLayout f value prec fillc sign pfx size) := by
  have hb' : ¬ (f.base < 2 ∨ f.base > 36) := by omega
  unfold fmtUintmax
  simp only [hb', if_false, hnt, hnn, if_true, true_and, digitsPart_eq]
  have hres : ((if sign.isSome = true then fmtPz f value prec + (fmtDigits f value).length + 1 else fmtPz f value prec + (fmtDigits f value).length) +
      (pfx.getD []).length) = fmtReslen f value prec sign pfx := by
    unfold fmtReslen
    cases sign <;> simp [optStr] <;> omega
  simp only [hres]
  split
  · rfl
  · rename_i hsz
    have hle : fmtReslen f value prec sign pfx ≤ size := by omega
    have hr : fmtReslen f value prec sign pfx = (optStr sign).length + (pfx.getD []).length + fmtPz f value prec + (fmtDigits f value).length := rfl
    cases fillc with
    | none =>
      dsimp only [fmtLayout]
      rw [put4 size [] _ _ _ _ (by simp; omega)]
      simp
    | some fc =>
      dsimp only [fmtLayout]
      split
      · unfold fill
        rw [put4 size [] _ _ _ _ (by simp; omega)]
        simp
      · split
        · unfold fill
          rw [put2 size [] (optStr sign) (pfx.getD []) (by simp; omega), put2 size _ _ _ (by simp; omega)]
          simp
        · unfold fill
          rw [put4 size _ _ _ _ _ (by simp; omega)]
          simp

theorem fmtLayout_nil_of_reslen_zero (f : IFlags) (value : Nat) (prec : Int) (fillc sign : Option Char) (pfx : Option Str)
    (h : fmtReslen f value prec sign pfx = 0) : fmtLayout f value prec fillc sign pfx 0 = [] := by
  have := fmtLayout_length f value prec fillc sign pfx 0 (by omega)
  apply List.eq_nil_of_length_eq_zero
  rw [this]
  cases fillc <;> simp [h]

theorem retryLoop_fmtUintmax (size value : Nat) (f : IFlags) (prec : Int) (fillc sign : Option Char) (pfx : Option Str)
    (hb : 2 ≤ f.base ∧ f.base ≤ 36) (hnt : f.notrunc = true) (hnn : f.nonull = true) :
    retryLoop (fun sz => fmtUintmax sz value f prec fillc sign pfx) size =
      fmtLayout f value prec fillc sign pfx (max size (fmtReslen f value prec sign pfx)) := by
  unfold retryLoop
  simp only [fmtUintmax_eq _ _ _ _ _ _ _ hb hnt hnn]
  by_cases h1 : size = 0 ∨ size < fmtReslen f value prec sign pfx
  · simp only [h1, if_true]
    by_cases hR : fmtReslen f value prec sign pfx = 0
    · have hs : size = 0 := by omega
      simp [hR, hs, fmtLayout_nil_of_reslen_zero f value prec fillc sign pfx hR]
    · have hneg : -(fmtReslen f value prec sign pfx : Int) ≤ -1 := by omega
      have hmax : max size (fmtReslen f value prec sign pfx) = fmtReslen f value prec sign pfx := by omega
      simp only [hneg, if_true, Int.neg_neg, Int.toNat_natCast, hR, Nat.lt_irrefl, or_self, if_false, hmax]
      have : ¬ ((List.length (fmtLayout f value prec fillc sign pfx (fmtReslen f value prec sign pfx)) : Int) ≤ -1) := by omega
      simp [this]
  · simp only [h1, if_false]
    have hmax : max size (fmtReslen f value prec sign pfx) = size := by omega
    have : ¬ ((List.length (fmtLayout f value prec fillc sign pfx size) : Int) ≤ -1) := by omega
    simp [this, hmax]

theorem head?_append_ne_nil (a b : List Char) (h : a ≠ []) : (a ++ b).head? = a.head? := by
  cases a with
  | nil => contradiction
  | cons x xs => simp

theorem digitChar_eq_zero_iff : ∀ d, d < 16 → (Nat.digitChar d = '0' ↔ d = 0) := by decide

theorem toDigits_head_zero_iff (b : Nat) (hb : 2 ≤ b) (hb16 : b ≤ 16) (n : Nat) :
    (Nat.toDigits b n).head? = some '0' ↔ n = 0 := by
  induction n using Nat.base_induction b (by omega) with
  | single m hm =>
    rw [Nat.toDigits_of_lt_base hm]
    simp [digitChar_eq_zero_iff m (by omega)]
  | digit m k hk hm ih =>
    rw [← Nat.toDigits_append_toDigits (by omega) hm hk]
    have hne : Nat.toDigits b m ≠ [] := Nat.toDigits_ne_nil
    rw [head?_append_ne_nil _ _ hne, ih]
    constructor
    · intro h; omega
    · intro h
      have : 0 < b * m := Nat.mul_pos (by omega) hm
      omega

theorem digits_eq (c : Char) (m : Nat) (hb : 2 ≤ CSpec.base c ∧ CSpec.base c ≤ 16) :
    (revDigits (CSpec.base c) (c == 'X') m).reverse = CSpec.digits c m := by
  rw [revDigits_reverse _ _ hb.1 hb.2]
  unfold CSpec.digits
  by_cases h : c = 'X'
  · simp [h]
  · simp [h]

def precOpt (prec : Int) : Option Nat := if prec < 0 then none else some prec.toNat

theorem num_eq (f : IFlags) (s : CSpec.Spec) (m : Nat) (prec : Int)
    (hbase : f.base = CSpec.base s.conv) (hb : 2 ≤ f.base ∧ f.base ≤ 16)
    (hup : f.uppercase = (s.conv == 'X'))
    (hnz : f.nozero = decide (s.prec = some 0 ∧ m = 0))
    (hzl : f.zerolead = (s.conv == 'o' && s.flags.hash))
    (hprec : s.prec = precOpt prec) (hp1 : -1 ≤ prec) :
    List.replicate (fmtPz f m prec) '0' ++ fmtDigits f m = CSpec.numOf s m := by
  have hD : (revDigits f.base f.uppercase m).reverse = CSpec.digits s.conv m := by
    rw [hbase, hup]; exact digits_eq _ _ (hbase ▸ hb)
  have hlen : (revDigits f.base f.uppercase m).length = (CSpec.digits s.conv m).length := by
    rw [← hD, List.length_reverse]
  have hpos : 0 < (CSpec.digits s.conv m).length := by
    rw [← hlen]; exact revDigits_length_pos _ _ _
  unfold fmtPz fmtDigits CSpec.numOf CSpec.digitsOf
  by_cases hA : s.prec = some 0 ∧ m = 0
  · have hnz' : f.nozero = true := by simp [hnz, hA]
    simp only [hnz', hA, and_self, if_true, hzl]
    by_cases ho : (s.conv == 'o' && s.flags.hash) = true
    · have : s.conv = 'o' ∧ s.flags.hash = true := by simpa using ho
      simp [this.1, this.2, CSpec.zeros]
    · have ho' : ¬ (s.conv = 'o' ∧ s.flags.hash = true) := by simpa using ho
      simp only [ho, Bool.false_eq_true, if_false, List.replicate_zero, List.nil_append]
      simp only [CSpec.zeros, Option.getD_some, Nat.zero_sub, List.length_nil, List.replicate_zero, List.append_nil]
      split
      · rename_i h; exact absurd ⟨by simpa using h.1, h.2.1⟩ ho'
      · rfl
  · have hnz' : ¬ (f.nozero = true ∧ m = 0) := by
      intro h; apply hA; simpa [hnz] using h.1
    simp only [hnz', if_false, hA, hD, hlen]
    have hhead : s.conv = 'o' → ((CSpec.digits s.conv m).head? = some '0' ↔ m = 0) := by
      intro hc
      have : CSpec.digits s.conv m = Nat.toDigits 8 m := by
        simp [CSpec.digits, CSpec.base, hc]
      rw [this]; exact toDigits_head_zero_iff 8 (by omega) (by omega) m
    generalize CSpec.digits s.conv m = D at *
    by_cases hgt : prec > (D.length : Int)
    · have hsp : s.prec = some prec.toNat := by
        rw [hprec, precOpt]; have : ¬ prec < 0 := by omega
        simp [this]
      have hk : prec.toNat - D.length = (prec.toNat - D.length - 1) + 1 := by omega
      simp only [hgt, if_true, hsp, Option.getD_some, CSpec.zeros]
      rw [hk, List.replicate_succ]
      simp
    · have hz : s.prec.getD 1 - D.length = 0 := by
        rw [hprec, precOpt]
        by_cases hn : prec < 0
        · simp [hn]; omega
        · simp [hn]; omega
      simp only [hgt, if_false, hz, CSpec.zeros, List.replicate_zero, List.nil_append, hzl]
      by_cases ho : s.conv = 'o' ∧ s.flags.hash = true
      · have hh := hhead ho.1
        by_cases hm : m = 0
        · have : D.head? = some '0' := hh.mpr hm
          simp [ho.1, ho.2, hm, this]
        · have : D.head? ≠ some '0' := fun h => hm (hh.mp h)
          simp [ho.1, ho.2, hm, this]
      · have h1 : (s.conv == 'o' && s.flags.hash) = false := by
          simp only [Bool.and_eq_false_iff, beq_eq_false_iff_ne]
          by_cases hc : s.conv = 'o'
          · right; simpa [hc] using ho
          · left; exact hc
        have h2 : ¬ ((s.conv == 'o') = true ∧ s.flags.hash = true ∧ D.head? ≠ some '0') := by
          intro h; exact ho ⟨by simpa using h.1, h.2.1⟩
        simp only [h1, Bool.false_eq_true, false_and, if_false, List.replicate_zero, List.nil_append]
        rw [if_neg h2]

theorem layout_render (f : IFlags) (s : CSpec.Spec) (v : Int) (prec : Int) (fillc sign : Option Char) (pfx : Option Str)
    (tmpLen : Nat) (precGiven : Bool)
    (hb : 2 ≤ f.base ∧ f.base ≤ 16) (hnt : f.notrunc = true) (hnn : f.nonull = true)
    (hsign : optStr sign = CSpec.signOf s v)
    (hpfx : pfx.getD [] = CSpec.prefixOf s (CSpec.mag s.conv v))
    (hnum : List.replicate (fmtPz f (CSpec.mag s.conv v) prec) '0' ++ fmtDigits f (CSpec.mag s.conv v)
              = CSpec.numOf s (CSpec.mag s.conv v))
    (hfill : (f.fillright, f.fillcenter, fillc) = fillOf s.flags s.width precGiven prec)
    (hprec : s.prec = precOpt prec) (hpg : precGiven = false → prec = -1) :
    retryLoop (fun sz => fmtUintmax sz (CSpec.mag s.conv v) f prec fillc sign pfx) (if s.width > 0 then s.width else tmpLen)
      = CSpec.render s v := by
  rw [retryLoop_fmtUintmax _ _ _ _ _ _ _ ⟨hb.1, by omega⟩ hnt hnn]
  have hres : fmtReslen f (CSpec.mag s.conv v) prec sign pfx
      = (CSpec.signOf s v ++ CSpec.prefixOf s (CSpec.mag s.conv v) ++ CSpec.numOf s (CSpec.mag s.conv v)).length := by
    unfold fmtReslen
    rw [← hnum, ← hsign, ← hpfx]
    simp; omega
  have hnone : s.prec = none ↔ (precGiven = false ∨ prec < 0) := by
    rw [hprec, precOpt]
    constructor
    · intro h; right; by_cases hn : prec < 0 <;> simp_all
    · intro h
      rcases h with h | h
      · have := hpg h; simp [this]
      · simp [h]
  unfold fmtLayout CSpec.render
  simp only [hres]
  rw [hsign, hpfx]
  generalize CSpec.signOf s v = S at *
  generalize CSpec.prefixOf s (CSpec.mag s.conv v) = P at *
  generalize CSpec.numOf s (CSpec.mag s.conv v) = N at *
  unfold fillOf at hfill
  have hpad : ∀ w : Nat, max w (S ++ P ++ N).length - (S ++ P ++ N).length = w - (S ++ P ++ N).length := by
    intro w; omega
  have hN : List.replicate (fmtPz f (CSpec.mag s.conv v) prec) '0' ++ fmtDigits f (CSpec.mag s.conv v) = N := hnum
  have hN' : ∀ X : Str, X ++ List.replicate (fmtPz f (CSpec.mag s.conv v) prec) '0' ++ fmtDigits f (CSpec.mag s.conv v) = X ++ N := by
    intro X; rw [List.append_assoc, hN]
  by_cases hw : s.width > 0
  · simp only [hw, if_true] at hfill ⊢
    by_cases hz : s.flags.zero = true
    · simp only [hz, if_true] at hfill
      by_cases hm : s.flags.minus = true
      · simp only [hm, if_true, Prod.mk.injEq] at hfill
        obtain ⟨h1, h2, h3⟩ := hfill
        subst h3
        simp only [h1, hm, if_true, hpad, hN', spaces]
      · simp only [hm, Bool.false_eq_true, if_false] at hfill
        by_cases hp : (!precGiven) = true ∨ prec < 0
        · simp only [hp, if_true, Prod.mk.injEq] at hfill
          obtain ⟨h1, h2, h3⟩ := hfill
          subst h3
          have hn : s.prec = none := hnone.mpr (by simpa using hp)
          simp only [h1, h2, hm, hz, hn, Bool.false_eq_true, if_false, if_true, and_self, hpad, hN', CSpec.zeros]
        · simp only [hp, if_false, Prod.mk.injEq] at hfill
          obtain ⟨h1, h2, h3⟩ := hfill
          subst h3
          have hn : ¬ s.prec = none := fun h => hp (by simpa using hnone.mp h)
          simp only [h1, h2, hm, hz, hn, Bool.false_eq_true, if_false, and_false, hpad, hN', spaces]
          simp [List.append_assoc]
    · simp only [hz, Bool.false_eq_true, if_false] at hfill
      by_cases hm : s.flags.minus = true
      · simp only [hm, if_true, Prod.mk.injEq] at hfill
        obtain ⟨h1, h2, h3⟩ := hfill
        subst h3
        simp only [h1, hm, if_true, hpad, hN', spaces]
      · simp only [hm, Bool.false_eq_true, if_false, Prod.mk.injEq] at hfill
        obtain ⟨h1, h2, h3⟩ := hfill
        subst h3
        simp only [h1, h2, hm, hz, Bool.false_eq_true, if_false, false_and, hpad, hN', spaces]
        simp [List.append_assoc]
  · simp only [hw, if_false, Prod.mk.injEq] at hfill ⊢
    obtain ⟨h1, h2, h3⟩ := hfill
    subst h3
    have hw0 : s.width = 0 := by omega
    simp only [hw0, Nat.zero_sub, spaces, CSpec.zeros, List.replicate_zero, List.append_nil, List.nil_append, hN']
    split
    · rfl
    · split <;> simp [List.append_assoc]

theorem precOpt_zero_iff (prec : Int) (hp1 : -1 ≤ prec) : precOpt prec = some 0 ↔ prec = 0 := by
  unfold precOpt
  by_cases h : prec < 0
  · simp [h]; omega
  · simp [h]; omega

theorem umag_zero_iff (l : Int) (hl : -9223372036854775808 ≤ l ∧ l < 9223372036854775808) :
    (l % 18446744073709551616).toNat = 0 ↔ l = 0 := by
  omega

theorem emitInt_unsigned (tmpLen : Nat) (flags : Flags) (width : Nat) (precGiven : Bool) (prec : Int) (c : Char) (l : Int)
    (hc : c = 'o' ∨ c = 'u' ∨ c = 'x' ∨ c = 'X')
    (hpg : precGiven = false → prec = -1) (hp1 : -1 ≤ prec)
    (hl : -9223372036854775808 ≤ l ∧ l < 9223372036854775808) :
    emitInt tmpLen flags width precGiven prec c l = CSpec.render ⟨flags, width, precOpt prec, c⟩ l := by
  have hmag : CSpec.mag c l = (l % 18446744073709551616).toNat := by
    rcases hc with rfl | rfl | rfl | rfl <;> simp [CSpec.mag, CSpec.signed]
  have hm0 := umag_zero_iff l hl
  have hpgt : prec = 0 → precGiven = true := by
    intro hp0
    cases hpgv : precGiven
    · have := hpg hpgv; omega
    · rfl
  have hnz : decide (l = 0 ∧ precGiven = true ∧ prec = 0) = decide (precOpt prec = some 0 ∧ (l % 18446744073709551616).toNat = 0) := by
    apply decide_eq_decide.mpr
    rw [precOpt_zero_iff prec hp1, hm0]
    constructor
    · intro h; exact ⟨h.2.2, h.1⟩
    · intro h; exact ⟨h.2, hpgt h.1, h.1⟩
  have hnz' : (decide (l = 0) && (precGiven && decide (prec = 0))) = decide (precOpt prec = some 0 ∧ (l % 18446744073709551616).toNat = 0) := by
    rw [← hnz]; simp
  unfold emitInt
  rcases hc with rfl | rfl | rfl | rfl
  · simp [convOf]
    simp only [fmtUintmaxTo, Bool.false_eq_true, if_false]
    rw [← hmag]
    apply layout_render (s := ⟨flags, width, precOpt prec, 'o'⟩) (v := l) (precGiven := precGiven)
    case hb => simp
    case hnt => rfl
    case hnn => rfl
    case hsign => simp [optStr, CSpec.signOf, CSpec.signed]
    case hpfx =>
      simp [CSpec.prefixOf]
    case hnum =>
      apply num_eq
      case hbase => simp [CSpec.base]
      case hb => simp
      case hup => simp
      case hnz => rw [hmag]; exact hnz'
      case hzl => simp
      case hprec => rfl
      case hp1 => exact hp1
    case hfill => rfl
    case hprec => rfl
    case hpg => exact hpg
  · simp [convOf]
    simp only [fmtUintmaxTo, Bool.false_eq_true, if_false]
    rw [← hmag]
    apply layout_render (s := ⟨flags, width, precOpt prec, 'u'⟩) (v := l) (precGiven := precGiven)
    case hb => simp
    case hnt => rfl
    case hnn => rfl
    case hsign => simp [optStr, CSpec.signOf, CSpec.signed]
    case hpfx =>
      simp [CSpec.prefixOf]
    case hnum =>
      apply num_eq
      case hbase => simp [CSpec.base]
      case hb => simp
      case hup => simp
      case hnz => rw [hmag]; exact hnz'
      case hzl => simp
      case hprec => rfl
      case hp1 => exact hp1
    case hfill => rfl
    case hprec => rfl
    case hpg => exact hpg
  · simp [convOf]
    simp only [fmtUintmaxTo, Bool.false_eq_true, if_false]
    rw [← hmag]
    apply layout_render (s := ⟨flags, width, precOpt prec, 'x'⟩) (v := l) (precGiven := precGiven)
    case hb => simp
    case hnt => rfl
    case hnn => rfl
    case hsign => simp [optStr, CSpec.signOf, CSpec.signed]
    case hpfx =>
      simp only [CSpec.prefixOf, hmag]
      by_cases h0 : l = 0
      · simp [h0]
      · have : (l % 18446744073709551616).toNat ≠ 0 := fun h => h0 (hm0.mp h)
        by_cases hh : flags.hash = true <;> simp [h0, this, hh]
    case hnum =>
      apply num_eq
      case hbase => simp [CSpec.base]
      case hb => simp
      case hup => simp
      case hnz => rw [hmag]; exact hnz'
      case hzl => simp
      case hprec => rfl
      case hp1 => exact hp1
    case hfill => rfl
    case hprec => rfl
    case hpg => exact hpg
  · simp [convOf]
    simp only [fmtUintmaxTo, Bool.false_eq_true, if_false]
    rw [← hmag]
    apply layout_render (s := ⟨flags, width, precOpt prec, 'X'⟩) (v := l) (precGiven := precGiven)
    case hb => simp
    case hnt => rfl
    case hnn => rfl
    case hsign => simp [optStr, CSpec.signOf, CSpec.signed]
    case hpfx =>
      simp only [CSpec.prefixOf, hmag]
      by_cases h0 : l = 0
      · simp [h0]
      · have : (l % 18446744073709551616).toNat ≠ 0 := fun h => h0 (hm0.mp h)
        by_cases hh : flags.hash = true <;> simp [h0, this, hh]
    case hnum =>
      apply num_eq
      case hbase => simp [CSpec.base]
      case hb => simp
      case hup => simp
      case hnz => rw [hmag]; exact hnz'
      case hzl => simp
      case hprec => rfl
      case hp1 => exact hp1
    case hfill => rfl
    case hprec => rfl
    case hpg => exact hpg

theorem emitInt_signed (tmpLen : Nat) (flags : Flags) (width : Nat) (precGiven : Bool) (prec : Int) (c : Char) (l : Int)
    (hc : c = 'd' ∨ c = 'i')
    (hpg : precGiven = false → prec = -1) (hp1 : -1 ≤ prec) :
    emitInt tmpLen flags width precGiven prec c l = CSpec.render ⟨flags, width, precOpt prec, c⟩ l := by
  have hmag : CSpec.mag c l = l.natAbs := by
    rcases hc with rfl | rfl <;> simp [CSpec.mag, CSpec.signed]
  have hpgt : prec = 0 → precGiven = true := by
    intro hp0
    cases hpgv : precGiven
    · have := hpg hpgv; omega
    · rfl
  have hnz : decide (l = 0 ∧ precGiven = true ∧ prec = 0) = decide (precOpt prec = some 0 ∧ l.natAbs = 0) := by
    apply decide_eq_decide.mpr
    rw [precOpt_zero_iff prec hp1]
    constructor
    · intro h; exact ⟨h.2.2, by omega⟩
    · intro h; exact ⟨by omega, hpgt h.1, h.1⟩
  have hnz' : (decide (l = 0) && (precGiven && decide (prec = 0))) = decide (precOpt prec = some 0 ∧ l.natAbs = 0) := by
    rw [← hnz]; simp
  have hsgn : CSpec.signed c = true := by rcases hc with rfl | rfl <;> rfl
  have hbase : CSpec.base c = 10 := by rcases hc with rfl | rfl <;> rfl
  have hX : (c == 'X') = false := by rcases hc with rfl | rfl <;> rfl
  have ho : (c == 'o') = false := by rcases hc with rfl | rfl <;> rfl
  have hcv : convOf flags c l = (10, false, false, flags.plus, flags.space, false, none) := by
    rcases hc with rfl | rfl <;> simp [convOf]
  unfold emitInt
  simp only [hcv, Bool.false_eq_true, if_false]
  have key : ∀ (sign : Option Char) (value : Nat), value = l.natAbs →
      optStr sign = CSpec.signOf ⟨flags, width, precOpt prec, c⟩ l →
      retryLoop (fun size => fmtUintmax size value
        { base := 10, notrunc := true, nonull := true, nozero := decide (l = 0 ∧ precGiven = true ∧ prec = 0),
          zerolead := false, uppercase := false, plussign := flags.plus, emptysign := flags.space,
          fillright := (fillOf flags width precGiven prec).1, fillcenter := (fillOf flags width precGiven prec).2.1 }
        prec (fillOf flags width precGiven prec).2.2 sign none) (if width > 0 then width else tmpLen)
        = CSpec.render ⟨flags, width, precOpt prec, c⟩ l := by
    intro sign value hv hs
    rw [hv, ← hmag]
    apply layout_render (s := ⟨flags, width, precOpt prec, c⟩) (v := l) (precGiven := precGiven)
    case hb => simp
    case hnt => rfl
    case hnn => rfl
    case hsign => exact hs
    case hpfx =>
      simp only [CSpec.prefixOf]
      rcases hc with rfl | rfl <;> simp
    case hnum =>
      apply num_eq
      case hbase => simp [hbase]
      case hb => simp
      case hup => simp [hX]
      case hnz => rw [hmag]; simp only []; rw [hnz]
      case hzl => simp [ho]
      case hprec => rfl
      case hp1 => exact hp1
    case hfill => rfl
    case hprec => rfl
    case hpg => exact hpg
  unfold fmtIntmaxTo
  by_cases hneg : l < 0
  · simp only [hneg, if_true]
    exact key (some '-') _ (by omega) (by simp [optStr, CSpec.signOf, hsgn, hneg])
  · simp only [hneg, if_false]
    by_cases hpl : flags.plus = true
    · simp only [hpl, if_true]
      have := key (some '+') l.toNat (by omega) (by simp [optStr, CSpec.signOf, hsgn, hneg, hpl])
      simpa [hpl] using this
    · simp only [hpl, Bool.false_eq_true, if_false]
      by_cases hsp : flags.space = true
      · simp only [hsp, if_true]
        have := key (some ' ') l.toNat (by omega) (by simp [optStr, CSpec.signOf, hsgn, hneg, hpl, hsp])
        simpa [hpl, hsp] using this
      · simp only [hsp, Bool.false_eq_true, if_false]
        have := key none l.toNat (by omega) (by simp [optStr, CSpec.signOf, hsgn, hneg, hpl, hsp])
        simpa [hpl, hsp] using this

/-- the integer emitter of run.c + fmt_uintmax = ISO C, for every flag set, width, precision and value -/
theorem emitInt_eq_render (tmpLen : Nat) (flags : Flags) (width : Nat) (precGiven : Bool) (prec : Int) (c : Char) (l : Int)
    (hc : c = 'd' ∨ c = 'i' ∨ c = 'o' ∨ c = 'u' ∨ c = 'x' ∨ c = 'X')
    (hpg : precGiven = false → prec = -1) (hp1 : -1 ≤ prec)
    (hl : -9223372036854775808 ≤ l ∧ l < 9223372036854775808) :
    emitInt tmpLen flags width precGiven prec c l = CSpec.render ⟨flags, width, precOpt prec, c⟩ l := by
  rcases hc with h | h | h | h | h | h
  · exact emitInt_signed _ _ _ _ _ _ _ (Or.inl h) hpg hp1
  · exact emitInt_signed _ _ _ _ _ _ _ (Or.inr h) hpg hp1
  · exact emitInt_unsigned _ _ _ _ _ _ _ (Or.inl h) hpg hp1 hl
  · exact emitInt_unsigned _ _ _ _ _ _ _ (Or.inr (Or.inl h)) hpg hp1 hl
  · exact emitInt_unsigned _ _ _ _ _ _ _ (Or.inr (Or.inr (Or.inl h))) hpg hp1 hl
  · exact emitInt_unsigned _ _ _ _ _ _ _ (Or.inr (Or.inr (Or.inr h))) hpg hp1 hl

/-! ### scanner pieces -/

theorem scanFlags_append (fl rest : Str) (f : Flags) (hfl : ∀ c ∈ fl, isFlagChar c = true)
    (hrest : ∀ c r, rest = c :: r → isFlagChar c = false) :
    scanFlags (fl ++ rest) f = (fl.foldl Flags.add f, fl, rest) := by
  induction fl generalizing f with
  | nil =>
    cases rest with
    | nil => simp [scanFlags]
    | cons c r => simp [scanFlags, hrest c r rfl]
  | cons c r ih =>
    have hc : isFlagChar c = true := hfl c (by simp)
    simp only [List.cons_append, scanFlags, hc, if_true, List.foldl_cons]
    rw [ih _ (fun d hd => hfl d (by simp [hd]))]

theorem spanDigits_append (ds rest : Str) (hds : ∀ c ∈ ds, c.isDigit = true)
    (hrest : ∀ c r, rest = c :: r → c.isDigit = false) :
    spanDigits (ds ++ rest) = (ds, rest) := by
  induction ds with
  | nil =>
    cases rest with
    | nil => simp [spanDigits]
    | cons c r => simp [spanDigits, hrest c r rfl]
  | cons c r ih =>
    have hc : c.isDigit = true := hds c (by simp)
    simp only [List.cons_append, spanDigits, hc, if_true]
    rw [ih (fun d hd => hds d (by simp [hd]))]

theorem parseWP_width (tmpLen : Nat) (fbu : Str) (w : WSpec) (hw : w.wf) (tail : Str) (more : List Arg)
    (ht : ∀ t r, tail = t :: r → t.isDigit = false ∧ t ≠ '*') :
    parseWP tmpLen false fbu (w.text ++ tail) (w.args ++ more) =
      .ok { val := w.val, fbu := fbu ++ w.fbuText tmpLen, rest := tail, args := more, used := w.text.length } := by
  cases w with
  | none =>
    simp only [WSpec.text, WSpec.args, List.nil_append]
    unfold parseWP
    split
    · rename_i tl h; exact absurd rfl (ht _ _ rfl).2
    · rename_i tl a as; exact absurd rfl (ht _ _ rfl).2
    · have : spanDigits tail = ([], tail) := by
        cases tail with
        | nil => simp [spanDigits]
        | cons t r => simp [spanDigits, (ht t r rfl).1]
      simp [this, WSpec.val, WSpec.fbuText]
  | lit ds =>
    obtain ⟨hne, hds, _⟩ := hw
    simp only [WSpec.text, WSpec.args, List.nil_append]
    obtain ⟨d, ds', rfl⟩ := List.exists_cons_of_ne_nil hne
    have hd : d.isDigit = true := hds d (by simp)
    have hdstar : d ≠ '*' := by intro h; rw [h] at hd; simp at hd
    unfold parseWP
    split
    · rename_i h; simp at h; exact absurd h.1 hdstar
    · rename_i h; simp at h; exact absurd h.1 hdstar
    · have := spanDigits_append (d :: ds') tail hds (fun c r' h => (ht c r' h).1)
      rw [List.cons_append] at this
      simp [this, WSpec.val, WSpec.fbuText]
  | star v =>
    simp only [WSpec.text, WSpec.args, List.cons_append, List.nil_append]
    unfold parseWP
    simp [WSpec.val, WSpec.fbuText, Arg.toInt]

theorem parseWP_prec_lit (tmpLen : Nat) (fbu : Str) (ds : Str) (hds : ∀ c ∈ ds, c.isDigit = true) (tail : Str)
    (more : List Arg) (ht : ∀ t r, tail = t :: r → t.isDigit = false ∧ t ≠ '*') :
    parseWP tmpLen true (fbu ++ ['.']) (ds ++ tail) more =
      .ok { val := (PSpec.lit ds).pval, fbu := fbu ++ '.' :: ds, rest := tail, args := more, used := ds.length } := by
  cases ds with
  | nil =>
    simp only [List.nil_append]
    unfold parseWP
    split
    · exact absurd rfl (ht _ _ rfl).2
    · exact absurd rfl (ht _ _ rfl).2
    · have : spanDigits tail = ([], tail) := by
        cases tail with
        | nil => simp [spanDigits]
        | cons t r => simp [spanDigits, (ht t r rfl).1]
      simp [this, PSpec.pval]
  | cons d ds' =>
    have hd : d.isDigit = true := hds d (by simp)
    have hdstar : d ≠ '*' := by intro h; rw [h] at hd; simp at hd
    unfold parseWP
    split
    · rename_i h; simp at h; exact absurd h.1 hdstar
    · rename_i h; simp at h; exact absurd h.1 hdstar
    · have := spanDigits_append (d :: ds') tail hds (fun c r' h => (ht c r' h).1)
      rw [List.cons_append] at this
      simp [this, PSpec.pval]

theorem parseWP_prec_star (tmpLen : Nat) (fbu : Str) (v : Int) (rest : Str) (more : List Arg) :
    parseWP tmpLen true (fbu ++ ['.']) ('*' :: rest) (Arg.int v :: more) =
      .ok { val := (PSpec.star v).pval, fbu := fbu ++ (PSpec.star v).fbuText tmpLen, rest := rest, args := more, used := 1 } := by
  unfold parseWP
  by_cases hv : v < 0
  · simp [Arg.toInt, hv, PSpec.pval, PSpec.fbuText]
  · simp [Arg.toInt, hv, PSpec.pval, PSpec.fbuText]

theorem isConvEnd_not_star_digit {c : Char} (h : isConvEnd c) : c.isDigit = false ∧ c ≠ '*' := ⟨h.2.1, h.2.2.2⟩

theorem digit_not_flag (d : Char) (hd : d.isDigit = true) (h0 : d ≠ '0') : isFlagChar d = false := by
  unfold isFlagChar
  have h1 : d ≠ ' ' := by intro h; rw [h] at hd; simp at hd
  have h2 : d ≠ '#' := by intro h; rw [h] at hd; simp at hd
  have h3 : d ≠ '+' := by intro h; rw [h] at hd; simp at hd
  have h4 : d ≠ '-' := by intro h; rw [h] at hd; simp at hd
  simp [h0, h1, h2, h3, h4]

/-- the head of the scanner on a well-formed `flags width precision` followed by nothing or by a terminating character -/
theorem parseHead_spec (cfg : Cfg) (fl : Str) (hfl : ∀ c ∈ fl, isFlagChar c = true) (w : WSpec) (hw : w.wf) (p : PSpec) (hp : p.wf)
    (tail : Str) (htail : ∀ x r, tail = x :: r → isConvEnd x) (more : List Arg) :
    parseHead cfg (fl ++ w.text ++ p.text ++ tail) (w.args ++ p.args ++ more) =
      .ok { flags := flagsOf fl, wval := w.val, precGiven := p.given, pval := p.pval,
            fbu := '%' :: fl ++ w.fbuText cfg.tmpLen ++ p.fbuText cfg.tmpLen, rest := tail, args := more,
            used := fl.length + w.text.length + p.text.length } := by
  have hcsd : ∀ t r, tail = t :: r → t.isDigit = false ∧ t ≠ '*' := fun t r h => isConvEnd_not_star_digit (htail t r h)
  -- the first character after the flags is not a flag character
  have hnf : ∀ x r, w.text ++ p.text ++ tail = x :: r → isFlagChar x = false := by
    intro x r h
    cases w with
    | none =>
      cases p with
      | none => simp [WSpec.text, PSpec.text] at h; exact (htail x r h).1
      | lit ds => simp [WSpec.text, PSpec.text] at h; rw [← h.1]; rfl
      | star v => simp [WSpec.text, PSpec.text] at h; rw [← h.1]; rfl
    | lit ds =>
      obtain ⟨hne, hds, h0⟩ := hw
      obtain ⟨d, ds', rfl⟩ := List.exists_cons_of_ne_nil hne
      simp [WSpec.text] at h
      rw [← h.1]
      exact digit_not_flag d (hds d (by simp)) (by intro hd0; apply h0; simp [hd0])
    | star v => simp [WSpec.text] at h; rw [← h.1]; rfl
  unfold parseHead flagsOf
  rw [List.append_assoc, List.append_assoc, scanFlags_append fl _ _ hfl (by rw [← List.append_assoc]; exact hnf)]
  simp only []
  cases p with
  | none =>
    simp only [PSpec.text, PSpec.args, List.nil_append, List.append_nil]
    rw [parseWP_width cfg.tmpLen _ w hw tail more hcsd]
    simp only []
    split
    · exact absurd rfl (htail _ _ rfl).2.2.1
    · simp [PSpec.given, PSpec.pval, PSpec.fbuText]
  | lit ds =>
    simp only [PSpec.text, PSpec.args, List.cons_append, List.append_nil, List.append_assoc]
    rw [parseWP_width cfg.tmpLen _ w hw _ more (by intro t r h; simp at h; rw [← h.1]; decide)]
    simp only []
    rw [parseWP_prec_lit cfg.tmpLen _ ds hp tail more hcsd]
    simp [PSpec.given, PSpec.fbuText]; omega
  | star v =>
    simp only [PSpec.text, PSpec.args, List.cons_append, List.nil_append, List.append_assoc]
    rw [parseWP_width cfg.tmpLen _ w hw _ (Arg.int v :: more) (by intro t r h; simp at h; rw [← h.1]; decide)]
    simp only []
    rw [parseWP_prec_star]
    simp [PSpec.given]

/-- `formatGo` skips the characters a specifier has consumed -/
theorem formatGo_skip (cfg : Cfg) (xs ys : Str) (args : List Arg) :
    formatGo cfg (xs ++ ys) xs.length args = formatGo cfg ys 0 args := by
  induction xs with
  | nil => simp
  | cons x xs ih => simpa [formatGo] using ih

theorem decVal_nil : decVal [] = 0 := rfl

/-- the precision hawk works with and the precision C reads are the same thing -/
theorem prec_bridge (p : PSpec) :
    (match p.val with | some q => if q < 0 then none else some q.toNat | none => none) =
      precOpt (if p.given then p.pval.getD 0 else -1) ∧
    (p.given = false → (if p.given then p.pval.getD 0 else -1) = -1) ∧
    -1 ≤ (if p.given then p.pval.getD 0 else (-1 : Int)) := by
  cases p with
  | none => simp [PSpec.val, PSpec.given, precOpt]
  | lit ds =>
    by_cases h : ds = []
    · subst h; simp [PSpec.val, PSpec.given, PSpec.pval, precOpt, decVal_nil]
    · have : ¬ ((decVal ds : Int) < 0) := by omega
      simp [PSpec.val, PSpec.given, PSpec.pval, precOpt, h, this]
  | star v =>
    by_cases h : v < 0
    · simp [PSpec.val, PSpec.given, PSpec.pval, precOpt, h]
    · simp [PSpec.val, PSpec.given, PSpec.pval, precOpt, h]; omega

/-- width and `-` flag after the `if (wp[WP_WIDTH] < 0)` adjustment = C's reading of a negative `*` width -/
theorem width_bridge (fl : Flags) (w : Option Int) (p : Option Int) (c : Char) :
    (CSpec.resolve fl w p c).flags = (if w.getD 0 < 0 then { fl with minus := true } else fl) ∧
    (CSpec.resolve fl w p c).width = (if w.getD 0 < 0 then (-(w.getD 0)).toNat else (w.getD 0).toNat) := by
  unfold CSpec.resolve
  constructor
  · rfl
  · simp only []
    split <;> omega

theorem emitChar_eq (mbs : Bool) (flags : Flags) (width : Nat) (prec : Int) (po : Option Nat) (a : Arg) (ch : Char)
    (ha : a.chrOf mbs = (ch, 1)) :
    emitChar mbs flags width prec a = CSpec.renderChar ⟨flags, width, po, 'c'⟩ ch := by
  unfold emitChar
  simp only [ha]
  have hp : (if prec ≤ 0 ∨ prec > ((1 : Nat) : Int) then ((1 : Nat) : Int) else prec) = 1 := by
    split <;> omega
  simp only [hp]
  have hw : ((if (1 : Int) > (width : Int) then (1 : Int) else (width : Int)) - 1).toNat = width - 1 := by
    split <;> omega
  simp only [hw, CSpec.renderChar]
  cases flags.minus <;> simp

theorem emitStr_eq (flags : Flags) (width : Nat) (precGiven : Bool) (prec : Int) (a : Arg)
    (hpg : precGiven = false → prec = -1) (hp1 : -1 ≤ prec) :
    emitStr flags width precGiven prec a = CSpec.renderStr ⟨flags, width, precOpt prec, 's'⟩ a.strOf := by
  unfold emitStr
  generalize a.strOf = s
  unfold CSpec.renderStr precOpt
  by_cases hn : prec < 0
  · have h1 : (!precGiven) = true ∨ prec ≤ -1 ∨ prec > (s.length : Int) := Or.inr (Or.inl (by omega))
    simp only [h1, if_true, hn]
    have hw : ((if (s.length : Int) > (width : Int) then (s.length : Int) else (width : Int)) - s.length).toNat = width - s.length := by
      split <;> omega
    simp only [hw, Int.toNat_natCast, List.take_length]
    cases flags.minus <;> simp
  · have hpgt : precGiven = true := by
      cases h : precGiven
      · have := hpg h; omega
      · rfl
    simp only [hn, if_false, hpgt, Bool.not_true, Bool.false_eq_true, false_or]
    by_cases hgt : prec > (s.length : Int)
    · have h1 : prec ≤ -1 ∨ prec > (s.length : Int) := Or.inr hgt
      simp only [h1, if_true]
      have hw : ((if (s.length : Int) > (width : Int) then (s.length : Int) else (width : Int)) - s.length).toNat = width - (s.take prec.toNat).length := by
        rw [List.length_take]; split <;> omega
      have ht : s.take prec.toNat = s := List.take_of_length_le (by omega)
      simp only [hw, Int.toNat_natCast, List.take_length, ht]
      cases flags.minus <;> simp
    · have h1 : ¬ (prec ≤ -1 ∨ prec > (s.length : Int)) := by omega
      simp only [h1, if_false]
      have hw : ((if prec > (width : Int) then prec else (width : Int)) - prec).toNat = width - (s.take prec.toNat).length := by
        rw [List.length_take]; split <;> omega
      simp only [hw]
      cases flags.minus <;> simp

/-- well-formedness of the parts: only flag characters; a literal width is a non-empty digit string not
starting with 0; a literal precision is a (possibly empty) digit string -/
structure SpecWF (fl : Str) (w : WSpec) (p : PSpec) : Prop where
  hfl : ∀ c ∈ fl, isFlagChar c = true
  hw : w.wf
  hp : p.wf

/-- the state in which `dispatch` is entered for a well-formed specification -/
def headOf (cfg : Cfg) (fl : Str) (w : WSpec) (p : PSpec) (tail : Str) (more : List Arg) : Head :=
  { flags := flagsOf fl, wval := w.val, precGiven := p.given, pval := p.pval,
    fbu := '%' :: fl ++ w.fbuText cfg.tmpLen ++ p.fbuText cfg.tmpLen, rest := tail, args := more,
    used := fl.length + w.text.length + p.text.length }

theorem parseSpec_head (cfg : Cfg) (fl : Str) (w : WSpec) (p : PSpec) (wf : SpecWF fl w p)
    (tail : Str) (htail : ∀ x r, tail = x :: r → isConvEnd x) (more : List Arg) :
    parseSpec cfg (fl ++ w.text ++ p.text ++ tail) (w.args ++ p.args ++ more) =
      dispatch cfg (fl ++ w.text ++ p.text ++ tail) (headOf cfg fl w p tail more) := by
  unfold parseSpec
  rw [parseHead_spec cfg fl wf.hfl w wf.hw p wf.hp tail htail more]
  rfl

theorem specText_append (fl : Str) (w : WSpec) (p : PSpec) (c : Char) (rest : Str) :
    specText fl w p c ++ rest = fl ++ w.text ++ p.text ++ c :: rest := by
  simp [specText]

theorem specText_length (fl : Str) (w : WSpec) (p : PSpec) (c : Char) :
    (specText fl w p c).length = fl.length + w.text.length + p.text.length + 1 := by
  simp [specText]; omega

/-- C's reading of the specification, expressed with the quantities `dispatch` computes -/
theorem cspec_eq (fl : Str) (w : WSpec) (p : PSpec) (c : Char) :
    cspec fl w p c =
      ⟨(if w.val.getD 0 < 0 then { flagsOf fl with minus := true } else flagsOf fl),
       (if w.val.getD 0 < 0 then (-w.val.getD 0).toNat else (w.val.getD 0).toNat),
       precOpt (if p.given then p.pval.getD 0 else -1), c⟩ := by
  obtain ⟨hb1, _, _⟩ := prec_bridge p
  unfold cspec CSpec.resolve
  simp only [CSpec.Spec.mk.injEq]
  refine ⟨trivial, ?_, hb1, trivial⟩
  split <;> omega

theorem parseSpec_int (cfg : Cfg) (fl : Str) (w : WSpec) (p : PSpec) (wf : SpecWF fl w p) (c : Char)
    (hc : c = 'd' ∨ c = 'i' ∨ c = 'o' ∨ c = 'u' ∨ c = 'x' ∨ c = 'X')
    (a : Arg) (ha : -9223372036854775808 ≤ a.toInt ∧ a.toInt < 9223372036854775808) (rest : Str) (more : List Arg) :
    parseSpec cfg (specText fl w p c ++ rest) (w.args ++ p.args ++ a :: more) =
      .ok ([.text (CSpec.render (cspec fl w p c) a.toInt)], (specText fl w p c).length, more) := by
  have hce : isConvEnd c := by
    rcases hc with rfl | rfl | rfl | rfl | rfl | rfl <;> (unfold isConvEnd; decide)
  have hic : isIntConv c = true := by
    rcases hc with rfl | rfl | rfl | rfl | rfl | rfl <;> rfl
  rw [specText_append, parseSpec_head cfg fl w p wf (c :: rest) (by intro x r h; simp at h; rw [← h.1]; exact hce) (a :: more)]
  obtain ⟨hb1, hb2, hb3⟩ := prec_bridge p
  simp only [dispatch, headOf, hic, if_true]
  have hE := emitInt_eq_render cfg.tmpLen
    (if w.val.getD 0 < 0 then { flagsOf fl with minus := true } else flagsOf fl)
    (if w.val.getD 0 < 0 then (-w.val.getD 0).toNat else (w.val.getD 0).toNat) p.given
    (if p.given then p.pval.getD 0 else -1) c a.toInt hc hb2 hb3 ha
  rw [← cspec_eq] at hE
  rw [specText_length]
  exact congrArg (fun t => Except.ok ([Piece.text t], fl.length + w.text.length + p.text.length + 1, more)) hE

theorem parseSpec_char (cfg : Cfg) (fl : Str) (w : WSpec) (p : PSpec) (wf : SpecWF fl w p)
    (a : Arg) (ch : Char) (ha : a.chrOf cfg.mbs = (ch, 1)) (rest : Str) (more : List Arg) :
    parseSpec cfg (specText fl w p 'c' ++ rest) (w.args ++ p.args ++ a :: more) =
      .ok ([.text (CSpec.renderChar (cspec fl w p 'c') ch)], (specText fl w p 'c').length, more) := by
  have hce : isConvEnd 'c' := by unfold isConvEnd; decide
  rw [specText_append, parseSpec_head cfg fl w p wf ('c' :: rest) (by intro x r h; simp at h; rw [← h.1]; exact hce) (a :: more)]
  simp only [dispatch, headOf, show isIntConv 'c' = false from rfl, show isFltConv 'c' = false from rfl,
    Bool.false_eq_true, if_false, beq_self_eq_true, if_true]
  have hE := emitChar_eq cfg.mbs
    (if w.val.getD 0 < 0 then { flagsOf fl with minus := true } else flagsOf fl)
    (if w.val.getD 0 < 0 then (-w.val.getD 0).toNat else (w.val.getD 0).toNat)
    (if p.given then p.pval.getD 0 else -1) (precOpt (if p.given then p.pval.getD 0 else -1)) a ch ha
  rw [← cspec_eq] at hE
  rw [specText_length]
  exact congrArg (fun t => Except.ok ([Piece.text t], fl.length + w.text.length + p.text.length + 1, more)) hE

theorem parseSpec_str (cfg : Cfg) (hv : cfg.valMode = false) (fl : Str) (w : WSpec) (p : PSpec) (wf : SpecWF fl w p)
    (a : Arg) (rest : Str) (more : List Arg) :
    parseSpec cfg (specText fl w p 's' ++ rest) (w.args ++ p.args ++ a :: more) =
      .ok ([.text (CSpec.renderStr (cspec fl w p 's') a.strOf)], (specText fl w p 's').length, more) := by
  have hce : isConvEnd 's' := by unfold isConvEnd; decide
  obtain ⟨_, hb2, hb3⟩ := prec_bridge p
  rw [specText_append, parseSpec_head cfg fl w p wf ('s' :: rest) (by intro x r h; simp at h; rw [← h.1]; exact hce) (a :: more)]
  simp only [dispatch, headOf, show isIntConv 's' = false from rfl, show isFltConv 's' = false from rfl,
    show ('s' == 'c') = false from rfl, Bool.false_eq_true, if_false, beq_self_eq_true, true_or, if_true, hv]
  have hE := emitStr_eq
    (if w.val.getD 0 < 0 then { flagsOf fl with minus := true } else flagsOf fl)
    (if w.val.getD 0 < 0 then (-w.val.getD 0).toNat else (w.val.getD 0).toNat) p.given
    (if p.given then p.pval.getD 0 else -1) a hb2 hb3
  rw [← cspec_eq] at hE
  rw [specText_length]
  exact congrArg (fun t => Except.ok ([Piece.text t], fl.length + w.text.length + p.text.length + 1, more)) hE

/-- `%…%`: a percent sign, no argument taken for the conversion itself -/
theorem parseSpec_percent (cfg : Cfg) (fl : Str) (w : WSpec) (p : PSpec) (wf : SpecWF fl w p) (rest : Str) (more : List Arg) :
    parseSpec cfg (specText fl w p '%' ++ rest) (w.args ++ p.args ++ more) =
      .ok ([.text ['%']], (specText fl w p '%').length, more) := by
  have hce : isConvEnd '%' := by unfold isConvEnd; decide
  rw [specText_append, parseSpec_head cfg fl w p wf ('%' :: rest) (by intro x r h; simp at h; rw [← h.1]; exact hce) more]
  simp only [dispatch, headOf, show isIntConv '%' = false from rfl, show isFltConv '%' = false from rfl,
    show ('%' == 'c') = false from rfl, show ('%' == 's') = false from rfl, show isExtConv '%' = false from rfl,
    Bool.false_eq_true, if_false, or_self, beq_self_eq_true, if_true, specText_length]

/-- conversion characters hawk knows -/
def isKnownConv (c : Char) : Bool := isIntConv c || isFltConv c || c == 'c' || c == 's' || isExtConv c || c == '%'

/-- an unknown conversion character: the specification is copied through as written (`*` arguments are consumed) -/
theorem parseSpec_unknown (cfg : Cfg) (fl : Str) (w : WSpec) (p : PSpec) (wf : SpecWF fl w p) (c : Char)
    (hce : isConvEnd c) (hk : isKnownConv c = false) (rest : Str) (more : List Arg) :
    parseSpec cfg (specText fl w p c ++ rest) (w.args ++ p.args ++ more) =
      .ok ([.text ('%' :: specText fl w p c)], (specText fl w p c).length, more) := by
  simp only [isKnownConv, Bool.or_eq_false_iff] at hk
  obtain ⟨⟨⟨⟨⟨h1, h2⟩, h3⟩, h4⟩, h5⟩, h6⟩ := hk
  rw [specText_append, parseSpec_head cfg fl w p wf (c :: rest) (by intro x r h; simp at h; rw [← h.1]; exact hce) more]
  simp only [dispatch, headOf, h1, h2, h3, h4, h5, h6, Bool.false_eq_true, if_false, or_self]
  have : (fl ++ w.text ++ p.text ++ c :: rest).take (fl.length + w.text.length + p.text.length + 1) = specText fl w p c := by
    rw [← specText_append, ← specText_length]
    exact List.take_left' rfl
  rw [this, specText_length]

/-- the format ends inside a specification: it is copied through as written -/
theorem parseSpec_incomplete (cfg : Cfg) (fl : Str) (w : WSpec) (p : PSpec) (wf : SpecWF fl w p) (more : List Arg) :
    parseSpec cfg (fl ++ w.text ++ p.text) (w.args ++ p.args ++ more) =
      .ok ([.text ('%' :: (fl ++ w.text ++ p.text))], (fl ++ w.text ++ p.text).length, more) := by
  have := parseSpec_head cfg fl w p wf [] (by intro x r h; simp at h) more
  simp only [List.append_nil] at this
  rw [this]
  simp [dispatch, headOf]

/-- a conversion that needs an argument when none is left: HAWK_EFMTARG -/
theorem parseSpec_noarg (cfg : Cfg) (fl : Str) (w : WSpec) (p : PSpec) (wf : SpecWF fl w p) (c : Char)
    (hc : isIntConv c = true ∨ isFltConv c = true ∨ c = 'c' ∨ c = 's') (hce : isConvEnd c) (rest : Str) :
    parseSpec cfg (specText fl w p c ++ rest) (w.args ++ p.args ++ []) = .error .efmtarg := by
  rw [specText_append, parseSpec_head cfg fl w p wf (c :: rest) (by intro x r h; simp at h; rw [← h.1]; exact hce) []]
  simp only [dispatch, headOf]
  rcases hc with h | h | h | h
  · simp [h]
  · by_cases h1 : isIntConv c = true <;> simp [h, h1]
  · subst h; simp [isIntConv, isFltConv]
  · subst h; simp [isIntConv, isFltConv]

/-! ### the loop over the whole format -/

def litPieces (s : Str) : List Piece := s.map fun c => Piece.text [c]

theorem format_lit_append (cfg : Cfg) (lit : Str) (hlit : ∀ c ∈ lit, c ≠ '%') (rest : Str) (args : List Arg) :
    format cfg (lit ++ rest) args = (format cfg rest args).map (litPieces lit ++ ·) := by
  unfold format
  induction lit with
  | nil => cases h : formatGo cfg rest 0 args <;> simp [litPieces, Except.map, h]
  | cons c r ih =>
    have hc : c ≠ '%' := hlit c (by simp)
    have hc' : (c != '%') = true := by simp [hc]
    rw [List.cons_append, formatGo, if_pos hc', ih (fun d hd => hlit d (by simp [hd]))]
    cases h : formatGo cfg rest 0 args <;> simp [litPieces, Except.map, h]

theorem format_spec_ok (cfg : Cfg) (spec rest : Str) (args args' : List Arg) (ps : List Piece)
    (h : parseSpec cfg (spec ++ rest) args = .ok (ps, spec.length, args')) :
    format cfg ('%' :: spec ++ rest) args = (format cfg rest args').map (ps ++ ·) := by
  unfold format
  rw [List.cons_append, formatGo]
  simp only [bne_self_eq_false, Bool.false_eq_true, if_false, h, formatGo_skip]

theorem format_spec_err (cfg : Cfg) (spec : Str) (args : List Arg) (e : Err)
    (h : parseSpec cfg spec args = .error e) :
    format cfg ('%' :: spec) args = .error e := by
  unfold format
  rw [formatGo]
  simp only [bne_self_eq_false, Bool.false_eq_true, if_false, h]

/-- a segment of a format string: literal text without `%`, or one specification together with the arguments it takes and
what it puts out -/
inductive Seg where
  | lit (s : Str)
  | spec (text : Str) (args : List Arg) (out : List Piece)

/-- a segment behaves as it says whatever follows it -/
def Seg.Ok (cfg : Cfg) : Seg → Prop
  | .lit s => ∀ c ∈ s, c ≠ '%'
  | .spec t a o => ∀ rest more, parseSpec cfg (t ++ rest) (a ++ more) = .ok (o, t.length, more)

def Seg.text : Seg → Str
  | .lit s => s
  | .spec t _ _ => '%' :: t

def Seg.args : Seg → List Arg
  | .lit _ => []
  | .spec _ a _ => a

def Seg.out : Seg → List Piece
  | .lit s => litPieces s
  | .spec _ _ o => o

theorem format_segments (cfg : Cfg) (segs : List Seg) (h : ∀ s ∈ segs, s.Ok cfg) (more : List Arg) :
    format cfg (segs.flatMap Seg.text) (segs.flatMap Seg.args ++ more) = .ok (segs.flatMap Seg.out) := by
  induction segs with
  | nil => simp [format, formatGo]
  | cons s r ih =>
    have ihr := ih (fun x hx => h x (by simp [hx]))
    have hs := h s (by simp)
    cases s with
    | lit t =>
      simp only [List.flatMap_cons, Seg.text, Seg.args, Seg.out, List.nil_append]
      rw [format_lit_append cfg t hs, ihr]
      simp [Except.map]
    | spec t a o =>
      simp only [List.flatMap_cons, Seg.text, Seg.args, Seg.out, List.append_assoc]
      rw [format_spec_ok cfg t _ _ _ o (hs _ _), ihr]
      simp [Except.map]

/-! ### float specifiers: run.c's fbu through fmt.c -/

theorem decimal_eq (n : Nat) : decimal n = Nat.toDigits 10 n := by
  unfold decimal
  rw [revDigits_reverse 10 false (by omega) (by omega)]
  simp

theorem intText_eq (v : Int) : intText v = if v < 0 then '-' :: decimal (-v).toNat else decimal v.toNat := rfl

theorem starText_eq (tmpLen : Nat) (v : Int) : starText tmpLen v = intText v := by
  have hf : ∀ (value : Nat) (sign : Option Char) (size : Nat),
      fmtUintmax size value { base := 10, notrunc := true, nonull := true } (-1) none sign none =
        if size = 0 ∨ size < (optStr sign).length + (decimal value).length then (-(((optStr sign).length + (decimal value).length : Nat) : Int), [])
        else ((((optStr sign ++ decimal value).length : Nat) : Int), optStr sign ++ decimal value) := by
    intro value sign size
    rw [fmtUintmax_eq _ _ _ _ _ _ _ (by simp) rfl rfl]
    have hd : fmtDigits { base := 10, notrunc := true, nonull := true } value = decimal value := by
      simp [fmtDigits, decimal]
    have hpz : fmtPz { base := 10, notrunc := true, nonull := true } value (-1) = 0 := by
      simp [fmtPz]
    have hR : fmtReslen { base := 10, notrunc := true, nonull := true } value (-1) sign none = (optStr sign).length + (decimal value).length := by
      simp [fmtReslen, hd, hpz]
    have hL : ∀ sz, fmtLayout { base := 10, notrunc := true, nonull := true } value (-1) none sign none sz = optStr sign ++ decimal value := by
      intro sz; simp [fmtLayout, hd, hpz]
    simp only [hR, hL]
  have hpos : ∀ value, 0 < (decimal value).length := by
    intro value; unfold decimal; rw [List.length_reverse]; exact revDigits_length_pos _ _ _
  have key : ∀ (value : Nat) (sign : Option Char),
      (let r := fmtUintmax tmpLen value { base := 10, notrunc := true, nonull := true } (-1) none sign none
       if r.1 ≤ -1 then
         let r2 := fmtUintmax (tmpLen + max (-r.1).toNat 8192) value { base := 10, notrunc := true, nonull := true } (-1) none sign none
         r2.2.take r2.1.toNat
       else r.2.take r.1.toNat) = optStr sign ++ decimal value := by
    intro value sign
    have hp := hpos value
    simp only [hf]
    by_cases h1 : tmpLen = 0 ∨ tmpLen < (optStr sign).length + (decimal value).length
    · simp only [h1, if_true]
      have hneg : -((((optStr sign).length + (decimal value).length : Nat)) : Int) ≤ -1 := by omega
      simp only [hneg, if_true, Int.neg_neg, Int.toNat_natCast]
      have h2 : ¬ (tmpLen + max ((optStr sign).length + (decimal value).length) 8192 = 0 ∨
          tmpLen + max ((optStr sign).length + (decimal value).length) 8192 < (optStr sign).length + (decimal value).length) := by omega
      simp only [h2, if_false, Int.toNat_natCast, List.take_length]
    · simp only [h1, if_false]
      have : ¬ ((((optStr sign ++ decimal value).length : Nat) : Int) ≤ -1) := by omega
      simp only [this, if_false, Int.toNat_natCast, List.take_length]
  unfold starText fmtIntmaxTo
  rw [intText_eq]
  by_cases hv : v < 0
  · simp only [hv, if_true]
    exact key _ (some '-')
  · simp only [hv, if_false, Bool.false_eq_true]
    exact key _ none

/-- one flag character in fmt.c's `reswitch` (repaired `case '0'`) -/
def cflagStep (st : CState) (c : Char) : CState :=
  if c == '#' then { st with sharp := true }
  else if c == ' ' then { st with space := true }
  else if c == '+' then { st with sign := true }
  else if c == '-' then { st with leftadj := true, zeropad := false }
  else if c == '0' then (if st.leftadj then st else { st with zeropad := true })
  else st

theorem isFlagChar_cases {c : Char} (h : isFlagChar c = true) : c = ' ' ∨ c = '#' ∨ c = '0' ∨ c = '+' ∨ c = '-' := by
  have : (((c = ' ' ∨ c = '#') ∨ c = '0') ∨ c = '+') ∨ c = '-' := by simpa [isFlagChar] using h
  rcases this with (((h | h) | h) | h) | h <;> simp [h]

theorem fmtcScan_flag (c : Char) (r : Str) (st : CState) (hd : st.dot = false) (hw : st.width = false) (hl : st.lenmod = false)
    (hc : isFlagChar c = true) : fmtcScan (c :: r) st = fmtcScan r (cflagStep st c) := by
  rw [fmtcScan]
  rcases isFlagChar_cases hc with rfl | rfl | rfl | rfl | rfl
  all_goals simp [cflagStep, hd, hw, hl]

theorem cflagStep_inv (st : CState) (c : Char) :
    (cflagStep st c).dot = st.dot ∧ (cflagStep st c).width = st.width ∧ (cflagStep st c).lenmod = st.lenmod ∧
    (cflagStep st c).precision = st.precision ∧ (cflagStep st c).w = st.w ∧ (cflagStep st c).p = st.p := by
  unfold cflagStep
  split
  · simp
  split
  · simp
  split
  · simp
  split
  · simp
  split
  · split <;> simp
  · simp

theorem fmtcScan_flags (fl tail : Str) (st : CState) (hd : st.dot = false) (hw : st.width = false) (hl : st.lenmod = false)
    (hfl : ∀ c ∈ fl, isFlagChar c = true) : fmtcScan (fl ++ tail) st = fmtcScan tail (fl.foldl cflagStep st) := by
  induction fl generalizing st with
  | nil => rfl
  | cons c r ih =>
    have hinv := cflagStep_inv st c
    rw [List.cons_append, fmtcScan_flag c _ st hd hw hl (hfl c (by simp)), List.foldl_cons]
    exact ih _ (by rw [hinv.1, hd]) (by rw [hinv.2.1, hw]) (by rw [hinv.2.2.1, hl]) (fun d hd' => hfl d (by simp [hd']))

theorem foldl_cflagStep_inv (fl : Str) (st : CState) :
    (fl.foldl cflagStep st).dot = st.dot ∧ (fl.foldl cflagStep st).width = st.width ∧ (fl.foldl cflagStep st).lenmod = st.lenmod ∧
    (fl.foldl cflagStep st).precision = st.precision ∧ (fl.foldl cflagStep st).w = st.w ∧ (fl.foldl cflagStep st).p = st.p := by
  induction fl generalizing st with
  | nil => simp
  | cons c r ih =>
    have h1 := cflagStep_inv st c
    have h2 := ih (cflagStep st c)
    simp only [List.foldl_cons]
    refine ⟨?_, ?_, ?_, ?_, ?_, ?_⟩
    · rw [h2.1, h1.1]
    · rw [h2.2.1, h1.2.1]
    · rw [h2.2.2.1, h1.2.2.1]
    · rw [h2.2.2.2.1, h1.2.2.2.1]
    · rw [h2.2.2.2.2.1, h1.2.2.2.2.1]
    · rw [h2.2.2.2.2.2, h1.2.2.2.2.2]

theorem takeNum_append (ds tail : Str) (n : Nat) (hds : ∀ c ∈ ds, c.isDigit = true)
    (ht : ∀ t r, tail = t :: r → t.isDigit = false) :
    takeNum (ds ++ tail) n = (ds.foldl (fun n c => n * 10 + (c.toNat - 48)) n, tail) := by
  induction ds generalizing n with
  | nil =>
    cases tail with
    | nil => simp [takeNum]
    | cons t r => simp [takeNum, ht t r rfl]
  | cons d r ih =>
    have hd : d.isDigit = true := hds d (by simp)
    simp only [List.cons_append, takeNum, hd, if_true, List.foldl_cons]
    exact ih _ (fun c hc => hds c (by simp [hc]))

theorem digit_facts (d : Char) (hd : d.isDigit = true) :
    d ≠ '.' ∧ d ≠ '#' ∧ d ≠ ' ' ∧ d ≠ '+' ∧ d ≠ '-' ∧ d ≠ 'z' := by
  refine ⟨?_, ?_, ?_, ?_, ?_, ?_⟩ <;> (intro h; rw [h] at hd; simp at hd)

/-- a digit string that does not start with 0, where a width can stand -/
theorem fmtcScan_width_digits (d : Char) (ds tail : Str) (st : CState) (hd : d.isDigit = true) (hd0 : d ≠ '0')
    (hds : ∀ c ∈ ds, c.isDigit = true) (ht : ∀ t r, tail = t :: r → t.isDigit = false)
    (hdot : st.dot = false) (hl : st.lenmod = false) :
    fmtcScan (d :: ds ++ tail) st = fmtcScan tail { st with w := decVal (d :: ds), width := true } := by
  obtain ⟨h1, h2, h3, h4, h5, h6⟩ := digit_facts d hd
  rw [List.cons_append, fmtcScan]
  simp only [beq_iff_eq, h1, h2, h3, h4, h5, hd0, if_false, false_and, hd, if_true, hl, Bool.false_eq_true, hdot]
  rw [takeNum_append ds tail _ hds ht]
  simp [decVal]

/-- digits after the period -/
theorem fmtcScan_prec_digits (d : Char) (ds tail : Str) (st : CState) (hd : d.isDigit = true)
    (hds : ∀ c ∈ ds, c.isDigit = true) (ht : ∀ t r, tail = t :: r → t.isDigit = false)
    (hdot : st.dot = true) (hl : st.lenmod = false) :
    fmtcScan (d :: ds ++ tail) st = fmtcScan tail { st with p := decVal (d :: ds), precision := true } := by
  obtain ⟨h1, h2, h3, h4, h5, h6⟩ := digit_facts d hd
  rw [List.cons_append, fmtcScan]
  simp only [beq_iff_eq, h1, h2, h3, h4, h5, if_false, hd, if_true, hl, Bool.false_eq_true, hdot]
  simp only [Bool.not_true, Bool.true_or, Bool.and_false, Bool.false_eq_true, and_false, if_false, true_or, not_true_eq_false]
  rw [takeNum_append ds tail _ hds ht]
  simp [decVal]

theorem fmtcScan_dot (r : Str) (st : CState) (hdot : st.dot = false) :
    fmtcScan ('.' :: r) st = fmtcScan r { st with dot := true } := by
  rw [fmtcScan]; simp [hdot]

theorem fmtcScan_end (c : Char) (hc : c = 'e' ∨ c = 'E' ∨ c = 'f' ∨ c = 'g' ∨ c = 'G') (st : CState) (hl : st.lenmod = false) :
    fmtcScan ['z', c] st = some ({ st with lenmod := true }, c) := by
  rw [fmtcScan]
  simp only [show ('z' == '.') = false from rfl, show ('z' == '#') = false from rfl, show ('z' == ' ') = false from rfl,
    show ('z' == '+') = false from rfl, show ('z' == '-') = false from rfl, show ('z' == '0') = false from rfl,
    show 'z'.isDigit = false from rfl, Bool.false_eq_true, if_false, false_and, beq_self_eq_true, if_true, hl]
  rw [fmtcScan]
  rcases hc with rfl | rfl | rfl | rfl | rfl <;> simp

theorem decVal_eq_ofDigitChars (ds : Str) : decVal ds = Nat.ofDigitChars 10 ds 0 := by
  unfold decVal Nat.ofDigitChars
  congr 1
  funext n c
  rw [Nat.mul_comm]
  rfl

theorem decVal_decimal (n : Nat) : decVal (decimal n) = n := by
  rw [decVal_eq_ofDigitChars, decimal_eq]; exact Nat.ofDigitChars_ten_toDigits

theorem decimal_digits (n : Nat) : ∀ c ∈ decimal n, c.isDigit = true := by
  intro c hc
  rw [decimal_eq] at hc
  exact Nat.isDigit_of_mem_toDigits (by omega) (by omega) hc

theorem decimal_head (n : Nat) (hn : n ≠ 0) : ∃ d ds, decimal n = d :: ds ∧ d ≠ '0' := by
  have hne : decimal n ≠ [] := by rw [decimal_eq]; exact Nat.toDigits_ne_nil
  obtain ⟨d, ds, h⟩ := List.exists_cons_of_ne_nil hne
  refine ⟨d, ds, h, ?_⟩
  intro hd
  have := (toDigits_head_zero_iff 10 (by omega) (by omega) n).mp (by rw [← decimal_eq, h, hd]; rfl)
  exact hn this

theorem decimal_zero : decimal 0 = ['0'] := by
  rw [decimal_eq]; rfl

def wState (st : CState) : WSpec → CState
  | .none => st
  | .lit ds => { st with w := decVal ds, width := true }
  | .star v =>
    if v < 0 then { cflagStep st '-' with w := (-v).toNat, width := true }
    else if v = 0 then cflagStep st '0'
    else { st with w := v.toNat, width := true }

def pState (st : CState) : PSpec → CState
  | .none => st
  | .lit ds => if ds = [] then { st with dot := true } else { st with dot := true, p := decVal ds, precision := true }
  | .star v => if v < 0 then st else { st with dot := true, p := v.toNat, precision := true }

/-- fmt.c's state when it reaches the conversion character of a float specifier built by run.c -/
def libcState (fl : Str) (w : WSpec) (p : PSpec) : CState :=
  { pState (wState (fl.foldl cflagStep {}) w) p with lenmod := true }

theorem fmtcScan_wpart (tmpLen : Nat) (w : WSpec) (hw : w.wf) (tail : Str) (st : CState)
    (ht : ∀ t r, tail = t :: r → t.isDigit = false)
    (hdot : st.dot = false) (hwd : st.width = false) (hl : st.lenmod = false) :
    fmtcScan (w.fbuText tmpLen ++ tail) st = fmtcScan tail (wState st w) := by
  cases w with
  | none => rfl
  | lit ds =>
    obtain ⟨hne, hds, h0⟩ := hw
    obtain ⟨d, ds', rfl⟩ := List.exists_cons_of_ne_nil hne
    simp only [WSpec.fbuText, wState]
    exact fmtcScan_width_digits d ds' tail st (hds d (by simp)) (by intro h; apply h0; simp [h])
      (fun c hc => hds c (by simp [hc])) ht hdot hl
  | star v =>
    simp only [WSpec.fbuText, wState, starText_eq, intText_eq]
    by_cases hv : v < 0
    · simp only [hv, if_true]
      obtain ⟨d, ds, hdd, hd0⟩ := decimal_head (-v).toNat (by omega)
      have hdig := decimal_digits (-v).toNat
      rw [hdd] at hdig
      have hinv := cflagStep_inv st '-'
      rw [List.cons_append, fmtcScan_flag '-' _ st hdot hwd hl rfl, hdd,
        fmtcScan_width_digits d ds tail _ (hdig d (by simp)) hd0 (fun c hc => hdig c (by simp [hc])) ht
          (by rw [hinv.1, hdot]) (by rw [hinv.2.2.1, hl]), ← hdd, decVal_decimal]
    · simp only [hv, if_false]
      by_cases h0 : v = 0
      · subst h0
        simp only [Int.toNat_zero, decimal_zero, if_true]
        exact fmtcScan_flag '0' _ st hdot hwd hl rfl
      · simp only [h0, if_false]
        obtain ⟨d, ds, hdd, hd0⟩ := decimal_head v.toNat (by omega)
        have hdig := decimal_digits v.toNat
        rw [hdd] at hdig
        rw [hdd, fmtcScan_width_digits d ds tail _ (hdig d (by simp)) hd0 (fun c hc => hdig c (by simp [hc])) ht hdot hl,
          ← hdd, decVal_decimal]

theorem fmtcScan_ppart (tmpLen : Nat) (p : PSpec) (hp : p.wf) (c : Char) (st : CState)
    (hdot : st.dot = false) (hl : st.lenmod = false) :
    fmtcScan (p.fbuText tmpLen ++ ['z', c]) st = fmtcScan ['z', c] (pState st p) := by
  have htz : ∀ t r, ['z', c] = t :: r → t.isDigit = false := by
    intro t r h; simp at h; rw [← h.1]; rfl
  cases p with
  | none => rfl
  | lit ds =>
    simp only [PSpec.fbuText, pState, List.cons_append]
    rw [fmtcScan_dot _ st hdot]
    cases ds with
    | nil => simp
    | cons d ds' =>
      simp only [List.cons_ne_nil, if_false] 
      exact fmtcScan_prec_digits d ds' _ { st with dot := true } (hp d (by simp)) (fun x hx => hp x (by simp [hx])) htz rfl hl
  | star v =>
    simp only [PSpec.fbuText, pState]
    by_cases hv : v < 0
    · simp [hv]
    · simp only [hv, if_false, List.cons_append, starText_eq, intText_eq]
      rw [fmtcScan_dot _ st hdot]
      have hne : decimal v.toNat ≠ [] := by rw [decimal_eq]; exact Nat.toDigits_ne_nil
      obtain ⟨d, ds, hdd⟩ := List.exists_cons_of_ne_nil hne
      have hdig := decimal_digits v.toNat
      rw [hdd] at hdig
      rw [hdd, fmtcScan_prec_digits d ds _ { st with dot := true } (hdig d (by simp)) (fun x hx => hdig x (by simp [hx])) htz rfl hl, ← hdd, decVal_decimal]

theorem wState_inv (st : CState) (w : WSpec) : (wState st w).dot = st.dot ∧ (wState st w).lenmod = st.lenmod := by
  cases w with
  | none => simp [wState]
  | lit ds => simp [wState]
  | star v =>
    simp only [wState]
    split
    · simp [(cflagStep_inv st '-').1, (cflagStep_inv st '-').2.2.1]
    · split
      · simp [(cflagStep_inv st '0').1, (cflagStep_inv st '0').2.2.1]
      · simp

theorem pState_lenmod (st : CState) (p : PSpec) : (pState st p).lenmod = st.lenmod := by
  cases p with
  | none => rfl
  | lit ds => simp only [pState]; split <;> rfl
  | star v => simp only [pState]; split <;> rfl

/-- the float branch: the specifier run.c builds is accepted by fmt.c and re-composed for libc -/
theorem emitFloat_spec (cfg : Cfg) (fl : Str) (w : WSpec) (p : PSpec) (wf : SpecWF fl w p) (c : Char)
    (hc : c = 'e' ∨ c = 'E' ∨ c = 'f' ∨ c = 'g' ∨ c = 'G') (a : Arg) :
    emitFloat ('%' :: fl ++ w.fbuText cfg.tmpLen ++ p.fbuText cfg.tmpLen) c a = .libc (recompose (libcState fl w p) c) a := by
  unfold emitFloat fmtcFloat
  have h0 := foldl_cflagStep_inv fl {}
  have hscan : fmtcScan (fl ++ w.fbuText cfg.tmpLen ++ p.fbuText cfg.tmpLen ++ ['z', c]) {} = some (libcState fl w p, c) := by
    rw [List.append_assoc, List.append_assoc, fmtcScan_flags fl _ {} rfl rfl rfl wf.hfl]
    have hwi := wState_inv (fl.foldl cflagStep {}) w
    rw [fmtcScan_wpart cfg.tmpLen w wf.hw _ _ ?_ (by rw [h0.1]) (by rw [h0.2.1]) (by rw [h0.2.2.1]),
      fmtcScan_ppart cfg.tmpLen p wf.hp c _ (by rw [hwi.1, h0.1]) (by rw [hwi.2, h0.2.2.1]),
      fmtcScan_end c hc _ (by rw [pState_lenmod, hwi.2, h0.2.2.1])]
    · rfl
    · intro t r h
      cases p with
      | none => simp [PSpec.fbuText] at h; rw [← h.1]; rfl
      | lit ds => simp [PSpec.fbuText] at h; rw [← h.1]; rfl
      | star v =>
        simp only [PSpec.fbuText] at h
        split at h
        · simp at h; rw [← h.1]; rfl
        · simp at h; rw [← h.1]; rfl
  simp only [List.cons_append, hscan, Option.map_some]

theorem foldl_cflagStep_fields (fl : Str) (hfl : ∀ c ∈ fl, isFlagChar c = true) (st : CState) :
    (fl.foldl cflagStep st).sharp = (st.sharp || fl.contains '#') ∧
    (fl.foldl cflagStep st).space = (st.space || fl.contains ' ') ∧
    (fl.foldl cflagStep st).sign = (st.sign || fl.contains '+') ∧
    (fl.foldl cflagStep st).leftadj = (st.leftadj || fl.contains '-') ∧
    (fl.foldl cflagStep st).zeropad = (if fl.contains '-' then false else st.zeropad || (fl.contains '0' && !st.leftadj)) := by
  induction fl generalizing st with
  | nil => simp
  | cons c r ih =>
    have ihr := ih (fun d hd => hfl d (by simp [hd])) (cflagStep st c)
    simp only [List.foldl_cons]
    obtain ⟨i1, i2, i3, i4, i5⟩ := ihr
    rw [i1, i2, i3, i4, i5]
    rcases isFlagChar_cases (hfl c (by simp)) with rfl | rfl | rfl | rfl | rfl
    · simp [cflagStep, List.contains_cons, Bool.or_assoc]
    · simp [cflagStep, List.contains_cons, Bool.or_assoc]
    · cases hl : st.leftadj <;> simp [cflagStep, List.contains_cons, hl]
    · simp [cflagStep, List.contains_cons, Bool.or_assoc]
    · simp [cflagStep, List.contains_cons]

/-- the specifier libc `snprintf` receives for a float conversion: the flags of the user's specifier in a fixed order
(`0` dropped when `-` is present or the `*` width is negative), the width as a number (`*` substituted, a negative one as
`-` flag plus its absolute value), the precision as a number (a negative `*` precision omitted), `L`, the conversion -/
def libcSpecOf (fl : Str) (w : WSpec) (p : PSpec) (c : Char) : Str :=
  let neg : Bool := match w with | .star v => decide (v < 0) | _ => false
  let wzero : Bool := match w with | .star v => decide (v = 0) | _ => false
  let minus := fl.contains '-' || neg
  let zero := (fl.contains '0' || wzero) && !minus
  ['%'] ++ (if fl.contains ' ' then [' '] else []) ++ (if fl.contains '#' then ['#'] else [])
    ++ (if fl.contains '+' then ['+'] else []) ++ (if minus then ['-'] else []) ++ (if zero then ['0'] else [])
    ++ (match w with
        | .none => []
        | .lit ds => decimal (decVal ds)
        | .star v => if v = 0 then [] else decimal v.natAbs)
    ++ (match p with
        | .none => []
        | .lit ds => '.' :: (if ds = [] then [] else decimal (decVal ds))
        | .star v => if v < 0 then [] else '.' :: decimal v.toNat)
    ++ ['L', c]

theorem recompose_libcState (fl : Str) (w : WSpec) (p : PSpec) (wf : SpecWF fl w p) (c : Char) :
    recompose (libcState fl w p) c = libcSpecOf fl w p c := by
  obtain ⟨f1, f2, f3, f4, f5⟩ := foldl_cflagStep_fields fl wf.hfl {}
  obtain ⟨g1, g2, g3, g4, g5, g6⟩ := foldl_cflagStep_inv fl {}
  simp only [Bool.false_or, Bool.not_false, Bool.and_true] at f1 f2 f3 f4 f5
  unfold libcState recompose libcSpecOf
  have hcm : ∀ (a b : Prop) [Decidable a] [Decidable b] (x y : Str), (if a ∧ b then x else y) = (if b ∧ a then x else y) := by
    intro a b _ _ x y; by_cases ha : a <;> by_cases hb : b <;> simp [ha, hb]
  cases w with
  | none =>
    cases p with
    | none => simp [wState, pState, f1, f2, f3, f4, f5, g1, g2, g4]; apply hcm
    | lit ds =>
      by_cases hds : ds = []
      · simp [wState, pState, f1, f2, f3, f4, f5, g1, g2, g4, hds]; apply hcm
      · simp [wState, pState, f1, f2, f3, f4, f5, g1, g2, g4, hds]; apply hcm
    | star v =>
      by_cases hv : v < 0
      · simp [wState, pState, f1, f2, f3, f4, f5, g1, g2, g4, hv]; apply hcm
      · simp [wState, pState, f1, f2, f3, f4, f5, g1, g2, g4, hv]; apply hcm
  | lit ds =>
    cases p with
    | none => simp [wState, pState, f1, f2, f3, f4, f5, g1, g2, g4]; apply hcm
    | lit ds' =>
      by_cases hds : ds' = []
      · simp [wState, pState, f1, f2, f3, f4, f5, g1, g2, g4, hds]; apply hcm
      · simp [wState, pState, f1, f2, f3, f4, f5, g1, g2, g4, hds]; apply hcm
    | star v =>
      by_cases hv : v < 0
      · simp [wState, pState, f1, f2, f3, f4, f5, g1, g2, g4, hv]; apply hcm
      · simp [wState, pState, f1, f2, f3, f4, f5, g1, g2, g4, hv]; apply hcm
  | star u =>
    have i1 := cflagStep_inv (fl.foldl cflagStep {}) '-'
    have i2 := cflagStep_inv (fl.foldl cflagStep {}) '0'
    by_cases hu : u < 0
    · have hu0 : u ≠ 0 := by omega
      have hna : (-u).toNat = u.natAbs := by omega
      cases p with
      | none => simp [wState, pState, cflagStep, f1, f2, f3, f4, f5, g1, g2, g4, hu, hu0, hna]
      | lit ds' =>
        by_cases hds : ds' = []
        · simp [wState, pState, cflagStep, f1, f2, f3, f4, f5, g1, g2, g4, hds, hu, hu0, hna]
        · simp [wState, pState, cflagStep, f1, f2, f3, f4, f5, g1, g2, g4, hds, hu, hu0, hna]
      | star v =>
        by_cases hv : v < 0
        · simp [wState, pState, cflagStep, f1, f2, f3, f4, f5, g1, g2, g4, hv, hu, hu0, hna]
        · simp [wState, pState, cflagStep, f1, f2, f3, f4, f5, g1, g2, g4, hv, hu, hu0, hna]
    · by_cases hu0 : u = 0
      · subst hu0
        cases hla : (fl.foldl cflagStep {}).leftadj
        · have hm0 : fl.contains '-' = false := by rw [← f4, hla]
          have hm : ¬ '-' ∈ fl := by simpa using hm0
          cases p with
          | none => simp [wState, pState, cflagStep, f1, f2, f3, f4, f5, g1, g2, g4, hla, hm]
          | lit ds' =>
            by_cases hds : ds' = []
            · simp [wState, pState, cflagStep, f1, f2, f3, f4, f5, g1, g2, g4, hds, hla, hm]
            · simp [wState, pState, cflagStep, f1, f2, f3, f4, f5, g1, g2, g4, hds, hla, hm]
          | star v =>
            by_cases hv : v < 0
            · simp [wState, pState, cflagStep, f1, f2, f3, f4, f5, g1, g2, g4, hv, hla, hm]
            · simp [wState, pState, cflagStep, f1, f2, f3, f4, f5, g1, g2, g4, hv, hla, hm]
        · have hm0 : fl.contains '-' = true := by rw [← f4, hla]
          have hm : '-' ∈ fl := by simpa using hm0
          cases p with
          | none => simp [wState, pState, cflagStep, f1, f2, f3, f4, f5, g1, g2, g4, hla, hm]
          | lit ds' =>
            by_cases hds : ds' = []
            · simp [wState, pState, cflagStep, f1, f2, f3, f4, f5, g1, g2, g4, hds, hla, hm]
            · simp [wState, pState, cflagStep, f1, f2, f3, f4, f5, g1, g2, g4, hds, hla, hm]
          | star v =>
            by_cases hv : v < 0
            · simp [wState, pState, cflagStep, f1, f2, f3, f4, f5, g1, g2, g4, hv, hla, hm]
            · simp [wState, pState, cflagStep, f1, f2, f3, f4, f5, g1, g2, g4, hv, hla, hm]
      · have hna : u.toNat = u.natAbs := by omega
        cases p with
        | none => simp [wState, pState, f1, f2, f3, f4, f5, g1, g2, g4, hu, hu0, hna]; apply hcm
        | lit ds' =>
          by_cases hds : ds' = []
          · simp [wState, pState, f1, f2, f3, f4, f5, g1, g2, g4, hds, hu, hu0, hna]; apply hcm
          · simp [wState, pState, f1, f2, f3, f4, f5, g1, g2, g4, hds, hu, hu0, hna]; apply hcm
        | star v =>
          by_cases hv : v < 0
          · simp [wState, pState, f1, f2, f3, f4, f5, g1, g2, g4, hv, hu, hu0, hna]; apply hcm
          · simp [wState, pState, f1, f2, f3, f4, f5, g1, g2, g4, hv, hu, hu0, hna]; apply hcm

theorem parseSpec_float (cfg : Cfg) (fl : Str) (w : WSpec) (p : PSpec) (wf : SpecWF fl w p) (c : Char)
    (hc : c = 'e' ∨ c = 'E' ∨ c = 'f' ∨ c = 'g' ∨ c = 'G') (a : Arg) (rest : Str) (more : List Arg) :
    parseSpec cfg (specText fl w p c ++ rest) (w.args ++ p.args ++ a :: more) =
      .ok ([.libc (libcSpecOf fl w p c) a], (specText fl w p c).length, more) := by
  have hce : isConvEnd c := by
    rcases hc with rfl | rfl | rfl | rfl | rfl <;> (unfold isConvEnd; decide)
  have h1 : isIntConv c = false := by rcases hc with rfl | rfl | rfl | rfl | rfl <;> rfl
  have h2 : isFltConv c = true := by rcases hc with rfl | rfl | rfl | rfl | rfl <;> rfl
  rw [specText_append, parseSpec_head cfg fl w p wf (c :: rest) (by intro x r h; simp at h; rw [← h.1]; exact hce) (a :: more)]
  simp only [dispatch, headOf, h1, h2, Bool.false_eq_true, if_false, if_true]
  rw [emitFloat_spec cfg fl w p wf c hc a, recompose_libcState fl w p wf c, specText_length]

/-- `%s` when called from val_flt_to_str (CONVFMT/OFMT): formatted as if `%g` were given -/
theorem parseSpec_str_valmode (cfg : Cfg) (hv : cfg.valMode = true) (fl : Str) (w : WSpec) (p : PSpec) (wf : SpecWF fl w p)
    (a : Arg) (rest : Str) (more : List Arg) :
    parseSpec cfg (specText fl w p 's' ++ rest) (w.args ++ p.args ++ a :: more) =
      .ok ([.libc (libcSpecOf fl w p 'g') a], (specText fl w p 's').length, more) := by
  have hce : isConvEnd 's' := by unfold isConvEnd; decide
  rw [specText_append, parseSpec_head cfg fl w p wf ('s' :: rest) (by intro x r h; simp at h; rw [← h.1]; exact hce) (a :: more)]
  simp only [dispatch, headOf, show isIntConv 's' = false from rfl, show isFltConv 's' = false from rfl,
    show ('s' == 'c') = false from rfl, Bool.false_eq_true, if_false, beq_self_eq_true, true_or, if_true, hv]
  rw [emitFloat_spec cfg fl w p wf 'g' (by simp) a, recompose_libcState fl w p wf 'g', specText_length]

/-! ### val.c -/

theorem countDigits_eq (t : Nat) (ht : 0 < t) : countDigits t = (revDigits 10 false t).length := by
  induction t using Nat.strongRecOn with
  | _ t ih =>
    rw [countDigits, revDigits_eq 10 false t (by omega)]
    simp only [ht, dif_pos]
    by_cases h : t / 10 > 0
    · simp only [h, if_true, List.length_cons]
      rw [ih (t / 10) (Nat.div_lt_self ht (by omega)) h]
    · have h0 : t / 10 = 0 := by omega
      simp only [h, if_false, List.length_singleton, h0]
      rw [countDigits]; simp

theorem intText_eq_render (v : Int) : intText v = CSpec.render (cspec [] .none .none 'd') v := by
  have hd : ∀ n : Nat, CSpec.digits 'd' n = decimal n := by
    intro n; rw [decimal_eq]; simp [CSpec.digits, CSpec.base]
  have hpos : ∀ n : Nat, 0 < (decimal n).length := by
    intro n; unfold decimal; rw [List.length_reverse]; exact revDigits_length_pos _ _ _
  rw [intText_eq]
  simp only [CSpec.render, cspec, CSpec.resolve, flagsOf, WSpec.val, PSpec.val, CSpec.signOf, CSpec.prefixOf, CSpec.numOf,
    CSpec.digitsOf, CSpec.mag, CSpec.signed, List.foldl_nil, Option.getD_none]
  have hz : ∀ n : Nat, CSpec.zeros (1 - (decimal n).length) = [] := by
    intro n; have := hpos n; simp [CSpec.zeros]; omega
  by_cases hv : v < 0
  · have : (-v).toNat = v.natAbs := by omega
    simp [hv, hd, hz, this, spaces]
  · have : v.toNat = v.natAbs := by omega
    simp [hv, hd, hz, this, spaces]

theorem intRlen_exact (v : Int) : intRlen v = (intText v).length := by
  rw [intText_eq, intRlen]
  by_cases h0 : v = 0
  · subst h0; simp [decimal_zero]
  · have hn : 0 < v.natAbs := by omega
    simp only [h0, if_false]
    rw [countDigits_eq _ hn]
    by_cases hv : v < 0
    · have : (-v).toNat = v.natAbs := by omega
      simp [hv, this, decimal]; omega
    · have : v.toNat = v.natAbs := by omega
      simp [hv, this, decimal]

theorem intCells_eq (v : Int) : intCells v (intRlen v) = intText v := by
  have hl := intRlen_exact v
  rw [intCells]
  by_cases h0 : v = 0
  · subst h0; simp [intRlen, intText_eq, decimal_zero]
  · simp only [h0, if_false]
    rw [intText_eq] at hl ⊢
    by_cases hv : v < 0
    · have : (-v).toNat = v.natAbs := by omega
      simp only [hv, if_true, this] at hl ⊢
      rw [hl]; simp [decimal]
    · have : v.toNat = v.natAbs := by omega
      simp only [hv, if_false, this] at hl ⊢
      rw [hl]; simp [decimal]

end Hawk.Fmt
