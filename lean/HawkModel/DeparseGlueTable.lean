import HawkModel.DeparseGlue
/-! the gluing criterion against the C's walk over `ops[]`, by evaluation on the generated table -/
namespace Hawk.Deparse
open Hawk.Gen.Precedence

/-- spellings of the symbol tokens that print_expr writes directly before another token (no blank):
    punctuation, the unary operators, the increment operators -/
def gluePrinted : List String :=
  ["(", ")", "[", "]", ",", "?", ":", "$"] ++ [UnrOp.PLUS, .MINUS, .LNOT, .BNOT].map unropStr ++ [IncOp.PLUS, .MINUS].map incopStr

/-- for each of them followed by any symbol of the table: either the first character of the follower extends it to
    a longer symbol (then `cutOK` refuses the pair), or get_symbols() cuts exactly after it -/
theorem cut_sound_symbols :
    gluePrinted.all (fun s1 => symTable.all (fun e2 =>
      match e2.1.toList with
      | c :: _ => extendsCC s1 (.ch c) ||
          (symWalk symTable 0 (s1.toList ++ e2.1.toList) == some (s1, tkOfSpelling s1, e2.1.toList))
      | [] => true)) = true := by decide +kernel

/-- ... and followed by a letter, a digit, a quote, `@`, `_` (first characters of the other token kinds) -/
theorem cut_sound_others :
    gluePrinted.all (fun s1 => ['a', 'Z', '_', '0', '9', '"', '\'', '@'].all (fun c =>
      symWalk symTable 0 (s1.toList ++ [c]) == some (s1, tkOfSpelling s1, [c]))) = true := by decide +kernel

/-- letters, digits, quotes and `@` occur in no symbol (so only `.`, for a number, can extend a symbol: `extendsCC`) -/
theorem symbols_have_no_alnum :
    symTable.all (fun e => e.1.toList.all (fun c => !isAlnum c && c != '"' && c != '\'' && c != '@')) = true := by
  decide +kernel

end Hawk.Deparse
