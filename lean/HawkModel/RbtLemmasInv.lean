import HawkModel.RbtLemmas
/-!
# C16 (rbt): colour and black-height invariants of insert and delete
-/
namespace Hawk.Rbt
open Color T

variable {V : Type}

/-- no red-red violation below the root; a red root may have at most one red child
    (the state of the tree while the loop of `adjust` is running with `pair` = that child) -/
def AlmostNoRR : T V → Prop
  | nil => True
  | node c l _ _ r => NoRR l ∧ NoRR r ∧ (c = R → col l = B ∨ col r = B)

theorem NoRR.almost {t : T V} (h : NoRR t) : AlmostNoRR t := by
  cases t with
  | nil => trivial
  | node c l k v r => simp [AlmostNoRR] at *; exact ⟨h.1, h.2.1, fun hc => Or.inl (h.2.2 hc).1⟩

theorem col_cases (t : T V) : col t = R ∨ col t = B := by
  cases h : col t <;> simp

@[simp] theorem col_ne_R {t : T V} : (¬ col t = R) ↔ col t = B := by
  cases h : col t <;> simp

@[simp] theorem col_ne_B {t : T V} : (¬ col t = B) ↔ col t = R := by
  cases h : col t <;> simp

theorem bh_setBlack_red {t : T V} (h : col t = R) : bh (setBlack t) = bh t + 1 := by
  cases t with
  | nil => simp at h
  | node c l k v r => simp at h; simp [h]

@[simp] theorem col_setBlack (t : T V) : col (setBlack t) = B := by cases t <;> rfl

theorem NoRR_setBlack {t : T V} (h : AlmostNoRR t) : NoRR (setBlack t) := by
  cases t with
  | nil => trivial
  | node c l k v r => simp [AlmostNoRR] at *; exact ⟨h.1, h.2.1⟩

theorem Bal_setBlack {t : T V} (h : Bal t) : Bal (setBlack t) := by
  cases t with
  | nil => trivial
  | node c l k v r => simpa using h

/-! ## insert -/

theorem fixInsL_id {p : T V} (h : NoRR p) (c : Color) (k : Nat) (v : V) (u : T V) :
    fixInsL c p k v u = node c p k v u := by
  unfold fixInsL
  split
  · simp at h
    simp [h]
  · rfl

theorem fixInsR_id {p : T V} (h : NoRR p) (c : Color) (k : Nat) (v : V) (u : T V) :
    fixInsR c u k v p = node c u k v p := by
  unfold fixInsR
  split
  · simp at h
    simp [h]
  · rfl

theorem col_B_of_not_red_node {t : T V} (h : ∀ a k v b, ¬ t = node R a k v b) : col t = B := by
  cases t with
  | nil => rfl
  | node c l k v r =>
    cases c
    · exact absurd rfl (h l k v r)
    · rfl

theorem AlmostNoRR.noRR_of_black {t : T V} (h : AlmostNoRR t) (hc : col t = B) : NoRR t := by
  cases t with
  | nil => trivial
  | node c l k v r => simp [AlmostNoRR] at *; simp [h, hc]

theorem fixInsL_noRR {p u : T V} (hp : AlmostNoRR p) (hu : NoRR u) (k : Nat) (v : V) :
    NoRR (fixInsL B p k v u) := by
  unfold fixInsL
  split
  · simp only [AlmostNoRR] at hp
    split
    · split
      · simp_all
        exact (NoRR_setBlack hu.almost)
      · split
        · simp_all
        · rename_i hx
          have := col_B_of_not_red_node hx
          simp_all
    · simp_all
  · rename_i hx
    have := hp.noRR_of_black (col_B_of_not_red_node hx)
    simp_all

theorem fixInsR_noRR {p u : T V} (hp : AlmostNoRR p) (hu : NoRR u) (k : Nat) (v : V) :
    NoRR (fixInsR B u k v p) := by
  unfold fixInsR
  split
  · simp only [AlmostNoRR] at hp
    split
    · split
      · simp_all
        exact (NoRR_setBlack hu.almost)
      · split
        · simp_all
        · rename_i hx
          have := col_B_of_not_red_node hx
          simp_all
    · simp_all
  · rename_i hx
    have := hp.noRR_of_black (col_B_of_not_red_node hx)
    simp_all

theorem fixInsL_bh {c : Color} {p : T V} (h : c = B ∨ NoRR p) (k : Nat) (v : V) (u : T V) :
    bh (fixInsL c p k v u) = bh p + (if c = B then 1 else 0) := by
  rcases h with h | h
  · subst h
    unfold fixInsL
    split
    · split
      · split
        · simp
        · split <;> simp
      · simp
    · simp
  · rw [fixInsL_id h]; simp

theorem fixInsR_bh {c : Color} {p : T V} (h : c = B ∨ NoRR p) (k : Nat) (v : V) (u : T V) :
    bh (fixInsR c u k v p) = bh u + (if c = B then 1 else 0) := by
  rcases h with h | h
  · subst h
    unfold fixInsR
    split
    · split
      · split
        · rename_i hu; simp [bh_setBlack_red hu]
        · split <;> simp
      · simp
    · simp
  · rw [fixInsR_id h]; simp

theorem fixInsL_bal {p u : T V} (hp : Bal p) (hu : Bal u) (hb : bh p = bh u) (c : Color) (k : Nat) (v : V) :
    Bal (fixInsL c p k v u) := by
  unfold fixInsL
  split
  · split
    · split
      · rename_i hur
        simp_all [Bal_setBlack, bh_setBlack_red]
      · split
        · simp_all
        · simp_all
    · simp_all
  · simp_all

theorem fixInsR_bal {p u : T V} (hp : Bal p) (hu : Bal u) (hb : bh u = bh p) (c : Color) (k : Nat) (v : V) :
    Bal (fixInsR c u k v p) := by
  unfold fixInsR
  split
  · split
    · split
      · rename_i hur
        simp_all [Bal_setBlack, bh_setBlack_red]
      · split
        · simp_all; omega
        · simp_all
    · simp_all
  · simp_all

/-- the invariants carried through the descent and fix-up of `insert` -/
theorem ins_inv (k : Nat) (v : V) (t : T V) (hn : NoRR t) (hb : Bal t) :
    AlmostNoRR (ins k v t) ∧ (col t = B → NoRR (ins k v t)) ∧ Bal (ins k v t) ∧ bh (ins k v t) = bh t := by
  induction t with
  | nil => simp [ins, AlmostNoRR]
  | node c l k' v' r ihl ihr =>
    simp only [NoRR] at hn
    simp only [Bal] at hb
    obtain ⟨hnl, hnr, hc⟩ := hn
    obtain ⟨hbl, hbr, hbh⟩ := hb
    obtain ⟨al, nl, bl, el⟩ := ihl hnl hbl
    obtain ⟨ar, nr, br, er⟩ := ihr hnr hbr
    simp only [ins]
    split
    · simp_all [AlmostNoRR]
    · split
      · -- right
        cases c with
        | B =>
          have h1 := fixInsR_noRR ar hnl k' v'
          refine ⟨h1.almost, fun _ => h1, fixInsR_bal br hbl (by omega) _ _ _, ?_⟩
          rw [fixInsR_bh (Or.inl rfl)]; simp
        | R =>
          have hcr := (hc rfl)
          have h1 := nr hcr.2
          rw [fixInsR_id h1]
          simp_all [AlmostNoRR]
      · cases c with
        | B =>
          have h1 := fixInsL_noRR al hnr k' v'
          refine ⟨h1.almost, fun _ => h1, fixInsL_bal bl hbr (by omega) _ _ _, ?_⟩
          rw [fixInsL_bh (Or.inl rfl)]; simp [el]
        | R =>
          have hcr := (hc rfl)
          have h1 := nl hcr.1
          rw [fixInsL_id h1]
          simp_all [AlmostNoRR]

/-- `change_pair_val` touches neither colours nor links -/
theorem setVal_shape (k : Nat) (v : V) (t : T V) :
    col (setVal k v t) = col t ∧ bh (setVal k v t) = bh t ∧ (NoRR t → NoRR (setVal k v t)) ∧
    (Bal t → Bal (setVal k v t)) ∧ size (setVal k v t) = size t ∧ height (setVal k v t) = height t := by
  induction t with
  | nil => simp [setVal]
  | node c l k' v' r ihl ihr =>
    simp only [setVal]
    split
    · simp
    · split
      · simp only [col_node, bh, NoRR, Bal, size, height, true_and]
        refine ⟨fun h => ⟨h.1, ihr.2.2.1 h.2.1, fun hc => ?_⟩, fun h => ⟨h.1, ihr.2.2.2.1 h.2.1, ?_⟩, ?_, ?_⟩
        · rw [ihr.1]; exact h.2.2 hc
        · rw [ihr.2.1]; exact h.2.2
        · rw [ihr.2.2.2.2.1]
        · rw [ihr.2.2.2.2.2]
      · simp only [col_node, bh, NoRR, Bal, size, height, true_and]
        refine ⟨by rw [ihl.2.1], fun h => ⟨ihl.2.2.1 h.1, h.2.1, fun hc => ?_⟩,
                fun h => ⟨ihl.2.2.2.1 h.1, h.2.1, ?_⟩, ?_, ?_⟩
        · rw [ihl.1]; exact h.2.2 hc
        · rw [ihl.2.1]; exact h.2.2
        · rw [ihl.2.2.2.2.1]
        · rw [ihl.2.2.2.2.2]

/-! ## delete -/

/-- what one level of `del` guarantees: `t'` replaces `t`, `d` = "one black pair short" -/
def DelOut (t t' : T V) (d : Bool) : Prop :=
  NoRR t' ∧ Bal t' ∧ bh t' + (if d then 1 else 0) = bh t ∧ (col t = B → col t' = B)

theorem splice_inv (c : Color) {x : T V} (hn : NoRR x) (hb : Bal x) :
    NoRR (splice c x).1 ∧ Bal (splice c x).1 ∧
    bh (splice c x).1 + (if (splice c x).2 then 1 else 0) = bh x + (if c = B then 1 else 0) ∧
    (c = B → col (splice c x).1 = B) := by
  unfold splice
  cases c with
  | R => simp [hn, hb]
  | B =>
    simp only
    split
    · rename_i h
      simp [NoRR_setBlack hn.almost, Bal_setBlack hb, bh_setBlack_red h]
    · rename_i h
      simp at h
      simp [hn, hb, h]

theorem fixDelL'_inv {c : Color} {l r : T V} (k : Nat) (v : V)
    (hnl : NoRR l) (hbl : Bal l) (hnr : NoRR r) (hbr : Bal r) (hbh : bh l + 1 = bh r) (hcr : col r = B) :
    NoRR (fixDelL' c l k v r).1 ∧ Bal (fixDelL' c l k v r).1 ∧
    bh (fixDelL' c l k v r).1 + (if (fixDelL' c l k v r).2 then 1 else 0) = bh r + (if c = B then 1 else 0) ∧
    (c = B → col (fixDelL' c l k v r).1 = B) ∧ (c = R → (fixDelL' c l k v r).2 = false) := by
  unfold fixDelL'
  split
  · simp at hbh
  · rename_i rc rl rk rv rr
    simp at hcr; subst hcr
    simp only [NoRR, Bal, bh] at hnr hbr hbh
    split
    · rename_i h
      cases c <;> simp_all <;> omega
    · split
      · split
        · rename_i h1 h2 x a xk xv b
          simp_all <;> omega
        · simp_all
      · rename_i h1 h2
        simp at h2
        simp_all [NoRR_setBlack, NoRR.almost, Bal_setBlack, bh_setBlack_red] <;> omega

theorem fixDelR'_inv {c : Color} {l r : T V} (k : Nat) (v : V)
    (hnl : NoRR l) (hbl : Bal l) (hnr : NoRR r) (hbr : Bal r) (hbh : bh r + 1 = bh l) (hcl : col l = B) :
    NoRR (fixDelR' c l k v r).1 ∧ Bal (fixDelR' c l k v r).1 ∧
    bh (fixDelR' c l k v r).1 + (if (fixDelR' c l k v r).2 then 1 else 0) = bh l + (if c = B then 1 else 0) ∧
    (c = B → col (fixDelR' c l k v r).1 = B) ∧ (c = R → (fixDelR' c l k v r).2 = false) := by
  unfold fixDelR'
  split
  · simp at hbh
  · rename_i lc ll lk lv lr
    simp at hcl; subst hcl
    simp only [NoRR, Bal, bh] at hnl hbl hbh
    split
    · rename_i h
      cases c <;> simp_all <;> omega
    · split
      · split
        · rename_i h1 h2 x a xk xv b
          simp_all <;> omega
        · simp_all
      · rename_i h1 h2
        simp at h2
        simp_all [NoRR_setBlack, NoRR.almost, Bal_setBlack, bh_setBlack_red] <;> omega

theorem fixDelL_inv {c : Color} {l r : T V} (k : Nat) (v : V)
    (hnl : NoRR l) (hbl : Bal l) (hnr : NoRR r) (hbr : Bal r) (hbh : bh l + 1 = bh r) (hc : c = R → col r = B) :
    NoRR (fixDelL c l k v r).1 ∧ Bal (fixDelL c l k v r).1 ∧
    bh (fixDelL c l k v r).1 + (if (fixDelL c l k v r).2 then 1 else 0) = bh r + (if c = B then 1 else 0) ∧
    (c = B → col (fixDelL c l k v r).1 = B) := by
  unfold fixDelL
  split
  · rename_i rl rk rv rr
    have hrl : col rl = B := (hnr.2.2 rfl).1
    simp only [NoRR, Bal, bh] at hnr hbr hbh
    have hcB : c = B := by
      cases c
      · simp at hc
      · rfl
    subst hcB
    have := fixDelL'_inv (c := R) k v hnl hbl hnr.1 hbr.1 (by simp at hbh; omega) hrl
    obtain ⟨h1, h2, h3, -, h5⟩ := this
    have h5 := h5 rfl
    rw [h5] at h3
    simp_all
  · rename_i hx
    have hcr : col r = B := col_B_of_not_red_node hx
    have := fixDelL'_inv (c := c) k v hnl hbl hnr hbr hbh hcr
    exact ⟨this.1, this.2.1, this.2.2.1, this.2.2.2.1⟩

theorem fixDelR_inv {c : Color} {l r : T V} (k : Nat) (v : V)
    (hnl : NoRR l) (hbl : Bal l) (hnr : NoRR r) (hbr : Bal r) (hbh : bh r + 1 = bh l) (hc : c = R → col l = B) :
    NoRR (fixDelR c l k v r).1 ∧ Bal (fixDelR c l k v r).1 ∧
    bh (fixDelR c l k v r).1 + (if (fixDelR c l k v r).2 then 1 else 0) = bh l + (if c = B then 1 else 0) ∧
    (c = B → col (fixDelR c l k v r).1 = B) := by
  unfold fixDelR
  split
  · rename_i ll lk lv lr
    have hlr : col lr = B := (hnl.2.2 rfl).2
    simp only [NoRR, Bal, bh] at hnl hbl hbh
    have hcB : c = B := by
      cases c
      · simp at hc
      · rfl
    subst hcB
    have := fixDelR'_inv (c := R) k v hnl.2.1 hbl.2.1 hnr hbr (by simp at hbh; omega) hlr
    obtain ⟨h1, h2, h3, -, h5⟩ := this
    have h5 := h5 rfl
    rw [h5] at h3
    simp_all
  · rename_i hx
    have hcl : col l = B := col_B_of_not_red_node hx
    have := fixDelR'_inv (c := c) k v hnl hbl hnr hbr hbh hcl
    exact ⟨this.1, this.2.1, this.2.2.1, this.2.2.2.1⟩

theorem balL_inv {c : Color} {l l' r : T V} {d : Bool} (k : Nat) (v : V)
    (hl : DelOut l l' d) (hnr : NoRR r) (hbr : Bal r) (hbh : bh l = bh r)
    (hc : c = R → col l = B ∧ col r = B) :
    DelOut (node c l k v r) (balL d c l' k v r).1 (balL d c l' k v r).2 := by
  obtain ⟨h1, h2, h3, h4⟩ := hl
  unfold balL DelOut
  cases d with
  | true =>
    simp only [if_true] at h3 ⊢
    have := fixDelL_inv (c := c) k v h1 h2 hnr hbr (by omega) (fun h => (hc h).2)
    refine ⟨this.1, this.2.1, ?_, fun h => this.2.2.2 h⟩
    rw [this.2.2.1]; simp [hbh]
  | false =>
    simp at h3
    simp only [Bool.false_eq_true, if_false, NoRR, Bal, bh, col_node]
    refine ⟨⟨h1, hnr, fun h => ⟨h4 (hc h).1, (hc h).2⟩⟩, ⟨h2, hbr, by omega⟩, by omega, fun h => h⟩

theorem balR_inv {c : Color} {l r r' : T V} {d : Bool} (k : Nat) (v : V)
    (hr : DelOut r r' d) (hnl : NoRR l) (hbl : Bal l) (hbh : bh l = bh r)
    (hc : c = R → col l = B ∧ col r = B) :
    DelOut (node c l k v r) (balR d c l k v r').1 (balR d c l k v r').2 := by
  obtain ⟨h1, h2, h3, h4⟩ := hr
  unfold balR DelOut
  cases d with
  | true =>
    simp only [if_true] at h3 ⊢
    have := fixDelR_inv (c := c) k v hnl hbl h1 h2 (by omega) (fun h => (hc h).1)
    refine ⟨this.1, this.2.1, ?_, fun h => this.2.2.2 h⟩
    rw [this.2.2.1]; simp
  | false =>
    simp at h3
    simp only [Bool.false_eq_true, if_false, NoRR, Bal, bh, col_node]
    refine ⟨⟨hnl, h1, fun h => ⟨(hc h).1, h4 (hc h).2⟩⟩, ⟨hbl, h2, by omega⟩, by omega, fun h => h⟩

/-- a different key/value in the root does not matter for the colour / black-height facts -/
theorem DelOut_rekey {c : Color} {l r t' : T V} {k k2 : Nat} {v v2 : V} {d : Bool}
    (h : DelOut (node c l k v r) t' d) : DelOut (node c l k2 v2 r) t' d := h

theorem delMin_inv (c : Color) (l : T V) (k : Nat) (v : V) (r : T V)
    (hn : NoRR (node c l k v r)) (hb : Bal (node c l k v r)) :
    DelOut (node c l k v r) (delMin c l k v r).1 (delMin c l k v r).2.2 := by
  induction l generalizing c k v r with
  | nil =>
    simp only [NoRR, Bal, bh] at hn hb
    have := splice_inv c hn.2.1 hb.2.1
    have e : delMin c nil k v r = ((splice c r).1, (k, v), (splice c r).2) := rfl
    rw [e]
    simp only [DelOut, bh, col_node]
    refine ⟨this.1, this.2.1, ?_, this.2.2.2⟩
    have e2 := this.2.2.1
    have e3 := hb.2.2
    omega
  | node lc ll lk lv lr ihl _ =>
    simp only [NoRR, Bal] at hn hb
    have h := ihl lc lk lv lr (by simpa using hn.1) (by simpa using hb.1)
    rw [delMin]
    exact balL_inv k v h hn.2.1 hb.2.1 hb.2.2 hn.2.2

/-- the invariants carried through `delete_pair` and `adjust_for_delete` -/
theorem del_inv (k : Nat) (t : T V) (hn : NoRR t) (hb : Bal t) : DelOut t (del k t).1 (del k t).2 := by
  induction t with
  | nil => simp [del, DelOut]
  | node c l k' v' r ihl ihr =>
    have hn' := hn
    have hb' := hb
    simp only [NoRR, Bal] at hn hb
    obtain ⟨hnl, hnr, hc⟩ := hn
    obtain ⟨hbl, hbr, hbh⟩ := hb
    by_cases hk : k = k'
    · subst hk
      cases l with
      | nil =>
        have := splice_inv c hnr hbr
        have e : del k (node c nil k v' r) = splice c r := by simp [del]
        rw [e]
        simp only [DelOut, bh, col_node]
        refine ⟨this.1, this.2.1, ?_, this.2.2.2⟩
        have e2 := this.2.2.1
        simp only [bh] at hbh
        omega
      | node lc ll lk lv lr =>
        cases r with
        | nil =>
          have := splice_inv c hnl hbl
          have e : del k (node c (node lc ll lk lv lr) k v' nil) = splice c (node lc ll lk lv lr) := by
            simp [del]
          rw [e]
          simp only [DelOut, col_node]
          refine ⟨this.1, this.2.1, ?_, this.2.2.2⟩
          have e2 := this.2.2.1
          simp only [bh] at e2 ⊢
          omega
        | node rc rl rk rv rr =>
          simp only [del, if_true]
          have hm := delMin_inv rc rl rk rv rr hnr hbr
          exact DelOut_rekey (balR_inv _ _ hm hnl hbl hbh hc)
    · by_cases hk2 : k > k'
      · have : del k (node c l k' v' r) = balR (del k r).2 c l k' v' (del k r).1 := by
          cases l <;> cases r <;> simp [del, hk, hk2]
        rw [this]
        exact balR_inv _ _ (ihr hnr hbr) hnl hbl hbh hc
      · have : del k (node c l k' v' r) = balL (del k l).2 c (del k l).1 k' v' r := by
          cases l <;> cases r <;> simp [del, hk, hk2]
        rw [this]
        exact balL_inv _ _ (ihl hnl hbl) hnr hbr hbh hc

/-! ## `Bal` says: all root-to-sentinel paths carry the same number of black pairs -/

/-- the number of black pairs on each path from the root down to a sentinel, left to right -/
def blackPaths : T V → List Nat
  | nil => [0]
  | node c l _ _ r => (blackPaths l ++ blackPaths r).map (· + (if c = B then 1 else 0))

theorem bh_mem_blackPaths (t : T V) : bh t ∈ blackPaths t := by
  induction t with
  | nil => simp [blackPaths]
  | node c l k v r ihl _ =>
    simp only [blackPaths, bh, List.mem_map, List.mem_append]
    exact ⟨bh l, Or.inl ihl, rfl⟩

theorem bal_paths (t : T V) (h : Bal t) : ∀ a ∈ blackPaths t, a = bh t := by
  induction t with
  | nil => simp [blackPaths]
  | node c l k v r ihl ihr =>
    simp only [Bal] at h
    intro a ha
    simp only [blackPaths, List.mem_map, List.mem_append] at ha
    obtain ⟨b, hb, rfl⟩ := ha
    simp only [bh]
    rcases hb with hb | hb
    · rw [ihl h.1 b hb]
    · rw [ihr h.2.1 b hb, h.2.2]

theorem paths_bal (t : T V) (h : ∀ a ∈ blackPaths t, ∀ b ∈ blackPaths t, a = b) : Bal t := by
  induction t with
  | nil => trivial
  | node c l k v r ihl ihr =>
    have key : ∀ a ∈ blackPaths l ++ blackPaths r, ∀ b ∈ blackPaths l ++ blackPaths r, a = b := by
      intro a ha b hb
      have := h (a + (if c = B then 1 else 0)) (by simp only [blackPaths, List.mem_map]; exact ⟨a, ha, rfl⟩)
                (b + (if c = B then 1 else 0)) (by simp only [blackPaths, List.mem_map]; exact ⟨b, hb, rfl⟩)
      omega
    simp only [Bal]
    refine ⟨ihl fun a ha b hb => key a (by simp [ha]) b (by simp [hb]),
            ihr fun a ha b hb => key a (by simp [ha]) b (by simp [hb]), ?_⟩
    exact key _ (by simp [bh_mem_blackPaths l]) _ (by simp [bh_mem_blackPaths r])

end Hawk.Rbt
