import HawkModel.Gen.CmpTable
/-!
# Model of hawk's value comparison (lib/run.c `__cmp_*`, `__cmp_val`, `hawk_rtx_cmpval`, `teq_val`,
# `eval_binop_{eq,ne,gt,ge,lt,le,teq,tne}`) and of `asort`/`asorti` (lib/fnc.c `__fnc_asort`,
# lib/utl-sort.c `hawk_qsortx`)

Core Lean only.  Every base routine of run.c is transcribed branch by branch; the delegating routines
("call the routine of the swapped pair with swapped operands and the inverse hint, negate") and the
dispatch table are NOT written here by hand: `cmpVal` interprets `Gen.table` / `Gen.shape`, which
`extract/cmp_table.py` regenerates from run.c on every check.  `cmpDirect` is the hand-written
dispatcher; `Props/C11.lean` proves the two equal (`dispatch_correct`).

Parameters (any function; no law is assumed unless a theorem states it as a hypothesis):
the float order and int→float conversion, case folding, number→string (`hawk_rtx_getvaloocstr`,
CONVFMT) and string→number (`hawk_oochars_to_num/_to_int/_to_flt`) conversions, the
string→byte-string encoder (`hawk_rtx_duputobchars`).  STRIPSTRSPC only changes which conversion
functions are plugged in, so it is not a field of `Cfg`.
-/
namespace Hawk.Cmp

/-- a string as its code units (`hawk_ooch_t`, here 16 bit) or bytes (`hawk_bch_t`) -/
abbrev Str := List Nat

/-- `hawk_val_type_t` enumerators `HAWK_VAL_NIL .. HAWK_VAL_ARR` -/
inductive Ty where
  | nil | char | bchr | int | flt | str | mbs | fn | map | arr
  deriving DecidableEq, Repr, Inhabited

def Ty.code : Ty → Nat
  | .nil => 0 | .char => 1 | .bchr => 2 | .int => 3 | .flt => 4
  | .str => 5 | .mbs => 6 | .fn => 7 | .map => 8 | .arr => 9

def Ty.ofCode : Nat → Option Ty
  | 0 => some .nil | 1 => some .char | 2 => some .bchr | 3 => some .int | 4 => some .flt
  | 5 => some .str | 6 => some .mbs | 7 => some .fn | 8 => some .map | 9 => some .arr
  | _ => none

/-- the C name suffix of each type as used in `__cmp_<l>_<r>` and `HAWK_VAL_<L>` -/
def Ty.cname : Ty → String
  | .nil => "nil" | .char => "char" | .bchr => "bchr" | .int => "int" | .flt => "flt"
  | .str => "str" | .mbs => "mbs" | .fn => "fun" | .map => "map" | .arr => "arr"

def Ty.all : List Ty := [.nil, .char, .bchr, .int, .flt, .str, .mbs, .fn, .map, .arr]

/-- `cmp_op_t` -/
inductive Hint where
  | none | eq | ne | gt | ge | lt | le
  deriving DecidableEq, Repr, Inhabited

def Hint.code : Hint → Nat
  | .none => 0 | .eq => 1 | .ne => 2 | .gt => 3 | .ge => 4 | .lt => 5 | .le => 6

def Hint.all : List Hint := [.none, .eq, .ne, .gt, .ge, .lt, .le]

/-- `inverse_cmp_op` -/
def Hint.inv : Hint → Hint
  | .none => .none | .eq => .ne | .ne => .eq | .gt => .lt | .ge => .le | .lt => .gt | .le => .ge

inductive Err where
  | eoperand      -- HAWK_EOPERAND (`__cmp_val` refusing map/array operands, `__cmp_map_map` ...)
  | badDispatch   -- a routine was handed operands of a type it does not read (undefined behaviour in C)
  deriving DecidableEq, Repr

/-- result of `hawk_oochars_to_num` with the nopartial option: -1 / 0 (integer) / 1 (floating point) -/
inductive Num (F : Type) where
  | notnum | int (i : Int) | flt (f : F)

structure Params (F : Type) where
  /-- `x < y` on `hawk_flt_t` -/
  lt : F → F → Bool
  /-- the implicit `hawk_int_t → hawk_flt_t` conversion in `v1 > rr` -/
  ofInt : Int → F
  /-- `hawk_to_uch_lower` -/
  lower : Nat → Nat
  /-- `hawk_to_bch_lower` -/
  blower : Nat → Nat
  /-- `hawk_rtx_getvaloocstr` on an INT / FLT value -/
  intToStr : Int → Str
  fltToStr : F → Str
  /-- `hawk_rtx_getvalbcstr` on an INT / FLT value -/
  intToBcs : Int → Str
  fltToBcs : F → Str
  /-- `hawk_oochars_to_num(MAKE_OPTION(1,0,stripspc,0), ..)` -/
  strToNum : Str → Num F
  /-- `hawk_oochars_to_flt(ptr, len, &end, stripspc)`: value and `end == ptr + len` -/
  strToFlt : Str → F × Bool
  /-- `hawk_oochars_to_int(ptr, len, MAKE_OPTION(stripspc,stripspc,0), NULL, NULL)` -/
  strToInt : Str → Int
  /-- `hawk_bchars_to_num`, `hawk_bchars_to_flt` -/
  bcsToNum : Str → Num F
  bcsToFlt : Str → F × Bool
  /-- `hawk_rtx_duputobchars` -/
  encode : Str → Str

structure Cfg where
  /-- `rtx->gbl.ignorecase != 0` -/
  ignorecase : Bool
  /-- `hawk->opt.trait & HAWK_NCMPONSTR` -/
  ncmponstr : Bool
  /-- `hawk->opt.trait & HAWK_FLEXMAP` -/
  flexmap : Bool
  deriving DecidableEq, Repr

/-- a hawk value as far as comparison reads it.  `nstr` is the 2-bit `v_nstr` field
    (0 plain, 1 numeric string holding an integer, 2 numeric string holding a float). -/
inductive Val (F : Type) where
  | nil
  | char (c : Nat)
  | bchr (b : Nat)
  | int (i : Int)
  | flt (f : F)
  | str (s : Str) (nstr : Nat)
  | mbs (s : Str) (nstr : Nat)
  | fn (id : Nat)
  | map (size : Nat)
  | arr (size : Nat)

variable {F : Type}

def Val.ty : Val F → Ty
  | .nil => .nil | .char _ => .char | .bchr _ => .bchr | .int _ => .int | .flt _ => .flt
  | .str _ _ => .str | .mbs _ _ => .mbs | .fn _ => .fn | .map _ => .map | .arr _ => .arr

/-- nil, character, byte character, integer, float, string, byte string -/
def Val.scalar : Val F → Bool
  | .fn _ | .map _ | .arr _ => false
  | _ => true

/-! ## three-way helpers: `(x > y)? 1: ((x < y)? -1: 0)` -/

def cmp3Nat (a b : Nat) : Int := if a > b then 1 else if a < b then -1 else 0
def cmp3Int (a b : Int) : Int := if a > b then 1 else if a < b then -1 else 0
def cmp3F (P : Params F) (a b : F) : Int := if P.lt b a then 1 else if P.lt a b then -1 else 0

/-- `hawk_comp_uchars` / `hawk_comp_bchars` (lib/utl-str.c): walk both strings, compare the (folded)
    units, the shorter string is smaller when it is a prefix of the other -/
def compChars (fold : Nat → Nat) : Str → Str → Int
  | [], [] => 0
  | [], _ :: _ => -1
  | _ :: _, [] => 1
  | a :: as, b :: bs =>
    if fold a > fold b then 1 else if fold a < fold b then -1 else compChars fold as bs

/-- `hawk_comp_oochars(.., rtx->gbl.ignorecase)` -/
def compOo (P : Params F) (cfg : Cfg) (s t : Str) : Int :=
  compChars (if cfg.ignorecase then P.lower else id) s t

/-- `hawk_comp_bchars(.., rtx->gbl.ignorecase)` -/
def compBc (P : Params F) (cfg : Cfg) (s t : Str) : Int :=
  compChars (if cfg.ignorecase then P.blower else id) s t

/-- `__cmp_ensure_not_equal`; for `CMP_OP_NONE` the C sets EOPERAND but returns -1 (not CMP_ERROR),
    which `__cmp_val` hands out as an ordinary result -/
def ensureNotEqual : Hint → Int
  | .eq | .ne => 1
  | .gt | .lt => 0
  | .ge => -1
  | .le => 1
  | .none => -1

/-- `if (n == CMP_ERROR) return CMP_ERROR; return -n;` -/
def neg (r : Except Err Int) : Except Err Int :=
  match r with
  | .ok n => .ok (-n)
  | .error e => .error e

abbrev Routine (F : Type) := Hint → Val F → Val F → Except Err Int

def bad : Except Err Int := .error .badDispatch

/-! ## the base routines (`left` = a, `right` = b) -/

section Base
variable (P : Params F) (cfg : Cfg)

def rNilNil : Routine F := fun _ _ _ => .ok 0

/-- `hawk_oochu_t v = ..; return (v < 0)? 1: ((v > 0)? -1: 0);` (v unsigned) -/
def rNilChar : Routine F := fun _ _ b =>
  match b with
  | .char v => .ok (if v < 0 then 1 else if v > 0 then -1 else 0)
  | _ => bad

def rNilBchr : Routine F := fun _ _ b =>
  match b with
  | .bchr v => .ok (if v < 0 then 1 else if v > 0 then -1 else 0)
  | _ => bad

def rNilInt : Routine F := fun _ _ b =>
  match b with
  | .int v => .ok (if v < 0 then 1 else if v > 0 then -1 else 0)
  | _ => bad

/-- `if (val < 0) return 1; if (val > 0) return -1; return 0;` -/
def rNilFlt : Routine F := fun _ _ b =>
  match b with
  | .flt v => .ok (if P.lt v (P.ofInt 0) then 1 else if P.lt (P.ofInt 0) v then -1 else 0)
  | _ => bad

def rNilStr : Routine F := fun _ _ b =>
  match b with
  | .str s _ => .ok (if s.length = 0 then 0 else -1)
  | _ => bad

def rNilMbs : Routine F := fun _ _ b =>
  match b with
  | .mbs s _ => .ok (if s.length = 0 then 0 else -1)
  | _ => bad

def rNilMap : Routine F := fun _ _ b =>
  match b with
  | .map n => .ok (if n = 0 then 0 else -1)
  | _ => bad

def rNilArr : Routine F := fun _ _ b =>
  match b with
  | .arr n => .ok (if n = 0 then 0 else -1)
  | _ => bad

def rCharChar : Routine F := fun _ a b =>
  match a, b with
  | .char v1, .char v2 => .ok (cmp3Nat v1 v2)
  | _, _ => bad

def rCharBchr : Routine F := fun _ a b =>
  match a, b with
  | .char v1, .bchr v2 => .ok (cmp3Nat v1 v2)
  | _, _ => bad

/-- `__cmp_char_int`: the right operand goes through `hawk_rtx_getvaloocstr`, whatever its type; it is
    also the body run for (char, flt) (`__cmp_char_flt` is an alias) -/
def rCharInt : Routine F := fun _ a b =>
  match a, b with
  | .char v1, .int i => .ok (compOo P cfg [v1] (P.intToStr i))
  | .char v1, .flt f => .ok (compOo P cfg [v1] (P.fltToStr f))
  | _, _ => bad

def rCharStr : Routine F := fun _ a b =>
  match a, b with
  | .char v1, .str s _ => .ok (compOo P cfg [v1] s)
  | _, _ => bad

/-- `if (v1 > 0xFF) return 1; bc = v1; return hawk_comp_bchars(&bc, 1, ..)` -/
def rCharMbs : Routine F := fun _ a b =>
  match a, b with
  | .char v1, .mbs s _ => .ok (if v1 > 0xFF then 1 else compBc P cfg [v1] s)
  | _, _ => bad

def rBchrBchr : Routine F := fun _ a b =>
  match a, b with
  | .bchr v1, .bchr v2 => .ok (cmp3Nat v1 v2)
  | _, _ => bad

/-- `__cmp_bchr_int` (also the body for (bchr, flt)) -/
def rBchrInt : Routine F := fun _ a b =>
  match a, b with
  | .bchr v1, .int i => .ok (compBc P cfg [v1] (P.intToBcs i))
  | .bchr v1, .flt f => .ok (compBc P cfg [v1] (P.fltToBcs f))
  | _, _ => bad

def rBchrStr : Routine F := fun _ a b =>
  match a, b with
  | .bchr v1, .str s _ => .ok (compOo P cfg [v1] s)
  | _, _ => bad

def rBchrMbs : Routine F := fun _ a b =>
  match a, b with
  | .bchr v1, .mbs s _ => .ok (compBc P cfg [v1] s)
  | _, _ => bad

def rIntInt : Routine F := fun _ a b =>
  match a, b with
  | .int v1, .int v2 => .ok (cmp3Int v1 v2)
  | _, _ => bad

/-- `if (v1 > val) return 1; if (v1 < val) return -1; return 0;` with v1 converted to hawk_flt_t -/
def rIntFlt : Routine F := fun _ a b =>
  match a, b with
  | .int v1, .flt r => .ok (cmp3F P (P.ofInt v1) r)
  | _, _ => bad

/-- `__cmp_int_str`: numeric comparison when NCMPONSTR is on or the string carries the numeric-string
    flag AND the whole string converts; otherwise the integer is printed and compared as a string -/
def rIntStr : Routine F := fun _ a b =>
  match a, b with
  | .int v1, .str s nstr =>
    let strcmp : Except Err Int := .ok (compOo P cfg (P.intToStr v1) s)
    if cfg.ncmponstr || nstr != 0 then
      match P.strToNum s with
      | .int ll => .ok (cmp3Int v1 ll)
      | .flt rr => .ok (cmp3F P (P.ofInt v1) rr)
      | .notnum => strcmp
    else strcmp
  | _, _ => bad

def rIntMbs : Routine F := fun _ a b =>
  match a, b with
  | .int v1, .mbs s nstr =>
    let strcmp : Except Err Int := .ok (compBc P cfg (P.intToBcs v1) s)
    if cfg.ncmponstr || nstr != 0 then
      match P.bcsToNum s with
      | .int ll => .ok (cmp3Int v1 ll)
      | .flt rr => .ok (cmp3F P (P.ofInt v1) rr)
      | .notnum => strcmp
    else strcmp
  | _, _ => bad

def rFltFlt : Routine F := fun _ a b =>
  match a, b with
  | .flt l, .flt r => .ok (cmp3F P l r)
  | _, _ => bad

/-- `__cmp_flt_str`: numeric when (NCMPONSTR or flag) and `hawk_oochars_to_flt` consumed the whole string -/
def rFltStr : Routine F := fun _ a b =>
  match a, b with
  | .flt l, .str s nstr =>
    let strcmp : Except Err Int := .ok (compOo P cfg (P.fltToStr l) s)
    if cfg.ncmponstr || nstr != 0 then
      if (P.strToFlt s).2 then .ok (cmp3F P l (P.strToFlt s).1) else strcmp
    else strcmp
  | _, _ => bad

def rFltMbs : Routine F := fun _ a b =>
  match a, b with
  | .flt l, .mbs s nstr =>
    let strcmp : Except Err Int := .ok (compBc P cfg (P.fltToBcs l) s)
    if cfg.ncmponstr || nstr != 0 then
      if (P.bcsToFlt s).2 then .ok (cmp3F P l (P.bcsToFlt s).1) else strcmp
    else strcmp
  | _, _ => bad

/-- `__cmp_str_str`: string comparison unless BOTH carry the numeric-string flag; then by flag:
    1 → `hawk_oochars_to_int`, otherwise (2) → `hawk_oochars_to_flt` -/
def rStrStr : Routine F := fun _ a b =>
  match a, b with
  | .str ls ln, .str rs rn =>
    if ln = 0 || rn = 0 then .ok (compOo P cfg ls rs)
    else if ln = 1 then
      if rn = 1 then .ok (cmp3Int (P.strToInt ls) (P.strToInt rs))
      else .ok (cmp3F P (P.ofInt (P.strToInt ls)) (P.strToFlt rs).1)
    else
      if rn = 1 then .ok (cmp3F P (P.strToFlt ls).1 (P.ofInt (P.strToInt rs)))
      else .ok (cmp3F P (P.strToFlt ls).1 (P.strToFlt rs).1)
  | _, _ => bad

/-- `__cmp_str_mbs` (wide-character build): encode the string, compare bytes -/
def rStrMbs : Routine F := fun _ a b =>
  match a, b with
  | .str ls _, .mbs rs _ => .ok (compBc P cfg (P.encode ls) rs)
  | _, _ => bad

def rMbsMbs : Routine F := fun _ a b =>
  match a, b with
  | .mbs ls _, .mbs rs _ => .ok (compBc P cfg ls rs)
  | _, _ => bad

def rFunFun : Routine F := fun h a b =>
  match a, b with
  | .fn f1, .fn f2 => .ok (if f1 = f2 then 0 else ensureNotEqual h)
  | _, _ => bad

/-- no routine with own code carries this name -/
def badR : Routine F := fun _ _ _ => bad

/-- the routines of run.c that have comparison code of their own, by the pair in their name -/
def baseRoutine (l r : Ty) : Routine F :=
  match l with
  | .nil =>
    (match r with
     | .nil => rNilNil | .char => rNilChar | .bchr => rNilBchr | .int => rNilInt | .flt => rNilFlt P
     | .str => rNilStr | .mbs => rNilMbs | .map => rNilMap | .arr => rNilArr | _ => badR)
  | .char =>
    (match r with
     | .char => rCharChar | .bchr => rCharBchr | .int => rCharInt P cfg | .str => rCharStr P cfg
     | .mbs => rCharMbs P cfg | _ => badR)
  | .bchr =>
    (match r with
     | .bchr => rBchrBchr | .int => rBchrInt P cfg | .str => rBchrStr P cfg | .mbs => rBchrMbs P cfg | _ => badR)
  | .int =>
    (match r with
     | .int => rIntInt | .flt => rIntFlt P | .str => rIntStr P cfg | .mbs => rIntMbs P cfg | _ => badR)
  | .flt =>
    (match r with
     | .flt => rFltFlt P | .str => rFltStr P cfg | .mbs => rFltMbs P cfg | _ => badR)
  | .str =>
    (match r with
     | .str => rStrStr P cfg | .mbs => rStrMbs P cfg | _ => badR)
  | .mbs =>
    (match r with
     | .mbs => rMbsMbs P cfg | _ => badR)
  | .fn =>
    (match r with
     | .fn => rFunFun | _ => badR)
  | _ => badR

/-! ## the dispatcher as generated: interprets `Gen.table` and `Gen.shape` -/

/-- a routine that does not delegate -/
def run0 (l r : Nat) : Routine F := fun h a b =>
  match Gen.shape l r with
  | .base =>
    match Ty.ofCode l, Ty.ofCode r with
    | some l, some r => baseRoutine P cfg l r h a b
    | _, _ => bad
  | .notEqual => .ok (ensureNotEqual h)
  | .reject => .error .eoperand
  | _ => bad

/-- `return __cmp_<l'>_<r'>(rtx, left, right, op_hint);` -/
def run1 (l r : Nat) : Routine F := fun h a b =>
  match Gen.shape l r with
  | .alias l' r' => run0 P cfg l' r' h a b
  | _ => run0 P cfg l r h a b

/-- `n = __cmp_<l'>_<r'>(rtx, right, left, inverse_cmp_op(op_hint)); if (n == CMP_ERROR) return CMP_ERROR; return -n;` -/
def run2 (l r : Nat) : Routine F := fun h a b =>
  match Gen.shape l r with
  | .mirror l' r' => neg (run1 P cfg l' r' h.inv b a)
  | _ => run1 P cfg l r h a b

/-- `!(trait & HAWK_FLEXMAP) && (lvtype == MAP || rvtype == MAP || lvtype == ARR || rvtype == ARR)` -/
def refusesMap (a b : Val F) : Bool :=
  !cfg.flexmap && (a.ty == .map || b.ty == .map || a.ty == .arr || b.ty == .arr)

/-- `__cmp_val`: `func[lvtype * stride + rvtype](rtx, left, right, op_hint)` -/
def cmpVal (h : Hint) (a b : Val F) : Except Err Int :=
  if refusesMap cfg a b then .error .eoperand
  else
    match Gen.table[a.ty.code * Gen.stride + b.ty.code]? with
    | some (l, r) => run2 P cfg l r h a b
    | none => bad

/-! ## the dispatcher as the model believes it to be (hand-written) -/

/-- which shape the model expects for `__cmp_<l>_<r>` -/
def expectedShape : Ty → Ty → Gen.Shape
  | .nil, .fn => .notEqual
  | .nil, _ => .base
  | .char, .nil => .mirror 0 1
  | .char, .flt => .alias 1 3
  | .char, .fn | .char, .map | .char, .arr => .notEqual
  | .char, _ => .base
  | .bchr, .nil => .mirror 0 2
  | .bchr, .char => .mirror 1 2
  | .bchr, .flt => .alias 2 3
  | .bchr, .fn | .bchr, .map | .bchr, .arr => .notEqual
  | .bchr, _ => .base
  | .int, .nil => .mirror 0 3
  | .int, .char => .mirror 1 3
  | .int, .bchr => .mirror 2 3
  | .int, .fn | .int, .map | .int, .arr => .notEqual
  | .int, _ => .base
  | .flt, .nil => .mirror 0 4
  | .flt, .char => .mirror 1 4
  | .flt, .bchr => .mirror 2 4
  | .flt, .int => .mirror 3 4
  | .flt, .fn | .flt, .map | .flt, .arr => .notEqual
  | .flt, _ => .base
  | .str, .nil => .mirror 0 5
  | .str, .char => .mirror 1 5
  | .str, .bchr => .mirror 2 5
  | .str, .int => .mirror 3 5
  | .str, .flt => .mirror 4 5
  | .str, .fn | .str, .map | .str, .arr => .notEqual
  | .str, _ => .base
  | .mbs, .nil => .mirror 0 6
  | .mbs, .char => .mirror 1 6
  | .mbs, .bchr => .mirror 2 6
  | .mbs, .int => .mirror 3 6
  | .mbs, .flt => .mirror 4 6
  | .mbs, .str => .mirror 5 6
  | .mbs, .mbs => .base
  | .mbs, _ => .notEqual
  | .fn, .fn => .base
  | .fn, _ => .notEqual
  | .map, .nil => .mirror 0 8
  | .map, .char => .mirror 1 8
  | .map, .bchr => .mirror 2 8
  | .map, .int => .mirror 3 8
  | .map, .flt => .mirror 4 8
  | .map, .map | .map, .arr => .reject
  | .map, _ => .notEqual
  | .arr, .nil => .mirror 0 9
  | .arr, .char => .mirror 1 9
  | .arr, .bchr => .mirror 2 9
  | .arr, .int => .mirror 3 9
  | .arr, .flt => .mirror 4 9
  | .arr, .map | .arr, .arr => .reject
  | .arr, _ => .notEqual

/-- `return __cmp_ensure_not_equal(rtx, op_hint);` -/
def neR : Routine F := fun h _ _ => .ok (ensureNotEqual h)

/-- mirror of a `__cmp_ensure_not_equal` routine (`__cmp_map_char` ...) -/
def negNeR : Routine F := fun h _ _ => neg (.ok (ensureNotEqual h.inv))

/-- `__cmp_map_map` ...: set EOPERAND, return CMP_ERROR -/
def rejectR : Routine F := fun _ _ _ => .error .eoperand

/-- `n = callee(rtx, right, left, inverse_cmp_op(op_hint)); if (n == CMP_ERROR) return CMP_ERROR; return -n;` -/
def mirrorOf (callee : Routine F) : Routine F := fun h a b => neg (callee h.inv b a)

/-- one routine per ordered pair of types, written out -/
def routine (l r : Ty) : Routine F :=
  match l with
  | .nil =>
    (match r with
     | .nil => rNilNil | .char => rNilChar | .bchr => rNilBchr | .int => rNilInt | .flt => rNilFlt P
     | .str => rNilStr | .mbs => rNilMbs | .fn => neR | .map => rNilMap | .arr => rNilArr)
  | .char =>
    (match r with
     | .nil => mirrorOf rNilChar | .char => rCharChar | .bchr => rCharBchr | .int => rCharInt P cfg
     | .flt => rCharInt P cfg | .str => rCharStr P cfg | .mbs => rCharMbs P cfg
     | .fn => neR | .map => neR | .arr => neR)
  | .bchr =>
    (match r with
     | .nil => mirrorOf rNilBchr | .char => mirrorOf rCharBchr | .bchr => rBchrBchr | .int => rBchrInt P cfg
     | .flt => rBchrInt P cfg | .str => rBchrStr P cfg | .mbs => rBchrMbs P cfg
     | .fn => neR | .map => neR | .arr => neR)
  | .int =>
    (match r with
     | .nil => mirrorOf rNilInt | .char => mirrorOf (rCharInt P cfg) | .bchr => mirrorOf (rBchrInt P cfg)
     | .int => rIntInt | .flt => rIntFlt P | .str => rIntStr P cfg | .mbs => rIntMbs P cfg
     | .fn => neR | .map => neR | .arr => neR)
  | .flt =>
    (match r with
     | .nil => mirrorOf (rNilFlt P) | .char => mirrorOf (rCharInt P cfg) | .bchr => mirrorOf (rBchrInt P cfg)
     | .int => mirrorOf (rIntFlt P) | .flt => rFltFlt P | .str => rFltStr P cfg | .mbs => rFltMbs P cfg
     | .fn => neR | .map => neR | .arr => neR)
  | .str =>
    (match r with
     | .nil => mirrorOf rNilStr | .char => mirrorOf (rCharStr P cfg) | .bchr => mirrorOf (rBchrStr P cfg)
     | .int => mirrorOf (rIntStr P cfg) | .flt => mirrorOf (rFltStr P cfg) | .str => rStrStr P cfg
     | .mbs => rStrMbs P cfg | .fn => neR | .map => neR | .arr => neR)
  | .mbs =>
    (match r with
     | .nil => mirrorOf rNilMbs | .char => mirrorOf (rCharMbs P cfg) | .bchr => mirrorOf (rBchrMbs P cfg)
     | .int => mirrorOf (rIntMbs P cfg) | .flt => mirrorOf (rFltMbs P cfg) | .str => mirrorOf (rStrMbs P cfg)
     | .mbs => rMbsMbs P cfg | .fn => neR | .map => neR | .arr => neR)
  | .fn =>
    (match r with
     | .fn => rFunFun | _ => neR)
  -- left map / arr (reached only with FLEXMAP)
  | .map =>
    (match r with
     | .nil => mirrorOf rNilMap | .char => negNeR | .bchr => negNeR | .int => negNeR | .flt => negNeR
     | .str => neR | .mbs => neR | .fn => neR | .map => rejectR | .arr => rejectR)
  | .arr =>
    (match r with
     | .nil => mirrorOf rNilArr | .char => negNeR | .bchr => negNeR | .int => negNeR | .flt => negNeR
     | .str => neR | .mbs => neR | .fn => neR | .map => rejectR | .arr => rejectR)

def cmpDirect (h : Hint) (a b : Val F) : Except Err Int :=
  if refusesMap cfg a b then .error .eoperand else routine P cfg a.ty b.ty h a b

/-! ## operators -/

/-- `eval_binop_{eq,ne,gt,ge,lt,le}` -/
inductive Op where
  | eq | ne | gt | ge | lt | le
  deriving DecidableEq, Repr

def Op.all : List Op := [.eq, .ne, .gt, .ge, .lt, .le]

def Op.name : Op → String
  | .eq => "eq" | .ne => "ne" | .gt => "gt" | .ge => "ge" | .lt => "lt" | .le => "le"

/-- the hint each operator passes to `__cmp_val` -/
def Op.hint : Op → Hint
  | .eq => .eq | .ne => .ne | .gt => .gt | .ge => .ge | .lt => .lt | .le => .le

/-- the test each operator applies to `n` -/
def Op.test : Op → Int → Bool
  | .eq, n => n == 0
  | .ne, n => n != 0
  | .gt, n => n > 0
  | .ge, n => n >= 0
  | .lt, n => n < 0
  | .le, n => n <= 0

/-- encoding of the test used by the generated `Gen.binops` -/
def Op.testCode : Op → Nat
  | .eq => 0 | .ne => 1 | .gt => 2 | .ge => 3 | .lt => 4 | .le => 5

/-- `a <op> b` at language level; an error is a run-time error of the expression -/
def evalOp (op : Op) (a b : Val F) : Except Err Bool :=
  match cmpVal P cfg op.hint a b with
  | .ok n => .ok (op.test n)
  | .error e => .error e

/-- `hawk_rtx_cmpval` -/
def rtxCmpVal (a b : Val F) : Except Err Int := cmpVal P cfg .none a b

/-- `teq_val` (`===`).  The `left == right` pointer shortcut is not modelled: two values are given by
    their contents only; maps and arrays compare unequal (distinct objects). -/
def teqVal (a b : Val F) : Bool :=
  match a, b with
  | .nil, .nil => true
  | .char c1, .char c2 => c1 == c2
  | .bchr c1, .bchr c2 => c1 == c2
  | .int i1, .int i2 => i1 == i2
  | .flt f1, .flt f2 => !P.lt f1 f2 && !P.lt f2 f1     -- `==` on hawk_flt_t (no NaN)
  | .str s1 _, .str s2 _ => compOo P cfg s1 s2 == 0
  | .mbs s1 _, .mbs s2 _ => compBc P cfg s1 s2 == 0
  | .fn f1, .fn f2 => f1 == f2
  | _, _ => false

end Base

/-! ## asort / asorti -/

section Sorting
variable {α ε : Type}

/-- the inner loop of the insertion sort in `hawk_qsortx` (run for `nmemb < 7` and when a partitioning
    pass made no swap): the element `x` sits right of the already processed prefix, given REVERSED
    (`p` = the element immediately left of `x`); `comper(pl - size, pl)`; stop when `n <= 0`, else swap
    and continue leftwards; a comparator failure aborts the sort -/
def sink (c : α → α → Except ε Int) (x : α) : List α → Except ε (List α)
  | [] => .ok [x]
  | p :: rp =>
    match c p x with
    | .error e => .error e
    | .ok n =>
      if n ≤ 0 then .ok (x :: p :: rp)
      else
        match sink c x rp with
        | .error e => .error e
        | .ok r => .ok (p :: r)

/-- the outer loop: `rp` = processed prefix reversed, second argument = the rest -/
def isortAux (c : α → α → Except ε Int) : List α → List α → Except ε (List α)
  | rp, [] => .ok rp.reverse
  | rp, x :: rest =>
    match sink c x rp with
    | .error e => .error e
    | .ok rp' => isortAux c rp' rest

/-- insertion sort by adjacent swaps, exactly the `nmemb < 7` path of `hawk_qsortx`; for longer inputs it
    is the reference a correct comparison sort must agree with up to comparator-equal elements
    (`Props/C11.lean: sorted_perm_unique`) -/
def isort (c : α → α → Except ε Int) (l : List α) : Except ε (List α) := isortAux c [] l

end Sorting

/-- `__fnc_asort` with the default comparator (`asort_compare` = `hawk_rtx_cmpval`): the return value and
    the new contents of the destination at indices 1..n.  `src = none` is a nil source.  The elements are the
    values (asort) or the keys as values (asorti: plain strings for a map, integers for an array) in the
    order the source is traversed; `val` reads the hawk value out of an element (the driver tags elements
    with their input position).  An empty or nil source yields an empty destination (behaviour after
    `patches/asort-empty-source-clears-destination.diff`; the unrepaired code leaves a destination that is
    a different variable untouched).  The one-argument form assigns the same list to the source. -/
def asortBy {α : Type} (P : Params F) (cfg : Cfg) (val : α → Val F) (src : Option (List α)) :
    Except Err (Nat × List α) :=
  match src with
  | none => .ok (0, [])
  | some elems =>
    match isort (fun x y => cmpVal P cfg .none (val x) (val y)) elems with
    | .ok out => .ok (out.length, out)
    | .error e => .error e

def fncAsort (P : Params F) (cfg : Cfg) (src : Option (List (Val F))) : Except Err (Nat × List (Val F)) :=
  asortBy P cfg id src

/-! ### the source container, the subscripts asorti sorts, user comparators -/

/-- the source of `asort`/`asorti` as `__fnc_asort` reads it -/
inductive Src (F : Type) where
  | nil
  /-- a map: its pairs in traversal order (`hawk_rtx_getfirstmapvalitr`/`getnextmapvalitr`) -/
  | map (pairs : List (Str × Val F))
  /-- an array (`hawk::array`): its slot table from slot 0; `none` = `HAWK_ARR_SLOT(arr, j)` is null
      (never assigned, or removed with `delete`) -/
  | arr (slots : List (Option (Val F)))

/-- `for (i = 0, j = 0; j < ssz; j++) if (HAWK_ARR_SLOT(arr, j)) { va[i] = ..j..; i++; }`: the occupied slots with
    their slot numbers, `j` counting from the given start -/
def occupied : List (Option (Val F)) → Nat → List (Nat × Val F)
  | [], _ => []
  | none :: r, j => occupied r (j + 1)
  | some v :: r, j => (j, v) :: occupied r (j + 1)

/-- what `asort` sorts -/
def Src.values : Src F → List (Val F)
  | .nil => []
  | .map ps => ps.map (fun p => p.2)
  | .arr sl => (occupied sl 0).map (fun p => p.2)

/-- what `asorti` sorts: the keys of a map as plain strings (`hawk_rtx_makestrvalwithoocs(rtx, key)`, flag 0), the
    slot NUMBERS of an array as integers (`hawk_rtx_makeintval(rtx, j)`) -/
def Src.subscripts : Src F → List (Val F)
  | .nil => []
  | .map ps => ps.map (fun p => .str p.1 0)
  | .arr sl => (occupied sl 0).map (fun p => .int p.1)

def Src.elems (sortKeys : Bool) (src : Src F) : List (Val F) :=
  if sortKeys then src.subscripts else src.values

/-- `__fnc_asort(rtx, fi, sort_keys)` with comparator `c`: `asort_compare` (= `hawk_rtx_cmpval`) by default, or
    `asort_compare_ud` (call the user function, `hawk_rtx_valtoint` its result) — the user function is a parameter.
    Result: return value and the destination's elements at subscripts 1..n.  Which variable receives the
    destination (second argument, the source itself in the one-argument form, source = destination) does not
    change its contents. -/
def fncAsortSrc (c : Val F → Val F → Except Err Int) (sortKeys : Bool) (src : Src F) : Except Err (Nat × List (Val F)) :=
  match src with
  | .nil => .ok (0, [])
  | _ =>
    match isort c (src.elems sortKeys) with
    | .ok out => .ok (out.length, out)
    | .error e => .error e

/-- `function ucmp(a, b) { return (a < b)? -1: ((a > b)? 1: 0); }` of the harness, evaluated with the model's operators -/
def userCmp3 (P : Params F) (cfg : Cfg) (a b : Val F) : Except Err Int :=
  match evalOp P cfg .lt a b with
  | .error e => .error e
  | .ok true => .ok (-1)
  | .ok false =>
    match evalOp P cfg .gt a b with
    | .error e => .error e
    | .ok true => .ok 1
    | .ok false => .ok 0

/-! ## exact binary floats for the driver: every finite `hawk_flt_t` is `m * 2^e` -/

inductive Dy where
  | fin (m : Int) (e : Int)
  | pinf | ninf | nan
  deriving DecidableEq, Repr, Inhabited

def Dy.lt : Dy → Dy → Bool
  | .fin m1 e1, .fin m2 e2 =>
    let k := min e1 e2
    m1 * 2 ^ (e1 - k).toNat < m2 * 2 ^ (e2 - k).toNat
  | .nan, _ | _, .nan => false
  | .ninf, .ninf => false
  | .ninf, _ => true
  | _, .ninf => false
  | .pinf, _ => false
  | _, .pinf => true

def Dy.ofInt (i : Int) : Dy := .fin i 0

end Hawk.Cmp
