import HawkModel.Gen.XmaConst
/-!
  Model of lib/xma.c (hawk_xma_t): the zone allocator behind `hawk -m N`.

  State
  * `zone`  : size of the zone in bytes (`xma->end - xma->start`).
  * `blks`  : the block chain in address order.  Every element carries the boundary tag
              *as stored* in its header (`size`, `free`, `prev` = `prev_size`) - the offset of a block is
              not stored (the C code has no such field either: `next_mblk(b)` is `b + HDR + b->size`),
              it is the sum of the extents before it (`total`).  `data` is the payload of a live block.
  * `xfree` : `xma->xfree[]`, every chain as the list of block-header offsets, head first
              (attach_to_freelist conses; alloc_from_freelist scans from the head).

  Pointers are zone offsets of block headers (user pointer = header offset + HDR).
  `next_mblk`/`prev_mblk` are resolved to the list neighbours: this coincides with the C pointer
  arithmetic as long as the stored `prev_size` fields are consistent, which is part of the proved
  invariant (and every stored field is printed and compared with the C side after every call).
  Offsets that the C code *computes* from stored fields are computed the same way here
  (`xoff = o - (HDR + b.prev)` in `free`).

  detach_from_freelist unlinks through the block's own free_prev/free_next; in list form that is
  `erase` from the chain of the block's class (`getxfi b.size`) - the only chain whose head the C
  code can update.

  `initx z` is hawk_xma_init over a caller-supplied buffer of exactly `z` bytes, for any `z` (no rounding: the zone the
  allocator works with must not be one byte longer than the buffer); `init z` is the zoneptr = NULL path of `hawk -m`,
  which rounds the size up and obtains the zone itself.  hawk_xma_calloc is `calloc`.  hawk_xma_dump only reads; the
  driver derives what it reports from the chain.

  The model follows the REPAIRED code (patches/xma-*.diff): (1) the rounding of a request wraps
  around like HAWK_ALIGN_POW2 on a machine word and a wrapped request is refused, (2) the shrink
  branch of _realloc_merge stores `n->prev_size` only if `n` is inside the zone, (3) the
  alloc-copy-free fallback copies `min(size, old block size)` bytes.
-/
namespace Hawk.Xma

def FBLKMIN : Nat := HDR + MINALLOC
def XFIMAX : Nat := NCLS - 1
def WORD : Nat := 2 ^ BITS

inductive Err where
  | badptr   -- the caller passed something that is not the address of a live block (C: undefined)
  | corrupt  -- a free-list entry does not address a block header (C: would read garbage)
deriving Repr, DecidableEq

structure Blk where
  size : Nat
  free : Bool
  prev : Nat
  data : List Nat := []
deriving Repr, DecidableEq

structure Xma where
  zone : Nat
  blks : List Blk
  xfree : List (List Nat)
deriving Repr

/-- extent of a chain: headers + payloads -/
def total : List Blk → Nat
  | [] => 0
  | b :: r => HDR + b.size + total r

/-! ### size classes -/

/-- one step of szlog2: `if ((n & (~0 << (BITS-k))) == 0) { x -= k; n <<= k; }`
    (`n & (~0 << (BITS-k)) == 0` is `n >> (BITS-k) == 0` on a BITS-wide word) -/
def szStep (k : Nat) (p : Nat × Nat) : Nat × Nat :=
  if p.2 / 2 ^ (BITS - k) = 0 then (p.1 - k, (p.2 * 2 ^ k) % WORD) else p

/-- szlog2(): the conditional steps present for this word size (`#if HAWK_SIZEOF_OOW_T >= k/4`), then 2, 1 -/
def szlog2 (n : Nat) : Nat :=
  let steps := [256, 128, 64, 32, 16, 8, 4].filter (fun k => k / 4 ≤ BITS / 8)
  let p := steps.foldl (fun p k => szStep k p) (BITS - 1, n % WORD)
  let p := szStep 2 p
  (szStep 1 p).1

/-- `xma->bdec = szlog2(FIXED * ALIGN)` -/
def bdec : Nat := szlog2 (FIXED * ALIGN)

/-- getxfi(): all arithmetic on machine words, as in C -/
def getxfi (size : Nat) : Nat :=
  let xfi := (size / ALIGN + WORD - 1) % WORD
  let xfi := if xfi ≥ FIXED then (szlog2 size + WORD - bdec + FIXED) % WORD else xfi
  if xfi > XFIMAX then XFIMAX else xfi

/-- `if (size < MINALLOCSIZE) size = MINALLOCSIZE; size = HAWK_ALIGN_POW2(size, ALIGN);` on a machine word -/
def roundReq (n : Nat) : Nat :=
  let s := if n < MINALLOC then MINALLOC else n
  ((s + (ALIGN - 1)) % WORD) / ALIGN * ALIGN

/-! ### chain access -/

/-- rebuild a chain from a reversed prefix and a suffix -/
def plug (rp : List Blk) (l : List Blk) : List Blk := rp.reverse ++ l

/-- the block whose header is at offset `o`: (reversed prefix, block, suffix) -/
def findBlk (o : Nat) : (cur : Nat) → (rp : List Blk) → List Blk → Option (List Blk × Blk × List Blk)
  | _, _, [] => none
  | cur, rp, b :: r =>
    if cur = o then some (rp, b, r)
    else if o < cur then none
    else findBlk o (cur + HDR + b.size) (b :: rp) r

/-- `if ((hawk_uint8_t*)z < xma->end) z->prev_size = v;` for the block `z` that starts the suffix -/
def setPrevHd (v : Nat) : List Blk → List Blk
  | [] => []
  | z :: r => { z with prev := v } :: r

/-! ### free lists -/

def fl (xf : List (List Nat)) (i : Nat) : List Nat := xf.getD i []

/-- attach_to_freelist -/
def attach (xf : List (List Nat)) (o size : Nat) : List (List Nat) :=
  xf.set (getxfi size) (o :: fl xf (getxfi size))

/-- detach_from_freelist -/
def detach (xf : List (List Nat)) (o size : Nat) : List (List Nat) :=
  xf.set (getxfi size) ((fl xf (getxfi size)).erase o)

/-! ### init -/

/-- hawk_xma_init with an external zone of `z` bytes: -1 when too small -/
def initx (z : Nat) : Option Xma :=
  if z < FBLKMIN then none
  else
    let first : Blk := { size := z - HDR, free := true, prev := 0 }
    some { zone := z, blks := [first],
           xfree := (List.replicate NCLS []).set (getxfi first.size) [0] }

/-- hawk_xma_init with zoneptr = NULL: the size is rounded up and raised to FBLKMINSIZE -/
def initSize (z : Nat) : Nat :=
  let z := ((z + (ALIGN - 1)) % WORD) / ALIGN * ALIGN
  if z < FBLKMIN then FBLKMIN else z

def init (z : Nat) : Option Xma := initx (initSize z)

/-! ### alloc -/

/-- the scan of alloc_from_freelist: first entry of the chain whose block has `size` bytes or more -/
def scan (blks : List Blk) (size : Nat) : List Nat → Except Err (Option (Nat × List Blk × Blk × List Blk))
  | [] => .ok none
  | o :: r =>
    match findBlk o 0 [] blks with
    | none => .error .corrupt
    | some (rp, b, q) => if b.size ≥ size then .ok (some (o, rp, b, q)) else scan blks size r

/-- `cand` leaves its chain and is handed out whole -/
def takeWhole (s : Xma) (o : Nat) (rp : List Blk) (b : Blk) (q : List Blk) : Xma :=
  { s with blks := plug rp ({ b with free := false, data := [] } :: q), xfree := detach s.xfree o b.size }

/-- `cand` is split: the first `size` bytes are handed out, the rest becomes the free block `y` -/
def takeSplit (s : Xma) (size : Nat) (o : Nat) (rp : List Blk) (b : Blk) (q : List Blk) : Xma :=
  let xf := detach s.xfree o b.size
  let y : Blk := { size := b.size - size - HDR, free := true, prev := size }
  { s with blks := plug rp ({ b with size := size, free := false, data := [] } :: y :: setPrevHd y.size q),
           xfree := attach xf (o + HDR + size) y.size }

/-- the body of alloc_from_freelist once `cand` is chosen -/
def takeBlk (s : Xma) (size : Nat) (o : Nat) (rp : List Blk) (b : Blk) (q : List Blk) : Xma :=
  if b.size - size ≥ FBLKMIN then takeSplit s size o rp b q else takeWhole s o rp b q

/-- alloc_from_freelist -/
def allocFrom (s : Xma) (xfi size : Nat) : Except Err (Option (Nat × Xma)) :=
  match scan s.blks size (fl s.xfree xfi) with
  | .error e => .error e
  | .ok none => .ok none
  | .ok (some (o, rp, b, q)) => .ok (some (o, takeBlk s size o rp b q))

/-- `for (++xfi; xfi < XFIMAX - 1; xfi++) { cand = alloc_from_freelist(xma, xfi, size); if (cand) break; }`
    over the list of classes visited -/
def sweep (s : Xma) (size : Nat) : List Nat → Except Err (Option (Nat × Xma))
  | [] => .ok none
  | i :: r =>
    match allocFrom s i size with
    | .error e => .error e
    | .ok (some x) => .ok (some x)
    | .ok none => sweep s size r

/-- the classes `xfi+1 .. XFIMAX-2` -/
def sweepClasses (xfi : Nat) : List Nat := List.range' (xfi + 1) (XFIMAX - 1 - (xfi + 1))

/-- the first attempts of the general branch of hawk_xma_alloc: a large request tries its own chain and then the
    huge chain (class index kept); a small request tries the huge chain only and, failing that, continues the
    sweep from `FIXED - 1`.  Result: (block found?, class index to continue the sweep from) -/
def allocFirst (s : Xma) (xfi size : Nat) : Except Err (Option (Nat × Xma) × Nat) :=
  if xfi ≥ FIXED then
    match allocFrom s xfi size with
    | .error e => .error e
    | .ok (some x) => .ok (some x, xfi)
    | .ok none =>
      match allocFrom s XFIMAX size with
      | .error e => .error e
      | .ok r => .ok (r, xfi)
  else
    match allocFrom s XFIMAX size with
    | .error e => .error e
    | .ok (some x) => .ok (some x, xfi)
    | .ok none => .ok (none, FIXED - 1)

/-- hawk_xma_alloc: returns the header offset of the block (user pointer = + HDR) or none = NULL -/
def alloc (s : Xma) (n : Nat) : Except Err (Option Nat × Xma) :=
  let size := roundReq n
  if size < ALIGN then .ok (none, s)               -- the rounding wrapped around
  else
    let xfi := getxfi size
    if xfi < FIXED ∧ fl s.xfree xfi ≠ [] then
      -- best fit: the head of the fixed-size chain, taken whole
      match fl s.xfree xfi with
      | [] => .ok (none, s)
      | o :: _ =>
        match findBlk o 0 [] s.blks with
        | none => .error .corrupt
        | some (rp, b, q) => .ok (some o, takeWhole s o rp b q)
    else if xfi = XFIMAX then
      match allocFrom s XFIMAX size with
      | .error e => .error e
      | .ok none => .ok (none, s)
      | .ok (some (o, s')) => .ok (some o, s')
    else
      match allocFirst s xfi size with
      | .error e => .error e
      | .ok (some (o, s'), _) => .ok (some o, s')
      | .ok (none, xfi) =>
        match sweep s size (sweepClasses xfi) with
        | .error e => .error e
        | .ok none => .ok (none, s)
        | .ok (some (o, s')) => .ok (some o, s')

/-! ### free -/

/-- the body of hawk_xma_free for the block `b` at offset `o` (`rp` = blocks before it, nearest first; `q` = blocks after it) -/
def freeCore (s : Xma) (o : Nat) (rp : List Blk) (b : Blk) (q : List Blk) : Xma :=
  let xoff := o - (HDR + b.prev)      -- prev_mblk(blk)
  let yoff := o + HDR + b.size        -- next_mblk(blk)
  match rp, q with
  | x :: rp', y :: q' =>
    if x.free ∧ y.free then
      -- merge with both neighbours
      let xf := detach (detach s.xfree xoff x.size) yoff y.size
      let x' : Blk := { x with size := x.size + ((HDR + b.size + HDR) + y.size), data := [] }
      { s with blks := plug rp' (x' :: setPrevHd x'.size q'), xfree := attach xf xoff x'.size }
    else if y.free then
      let xf := detach s.xfree yoff y.size
      let b' : Blk := { b with free := true, size := b.size + (HDR + y.size), data := [] }
      { s with blks := plug rp (b' :: setPrevHd b'.size q'), xfree := attach xf o b'.size }
    else if x.free then
      let xf := detach s.xfree xoff x.size
      let x' : Blk := { x with size := x.size + (HDR + b.size), data := [] }
      { s with blks := plug rp' (x' :: setPrevHd x'.size q), xfree := attach xf xoff x'.size }
    else
      { s with blks := plug rp ({ b with free := true, data := [] } :: q), xfree := attach s.xfree o b.size }
  | [], y :: q' =>
    -- x < xma->start
    if y.free then
      let xf := detach s.xfree yoff y.size
      let b' : Blk := { b with free := true, size := b.size + (HDR + y.size), data := [] }
      { s with blks := plug rp (b' :: setPrevHd b'.size q'), xfree := attach xf o b'.size }
    else
      { s with blks := plug rp ({ b with free := true, data := [] } :: q), xfree := attach s.xfree o b.size }
  | x :: rp', [] =>
    -- y >= xma->end
    if x.free then
      let xf := detach s.xfree xoff x.size
      let x' : Blk := { x with size := x.size + (HDR + b.size), data := [] }
      { s with blks := plug rp' (x' :: setPrevHd x'.size q), xfree := attach xf xoff x'.size }
    else
      { s with blks := plug rp ({ b with free := true, data := [] } :: q), xfree := attach s.xfree o b.size }
  | [], [] =>
    { s with blks := plug rp ({ b with free := true, data := [] } :: q), xfree := attach s.xfree o b.size }

/-- hawk_xma_free of the block whose header is at `o` -/
def free (s : Xma) (o : Nat) : Except Err Xma :=
  match findBlk o 0 [] s.blks with
  | none => .error .badptr
  | some (rp, b, q) => if b.free then .error .badptr else .ok (freeCore s o rp b q)

/-! ### realloc -/

/-- _realloc_merge: `none` = NULL (cannot be done in place), `some s'` = done, pointer unchanged -/
def reallocMerge (s : Xma) (o n : Nat) : Except Err (Option Xma) :=
  match findBlk o 0 [] s.blks with
  | none => .error .badptr
  | some (rp, b, q) =>
    if b.free then .error .badptr
    else
      let size := roundReq n
      if size < ALIGN then .ok none                  -- the rounding wrapped around
      else if size > b.size then
        -- grow into the next block
        let req := size - b.size
        match q with
        | [] => .ok none
        | nb :: q' =>
          if !nb.free ∨ req > nb.size then .ok none
          else
            let xf := detach s.xfree (o + HDR + b.size) nb.size
            let rem := (HDR + nb.size) - req
            if rem ≥ FBLKMIN then
              let b' : Blk := { b with size := b.size + req }
              let y : Blk := { size := rem - HDR, free := true, prev := b'.size }
              .ok (some { s with blks := plug rp (b' :: y :: setPrevHd y.size q'),
                                 xfree := attach xf (o + HDR + b'.size) y.size })
            else
              let b' : Blk := { b with size := b.size + (HDR + nb.size) }
              .ok (some { s with blks := plug rp (b' :: setPrevHd b'.size q'), xfree := xf })
      else if size < b.size then
        let rem := b.size - size
        if rem ≥ FBLKMIN then
          let b' : Blk := { b with size := size, data := b.data.take size }
          match q with
          | nb :: q' =>
            if nb.free then
              -- the leftover joins the free next block
              let xf := detach s.xfree (o + HDR + b.size) nb.size
              let y : Blk := { size := rem + nb.size, free := true, prev := size }
              .ok (some { s with blks := plug rp (b' :: y :: setPrevHd y.size q'),
                                 xfree := attach xf (o + HDR + size) y.size })
            else
              let y : Blk := { size := rem - HDR, free := true, prev := size }
              .ok (some { s with blks := plug rp (b' :: y :: setPrevHd y.size q),
                                 xfree := attach s.xfree (o + HDR + size) y.size })
          | [] =>
            let y : Blk := { size := rem - HDR, free := true, prev := size }
            .ok (some { s with blks := plug rp (b' :: y :: setPrevHd y.size q),
                               xfree := attach s.xfree (o + HDR + size) y.size })
        else .ok (some s)
      else .ok (some s)

/-- number of bytes the fallback copies: `size < osize ? size : osize` -/
def copyLen (n osize : Nat) : Nat := if n < osize then n else osize

/-- overwrite the payload of the block at `o` (the memcpy into the fresh block; also the user's writes) -/
def setData (s : Xma) (o : Nat) (d : List Nat) : Xma :=
  match findBlk o 0 [] s.blks with
  | none => s
  | some (rp, b, q) => { s with blks := plug rp ({ b with data := d } :: q) }

def blkAt (s : Xma) (o : Nat) : Option Blk :=
  match findBlk o 0 [] s.blks with
  | none => none
  | some (_, b, _) => some b

/-- hawk_xma_realloc (b != NULL): in place, else alloc + copy + free.
    Returns (new header offset | none = NULL, state); on NULL the old block stays. -/
def realloc (s : Xma) (o n : Nat) : Except Err (Option Nat × Xma) :=
  match reallocMerge s o n with
  | .error e => .error e
  | .ok (some s') => .ok (some o, s')
  | .ok none =>
    match alloc s n with
    | .error e => .error e
    | .ok (none, s1) => .ok (none, s1)
    | .ok (some o', s1) =>
      match blkAt s1 o with
      | none => .error .badptr
      | some ob =>
        let s2 := setData s1 o' (ob.data.take (copyLen n ob.size))
        match free s2 o with
        | .error e => .error e
        | .ok s3 => .ok (some o', s3)

/-! ### the invariant (specification vocabulary) -/

/-- boundary tags along a chain whose first header is at zone offset `c`: every header starts at a multiple of ALIGN
    (so every block except possibly the last one of the zone has an aligned size - the last one absorbs the residue of a
    caller-supplied zone whose size is not a multiple of ALIGN), `prev` equals the size of the physical predecessor
    (`ps`, 0 at the zone start), no free block follows a free block (`pf` = predecessor free), sizes are at least
    MINALLOCSIZE -/
def ChainOK (c : Nat) (ps : Nat) (pf : Bool) : List Blk → Prop
  | [] => True
  | b :: r => b.prev = ps ∧ ¬(pf = true ∧ b.free = true) ∧ c % ALIGN = 0 ∧ MINALLOC ≤ b.size ∧
              ChainOK (c + HDR + b.size) b.size b.free r

/-- (header offset, size) of the free blocks of a chain that starts at offset `cur` -/
def freeOffs (cur : Nat) : List Blk → List (Nat × Nat)
  | [] => []
  | b :: r => if b.free then (cur, b.size) :: freeOffs (cur + HDR + b.size) r else freeOffs (cur + HDR + b.size) r

/-- (header offset, size, payload) of the live (allocated) blocks of a chain that starts at offset `cur` -/
def liveOffs (cur : Nat) : List Blk → List (Nat × Nat × List Nat)
  | [] => []
  | b :: r => if b.free then liveOffs (cur + HDR + b.size) r else (cur, b.size, b.data) :: liveOffs (cur + HDR + b.size) r

/-- the bookkeeping invariant of the allocator -/
structure WF (s : Xma) : Prop where
  /-- the blocks tile the zone exactly -/
  tile : total s.blks = s.zone
  /-- prev_size consistent, headers aligned, sizes large enough, no two adjacent free blocks -/
  chain : ChainOK 0 0 false s.blks
  len : s.xfree.length = NCLS
  /-- no chain holds a block twice -/
  nodup : ∀ i, (fl s.xfree i).Nodup
  /-- chain `i` holds exactly the free blocks whose size is of class `i` -/
  mem : ∀ i o, o ∈ fl s.xfree i ↔ ∃ sz, (o, sz) ∈ freeOffs 0 s.blks ∧ getxfi sz = i

/-- hawk_xma_calloc: hawk_xma_alloc, then `HAWK_MEMSET (ptr, 0, size)` over the requested size -/
def calloc (s : Xma) (n : Nat) : Except Err (Option Nat × Xma) :=
  match alloc s n with
  | .error e => .error e
  | .ok (none, s') => .ok (none, s')
  | .ok (some o, s') => .ok (some o, setData s' o (List.replicate n 0))

/-! ### histories -/

inductive Op where
  | alloc (n : Nat)
  | calloc (n : Nat)
  | realloc (o n : Nat)
  | free (o : Nat)
  | write (o : Nat) (d : List Nat)
deriving Repr

/-- one call; a call the C code leaves undefined (bad pointer) leaves the state alone.
    `write` is the user storing `d` into a live block (ignored when it does not fit). -/
def step (s : Xma) : Op → Xma
  | .alloc n => match alloc s n with | .ok (_, s') => s' | .error _ => s
  | .calloc n => match calloc s n with | .ok (_, s') => s' | .error _ => s
  | .realloc o n => match realloc s o n with | .ok (_, s') => s' | .error _ => s
  | .free o => match free s o with | .ok s' => s' | .error _ => s
  | .write o d =>
    match blkAt s o with
    | some b => if !b.free ∧ d.length ≤ b.size then setData s o d else s
    | none => s

def run (s : Xma) (ops : List Op) : Xma := ops.foldl step s

end Hawk.Xma
