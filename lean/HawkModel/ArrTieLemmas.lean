import HawkModel.Arr
import HawkModel.CTieLemmas
import HawkModel.Gen.CFunsArr
/-!
  Helper lemma for Props/C19Tie.lean: the fuelled do-while of the translated doubling loop against the model's `dblLoop`.
-/
namespace Hawk.Arr.Tie
open Hawk.Arr Hawk.Gen.C

/-- with `f + 1` rounds of fuel the loop `do { c *= 2; } while (c <= bound)` on a 64-bit word ends in `dblLoop c bound`,
    provided `f + 1` doublings of `c` exceed `bound` and nothing reaches 2^64 -/
theorem dbl_aux (bound : Nat) (hb : bound < 2 ^ 63) (step : Nat → Nat × Bool)
    (hstep : ∀ x, step x = ((x * 2) % 18446744073709551616, decide ((x * 2) % 18446744073709551616 ≤ bound))) :
    ∀ (f c : Nat), 0 < c → c < 2 ^ 63 → bound < c * 2 ^ (f + 1) →
      doLoop (f + 1) step c = some (dblLoop c bound) := by
  intro f
  induction f with
  | zero =>
    intro c hc hc63 hlt
    have h2 : (c * 2) % 18446744073709551616 = 2 * c := by omega
    have hn : ¬ (2 * c ≤ bound) := by omega
    rw [dblLoop]
    simp [doLoop, hstep, h2, hn]
  | succ f ih =>
    intro c hc hc63 hlt
    have h2 : (c * 2) % 18446744073709551616 = 2 * c := by omega
    by_cases hle : 2 * c ≤ bound
    · have e2 : c * 2 ^ (f + 1 + 1) = 2 * c * 2 ^ (f + 1) := by
        rw [Nat.pow_succ, Nat.mul_comm (2 ^ (f + 1)) 2, ← Nat.mul_assoc, Nat.mul_comm c 2]
      have := ih (2 * c) (by omega) (by omega) (by rw [e2] at hlt; exact hlt)
      rw [dblLoop]
      rw [doLoop]
      simp only [hstep, h2, hle, decide_true, if_true, hc, and_self, dite_true]
      exact this
    · rw [dblLoop]
      simp [doLoop, hstep, h2, hle]

end Hawk.Arr.Tie
