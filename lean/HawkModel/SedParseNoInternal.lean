import HawkModel.SedParseProgress
/-!
  No reader of the script compiler produces the error value `PErr.internal`; with `parseCmd_len` / `skipComment_len`
  (HawkModel/SedParseProgress.lean) the model of hawk_sed_comp never reports it.
-/
namespace Hawk.Sed

theorem terminate_ni (s : Str) (e : PErr) (h : terminate s = .error e) : e ≠ .internal := by
  unfold terminate at h
  repeat' split at h
  all_goals (first | (cases h; done) | (cases h; decide))

theorem pickupRex_ni (rxend : Char) (repl : Bool) (err : PErr) (herr : err ≠ .internal) (s : Str) (skip bs cfob : Nat) (acc : Str) :
    ∀ e, pickupRex rxend repl err s skip bs cfob acc = .error e → e ≠ .internal := by
  fun_induction pickupRex rxend repl err s skip bs cfob acc <;> intro e h
  all_goals (
    first
    | (cases h; done)
    | (cases h; exact herr)
    | (rename_i ih; exact ih _ h)
    | (rename_i ih _; exact ih _ h)
    | (rename_i ih _ _; exact ih _ h)
    | (rename_i ih _ _ _; exact ih _ h))

theorem fileLoop_ni (s acc : Str) (tsp : Nat) : ∀ e, fileLoop s acc tsp = .error e → e ≠ .internal := by
  fun_induction fileLoop s acc tsp <;> intro e h
  all_goals (
    first
    | (cases h; done)
    | (cases h; decide)
    | (rename_i ih; exact ih _ h)
    | (rename_i ih _; exact ih _ h)
    | (rename_i ih _ _; exact ih _ h))

theorem transLoop_ni (delim : Char) (limit : Option Nat) (s : Str) (skip : Nat) (acc : Str) :
    ∀ e, transLoop delim limit s skip acc = .error e → e ≠ .internal := by
  fun_induction transLoop delim limit s skip acc <;> intro e h
  all_goals (
    first
    | (cases h; done)
    | (cases h; decide)
    | (rename_i ih; exact ih _ h)
    | (rename_i ih _; exact ih _ h)
    | (rename_i ih _ _; exact ih _ h))

theorem getLabel_ni (tr : Traits) (s : Str) (e : PErr) (h : getLabel tr s = .error e) : e ≠ .internal := by
  simp only [getLabel, labelRun] at h
  by_cases hc : List.takeWhile isLabChar (skipSpaces s) = [] ∧ tr.strict = true
  · simp [hc] at h; subst h; decide
  · simp [hc] at h

theorem getBranchTarget_ni (s : Str) (e : PErr) (h : getBranchTarget s = .error e) : e ≠ .internal := by
  simp only [getBranchTarget, labelRun] at h
  repeat' split at h
  all_goals (first | (cases h; done) | (cases h; exact terminate_ni _ _ (by assumption)))

theorem getFile_ni (s : Str) (e : PErr) (h : getFile s = .error e) : e ≠ .internal := by
  simp only [getFile] at h
  repeat' split at h
  all_goals (
    first
    | (cases h; done)
    | (cases h; decide)
    | (cases h; exact fileLoop_ni _ _ _ _ (by assumption))
    | (cases h; exact terminate_ni _ _ (by assumption)))

theorem optLoop_ni (s : Str) (f : SFlags) : ∀ e, optLoop s f = .error e → e ≠ .internal := by
  fun_induction optLoop s f <;> intro e h
  all_goals (try (dsimp only at h))
  all_goals (try (split at h))
  all_goals (try (split at h))
  all_goals (
    first
    | (cases h; done)
    | (cases h; decide)
    | (cases h; exact terminate_ni _ _ (by assumption))
    | (cases h; exact getFile_ni _ _ (by assumption))
    | (rename_i ih; exact ih _ h)
    | (rename_i ih _; exact ih _ h)
    | (rename_i ih _ _; exact ih _ h)
    | (rename_i ih _ _ _; exact ih _ h))

theorem getSubst_ni (s : Str) (e : PErr) (h : getSubst s = .error e) : e ≠ .internal := by
  unfold getSubst at h
  repeat' split at h
  all_goals (
    first
    | (cases h; done)
    | (cases h; decide)
    | (cases h; exact pickupRex_ni _ _ PErr.ECMDIC (by decide) _ _ _ _ _ _ (by assumption))
    | (cases h; exact optLoop_ni _ _ _ (by assumption)))

theorem getTranset_ni (s : Str) (e : PErr) (h : getTranset s = .error e) : e ≠ .internal := by
  unfold getTranset at h
  repeat' split at h
  all_goals (
    first
    | (cases h; done)
    | (cases h; decide)
    | (cases h; exact transLoop_ni _ _ _ _ _ _ (by assumption))
    | (cases h; exact terminate_ni _ _ (by assumption)))

theorem getTextCmd_ni (tr : Traits) (c : Char) (s : Str) (e : PErr) (h : getTextCmd tr c s = .error e) : e ≠ .internal := by
  simp only [getTextCmd] at h
  repeat' split at h
  all_goals (first | (cases h; done) | (cases h; decide))

theorem getCommand_ni (tr : Traits) (a b : Bool) (s : Str) (e : PErr) (h : getCommand tr a b s = .error e) : e ≠ .internal := by
  cases s with
  | nil => simp [getCommand] at h; subst h; decide
  | cons c t =>
    simp only [getCommand] at h
    by_cases h1 : c = '\n'
    · simp [h1] at h; subst h; decide
    simp only [h1, ↓reduceIte] at h
    by_cases h2 : c = ':'
    · simp only [h2, ↓reduceIte] at h
      split at h
      · cases h; decide
      · split at h
        · rename_i e' hl; cases h; exact getLabel_ni _ _ _ hl
        · cases h
    simp only [h2, ↓reduceIte] at h
    repeat' split at h
    all_goals (
      first
      | (cases h; done)
      | (cases h; decide)
      | (cases h; exact terminate_ni _ _ (by assumption))
      | (cases h; exact getBranchTarget_ni _ _ (by assumption))
      | (cases h; exact getFile_ni _ _ (by assumption))
      | exact getTextCmd_ni _ _ _ _ h
      | exact getSubst_ni _ _ h
      | exact getTranset_ni _ _ h)

theorem getAddr2_ni (s : Str) (e : PErr) (h : getAddr2 s = .error e) : e ≠ .internal := by
  unfold getAddr2 at h
  repeat' split at h
  all_goals (first | (cases h; done) | (cases h; decide))

theorem parseAddrs_ni (s : Str) (e : PErr) (h : parseAddrs s = .error e) : e ≠ .internal := by
  simp only [parseAddrs] at h
  split at h
  · cases h; decide
  · split at h
    · rename_i e' h2
      cases h
      split at h2
      · cases h2
      · exact getAddr2_ni _ _ h2
    · split at h <;> (first | (cases h; done) | (cases h; decide))

theorem parseBody_ni (tr : Traits) (a1 a2 : PAddr) (s : Str) (e : PErr) (h : parseBody tr a1 a2 s = .error e) : e ≠ .internal := by
  simp only [parseBody] at h
  split at h
  · cases h; exact getCommand_ni _ _ _ _ _ (by assumption)
  · cases h

theorem parseCmd_ni (tr : Traits) (s : Str) (e : PErr) (h : parseCmd tr s = .error e) : e ≠ .internal := by
  simp only [parseCmd] at h
  split at h
  · cases h; exact parseAddrs_ni _ _ (by assumption)
  · exact parseBody_ni _ _ _ _ _ h

theorem Except.map_eq_error {ε α β : Type} {f : α → β} {x : Except ε α} {e : ε} :
    Except.map f x = .error e ↔ x = .error e := by
  cases x <;> simp [Except.map]

/-- the model of hawk_sed_comp never reports `PErr.internal`: the progress guard of `compLoop` is dead -/
theorem compLoop_no_internal (tr : Traits) (s : Str) (lvl : Nat) (labs : List Str) :
    compLoop tr s lvl labs = .error .internal → False := by
  fun_induction compLoop tr s lvl labs <;> intro h
  all_goals (try (simp at h; done))
  all_goals (try (rename_i ih; exact ih h))
  all_goals (try (simp_all [Except.map_eq_error]; done))
  all_goals (
    first
    | exact absurd (skipComment_len _) (by assumption)
    | (rename_i e hx; rw [hx] at h; simp at h; exact parseCmd_ni _ _ _ hx h)
    | (rename_i hx ih; rw [hx] at h; simp [*, Except.map_eq_error] at h; done)
    | (rename_i hx ih; rw [hx] at h; simp [*, Except.map_eq_error] at h; exact ih h)
    | (rename_i hl nm hop hdup hx ih; rw [hx] at h; simp only [hl, ↓reduceDIte, hop] at h; simp only [dite_eq_ite] at ih; split at h; · cases h
       · exact ih (Except.map_eq_error.mp h))
    | (rename_i hl hx; have := parseCmd_len _ _ _ _ hx; simp at this; omega))

end Hawk.Sed
