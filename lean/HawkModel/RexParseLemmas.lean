import HawkModel.RexParse
import HawkModel.RexLemmas
/-! lemmas about the transcription of `tre-parse.c` (`RexParse.lean`): meaning of a tree = meaning of its `Re` -/
namespace Hawk.Rex.Tre
open Hawk.Rex

theorem inRange_full (d : Char) : inRange (Char.ofNat 0) (Char.ofNat 0x10FFFF) d = true := by
  have h0 : (Char.ofNat 0).val = 0 := by decide
  have h1 : (Char.ofNat 0x10FFFF).val = 0x10FFFF := by decide
  have hv := d.valid
  simp only [inRange, h0, h1, Bool.and_eq_true, decide_eq_true_eq]
  simp only [UInt32.isValidChar, Nat.isValidChar] at hv
  constructor
  · simp [UInt32.le_iff_toNat_le]
  · rw [UInt32.le_iff_toNat_le]
    have : (0x10FFFF : UInt32).toNat = 1114111 := by decide
    omega

theorem clsHas_single_range (lo hi d : Char) : clsHas false false [ClsItem.range lo hi] d = inRange lo hi d := by
  simp [clsHas, itemHas]

theorem clsHas_single_named (k : CClass) (d : Char) : clsHas false false [ClsItem.named k] d = k.has d := by
  simp [clsHas, itemHas]

/-- a literal leaf inside `Ast.plain` accepts exactly the characters its bracket expression accepts -/
theorem litRe_has {ic : Bool} {l : Lit}
    (h : (l.neg.isEmpty && (l.cls.isNone || (!ic && l.lo == 0 && l.hi.isNone))) = true) (d : Char) :
    ∃ items, litRe ic l = .cls false items ∧ clsHas false false items d = l.has ic d := by
  obtain ⟨lo, hi, pos, cls, neg⟩ := l
  simp only [Bool.and_eq_true, Bool.or_eq_true, List.isEmpty_iff] at h
  obtain ⟨hn, hc⟩ := h
  subst hn
  cases cls with
  | none =>
    refine ⟨[ClsItem.range (Char.ofNat lo) (hiChar hi)], by simp [litRe], ?_⟩
    simp [clsHas_single_range, Lit.has]
  | some k =>
    rcases hc with hc | hc
    · simp at hc
    · simp only [Bool.not_eq_true', beq_iff_eq, Option.isNone_iff_eq_none] at hc
      obtain ⟨⟨hic, hlo⟩, hhi⟩ := hc
      subst hic; subst hlo; subst hhi
      refine ⟨[ClsItem.named k], by simp [litRe], ?_⟩
      simp [clsHas_single_named, Lit.has, hiChar, inRange_full, classHas]

/-- **the tree means what its `Re` means** (for `Ast.plain` trees) -/
theorem toRe_denotation {ic nb ne : Bool} {s : List Char} : ∀ (a : Ast), a.plain ic = true →
    ∃ r, toRe ic a = some r ∧ ∀ i j, AMatches ic nb ne s a i j ↔ Matches ⟨false, nb, ne⟩ s r i j
  | .leaf .empty _ _, _ => ⟨.emp, rfl, fun i j => by simp [AMatches, Matches]⟩
  | .leaf (.asrt c) _ _, h => by
    simp only [Ast.plain] at h
    cases hc : asrtRe c with
    | none => simp [hc] at h
    | some r => exact ⟨r, by simp [toRe, hc], fun i j => by simp [AMatches, hc]⟩
  | .leaf (.backref _ _) _ _, h => by simp [Ast.plain] at h
  | .leaf (.lit l) _ _, h => by
    simp only [Ast.plain] at h
    refine ⟨litRe ic l, by simp [toRe], fun i j => ?_⟩
    constructor
    · rintro ⟨hj, d, hd, hh⟩
      obtain ⟨items, hit, hx⟩ := litRe_has h d
      rw [hit]
      exact ⟨hj, d, hd, by rw [hx]; exact hh⟩
    · intro hm
      obtain ⟨items0, hit0, _⟩ := litRe_has (ic := ic) h 'a'
      rw [hit0] at hm
      obtain ⟨hj, d, hd, hh⟩ := hm
      obtain ⟨items, hit, hx⟩ := litRe_has h d
      have : items = items0 := by
        have := hit.symm.trans hit0
        injection this
      subst this
      exact ⟨hj, d, hd, by rw [← hx]; exact hh⟩
  | .cat a b _ _, h => by
    simp only [Ast.plain, Bool.and_eq_true] at h
    obtain ⟨ra, ha, hA⟩ := toRe_denotation (ic := ic) (nb := nb) (ne := ne) (s := s) a h.1
    obtain ⟨rb, hb, hB⟩ := toRe_denotation (ic := ic) (nb := nb) (ne := ne) (s := s) b h.2
    refine ⟨.cat ra rb, by simp [toRe, ha, hb], fun i j => ?_⟩
    simp only [AMatches, Matches, hA, hB]
  | .union a b _ _, h => by
    simp only [Ast.plain, Bool.and_eq_true] at h
    obtain ⟨ra, ha, hA⟩ := toRe_denotation (ic := ic) (nb := nb) (ne := ne) (s := s) a h.1
    obtain ⟨rb, hb, hB⟩ := toRe_denotation (ic := ic) (nb := nb) (ne := ne) (s := s) b h.2
    refine ⟨.alt ra rb, by simp [toRe, ha, hb], fun i j => ?_⟩
    simp only [AMatches, Matches, hA, hB]
  | .iter a mn mx _ _ _, h => by
    simp only [Ast.plain] at h
    obtain ⟨ra, ha, hA⟩ := toRe_denotation (ic := ic) (nb := nb) (ne := ne) (s := s) a h
    refine ⟨.rep ra mn.toNat (if mx < 0 then none else some mx.toNat), by simp [toRe, ha], fun i j => ?_⟩
    simp only [AMatches, Matches]
    constructor
    · rintro ⟨h1, k, h2, h3, h4⟩
      exact ⟨h1, k, h2, h3, (IterN.congr hA).1 h4⟩
    · rintro ⟨h1, k, h2, h3, h4⟩
      exact ⟨h1, k, h2, h3, (IterN.congr hA).2 h4⟩

/-- every match of a tree lies inside the subject -/
theorem AMatches.bounds {ic nb ne : Bool} {s : List Char} : ∀ (a : Ast) {i j : Nat},
    AMatches ic nb ne s a i j → i ≤ j ∧ j ≤ s.length
  | .leaf .empty _ _, i, j, h => by simp only [AMatches] at h; omega
  | .leaf (.asrt c) _ _, i, j, h => by
    simp only [AMatches] at h
    cases hc : asrtRe c with
    | none => simp [hc] at h
    | some r => rw [hc] at h; exact Matches.bounds h
  | .leaf (.backref _ _) _ _, i, j, h => by simp [AMatches] at h
  | .leaf (.lit l) _ _, i, j, h => by
    simp only [AMatches] at h
    obtain ⟨hj, d, hd, _⟩ := h
    have : i < s.length := by
      rcases Nat.lt_or_ge i s.length with h | h
      · exact h
      · rw [List.getElem?_eq_none h] at hd; cases hd
    omega
  | .cat a b _ _, i, j, h => by
    simp only [AMatches] at h
    obtain ⟨k, h1, h2⟩ := h
    have := AMatches.bounds a h1
    have := AMatches.bounds b h2
    omega
  | .union a b _ _, i, j, h => by
    simp only [AMatches] at h
    rcases h with h | h
    · exact AMatches.bounds a h
    · exact AMatches.bounds b h
  | .iter a mn mx _ _ _, i, j, h => by
    simp only [AMatches] at h
    obtain ⟨hi, k, _, _, hk⟩ := h
    have h1 := IterN.le (fun x y hxy => (AMatches.bounds a hxy).1) hk
    have h2 := IterN.bound (fun x y hxy => (AMatches.bounds a hxy).2) hk hi
    exact ⟨h1, h2⟩

/-- `PARSE_MARK_FOR_SUBMATCH` -/
theorem mark_sub (id : Nat) (r : Ast) : (mark id r).sub = some id := by
  unfold mark
  cases r <;> rename_i s n <;> cases s <;> simp [Ast.sub, Ast.setSub]

theorem mark_nsub (id : Nat) (r : Ast) : (mark id r).nsub = r.nsub + 1 := by
  unfold mark
  cases r <;> rename_i s n <;> cases s <;> simp [Ast.sub, Ast.setSub, Ast.nsub]

/-- the meaning of a tree does not depend on the submatch bookkeeping -/
theorem AMatches_setSub {ic nb ne : Bool} {s : List Char} (a : Ast) (sb : Option Nat) (n : Nat) (i j : Nat) :
    AMatches ic nb ne s (a.setSub sb n) i j ↔ AMatches ic nb ne s a i j := by
  cases a with
  | leaf l _ _ => cases l <;> simp [Ast.setSub, AMatches]
  | cat a b _ _ => simp [Ast.setSub, AMatches]
  | union a b _ _ => simp [Ast.setSub, AMatches]
  | iter a mn mx mi _ _ => simp [Ast.setSub, AMatches]

/-- marking a submatch does not change the language: the extra `EMPTY ·` in front matches the empty string -/
theorem mark_matches {ic nb ne : Bool} {s : List Char} (id : Nat) (r : Ast) (i j : Nat)
    (hb : ∀ i j, AMatches ic nb ne s r i j → i ≤ s.length) :
    AMatches ic nb ne s (mark id r) i j ↔ AMatches ic nb ne s r i j := by
  unfold mark
  cases hs : r.sub with
  | none => simp only [AMatches_setSub]
  | some k =>
    simp only [AMatches_setSub, AMatches, mkEmpty]
    constructor
    · rintro ⟨k, ⟨rfl, _⟩, h⟩; exact h
    · intro h; exact ⟨i, ⟨rfl, hb _ _ h⟩, h⟩

end Hawk.Rex.Tre
