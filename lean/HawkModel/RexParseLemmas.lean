import HawkModel.RexParse
import HawkModel.RexLemmas
/-! lemmas about the transcription of `tre-parse.c` (`RexParse.lean`): meaning of a tree = meaning of its `Re` -/
namespace Hawk.Rex.Tre
open Hawk.Rex

theorem inRange_full (d : Char) : inRange (Char.ofNat 0) (Char.ofNat 0x10FFFF) d = true := by
  have h0 : (Char.ofNat 0).val = 0 := by decide
  have h1 : (Char.ofNat 0x10FFFF).val = 0x10FFFF := by decide
  have hv := d.valid
  simp only [inRange, h0, h1, Bool.and_eq_true, decide_eq_true_eq]
  simp only [UInt32.isValidChar, Nat.isValidChar] at hv
  constructor
  · simp [UInt32.le_iff_toNat_le]
  · rw [UInt32.le_iff_toNat_le]
    have : (0x10FFFF : UInt32).toNat = 1114111 := by decide
    omega

theorem clsHas_single_range (lo hi d : Char) : clsHas false false [ClsItem.range lo hi] d = inRange lo hi d := by
  simp [clsHas, itemHas]

theorem clsHas_single_named (k : CClass) (d : Char) : clsHas false false [ClsItem.named k] d = k.has d := by
  simp [clsHas, itemHas]

/-! ### classes under REG_ICASE, case-sensitively -/

theorem classHas_small (k : CClass) : ∀ n, n < 128 → classHas true k (Char.ofNat n) = (icClose k).has (Char.ofNat n) := by
  cases k <;> decide +kernel

theorem not_le_small (d : Char) (h : 128 ≤ d.toNat) (c : UInt32) (hc : c.toNat < 128) : ¬ d.val ≤ c := by
  rw [UInt32.le_iff_toNat_le]
  have : d.val.toNat = d.toNat := rfl
  omega

theorem fold_big (d : Char) (h : 128 ≤ d.toNat) : fold d = d := by
  unfold fold Char.toLower
  split
  · rename_i hh; exact absurd hh.2 (not_le_small d h _ (by decide))
  · rfl

theorem upper_big (d : Char) (h : 128 ≤ d.toNat) : upper d = d := by
  unfold upper Char.toUpper
  split
  · rename_i hh; exact absurd hh.2 (not_le_small d h _ (by decide))
  · rfl

theorem has_big (k : CClass) (d : Char) (h : 128 ≤ d.toNat) : k.has d = false := by
  have e1 : ∀ c : UInt32, c.toNat < 128 → decide (d.val ≤ c) = false := fun c hc => by simp [not_le_small d h c hc]
  have e2 : ∀ n : Nat, n < 128 → decide (d.toNat ≤ n) = false := fun n hn => by simp; omega
  have e3 : ∀ c : Char, c.toNat < 128 → (d == c) = false := fun c hc => by
    simp only [beq_eq_false_iff_ne, ne_eq]; intro hdc; subst hdc; omega
  cases k <;> simp [CClass.has, between, Char.isAlpha, Char.isUpper, Char.isLower, Char.isDigit, Char.isAlphanum, e1, e2, e3] <;> omega

/-- **a named class under REG_ICASE** (`tre_isctype(c) || tre_isctype(tolower c) || tre_isctype(toupper c)`) is the
class `icClose k` matched case-sensitively — for every class and every character -/
theorem classHas_icClose (k : CClass) (d : Char) : classHas true k d = (icClose k).has d := by
  by_cases h : d.toNat < 128
  · have := classHas_small k d.toNat h
    rwa [Char.ofNat_toNat] at this
  · have h' : 128 ≤ d.toNat := by omega
    simp [classHas, fold_big d h', upper_big d h', has_big _ d h']

theorem nm_has (ic : Bool) (k : CClass) (d : Char) :
    itemHas false (.named (if ic then icClose k else k)) d = classHas ic k d := by
  cases ic
  · simp [itemHas, classHas]
  · rw [classHas_icClose]; simp [itemHas]

/-! ### complement ranges -/

theorem ofNat_toNat_small (n : Nat) (h : n < 0xD800) : (Char.ofNat n).toNat = n := by
  have hv : n.isValidChar := Or.inl h
  simp [Char.ofNat, hv, Char.ofNatAux, Char.toNat]

theorem inRange_nat (a b d : Char) : inRange a b d = (decide (a.toNat ≤ d.toNat) && decide (d.toNat ≤ b.toNat)) := by
  unfold inRange
  simp only [UInt32.le_iff_toNat_le]
  rfl

theorem char_toNat_le_max (d : Char) : d.toNat ≤ 1114111 := by
  have hv := d.valid
  simp only [UInt32.isValidChar, Nat.isValidChar] at hv
  have : d.val.toNat = d.toNat := rfl
  omega

theorem complRanges_has (l : Lit) (hl : l.lowCodes = true) (d : Char) :
    (!(complRanges l).any (fun it => itemHas false it d)) = inRange (Char.ofNat l.lo) (hiChar l.hi) d := by
  obtain ⟨lo, hi, pos, cls, neg⟩ := l
  have hmax : (Char.ofNat 0x10FFFF).toNat = 1114111 := by decide
  have h0 : (Char.ofNat 0).toNat = 0 := by decide
  have hd := char_toNat_le_max d
  simp only [Lit.lowCodes, Bool.and_eq_true, decide_eq_true_eq] at hl
  obtain ⟨hlo, hhi⟩ := hl
  cases hi with
  | none =>
    by_cases h0' : lo = 0
    · subst h0'
      simp [complRanges, hiChar, inRange_nat, hmax, h0, hd]
    · have e1 := ofNat_toNat_small lo hlo
      have e2 := ofNat_toNat_small (lo - 1) (by omega)
      simp only [complRanges, h0', if_false, List.append_nil, List.any_cons, List.any_nil, Bool.or_false, itemHas, Bool.false_and,
        hiChar, inRange_nat, hmax, h0, e1, e2]
      rw [Bool.eq_iff_iff]
      simp
      omega
  | some h =>
    simp only [decide_eq_true_eq] at hhi
    have e3 := ofNat_toNat_small h (by omega)
    have e4 := ofNat_toNat_small (h + 1) hhi
    by_cases h0' : lo = 0
    · subst h0'
      simp only [complRanges, if_true, List.nil_append, List.any_cons, List.any_nil, Bool.or_false, itemHas, Bool.false_and,
        hiChar, inRange_nat, hmax, h0, e3, e4]
      rw [Bool.eq_iff_iff]
      simp
      omega
    · have e1 := ofNat_toNat_small lo hlo
      have e2 := ofNat_toNat_small (lo - 1) (by omega)
      simp only [complRanges, h0', if_false, List.cons_append, List.nil_append, List.any_cons, List.any_nil, Bool.or_false, itemHas, Bool.false_and,
        hiChar, inRange_nat, hmax, h0, e1, e2, e3, e4]
      rw [Bool.eq_iff_iff]
      simp
      omega

theorem any_nm (ic : Bool) (d : Char) : ∀ (neg : List CClass),
    (neg.map fun k => ClsItem.named (if ic then icClose k else k)).any (fun it => itemHas false it d) = neg.any (fun k => classHas ic k d)
  | [] => rfl
  | k :: rest => by simp only [List.map_cons, List.any_cons, nm_has, any_nm ic d rest]

/-- a literal leaf inside `Ast.plain` accepts exactly the characters its bracket expression accepts -/
theorem litRe_cls {ic : Bool} {l : Lit}
    (h : (if l.neg.isEmpty then l.cls.isNone || (l.lo == 0 && l.hi.isNone) else l.cls.isNone && l.lowCodes) = true) :
    ∃ ng items, litRe ic l = .cls ng items ∧ ∀ d, clsHas false ng items d = l.has ic d := by
  by_cases hn : l.neg.isEmpty = true
  · rw [if_pos hn] at h
    obtain ⟨lo, hi, pos, cls, neg⟩ := l
    simp only [List.isEmpty_iff] at hn
    subst hn
    cases cls with
    | none =>
      refine ⟨false, [ClsItem.range (Char.ofNat lo) (hiChar hi)], by simp [litRe], fun d => ?_⟩
      simp [clsHas_single_range, Lit.has]
    | some k =>
      simp only [Option.isNone_some, Bool.false_or, Bool.and_eq_true, beq_iff_eq, Option.isNone_iff_eq_none] at h
      obtain ⟨hlo, hhi⟩ := h
      subst hlo; subst hhi
      refine ⟨false, [ClsItem.named (if ic then icClose k else k)], by simp [litRe], fun d => ?_⟩
      simp only [clsHas, List.any_cons, List.any_nil, Bool.or_false, nm_has, Lit.has, hiChar, inRange_full, List.all_nil,
        Bool.true_and, Bool.and_true]
      cases classHas ic k d <;> rfl
  · rw [if_neg hn] at h
    simp only [Bool.and_eq_true, Option.isNone_iff_eq_none] at h
    obtain ⟨hc, hl⟩ := h
    refine ⟨true, l.neg.map (fun k => ClsItem.named (if ic then icClose k else k)) ++ complRanges l, by simp [litRe, hn], fun d => ?_⟩
    have hcr := complRanges_has l hl d
    simp only [clsHas, List.any_append, any_nm, Lit.has, hc]
    rw [← hcr]
    cases hA : l.neg.any (fun k => classHas ic k d) <;> cases hB : (complRanges l).any (fun it => itemHas false it d) <;>
      simp [List.all_eq_not_any_not, hA]

/-- **the tree means what its `Re` means** (for `Ast.plain` trees) -/
theorem toRe_denotation {ic nb ne : Bool} {s : List Char} : ∀ (a : Ast), a.plain ic = true →
    ∃ r, toRe ic a = some r ∧ ∀ i j, AMatches ic nb ne s a i j ↔ Matches ⟨false, nb, ne⟩ s r i j
  | .leaf .empty _ _, _ => ⟨.emp, rfl, fun i j => by simp [AMatches, Matches]⟩
  | .leaf (.asrt c) _ _, h => by
    simp only [Ast.plain] at h
    cases hc : asrtRe c with
    | none => simp [hc] at h
    | some r => exact ⟨r, by simp [toRe, hc], fun i j => by simp [AMatches, hc]⟩
  | .leaf (.backref _ _) _ _, h => by simp [Ast.plain] at h
  | .leaf (.lit l) _ _, h => by
    simp only [Ast.plain] at h
    obtain ⟨ng, items, hit, hx⟩ := litRe_cls (ic := ic) h
    refine ⟨litRe ic l, by simp [toRe], fun i j => ?_⟩
    rw [hit]
    simp only [AMatches, Matches, hx]
  | .cat a b _ _, h => by
    simp only [Ast.plain, Bool.and_eq_true] at h
    obtain ⟨ra, ha, hA⟩ := toRe_denotation (ic := ic) (nb := nb) (ne := ne) (s := s) a h.1
    obtain ⟨rb, hb, hB⟩ := toRe_denotation (ic := ic) (nb := nb) (ne := ne) (s := s) b h.2
    refine ⟨.cat ra rb, by simp [toRe, ha, hb], fun i j => ?_⟩
    simp only [AMatches, Matches, hA, hB]
  | .union a b _ _, h => by
    simp only [Ast.plain, Bool.and_eq_true] at h
    obtain ⟨ra, ha, hA⟩ := toRe_denotation (ic := ic) (nb := nb) (ne := ne) (s := s) a h.1
    obtain ⟨rb, hb, hB⟩ := toRe_denotation (ic := ic) (nb := nb) (ne := ne) (s := s) b h.2
    refine ⟨.alt ra rb, by simp [toRe, ha, hb], fun i j => ?_⟩
    simp only [AMatches, Matches, hA, hB]
  | .iter a mn mx _ _ _, h => by
    simp only [Ast.plain] at h
    obtain ⟨ra, ha, hA⟩ := toRe_denotation (ic := ic) (nb := nb) (ne := ne) (s := s) a h
    refine ⟨.rep ra mn.toNat (if mx < 0 then none else some mx.toNat), by simp [toRe, ha], fun i j => ?_⟩
    simp only [AMatches, Matches]
    constructor
    · rintro ⟨h1, k, h2, h3, h4⟩
      exact ⟨h1, k, h2, h3, (IterN.congr hA).1 h4⟩
    · rintro ⟨h1, k, h2, h3, h4⟩
      exact ⟨h1, k, h2, h3, (IterN.congr hA).2 h4⟩

/-- every match of a tree lies inside the subject -/
theorem AMatches.bounds {ic nb ne : Bool} {s : List Char} : ∀ (a : Ast) {i j : Nat},
    AMatches ic nb ne s a i j → i ≤ j ∧ j ≤ s.length
  | .leaf .empty _ _, i, j, h => by simp only [AMatches] at h; omega
  | .leaf (.asrt c) _ _, i, j, h => by
    simp only [AMatches] at h
    cases hc : asrtRe c with
    | none => simp [hc] at h
    | some r => rw [hc] at h; exact Matches.bounds h
  | .leaf (.backref _ _) _ _, i, j, h => by simp [AMatches] at h
  | .leaf (.lit l) _ _, i, j, h => by
    simp only [AMatches] at h
    obtain ⟨hj, d, hd, _⟩ := h
    have : i < s.length := by
      rcases Nat.lt_or_ge i s.length with h | h
      · exact h
      · rw [List.getElem?_eq_none h] at hd; cases hd
    omega
  | .cat a b _ _, i, j, h => by
    simp only [AMatches] at h
    obtain ⟨k, h1, h2⟩ := h
    have := AMatches.bounds a h1
    have := AMatches.bounds b h2
    omega
  | .union a b _ _, i, j, h => by
    simp only [AMatches] at h
    rcases h with h | h
    · exact AMatches.bounds a h
    · exact AMatches.bounds b h
  | .iter a mn mx _ _ _, i, j, h => by
    simp only [AMatches] at h
    obtain ⟨hi, k, _, _, hk⟩ := h
    have h1 := IterN.le (fun x y hxy => (AMatches.bounds a hxy).1) hk
    have h2 := IterN.bound (fun x y hxy => (AMatches.bounds a hxy).2) hk hi
    exact ⟨h1, h2⟩

/-- `PARSE_MARK_FOR_SUBMATCH` -/
theorem mark_sub (id : Nat) (r : Ast) : (mark id r).sub = some id := by
  unfold mark
  cases r <;> rename_i s n <;> cases s <;> simp [Ast.sub, Ast.setSub]

theorem mark_nsub (id : Nat) (r : Ast) : (mark id r).nsub = r.nsub + 1 := by
  unfold mark
  cases r <;> rename_i s n <;> cases s <;> simp [Ast.sub, Ast.setSub, Ast.nsub]

/-- the meaning of a tree does not depend on the submatch bookkeeping -/
theorem AMatches_setSub {ic nb ne : Bool} {s : List Char} (a : Ast) (sb : Option Nat) (n : Nat) (i j : Nat) :
    AMatches ic nb ne s (a.setSub sb n) i j ↔ AMatches ic nb ne s a i j := by
  cases a with
  | leaf l _ _ => cases l <;> simp [Ast.setSub, AMatches]
  | cat a b _ _ => simp [Ast.setSub, AMatches]
  | union a b _ _ => simp [Ast.setSub, AMatches]
  | iter a mn mx mi _ _ => simp [Ast.setSub, AMatches]

/-- marking a submatch does not change the language: the extra `EMPTY ·` in front matches the empty string -/
theorem mark_matches {ic nb ne : Bool} {s : List Char} (id : Nat) (r : Ast) (i j : Nat)
    (hb : ∀ i j, AMatches ic nb ne s r i j → i ≤ s.length) :
    AMatches ic nb ne s (mark id r) i j ↔ AMatches ic nb ne s r i j := by
  unfold mark
  cases hs : r.sub with
  | none => simp only [AMatches_setSub]
  | some k =>
    simp only [AMatches_setSub, AMatches, mkEmpty]
    constructor
    · rintro ⟨k, ⟨rfl, _⟩, h⟩; exact h
    · intro h; exact ⟨i, ⟨rfl, hb _ _ h⟩, h⟩

end Hawk.Rex.Tre
