/-
  Model of lib/htb.c (hawk_htb_t): separate-chaining hash table.

  State: `buckets` is the bucket array (one chain per slot, head of the C chain = head of the
  list), and `size`, `capa`, `threshold`, `factor` are stored separately *as in the C struct*,
  so that `buckets.length = capa` and `size = Σ chain lengths` are theorems, not definitions.

  Keys and values are small naturals.  The hash function, the value-copier kind (SIMPLE or
  INLINE), the length of a value (only its equality matters: `change_pair_val` re-allocates the
  pair of an INLINE value copier when the length changes) and the optional `sizer` callback are
  parameters (`Cfg`).  The key-copier kind has no influence on the structure and is not a
  parameter.  The allocator is an oracle: a list of answers consumed one per allocation request
  (`hawk_gem_allocmem`), exhausted = success.

  Events record the style callbacks (freeer[KEY], freeer[VAL], keeper) in call order.  The
  predefined styles install none of them; the harness installs logging ones in a copy of each
  predefined style to observe `hawk_htb_freepair`.
-/
namespace Hawk.Htb

abbrev Pair := Nat × Nat
abbrev Chain := List Pair

inductive Ev where
  | freedK (k : Nat)
  | freedV (v : Nat)
  | kept (v : Nat)
deriving Repr, DecidableEq

inductive Err where
  | enoent | eexist | enomem
  | ecb      -- hawk_htb_cbsert: the callback returned HAWK_NULL on its own account (no error number of htb's)
deriving Repr, DecidableEq

/-- allocator oracle: answers for successive allocation requests; exhausted = success -/
abbrev Oracle := List Bool

def Oracle.next : Oracle → Bool × Oracle
  | [] => (true, [])
  | b :: r => (b, r)

structure Cfg where
  /-- style->hasher applied to a key (any function) -/
  hash : Nat → Nat
  /-- style->copier[HAWK_HTB_VAL] == HAWK_HTB_COPIER_INLINE -/
  vinline : Bool := false
  /-- length passed with a value -/
  vlen : Nat → Nat := fun _ => 1
  /-- style->sizer (HAWK_NULL in all predefined styles) -/
  sizer : Option (Nat → Nat) := none

structure Htb where
  buckets : List Chain
  size : Nat
  capa : Nat
  threshold : Nat
  factor : Nat
deriving Repr, DecidableEq

/-- hawk_htb_init (release-mode adjustments of capa and factor included) -/
def init (capa factor : Nat) : Htb :=
  let capa := if capa = 0 then 1 else capa
  let factor := if factor > 100 then 100 else factor
  let thr := capa * factor / 100
  { buckets := List.replicate capa [], size := 0, capa := capa,
    threshold := if thr = 0 then 1 else thr, factor := factor }

/-- the order in which every `for (i = 0; i < htb->capa; i++) for (pair = bucket[i]; pair; pair = NEXT(pair))`
    loop of htb.c (reorganize, clear, walk, getfirstpair/getnextpair) meets the pairs -/
def pairs (t : Htb) : List Pair := (t.buckets.take t.capa).flatten

/-- the `while (pair != NULL) { if (comper(...) == 0) ...; pair = NEXT(pair); }` scan of one chain -/
def chainFind (k : Nat) : Chain → Option Pair
  | [] => none
  | p :: r => if p.1 = k then some p else chainFind k r

/-- the chain with the value of the pair holding `k` replaced (pair keeps its position, also when
    `change_pair_val` re-allocates it: `NEXT(prev) = p; NEXT(p) = next`) -/
def chainSet (k v : Nat) : Chain → Chain
  | [] => []
  | p :: r => if p.1 = k then (p.1, v) :: r else p :: chainSet k v r

/-- the chain with the pair holding `k` unlinked -/
def chainDel (k : Nat) : Chain → Chain
  | [] => []
  | p :: r => if p.1 = k then r else p :: chainDel k r

def bucketAt (t : Htb) (i : Nat) : Chain := t.buckets.getD i []

/-- hawk_htb_search -/
def search (c : Cfg) (t : Htb) (k : Nat) : Except Err Pair :=
  match chainFind k (bucketAt t (c.hash k % t.capa)) with
  | some p => .ok p
  | none => .error .enoent

/-- the capacity `reorganize` asks for; `none` = "no change in capacity, return success without
    reorganization" -/
def newCapa (c : Cfg) (t : Htb) : Option Nat :=
  match c.sizer with
  | some f =>
    let n := f (t.capa + 1)
    if n = t.capa then none else some (if n = 0 then 1 else n)
  | none => some (if t.capa ≥ 65536 then t.capa + 65536 else t.capa * 2)

/-- `NEXT(pair) = new_buck[hc]; new_buck[hc] = pair;` -/
def pushHead (c : Cfg) (n : Nat) (bs : List Chain) (p : Pair) : List Chain :=
  let hc := c.hash p.1 % n
  bs.set hc (p :: bs.getD hc [])

/-- the new bucket array: old pairs met in traversal order, each pushed at the head of its new chain -/
def rehash (c : Cfg) (n : Nat) (ps : List Pair) : List Chain :=
  ps.foldl (pushHead c n) (List.replicate n [])

/-- reorganize: (table, returned 0?, oracle) -/
def reorganize (c : Cfg) (t : Htb) (o : Oracle) : Htb × Bool × Oracle :=
  match newCapa c t with
  | none => (t, true, o)
  | some n =>
    match o.next with
    | (false, o') => ({ t with threshold := 0 }, false, o')  -- "reorganization is disabled once it fails"
    | (true, o') =>
      ({ t with buckets := rehash c n (pairs t), capa := n, threshold := n * t.factor / 100 }, true, o')

inductive Opt where
  | upsert | update | ensert | insert
deriving Repr, DecidableEq

structure Res where
  tb : Htb
  ret : Except Err Pair
  evs : List Ev
  orc : Oracle

/-- change_pair_val on the pair `(k, old)` of chain `hc`; new value `v` -/
def changeVal (c : Cfg) (t : Htb) (hc k old v : Nat) (o : Oracle) : Res :=
  let t' := { t with buckets := t.buckets.set hc (chainSet k v (bucketAt t hc)) }
  if c.vinline = false then
    -- SIMPLE: same pointer and length -> keeper; else the pointer is replaced and the old one freed
    if old = v then ⟨t, .ok (k, v), [.kept v], o⟩
    else ⟨t', .ok (k, v), [.freedV old], o⟩
  else if c.vlen old = c.vlen v then
    -- INLINE, same length: copied over the old bytes, then the freeer is called on that very buffer
    ⟨t', .ok (k, v), [.freedV v], o⟩
  else
    -- INLINE, different length: "need to reconstruct the pair"
    match o.next with
    | (false, o') => ⟨t, .error .enomem, [], o'⟩
    | (true, o') => ⟨t', .ok (k, v), [.freedK k, .freedV old], o'⟩

/-- the static `insert` of htb.c with its four options -/
def insertG (c : Cfg) (t : Htb) (k v : Nat) (opt : Opt) (o : Oracle) : Res :=
  let hc := c.hash k % t.capa
  match chainFind k (bucketAt t hc) with
  | some p =>
    match opt with
    | .upsert => changeVal c t hc k p.2 v o
    | .update => changeVal c t hc k p.2 v o
    | .ensert => ⟨t, .ok p, [], o⟩
    | .insert => ⟨t, .error .eexist, [], o⟩
  | none =>
    if opt = .update then ⟨t, .error .enoent, [], o⟩
    else
      let r := if t.threshold > 0 ∧ t.size ≥ t.threshold then reorganize c t o else (t, false, o)
      let t1 := r.1
      -- "if (reorganize(htb) == 0) hc = hasher(...) % htb->capa"
      let hc1 := if r.2.1 then c.hash k % t1.capa else hc
      match r.2.2.next with
      | (false, o2) => ⟨t1, .error .enomem, [], o2⟩
      | (true, o2) =>
        ⟨{ t1 with buckets := t1.buckets.set hc1 ((k, v) :: bucketAt t1 hc1), size := t1.size + 1 },
          .ok (k, v), [], o2⟩

/-- what a `hawk_htb_cbserter_t` callback does, as far as the table can tell: it is handed the existing
    pair (or HAWK_NULL) and answers HAWK_NULL (`fail`), the very same pair (`keep`, only possible when there
    is one), or a pair it allocated itself with hawk_htb_allocpair for the value `v` after destroying the
    old one with hawk_htb_freepair (`fresh v`) -/
inductive CbAns where
  | fail
  | keep
  | fresh (v : Nat)
deriving Repr, DecidableEq

/-- hawk_htb_cbsert: `f` is the callback as a function of the value currently stored under `k` -/
def cbsert (c : Cfg) (t : Htb) (k : Nat) (f : Option Nat → CbAns) (o : Oracle) : Res :=
  let hc := c.hash k % t.capa
  match chainFind k (bucketAt t hc) with
  | some p =>
    match f (some p.2) with
    | .fail => ⟨t, .error .ecb, [], o⟩
    | .keep => ⟨t, .ok p, [], o⟩                     -- `p == pair`: nothing to relink
    | .fresh v =>
      -- the callback: hawk_htb_allocpair (one allocation request), then hawk_htb_freepair(old);
      -- cbsert: "old pair destroyed. new pair reallocated. relink" — position in the chain kept
      match o.next with
      | (false, o') => ⟨t, .error .enomem, [], o'⟩
      | (true, o') =>
        ⟨{ t with buckets := t.buckets.set hc (chainSet k v (bucketAt t hc)) }, .ok (k, v),
          [.freedK k, .freedV p.2], o'⟩
  | none =>
    let r := if t.threshold > 0 ∧ t.size ≥ t.threshold then reorganize c t o else (t, false, o)
    let t1 := r.1
    let hc1 := if r.2.1 then c.hash k % t1.capa else hc
    -- `pair = cbserter(htb, HAWK_NULL, kptr, klen, ctx)` after the optional reorganization
    match f none with
    | .fresh v =>
      match r.2.2.next with
      | (false, o2) => ⟨t1, .error .enomem, [], o2⟩
      | (true, o2) =>
        ⟨{ t1 with buckets := t1.buckets.set hc1 ((k, v) :: bucketAt t1 hc1), size := t1.size + 1 },
          .ok (k, v), [], o2⟩
    | _ => ⟨t1, .error .ecb, [], r.2.2⟩

def upsert (c : Cfg) (t : Htb) (k v : Nat) (o : Oracle) : Res := insertG c t k v .upsert o
def update (c : Cfg) (t : Htb) (k v : Nat) (o : Oracle) : Res := insertG c t k v .update o
def ensert (c : Cfg) (t : Htb) (k v : Nat) (o : Oracle) : Res := insertG c t k v .ensert o
def insert (c : Cfg) (t : Htb) (k v : Nat) (o : Oracle) : Res := insertG c t k v .insert o

/-- hawk_htb_delete: (table, 0 / ENOENT, events) -/
def delete (c : Cfg) (t : Htb) (k : Nat) : Htb × Except Err Unit × List Ev :=
  let hc := c.hash k % t.capa
  match chainFind k (bucketAt t hc) with
  | some p =>
    ({ t with buckets := t.buckets.set hc (chainDel k (bucketAt t hc)), size := t.size - 1 },
      .ok (), [.freedK p.1, .freedV p.2])
  | none => (t, .error .enoent, [])

/-- hawk_htb_clear: every chain of bucket[0 .. capa) freed pair by pair (`size--` each), slot nulled -/
def clear (t : Htb) : Htb × List Ev :=
  ({ t with buckets := List.replicate (min t.capa t.buckets.length) [] ++ t.buckets.drop t.capa,
            size := t.size - (pairs t).length },
    (pairs t).flatMap fun p => [.freedK p.1, .freedV p.2])

/-- hawk_htb_walk: the pairs handed to the walker, which answers FORWARD (true) or STOP (false) -/
def walkList {α : Type} (f : α → Bool) : List α → List α
  | [] => []
  | p :: r => if f p then p :: walkList f r else [p]

def walk (t : Htb) (f : Pair → Bool) : List Pair := walkList f (pairs t)

/-- hawk_htb_itr_t: bucket number, current pair, and the rest of its chain (what NEXT() reaches) -/
structure Itr where
  buckno : Nat
  cur : Pair
  rest : Chain
deriving Repr, DecidableEq

/-- `for (i = from; i < htb->capa; i++) { pair = bucket[i]; if (pair) {...return pair;} } return NULL` -/
def scanFrom (t : Htb) (i : Nat) : Option Itr :=
  if _h : i < t.capa then
    match bucketAt t i with
    | p :: r => some ⟨i, p, r⟩
    | [] => scanFrom t (i + 1)
  else none
termination_by t.capa - i
decreasing_by omega

def getFirst (t : Htb) : Option Itr := scanFrom t 0

def getNext (t : Htb) (it : Itr) : Option Itr :=
  match it.rest with
  | p :: r => some { it with cur := p, rest := r }
  | [] => scanFrom t (it.buckno + 1)

/-- the result of the n-th call of the sequence getfirstpair, getnextpair, getnextpair, … -/
def iterSeq (t : Htb) : Nat → Option Itr
  | 0 => getFirst t
  | n + 1 => (iterSeq t n).bind (getNext t)

end Hawk.Htb
