import HawkModel.SedParseLemmas
import HawkModel.SedLemmas
/-!
  A printer for command lists and the round trip `parseScript (printCmds cs) = cs`, for the class of commands
  `PCmd.Plain`: addresses none / `$` / line numbers 1 .. 2^64-1 (one or two), any negation, the argument-less commands
  (q Q = d D p P l h H g G x n N z) and `b` / `t` without a label.  (Regex addresses, texts, file names,
  s, y, labels and blocks are outside this class: for them the round trip is checked on the real compiler by the
  campaign, not proved.)
-/
namespace Hawk.Sed

/-! ## line-number addresses: decimal printing and the round trip through get_address -/

def digitChar (k : Nat) : Char := Char.ofNat (48 + k)

def toDec (n : Nat) : Str :=
  if n < 10 then [digitChar n] else toDec (n / 10) ++ [digitChar (n % 10)]
termination_by n
decreasing_by omega

theorem digitChar_isDigit (k : Nat) (h : k < 10) : isDigit (digitChar k) = true := by
  have : ∀ k : Fin 10, isDigit (digitChar k.val) = true := by decide
  exact this ⟨k, h⟩

theorem digitChar_val (k : Nat) (h : k < 10) : (digitChar k).toNat - '0'.toNat = k := by
  have : ∀ k : Fin 10, (digitChar k.val).toNat - '0'.toNat = k.val := by decide
  exact this ⟨k, h⟩

theorem toDec_all (n : Nat) : ∀ c ∈ toDec n, isDigit c = true := by
  induction n using Nat.strongRecOn with
  | _ n ih =>
    rw [toDec]
    split
    · intro c hc; simp at hc; subst hc; exact digitChar_isDigit n (by assumption)
    · intro c hc
      rcases List.mem_append.mp hc with h | h
      · exact ih (n / 10) (by omega) c h
      · simp at h; subst h; exact digitChar_isDigit _ (by omega)

theorem digitsVal_snoc (xs : Str) (c : Char) : digitsVal (xs ++ [c]) = digitsVal xs * 10 + (c.toNat - '0'.toNat) := by
  simp [digitsVal, List.foldl_append]

theorem digitsVal_toDec (n : Nat) : digitsVal (toDec n) = n := by
  induction n using Nat.strongRecOn with
  | _ n ih =>
    rw [toDec]
    split
    · rename_i h
      have := digitsVal_snoc [] (digitChar n)
      simp only [List.nil_append] at this
      rw [this, digitChar_val n h]; simp [digitsVal]
    · rw [digitsVal_snoc, ih (n / 10) (by omega), digitChar_val _ (by omega)]
      omega

theorem span_pred (p : Char → Bool) (xs t : Str) (h : ∀ c ∈ xs, p c = true) (ht : ∀ c, t.head? = some c → p c = false) :
    (xs ++ t).takeWhile p = xs ∧ (xs ++ t).dropWhile p = t := by
  induction xs with
  | nil =>
    cases t with
    | nil => simp
    | cons c r => have := ht c rfl; simp [List.takeWhile, List.dropWhile, this]
  | cons x xs ih =>
    have hx := h x (List.mem_cons_self ..)
    have := ih (fun c hc => h c (List.mem_cons_of_mem _ hc))
    simp [List.takeWhile, List.dropWhile, hx, this]

theorem span_digits (xs t : Str) (h : ∀ c ∈ xs, isDigit c = true) (ht : ∀ c, t.head? = some c → isDigit c = false) :
    (xs ++ t).takeWhile isDigit = xs ∧ (xs ++ t).dropWhile isDigit = t := span_pred isDigit xs t h ht

theorem toDec_cons (n : Nat) : ∃ d ds, toDec n = d :: ds ∧ isDigit d = true := by
  cases h : toDec n with
  | nil =>
    exfalso
    rw [toDec] at h
    split at h <;> simp at h
  | cons d ds => exact ⟨d, ds, rfl, toDec_all n d (by rw [h]; exact List.mem_cons_self ..)⟩

/-- get_address reads back the line number that was printed in decimal, whatever follows it (a `,`, a `!`, a command ...) -/
theorem getAddress_print_line (n : Nat) (hn : n < 2 ^ 64) (t : Str) (ht : ∀ c, t.head? = some c → isDigit c = false) :
    getAddress (toDec n ++ t) = some (.line n, t) := by
  obtain ⟨d, ds, e, hd⟩ := toDec_cons n
  have hsp := span_digits (toDec n) t (toDec_all n) ht
  have h1 : d ≠ '$' := fun e => by subst e; simp [isDigit] at hd
  rw [e] at hsp ⊢
  simp only [List.cons_append] at hsp ⊢
  unfold getAddress
  simp only [h1, hd, ↓reduceIte, hsp.1, hsp.2]
  rw [← e, digitsVal_toDec, Nat.mod_eq_of_lt hn]

/-! ## the printer and the class of commands it is proved for -/

def plainChars : List Char := ['q', 'Q', '=', 'd', 'D', 'p', 'P', 'l', 'h', 'H', 'g', 'G', 'x', 'n', 'N', 'z']

/-- a regex the printer writes as it is between `/`: no backslash, newline, `/`, `[` or `]` -/
def plainRe (p : Str) : Bool := p.all fun c => c ≠ '\\' && c ≠ '\n' && c ≠ '/' && c ≠ '[' && c ≠ ']'

def PAddr.plain : PAddr → Bool
  | .none => true
  | .last => true
  | .line n => decide (1 ≤ n ∧ n < 2 ^ 64)
  | .re p ic => plainRe p && (!ic || p ≠ [])

theorem pickupRex_plain (repl : Bool) (err : PErr) (p rest : Str) (hp : plainRe p = true) :
    ∀ cfob acc, pickupRex '/' repl err (p ++ '/' :: rest) 0 0 cfob acc = .ok (acc ++ p, rest) := by
  induction p with
  | nil => intro cfob acc; rw [pickupRex.eq_def]; simp
  | cons c r ih =>
    intro cfob acc
    simp [plainRe] at hp
    have ih' := ih (by simpa [plainRe] using hp.2)
    obtain ⟨⟨⟨⟨h1, h2⟩, h3⟩, h4⟩, h5⟩ := hp.1
    simp only [List.cons_append]
    rw [pickupRex.eq_def]
    cases repl <;> simp [h1, h2, h3, h4, h5, ih']

/-- a label name as it can be written: not empty, label characters only -/
def labelName (n : Str) : Bool := n ≠ [] && n.all isLabChar

/-- a file name as get_file can deliver it: not empty, no NUL -/
def fileName (f : Str) : Bool := f ≠ [] && f.all (· ≠ '\x00')

/-- does the character need a backslash inside a file name? (terminators, the backslash itself, spaces) -/
def fileSpecial (c : Char) : Bool := isCmdTermC c || c = '\\' || isSpace c

/-- a file name as written in a script -/
def escFile : Str → Str
  | [] => []
  | c :: r => if c = '\n' then '\\' :: 'n' :: escFile r else if fileSpecial c then '\\' :: c :: escFile r else c :: escFile r

/-- one character of a `y` string as written between `/` delimiters -/
def escY1 (c : Char) : Str := if c = '/' ∨ c = '\\' then ['\\', c] else if c = '\n' then ['\\', 'n'] else [c]

def escY (xs : Str) : Str := xs.flatMap escY1

/-- a replacement the printer writes as it is: no backslash, newline or `/` (`&` stays the special `&` it is in the compiled form) -/
def plainRpl (p : Str) : Bool := p.all fun c => c ≠ '\\' && c ≠ '\n' && c ≠ '/'

/-- the occurrence number as get_subst leaves it: at least 1 without g, at most 65535 -/
def occOK (g : Bool) (occ : Nat) : Bool := decide (occ ≤ 65535) && (g || decide (1 ≤ occ))

/-- is the occurrence number written? (without g the default 1 is not, with g the absent 0 is not) -/
def occShown (g : Bool) (occ : Nat) : Bool := decide (occ ≠ (if g then 0 else 1))

def printFlags (g p i k : Bool) (occ : Nat) : Str :=
  (if g then ['g'] else []) ++ (if p then ['p'] else []) ++ (if i then ['i'] else []) ++ (if k then ['k'] else []) ++
  (if occShown g occ then toDec occ else [])

def POp.plain : POp → Bool
  | .simple c => plainChars.contains c
  | .branch c none => c = 'b' || c = 't'
  | .branch c (some n) => (c = 'b' || c = 't') && labelName n
  | .text c t => (c = 'a' || c = 'i' || c = 'c') && endsNl t
  | .label n => labelName n
  | .lbrace => true
  | .rbrace => true
  | .file c f => (c = 'r' || c = 'R' || c = 'w' || c = 'W') && fileName f
  | .trans _ => true
  | .subst re rpl g _ _ _ occ w => plainRe re && plainRpl rpl && occOK g occ && w.isNone

def PCmd.Plain (c : PCmd) : Prop :=
  c.a1.plain = true ∧ c.a2.plain = true ∧ (c.a1 = .none → c.a2 = .none) ∧ c.op.plain = true ∧ (c.op.isMark = true → c.a1 = .none)

/-- a / i / c text as written in a script: backslash and embedded newline escaped -/
def escText : Str → Str
  | [] => []
  | c :: r => if c = '\\' ∨ c = '\n' then '\\' :: c :: escText r else c :: escText r

def printAddr : PAddr → Str
  | .last => ['$']
  | .line n => toDec n
  | .re p ic => '/' :: (p ++ '/' :: (if ic then ['I'] else []))
  | .none => []

def printOp : POp → Str
  | .simple c => [c]
  | .branch c none => [c]
  | .branch c (some n) => c :: n
  | .text c t => c :: '\\' :: '\n' :: escText t.dropLast
  | .label n => ':' :: n
  | .file c f => c :: ' ' :: escFile f
  | .trans pairs => 'y' :: '/' :: (escY (pairs.map (·.1)) ++ '/' :: (escY (pairs.map (·.2)) ++ ['/']))
  | .lbrace => ['{']
  | .rbrace => ['}']
  | .subst re rpl g p i k occ _ => 's' :: '/' :: (re ++ '/' :: (rpl ++ '/' :: printFlags g p i k occ))

/-- negation, command character, newline -/
def printBody (neg : Bool) (op : POp) : Str := (if neg then ['!'] else []) ++ printOp op ++ ['\n']

def printCmd (c : PCmd) : Str :=
  printAddr c.a1 ++ (if c.a2 = .none then [] else ',' :: printAddr c.a2) ++ printBody c.neg c.op

def printCmds : List PCmd → Str
  | [] => []
  | c :: rest => printCmd c ++ printCmds rest

/-- where get_command leaves the script stream after the printed command: `{` and `}` do not consume their terminator,
    a label also skips the spaces after it -/
def cmdTail (op : POp) (rest : Str) : Str :=
  match op with
  | .lbrace => '\n' :: rest
  | .rbrace => '\n' :: rest
  | .label _ => skipSpaces rest
  | _ => rest

theorem plainOp_cases (op : POp) (h : op.plain = true) :
    (∃ ch, ch ∈ plainChars ∧ op = .simple ch) ∨ op = .branch 'b' none ∨ op = .branch 't' none ∨
    (∃ ch body, (ch = 'a' ∨ ch = 'i' ∨ ch = 'c') ∧ op = .text ch (body ++ ['\n'])) ∨
    op = .lbrace ∨ op = .rbrace ∨ (∃ n, labelName n = true ∧ op = .label n) ∨
    (∃ n, labelName n = true ∧ (op = .branch 'b' (some n) ∨ op = .branch 't' (some n))) ∨
    (∃ ch f, (ch = 'r' ∨ ch = 'R' ∨ ch = 'w' ∨ ch = 'W') ∧ fileName f = true ∧ op = .file ch f) ∨
    (∃ pairs, op = .trans pairs) ∨
    (∃ re rpl g p i k occ, (plainRe re = true ∧ plainRpl rpl = true ∧ occOK g occ = true) ∧ op = .subst re rpl g p i k occ none) := by
  cases op with
  | simple ch => left; simp_all [POp.plain]
  | branch ch l =>
    cases l with
    | none => simp_all [POp.plain]
    | some n =>
      simp [POp.plain] at h
      right; right; right; right; right; right; right; left
      exact ⟨n, h.2, by rcases h.1 with e | e <;> simp [e]⟩
  | text ch t =>
    right; right; right; left
    simp [POp.plain] at h
    obtain ⟨b, hb⟩ := (endsNl_iff t).mp h.2
    exact ⟨ch, b, by rcases h.1 with (e | e) | e <;> simp [e], by rw [hb]⟩
  | label n => right; right; right; right; right; right; left; exact ⟨n, by simpa [POp.plain] using h, rfl⟩
  | lbrace => simp
  | rbrace => simp
  | file ch f =>
    right; right; right; right; right; right; right; right; left
    simp [POp.plain] at h
    exact ⟨ch, f, by rcases h.1 with ((e | e) | e) | e <;> simp [e], h.2, rfl⟩
  | trans pairs => right; right; right; right; right; right; right; right; right; left; exact ⟨pairs, rfl⟩
  | subst re rpl g p i k occ w =>
    right; right; right; right; right; right; right; right; right; right
    simp [POp.plain] at h
    cases w with
    | some f => simp at h
    | none => exact ⟨re, rpl, g, p, i, k, occ, ⟨h.1.1.1, h.1.1.2, h.1.2⟩, rfl⟩

theorem transLoop_esc (limit : Option Nat) (xs rest acc : Str) (hl : ∀ n, limit = some n → acc.length + xs.length ≤ n) :
    transLoop '/' limit (escY xs ++ '/' :: rest) 0 acc = .ok (acc ++ xs, rest) := by
  induction xs generalizing acc with
  | nil => simp only [escY, List.flatMap_nil, List.nil_append]; rw [transLoop.eq_def]; simp
  | cons c r ih =>
    have hlim : limit.any (fun n => decide (acc.length ≥ n)) = false := by
      cases limit with
      | none => rfl
      | some n => have := hl n rfl; simp at this ⊢; omega
    have ih' := ih (acc ++ [c]) (by intro n hn; have := hl n hn; simp at this ⊢; omega)
    simp only [escY, List.flatMap_cons] at ih' ⊢
    by_cases h1 : c = '/' ∨ c = '\\'
    · simp only [escY1, h1, ↓reduceIte, List.cons_append, List.nil_append]
      rw [transLoop]
      have : transEscaped c (List.flatMap escY1 r ++ '/' :: rest) = (c, false, 0) := by
        rcases h1 with e | e <;> (subst e; simp [transEscaped])
      simp [this, hlim, ih']
    · have h2 : c ≠ '/' := fun e => h1 (Or.inl e)
      have h3 : c ≠ '\\' := fun e => h1 (Or.inr e)
      by_cases h4 : c = '\n'
      · subst h4
        simp only [escY1, h1, ↓reduceIte, List.cons_append, List.nil_append]
        rw [transLoop]
        simp [transEscaped, hlim, ih']
      · simp only [escY1, h1, h4, ↓reduceIte, List.cons_append, List.nil_append]
        rw [transLoop.eq_def]
        simp [h2, h3, h4, hlim, ih']

theorem zip_fst_snd (pairs : List (Char × Char)) : (pairs.map (·.1)).zip (pairs.map (·.2)) = pairs := by
  induction pairs with
  | nil => rfl
  | cons p r ih => simp [ih]

theorem getTranset_print (pairs : List (Char × Char)) (rest : Str) :
    getTranset ('/' :: (escY (pairs.map (·.1)) ++ '/' :: (escY (pairs.map (·.2)) ++ '/' :: '\n' :: rest))) = .ok (.trans pairs, rest) := by
  have h1 := transLoop_esc none (pairs.map (·.1)) (escY (pairs.map (·.2)) ++ '/' :: '\n' :: rest) [] (by intro n hn; cases hn)
  have h2 := transLoop_esc (some pairs.length) (pairs.map (·.2)) ('\n' :: rest) [] (by intro n hn; cases hn; simp)
  simp only [List.nil_append] at h1 h2
  unfold getTranset
  simp [h1, h2, terminate, skipSpaces, isSpace, isCmdTermC, zip_fst_snd]

theorem skipSpaces_id (c : Char) (r : Str) (h : isSpace c = false) : skipSpaces (c :: r) = c :: r := by
  simp [skipSpaces, h]

theorem fileLoop_esc (f rest acc : Str) (tsp : Nat) (hf : f.all (· ≠ '\x00') = true) :
    fileLoop (escFile f ++ '\n' :: rest) acc tsp = .ok (acc ++ f, if f = [] then tsp else 0, '\n' :: rest) := by
  induction f generalizing acc tsp with
  | nil => simp [escFile, fileLoop, isCmdTermC]
  | cons c r ih =>
    simp at hf
    have ihr := fun acc tsp => ih acc tsp (by simpa using hf.2)
    have h0 : c ≠ '\x00' := hf.1
    by_cases hn : c = '\n'
    · subst hn
      simp only [escFile, ↓reduceIte, List.cons_append]
      rw [fileLoop]
      simp [isCmdTermC, isSpace, ihr]
    · by_cases hs : fileSpecial c = true
      · simp only [escFile, hn, hs, ↓reduceIte, List.cons_append]
        rw [fileLoop]
        have hcn : c ≠ 'n' := by intro e; subst e; simp [fileSpecial, isCmdTermC, isSpace] at hs
        simp [isCmdTermC, isSpace, ihr, h0, hn, hcn]
      · have hs' : fileSpecial c = false := by simpa using hs
        simp [fileSpecial] at hs'
        simp only [escFile, hn, hs, ↓reduceIte, List.cons_append]
        simp [fileLoop, hs'.1.1, hs'.2, hs'.1.2, h0, ihr]

theorem escFile_head (f : Str) (h : fileName f = true) :
    ∃ d ds, escFile f = d :: ds ∧ isSpace d = false ∧ isCmdTermC d = false := by
  cases f with
  | nil => simp [fileName] at h
  | cons c r =>
    by_cases hn : c = '\n'
    · exact ⟨'\\', 'n' :: escFile r, by simp [escFile, hn], by decide, by decide⟩
    · by_cases hs : fileSpecial c = true
      · exact ⟨'\\', c :: escFile r, by simp [escFile, hn, hs], by decide, by decide⟩
      · have hs' : fileSpecial c = false := by simpa using hs
        simp [fileSpecial] at hs'
        exact ⟨c, escFile r, by simp [escFile, hn, hs], hs'.2, hs'.1.1⟩

theorem getFile_print (f : Str) (h : fileName f = true) (rest : Str) :
    getFile (' ' :: (escFile f ++ '\n' :: rest)) = .ok (f, rest) := by
  obtain ⟨d, ds, e, f1, f2⟩ := escFile_head f h
  simp [fileName] at h
  have hl := fileLoop_esc f rest [] 0 (by simpa using h.2)
  have hsk : skipSpaces (' ' :: (escFile f ++ '\n' :: rest)) = escFile f ++ '\n' :: rest := by
    rw [skipSpaces]
    have hsp : isSpace ' ' = true := by decide
    rw [if_pos hsp, e]
    exact skipSpaces_id d _ f1
  have hat : atCmdTerm (escFile f ++ '\n' :: rest) = false := by rw [e]; simp [atCmdTerm, f2]
  unfold getFile
  simp only [hsk, hat, hl]
  simp [h.1, terminate, skipSpaces, isSpace, isCmdTermC]

theorem digit_facts (d : Char) (h : isDigit d = true) :
    isSpace d = false ∧ d ≠ '\n' ∧ d ≠ ';' ∧ d ≠ '#' ∧ d ≠ '$' ∧ d ≠ ',' := by
  refine ⟨?_, ?_, ?_, ?_, ?_, ?_⟩
  · cases hsp : isSpace d with
    | false => rfl
    | true =>
      simp [isSpace] at hsp
      rcases hsp with (e | e) | e <;> (subst e; simp [isDigit] at h)
  all_goals (intro e; subst e; simp [isDigit] at h)

theorem pickupRex_plainRpl (err : PErr) (p rest : Str) (hp : plainRpl p = true) :
    ∀ cfob acc, pickupRex '/' true err (p ++ '/' :: rest) 0 0 cfob acc = .ok (acc ++ p, rest) := by
  induction p with
  | nil => intro cfob acc; rw [pickupRex.eq_def]; simp
  | cons c r ih =>
    intro cfob acc
    simp [plainRpl] at hp
    have ih' := ih (by simpa [plainRpl] using hp.2)
    obtain ⟨⟨h1, h2⟩, h3⟩ := hp.1
    simp only [List.cons_append]
    rw [pickupRex.eq_def]
    simp [h1, h2, h3, ih']

theorem optLoop_end (f : SFlags) (rest : Str) : optLoop ('\n' :: rest) f = .ok (f, rest) := by
  rw [optLoop.eq_def]
  simp [isDigit, terminate, skipSpaces, isSpace, isCmdTermC]

theorem optLoop_g (f : SFlags) (x : Str) : optLoop ('g' :: x) f = optLoop x { f with g := true } := by
  rw [optLoop.eq_def]; simp
theorem optLoop_p (f : SFlags) (x : Str) : optLoop ('p' :: x) f = optLoop x { f with p := true } := by
  rw [optLoop.eq_def]; simp
theorem optLoop_i (f : SFlags) (x : Str) : optLoop ('i' :: x) f = optLoop x { f with i := true } := by
  rw [optLoop.eq_def]; simp
theorem optLoop_k (f : SFlags) (x : Str) : optLoop ('k' :: x) f = optLoop x { f with k := true } := by
  rw [optLoop.eq_def]; simp

theorem digit_not_flag (d : Char) (h : isDigit d = true) :
    d ≠ 'p' ∧ d ≠ 'i' ∧ d ≠ 'I' ∧ d ≠ 'g' ∧ d ≠ 'k' ∧ d ≠ 'w' := by
  refine ⟨?_, ?_, ?_, ?_, ?_, ?_⟩ <;> (intro e; subst e; simp [isDigit] at h)

theorem optLoop_occ (f : SFlags) (n : Nat) (h1 : 1 ≤ n) (h2 : n ≤ 65535) (hf : f.occ = 0) (rest : Str) :
    optLoop (toDec n ++ '\n' :: rest) f = .ok ({ f with occ := n }, rest) := by
  obtain ⟨d, ds, e, hd⟩ := toDec_cons n
  have hsp := span_digits (toDec n) ('\n' :: rest) (toDec_all n) (by intro c hc; simp at hc; subst hc; decide)
  obtain ⟨g1, g2, g3, g4, g5, g6⟩ := digit_not_flag d hd
  rw [e] at hsp ⊢
  simp only [List.cons_append] at hsp ⊢
  rw [optLoop.eq_def]
  have hdrop : (ds ++ '\n' :: rest).dropWhile isDigit = '\n' :: rest := by
    have := hsp.2; simp [List.dropWhile, hd] at this; exact this
  have hv : digitsVal (d :: ds) = n := by rw [← e]; exact digitsVal_toDec n
  simp only [g1, g2, g3, g4, g5, hd, hf, hsp.1, hv, hdrop]
  have hn0 : n ≠ 0 := by omega
  have hn1 : ¬ n > 65535 := by omega
  simp [hn0, hn1, optLoop_end]

theorem textLoop_esc (body rest acc : Str) :
    textLoop (escText body ++ '\n' :: rest) acc = (acc ++ body ++ ['\n'], true, rest) := by
  induction body generalizing acc with
  | nil => simp [escText, textLoop]
  | cons c r ih =>
    by_cases h : c = '\\' ∨ c = '\n'
    · simp only [escText, h, ↓reduceIte, List.cons_append]
      rw [textLoop, ih]; simp
    · have h1 : c ≠ '\\' := fun e => h (Or.inl e)
      have h2 : c ≠ '\n' := fun e => h (Or.inr e)
      simp only [escText, h, ↓reduceIte, List.cons_append]
      rw [textLoop]
      · simp [h2, ih]
      · intro e; exact absurd e h1
      · intro c' r' e; exact absurd e h1

theorem labelName_cons (n : Str) (h : labelName n = true) :
    ∃ d ds, n = d :: ds ∧ isLabChar d = true ∧ ∀ c ∈ n, isLabChar c = true := by
  cases n with
  | nil => simp [labelName] at h
  | cons d ds =>
    simp [labelName] at h
    refine ⟨d, ds, rfl, h.1, ?_⟩
    intro c hc
    rcases List.mem_cons.mp hc with e | e
    · subst e; exact h.1
    · exact h.2 c e

theorem labChar_facts (d : Char) (h : isLabChar d = true) :
    isSpace d = false ∧ isCmdTermC d = false ∧ d ≠ '\n' := by
  simp [isLabChar] at h
  refine ⟨h.2, h.1, ?_⟩
  intro e; subst e; simp [isCmdTermC] at h

theorem labelRun_print (n : Str) (h : labelName n = true) (rest : Str) :
    labelRun (n ++ '\n' :: rest) = (n, '\n' :: rest) := by
  obtain ⟨d, ds, e, _, hall⟩ := labelName_cons n h
  have := span_pred isLabChar n ('\n' :: rest) hall (by intro c hc; simp at hc; subst hc; decide)
  simp [labelRun, this.1, this.2]

theorem getLabel_print (tr : Traits) (n : Str) (hn : labelName n = true) (rest : Str) :
    getLabel tr (n ++ '\n' :: rest) = .ok (n, skipSpaces rest) := by
  obtain ⟨d, ds, e, hd, _⟩ := labelName_cons n hn
  obtain ⟨f1, f2, f3⟩ := labChar_facts d hd
  have hrun := labelRun_print n hn rest
  have hsk : skipSpaces (n ++ '\n' :: rest) = n ++ '\n' :: rest := by rw [e]; exact skipSpaces_id d _ f1
  have hne : n ≠ [] := by rw [e]; simp
  unfold getLabel
  simp only [hsk, hrun]
  simp [hne, skipSpaces, isSpace, isCmdTermC]

theorem getBranchTarget_print (n : Str) (hn : labelName n = true) (rest : Str) :
    getBranchTarget (n ++ '\n' :: rest) = .ok (some n, rest) := by
  obtain ⟨d, ds, e, hd, _⟩ := labelName_cons n hn
  obtain ⟨f1, f2, f3⟩ := labChar_facts d hd
  have hrun := labelRun_print n hn rest
  have hsk : skipSpaces (n ++ '\n' :: rest) = n ++ '\n' :: rest := by rw [e]; exact skipSpaces_id d _ f1
  have hat : atCmdTerm (n ++ '\n' :: rest) = false := by rw [e]; simp [atCmdTerm, f2]
  unfold getBranchTarget
  simp only [hsk, hat, hrun]
  simp [terminate, skipSpaces, isSpace, isCmdTermC]

theorem getSubst_print (re rpl : Str) (g pf ic kf : Bool) (occ : Nat) (h1 : plainRe re = true) (h2 : plainRpl rpl = true)
    (h3 : occOK g occ = true) (rest : Str) :
    getSubst ('/' :: (re ++ '/' :: (rpl ++ '/' :: (printFlags g pf ic kf occ ++ '\n' :: rest)))) =
      .ok (.subst re rpl g pf ic kf occ none, rest) := by
  have e1 := pickupRex_plain false .ECMDIC re (rpl ++ '/' :: (printFlags g pf ic kf occ ++ '\n' :: rest)) h1 0 []
  have e2 := pickupRex_plainRpl .ECMDIC rpl (printFlags g pf ic kf occ ++ '\n' :: rest) h2 0 []
  simp only [List.nil_append] at e1 e2
  simp [occOK] at h3
  have hsk : skipSpaces (printFlags g pf ic kf occ ++ '\n' :: rest) = printFlags g pf ic kf occ ++ '\n' :: rest := by
    obtain ⟨d, ds, ed, hd⟩ := toDec_cons occ
    obtain ⟨q1, _⟩ := digit_facts d hd
    by_cases hall : g = false ∧ pf = false ∧ ic = false ∧ kf = false
    · obtain ⟨rfl, rfl, rfl, rfl⟩ := hall
      by_cases hs : occShown false occ = true
      · have : printFlags false false false false occ = d :: ds := by simp [printFlags, hs, ed]
        rw [this]; exact skipSpaces_id d _ q1
      · simp [printFlags, hs, skipSpaces, isSpace]
    · cases g <;> cases pf <;> cases ic <;> cases kf <;> simp_all [printFlags, skipSpaces, isSpace]
  have hfl : ∀ f : SFlags, f.occ = 0 →
      optLoop (skipSpaces (printFlags g pf ic kf occ ++ '\n' :: rest)) f =
        .ok ({ f with g := f.g || g, p := f.p || pf, i := f.i || ic, k := f.k || kf, occ := if occShown g occ then occ else 0 }, rest) := by
    intro f hf
    rw [hsk]
    by_cases hs : occShown g occ = true
    · have hocc1 : 1 ≤ occ := by
        cases g <;> simp_all [occShown] <;> omega
      cases g <;> cases pf <;> cases ic <;> cases kf <;>
        simp [printFlags, hs, optLoop_g, optLoop_p, optLoop_i, optLoop_k] <;>
        (rw [optLoop_occ _ occ hocc1 h3.1 (by simpa using hf)])
    · have hs' : occShown g occ = false := by simpa using hs
      cases g <;> cases pf <;> cases ic <;> cases kf <;>
        simp [printFlags, hs', optLoop_g, optLoop_p, optLoop_i, optLoop_k, optLoop_end, hf] <;>
        (try (cases f; simp_all))
  have hfl0 := hfl {} rfl
  unfold getSubst
  simp [e1, e2, hfl0]
  by_cases hs : occShown g occ = true
  · simp [hs]; cases g <;> simp_all [occShown] <;> omega
  · have hs' : occShown g occ = false := by simpa using hs
    simp [hs']; cases g <;> simp_all [occShown]

/-- where a command body starts: not a space, not `,`, not the start of an address -/
def bodyStart (t : Str) : Prop :=
  ∃ c r, t = c :: r ∧ isSpace c = false ∧ c ≠ ',' ∧ c ≠ '$' ∧ c ≠ '/' ∧ c ≠ '\\' ∧ isDigit c = false ∧ c ≠ '\n' ∧ c ≠ ';' ∧ c ≠ '#' ∧ c ≠ 'I'

theorem printBody_start (neg : Bool) (op : POp) (h : op.plain = true) (rest : Str) : bodyStart (printBody neg op ++ rest) := by
  cases neg <;> rcases plainOp_cases op h with ⟨ch, hch, rfl⟩ | rfl | rfl | ⟨ch, body, hch3, rfl⟩ | rfl | rfl | ⟨n, _, rfl⟩ | ⟨n, _, rfl | rfl⟩ | ⟨ch, f, hch4, hf, rfl⟩ | ⟨pairs, rfl⟩ | ⟨re, rpl, g, pf, ic, kf, occ, hsub, rfl⟩
  all_goals (try (simp [plainChars] at hch; rcases hch with rfl | rfl | rfl | rfl | rfl | rfl | rfl | rfl | rfl | rfl | rfl | rfl | rfl | rfl | rfl | rfl))
  all_goals (try (rcases hch3 with rfl | rfl | rfl))
  all_goals (try (rcases hch4 with rfl | rfl | rfl | rfl))
  all_goals exact ⟨_, _, rfl, by decide, by decide, by decide, by decide, by decide, by decide, by decide, by decide, by decide, by decide⟩

theorem parseBody_print (tr : Traits) (hs : tr.strict = false) (a1 a2 : PAddr) (neg : Bool) (op : POp) (h : op.plain = true)
    (hm : op.isMark = true → a1 = .none) (rest : Str) :
    parseBody tr a1 a2 (printBody neg op ++ rest) = .ok ({ a1 := a1, a2 := a2, neg := neg, op := op }, cmdTail op rest) := by
  cases neg <;> rcases plainOp_cases op h with ⟨ch, hch, rfl⟩ | rfl | rfl | ⟨ch, body, hch3, rfl⟩ | rfl | rfl | ⟨n, hn, rfl⟩ | ⟨n, hn, rfl | rfl⟩ | ⟨ch, f, hch4, hf, rfl⟩ | ⟨pairs, rfl⟩ | ⟨re, rpl, g, pf, ic, kf, occ, hsub, rfl⟩
  all_goals (try (simp [plainChars] at hch; rcases hch with rfl | rfl | rfl | rfl | rfl | rfl | rfl | rfl | rfl | rfl | rfl | rfl | rfl | rfl | rfl | rfl))
  all_goals (try (rcases hch3 with rfl | rfl | rfl))
  all_goals (try (rcases hch4 with rfl | rfl | rfl | rfl))
  all_goals (try (have hm' := hm (by rfl); subst hm'))
  all_goals (try (
    simp [printBody, printOp, parseBody, getCommand, skipSpaces, isSpace, bangs, cmdTail, simpleCmds, hs, getFile_print f hf]
    done))
  all_goals (try (
    simp [printBody, printOp, parseBody, getCommand, skipSpaces, isSpace, bangs, cmdTail, simpleCmds, hs, getTranset_print pairs rest]
    done))
  all_goals (try (
    simp [printBody, printOp, parseBody, getCommand, skipSpaces, isSpace, bangs, cmdTail, simpleCmds, hs,
      getSubst_print re rpl g pf ic kf occ hsub.1 hsub.2.1 hsub.2.2 rest]
    done))
  all_goals (try (
    simp [printBody, printOp, parseBody, getCommand, skipSpaces, isSpace, bangs, cmdTail, simpleCmds, hs,
      getLabel_print tr n hn, getBranchTarget_print n hn]
    done))
  all_goals
    simp [printBody, printOp, parseBody, getCommand, terminate, skipSpaces, isSpace, isCmdTermC, cmdTail,
      simpleCmds, bangs, getBranchTarget, atCmdTerm, hs, getTextCmd, getText, textLoop_esc]

theorem getAddress_none (t : Str) (h : bodyStart t) : getAddress t = some (.none, t) := by
  obtain ⟨c, r, rfl, _, _, h3, h4, h5, h6, _⟩ := h
  simp [getAddress, h3, h4, h5, h6]

theorem getAddress_printAddr (a : PAddr) (ha : a.plain = true) (hne : a ≠ .none) (t : Str)
    (ht : ∀ c, t.head? = some c → isDigit c = false) (htI : t.head? ≠ some 'I') : getAddress (printAddr a ++ t) = some (a, t) := by
  cases a with
  | none => exact absurd rfl hne
  | last => simp [printAddr, getAddress]
  | line n => simp [PAddr.plain] at ha; exact getAddress_print_line n ha.2 t ht
  | re p ic =>
    simp [PAddr.plain] at ha
    have hpk := pickupRex_plain false .EREXIC p ((if ic then ['I'] else []) ++ t) ha.1 0 []
    have e : printAddr (.re p ic) ++ t = '/' :: (p ++ '/' :: ((if ic then ['I'] else []) ++ t)) := by simp [printAddr]
    rw [e]
    simp only [List.nil_append] at hpk
    simp [getAddress, isDigit, rexAddress, hpk]
    by_cases hpe : p = []
    · subst hpe
      have : ic = false := by cases ic <;> simp_all
      subst this; simp
    · cases ic with
      | true => simp [hpe]
      | false =>
        simp [hpe]
        split
        · simp at htI
        · rfl

/-- the first character of a printed address (there is one unless the address is none) -/
theorem printAddr_head (a : PAddr) (ha : a.plain = true) (hne : a ≠ .none) :
    ∃ d ds, printAddr a = d :: ds ∧ isSpace d = false ∧ d ≠ '\n' ∧ d ≠ ';' ∧ d ≠ '#' ∧ d ≠ ',' := by
  cases a with
  | none => exact absurd rfl hne
  | last => exact ⟨'$', [], rfl, by decide, by decide, by decide, by decide, by decide⟩
  | line n =>
    obtain ⟨d, ds, e, hd⟩ := toDec_cons n
    obtain ⟨f1, f2, f3, f4, _, f6⟩ := digit_facts d hd
    exact ⟨d, ds, e, f1, f2, f3, f4, f6⟩
  | re p ic => exact ⟨'/', p ++ '/' :: (if ic then ['I'] else []), rfl, by decide, by decide, by decide, by decide, by decide⟩

theorem parseAddrs_print (a1 a2 : PAddr) (h1 : a1.plain = true) (h2 : a2.plain = true) (h12 : a1 = .none → a2 = .none)
    (t : Str) (ht : bodyStart t) :
    parseAddrs (printAddr a1 ++ (if a2 = .none then [] else ',' :: printAddr a2) ++ t) = .ok (a1, a2, t) := by
  have htd : ∀ c, t.head? = some c → isDigit c = false := by
    obtain ⟨c, r, rfl, _, _, _, _, _, h6, _⟩ := ht
    intro c' hc'; simp at hc'; subst hc'; exact h6
  have htI : t.head? ≠ some 'I' := by
    obtain ⟨c, r, rfl, _, _, _, _, _, _, _, _, _, h10⟩ := ht
    simp; exact h10
  by_cases e1 : a1 = .none
  · have e2 := h12 e1
    subst e1; subst e2
    simp [printAddr, parseAddrs, getAddress_none t ht]
  · have hline : a1 ≠ .line 0 := by
      intro e; subst e; simp [PAddr.plain] at h1
    by_cases e2 : a2 = .none
    · subst e2
      simp only [ite_true, List.append_nil]
      obtain ⟨c, r, rfl, hsp, hcomma, _⟩ := ht
      have hA := getAddress_printAddr a1 h1 e1 (c :: r) htd htI
      have hG : getAddr2 (c :: r) = .ok (.none, c :: r) := by
        unfold getAddr2
        rw [skipSpaces_id c r hsp]
        split
        · rename_i r' heq; simp at heq; exact absurd heq.1 hcomma
        · rfl
      simp [parseAddrs, hA, e1, hline, hG]
    · simp only [e2, ↓reduceIte]
      have hX : ∀ c, ((',' :: printAddr a2) ++ t).head? = some c → isDigit c = false := by
        intro c hc; simp at hc; subst hc; decide
      have hA := getAddress_printAddr a1 h1 e1 ((',' :: printAddr a2) ++ t) hX (by simp)
      obtain ⟨d, ds, ed, hdsp, _⟩ := printAddr_head a2 h2 e2
      have hB := getAddress_printAddr a2 h2 e2 t htd htI
      have hsk : skipSpaces (printAddr a2 ++ t) = printAddr a2 ++ t := by
        rw [ed]; exact skipSpaces_id d (ds ++ t) hdsp
      have hG : getAddr2 ((',' :: printAddr a2) ++ t) = .ok (a2, t) := by
        simp [getAddr2, skipSpaces, isSpace, hsk, hB, e2]
      simp only [List.cons_append] at hG
      rw [List.append_assoc, parseAddrs, hA]
      simp [e1, hline, hG]

theorem parseCmd_print (tr : Traits) (hs : tr.strict = false) (c : PCmd) (h : c.Plain) (rest : Str) :
    parseCmd tr (printCmd c ++ rest) = .ok (c, cmdTail c.op rest) := by
  obtain ⟨h1, h2, h12, ho, hm⟩ := h
  cases c with | mk a1 a2 neg op =>
  simp only at h1 h2 h12 ho hm
  have hA := parseAddrs_print a1 a2 h1 h2 h12 (printBody neg op ++ rest) (printBody_start neg op ho rest)
  simp only [printCmd, List.append_assoc] at hA ⊢
  simp only [parseCmd, hA, parseBody_print tr hs a1 a2 neg op ho hm rest]

theorem printCmd_head (c : PCmd) (h : c.Plain) :
    ∃ ch r, printCmd c = ch :: r ∧ isSpace ch = false ∧ ch ≠ '\n' ∧ ch ≠ ';' ∧ ch ≠ '#' := by
  obtain ⟨h1, h2, h12, ho, _⟩ := h
  cases c with | mk a1 a2 neg op =>
  simp only at h1 h2 h12 ho
  by_cases e1 : a1 = .none
  · have e2 := h12 e1
    subst e1; subst e2
    obtain ⟨ch, r, e, f1, _, _, _, _, _, f7, f8, f9, _⟩ := printBody_start neg op ho []
    refine ⟨ch, r, ?_, f1, f7, f8, f9⟩
    simpa [printCmd, printAddr] using e
  · obtain ⟨d, ds, ed, f1, f2, f3, f4, _⟩ := printAddr_head a1 h1 e1
    exact ⟨d, ds ++ ((if a2 = .none then [] else ',' :: printAddr a2) ++ printBody neg op), by simp [printCmd, ed], f1, f2, f3, f4⟩

theorem printCmds_nospace (cs : List PCmd) (h : ∀ c ∈ cs, c.Plain) : skipSpaces (printCmds cs) = printCmds cs := by
  cases cs with
  | nil => simp [printCmds, skipSpaces]
  | cons c rest =>
    obtain ⟨ch, r, e, h1, _⟩ := printCmd_head c (h c (List.mem_cons_self ..))
    simp only [printCmds, e, List.cons_append]
    exact skipSpaces_id ch _ h1

/-- the bookkeeping of hawk_sed_comp on a command list: group level and label table -/
def accepts : List PCmd → Nat → List Str → Bool
  | [], lvl, _ => lvl = 0
  | c :: rest, lvl, labs =>
    match c.op with
    | .lbrace => decide (lvl < maxNest) && accepts rest (lvl + 1) labs
    | .rbrace => decide (lvl > 0) && accepts rest (lvl - 1) labs
    | .label name => !(decide (name ≠ []) && labs.contains name) && accepts rest lvl (if name = [] then labs else name :: labs)
    | _ => accepts rest lvl labs

theorem cmdTail_length (op : POp) (h : op.plain = true) (rest : Str) (hr : skipSpaces rest = rest) :
    (cmdTail op rest).length ≤ rest.length + 1 := by
  cases op <;> simp [cmdTail, hr]

theorem compLoop_print (tr : Traits) (hs : tr.strict = false) (cs : List PCmd) (h : ∀ c ∈ cs, c.Plain) :
    ∀ lvl labs, accepts cs lvl labs = true → compLoop tr (printCmds cs) lvl labs = .ok cs := by
  induction cs with
  | nil => intro lvl labs ha; simp [accepts] at ha; simp [printCmds, compLoop, ha]
  | cons c rest ih =>
    intro lvl labs ha
    have hc := h c (List.mem_cons_self ..)
    have hrest : ∀ x ∈ rest, x.Plain := fun x hx => h x (List.mem_cons_of_mem _ hx)
    have ih' := ih hrest
    obtain ⟨ch, r, e, h1, h2, h3, h4⟩ := printCmd_head c hc
    have hp := parseCmd_print tr hs c hc (printCmds rest)
    have hns := printCmds_nospace rest hrest
    have hlen0 : (printCmd c).length = r.length + 1 := by rw [e]; simp
    have hbody : 2 ≤ (printCmd c).length := by
      have : 1 ≤ (printOp c.op).length := by
        rcases plainOp_cases c.op hc.2.2.2.1 with ⟨_, _, hop⟩ | hop | hop | ⟨_, _, _, hop⟩ | hop | hop | ⟨_, _, hop⟩ | ⟨_, _, hop | hop⟩ | ⟨_, _, _, _, hop⟩ | ⟨_, hop⟩ | ⟨_, _, _, _, _, _, _, _, hop⟩ <;> simp [hop, printOp]
      simp [printCmd, printBody]; omega
    have hlen : (cmdTail c.op (printCmds rest)).length ≤ (r ++ printCmds rest).length := by
      have := cmdTail_length c.op hc.2.2.2.1 (printCmds rest) hns
      simp; omega
    have hl2 : (printCmds rest).length + 1 ≤ r.length + (printCmds rest).length := by omega
    have hl3 : (printCmds rest).length ≤ r.length + (printCmds rest).length := by omega
    simp only [printCmds]
    rw [e] at hp ⊢
    simp only [List.cons_append] at hp ⊢
    rw [compLoop]
    simp only [h1, h2, h3, h4, hp]
    rw [accepts] at ha
    rcases plainOp_cases c.op hc.2.2.2.1 with ⟨ch', _, hop⟩ | hop | hop | ⟨ch', b, _, hop⟩ | hop | hop | ⟨n, hn, hop⟩ | ⟨n, hn, hop | hop⟩ | ⟨ch', f, _, _, hop⟩ | ⟨prs, hop⟩ | ⟨_, _, _, _, _, _, _, _, hop⟩
    all_goals (simp only [hop] at ha hlen ⊢)
    all_goals (simp only [cmdTail] at hlen ⊢)
    case inr.inr.inr.inr.inl =>
      simp at ha
      have := ih' (lvl + 1) labs ha.2
      rw [compLoop]
      simp [hl2, isSpace, this, Except.map, ha.1, Nat.not_le.mpr ha.1]
    case inr.inr.inr.inr.inr.inl =>
      simp at ha
      have := ih' (lvl - 1) labs ha.2
      rw [compLoop]
      have hl : lvl ≠ 0 := by omega
      simp [hl2, isSpace, this, Except.map, hl]
    case inr.inr.inr.inr.inr.inr.inl =>
      obtain ⟨d, ds, en, _, _⟩ := labelName_cons n hn
      have hne : n ≠ [] := by rw [en]; simp
      simp [hne] at ha
      have := ih' lvl (n :: labs) ha.2
      simp only [hns] at hlen ⊢
      simp [hl3, hne, ha.1, this, Except.map]
    all_goals (
      have := ih' lvl labs ha
      simp [hl3, this, Except.map])

end Hawk.Sed
