import HawkModel.Oom
/-! helper lemmas for Props/C10 -/
namespace Hawk.Oom

/-! ### lists -/

theorem nodupB_iff (l : List Nat) : nodupB l = true ↔ l.Nodup := by
  induction l with
  | nil => simp [nodupB]
  | cons x xs ih => simp [nodupB, List.nodup_cons, ih]

theorem getD_of_getElem? {α} (l : List α) (i : Nat) (d x : α) (h : l[i]? = some x) : l.getD i d = x := by
  simp [List.getD, h]

/-! ### one cleanup label -/

theorem fire_sublist (acq : List Res) (x : Rel) : (x.fire acq).Sublist [x.res] := by
  cases x with
  | always r => simp [Rel.fire, Rel.res]
  | ifSet r =>
    simp only [Rel.fire, Rel.res]
    split <;> simp

theorem unwind_sublist (acq : List Res) (rels : List Rel) :
    (unwind acq rels).Sublist (rels.map Rel.res) := by
  induction rels with
  | nil => simp [unwind]
  | cons x xs ih =>
    have h : unwind acq (x :: xs) = x.fire acq ++ unwind acq xs := by simp [unwind]
    rw [h]
    have : (x.fire acq ++ unwind acq xs).Sublist ([x.res] ++ xs.map Rel.res) :=
      List.Sublist.append (fire_sublist acq x) ih
    simpa using this

theorem mem_unwind (acq : List Res) (rels : List Rel) (r : Res) :
    r ∈ unwind acq rels ↔ (Rel.always r ∈ rels) ∨ (Rel.ifSet r ∈ rels ∧ r ∈ acq) := by
  simp only [unwind, List.mem_flatMap]
  constructor
  · rintro ⟨x, hx, hr⟩
    cases x with
    | always q =>
      simp [Rel.fire] at hr
      subst hr; exact Or.inl hx
    | ifSet q =>
      simp only [Rel.fire] at hr
      split at hr
      · simp at hr; subst hr; exact Or.inr ⟨hx, by assumption⟩
      · simp at hr
  · rintro (h | ⟨h, ha⟩)
    · exact ⟨_, h, by simp [Rel.fire]⟩
    · exact ⟨_, h, by simp [Rel.fire, ha]⟩

/-- the concrete set of held resources is described by the symbolic state -/
def Inv (acq : List Res) (s : Sym) : Prop :=
  acq.Nodup ∧ (∀ r, r ∈ s.sure → r ∈ acq) ∧ (∀ r, r ∈ acq → r ∈ s.sure ∨ r ∈ s.maybe)

theorem labelExact_balanced (s : Sym) (rels : List Rel) (acq : List Res)
    (h : labelExact s rels = true) (hi : Inv acq s) :
    (unwind acq rels).Nodup ∧ ∀ r, r ∈ unwind acq rels ↔ r ∈ acq := by
  simp only [labelExact, Bool.and_eq_true, List.all_eq_true, List.contains_iff_mem] at h
  obtain ⟨⟨⟨hnd, halw⟩, hsure⟩, hmaybe⟩ := h
  rw [nodupB_iff] at hnd
  refine ⟨List.Nodup.sublist (unwind_sublist acq rels) hnd, ?_⟩
  intro r
  rw [mem_unwind]
  constructor
  · rintro (ha | ⟨_, hacq⟩)
    · have : r ∈ s.sure := by simpa using halw _ ha
      exact hi.2.1 r this
    · exact hacq
  · intro hacq
    rcases hi.2.2 r hacq with hs | hm
    · have := hsure r hs
      rw [List.mem_map] at this
      obtain ⟨x, hx, hxr⟩ := this
      cases x with
      | always q => simp [Rel.res] at hxr; subst hxr; exact Or.inl hx
      | ifSet q => simp [Rel.res] at hxr; subst hxr; exact Or.inr ⟨hx, hacq⟩
    · exact Or.inr ⟨hmaybe r hm, hacq⟩

theorem jump_balanced (t : Table) (s : Sym) (l : Label) (acq : List Res)
    (h : labelOK t s l = true) (hi : Inv acq s) :
    (jump t acq l).ok = false ∧ (jump t acq l).acquired = acq ∧
    (jump t acq l).released.Nodup ∧ ∀ r, r ∈ (jump t acq l).released ↔ r ∈ acq := by
  unfold labelOK at h
  split at h
  · rename_i rels hl
    have hg : t.labels.getD l [] = rels := getD_of_getElem? _ _ _ _ hl
    have := labelExact_balanced s rels acq h hi
    refine ⟨rfl, rfl, ?_, ?_⟩
    · simp only [jump, hg]; exact this.1
    · simp only [jump, hg]; exact this.2
  · simp at h

/-! ### invariant maintenance -/

theorem fresh_not_mem (r : Res) (s : Sym) (acq : List Res) (hf : fresh r s = true) (hi : Inv acq s) :
    r ∉ acq ∧ r ∉ s.sure ∧ r ∉ s.maybe := by
  simp only [fresh, Bool.and_eq_true, Bool.not_eq_true', List.contains_eq_mem, decide_eq_false_iff_not] at hf
  refine ⟨?_, hf.1, hf.2⟩
  intro h
  rcases hi.2.2 r h with h | h
  · exact hf.1 h
  · exact hf.2 h

theorem Inv.push_sure {acq : List Res} {s : Sym} {r : Res} (hi : Inv acq s) (hf : fresh r s = true) :
    Inv (acq ++ [r]) { s with sure := s.sure ++ [r] } := by
  have hn := fresh_not_mem r s acq hf hi
  refine ⟨?_, ?_, ?_⟩
  · rw [List.nodup_append]
    refine ⟨hi.1, by simp, ?_⟩
    intro a ha b hb
    simp at hb; subst hb
    intro e; subst e; exact hn.1 ha
  · intro q hq
    simp only [List.mem_append, List.mem_singleton] at hq ⊢
    rcases hq with hq | hq
    · exact Or.inl (hi.2.1 q hq)
    · exact Or.inr hq
  · intro q hq
    simp only [List.mem_append, List.mem_singleton] at hq ⊢
    rcases hq with hq | hq
    · rcases hi.2.2 q hq with h | h
      · exact Or.inl (Or.inl h)
      · exact Or.inr h
    · exact Or.inl (Or.inr hq)

theorem Inv.push_maybe_set {acq : List Res} {s : Sym} {r : Res} (hi : Inv acq s) (hf : fresh r s = true) :
    Inv (acq ++ [r]) { s with maybe := s.maybe ++ [r] } := by
  have hn := fresh_not_mem r s acq hf hi
  refine ⟨?_, ?_, ?_⟩
  · rw [List.nodup_append]
    refine ⟨hi.1, by simp, ?_⟩
    intro a ha b hb
    simp at hb; subst hb
    intro e; subst e; exact hn.1 ha
  · intro q hq
    simp only [List.mem_append, List.mem_singleton]
    exact Or.inl (hi.2.1 q hq)
  · intro q hq
    simp only [List.mem_append, List.mem_singleton] at hq ⊢
    rcases hq with hq | hq
    · rcases hi.2.2 q hq with h | h
      · exact Or.inl h
      · exact Or.inr (Or.inl h)
    · exact Or.inr (Or.inr hq)

theorem Inv.push_maybe_unset {acq : List Res} {s : Sym} {r : Res} (hi : Inv acq s) :
    Inv acq { s with maybe := s.maybe ++ [r] } := by
  refine ⟨hi.1, hi.2.1, ?_⟩
  intro q hq
  simp only [List.mem_append, List.mem_singleton]
  rcases hi.2.2 q hq with h | h
  · exact Or.inl h
  · exact Or.inr (Or.inl h)

theorem Inv.checked {acq : List Res} {s : Sym} {rs : List Res} (hi : Inv acq s)
    (hc : rs.all (fun r => decide (r ∈ acq)) = true) :
    Inv acq { sure := s.sure ++ s.maybe.filter (fun r => rs.contains r),
              maybe := s.maybe.filter (fun r => !(rs.contains r)) } := by
  simp only [List.all_eq_true, decide_eq_true_eq] at hc
  refine ⟨hi.1, ?_, ?_⟩
  · intro q hq
    simp only [List.mem_append, List.mem_filter, List.contains_iff_mem] at hq
    rcases hq with hq | ⟨_, hq⟩
    · exact hi.2.1 q hq
    · exact hc q hq
  · intro q hq
    simp only [List.mem_append, List.mem_filter, List.contains_iff_mem, Bool.not_eq_true']
    rcases hi.2.2 q hq with h | h
    · exact Or.inl (Or.inl h)
    · by_cases hr : q ∈ rs
      · exact Or.inl (Or.inr ⟨h, hr⟩)
      · exact Or.inr ⟨h, by simpa using hr⟩

theorem checked_mem_iff (s : Sym) (rs : List Res) (q : Res) :
    (q ∈ s.sure ++ s.maybe.filter (fun r => rs.contains r) ∨ q ∈ s.maybe.filter (fun r => !(rs.contains r)))
      ↔ (q ∈ s.sure ∨ q ∈ s.maybe) := by
  simp only [List.mem_append, List.mem_filter, List.contains_iff_mem, Bool.not_eq_true']
  constructor
  · rintro ((h | ⟨h, _⟩) | ⟨h, _⟩)
    · exact Or.inl h
    · exact Or.inr h
    · exact Or.inr h
  · rintro (h | h)
    · exact Or.inl (Or.inl h)
    · by_cases hr : q ∈ rs
      · exact Or.inl (Or.inr ⟨h, hr⟩)
      · exact Or.inr ⟨h, by simpa using hr⟩

/-! ### the main induction -/

/-- what `runFrom` guarantees from a symbolic state that passes the check -/
def Spec (s : Sym) (ops : List Op) (o : Outcome) : Prop :=
  o.acquired.Nodup ∧
  (o.ok = false → o.released.Nodup ∧ ∀ r, r ∈ o.released ↔ r ∈ o.acquired) ∧
  (o.ok = true → o.released = [] ∧ ∀ r, r ∈ o.acquired ↔ (r ∈ s.sure ∨ r ∈ s.maybe ∨ r ∈ resOf ops))

theorem spec_of_jump (t : Table) (s : Sym) (ops : List Op) (l : Label) (acq : List Res)
    (h : labelOK t s l = true) (hi : Inv acq s) : Spec s ops (jump t acq l) := by
  obtain ⟨h1, h2, h3, h4⟩ := jump_balanced t s l acq h hi
  refine ⟨by rw [h2]; exact hi.1, ?_, ?_⟩
  · intro _; exact ⟨h3, by rw [h2]; exact h4⟩
  · intro hk; rw [h1] at hk; cases hk

theorem runFrom_spec (t : Table) (fail : Nat → Bool) :
    ∀ (ops : List Op) (i : Nat) (acq : List Res) (s : Sym),
      wfFrom t ops s = true → Inv acq s → Spec s ops (runFrom t fail ops i acq) := by
  intro ops
  induction ops with
  | nil =>
    intro i acq s hw hi
    simp only [wfFrom, List.isEmpty_iff] at hw
    refine ⟨hi.1, by simp [runFrom], ?_⟩
    intro _
    refine ⟨rfl, ?_⟩
    intro r
    simp only [runFrom, resOf, hw, List.not_mem_nil, or_false]
    constructor
    · intro h
      rcases hi.2.2 r h with h | h
      · exact h
      · rw [hw] at h; cases h
    · exact hi.2.1 r
  | cons op rest ih =>
    intro i acq s hw hi
    cases op with
    | acq r onFail =>
      cases onFail with
      | some l =>
        simp only [wfFrom, Bool.and_eq_true] at hw
        obtain ⟨⟨hf, hl⟩, hrest⟩ := hw
        simp only [runFrom]
        split
        · exact spec_of_jump t s _ l acq hl hi
        · have := ih (i + 1) (acq ++ [r]) _ hrest (hi.push_sure hf)
          obtain ⟨a1, a2, a3⟩ := this
          refine ⟨a1, a2, ?_⟩
          intro hk
          obtain ⟨b1, b2⟩ := a3 hk
          refine ⟨b1, ?_⟩
          intro q
          rw [b2 q]
          simp only [resOf, List.mem_append, List.mem_cons, List.not_mem_nil, or_false]
          constructor
          · rintro ((h | h) | h | h)
            · exact Or.inl h
            · exact Or.inr (Or.inr (Or.inl h))
            · exact Or.inr (Or.inl h)
            · exact Or.inr (Or.inr (Or.inr h))
          · rintro (h | h | h | h)
            · exact Or.inl (Or.inl h)
            · exact Or.inr (Or.inl h)
            · exact Or.inl (Or.inr h)
            · exact Or.inr (Or.inr h)
      | none =>
        simp only [wfFrom, Bool.and_eq_true] at hw
        obtain ⟨hf, hrest⟩ := hw
        simp only [runFrom]
        have reshuffle : ∀ q : Res,
            (q ∈ s.sure ∨ q ∈ s.maybe ++ [r] ∨ q ∈ resOf rest) ↔
            (q ∈ s.sure ∨ q ∈ s.maybe ∨ q ∈ resOf (Op.acq r none :: rest)) := by
          intro q
          simp only [resOf, List.mem_append, List.mem_cons, List.not_mem_nil, or_false]
          constructor
          · rintro (h | (h | h) | h)
            · exact Or.inl h
            · exact Or.inr (Or.inl h)
            · exact Or.inr (Or.inr (Or.inl h))
            · exact Or.inr (Or.inr (Or.inr h))
          · rintro (h | h | h | h)
            · exact Or.inl h
            · exact Or.inr (Or.inl (Or.inl h))
            · exact Or.inr (Or.inl (Or.inr h))
            · exact Or.inr (Or.inr h)
        split
        · obtain ⟨a1, a2, a3⟩ := ih (i + 1) acq _ hrest (hi.push_maybe_unset (r := r))
          refine ⟨a1, a2, ?_⟩
          intro hk
          obtain ⟨b1, b2⟩ := a3 hk
          exact ⟨b1, fun q => (b2 q).trans (reshuffle q)⟩
        · obtain ⟨a1, a2, a3⟩ := ih (i + 1) (acq ++ [r]) _ hrest (hi.push_maybe_set hf)
          refine ⟨a1, a2, ?_⟩
          intro hk
          obtain ⟨b1, b2⟩ := a3 hk
          exact ⟨b1, fun q => (b2 q).trans (reshuffle q)⟩
    | check rs l =>
      simp only [wfFrom, Bool.and_eq_true] at hw
      obtain ⟨hl, hrest⟩ := hw
      simp only [runFrom]
      split
      · rename_i hc
        obtain ⟨a1, a2, a3⟩ := ih (i + 1) acq _ hrest (hi.checked hc)
        refine ⟨a1, a2, ?_⟩
        intro hk
        obtain ⟨b1, b2⟩ := a3 hk
        refine ⟨b1, ?_⟩
        intro q
        rw [b2 q]
        have := checked_mem_iff s rs q
        simp only [resOf]
        constructor
        · rintro (h | h | h)
          · rcases this.mp (Or.inl h) with h | h
            · exact Or.inl h
            · exact Or.inr (Or.inl h)
          · rcases this.mp (Or.inr h) with h | h
            · exact Or.inl h
            · exact Or.inr (Or.inl h)
          · exact Or.inr (Or.inr h)
        · rintro (h | h | h)
          · rcases this.mpr (Or.inl h) with h | h
            · exact Or.inl h
            · exact Or.inr (Or.inl h)
          · rcases this.mpr (Or.inr h) with h | h
            · exact Or.inl h
            · exact Or.inr (Or.inl h)
          · exact Or.inr (Or.inr h)
      · exact spec_of_jump t s _ l acq hl hi
    | guard l =>
      simp only [wfFrom, Bool.and_eq_true] at hw
      obtain ⟨hl, hrest⟩ := hw
      simp only [runFrom]
      split
      · exact spec_of_jump t s _ l acq hl hi
      · simpa [Spec, resOf] using ih (i + 1) acq s hrest hi
    | soft =>
      simp only [wfFrom] at hw
      simp only [runFrom]
      simpa [Spec, resOf] using ih (i + 1) acq s hw hi

theorem Inv.empty : Inv [] { sure := [], maybe := [] } := by
  refine ⟨List.nodup_nil, ?_, ?_⟩ <;> intro r h <;> simp at h

/-! ### no failure is swallowed -/

/-- steps whose failure must make the constructor fail -/
def Op.hard : Op → Bool
  | .acq _ _ => true
  | .guard _ => true
  | _ => false

theorem acquired_subset (t : Table) (fail : Nat → Bool) :
    ∀ (ops : List Op) (i : Nat) (acq : List Res) (r : Res),
      r ∈ (runFrom t fail ops i acq).acquired → r ∈ acq ∨ r ∈ resOf ops := by
  intro ops
  induction ops with
  | nil => intro i acq r h; exact Or.inl (by simpa [runFrom] using h)
  | cons op rest ih =>
    intro i acq r h
    cases op with
    | acq q onFail =>
      simp only [runFrom] at h
      split at h
      · cases onFail with
        | some l => exact Or.inl (by simpa [jump] using h)
        | none =>
          rcases ih _ _ _ h with h | h
          · exact Or.inl h
          · exact Or.inr (by simp [resOf, h])
      · rcases ih _ _ _ h with h | h
        · simp only [List.mem_append, List.mem_singleton] at h
          rcases h with h | h
          · exact Or.inl h
          · exact Or.inr (by simp [resOf, h])
        · exact Or.inr (by simp [resOf, h])
    | check rs l =>
      simp only [runFrom] at h
      split at h
      · simpa [resOf] using ih _ _ _ h
      · exact Or.inl (by simpa [jump] using h)
    | guard l =>
      simp only [runFrom] at h
      split at h
      · exact Or.inl (by simpa [jump] using h)
      · simpa [resOf] using ih _ _ _ h
    | soft =>
      simp only [runFrom] at h
      simpa [resOf] using ih _ _ _ h

theorem wf_fresh (t : Table) :
    ∀ (ops : List Op) (s : Sym) (r : Res),
      wfFrom t ops s = true → (r ∈ s.sure ∨ r ∈ s.maybe) → r ∉ resOf ops := by
  intro ops
  induction ops with
  | nil => intro s r _ _; simp [resOf]
  | cons op rest ih =>
    intro s r hw hr
    cases op with
    | acq q onFail =>
      have key : fresh q s = true ∧ ∃ s', wfFrom t rest s' = true ∧ (r ∈ s'.sure ∨ r ∈ s'.maybe) := by
        cases onFail with
        | some l =>
          simp only [wfFrom, Bool.and_eq_true] at hw
          refine ⟨hw.1.1, _, hw.2, ?_⟩
          simp only [List.mem_append, List.mem_singleton]
          rcases hr with h | h
          · exact Or.inl (Or.inl h)
          · exact Or.inr h
        | none =>
          simp only [wfFrom, Bool.and_eq_true] at hw
          refine ⟨hw.1, _, hw.2, ?_⟩
          simp only [List.mem_append, List.mem_singleton]
          rcases hr with h | h
          · exact Or.inl h
          · exact Or.inr (Or.inl h)
      obtain ⟨hf, s', hw', hr'⟩ := key
      simp only [fresh, Bool.and_eq_true, Bool.not_eq_true', List.contains_eq_mem, decide_eq_false_iff_not] at hf
      simp only [resOf, List.mem_cons, not_or]
      refine ⟨?_, ih s' r hw' hr'⟩
      intro e; subst e
      rcases hr with h | h
      · exact hf.1 h
      · exact hf.2 h
    | check rs l =>
      simp only [wfFrom, Bool.and_eq_true] at hw
      simp only [resOf]
      refine ih _ r hw.2 ?_
      have := (checked_mem_iff s rs r).mpr hr
      exact this
    | guard l =>
      simp only [wfFrom, Bool.and_eq_true] at hw
      simpa [resOf] using ih s r hw.2 hr
    | soft =>
      simp only [wfFrom] at hw
      simpa [resOf] using ih s r hw hr

/-- a resource stored without a test and not held makes the constructor fail at the latest at its check -/
theorem pending_unset_fails (t : Table) (fail : Nat → Bool) (ops : List Op) (i : Nat) (acq : List Res) (s : Sym)
    (hw : wfFrom t ops s = true) (hi : Inv acq s) (r : Res) (hm : r ∈ s.maybe) (hn : r ∉ acq) :
    (runFrom t fail ops i acq).ok = false := by
  cases hk : (runFrom t fail ops i acq).ok with
  | false => rfl
  | true =>
    exfalso
    obtain ⟨_, _, a3⟩ := runFrom_spec t fail ops i acq s hw hi
    have hin : r ∈ (runFrom t fail ops i acq).acquired := ((a3 hk).2 r).mpr (Or.inr (Or.inl hm))
    rcases acquired_subset t fail ops i acq r hin with h | h
    · exact hn h
    · exact wf_fresh t ops s r hw (Or.inr hm) h

theorem ok_no_hard_failure (t : Table) (fail : Nat → Bool) :
    ∀ (ops : List Op) (i : Nat) (acq : List Res) (s : Sym),
      wfFrom t ops s = true → Inv acq s → (runFrom t fail ops i acq).ok = true →
      ∀ (j : Nat) (op : Op), ops[j]? = some op → op.hard = true → fail (i + j) = false := by
  intro ops
  induction ops with
  | nil => intro i acq s _ _ _ j op h; simp at h
  | cons op0 rest ih =>
    intro i acq s hw hi hk j op hj hh
    -- the step at the head did not fail (if it is hard), and the run continues with `rest`
    have step : (op0.hard = true → fail i = false) ∧
        ∃ acq' s', wfFrom t rest s' = true ∧ Inv acq' s' ∧ (runFrom t fail rest (i + 1) acq').ok = true := by
      cases op0 with
      | acq r onFail =>
        cases onFail with
        | some l =>
          simp only [wfFrom, Bool.and_eq_true] at hw
          simp only [runFrom] at hk
          split at hk
          · simp [jump] at hk
          · rename_i hf
            exact ⟨fun _ => by simpa using hf, _, _, hw.2, hi.push_sure hw.1.1, hk⟩
        | none =>
          simp only [wfFrom, Bool.and_eq_true] at hw
          simp only [runFrom] at hk
          split at hk
          · exfalso
            have hn := fresh_not_mem r s acq hw.1 hi
            have := pending_unset_fails t fail rest (i + 1) acq _ hw.2 (hi.push_maybe_unset (r := r)) r
              (by simp) hn.1
            rw [this] at hk; cases hk
          · rename_i hf
            exact ⟨fun _ => by simpa using hf, _, _, hw.2, hi.push_maybe_set hw.1, hk⟩
      | check rs l =>
        simp only [wfFrom, Bool.and_eq_true] at hw
        simp only [runFrom] at hk
        split at hk
        · rename_i hc
          exact ⟨fun h => by simp [Op.hard] at h, _, _, hw.2, hi.checked hc, hk⟩
        · simp [jump] at hk
      | guard l =>
        simp only [wfFrom, Bool.and_eq_true] at hw
        simp only [runFrom] at hk
        split at hk
        · simp [jump] at hk
        · rename_i hf
          exact ⟨fun _ => by simpa using hf, _, _, hw.2, hi, hk⟩
      | soft =>
        simp only [wfFrom] at hw
        simp only [runFrom] at hk
        exact ⟨fun h => by simp [Op.hard] at h, _, _, hw, hi, hk⟩
    obtain ⟨h0, acq', s', hw', hi', hk'⟩ := step
    cases j with
    | zero =>
      simp at hj; subst hj
      simpa using h0 hh
    | succ j' =>
      simp at hj
      have := ih (i + 1) acq' s' hw' hi' hk' j' op hj hh
      have e : i + (j' + 1) = i + 1 + j' := by omega
      rw [e]; exact this

/-! ### gc_calloc_val -/

theorem requests_append (a b : List GcEv) : requests (a ++ b) = requests a + requests b := by
  simp [requests, List.filter_append]
theorem grants_append (a b : List GcEv) : grants (a ++ b) = grants a + grants b := by
  simp [grants, List.filter_append]
theorem collects_append (a b : List GcEv) : collects (a ++ b) = collects a + collects b := by
  simp [collects, List.filter_append]
theorem frees_append (a b : List GcEv) : frees (a ++ b) = frees a + frees b := by
  simp [frees, List.filter_append]


theorem requests_nil : requests [] = 0 := rfl
theorem grants_nil : grants [] = 0 := rfl
theorem frees_nil : frees [] = 0 := rfl
theorem requests_cons (e : GcEv) (l : List GcEv) :
    requests (e :: l) = (match e with | .request _ => 1 | _ => 0) + requests l := by
  cases e <;> simp [requests] <;> omega
theorem grants_cons (e : GcEv) (l : List GcEv) :
    grants (e :: l) = (match e with | .request true => 1 | _ => 0) + grants l := by
  cases e with
  | request b => cases b <;> simp [grants] <;> omega
  | _ => simp [grants]
theorem frees_cons (e : GcEv) (l : List GcEv) :
    frees (e :: l) = (match e with | .freeVal => 1 | _ => 0) + frees l := by
  cases e <;> simp [frees] <;> omega

/-- gc_calloc_val never frees a value block -/
theorem gcCallocVal_no_frees (g : Gc) (o : Oracle) : frees (gcCallocVal g o).evs = 0 := by
  simp only [gcCallocVal]
  rcases o with _ | ⟨b1, o1⟩
  · by_cases h0 : g.p0 ≥ g.t0 <;> simp [Oracle.next, h0, frees]
  · cases b1 with
    | true => by_cases h0 : g.p0 ≥ g.t0 <;> simp [Oracle.next, h0, frees]
    | false =>
      rcases o1 with _ | ⟨b2, o2⟩
      · by_cases h0 : g.p0 ≥ g.t0 <;> by_cases h2 : g.p2 ≥ g.t2 <;> by_cases h1 : g.p1 ≥ g.t1 <;>
          simp [Oracle.next, h0, h1, h2, Gc.autoGen, frees]
      · cases b2 <;> by_cases h0 : g.p0 ≥ g.t0 <;> by_cases h2 : g.p2 ≥ g.t2 <;> by_cases h1 : g.p1 ≥ g.t1 <;>
          simp [Oracle.next, h0, h1, h2, Gc.autoGen, frees]

end Hawk.Oom
