import HawkModel.Gen.FncDispatch
import HawkModel.Gen.Loops
import HawkModel.Gen.DivSites
import HawkModel.Gen.FlagSites
import HawkModel.Gen.StackSites
/-!
# C01 — guard models for the crash-prone sites named in the property anchors

Transcriptions (branch by branch) of the *guards* that stand between script-controlled operands and an
operation that can kill the host:

* tagged value words (`lib/val-prv.h` HAWK_VTR_* macros) and the runtime representation behind each type tag,
* integer `/ \ %` in `lib/run.c eval_binop_div/idiv/mod` and in `lib/parse.c fold_constants_for_binop`
  (machine division traps on a zero divisor and on INT_MIN / -1),
* integer exponentiation in `eval_binop_exp` (square-and-multiply: loop bounded by the bits of the exponent),
* the IGNORECASE global as `set_global` computes it and the two-element arrays it indexes,
* start/offset clamping of substr(), index()/rindex() (`index_or_rindex`), match() (`__fnc_match`).

Everything here is a total Lean definition (structural or `termination_by` recursion, no `partial def`, no fuel).
The generated tables (`Gen/*.lean`, translators in `extract/`) tie the shapes assumed here to the C text.
-/
namespace Hawk.Crash

/-! ## error numbers: a failure always carries a non-zero number -/
inductive Err where
  | divby0      -- HAWK_EDIVBY0
  | operand     -- HAWK_EOPERAND
  deriving DecidableEq, Repr

/-- the numeric value is irrelevant; what matters is that HAWK_ENOERR (= 0) is not in the image -/
def Err.num : Err → Nat
  | .divby0 => 91
  | .operand => 87

/-! ## 64-bit two's complement -/
def INT_MIN : Int := -9223372036854775808
def INT_MAX : Int := 9223372036854775807
def TWO64 : Int := 18446744073709551616

def InRange (x : Int) : Prop := INT_MIN ≤ x ∧ x ≤ INT_MAX

/-- reinterpret an arbitrary integer as a hawk_int_t (wrap-around) -/
def wrap (x : Int) : Int := (x - INT_MIN) % TWO64 + INT_MIN

/-- hawk_int_t -> hawk_uint_t / hawk_oow_t conversion -/
def toU (x : Int) : Nat := (x % TWO64).toNat
/-- hawk_uint_t -> hawk_int_t conversion -/
def toS (u : Nat) : Int := wrap (Int.ofNat u)

/-! ## the machine operations: `none` = the CPU raises #DE (SIGFPE) -/
def machDiv (n d : Int) : Option Int :=
  if d = 0 then none else if n = INT_MIN ∧ d = -1 then none else some (Int.tdiv n d)

def machMod (n d : Int) : Option Int :=
  if d = 0 then none else if n = INT_MIN ∧ d = -1 then none else some (Int.tmod n d)

/-- result of an arithmetic evaluator on two integer operands -/
inductive Out where
  | int (v : Int)          -- hawk_rtx_makeintval(v)
  | flt (n d : Int)        -- hawk_rtx_makefltval((hawk_flt_t)n / (hawk_flt_t)d)
  | err (e : Err)          -- NULL + hawk_rtx_seterrnum(e)
  | trap                   -- the process dies
  deriving DecidableEq, Repr

/-- `eval_binop_div`, `case 0` (both operands integers) -/
def evalDiv (l1 l2 : Int) : Out :=
  if l2 = 0 then .err .divby0
  else if l1 = INT_MIN ∧ l2 = -1 then .flt l1 l2
  else match machMod l1 l2 with
    | none => .trap
    | some r =>
      if r = 0 then
        match machDiv l1 l2 with
        | none => .trap
        | some q => .int q
      else .flt l1 l2

/-- `eval_binop_idiv`, `case 0` -/
def evalIdiv (l1 l2 : Int) : Out :=
  if l2 = 0 then .err .divby0
  else if l2 = -1 then .int (wrap (-l1))            -- (hawk_int_t)((hawk_uint_t)0 - (hawk_uint_t)l1)
  else match machDiv l1 l2 with
    | none => .trap
    | some q => .int q

/-- `eval_binop_mod`, `case 0` -/
def evalMod (l1 l2 : Int) : Out :=
  if l2 = 0 then .err .divby0
  else if l2 = -1 then .int 0
  else match machMod l1 l2 with
    | none => .trap
    | some r => .int r

/-- `fold_constants_for_binop`, INT op INT, HAWK_BINOP_DIV (`fold = -2` is the error exit) -/
def foldDiv (l r : Int) : Out :=
  if r = 0 then .err .divby0
  else if (l = INT_MIN ∧ r = -1) then .flt l r          -- first operand of `||`
  else match machMod l r with                             -- second operand of `||`: INT_BINOP_INT(left,%,right)
    | none => .trap
    | some m =>
      if m ≠ 0 then .flt l r
      else match machDiv l r with
        | none => .trap
        | some q => .int q

/-- HAWK_BINOP_IDIV in the folder -/
def foldIdiv (l r : Int) : Out :=
  if r = 0 then .err .divby0
  else if r = -1 then .int (wrap (-l))
  else match machDiv l r with
    | none => .trap
    | some q => .int q

/-- HAWK_BINOP_MOD in the folder -/
def foldMod (l r : Int) : Out :=
  if r = 0 then .err .divby0
  else if r = -1 then .int 0
  else match machMod l r with
    | none => .trap
    | some m => .int m

/-! ## exponentiation: `pow_int_by_uint` (square and multiply on hawk_uint_t) -/
def M64 : Nat := 18446744073709551616

/-- the loop `while (exp > 0) { if (exp & 1) v *= b; b *= b; exp >>= 1; }`; returns (v, number of iterations) -/
def powLoop (v b e : Nat) : Nat × Nat :=
  if h : e = 0 then (v, 0)
  else
    let v' := if e % 2 = 1 then (v * b) % M64 else v
    let r := powLoop v' ((b * b) % M64) (e / 2)
    (r.1, r.2 + 1)
termination_by e
decreasing_by omega

/-- `eval_binop_exp`, `case 0`, non-negative exponent: result as hawk_int_t -/
def evalPowNonneg (l1 : Int) (l2 : Nat) : Int := toS (powLoop 1 (toU l1) l2).1

/-! ## IGNORECASE -/
inductive FSign where
  | neg | zero | pos | nan
  deriving DecidableEq, Repr

/-- what `hawk_rtx_valtonum` hands to `set_global`: an integer, or a float (only its sign class matters) -/
inductive Num where
  | int (l : Int)
  | flt (s : FSign)
  deriving DecidableEq, Repr

open Hawk.Gen.FlagSites in
/-- value a store of the given shape (see extract/flag_sites.py) writes into `rtx->gbl.ignorecase`.
    The int shapes are reached with `vt == 0`, the float shapes with `vt == 1`; a shape applied to the other
    kind is never executed — it is given the value 0 so that the function is total. -/
def storeValue : Shape → Num → Int
  | .zero, _ => 0
  | .intNe0, .int l => if l ≠ 0 then 1 else 0
  | .intNe0, .flt _ => 0
  | .fltNe0, .flt s => if s = .zero then 0 else 1          -- (r != 0.0): true for NaN
  | .fltNe0, .int _ => 0
  | .intSign, .int l => if l > 0 then 1 else if l < 0 then -1 else 0
  | .intSign, .flt _ => 0
  | .fltSign, .flt s => match s with | .pos => 1 | .neg => -1 | _ => 0
  | .fltSign, .int _ => 0

/-- an index into an array of `len` elements is in range -/
def IndexOk (i : Int) (len : Nat) : Prop := 0 ≤ i ∧ i < Int.ofNat len

/-! ## substr / index / match: the region handed to the copier / finder -/

/-- `hawk_fnc_substr`: returns (offset, count) passed to hawk_rtx_make*valwith*chars(&str[offset], count).
    `lindex` is the converted second argument, `lcount` the third (`none` = absent). `len` < 2^63. -/
def substrRegion (len : Nat) (lindex : Int) (lcount : Option Int) : Int × Int :=
  let cnt0 : Int := match lcount with
    | some c => if c < 0 then 0 else c
    | none => INT_MAX
  let i1 := wrap (lindex - 1)
  let i2 := if i1 < 0 then 0 else i1
  let i3 := if i2 ≥ Int.ofNat len then Int.ofNat len else i2
  let c3 := if cnt0 > Int.ofNat len - i3 then Int.ofNat len - i3 else cnt0
  (i3, c3)

/-- `index_or_rindex`: the effective `boundary` after defaulting / negative-index adjustment.
    `b` is the converted third argument (`none` = absent). -/
def indexBoundary (len0 : Nat) (b : Option Int) (rindex : Bool) : Int :=
  match b with
  | none => if rindex then toS len0 else 1
  | some b => if b = 0 then 1 else if b < 0 then toS (len0 + toU b + 1) else b

/-- `index_or_rindex`: the region (offset, length) of the subject handed to the finder; `none` = finder not called.
    Mixed signed/unsigned comparisons as the C does them (`boundary > len0` compares as unsigned). -/
def indexRegion (len0 : Nat) (b : Option Int) (rindex : Bool) : Option (Nat × Nat) :=
  let b1 := indexBoundary len0 b rindex
  if toU b1 > len0 ∨ b1 ≤ 0 then none
  else if rindex then some (0, b1.toNat)
  else some (b1.toNat - 1, len0 + 1 - b1.toNat)        -- len0 - boundary + 1 in hawk_oow_t

/-- `__fnc_match`: the effective start position -/
def matchStart (len0 : Nat) (start : Int) : Int :=
  if start = 0 then 1 else if start < 0 then toS (len0 + toU start + 1) else start

/-- `__fnc_match` (as repaired in /repo, commit a4a01c5): the region handed to the matcher; `none` = matcher not
    called (no match).  The comparison `start > (hawk_int_t)len0 + 1` is signed; `start = len0 + 1` hands on the empty
    remainder (so that `$` can match at the end). -/
def matchRegion (len0 : Nat) (start : Int) : Option (Nat × Nat) :=
  let s1 := matchStart len0 start
  if s1 > Int.ofNat len0 + 1 ∨ s1 ≤ 0 then none
  else some (s1.toNat - 1, len0 + 1 - s1.toNat)        -- len0 - start + 1 in hawk_oow_t

/-! ## tagged value words (val-prv.h) -/
namespace Vtr
/-- HAWK_VTR_TYPE_BITS -/
def typeBits (w : Nat) : Nat := if w % 4 = 3 then w % 16 else w % 4
def SIGN : Nat := 9223372036854775808     -- HAWK_VTR_SIGN_BIT
def INTMAX : Int := 2305843009213693951   -- HAWK_INT_MAX = ~0 >> 3

/-- HAWK_INT_TO_VTR_POSITIVE / NEGATIVE (only used for |i| ≤ HAWK_INT_MAX, see hawk_rtx_makeintval) -/
def encodeInt (i : Int) : Nat := if i ≥ 0 then i.toNat * 4 + 1 else (-i).toNat * 4 + 1 + SIGN
def encodeChar (c : Nat) : Nat := c * 4 + 2
def encodeBchr (b : Nat) : Nat := b * 16 + 3
/-- HAWK_VTR_TO_INT -/
def decodeInt (w : Nat) : Int := if w ≥ SIGN then -Int.ofNat ((w - SIGN) / 4) else Int.ofNat (w / 4)

open Hawk.Gen.FncDispatch in
/-- HAWK_GET_VAL_TYPE(p): `heap` is what `p->v_type` would read — it is consulted only in the last arm -/
def getValType (w : Nat) (heap : Tag) : Tag :=
  if typeBits w = 1 then .int_ else if typeBits w = 2 then .char_ else if typeBits w = 3 then .bchr_ else heap
end Vtr

open Hawk.Gen.FncDispatch in
/-- the C struct behind a value whose type tag is `t`, when the value is known to be a heap object of exactly one
    struct type.  CHAR and BCHR are immediates (no object at all); INT is an immediate for small values and a
    `hawk_val_int_t` otherwise, so the tag alone licenses no cast (only HAWK_RTX_GETINTFROMVAL may look). -/
def repr : Tag → Option Struct
  | .nil_ => some .nil
  | .char_ => none
  | .bchr_ => none
  | .int_ => none
  | .flt_ => some .flt
  | .str_ => some .str
  | .mbs_ => some .mbs
  | .fun_ => some .fun
  | .map_ => some .map
  | .arr_ => some .arr
  | .rex_ => some .rex
  | .ref_ => some .ref

open Hawk.Gen.FncDispatch in
/-- a cast row is safe when every tag under which it is reached has exactly that representation -/
def rowOk (r : Row) : Bool := r.tags.all fun t => repr t == some r.to

/-! ## division guards as extracted -/
open Hawk.Gen.DivSites in
def atomHolds (n d : Int) : Atom → Bool
  | .dEq k => d == k
  | .dNe k => d != k
  | .dGt k => decide (d > k)
  | .nEq k => n == k
  | .nNe k => n != k

open Hawk.Gen.DivSites in
def factHolds (n d : Int) (f : Fact) : Bool :=
  if f.pol then f.atoms.all (atomHolds n d) else !(f.atoms.all (atomHolds n d))

/-- the machine operation does not trap -/
def Safe (n d : Int) : Prop := d ≠ 0 ∧ ¬(n = INT_MIN ∧ d = -1)

open Hawk.Gen.DivSites in
/-- syntactic test: some dominating fact rules out a zero divisor -/
def factNonzero (f : Fact) : Bool :=
  if f.pol then f.atoms.any fun a => match a with
    | .dNe k => k == 0
    | .dGt k => decide (k ≥ 0)
    | .dEq k => k != 0
    | _ => false
  else f.atoms == [.dEq 0]

open Hawk.Gen.DivSites in
/-- syntactic test: some dominating fact rules out INT_MIN / -1 -/
def factNoOverflow (f : Fact) : Bool :=
  if f.pol then f.atoms.any fun a => match a with
    | .dNe k => k == -1
    | .dGt k => decide (k ≥ -1)
    | .dEq k => k != -1
    | .nNe k => k == INT_MIN
    | .nEq k => k != INT_MIN
  else f.atoms == [.dEq (-1)] || f.atoms == [.nEq INT_MIN, .dEq (-1)] || f.atoms == [.dEq (-1), .nEq INT_MIN]
       || f.atoms == [.nEq INT_MIN]

open Hawk.Gen.DivSites in
def guardsOk (fs : List Fact) : Bool := fs.any factNonzero && fs.any factNoOverflow

/-! ## run-time stack: every unchecked push is covered by the reservation before it -/

/-- `hawk_rtx_evalcall`: slots reserved by `stack_req` for a call that passes `callN` arguments to a function with `funN`
    named parameters (`fun != NULL`) -/
def evalcallReserve (funN callN : Nat) : Nat := 4 + callN + (if funN > callN then funN - callN else 0)

/-- slots pushed: the four frame words, the arguments, and one nil per omitted parameter
    (`while (nargs < fun->nargs) HAWK_RTX_STACK_PUSH(nil)`; truncated subtraction = the loop not running) -/
def evalcallPushes (funN callN : Nat) : Nat := 4 + callN + (funN - callN)

open Hawk.Gen.StackSites in
/-- accepted shapes of a reservation row (extract/stack_sites.py):
    (A) a fixed number of pushes under a literal reservation at least as large;
    (B) a single loop that pushes exactly the reserved count — countdown of the reserved local, count-up to the reserved
        expression, or the walk over `call->args` under a reservation of `call->nargs` (the parser keeps the two equal);
    (C) the call frame of `hawk_rtx_evalcall`: four words + arguments in the base, and the padding for omitted parameters
        reserved under exactly the condition (`fun`, `fun->nargs > call->nargs`) under which the `padto fun->nargs` loop runs. -/
def stackRowOk (r : Row) : Bool :=
  (r.loops == [] && r.incs == [] && r.straight > 0 && decide (r.straight ≤ r.lit)) ||
  (r.straight == 0 && r.incs == [] && r.reserve != "" && (match r.loops with
     | [l] => (l.shape == "countdown" && l.bound == r.reserve) || (l.shape == "countup" && l.bound == r.reserve)
              || (l.shape == "listwalk" && l.bound == "call->args" && r.reserve == "call->nargs")
     | _ => false)) ||
  (r.fn == "hawk_rtx_evalcall" && r.straight == 4 && r.base == "(4+call->nargs)" &&
     r.incs == [⟨["(fun->nargs>call->nargs)", "fun"], "(fun->nargs-call->nargs)"⟩] &&
     r.loops == [⟨"padto", "fun->nargs", ["fun"]⟩])

end Hawk.Crash
