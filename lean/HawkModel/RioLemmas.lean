import HawkModel.Rio
/-!
# Specification vocabulary and helper lemmas for C05 (`HawkModel/Rio.lean`)

The first section defines the observations on the handler call log that the property
theorems in `Props/C05.lean` are stated with.  The rest are frame / invariant lemmas,
one group per function of the model.
-/
namespace Hawk.Rio

/-! ## observations on the handler call log (newest event first) -/

/-- the characters the handler took in this call, if it is a WRITE to key `k` -/
def Ev.slice (k : Key) : Ev → List Char
  | .wr _ k' _ off (.accept n) => if k' = k then off.take (n + 1) else []
  | _ => []

/-- everything the handler accepted for key `k`, oldest first -/
def delivered (k : Key) : List Ev → List Char
  | [] => []
  | e :: older => delivered k older ++ e.slice k

/-- a successful OPEN of key `k` -/
def Ev.isOpen (k : Key) : Ev → Bool
  | .opn _ k' _ true => decide (k' = k)
  | _ => false

/-- a full CLOSE of key `k` after which the runtime forgets the stream: the handler agreed,
or the call came from `hawk_rtx_clearallios` (which frees the node whatever the reply) -/
def Ev.isFullClose (k : Key) : Ev → Bool
  | .cl _ k' .full ok forced => decide (k' = k) && (ok || forced)
  | _ => false

def opens (k : Key) (log : List Ev) : Nat := log.countP (Ev.isOpen k)
def closes (k : Key) (log : List Ev) : Nat := log.countP (Ev.isFullClose k)

def keys (c : List Strm) : List Key := c.map (·.key)
def sids (c : List Strm) : List Nat := c.map (·.sid)

/-- scanning from the newest event: the stream currently registered under key `k` last said
"end of stream" to a WRITE, and neither a successful NEXT has re-armed it nor has it been fully
closed since -/
def eofPending (k : Key) : List Ev → Bool
  | [] => false
  | .wr _ k' _ _ .eof :: older => if k' = k then true else eofPending k older
  | .nx _ k' (.accept _) :: older => if k' = k then false else eofPending k older
  | .cl _ k' .full ok forced :: older => if k' = k ∧ (ok || forced) = true then false else eofPending k older
  | _ :: older => eofPending k older

/-- no WRITE is ever issued to a stream that is at "end of stream" -/
def NoWriteAfterEof : List Ev → Prop
  | [] => True
  | .wr _ k _ _ _ :: older => eofPending k older = false ∧ NoWriteAfterEof older
  | _ :: older => NoWriteAfterEof older

/-- scanning from the newest event: a FLUSH of `sid` is met before any WRITE to `sid`
(or `sid` was never written to) -/
def flushedSinceWrite (sid : Nat) : List Ev → Bool
  | [] => true
  | .fl sid' _ _ :: older => if sid' = sid then true else flushedSinceWrite sid older
  | .wr sid' _ _ _ _ :: older => if sid' = sid then false else flushedSinceWrite sid older
  | _ :: older => flushedSinceWrite sid older

/-- the adversary never answers `fail` or `eof` -/
def AllAccept (ρ : Nat → Reply) : Prop := ∀ i, ∃ k, ρ i = .accept k

/-- some handler call made between state `s` and state `s'` was answered `fail` -/
def FailedBetween (ρ : Nat → Reply) (s s' : St) : Prop := ∃ i, s.calls ≤ i ∧ i < s'.calls ∧ ρ i = .fail

/-! ## basics -/

@[simp] theorem emit_chain (s : St) (e : Ev) : (s.emit e).chain = s.chain := rfl
@[simp] theorem emit_log (s : St) (e : Ev) : (s.emit e).log = e :: s.log := rfl
@[simp] theorem emit_calls (s : St) (e : Ev) : (s.emit e).calls = s.calls + 1 := rfl
@[simp] theorem emit_nopen (s : St) (e : Ev) : (s.emit e).nopen = s.nopen := rfl

@[simp] theorem hasKey_iff (k : Key) (x : Strm) : hasKey k x = true ↔ x.key = k := by simp [hasKey]

theorem findKey_some {c : List Strm} {k : Key} {x : Strm} (h : findKey c k = some x) : x ∈ c ∧ x.key = k := by
  unfold findKey at h
  exact ⟨List.mem_of_find?_eq_some h, by simpa using List.find?_some h⟩

theorem findKey_none {c : List Strm} {k : Key} (h : findKey c k = none) : k ∉ keys c := by
  unfold findKey at h
  simp only [keys, List.mem_map, not_exists, not_and]
  intro x hx hk
  have := List.find?_eq_none.mp h x hx
  simp [hk] at this

@[simp] theorem keys_cons (x : Strm) (c : List Strm) : keys (x :: c) = x.key :: keys c := rfl
@[simp] theorem sids_cons (x : Strm) (c : List Strm) : sids (x :: c) = x.sid :: sids c := rfl
@[simp] theorem keys_nil : keys [] = [] := rfl

theorem keys_modifyFirst (p : Strm → Bool) (f : Strm → Strm) (hf : ∀ x, (f x).key = x.key) (c : List Strm) :
    keys (modifyFirst p f c) = keys c := by
  induction c with
  | nil => rfl
  | cons x xs ih => unfold modifyFirst; split <;> simp [hf, ih]

theorem sids_modifyFirst (p : Strm → Bool) (f : Strm → Strm) (hf : ∀ x, (f x).sid = x.sid) (c : List Strm) :
    sids (modifyFirst p f c) = sids c := by
  induction c with
  | nil => rfl
  | cons x xs ih => unfold modifyFirst; split <;> simp [hf, ih]

/-- every element of the modified list is an old element or the image of an old element satisfying `p` -/
theorem mem_modifyFirst {p : Strm → Bool} {f : Strm → Strm} {c : List Strm} {y : Strm}
    (h : y ∈ modifyFirst p f c) : y ∈ c ∨ ∃ x ∈ c, p x = true ∧ y = f x := by
  induction c with
  | nil => simp [modifyFirst] at h
  | cons x xs ih =>
    unfold modifyFirst at h
    split at h
    · rcases List.mem_cons.mp h with h | h
      · exact .inr ⟨x, by simp, by assumption, h⟩
      · exact .inl (by simp [h])
    · rcases List.mem_cons.mp h with h | h
      · exact .inl (by simp [h])
      · rcases ih h with h | ⟨x', hx', hp, hy⟩
        · exact .inl (by simp [h])
        · exact .inr ⟨x', by simp [hx'], hp, hy⟩

/-- if some element satisfies `p`, the modified list contains the image of one -/
theorem modifyFirst_hits {p : Strm → Bool} {f : Strm → Strm} {c : List Strm} {x : Strm}
    (hx : x ∈ c) (hp : p x = true) : ∃ x' ∈ c, p x' = true ∧ f x' ∈ modifyFirst p f c := by
  induction c with
  | nil => simp at hx
  | cons a as ih =>
    unfold modifyFirst
    by_cases ha : p a = true
    · exact ⟨a, by simp, ha, by simp [ha]⟩
    · rcases List.mem_cons.mp hx with h | h
      · subst h; exact absurd hp ha
      · obtain ⟨x', hx', hp', hm⟩ := ih h
        exact ⟨x', by simp [hx'], hp', by simp [ha, hm]⟩

/-! ## log observations under `emit` -/

@[simp] theorem delivered_cons (k : Key) (e : Ev) (l : List Ev) : delivered k (e :: l) = delivered k l ++ e.slice k := rfl
@[simp] theorem opens_cons (k : Key) (e : Ev) (l : List Ev) :
    opens k (e :: l) = opens k l + (if e.isOpen k then 1 else 0) := by
  simp [opens, List.countP_cons]
@[simp] theorem closes_cons (k : Key) (e : Ev) (l : List Ev) :
    closes k (e :: l) = closes k l + (if e.isFullClose k then 1 else 0) := by
  simp [closes, List.countP_cons]

end Hawk.Rio

namespace Hawk.Rio

/-! ## neutral events: calls that neither open, fully close, write nor re-arm a stream -/

def Ev.neutral : Ev → Bool
  | .opn _ _ _ ok => !ok
  | .wr .. => false
  | .rd .. => true
  | .fl .. => true
  | .cl _ _ m ok forced => !(decide (m = .full) && (ok || forced))
  | .nx _ _ r => match r with | .accept _ => false | _ => true

theorem neutral_slice {e : Ev} (h : e.neutral = true) (k : Key) : e.slice k = [] := by
  cases e <;> simp_all [Ev.neutral, Ev.slice]

theorem neutral_isOpen {e : Ev} (h : e.neutral = true) (k : Key) : e.isOpen k = false := by
  cases e with
  | opn sid k' m ok => cases ok <;> simp_all [Ev.neutral, Ev.isOpen]
  | _ => simp [Ev.isOpen]

theorem neutral_isFullClose {e : Ev} (h : e.neutral = true) (k : Key) : e.isFullClose k = false := by
  cases e with
  | cl sid k' m ok forced => cases m <;> simp_all [Ev.neutral, Ev.isFullClose]
  | _ => simp [Ev.isFullClose]

theorem neutral_eofPending {e : Ev} (h : e.neutral = true) (k : Key) (l : List Ev) :
    eofPending k (e :: l) = eofPending k l := by
  cases e with
  | opn => simp [eofPending]
  | wr => simp [Ev.neutral] at h
  | rd => simp [eofPending]
  | fl => simp [eofPending]
  | cl sid k' m ok forced =>
    cases m <;> simp_all [Ev.neutral, eofPending]
  | nx sid k' r => cases r <;> simp_all [Ev.neutral, eofPending]

theorem neutral_nowae {e : Ev} (h : e.neutral = true) (l : List Ev) :
    NoWriteAfterEof (e :: l) ↔ NoWriteAfterEof l := by
  cases e <;> simp_all [Ev.neutral, NoWriteAfterEof]

end Hawk.Rio

namespace Hawk.Rio

/-! ## list surgery: where `find?` stops is where `modifyFirst` / `eraseP` act -/

theorem find_split {p : Strm → Bool} {c : List Strm} {x : Strm} (h : c.find? p = some x) :
    p x = true ∧ ∃ as bs, c = as ++ x :: bs ∧ (∀ a ∈ as, p a = false) := by
  induction c with
  | nil => simp at h
  | cons a as ih =>
    rw [List.find?_cons] at h
    split at h
    next hpa => cases h; exact ⟨hpa, [], as, rfl, by simp⟩
    next hpa =>
      obtain ⟨hp, as', bs, rfl, hall⟩ := ih h
      refine ⟨hp, a :: as', bs, rfl, ?_⟩
      intro y hy
      rcases List.mem_cons.mp hy with rfl | hy
      · exact hpa
      · exact hall y hy

theorem modifyFirst_split {p : Strm → Bool} (f : Strm → Strm) {as bs : List Strm} {x : Strm}
    (hx : p x = true) (hall : ∀ a ∈ as, p a = false) :
    modifyFirst p f (as ++ x :: bs) = as ++ f x :: bs := by
  induction as with
  | nil => simp [modifyFirst, hx]
  | cons a as ih =>
    have ha : p a = false := hall a (by simp)
    simp only [List.cons_append, modifyFirst, ha]
    rw [ih (fun y hy => hall y (by simp [hy]))]
    simp

theorem eraseP_split {p : Strm → Bool} {as bs : List Strm} {x : Strm}
    (hx : p x = true) (hall : ∀ a ∈ as, p a = false) :
    (as ++ x :: bs).eraseP p = as ++ bs := by
  induction as with
  | nil => simp [hx]
  | cons a as ih =>
    have ha : p a = false := hall a (by simp)
    simp only [List.cons_append, List.eraseP_cons, ha]
    rw [ih (fun y hy => hall y (by simp [hy]))]
    simp

@[simp] theorem keys_append (a b : List Strm) : keys (a ++ b) = keys a ++ keys b := by simp [keys]

theorem mem_keys {k : Key} {c : List Strm} : k ∈ keys c ↔ ∃ x ∈ c, x.key = k := by simp [keys]

/-! ## the invariant of reachable states -/

structure Inv (s : St) : Prop where
  /-- at most one node per (type|mask, name) -/
  nodup : (keys s.chain).Nodup
  /-- #OPEN − #full CLOSE is 1 for the keys in the chain and 0 for all others -/
  balance : ∀ k, opens k s.log = closes k s.log + (keys s.chain).count k
  /-- `out.eof` is latched while the handler's "end of stream" stands -/
  latched : ∀ x ∈ s.chain, eofPending x.key s.log = true → x.outEof = true
  /-- keys without a node have no pending "end of stream" -/
  idle : ∀ k, k ∉ keys s.chain → eofPending k s.log = false
  nowae : NoWriteAfterEof s.log

theorem Inv.init : Inv St.init :=
  ⟨by simp [St.init, keys], by simp [St.init, opens, closes, keys], by simp [St.init], by simp [St.init, eofPending],
   by simp [St.init, NoWriteAfterEof]⟩

/-- a neutral handler call, with any chain update that keeps the keys and never clears `out.eof` -/
theorem Inv.neutral {s s' : St} {e : Ev} (h : Inv s) (hlog : s'.log = e :: s.log) (he : e.neutral = true)
    (hkeys : keys s'.chain = keys s.chain)
    (hmono : ∀ y ∈ s'.chain, ∃ x ∈ s.chain, x.key = y.key ∧ (x.outEof = true → y.outEof = true)) : Inv s' := by
  refine ⟨by rw [hkeys]; exact h.nodup, ?_, ?_, ?_, ?_⟩
  · intro k
    rw [hlog, hkeys, opens_cons, closes_cons, neutral_isOpen he, neutral_isFullClose he]
    simpa using h.balance k
  · intro y hy hp
    obtain ⟨x, hx, hk, hm⟩ := hmono y hy
    rw [hlog, neutral_eofPending he, ← hk] at hp
    exact hm (h.latched x hx hp)
  · intro k hk
    rw [hlog, neutral_eofPending he]
    exact h.idle k (by rwa [hkeys] at hk)
  · rw [hlog, neutral_nowae he]; exact h.nowae

/-- neutral call, chain untouched -/
theorem Inv.emit_neutral {s : St} {e : Ev} (h : Inv s) (he : e.neutral = true) : Inv (s.emit e) :=
  h.neutral (s' := s.emit e) rfl he rfl (fun y hy => ⟨y, hy, rfl, id⟩)

/-- neutral call + `modifyFirst` with an update that keeps the key and does not clear `out.eof` -/
theorem Inv.emit_neutral_modify {s : St} {e : Ev} (h : Inv s) (he : e.neutral = true)
    (p : Strm → Bool) (f : Strm → Strm) (hk : ∀ x, (f x).key = x.key) (ho : ∀ x, x.outEof = true → (f x).outEof = true) :
    Inv { s.emit e with chain := modifyFirst p f (s.emit e).chain } := by
  refine h.neutral (e := e) rfl he (keys_modifyFirst p f hk _) ?_
  intro y hy
  rcases mem_modifyFirst hy with hy | ⟨x, hx, -, rfl⟩
  · exact ⟨y, hy, rfl, id⟩
  · exact ⟨x, hx, (hk x).symm, ho x⟩

/-- a successful OPEN of a key that has no node: the new node goes to the head of the chain -/
theorem Inv.opened {s s' : St} {x : Strm} {m : Nat} (h : Inv s) (hnew : x.key ∉ keys s.chain)
    (hlog : s'.log = .opn x.sid x.key m true :: s.log) (hchain : s'.chain = x :: s.chain) : Inv s' := by
  refine ⟨?_, ?_, ?_, ?_, ?_⟩
  · rw [hchain]; simpa using ⟨hnew, h.nodup⟩
  · intro k
    rw [hlog, hchain, opens_cons, closes_cons, h.balance k, keys_cons, List.count_cons]
    by_cases hk : x.key = k
    · subst hk; simp [Ev.isOpen, Ev.isFullClose]; omega
    · simp [Ev.isOpen, Ev.isFullClose, hk]
  · intro y hy hp
    rw [hlog] at hp
    simp only [eofPending] at hp
    rw [hchain] at hy
    rcases List.mem_cons.mp hy with rfl | hy
    · rw [h.idle _ hnew] at hp; cases hp
    · exact h.latched y hy hp
  · intro k hk
    rw [hlog]; simp only [eofPending]
    apply h.idle
    rw [hchain] at hk
    simp at hk ⊢
    exact hk.2
  · rw [hlog]; simpa [NoWriteAfterEof] using h.nowae

/-- a WRITE to the node found under `k`, whose `out.eof` is clear; on `eof` the flag is latched -/
theorem Inv.wrote {s : St} {x : Strm} {k : Key} (h : Inv s) (hf : findKey s.chain k = some x) (hx : x.outEof = false)
    (sid : Nat) (b : Bool) (off : List Char) (r : Reply) :
    Inv (if r = .eof then { s.emit (.wr sid k b off r) with chain := modifyFirst (hasKey k) (fun y => { y with outEof := true }) s.chain }
         else s.emit (.wr sid k b off r)) := by
  obtain ⟨hxm, hxk⟩ := findKey_some hf
  have hnp : eofPending k s.log = false := by
    cases hp : eofPending k s.log with
    | false => rfl
    | true => rw [← hxk] at hp; rw [h.latched x hxm hp] at hx; cases hx
  by_cases hr : r = .eof
  · subst hr
    simp only [if_true]
    obtain ⟨hpx, as, bs, hc, hall⟩ := find_split (p := hasKey k) hf
    have hmod := modifyFirst_split (p := hasKey k) (fun y => { y with outEof := true }) (bs := bs) hpx hall
    rw [← hc] at hmod
    have hkeys : keys (modifyFirst (hasKey k) (fun y => { y with outEof := true }) s.chain) = keys s.chain :=
      keys_modifyFirst (hasKey k) (fun y => { y with outEof := true }) (fun _ => rfl) _
    refine ⟨by simpa [hkeys] using h.nodup, ?_, ?_, ?_, ?_⟩
    · intro k'; simp only [emit_log, opens_cons, closes_cons, hkeys]; simpa [Ev.isOpen, Ev.isFullClose] using h.balance k'
    · intro y hy hp
      simp only [emit_log, eofPending] at hp
      simp only at hy
      rw [hmod] at hy
      have hnd := h.nodup
      rw [hc] at hnd
      simp only [keys_append, keys_cons] at hnd
      rcases List.mem_append.mp hy with hy | hy
      · have hyk : y.key ≠ k := by have := hall y hy; simpa [hasKey] using this
        have : ¬ k = y.key := fun h => hyk h.symm
        simp only [this, if_false] at hp
        exact h.latched y (by rw [hc]; simp [hy]) hp
      · rcases List.mem_cons.mp hy with rfl | hy
        · rfl
        · have hyk : ¬ k = y.key := by
            intro hk
            have hd := (List.nodup_append.mp hnd).2.1
            have := (List.nodup_cons.mp hd).1
            apply this
            rw [hxk, hk]; exact mem_keys.mpr ⟨y, hy, rfl⟩
          simp only [hyk, if_false] at hp
          exact h.latched y (by rw [hc]; simp [hy]) hp
    · intro k' hk'
      simp only [emit_log, eofPending]
      rw [hkeys] at hk'
      have : ¬ k = k' := by
        intro hkk; subst hkk; exact hk' (mem_keys.mpr ⟨x, hxm, hxk⟩)
      simp only [this, if_false]
      exact h.idle k' hk'
    · simp only [emit_log, NoWriteAfterEof]; exact ⟨hnp, h.nowae⟩
  · simp only [hr, if_false]
    have hpe : ∀ k', eofPending k' ((Ev.wr sid k b off r) :: s.log) = eofPending k' s.log := by
      intro k'; cases r <;> simp_all [eofPending]
    refine ⟨h.nodup, ?_, ?_, ?_, ?_⟩
    · intro k'; simp [Ev.isOpen, Ev.isFullClose, h.balance k']
    · intro y hy hp
      simp only [emit_log, hpe] at hp
      exact h.latched y hy hp
    · intro k' hk'
      simp only [emit_log, hpe]; exact h.idle k' hk'
    · simp only [emit_log, NoWriteAfterEof]; exact ⟨hnp, h.nowae⟩

end Hawk.Rio

namespace Hawk.Rio

/-- a successful NEXT on the node under `k` clears its `out.eof` -/
theorem Inv.rearmed {s : St} {k : Key} (h : Inv s) (sid j : Nat) :
    Inv { s.emit (.nx sid k (.accept j)) with chain := modifyFirst (hasKey k) (fun y => { y with outEof := false }) s.chain } := by
  have hkeys : keys (modifyFirst (hasKey k) (fun y => { y with outEof := false }) s.chain) = keys s.chain :=
    keys_modifyFirst (hasKey k) (fun y => { y with outEof := false }) (fun _ => rfl) _
  refine ⟨by simpa [hkeys] using h.nodup, ?_, ?_, ?_, ?_⟩
  · intro k'; simp [Ev.isOpen, Ev.isFullClose, hkeys, h.balance k']
  · intro y hy hp
    simp only [emit_log, eofPending] at hp
    simp only at hy
    by_cases hk : k = y.key
    · simp [hk] at hp
    · simp only [hk, if_false] at hp
      rcases mem_modifyFirst hy with hy | ⟨x, hx, hpx, rfl⟩
      · exact h.latched y hy hp
      · exact absurd ((hasKey_iff k x).mp hpx).symm hk
  · intro k' hk'
    simp only [emit_log, eofPending]
    split
    · rfl
    · exact h.idle k' (by rwa [hkeys] at hk')
  · simpa [NoWriteAfterEof] using h.nowae

/-- a full CLOSE that removes the node `find?` stopped at -/
theorem Inv.closed {s : St} {p : Strm → Bool} {x : Strm} (h : Inv s) (hf : s.chain.find? p = some x)
    (ok forced : Bool) (hof : (ok || forced) = true) :
    Inv { s.emit (.cl x.sid x.key .full ok forced) with chain := s.chain.eraseP p } := by
  obtain ⟨hpx, as, bs, hc, hall⟩ := find_split hf
  have he : s.chain.eraseP p = as ++ bs := by rw [hc]; exact eraseP_split hpx hall
  have hnd := h.nodup
  rw [hc] at hnd
  simp only [keys_append, keys_cons] at hnd
  have hnd' := List.nodup_append.mp hnd
  have hxbs : x.key ∉ keys bs := (List.nodup_cons.mp hnd'.2.1).1
  have hxas : x.key ∉ keys as := fun hm => hnd'.2.2 _ hm _ (by simp) rfl
  have hcount : ∀ k, (keys s.chain).count k = (keys (as ++ bs)).count k + (if x.key = k then 1 else 0) := by
    intro k; rw [hc]; simp only [keys_append, keys_cons, List.count_append, List.count_cons]
    by_cases hk : x.key = k <;> simp [hk] <;> omega
  refine ⟨?_, ?_, ?_, ?_, ?_⟩
  · show (keys (s.chain.eraseP p)).Nodup
    rw [he, keys_append]
    exact List.nodup_append.mpr ⟨hnd'.1, (List.nodup_cons.mp hnd'.2.1).2, fun a ha b hb => hnd'.2.2 a ha b (by simp [hb])⟩
  · intro k
    show opens k (_ :: s.log) = closes k (_ :: s.log) + (keys (s.chain.eraseP p)).count k
    rw [he, opens_cons, closes_cons, h.balance k, hcount k]
    by_cases hk : x.key = k <;> simp [Ev.isOpen, Ev.isFullClose, hk, hof] <;> omega
  · intro y hy hp
    simp only [emit_log, eofPending] at hp
    have hy' : y ∈ as ++ bs := by simpa [he] using hy
    have hyc : y ∈ s.chain := by
      rw [hc]; rcases List.mem_append.mp hy' with h | h <;> simp [h]
    by_cases hk : x.key = y.key
    · simp [hk, hof] at hp
    · simp only [hk, false_and, if_false] at hp
      exact h.latched y hyc hp
  · intro k hk
    simp only [emit_log, eofPending]
    split
    · rfl
    · next hne =>
      apply h.idle
      have hk' : k ∉ keys (as ++ bs) := by simpa [he] using hk
      rw [hc]
      simp only [keys_append, keys_cons, List.mem_append, List.mem_cons, not_or] at hk' ⊢
      refine ⟨hk'.1, ?_, hk'.2⟩
      intro hkx
      exact hne ⟨hkx.symm, hof⟩
  · simpa [NoWriteAfterEof] using h.nowae

end Hawk.Rio

namespace Hawk.Rio

/-! ## the invariant is preserved by every function of the model -/

theorem prepareWrite_inv (ρ : Nat → Reply) {s : St} (ok : OutKind) (name : String) (h : Inv s) :
    Inv (prepareWrite ρ s ok name).1 := by
  unfold prepareWrite
  simp only
  split
  · exact h
  · next hnone =>
    have hnew := findKey_none hnone
    split
    · exact h.emit_neutral rfl
    · exact h.opened (x := { key := ok.key name, mode := ok.mode, sid := s.nopen + 1 }) hnew rfl rfl

theorem prepareWrite_ready (ρ : Nat → Reply) {s : St} {ok : OutKind} {name : String} {x : Strm}
    (hr : (prepareWrite ρ s ok name).2 = .ready x) :
    findKey (prepareWrite ρ s ok name).1.chain (ok.key name) = some x ∧ x.outEof = false ∧ x.outEos = false := by
  cases hfk : findKey s.chain (ok.key name) with
  | some y =>
    simp only [prepareWrite, hfk] at hr ⊢
    split at hr
    · cases hr
    · next hflags =>
      cases hr
      simp only [Bool.or_eq_true, not_or, Bool.not_eq_true] at hflags
      exact ⟨rfl, hflags.2, hflags.1⟩
  | none =>
    simp only [prepareWrite, hfk] at hr ⊢
    split at hr
    · cases hr
    · cases hr
      simp [findKey, hasKey]

theorem writeLoop_inv (ρ : Nat → Reply) (sid : Nat) (key : Key) (b : Bool) (rem : List Char) (s : St) {x : Strm}
    (h : Inv s) (hf : findKey s.chain key = some x) (hx : x.outEof = false) :
    Inv (writeLoop ρ sid key b rem s).1 := by
  fun_induction writeLoop ρ sid key b rem s with
  | case1 s => exact h
  | case2 s c cs hρ => simpa using Inv.wrote h hf hx sid b (c :: cs) .fail
  | case3 s c cs hρ s1 =>
    have := Inv.wrote h hf hx sid b (c :: cs) .eof
    simp only [if_true] at this
    exact this
  | case4 s c cs k hρ ih =>
    apply ih
    · simpa using Inv.wrote h hf hx sid b (c :: cs) (.accept k)
    · simpa using hf

theorem writeio_inv (ρ : Nat → Reply) {s : St} (ok : OutKind) (name : String) (b : Bool) (d : List Char) (h : Inv s) :
    Inv (writeio ρ s ok name b d).1 := by
  unfold writeio
  have hp := prepareWrite_inv ρ ok name h
  split
  · next s1 heq => rw [heq] at hp; exact hp
  · next s1 heq => rw [heq] at hp; exact hp
  · next s1 x heq =>
    have hr := prepareWrite_ready (ρ := ρ) (s := s) (ok := ok) (name := name) (x := x) (by rw [heq])
    rw [heq] at hp hr
    have hk : x.key = ok.key name := (findKey_some hr.1).2
    rw [hk]
    exact writeLoop_inv ρ x.sid (ok.key name) b d s1 hp hr.1 hr.2.1

end Hawk.Rio

namespace Hawk.Rio

theorem flushLoop_inv (ρ : Nat → Reply) (ok : OutKind) (name : Option String) (l : List Strm) (s : St) (found : Bool)
    (h : Inv s) : Inv (flushLoop ρ ok name l s found).1 := by
  induction l generalizing s found with
  | nil => exact h
  | cons x xs ih =>
    unfold flushLoop
    split
    · split
      · exact h.emit_neutral rfl
      · exact ih _ _ (h.emit_neutral rfl)
    · exact ih _ _ h

theorem flushLoop_chain (ρ : Nat → Reply) (ok : OutKind) (name : Option String) (l : List Strm) (s : St) (found : Bool) :
    (flushLoop ρ ok name l s found).1.chain = s.chain := by
  induction l generalizing s found with
  | nil => rfl
  | cons x xs ih =>
    unfold flushLoop
    split
    · split
      · rfl
      · rw [ih]; rfl
    · exact ih _ _

theorem flushio_inv (ρ : Nat → Reply) {s : St} (ok : OutKind) (name : Option String) (h : Inv s) :
    Inv (flushio ρ s ok name).1 := flushLoop_inv ρ ok name _ s false h

theorem nextReq_inv (ρ : Nat → Reply) {s : St} (x : Strm) (h : Inv s) : Inv (nextReq ρ s x).1 := by
  unfold nextReq
  split
  · exact h.emit_neutral rfl
  · exact h.emit_neutral_modify (e := .nx x.sid x.key .eof) rfl _ _ (fun _ => rfl) (fun _ h => h)
  · next k _ => exact h.rearmed x.sid k

theorem nextioWrite_inv (ρ : Nat → Reply) {s : St} (ok : OutKind) (name : String) (h : Inv s) :
    Inv (nextioWrite ρ s ok name).1 := by
  unfold nextioWrite
  split
  · exact h
  · next x hx =>
    split
    · exact h
    · split
      · exact h.emit_neutral rfl
      · exact nextReq_inv ρ x (h.emit_neutral rfl)

/-- a half close is only ever chosen for a two-way pipe with both ends open -/
theorem closeMode_half {opt : Option Bool} {x : Strm} {m : Rwc} (h : closeMode opt x = some m) (hne : m ≠ .full) :
    x.key.mask = .rw ∧ x.rwcstate = .full := by
  unfold closeMode at h
  cases opt with
  | none => simp at h; exact absurd h.symm hne
  | some o =>
    cases o <;> cases hs : x.rwcstate <;> cases hm : x.key.mask <;> simp_all

theorem preFlush_inv (ρ : Nat → Reply) {s : St} (x : Strm) (h : Inv s) : Inv (preFlush ρ s x).1 := by
  unfold preFlush
  split
  · exact h.emit_neutral rfl
  · exact h

theorem preFlush_chain (ρ : Nat → Reply) (s : St) (x : Strm) : (preFlush ρ s x).1.chain = s.chain := by
  unfold preFlush
  split <;> rfl

theorem closeReq_inv (ρ : Nat → Reply) {s : St} (name : String) (opt : Option Bool) (x : Strm) (ffail : Bool)
    (hx : s.chain.find? (closeHit name opt) = some x) (h : Inv s) : Inv (closeReq ρ s name opt x ffail).1 := by
  unfold closeReq
  simp only
  split
  · refine h.emit_neutral ?_
    simp [Ev.neutral]
  · split
    · next hc =>
      refine h.emit_neutral_modify (e := .cl x.sid x.key ((closeMode opt x).getD .full) true false) ?_ _ _ (fun _ => rfl) (fun _ h => h)
      simp [Ev.neutral, hc.2.2]
    · next hc =>
      by_cases hm : (closeMode opt x).getD .full = .full
      · rw [hm]
        exact h.closed hx true false rfl
      · -- a half close that removes the node does not occur
        exfalso
        apply hc
        cases hcm : closeMode opt x with
        | none => simp [hcm] at hm
        | some m =>
          simp only [hcm, Option.getD_some] at hm ⊢
          exact ⟨(closeMode_half hcm hm).1, (closeMode_half hcm hm).2, hm⟩

theorem closeio_inv (ρ : Nat → Reply) {s : St} (name : String) (opt : Option Bool) (h : Inv s) :
    Inv (closeio ρ s name opt).1 := by
  unfold closeio
  split
  · exact h
  · next x hx =>
    exact closeReq_inv ρ name opt x _ (by rw [preFlush_chain]; exact hx) (preFlush_inv ρ x h)

end Hawk.Rio

namespace Hawk.Rio

/-- a successful NEXT on a node whose update keeps key and `out.eof` (the read side clears `in.eof`) -/
theorem Inv.next_ok_keep {s : St} {k : Key} (h : Inv s) (sid j : Nat) (p : Strm → Bool) (f : Strm → Strm)
    (hk : ∀ x, (f x).key = x.key) (ho : ∀ x, (f x).outEof = x.outEof) :
    Inv { s.emit (.nx sid k (.accept j)) with chain := modifyFirst p f s.chain } := by
  have hkeys : keys (modifyFirst p f s.chain) = keys s.chain := keys_modifyFirst p f hk _
  refine ⟨by simpa [hkeys] using h.nodup, ?_, ?_, ?_, ?_⟩
  · intro k'; simp [Ev.isOpen, Ev.isFullClose, hkeys, h.balance k']
  · intro y hy hp
    simp only [emit_log, eofPending] at hp
    simp only at hy
    by_cases hky : k = y.key
    · simp [hky] at hp
    · simp only [hky, if_false] at hp
      rcases mem_modifyFirst hy with hy | ⟨x, hx, -, rfl⟩
      · exact h.latched y hy hp
      · rw [hk x] at hp
        rw [ho x]; exact h.latched x hx hp
  · intro k' hk'
    simp only [emit_log, eofPending]
    split
    · rfl
    · exact h.idle k' (by rwa [hkeys] at hk')
  · simpa [NoWriteAfterEof] using h.nowae

theorem readLoop_inv (ρ : Nat → Reply) (con : Bool) (sid : Nat) (key : Key) (fuel : Nat) (eof : Bool) (s : St)
    (h : Inv s) : Inv (readLoop ρ con sid key fuel eof s).1 := by
  induction fuel generalizing eof s with
  | zero => exact h
  | succ fuel ih =>
    cases eof with
    | true =>
      unfold readLoop
      split
      · exact h
      · split
        · exact h.emit_neutral rfl
        · exact h.emit_neutral_modify (e := .nx sid key .eof) rfl _ _ (fun _ => rfl) (fun _ h => h)
        · next j _ => exact ih _ _ (h.next_ok_keep sid j _ _ (fun _ => rfl) (fun _ => rfl))
    | false =>
      unfold readLoop
      split
      · exact h.emit_neutral rfl
      · exact ih _ _ (h.emit_neutral_modify (e := .rd sid key .eof) rfl _ _ (fun _ => rfl) (fun _ h => h))
      · exact h.emit_neutral rfl

theorem readRec_inv (ρ : Nat → Reply) (fuel : Nat) (con : Bool) (s1 : St) (x : Strm) (h1 : Inv s1) :
    Inv (readRec ρ fuel con s1 x).1 := by
  unfold readRec
  split
  · exact h1
  · exact readLoop_inv ρ con x.sid x.key fuel x.inEof s1 h1

theorem readio_inv (ρ : Nat → Reply) (fuel : Nat) {s : St} (ik : InKind) (name : String) (h : Inv s) :
    Inv (readio ρ fuel s ik name).1 := by
  unfold readio
  simp only
  split
  · next x hx => exact readRec_inv ρ fuel _ s x h
  · next hnone =>
    have hnew := findKey_none hnone
    split
    · exact h.emit_neutral rfl
    · apply readRec_inv
      exact h.opened (x := { key := ik.key name, mode := ik.mode, sid := s.nopen + 1 }) hnew rfl rfl

theorem flushallLoop_inv (ρ : Nat → Reply) (l : List Strm) (s : St) (h : Inv s) : Inv (flushallLoop ρ l s) := by
  induction l generalizing s with
  | nil => exact h
  | cons x xs ih => exact ih _ (h.emit_neutral rfl)

theorem flushallLoop_chain (ρ : Nat → Reply) (l : List Strm) (s : St) : (flushallLoop ρ l s).chain = s.chain := by
  induction l generalizing s with
  | nil => rfl
  | cons x xs ih => unfold flushallLoop; rw [ih]; rfl

theorem flushall_inv (ρ : Nat → Reply) {s : St} (h : Inv s) : Inv (flushall ρ s) := flushallLoop_inv ρ _ s h

theorem clearLoop_inv (ρ : Nat → Reply) (l : List Strm) (s : St) (hl : s.chain = l) (h : Inv s) :
    Inv (clearLoop ρ l s) ∧ (clearLoop ρ l s).chain = [] := by
  induction l generalizing s with
  | nil =>
    unfold clearLoop
    have : ({ s with chain := [] } : St) = s := by cases s; simp_all
    rw [this]; exact ⟨h, hl⟩
  | cons x xs ih =>
    unfold clearLoop
    apply ih
    · rfl
    · have hf : s.chain.find? (fun _ => true) = some x := by rw [hl]; rfl
      have := h.closed hf (!(ρ s.calls).isFail) true (by simp)
      have he : s.chain.eraseP (fun _ => true) = xs := by rw [hl]; rfl
      rw [he] at this
      exact this

theorem clearall_inv (ρ : Nat → Reply) {s : St} (h : Inv s) : Inv (clearall ρ s) ∧ (clearall ρ s).chain = [] :=
  clearLoop_inv ρ _ s rfl h

theorem step_inv (ρ : Nat → Reply) {s : St} (o : Op) (h : Inv s) : Inv (step ρ s o).1 := by
  cases o with
  | write ok name b d => exact writeio_inv ρ ok name b d h
  | flush ok name => exact flushio_inv ρ ok name h
  | next ok name => exact nextioWrite_inv ρ ok name h
  | close name opt => exact closeio_inv ρ name opt h
  | read ik name fuel => exact readio_inv ρ fuel ik name h
  | flushall => exact flushall_inv ρ h

theorem exec_inv (ρ : Nat → Reply) (ops : List Op) {s : St} (h : Inv s) : Inv (exec ρ s ops).1 := by
  induction ops generalizing s with
  | nil => exact h
  | cons o os ih => exact ih (step_inv ρ o h)

theorem writePieces_inv (ρ : Nat → Reply) (tol : Bool) (ok : OutKind) (name : String) (ps : List (Bool × List Char))
    (s : St) (failed : Bool) (h : Inv s) : Inv (writePieces ρ tol ok name ps s failed).1 := by
  induction ps generalizing s failed with
  | nil => exact h
  | cons p ps ih =>
    obtain ⟨b, d⟩ := p
    unfold writePieces
    simp only
    have h1 := writeio_inv ρ ok name b d h
    split
    · split
      · exact ih _ _ h1
      · exact h1
    · exact ih _ _ h1

theorem fflushFold_inv (ρ : Nat → Reply) (name : Option String) (ks : List OutKind) (s : St) (n : Int) (h : Inv s) :
    Inv (fflushFold ρ name ks s n).1 := by
  induction ks generalizing s n with
  | nil => exact h
  | cons k ks ih => exact ih _ _ (flushio_inv ρ k name h)

theorem stmt_inv (ρ : Nat → Reply) (cfg : Cfg) {s : St} (st : Stmt) (h : Inv s) : Inv (stmt ρ cfg s st).1 := by
  cases st with
  | print ok name bytes items =>
    have := writePieces_inv ρ cfg.tolerant ok name (printPieces cfg bytes items) s false h
    simp only [stmt]
    split
    · next s1 heq => rw [heq] at this; exact this
    · next s1 f heq => rw [heq] at this; exact this
  | printf ok name bytes data =>
    simp only [stmt]
    have h1 := writeio_inv ρ ok name bytes data h
    have h2 := flushio_inv ρ ok (some name) h1
    split
    · exact h1
    · split <;> exact h2
  | close name opt => exact closeio_inv ρ name opt h
  | fflush0 => exact flushio_inv ρ .console (some "") h
  | fflush name => exact fflushFold_inv ρ name _ s 1 h
  | getline ik name => exact readio_inv ρ cfg.readFuel ik name h
  | nextofile => exact nextioWrite_inv ρ .console "" h

theorem runStmts_inv (ρ : Nat → Reply) (cfg : Cfg) (prog : List Stmt) {s : St} (h : Inv s) :
    Inv (runStmts ρ cfg prog s).1 := by
  induction prog generalizing s with
  | nil => exact h
  | cons st rest ih =>
    unfold runStmts
    simp only
    split
    · exact stmt_inv ρ cfg st h
    · exact ih (stmt_inv ρ cfg st h)

end Hawk.Rio

namespace Hawk.Rio

/-! ## delivery: what each function adds to `delivered` -/

theorem writeLoop_delivers (ρ : Nat → Reply) (sid : Nat) (key : Key) (b : Bool) (rem : List Char) (s : St) :
    ∃ d, d <+: rem ∧
      (∀ k, delivered k (writeLoop ρ sid key b rem s).1.log = delivered k s.log ++ (if key = k then d else [])) ∧
      ((writeLoop ρ sid key b rem s).2 = 1 → d = rem) ∧
      ((writeLoop ρ sid key b rem s).2 = 1 ∨ (writeLoop ρ sid key b rem s).2 = 0 ∨ (writeLoop ρ sid key b rem s).2 = -1) := by
  fun_induction writeLoop ρ sid key b rem s with
  | case1 s => exact ⟨[], List.prefix_rfl, by simp, by simp, by simp⟩
  | case2 s c cs hρ => exact ⟨[], List.nil_prefix, by simp [Ev.slice], by simp, by simp⟩
  | case3 s c cs hρ s1 => exact ⟨[], List.nil_prefix, by simp [s1, Ev.slice], by simp, by simp⟩
  | case4 s c cs k hρ ih =>
    obtain ⟨d, hd, hdel, hfull, hres⟩ := ih
    refine ⟨(c :: cs).take (k + 1) ++ d, ?_, ?_, ?_, hres⟩
    · obtain ⟨t, ht⟩ := hd
      refine ⟨t, ?_⟩
      simp only [List.take_succ_cons, List.cons_append, List.append_assoc, ht, List.take_append_drop]
    · intro k'
      rw [hdel k']
      by_cases hk : key = k' <;> simp [Ev.slice, hk]
    · intro h1
      rw [hfull h1]
      rw [show cs.drop k = (c :: cs).drop (k + 1) from rfl, List.take_append_drop]

theorem prepareWrite_delivered (ρ : Nat → Reply) (s : St) (ok : OutKind) (name : String) (k : Key) :
    delivered k (prepareWrite ρ s ok name).1.log = delivered k s.log := by
  unfold prepareWrite
  simp only
  split
  · rfl
  · split <;> simp [Ev.slice]

theorem writeio_delivers (ρ : Nat → Reply) (s : St) (ok : OutKind) (name : String) (b : Bool) (data : List Char) :
    ∃ d, d <+: data ∧
      (∀ k, delivered k (writeio ρ s ok name b data).1.log = delivered k s.log ++ (if ok.key name = k then d else [])) ∧
      ((writeio ρ s ok name b data).2 = 1 → d = data) ∧
      ((writeio ρ s ok name b data).2 = 1 ∨ (writeio ρ s ok name b data).2 = 0 ∨ (writeio ρ s ok name b data).2 = -1) := by
  unfold writeio
  have hp := prepareWrite_delivered ρ s ok name
  split
  · next s1 heq => rw [heq] at hp; exact ⟨[], List.nil_prefix, by simpa using hp, by simp, by simp⟩
  · next s1 heq => rw [heq] at hp; exact ⟨[], List.nil_prefix, by simpa using hp, by simp, by simp⟩
  · next s1 x heq =>
    have hr := prepareWrite_ready (ρ := ρ) (s := s) (ok := ok) (name := name) (x := x) (by rw [heq])
    rw [heq] at hp hr
    have hk : x.key = ok.key name := (findKey_some hr.1).2
    obtain ⟨d, hd, hdel, hfull, hres⟩ := writeLoop_delivers ρ x.sid x.key b data s1
    refine ⟨d, hd, ?_, hfull, hres⟩
    intro k
    rw [hdel k, hp k, hk]

theorem flushLoop_delivered (ρ : Nat → Reply) (ok : OutKind) (name : Option String) (l : List Strm) (s : St) (found : Bool)
    (k : Key) : delivered k (flushLoop ρ ok name l s found).1.log = delivered k s.log := by
  induction l generalizing s found with
  | nil => rfl
  | cons x xs ih =>
    unfold flushLoop
    split
    · split
      · simp [Ev.slice]
      · rw [ih]; simp [Ev.slice]
    · exact ih _ _

theorem nextReq_delivered (ρ : Nat → Reply) (s : St) (x : Strm) (k : Key) :
    delivered k (nextReq ρ s x).1.log = delivered k s.log := by
  unfold nextReq
  split <;> simp [Ev.slice]

theorem nextioWrite_delivered (ρ : Nat → Reply) (s : St) (ok : OutKind) (name : String) (k : Key) :
    delivered k (nextioWrite ρ s ok name).1.log = delivered k s.log := by
  unfold nextioWrite
  split
  · rfl
  · split
    · rfl
    · split
      · simp [Ev.slice]
      · rw [nextReq_delivered]; simp [Ev.slice]

theorem preFlush_delivered (ρ : Nat → Reply) (s : St) (x : Strm) (k : Key) :
    delivered k (preFlush ρ s x).1.log = delivered k s.log := by
  unfold preFlush
  split <;> simp [Ev.slice]

theorem closeReq_delivered (ρ : Nat → Reply) (s : St) (name : String) (opt : Option Bool) (x : Strm) (ffail : Bool)
    (k : Key) : delivered k (closeReq ρ s name opt x ffail).1.log = delivered k s.log := by
  unfold closeReq
  simp only
  split
  · simp [Ev.slice]
  · split <;> simp [Ev.slice]

theorem closeio_delivered (ρ : Nat → Reply) (s : St) (name : String) (opt : Option Bool) (k : Key) :
    delivered k (closeio ρ s name opt).1.log = delivered k s.log := by
  unfold closeio
  split
  · rfl
  · rw [closeReq_delivered, preFlush_delivered]

theorem readLoop_delivered (ρ : Nat → Reply) (con : Bool) (sid : Nat) (key : Key) (fuel : Nat) (eof : Bool) (s : St)
    (k : Key) : delivered k (readLoop ρ con sid key fuel eof s).1.log = delivered k s.log := by
  induction fuel generalizing eof s with
  | zero => rfl
  | succ fuel ih =>
    cases eof with
    | true =>
      unfold readLoop
      split
      · rfl
      · split
        · simp [Ev.slice]
        · simp [Ev.slice]
        · rw [ih]; simp [Ev.slice]
    | false =>
      unfold readLoop
      split
      · simp [Ev.slice]
      · rw [ih]; simp [Ev.slice]
      · simp [Ev.slice]

theorem readRec_delivered (ρ : Nat → Reply) (fuel : Nat) (con : Bool) (s : St) (x : Strm) (k : Key) :
    delivered k (readRec ρ fuel con s x).1.log = delivered k s.log := by
  unfold readRec
  split
  · rfl
  · exact readLoop_delivered ρ con x.sid x.key fuel x.inEof s k

theorem readio_delivered (ρ : Nat → Reply) (fuel : Nat) (s : St) (ik : InKind) (name : String) (k : Key) :
    delivered k (readio ρ fuel s ik name).1.log = delivered k s.log := by
  unfold readio
  simp only
  split
  · exact readRec_delivered ρ fuel _ s _ k
  · split
    · simp [Ev.slice]
    · rw [readRec_delivered]; simp [Ev.slice]

theorem flushallLoop_delivered (ρ : Nat → Reply) (l : List Strm) (s : St) (k : Key) :
    delivered k (flushallLoop ρ l s).log = delivered k s.log := by
  induction l generalizing s with
  | nil => rfl
  | cons x xs ih => unfold flushallLoop; rw [ih]; simp [Ev.slice]

theorem clearLoop_delivered (ρ : Nat → Reply) (l : List Strm) (s : St) (k : Key) :
    delivered k (clearLoop ρ l s).log = delivered k s.log := by
  induction l generalizing s with
  | nil => rfl
  | cons x xs ih => unfold clearLoop; rw [ih]; simp [Ev.slice]

end Hawk.Rio

namespace Hawk.Rio

/-! ## a handler that always accepts: no stream ever reaches "end of stream", every write returns 1 -/

def NoFlags (s : St) : Prop := ∀ x ∈ s.chain, x.outEof = false ∧ x.outEos = false

theorem NoFlags.modify {s : St} (h : NoFlags s) (p : Strm → Bool) (f : Strm → Strm)
    (hf : ∀ x, x.outEof = false ∧ x.outEos = false → (f x).outEof = false ∧ (f x).outEos = false)
    {s' : St} (hc : s'.chain = modifyFirst p f s.chain) : NoFlags s' := by
  intro y hy
  rw [hc] at hy
  rcases mem_modifyFirst hy with hy | ⟨x, hx, -, rfl⟩
  · exact h y hy
  · exact hf x (h x hx)

theorem NoFlags.same {s s' : St} (h : NoFlags s) (hc : s'.chain = s.chain) : NoFlags s' := by
  intro y hy; rw [hc] at hy; exact h y hy

theorem writeLoop_allAccept {ρ : Nat → Reply} (hρ : AllAccept ρ) (sid : Nat) (key : Key) (b : Bool) (rem : List Char) (s : St) :
    (writeLoop ρ sid key b rem s).2 = 1 ∧ (writeLoop ρ sid key b rem s).1.chain = s.chain := by
  fun_induction writeLoop ρ sid key b rem s with
  | case1 s => exact ⟨rfl, rfl⟩
  | case2 s c cs h => obtain ⟨k, hk⟩ := hρ s.calls; rw [hk] at h; cases h
  | case3 s c cs h => obtain ⟨k, hk⟩ := hρ s.calls; rw [hk] at h; cases h
  | case4 s c cs k h ih => exact ⟨ih.1, by rw [ih.2]; rfl⟩

theorem writeio_allAccept {ρ : Nat → Reply} (hρ : AllAccept ρ) {s : St} (hn : NoFlags s) (ok : OutKind) (name : String)
    (b : Bool) (d : List Char) : (writeio ρ s ok name b d).2 = 1 ∧ NoFlags (writeio ρ s ok name b d).1 := by
  unfold writeio prepareWrite
  simp only
  cases hf : findKey s.chain (ok.key name) with
  | some x =>
    have hx := hn x (findKey_some hf).1
    simp only [hx.1, hx.2, Bool.or_self, Bool.false_eq_true, if_false]
    have := writeLoop_allAccept hρ x.sid x.key b d s
    exact ⟨this.1, hn.same this.2⟩
  | none =>
    obtain ⟨k, hk⟩ := hρ s.calls
    simp only [hk]
    have := writeLoop_allAccept hρ (s.nopen + 1) (ok.key name) b d
      { s.emit (.opn (s.nopen + 1) (ok.key name) ok.mode true) with
        chain := { key := ok.key name, mode := ok.mode, sid := s.nopen + 1 } :: s.chain, nopen := s.nopen + 1 }
    refine ⟨this.1, ?_⟩
    intro y hy
    rw [this.2] at hy
    rcases List.mem_cons.mp hy with rfl | hy
    · exact ⟨rfl, rfl⟩
    · exact hn y hy

theorem flushio_noFlags (ρ : Nat → Reply) {s : St} (hn : NoFlags s) (ok : OutKind) (name : Option String) :
    NoFlags (flushio ρ s ok name).1 := hn.same (flushLoop_chain ρ ok name _ s false)

theorem nextioWrite_noFlags {ρ : Nat → Reply} (hρ : AllAccept ρ) {s : St} (hn : NoFlags s) (ok : OutKind) (name : String) :
    NoFlags (nextioWrite ρ s ok name).1 := by
  unfold nextioWrite
  split
  · exact hn
  · next x hx =>
    split
    · exact hn
    · split
      · exact hn.same rfl
      · unfold nextReq
        obtain ⟨k, hk⟩ := hρ (s.emit (.fl x.sid x.key true)).calls
        simp only [hk]
        exact hn.modify (hasKey x.key) (fun y => { y with outEof := false }) (fun x h => ⟨rfl, h.2⟩) rfl

theorem closeio_noFlags (ρ : Nat → Reply) {s : St} (hn : NoFlags s) (name : String) (opt : Option Bool) :
    NoFlags (closeio ρ s name opt).1 := by
  unfold closeio
  split
  · exact hn
  · next x hx =>
    have hn0 : NoFlags (preFlush ρ s x).1 := hn.same (preFlush_chain ρ s x)
    unfold closeReq
    simp only
    split
    · exact hn0.same rfl
    · split
      · refine hn0.modify _ _ ?_ rfl
        intro x h; exact h
      · intro y hy
        exact hn0 y (List.mem_of_mem_eraseP hy)

theorem readLoop_noFlags (ρ : Nat → Reply) (con : Bool) (sid : Nat) (key : Key) (fuel : Nat) (eof : Bool) {s : St}
    (hn : NoFlags s) : NoFlags (readLoop ρ con sid key fuel eof s).1 := by
  induction fuel generalizing eof s with
  | zero => exact hn
  | succ fuel ih =>
    cases eof with
    | true =>
      unfold readLoop
      split
      · exact hn
      · split
        · exact hn.same rfl
        · refine hn.modify _ _ ?_ rfl
          intro x h; exact h
        · apply ih
          refine hn.modify _ _ ?_ rfl
          intro x h; exact h
    | false =>
      unfold readLoop
      split
      · exact hn.same rfl
      · apply ih
        refine hn.modify _ _ ?_ rfl
        intro x h; exact h
      · exact hn.same rfl

theorem readRec_noFlags (ρ : Nat → Reply) (fuel : Nat) (con : Bool) {s : St} (hn : NoFlags s) (x : Strm) :
    NoFlags (readRec ρ fuel con s x).1 := by
  unfold readRec
  split
  · exact hn
  · exact readLoop_noFlags ρ con x.sid x.key fuel x.inEof hn

theorem readio_noFlags (ρ : Nat → Reply) (fuel : Nat) {s : St} (hn : NoFlags s) (ik : InKind) (name : String) :
    NoFlags (readio ρ fuel s ik name).1 := by
  unfold readio
  simp only
  split
  · exact readRec_noFlags ρ fuel _ hn _
  · split
    · exact hn.same rfl
    · apply readRec_noFlags
      intro y hy
      rcases List.mem_cons.mp hy with rfl | hy
      · exact ⟨rfl, rfl⟩
      · exact hn y hy

theorem flushall_noFlags (ρ : Nat → Reply) {s : St} (hn : NoFlags s) : NoFlags (flushall ρ s) :=
  hn.same (flushallLoop_chain ρ _ s)

theorem step_noFlags {ρ : Nat → Reply} (hρ : AllAccept ρ) {s : St} (hn : NoFlags s) (o : Op) : NoFlags (step ρ s o).1 := by
  cases o with
  | write ok name b d => exact (writeio_allAccept hρ hn ok name b d).2
  | flush ok name => exact flushio_noFlags ρ hn ok name
  | next ok name => exact nextioWrite_noFlags hρ hn ok name
  | close name opt => exact closeio_noFlags ρ hn name opt
  | read ik name fuel => exact readio_noFlags ρ fuel hn ik name
  | flushall => exact flushall_noFlags ρ hn

theorem noFlags_init : NoFlags St.init := by intro x hx; simp [St.init] at hx

end Hawk.Rio

namespace Hawk.Rio

/-! ## a failing handler call surfaces in the result of the function that made it -/

/-- some call with number in `[a, b)` is answered `fail` -/
def FailedIn (ρ : Nat → Reply) (a b : Nat) : Prop := ∃ i, a ≤ i ∧ i < b ∧ ρ i = .fail

theorem failedBetween_iff (ρ : Nat → Reply) (s s' : St) : FailedBetween ρ s s' ↔ FailedIn ρ s.calls s'.calls := Iff.rfl

theorem FailedIn.empty {ρ : Nat → Reply} {a : Nat} : ¬ FailedIn ρ a a := by
  rintro ⟨i, h1, h2, -⟩; omega

theorem FailedIn.one {ρ : Nat → Reply} {a : Nat} (h : FailedIn ρ a (a + 1)) : ρ a = .fail := by
  obtain ⟨i, h1, h2, h3⟩ := h
  have : i = a := by omega
  subst this; exact h3

theorem FailedIn.split {ρ : Nat → Reply} {a c : Nat} (b : Nat) (h : FailedIn ρ a c) : FailedIn ρ a b ∨ FailedIn ρ b c := by
  obtain ⟨i, h1, h2, h3⟩ := h
  by_cases hi : i < b
  · exact .inl ⟨i, h1, hi, h3⟩
  · exact .inr ⟨i, by omega, h2, h3⟩

theorem FailedIn.first {ρ : Nat → Reply} {a c : Nat} (h : FailedIn ρ a c) (hne : ρ a ≠ .fail) : FailedIn ρ (a + 1) c := by
  obtain ⟨i, h1, h2, h3⟩ := h
  have : i ≠ a := by rintro rfl; exact hne h3
  exact ⟨i, by omega, h2, h3⟩

theorem writeLoop_fail (ρ : Nat → Reply) (sid : Nat) (key : Key) (b : Bool) (rem : List Char) (s : St) :
    s.calls ≤ (writeLoop ρ sid key b rem s).1.calls ∧
    (FailedIn ρ s.calls (writeLoop ρ sid key b rem s).1.calls → (writeLoop ρ sid key b rem s).2 = -1) := by
  fun_induction writeLoop ρ sid key b rem s with
  | case1 s => exact ⟨Nat.le_refl _, fun h => absurd h FailedIn.empty⟩
  | case2 s c cs hρ => exact ⟨by simp, fun _ => rfl⟩
  | case3 s c cs hρ s1 =>
    refine ⟨by simp [s1], fun h => ?_⟩
    have := FailedIn.one (a := s.calls) (by simpa [s1] using h)
    rw [this] at hρ; cases hρ
  | case4 s c cs k hρ ih =>
    refine ⟨by have := ih.1; simp at this; omega, fun h => ?_⟩
    apply ih.2
    have := FailedIn.first h (by rw [hρ]; simp)
    simpa using this

theorem prepareWrite_fail (ρ : Nat → Reply) (s : St) (ok : OutKind) (name : String) :
    s.calls ≤ (prepareWrite ρ s ok name).1.calls ∧
    (FailedIn ρ s.calls (prepareWrite ρ s ok name).1.calls → (prepareWrite ρ s ok name).2 = .err) := by
  unfold prepareWrite
  simp only
  split
  · exact ⟨Nat.le_refl _, fun h => absurd h FailedIn.empty⟩
  · split
    · exact ⟨by simp, fun _ => rfl⟩
    · next hne =>
      refine ⟨by simp, fun h => ?_⟩
      have := FailedIn.one (a := s.calls) (by simpa using h)
      exact absurd this hne

theorem writeio_fail (ρ : Nat → Reply) (s : St) (ok : OutKind) (name : String) (b : Bool) (d : List Char) :
    s.calls ≤ (writeio ρ s ok name b d).1.calls ∧
    (FailedIn ρ s.calls (writeio ρ s ok name b d).1.calls → (writeio ρ s ok name b d).2 = -1) := by
  unfold writeio
  have hp := prepareWrite_fail ρ s ok name
  split
  · next s1 heq => rw [heq] at hp; exact ⟨hp.1, fun _ => rfl⟩
  · next s1 heq => rw [heq] at hp; exact ⟨hp.1, fun h => by have := hp.2 h; cases this⟩
  · next s1 x heq =>
    rw [heq] at hp
    have hl := writeLoop_fail ρ x.sid x.key b d s1
    refine ⟨Nat.le_trans hp.1 hl.1, fun h => ?_⟩
    rcases h.split s1.calls with h | h
    · have := hp.2 h; cases this
    · exact hl.2 h

theorem flushLoop_fail (ρ : Nat → Reply) (ok : OutKind) (name : Option String) (l : List Strm) (s : St) (found : Bool) :
    s.calls ≤ (flushLoop ρ ok name l s found).1.calls ∧
    (FailedIn ρ s.calls (flushLoop ρ ok name l s found).1.calls → (flushLoop ρ ok name l s found).2 = .herr) := by
  induction l generalizing s found with
  | nil => exact ⟨Nat.le_refl _, fun h => absurd h FailedIn.empty⟩
  | cons x xs ih =>
    unfold flushLoop
    split
    · split
      · exact ⟨by simp, fun _ => rfl⟩
      · next hne =>
        have := ih (s.emit (.fl x.sid x.key true)) true
        refine ⟨by have := this.1; simp at this; omega, fun h => this.2 ?_⟩
        simpa using FailedIn.first h hne
    · exact ih s found

theorem flushio_fail (ρ : Nat → Reply) (s : St) (ok : OutKind) (name : Option String) :
    s.calls ≤ (flushio ρ s ok name).1.calls ∧
    (FailedIn ρ s.calls (flushio ρ s ok name).1.calls → (flushio ρ s ok name).2 = .herr) :=
  flushLoop_fail ρ ok name _ s false

theorem nextReq_fail (ρ : Nat → Reply) (s : St) (x : Strm) :
    s.calls ≤ (nextReq ρ s x).1.calls ∧
    (FailedIn ρ s.calls (nextReq ρ s x).1.calls → (nextReq ρ s x).2 = -1) := by
  unfold nextReq
  split
  · exact ⟨by simp, fun _ => rfl⟩
  · next hρ =>
    refine ⟨by simp, fun h => ?_⟩
    have := FailedIn.one (a := s.calls) (by simpa using h)
    rw [this] at hρ; cases hρ
  · next hρ =>
    refine ⟨by simp, fun h => ?_⟩
    have := FailedIn.one (a := s.calls) (by simpa using h)
    rw [this] at hρ; cases hρ

/-- prefix one non-failing call (number `a`) to a "fail ⇒ -1" fact -/
theorem fail_step {ρ : Nat → Reply} {a : Nat} {r : St × Int} {s1 : St} (ha : s1.calls = a + 1) (hne : ρ a ≠ .fail)
    (h : s1.calls ≤ r.1.calls ∧ (FailedIn ρ s1.calls r.1.calls → r.2 = -1)) :
    a ≤ r.1.calls ∧ (FailedIn ρ a r.1.calls → r.2 = -1) := by
  refine ⟨by omega, fun hf => h.2 ?_⟩
  rw [ha]; exact FailedIn.first hf hne

theorem nextioWrite_fail (ρ : Nat → Reply) (s : St) (ok : OutKind) (name : String) :
    s.calls ≤ (nextioWrite ρ s ok name).1.calls ∧
    (FailedIn ρ s.calls (nextioWrite ρ s ok name).1.calls → (nextioWrite ρ s ok name).2 = -1) := by
  unfold nextioWrite
  split
  · exact ⟨Nat.le_refl _, fun _ => rfl⟩
  · next x _ =>
    split
    · exact ⟨Nat.le_refl _, fun h => absurd h FailedIn.empty⟩
    · split
      · exact ⟨by simp, fun _ => rfl⟩
      · next hne => exact fail_step (s1 := s.emit (.fl x.sid x.key true)) rfl hne (nextReq_fail ρ _ x)

theorem closeReq_fail (ρ : Nat → Reply) (s : St) (name : String) (opt : Option Bool) (x : Strm) (ffail : Bool) :
    s.calls ≤ (closeReq ρ s name opt x ffail).1.calls ∧
    (ffail = true ∨ FailedIn ρ s.calls (closeReq ρ s name opt x ffail).1.calls → (closeReq ρ s name opt x ffail).2 = -1) := by
  unfold closeReq
  simp only
  split
  · exact ⟨by simp, fun _ => rfl⟩
  · next hne =>
    have hno : ¬ FailedIn ρ s.calls (s.calls + 1) := fun h => hne (FailedIn.one h)
    split
    · refine ⟨by simp, fun h => ?_⟩
      rcases h with h | h
      · simp [h]
      · exact absurd (by simpa using h) hno
    · refine ⟨by simp, fun h => ?_⟩
      rcases h with h | h
      · simp [h]
      · exact absurd (by simpa using h) hno

theorem closeio_fail (ρ : Nat → Reply) (s : St) (name : String) (opt : Option Bool) :
    s.calls ≤ (closeio ρ s name opt).1.calls ∧
    (FailedIn ρ s.calls (closeio ρ s name opt).1.calls → (closeio ρ s name opt).2 = -1) := by
  unfold closeio
  split
  · exact ⟨Nat.le_refl _, fun _ => rfl⟩
  · next x _ =>
    have hc := closeReq_fail ρ (preFlush ρ s x).1 name opt x (preFlush ρ s x).2
    have hp : s.calls ≤ (preFlush ρ s x).1.calls ∧
        (FailedIn ρ s.calls (preFlush ρ s x).1.calls → (preFlush ρ s x).2 = true) := by
      unfold preFlush
      split
      · refine ⟨by simp, fun h => ?_⟩
        have := FailedIn.one (a := s.calls) (by simpa using h)
        simp [this, Reply.isFail]
      · exact ⟨Nat.le_refl _, fun h => absurd h FailedIn.empty⟩
    refine ⟨Nat.le_trans hp.1 hc.1, fun h => hc.2 ?_⟩
    rcases h.split (preFlush ρ s x).1.calls with h | h
    · exact .inl (hp.2 h)
    · exact .inr h

theorem readLoop_fail (ρ : Nat → Reply) (con : Bool) (sid : Nat) (key : Key) (fuel : Nat) (eof : Bool) (s : St) :
    s.calls ≤ (readLoop ρ con sid key fuel eof s).1.calls ∧
    (FailedIn ρ s.calls (readLoop ρ con sid key fuel eof s).1.calls → (readLoop ρ con sid key fuel eof s).2 = -1) := by
  induction fuel generalizing eof s with
  | zero => exact ⟨Nat.le_refl _, fun h => absurd h FailedIn.empty⟩
  | succ fuel ih =>
    cases eof with
    | true =>
      unfold readLoop
      split
      · exact ⟨Nat.le_refl _, fun h => absurd h FailedIn.empty⟩
      · split
        · exact ⟨by simp, fun _ => rfl⟩
        · next hρ =>
          refine ⟨by simp, fun h => ?_⟩
          have := FailedIn.one (a := s.calls) (by simpa using h)
          rw [this] at hρ; cases hρ
        · next j hρ =>
          refine fail_step ?_ ?_ (ih _ _)
          · rfl
          · rw [hρ]; simp
    | false =>
      unfold readLoop
      split
      · exact ⟨by simp, fun _ => rfl⟩
      · next hρ =>
        refine fail_step ?_ ?_ (ih _ _)
        · rfl
        · rw [hρ]; simp
      · next hρ =>
        refine ⟨by simp, fun h => ?_⟩
        have := FailedIn.one (a := s.calls) (by simpa using h)
        rw [this] at hρ; cases hρ

theorem readRec_fail (ρ : Nat → Reply) (fuel : Nat) (con : Bool) (s : St) (x : Strm) :
    s.calls ≤ (readRec ρ fuel con s x).1.calls ∧
    (FailedIn ρ s.calls (readRec ρ fuel con s x).1.calls → (readRec ρ fuel con s x).2 = -1) := by
  unfold readRec
  split
  · exact ⟨Nat.le_refl _, fun h => absurd h FailedIn.empty⟩
  · exact readLoop_fail ρ con x.sid x.key fuel x.inEof s

theorem readRec_fail' (ρ : Nat → Reply) (fuel : Nat) (con : Bool) (s1 : St) (x : Strm) (a : Nat) (ha : s1.calls = a + 1)
    (hne : ρ a ≠ .fail) :
    a ≤ (readRec ρ fuel con s1 x).1.calls ∧
    (FailedIn ρ a (readRec ρ fuel con s1 x).1.calls → (readRec ρ fuel con s1 x).2 = -1) := by
  have := readRec_fail ρ fuel con s1 x
  refine ⟨by omega, fun h => this.2 ?_⟩
  rw [ha]; exact FailedIn.first h hne

theorem readio_fail (ρ : Nat → Reply) (fuel : Nat) (s : St) (ik : InKind) (name : String) :
    s.calls ≤ (readio ρ fuel s ik name).1.calls ∧
    (FailedIn ρ s.calls (readio ρ fuel s ik name).1.calls → (readio ρ fuel s ik name).2 = -1) := by
  unfold readio
  simp only
  split
  · exact readRec_fail ρ fuel _ s _
  · split
    · exact ⟨by simp, fun _ => rfl⟩
    · next hne => exact readRec_fail' ρ fuel _ _ _ s.calls rfl hne

end Hawk.Rio

namespace Hawk.Rio

theorem writePieces_fail (ρ : Nat → Reply) (tol : Bool) (ok : OutKind) (name : String) (ps : List (Bool × List Char))
    (s : St) (failed : Bool) :
    s.calls ≤ (writePieces ρ tol ok name ps s failed).1.calls ∧
    (failed = true ∨ FailedIn ρ s.calls (writePieces ρ tol ok name ps s failed).1.calls →
      (writePieces ρ tol ok name ps s failed).2 = none ∨ (writePieces ρ tol ok name ps s failed).2 = some true) := by
  induction ps generalizing s failed with
  | nil =>
    refine ⟨Nat.le_refl _, fun h => ?_⟩
    rcases h with h | h
    · right; simp [writePieces, h]
    · exact absurd h FailedIn.empty
  | cons p ps ih =>
    obtain ⟨b, d⟩ := p
    have hw := writeio_fail ρ s ok name b d
    unfold writePieces
    simp only
    split
    · split
      · have := ih (writeio ρ s ok name b d).1 true
        exact ⟨Nat.le_trans hw.1 this.1, fun _ => this.2 (.inl rfl)⟩
      · exact ⟨hw.1, fun _ => .inl rfl⟩
    · next hnot =>
      have := ih (writeio ρ s ok name b d).1 failed
      refine ⟨Nat.le_trans hw.1 this.1, fun h => this.2 ?_⟩
      rcases h with h | h
      · exact .inl h
      · rcases h.split (writeio ρ s ok name b d).1.calls with h | h
        · have := hw.2 h; rw [this] at hnot; exact absurd (by decide) hnot
        · exact .inr h

theorem fflushFold_fail (ρ : Nat → Reply) (name : Option String) (ks : List OutKind) (s : St) (n : Int) :
    s.calls ≤ (fflushFold ρ name ks s n).1.calls ∧
    (n = -1 ∨ FailedIn ρ s.calls (fflushFold ρ name ks s n).1.calls → (fflushFold ρ name ks s n).2 = -1) := by
  induction ks generalizing s n with
  | nil =>
    refine ⟨Nat.le_refl _, fun h => ?_⟩
    rcases h with h | h
    · simpa [fflushFold] using h
    · exact absurd h FailedIn.empty
  | cons k ks ih =>
    have hf := flushio_fail ρ s k name
    unfold fflushFold
    simp only
    refine ⟨Nat.le_trans hf.1 (ih _ _).1, fun h => (ih _ _).2 ?_⟩
    rcases h with h | h
    · left; subst h; cases (flushio ρ s k name).2 <;> simp
    · rcases h.split (flushio ρ s k name).1.calls with h | h
      · left; rw [hf.2 h]
      · exact .inr h

theorem stmt_fail (ρ : Nat → Reply) (cfg : Cfg) (s : St) (st : Stmt) :
    s.calls ≤ (stmt ρ cfg s st).1.calls ∧
    (FailedIn ρ s.calls (stmt ρ cfg s st).1.calls → (stmt ρ cfg s st).2 = .runerr ∨ (stmt ρ cfg s st).2 = .val (-1)) := by
  cases st with
  | print ok name bytes items =>
    have := writePieces_fail ρ cfg.tolerant ok name (printPieces cfg bytes items) s false
    simp only [stmt]
    split
    · next s1 heq => rw [heq] at this; exact ⟨this.1, fun _ => .inl rfl⟩
    · next s1 f heq =>
      rw [heq] at this
      refine ⟨this.1, fun h => ?_⟩
      have hf := this.2 (.inr h)
      simp only [reduceCtorEq, Option.some.injEq, false_or] at hf
      subst hf
      -- `some true` only arises in tolerant mode
      have htol : cfg.tolerant = true := by
        cases ht : cfg.tolerant with
        | true => rfl
        | false =>
          exfalso
          -- in non-tolerant mode writePieces never returns `some true` from `failed = false`
          have key : ∀ (ps : List (Bool × List Char)) (s : St),
              (writePieces ρ false ok name ps s false).2 ≠ some true := by
            intro ps
            induction ps with
            | nil => intro s; simp [writePieces]
            | cons p ps ih =>
              intro s; obtain ⟨b, d⟩ := p
              unfold writePieces; simp only
              split
              · simp
              · exact ih _
          rw [ht] at heq
          exact key _ s (by rw [heq])
      right; simp [htol]
  | printf ok name bytes data =>
    have hw := writeio_fail ρ s ok name bytes data
    have hf := flushio_fail ρ (writeio ρ s ok name bytes data).1 ok (some name)
    simp only [stmt]
    split
    · exact ⟨hw.1, fun _ => .inl rfl⟩
    · next h1 =>
      split
      · exact ⟨Nat.le_trans hw.1 hf.1, fun _ => .inl rfl⟩
      · next h2 =>
        refine ⟨Nat.le_trans hw.1 hf.1, fun h => ?_⟩
        cases ht : cfg.tolerant with
        | false =>
          exfalso
          simp only [ht, Bool.not_false, and_true] at h1 h2
          rcases h.split (writeio ρ s ok name bytes data).1.calls with h | h
          · have := hw.2 h; omega
          · have := hf.2 h; exact h2 (by rw [this]; simp)
        | true =>
          right
          simp only [if_true]
          rcases h.split (writeio ρ s ok name bytes data).1.calls with h | h
          · have := hw.2 h; simp [this]
          · have := hf.2 h; simp [this]
  | close name opt =>
    have := closeio_fail ρ s name opt
    exact ⟨this.1, fun h => .inr (by simp [stmt, this.2 h])⟩
  | fflush0 =>
    have := flushio_fail ρ s .console (some "")
    exact ⟨this.1, fun h => .inr (by simp [stmt, this.2 h, FlushRes.code])⟩
  | fflush name =>
    have := fflushFold_fail ρ name [.file, .apfile, .pipe, .rwpipe] s 1
    exact ⟨this.1, fun h => .inr (by simp [stmt, this.2 (.inr h)])⟩
  | getline ik name =>
    have := readio_fail ρ cfg.readFuel s ik name
    exact ⟨this.1, fun h => .inr (by simp [stmt, this.2 h])⟩
  | nextofile =>
    have := nextioWrite_fail ρ s .console ""
    exact ⟨this.1, fun h => .inl (by simp [stmt, this.2 h])⟩

end Hawk.Rio

namespace Hawk.Rio

/-! ## end of run: `flushall` issues a FLUSH to every node after its last WRITE -/

theorem flushallLoop_keeps (ρ : Nat → Reply) (l : List Strm) (s : St) (sid : Nat)
    (h : flushedSinceWrite sid s.log = true) : flushedSinceWrite sid (flushallLoop ρ l s).log = true := by
  induction l generalizing s with
  | nil => exact h
  | cons x xs ih =>
    unfold flushallLoop
    apply ih
    simp only [emit_log, flushedSinceWrite]
    split
    · rfl
    · exact h

theorem flushallLoop_flushes (ρ : Nat → Reply) (l : List Strm) (s : St) (x : Strm) (hx : x ∈ l) :
    flushedSinceWrite x.sid (flushallLoop ρ l s).log = true := by
  induction l generalizing s with
  | nil => simp at hx
  | cons y ys ih =>
    unfold flushallLoop
    rcases List.mem_cons.mp hx with rfl | hx
    · apply flushallLoop_keeps
      simp [flushedSinceWrite]
    · exact ih _ hx

/-! ## "end of stream" -/

theorem writeLoop_zero (ρ : Nat → Reply) (sid : Nat) (key : Key) (b : Bool) (rem : List Char) (s : St)
    (hz : (writeLoop ρ sid key b rem s).2 = 0) (hx : ∃ x ∈ s.chain, x.key = key) :
    ∃ y ∈ (writeLoop ρ sid key b rem s).1.chain, y.key = key ∧ y.outEof = true := by
  fun_induction writeLoop ρ sid key b rem s with
  | case1 s => simp at hz
  | case2 s c cs hρ => simp at hz
  | case3 s c cs hρ s1 =>
    obtain ⟨x, hxm, hxk⟩ := hx
    obtain ⟨x', hx', hp', hm⟩ := modifyFirst_hits (p := hasKey key) (f := fun y => { y with outEof := true }) hxm (by simp [hxk])
    exact ⟨_, hm, by simpa using hp', rfl⟩
  | case4 s c cs k hρ ih => exact ih hz hx

theorem writeio_zero (ρ : Nat → Reply) (s : St) (ok : OutKind) (name : String) (b : Bool) (d : List Char)
    (hz : (writeio ρ s ok name b d).2 = 0) :
    ∃ y ∈ (writeio ρ s ok name b d).1.chain, y.key = ok.key name ∧ (y.outEof = true ∨ y.outEos = true) := by
  rcases hprep : prepareWrite ρ s ok name with ⟨s1, r⟩
  cases r with
  | err => simp [writeio, hprep] at hz
  | skip =>
    simp only [writeio, hprep]
    -- `skip`: the node was found with a flag set
    unfold prepareWrite at hprep
    simp only at hprep
    split at hprep
    · next x hx =>
      simp only [Prod.mk.injEq] at hprep
      obtain ⟨rfl, hflag⟩ := hprep
      split at hflag
      · next hf =>
        refine ⟨x, (findKey_some hx).1, (findKey_some hx).2, ?_⟩
        simp only [Bool.or_eq_true] at hf
        exact hf.symm
      · cases hflag
    · split at hprep <;> simp at hprep
  | ready x =>
    simp only [writeio, hprep] at hz ⊢
    have hr := prepareWrite_ready (ρ := ρ) (s := s) (ok := ok) (name := name) (x := x) (by rw [hprep])
    rw [hprep] at hr
    have hk : x.key = ok.key name := (findKey_some hr.1).2
    obtain ⟨y, hy, hyk, hye⟩ := writeLoop_zero ρ x.sid x.key b d s1 hz ⟨x, (findKey_some hr.1).1, rfl⟩
    exact ⟨y, hy, by rw [hyk, hk], .inl hye⟩

theorem findKey_of_mem {c : List Strm} (hnd : (keys c).Nodup) {x : Strm} (hx : x ∈ c) : findKey c x.key = some x := by
  induction c with
  | nil => simp at hx
  | cons a as ih =>
    simp only [keys_cons, List.nodup_cons] at hnd
    unfold findKey
    rw [List.find?_cons]
    rcases List.mem_cons.mp hx with rfl | hx
    · simp [hasKey]
    · have : a.key ≠ x.key := fun h => hnd.1 (h ▸ mem_keys.mpr ⟨x, hx, rfl⟩)
      simp only [hasKey, this, decide_false]
      exact ih hnd.2 hx

/-- a write to a stream whose `out.eof`/`out.eos` is set returns 0 and does not call the handler -/
theorem writeio_silent (ρ : Nat → Reply) {s : St} (hnd : (keys s.chain).Nodup) (ok : OutKind) (name : String) (b : Bool)
    (d : List Char) {x : Strm} (hx : x ∈ s.chain) (hk : x.key = ok.key name) (hflag : x.outEof = true ∨ x.outEos = true) :
    writeio ρ s ok name b d = (s, 0) := by
  have hf := findKey_of_mem hnd hx
  rw [hk] at hf
  unfold writeio prepareWrite
  simp only [hf]
  have : (x.outEos || x.outEof) = true := by rcases hflag with h | h <;> simp [h]
  simp [this]

end Hawk.Rio

namespace Hawk.Rio

/-! ## what a program intends to print -/

/-- the characters a sequence of `writeio` calls carries -/
def piecesData (ps : List (Bool × List Char)) : List Char := (ps.map (·.2)).flatten

/-- the text a statement prints to key `k`: the items separated by OFS and terminated by ORS for
`print`, the (%-free) format for `printf` -/
def stmtPayload (cfg : Cfg) (k : Key) : Stmt → List Char
  | .print ok name _ none => if ok.key name = k then cfg.ors else []
  | .print ok name _ (some items) => if ok.key name = k then (items.intersperse cfg.ofs).flatten ++ cfg.ors else []
  | .printf ok name _ d => if ok.key name = k then d else []
  | _ => []

def progPayload (cfg : Cfg) (k : Key) (prog : List Stmt) : List Char := (prog.map (stmtPayload cfg k)).flatten

theorem piecesData_go (cfg : Cfg) (b : Bool) (items : List (List Char)) :
    piecesData (printPieces.go cfg b items false) = (items.map (fun i => cfg.ofs ++ i)).flatten := by
  induction items with
  | nil => simp [printPieces.go, piecesData]
  | cons i is ih =>
    simp only [piecesData] at ih
    simp [printPieces.go, piecesData, ih]

theorem flatten_intersperse (sep : List Char) (i : List Char) (is : List (List Char)) :
    ((i :: is).intersperse sep).flatten = i ++ (is.map (fun j => sep ++ j)).flatten := by
  induction is generalizing i with
  | nil => simp
  | cons j js ih => simp [List.intersperse, ih j]

theorem piecesData_printPieces (cfg : Cfg) (b : Bool) (items : Option (List (List Char))) :
    piecesData (printPieces cfg b items) =
      match items with
      | none => cfg.ors
      | some l => (l.intersperse cfg.ofs).flatten ++ cfg.ors := by
  cases items with
  | none => simp [printPieces, piecesData]
  | some l =>
    cases l with
    | nil => simp [printPieces, printPieces.go, piecesData]
    | cons i is =>
      have h := piecesData_go cfg b is
      simp only [piecesData] at h
      simp only [printPieces, printPieces.go, piecesData, flatten_intersperse]
      simp [h]

/-! ## statements under an always-accepting handler -/

theorem writePieces_allAccept {ρ : Nat → Reply} (hρ : AllAccept ρ) (tol : Bool) (ok : OutKind) (name : String)
    (ps : List (Bool × List Char)) (s : St) (failed : Bool) (hn : NoFlags s) :
    (writePieces ρ tol ok name ps s failed).2 = some failed ∧ NoFlags (writePieces ρ tol ok name ps s failed).1 ∧
    ∀ k, delivered k (writePieces ρ tol ok name ps s failed).1.log =
      delivered k s.log ++ (if ok.key name = k then piecesData ps else []) := by
  induction ps generalizing s failed with
  | nil => exact ⟨rfl, hn, by simp [writePieces, piecesData]⟩
  | cons p ps ih =>
    obtain ⟨b, d⟩ := p
    have hw := writeio_allAccept hρ hn ok name b d
    obtain ⟨d', -, hdel, hfull, -⟩ := writeio_delivers ρ s ok name b d
    have hd' := hfull hw.1
    rw [hd'] at hdel
    unfold writePieces
    simp only [hw.1]
    have := ih (writeio ρ s ok name b d).1 failed hw.2
    refine ⟨by simpa using this.1, by simpa using this.2.1, fun k => ?_⟩
    have h2 := this.2.2 k
    simp only [show ¬ ((1:Int) ≤ -1) by decide, if_false]
    rw [h2, hdel k]
    by_cases hk : ok.key name = k <;> simp [hk, piecesData]

theorem fflushFold_frame (ρ : Nat → Reply) (name : Option String) (ks : List OutKind) (s : St) (n : Int) :
    (fflushFold ρ name ks s n).1.chain = s.chain ∧
    ∀ k, delivered k (fflushFold ρ name ks s n).1.log = delivered k s.log := by
  induction ks generalizing s n with
  | nil => exact ⟨rfl, fun _ => rfl⟩
  | cons k ks ih =>
    unfold fflushFold
    simp only
    have := ih (flushio ρ s k name).1
    refine ⟨by rw [(this _).1]; exact flushLoop_chain ρ k name _ s false, fun k' => ?_⟩
    rw [(this _).2 k']; exact flushLoop_delivered ρ k name _ s false k'

theorem stmt_allAccept {ρ : Nat → Reply} (hρ : AllAccept ρ) (cfg : Cfg) (s : St) (st : Stmt) (hn : NoFlags s) :
    NoFlags (stmt ρ cfg s st).1 ∧
    ∀ k, delivered k (stmt ρ cfg s st).1.log = delivered k s.log ++ stmtPayload cfg k st := by
  cases st with
  | print ok name bytes items =>
    have := writePieces_allAccept hρ cfg.tolerant ok name (printPieces cfg bytes items) s false hn
    have hpd := piecesData_printPieces cfg bytes items
    simp only [stmt]
    split
    · next s1 heq => rw [heq] at this; simp at this
    · next s1 f heq =>
      rw [heq] at this
      refine ⟨this.2.1, fun k => ?_⟩
      rw [this.2.2 k, hpd]
      cases items <;> rfl
  | printf ok name bytes data =>
    have hw := writeio_allAccept hρ hn ok name bytes data
    obtain ⟨d', -, hdel, hfull, -⟩ := writeio_delivers ρ s ok name bytes data
    have hd' := hfull hw.1
    rw [hd'] at hdel
    have hfl := flushio_noFlags ρ hw.2 ok (some name)
    have hfd := flushLoop_delivered ρ ok (some name) (writeio ρ s ok name bytes data).1.chain (writeio ρ s ok name bytes data).1 false
    simp only [stmt, hw.1]
    simp only [show ¬ ((1:Int) ≤ -1) by decide, false_and, if_false, false_or]
    split
    · exact ⟨hfl, fun k => by rw [show (flushio ρ (writeio ρ s ok name bytes data).1 ok (some name)).1.log = _ from rfl]; unfold flushio; rw [hfd k, hdel k]; rfl⟩
    · exact ⟨hfl, fun k => by unfold flushio; rw [hfd k, hdel k]; rfl⟩
  | close name opt =>
    exact ⟨closeio_noFlags ρ hn name opt, fun k => by simp [stmt, stmtPayload, closeio_delivered]⟩
  | fflush0 =>
    exact ⟨flushio_noFlags ρ hn .console (some ""), fun k => by simp [stmt, stmtPayload, flushio, flushLoop_delivered]⟩
  | fflush name =>
    have := fflushFold_frame ρ name [.file, .apfile, .pipe, .rwpipe] s 1
    exact ⟨hn.same this.1, fun k => by simp [stmt, stmtPayload, this.2 k]⟩
  | getline ik name =>
    exact ⟨readio_noFlags ρ cfg.readFuel hn ik name, fun k => by simp [stmt, stmtPayload, readio_delivered]⟩
  | nextofile =>
    exact ⟨nextioWrite_noFlags hρ hn .console "", fun k => by simp [stmt, stmtPayload, nextioWrite_delivered]⟩

theorem runStmts_allAccept {ρ : Nat → Reply} (hρ : AllAccept ρ) (cfg : Cfg) (prog : List Stmt) (s : St) (hn : NoFlags s) :
    ∃ n, n ≤ prog.length ∧ ((runStmts ρ cfg prog s).2 = false → n = prog.length) ∧
      ∀ k, delivered k (runStmts ρ cfg prog s).1.log = delivered k s.log ++ progPayload cfg k (prog.take n) := by
  induction prog generalizing s with
  | nil => exact ⟨0, Nat.le_refl _, fun _ => rfl, fun k => by simp [runStmts, progPayload]⟩
  | cons st rest ih =>
    have hs := stmt_allAccept hρ cfg s st hn
    unfold runStmts
    simp only
    split
    · refine ⟨1, by simp, by simp, fun k => ?_⟩
      rw [hs.2 k]; simp [progPayload]
    · obtain ⟨n, hn1, hn2, hn3⟩ := ih (stmt ρ cfg s st).1 hs.1
      refine ⟨n + 1, by simp; omega, fun h => by simp [hn2 h], fun k => ?_⟩
      rw [hn3 k, hs.2 k]
      simp [progPayload, List.append_assoc]

end Hawk.Rio

namespace Hawk.Rio

/-- some call with number in `[a, b)` is answered `eof` -/
def EofIn (ρ : Nat → Reply) (a b : Nat) : Prop := ∃ i, a ≤ i ∧ i < b ∧ ρ i = .eof

/-- the re-offer loop only makes WRITE calls; one answered "end of stream" ends it with 0 -/
theorem writeLoop_eof (ρ : Nat → Reply) (sid : Nat) (key : Key) (b : Bool) (rem : List Char) (s : St)
    (h : EofIn ρ s.calls (writeLoop ρ sid key b rem s).1.calls) : (writeLoop ρ sid key b rem s).2 = 0 := by
  fun_induction writeLoop ρ sid key b rem s with
  | case1 s => obtain ⟨i, h1, h2, -⟩ := h; simp only at h2; omega
  | case2 s c cs hρ =>
    obtain ⟨i, h1, h2, h3⟩ := h
    simp at h2
    have : i = s.calls := by omega
    subst this; rw [hρ] at h3; cases h3
  | case3 s c cs hρ s1 => rfl
  | case4 s c cs k hρ ih =>
    apply ih
    obtain ⟨i, h1, h2, h3⟩ := h
    have : i ≠ s.calls := by rintro rfl; rw [hρ] at h3; cases h3
    exact ⟨i, by simp; omega, h2, h3⟩

end Hawk.Rio

namespace Hawk.Rio

/-- two lists of equal length related element by element -/
inductive Pointwise {α β : Type} (R : α → β → Prop) : List α → List β → Prop
  | nil : Pointwise R [] []
  | cons {a : α} {b : β} {as : List α} {bs : List β} : R a b → Pointwise R as bs → Pointwise R (a :: as) (b :: bs)

theorem count_eq_one_of_mem_nodup {l : List Key} (hnd : l.Nodup) {k : Key} (hk : k ∈ l) : l.count k = 1 := by
  have h1 := List.nodup_iff_count.mp hnd k
  have h2 := List.count_pos_iff.mpr hk
  omega

end Hawk.Rio

namespace Hawk.Rio

/-! ## statement level: success means complete delivery (unless the stream is at "end of stream") -/

theorem writePieces_silent (ρ : Nat → Reply) (tol : Bool) (ok : OutKind) (name : String) (ps : List (Bool × List Char))
    {s : St} (failed : Bool) (hnd : (keys s.chain).Nodup) {x : Strm} (hx : x ∈ s.chain) (hk : x.key = ok.key name)
    (hflag : x.outEof = true ∨ x.outEos = true) :
    writePieces ρ tol ok name ps s failed = (s, some failed) := by
  induction ps with
  | nil => rfl
  | cons p ps ih =>
    obtain ⟨b, d⟩ := p
    unfold writePieces
    simp only [writeio_silent ρ hnd ok name b d hx hk hflag]
    simpa using ih

theorem writePieces_success (ρ : Nat → Reply) (tol : Bool) (ok : OutKind) (name : String) (ps : List (Bool × List Char))
    (s : St) (h : Inv s)
    (hres : (writePieces ρ tol ok name ps s false).2 = some false)
    (hclear : ∀ y ∈ (writePieces ρ tol ok name ps s false).1.chain, y.key = ok.key name → y.outEof = false ∧ y.outEos = false) :
    ∀ k, delivered k (writePieces ρ tol ok name ps s false).1.log =
      delivered k s.log ++ (if ok.key name = k then piecesData ps else []) := by
  induction ps generalizing s with
  | nil => intro k; simp [writePieces, piecesData]
  | cons p ps ih =>
    obtain ⟨b, d⟩ := p
    obtain ⟨d', -, hdel, hfull, htri⟩ := writeio_delivers ρ s ok name b d
    have hinv := writeio_inv ρ ok name b d h
    unfold writePieces at hres hclear ⊢
    simp only at hres hclear ⊢
    rcases htri with h1 | h0 | hm
    · -- the piece was written completely
      have hd := hfull h1
      rw [hd] at hdel
      simp only [h1, show ¬ ((1:Int) ≤ -1) by decide, if_false] at hres hclear ⊢
      intro k
      rw [ih _ hinv hres hclear k, hdel k]
      by_cases hk : ok.key name = k <;> simp [hk, piecesData]
    · -- the stream is at "end of stream": everything after is silent, so the flag is still set at the end
      exfalso
      simp only [h0, show ¬ ((0:Int) ≤ -1) by decide, if_false] at hres hclear
      obtain ⟨y, hy, hyk, hyf⟩ := writeio_zero ρ s ok name b d h0
      have hs := writePieces_silent ρ tol ok name ps false hinv.nodup hy hyk hyf
      rw [hs] at hclear
      have := hclear y hy hyk
      rcases hyf with hyf | hyf
      · rw [this.1] at hyf; cases hyf
      · rw [this.2] at hyf; cases hyf
    · -- a failure: aborted, or `failed` stays set
      exfalso
      simp only [hm, show ((-1:Int) ≤ -1) by decide, if_true] at hres
      cases tol with
      | false => simp at hres
      | true =>
        simp only [if_true] at hres
        have := (writePieces_fail ρ true ok name ps (writeio ρ s ok name b d).1 true).2 (.inl rfl)
        rw [hres] at this
        simp at this

theorem stmt_print_success (ρ : Nat → Reply) (cfg : Cfg) (s : St) (h : Inv s) (ok : OutKind) (name : String) (bytes : Bool)
    (items : Option (List (List Char)))
    (hres : (stmt ρ cfg s (.print ok name bytes items)).2 = .unit ∨ (stmt ρ cfg s (.print ok name bytes items)).2 = .val 0)
    (hclear : ∀ y ∈ (stmt ρ cfg s (.print ok name bytes items)).1.chain, y.key = ok.key name → y.outEof = false ∧ y.outEos = false) :
    ∀ k, delivered k (stmt ρ cfg s (.print ok name bytes items)).1.log =
      delivered k s.log ++ stmtPayload cfg k (.print ok name bytes items) := by
  have hw := writePieces_success ρ cfg.tolerant ok name (printPieces cfg bytes items) s h
  have hpd := piecesData_printPieces cfg bytes items
  simp only [stmt] at hres hclear ⊢
  rcases hwp : writePieces ρ cfg.tolerant ok name (printPieces cfg bytes items) s false with ⟨s1, r⟩
  rw [hwp] at hw hres hclear
  cases r with
  | none => simp at hres
  | some f =>
    simp only at hres hclear ⊢
    have hf : f = false := by
      cases f with
      | false => rfl
      | true =>
        exfalso
        cases ht : cfg.tolerant with
        | true => simp [ht] at hres
        | false =>
          -- non-tolerant runs never produce `some true`
          have key : ∀ (ps : List (Bool × List Char)) (s : St), (writePieces ρ false ok name ps s false).2 ≠ some true := by
            intro ps
            induction ps with
            | nil => intro s; simp [writePieces]
            | cons p ps ih =>
              intro s; obtain ⟨b, d⟩ := p
              unfold writePieces; simp only
              split
              · simp
              · exact ih _
          rw [ht] at hwp
          exact key _ s (by rw [hwp])
    subst hf
    intro k
    rw [hw rfl hclear k, hpd]
    cases items <;> rfl

theorem stmt_printf_success (ρ : Nat → Reply) (cfg : Cfg) (s : St) (ok : OutKind) (name : String) (bytes : Bool)
    (data : List Char)
    (hres : (stmt ρ cfg s (.printf ok name bytes data)).2 = .unit ∨ (stmt ρ cfg s (.printf ok name bytes data)).2 = .val 0)
    (hclear : ∀ y ∈ (stmt ρ cfg s (.printf ok name bytes data)).1.chain, y.key = ok.key name → y.outEof = false ∧ y.outEos = false) :
    ∀ k, delivered k (stmt ρ cfg s (.printf ok name bytes data)).1.log =
      delivered k s.log ++ stmtPayload cfg k (.printf ok name bytes data) := by
  obtain ⟨d', -, hdel, hfull, htri⟩ := writeio_delivers ρ s ok name bytes data
  have hfc := flushLoop_chain ρ ok (some name) (writeio ρ s ok name bytes data).1.chain (writeio ρ s ok name bytes data).1 false
  have hfd := flushLoop_delivered ρ ok (some name) (writeio ρ s ok name bytes data).1.chain (writeio ρ s ok name bytes data).1 false
  simp only [stmt] at hres hclear ⊢
  rcases htri with h1 | h0 | hm
  · have hd := hfull h1
    rw [hd] at hdel
    simp only [h1, show ¬ ((1:Int) ≤ -1) by decide, false_and, if_false, false_or] at hres hclear ⊢
    intro k
    split <;> (simp only [flushio]; rw [hfd k, hdel k]; rfl)
  · exfalso
    simp only [h0, show ¬ ((0:Int) ≤ -1) by decide, false_and, if_false, false_or] at hres hclear
    obtain ⟨y, hy, hyk, hyf⟩ := writeio_zero ρ s ok name bytes data h0
    have hy' : y ∈ (flushio ρ (writeio ρ s ok name bytes data).1 ok (some name)).1.chain := by
      simp only [flushio]; rw [hfc]; exact hy
    have : y.outEof = false ∧ y.outEos = false := by
      split at hclear <;> exact hclear y hy' hyk
    rcases hyf with hyf | hyf
    · rw [this.1] at hyf; cases hyf
    · rw [this.2] at hyf; cases hyf
  · exfalso
    simp only [hm, show ((-1:Int) ≤ -1) by decide, true_and, true_or, if_true] at hres
    cases ht : cfg.tolerant <;> simp [ht] at hres

end Hawk.Rio

namespace Hawk.Rio

/-! ## the fuel of the console read loop is only a bound: once a read returns, more fuel changes nothing;
running out of fuel means that many handler calls were made without the loop ending -/

theorem readLoop_fuel_mono (ρ : Nat → Reply) (con : Bool) (sid : Nat) (key : Key) (fuel : Nat) (eof : Bool) (s : St)
    (h : (readLoop ρ con sid key fuel eof s).2 ≠ -2) :
    readLoop ρ con sid key (fuel + 1) eof s = readLoop ρ con sid key fuel eof s := by
  induction fuel generalizing eof s with
  | zero => simp [readLoop] at h
  | succ fuel ih =>
    cases eof with
    | true =>
      unfold readLoop
      unfold readLoop at h
      split
      · rfl
      · split
        · rfl
        · rfl
        · next j hρ =>
          simp only [‹¬ (!con) = true›, hρ] at h
          exact ih _ _ h
    | false =>
      unfold readLoop
      unfold readLoop at h
      split
      · rfl
      · next hρ =>
        simp only [hρ] at h
        exact ih _ _ h
      · rfl

theorem readLoop_hang_calls (ρ : Nat → Reply) (con : Bool) (sid : Nat) (key : Key) (fuel : Nat) (eof : Bool) (s : St)
    (h : (readLoop ρ con sid key fuel eof s).2 = -2) :
    (readLoop ρ con sid key fuel eof s).1.calls = s.calls + fuel ∧ (2 ≤ fuel → con = true) := by
  induction fuel generalizing eof s with
  | zero => exact ⟨rfl, fun h => absurd h (by decide)⟩
  | succ fuel ih =>
    cases eof with
    | true =>
      unfold readLoop at h ⊢
      split at h
      · simp at h
      · next hc =>
        have hcon : con = true := by simpa using hc
        split at h
        · simp at h
        · simp at h
        · next j hρ =>
          simp only [hc, if_false, Bool.false_eq_true]
          have := ih _ _ h
          exact ⟨by rw [this.1]; simp; omega, fun _ => hcon⟩
    | false =>
      unfold readLoop at h ⊢
      split at h
      · simp at h
      · next hρ =>
        simp only
        have := ih _ _ h
        refine ⟨by rw [this.1]; simp; omega, fun h2 => ?_⟩
        -- the recursive call starts at EOF: with fuel ≥ 1 left it returns 0 at once unless the input is the console
        cases fuel with
        | zero => omega
        | succ f =>
          unfold readLoop at h
          split at h
          · simp at h
          · next hc => simpa using hc
      · simp at h

theorem readio_fuel_mono (ρ : Nat → Reply) (fuel : Nat) (s : St) (ik : InKind) (name : String)
    (h : (readio ρ fuel s ik name).2 ≠ -2) : readio ρ (fuel + 1) s ik name = readio ρ fuel s ik name := by
  unfold readio at h ⊢
  simp only at h ⊢
  split
  · next x hx =>
    simp only [hx] at h
    unfold readRec at h ⊢
    split
    · rfl
    · next hne => simp only [hne] at h; exact readLoop_fuel_mono _ _ _ _ _ _ _ h
  · next hnone =>
    simp only [hnone] at h
    split
    · rfl
    · next hne =>
      unfold readRec at h ⊢
      simp only [Bool.false_eq_true, if_false] at h ⊢
      exact readLoop_fuel_mono _ _ _ _ _ _ _ h

end Hawk.Rio

namespace Hawk.Rio

/-! ## the result of the final flush -/

theorem flushallFails_allAccept {ρ : Nat → Reply} (hρ : AllAccept ρ) (l : List Strm) (c : Nat) :
    flushallFails ρ l c = false := by
  induction l generalizing c with
  | nil => rfl
  | cons x xs ih =>
    obtain ⟨k, hk⟩ := hρ c
    simp [flushallFails, hk, Reply.isFail, ih]

/-- the FLUSH sent to the `i`-th node of the chain has call number `c + i`; if that node has a write side and
the call fails, `hawk_rtx_flushallios` reports failure -/
theorem flushallFails_of {ρ : Nat → Reply} {l : List Strm} {c i : Nat} {x : Strm} (hx : l[i]? = some x)
    (hw : x.hasWriteSide = true) (hf : ρ (c + i) = .fail) : flushallFails ρ l c = true := by
  induction l generalizing c i with
  | nil => simp at hx
  | cons y ys ih =>
    cases i with
    | zero =>
      simp only [List.getElem?_cons_zero, Option.some.injEq] at hx
      subst hx
      simp [flushallFails, show ρ c = .fail by simpa using hf, Reply.isFail, hw]
    | succ j =>
      simp only [List.getElem?_cons_succ] at hx
      have := ih (c := c + 1) (i := j) hx (by rw [← hf]; congr 1; omega)
      simp [flushallFails, this]

/-- call numbers of the final flush: the log of `flushallLoop` gains exactly one FLUSH per node, in chain order -/
theorem flushallLoop_calls (ρ : Nat → Reply) (l : List Strm) (s : St) : (flushallLoop ρ l s).calls = s.calls + l.length := by
  induction l generalizing s with
  | nil => rfl
  | cons x xs ih => unfold flushallLoop; rw [ih]; simp; omega

end Hawk.Rio
