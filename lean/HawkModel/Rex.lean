/-!
# C06 — POSIX leftmost-longest matching of extended regular expressions: the *specification* model

TRE's TNFA construction and its two matchers (`tre-compile.c`, `tre-match-bt.c`, `tre-match-pa.c`)
are NOT modelled.  This file defines

* `Re`       — the ERE syntax tree hawk accepts (`hawk_gem_buildrex`: `HAWK_TRE_EXTENDED`, bounds on),
* `Matches`  — the denotational meaning: `Matches f s r i j` = "`r` matches the slice `[i,j)` of the
               whole subject `s`"; anchors are predicates on the position in `s` (`^` only at 0 and only
               when the caller did not pass NOTBOL, `$` only at `s.length`),
* `ends`     — an executable, structurally recursive function returning all `j` with `Matches f s r i j`,
* `matchLL`  — POSIX leftmost-longest search built on `ends` (what `~`, `match()`, `split()`,
               `sub()/gsub()` and regex FS/RS must observe through `hawk_rtx_matchrexwith*`).

The theorems are in `Props/C06.lean`; the tie to TRE is the exhaustive bounded correspondence of
`vlib/props/c06.py`.  Core Lean only.
-/
namespace Hawk.Rex

/-- named character classes `[:alpha:]` … (ASCII meaning, as `hawk_is_uch_*` give for ASCII subjects) -/
inductive CClass where
  | alpha | digit | upper | lower | alnum | space | blank | punct | xdigit | cntrl | print | graph
deriving Repr, DecidableEq, Inhabited

def between (lo hi : Nat) (d : Char) : Bool := decide (lo ≤ d.toNat) && decide (d.toNat ≤ hi)

def CClass.has : CClass → Char → Bool
  | .alpha, d => d.isAlpha
  | .digit, d => d.isDigit
  | .upper, d => d.isUpper
  | .lower, d => d.isLower
  | .alnum, d => d.isAlphanum
  | .space, d => between 9 13 d || d == ' '
  | .blank, d => d == ' ' || d == '\t'
  | .punct, d => between 33 47 d || between 58 64 d || between 91 96 d || between 123 126 d
  | .xdigit, d => d.isDigit || between 65 70 d || between 97 102 d
  | .cntrl, d => between 0 31 d || d.toNat == 127
  | .print, d => between 32 126 d
  | .graph, d => between 33 126 d

/-- TRE's `IS_WORD_CHAR`: `_` or alphanumeric -/
def isWord (d : Char) : Bool := d == '_' || d.isAlphanum

/-- word assertions (TRE/GNU extensions, outside POSIX): `\<` `\>` `\b` `\B` -/
inductive WordB where
  | bow | eow | wb | nwb
deriving Repr, DecidableEq, Inhabited

/-- one item of a bracket expression -/
inductive ClsItem where
  | chr (c : Char)
  | range (lo hi : Char)
  | named (k : CClass)
deriving Repr, DecidableEq, Inhabited

/-- ERE syntax tree.  `emp` is the empty regular expression (`()` or an empty alternative, which TRE
accepts).  `rep a m n` is `a{m}` (`n = some m`), `a{m,}` (`n = none`), `a{m,n}`. -/
inductive Re where
  | emp
  | chr (c : Char)
  | any
  | cls (neg : Bool) (items : List ClsItem)
  | bol
  | eol
  | wordb (k : WordB)
  | cat (a b : Re)
  | alt (a b : Re)
  | star (a : Re)
  | plus (a : Re)
  | opt (a : Re)
  | rep (a : Re) (m : Nat) (n : Option Nat)
  | grp (a : Re)
deriving Repr, Inhabited

/-- `icase`: the pattern was compiled with `HAWK_TRE_IGNORECASE` (hawk: `IGNORECASE != 0` selects
`code[1]`); `notbol`: the call passes `HAWK_TRE_NOTBOL` (hawk: `str->ptr != substr->ptr`); `noteol`: the call
passes `HAWK_TRE_NOTEOL` (library API only; no hawk caller sets it). -/
structure Flags where
  icase : Bool := false
  notbol : Bool := false
  noteol : Bool := false
deriving Repr, DecidableEq, Inhabited

/-- case folding (ASCII letters only, like `Char.toLower`) -/
def fold (c : Char) : Char := c.toLower
def upper (c : Char) : Char := c.toUpper

/-- literal comparison -/
def chrEq (ic : Bool) (c d : Char) : Bool := if ic then fold c == fold d else c == d

def inRange (lo hi d : Char) : Bool := decide (lo.val ≤ d.val) && decide (d.val ≤ hi.val)

/-- bracket item membership.  Under IGNORECASE a single character is compared after folding and a
range contains `d` when it contains `d`, its lower-case or its upper-case form (TRE adds both case
variants of every member of the range); a named class likewise (TRE tests `tolower d` and `toupper d`). -/
def itemHas (ic : Bool) : ClsItem → Char → Bool
  | .chr c, d => chrEq ic c d
  | .range lo hi, d => inRange lo hi d || (ic && (inRange lo hi (fold d) || inRange lo hi (upper d)))
  | .named k, d => k.has d || (ic && (k.has (fold d) || k.has (upper d)))

def clsHas (ic : Bool) (neg : Bool) (items : List ClsItem) (d : Char) : Bool :=
  (items.any fun it => itemHas ic it d) != neg

/-! ## denotational semantics -/

/-- reflexive-transitive closure of a step relation on positions -/
inductive Iter (R : Nat → Nat → Prop) : Nat → Nat → Prop
  | refl (i : Nat) : Iter R i i
  | step {i k j : Nat} : R i k → Iter R k j → Iter R i j

/-- exactly `n` steps -/
def IterN (R : Nat → Nat → Prop) : Nat → Nat → Nat → Prop
  | 0, i, j => i = j
  | n + 1, i, j => ∃ k, R i k ∧ IterN R n k j

/-- is there a word character just before / at position `i` (outside the subject: no) -/
def prevW (s : List Char) (i : Nat) : Bool := match i with
  | 0 => false
  | k + 1 => match s[k]? with
    | some d => isWord d
    | none => false

def nextW (s : List Char) (i : Nat) : Bool := match s[i]? with
  | some d => isWord d
  | none => false

/-- word assertion at position `i`, transcribed from `CHECK_ASSERTIONS` (tre-match-ut.h): the matcher sees only
the subject it is given, so at position 0 there is no previous character even under NOTBOL; `\b` holds at both
ends of the subject unconditionally and `\B` at neither. -/
def wordbHolds (s : List Char) (i : Nat) : WordB → Bool
  | .bow => !prevW s i && nextW s i
  | .eow => prevW s i && !nextW s i
  | .wb => i == 0 || i == s.length || (prevW s i != nextW s i)
  | .nwb => i != 0 && i != s.length && (prevW s i == nextW s i)

/-- `Matches f s r i j`: `r` matches `s[i..j)` in the context of the whole subject `s`. -/
def Matches (f : Flags) (s : List Char) : Re → Nat → Nat → Prop
  | .emp, i, j => i = j ∧ i ≤ s.length
  | .chr c, i, j => j = i + 1 ∧ ∃ d, s[i]? = some d ∧ chrEq f.icase c d = true
  | .any, i, j => j = i + 1 ∧ i < s.length
  | .cls neg items, i, j => j = i + 1 ∧ ∃ d, s[i]? = some d ∧ clsHas f.icase neg items d = true
  | .bol, i, j => i = j ∧ i = 0 ∧ f.notbol = false
  | .eol, i, j => i = j ∧ i = s.length ∧ f.noteol = false
  | .wordb k, i, j => i = j ∧ i ≤ s.length ∧ wordbHolds s i k = true
  | .cat a b, i, j => ∃ k, Matches f s a i k ∧ Matches f s b k j
  | .alt a b, i, j => Matches f s a i j ∨ Matches f s b i j
  | .star a, i, j => i ≤ s.length ∧ Iter (Matches f s a) i j
  | .plus a, i, j => ∃ k, Matches f s a i k ∧ Iter (Matches f s a) k j
  | .opt a, i, j => (i = j ∧ i ≤ s.length) ∨ Matches f s a i j
  | .rep a m n, i, j => i ≤ s.length ∧ ∃ k, m ≤ k ∧ (∀ n', n = some n' → k ≤ n') ∧ IterN (Matches f s a) k i j
  | .grp a, i, j => Matches f s a i j

/-! ## executable matcher -/

/-- append `x` unless already present -/
def addNew (acc : List Nat) (x : Nat) : List Nat := if acc.contains x then acc else acc ++ [x]

/-- duplicate-free union (keeps `a` as is) -/
def union (a b : List Nat) : List Nat := b.foldl addNew a

/-- one step from every element of a set -/
def stepAll (step : Nat → List Nat) (l : List Nat) : List Nat := l.foldl (fun acc x => union acc (step x)) []

/-- closure of `acc` under `step`; stops early at a fixed point.  `fuel` rounds suffice when every
chain of *new* positions is at most `fuel` long (positions only grow and are bounded by the subject length). -/
def closure (step : Nat → List Nat) : Nat → List Nat → List Nat
  | 0, acc => acc
  | fuel + 1, acc =>
    let nxt := (stepAll step acc).filter fun k => !acc.contains k
    if nxt.isEmpty then acc else closure step fuel (acc ++ nxt)

/-- exactly `n` steps from a set -/
def pow (step : Nat → List Nat) : Nat → List Nat → List Nat
  | 0, l => l
  | n + 1, l => pow step n (stepAll step l)

/-- between 0 and `n` steps from a set -/
def upto (step : Nat → List Nat) : Nat → List Nat → List Nat
  | 0, l => l
  | n + 1, l => union l (upto step n (stepAll step l))

/-- all end positions `j` such that `r` matches `s[i..j)` (as a duplicate-free list) -/
def ends (f : Flags) (s : List Char) : Re → Nat → List Nat
  | .emp, i => if i ≤ s.length then [i] else []
  | .chr c, i => match s[i]? with
    | some d => if chrEq f.icase c d then [i + 1] else []
    | none => []
  | .any, i => if i < s.length then [i + 1] else []
  | .cls neg items, i => match s[i]? with
    | some d => if clsHas f.icase neg items d then [i + 1] else []
    | none => []
  | .bol, i => if i = 0 ∧ f.notbol = false then [i] else []
  | .eol, i => if i = s.length ∧ f.noteol = false then [i] else []
  | .wordb k, i => if i ≤ s.length ∧ wordbHolds s i k = true then [i] else []
  | .cat a b, i => stepAll (ends f s b) (ends f s a i)
  | .alt a b, i => union (ends f s a i) (ends f s b i)
  | .star a, i => if i ≤ s.length then closure (ends f s a) (s.length + 1) [i] else []
  | .plus a, i => closure (ends f s a) (s.length + 1) (ends f s a i)
  | .opt a, i => union (if i ≤ s.length then [i] else []) (ends f s a i)
  | .rep a m n, i =>
    if i ≤ s.length then
      match n with
      | none => closure (ends f s a) (s.length + 1) (pow (ends f s a) m [i])
      | some n' => if m ≤ n' then upto (ends f s a) (n' - m) (pow (ends f s a) m [i]) else []
    else []
  | .grp a, i => ends f s a i

/-- greatest element -/
def maxOf : List Nat → Option Nat
  | [] => none
  | x :: l => match maxOf l with
    | none => some x
    | some m => some (max x m)

/-- try start positions `i, i+1, …` (`todo` of them); at the first start with a match report the longest -/
def search (f : Flags) (s : List Char) (r : Re) : Nat → Nat → Option (Nat × Nat)
  | 0, _ => none
  | todo + 1, i => match maxOf (ends f s r i) with
    | some e => some (i, e - i)
    | none => search f s r todo (i + 1)

/-- POSIX leftmost-longest: `some (start, length)` of the match in `s`, or `none` -/
def matchLL (f : Flags) (r : Re) (s : List Char) : Option (Nat × Nat) := search f s r (s.length + 1) 0

/-- the POSIX leftmost-longest requirement: `(st, len)` is a match of `r` in `s`, no match starts
before `st`, and no match starting at `st` is longer -/
def IsLL (f : Flags) (s : List Char) (r : Re) (st len : Nat) : Prop :=
  Matches f s r st (st + len) ∧
  (∀ p e, p < st → ¬ Matches f s r p e) ∧
  (∀ e, Matches f s r st e → e ≤ st + len)

/-! ## case folding of a pattern -/

def foldItem : ClsItem → ClsItem
  | .chr c => .chr (fold c)
  | .range lo hi => .range lo hi
  | .named k => .named k

def foldRe : Re → Re
  | .emp => .emp
  | .chr c => .chr (fold c)
  | .any => .any
  | .cls neg items => .cls neg (items.map foldItem)
  | .bol => .bol
  | .eol => .eol
  | .wordb k => .wordb k
  | .cat a b => .cat (foldRe a) (foldRe b)
  | .alt a b => .alt (foldRe a) (foldRe b)
  | .star a => .star (foldRe a)
  | .plus a => .plus (foldRe a)
  | .opt a => .opt (foldRe a)
  | .rep a m n => .rep (foldRe a) m n
  | .grp a => .grp (foldRe a)

def itemNoRange : ClsItem → Bool
  | .chr _ => true
  | .range _ _ => false
  | .named _ => false

/-- every bracket expression of the pattern lists single characters only (no range, no named class) and
the pattern has no word assertion: the patterns for which IGNORECASE is literally "fold both sides" -/
def noRange : Re → Bool
  | .emp | .chr _ | .any | .bol | .eol => true
  | .wordb _ => false
  | .cls _ items => items.all itemNoRange
  | .cat a b | .alt a b => noRange a && noRange b
  | .star a | .plus a | .opt a | .rep a _ _ | .grp a => noRange a

/-- the pattern contains no `^` -/
def noBol : Re → Bool
  | .bol => false
  | .emp | .chr _ | .any | .eol | .cls _ _ | .wordb _ => true
  | .cat a b | .alt a b => noBol a && noBol b
  | .star a | .plus a | .opt a | .rep a _ _ | .grp a => noBol a

/-- the pattern contains no `$` -/
def noEol : Re → Bool
  | .eol => false
  | .emp | .chr _ | .any | .bol | .cls _ _ | .wordb _ => true
  | .cat a b | .alt a b => noEol a && noEol b
  | .star a | .plus a | .opt a | .rep a _ _ | .grp a => noEol a

/-- the pattern contains no word assertion -/
def noWordB : Re → Bool
  | .wordb _ => false
  | .emp | .chr _ | .any | .bol | .eol | .cls _ _ => true
  | .cat a b | .alt a b => noWordB a && noWordB b
  | .star a | .plus a | .opt a | .rep a _ _ | .grp a => noWordB a

end Hawk.Rex
